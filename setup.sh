#!/bin/bash
# Build the Coq development from scratch (full .vo build) and run the hygiene grep.
# A proof file that does not compile does not fail the setup: the checks whose cone
# contains it report the broken proof themselves (VIOLATION ... no-failing-input-found).
cd "$(dirname "$0")"
mkdir -p build evidence replays
cd coq
{ echo "-Q . CubedV"; ls Model/*.v Proofs/*.v Props/*.v 2>/dev/null; } > _CoqProject
coq_makefile -f _CoqProject -o Makefile > /dev/null || exit 1
timeout 3000 make -k -j16 > ../build/setup_make.log 2>&1
tail -n 5 ../build/setup_make.log
missing=0
for f in Model/*.v; do [ -f "${f%.v}.vo" ] || { echo "MODEL NOT COMPILED: $f"; missing=1; }; done
for f in Proofs/*.v Props/*.v; do [ -f "${f%.v}.vo" ] || echo "proof file not compiled (its checks will report it): $f"; done
cd ..
if grep -rnE '\b(Admitted|admit|Axiom|Parameter|Conjecture|Admit Obligations)\b|Unset Guard|bypass_check|type-in-type|impredicative-set|Unset Positivity|Unset Universe' coq --include='*.v' ; then
  echo "HYGIENE FAILURE" ; exit 1
fi
[ "$missing" = 0 ] || exit 1
echo "setup ok"
