#!/bin/bash
# Build the Coq development from scratch (full .vo build) and run the hygiene grep.
set -e
cd "$(dirname "$0")"
mkdir -p build evidence replays
cd coq
{ echo "-Q . CubedV"; ls Model/*.v Proofs/*.v Props/*.v 2>/dev/null; } > _CoqProject
coq_makefile -f _CoqProject -o Makefile > /dev/null
timeout 3000 make -j16 2>&1 | tail -n 40
test "${PIPESTATUS[0]}" = 0
cd ..
if grep -rnE '\b(Admitted|admit|Axiom|Parameter|Conjecture|Admit Obligations)\b|Unset Guard|bypass_check|type-in-type|impredicative-set|Unset Positivity|Unset Universe' coq --include='*.v' ; then
  echo "HYGIENE FAILURE" ; exit 1
fi
echo "setup ok"
