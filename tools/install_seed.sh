#!/bin/bash
# usage: tools/install_seed.sh <dir with patch.diff demo.py meta.json> <Cxx>  -> copies into seeded/<Cxx>-<name>/ and prints the directory
P=$2; N=$(python3 -c "import json,sys;print(json.load(open('$1/meta.json'))['name'])")
D=/verif/seeded/$P-$N; mkdir -p $D; cp $1/patch.diff $1/demo.py $1/meta.json $D/; echo $D
