#!/bin/bash
# usage: tools/run_all.sh [quick|thorough] [seed] [parallel]   - runs every check, prints verdict lines
TIER=${1:-quick}; SEED=${2:-0}; PAR=${3:-3}
cd /verif
mkdir -p build/runall
printf 'C%02d\n' $(seq 1 20) | VERIF_SEED=$SEED xargs -P $PAR -I{} sh -c "./check {} $TIER > build/runall/{}_${TIER}_$SEED.log 2>&1; echo {} exit=\$? \$(grep -cE '^VIOLATION' build/runall/{}_${TIER}_$SEED.log) violations \$(grep -E '^\[' build/runall/{}_${TIER}_$SEED.log | grep -oE 'wall=[0-9.]+s')"
grep -hE "^VIOLATION|^KNOWN" build/runall/*_${TIER}_$SEED.log
