#!/bin/bash
# Runs the repository's suite (without the environment-broken spark parametrisations) with each seeded patch applied,
# in a scratch worktree, and records the outcome in seeded/<id>/suite_result.txt
cd /verif
for S in seeded/*/; do
  [ -f $S/suite_result.txt ] && continue
  WT=/tmp/seedsuite_$$
  git -C /repo worktree add --detach $WT HEAD -q || continue
  ( cd $WT && git apply /verif/$S/patch.diff && PYTHONPATH=$WT timeout 3000 /venv/bin/python -m pytest -q -p no:cacheprovider -n 8 -k "not spark" -W ignore cubed/tests --junitxml=/tmp/seedsuite.xml > /tmp/seedsuite.log 2>&1; tail -1 /tmp/seedsuite.log > /verif/$S/suite_result.txt; python3 /verif/tools/check_baseline.py /tmp/seedsuite.xml | head -6 >> /verif/$S/suite_result.txt )
  git -C /repo worktree remove --force $WT
done
