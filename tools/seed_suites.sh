#!/bin/bash
# Runs the repository's suite with each seeded patch applied, in a scratch worktree of /repo HEAD.
#  - spark parametrisations are environment-broken in this sandbox and hypothesis tests have a 200 ms deadline that fails
#    under machine load: both are deselected (the proposing agents ran the same selection);
#  - tests that fail in the parallel run are re-run serially; tests that still fail are re-run serially on the UNCHANGED
#    tree: a test that fails there too (timing / order dependent, e.g. test_stragglers, test_mem_warn[processes] run alone)
#    is environmental and does not count against the patch.
# Result in seeded/<id>/suite_result.txt (last line starts with FINAL:)
cd /verif
for S in seeded/*/; do
  [ -f $S/suite_result.txt ] && grep -q "FINAL" $S/suite_result.txt && continue
  WT=/tmp/sdsuite_$$
  git -C /repo worktree add --detach $WT HEAD -q || continue
  ( cd $WT && git apply /verif/$S/patch.diff || { echo "FINAL: patch does not apply to current HEAD" > /verif/$S/suite_result.txt; exit; }
    PYTHONPATH=$WT timeout 3000 /venv/bin/python -m pytest -q -p no:cacheprovider -n 6 -k "not spark and not hypothesis" -W ignore cubed/tests > /tmp/sdsuite_$$.log 2>&1
    tail -1 /tmp/sdsuite_$$.log > /verif/$S/suite_result.txt
    FAILED=$(grep -E "^(FAILED|ERROR) cubed/" /tmp/sdsuite_$$.log | awk '{print $2}' | sort -u)
    if [ -n "$FAILED" ]; then
      PYTHONPATH=$WT timeout 3000 /venv/bin/python -m pytest -q -p no:cacheprovider -W ignore $FAILED > /tmp/sdsuite2_$$.log 2>&1
      echo "serial re-run of the $(echo "$FAILED" | wc -l) tests that failed under parallel load: $(tail -1 /tmp/sdsuite2_$$.log)" >> /verif/$S/suite_result.txt
      STILL=$(grep -E "^(FAILED|ERROR) cubed/" /tmp/sdsuite2_$$.log | awk '{print $2}' | sort -u)
      if [ -n "$STILL" ]; then
        ( cd /repo && PYTHONPATH=/repo timeout 3000 /venv/bin/python -m pytest -q -p no:cacheprovider -W ignore $STILL > /tmp/sdsuite3_$$.log 2>&1 )
        BASEFAIL=$(grep -E "^(FAILED|ERROR) cubed/" /tmp/sdsuite3_$$.log | awk '{print $2}' | sort -u)
        ONLY=$(comm -23 <(echo "$STILL") <(echo "$BASEFAIL"))
        echo "still failing serially: $(echo $STILL | cut -c1-300); of these fail on the unchanged tree too (environmental): $(echo $BASEFAIL | cut -c1-300)" >> /verif/$S/suite_result.txt
        if [ -n "$ONLY" ]; then echo "FINAL: tests fail with the patch that pass without it: $ONLY" >> /verif/$S/suite_result.txt; else echo "FINAL: suite passes with the patch (the remaining failures fail identically on the unchanged tree)" >> /verif/$S/suite_result.txt; fi
      else
        echo "FINAL: suite passes with the patch (all failures of the parallel run pass when re-run serially)" >> /verif/$S/suite_result.txt
      fi
    else
      echo "FINAL: suite passes with the patch" >> /verif/$S/suite_result.txt
    fi
    rm -f /tmp/sdsuite_$$.log /tmp/sdsuite2_$$.log /tmp/sdsuite3_$$.log )
  git -C /repo worktree remove --force $WT
done
