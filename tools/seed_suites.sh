#!/bin/bash
# Runs the repository's suite (without the environment-broken spark parametrisations) with each seeded patch applied,
# in a scratch worktree; tests that fail in the parallel run (hypothesis deadlines under load) are re-run serially.
# Result in seeded/<id>/suite_result.txt
cd /verif
for S in seeded/*/; do
  [ -f $S/suite_result.txt ] && grep -q "FINAL" $S/suite_result.txt && continue
  WT=/tmp/seedsuite_$$
  git -C /repo worktree add --detach $WT HEAD -q || continue
  ( cd $WT && git apply /verif/$S/patch.diff || { echo "FINAL: patch does not apply to current HEAD" > /verif/$S/suite_result.txt; exit; }
    PYTHONPATH=$WT timeout 3000 /venv/bin/python -m pytest -q -p no:cacheprovider -n 6 -k "not spark" -W ignore cubed/tests --junitxml=/tmp/seedsuite.xml > /tmp/seedsuite.log 2>&1
    tail -1 /tmp/seedsuite.log > /verif/$S/suite_result.txt
    FAILED=$(grep -E "^(FAILED|ERROR) cubed/" /tmp/seedsuite.log | awk '{print $2}' | sort -u)
    if [ -n "$FAILED" ]; then
      PYTHONPATH=$WT timeout 3000 /venv/bin/python -m pytest -q -p no:cacheprovider -W ignore $FAILED > /tmp/seedsuite2.log 2>&1
      echo "serial re-run of the $(echo "$FAILED" | wc -l) tests that failed under parallel load: $(tail -1 /tmp/seedsuite2.log)" >> /verif/$S/suite_result.txt
      if grep -qE "^(FAILED|ERROR) cubed/" /tmp/seedsuite2.log; then echo "FINAL: some tests still fail: $(grep -E '^(FAILED|ERROR) cubed/' /tmp/seedsuite2.log | head -3)" >> /verif/$S/suite_result.txt; else echo "FINAL: suite passes with the patch (all failures of the parallel run pass when re-run serially)" >> /verif/$S/suite_result.txt; fi
    else
      echo "FINAL: suite passes with the patch" >> /verif/$S/suite_result.txt
    fi )
  git -C /repo worktree remove --force $WT
done
