#!/bin/bash
# usage: tools/try_seed.sh <seed dir with patch.diff demo.py> <property ids...>
# 1. confirms (scratch worktree of /repo HEAD): demo fails with the patch, passes without, suite passes with the patch
# 2. applies the patch to /repo, runs the quick checks of the given properties, reverts.
set -u
D=$(realpath "$1"); shift
WT=/tmp/seedcheck_$$
git -C /repo worktree add --detach $WT HEAD -q || exit 2
cleanup() { git -C /repo worktree remove --force $WT 2>/dev/null; git -C /repo checkout -- . ; }
trap cleanup EXIT
cd $WT
PYTHONPATH=$WT /venv/bin/python $D/demo.py > /tmp/seed_demo_clean.log 2>&1; echo "demo on clean tree: exit $?"
git apply $D/patch.diff || { echo "PATCH DOES NOT APPLY"; exit 3; }
PYTHONPATH=$WT /venv/bin/python $D/demo.py > /tmp/seed_demo_patched.log 2>&1; echo "demo on patched tree: exit $? ($(tail -1 /tmp/seed_demo_patched.log | cut -c1-150))"
if [ "${SKIP_SUITE:-0}" != 1 ]; then
  PYTHONPATH=$WT timeout 3000 /venv/bin/python -m pytest -q -p no:cacheprovider -n 8 -k "not spark" -W ignore cubed/tests --junitxml=/tmp/seed_suite.xml > /tmp/seed_suite.log 2>&1
  tail -1 /tmp/seed_suite.log
  python3 /verif/tools/check_baseline.py /tmp/seed_suite.xml | head -8
fi
cd /verif
# evidence written while a seeded change is applied must never replace the record of the unchanged tree
EVB=$(mktemp -d /tmp/evid_backup_XXXX); cp -a /verif/evidence/. $EVB/
git -C /repo apply $D/patch.diff || { echo "PATCH DOES NOT APPLY TO /repo"; exit 3; }
for P in "$@"; do
  ./check $P quick 2>&1 | grep -E "^VIOLATION|^KNOWN|^\[$P" | cut -c1-400
done
git -C /repo checkout -- .
cp -a $EVB/. /verif/evidence/; rm -rf $EVB
echo "reverted: $(git -C /repo status --short | wc -l) modified files"
