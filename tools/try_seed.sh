#!/bin/bash
# usage: tools/try_seed.sh <seed dir with patch.diff demo.py> <property ids...>
# 1. confirms (scratch worktree of /repo HEAD): demo fails with the patch, passes without, suite passes with the patch
# 2. runs the quick checks of the given properties against the patched scratch worktree (VERIF_REPO): /repo itself is never
#    touched, and the evidence / replays of these runs go to build/alt_<worktree>/ instead of evidence/ and replays/.
set -u
D=$(realpath "$1"); shift
WT=/tmp/seedcheck_$$
git -C /repo worktree add --detach $WT HEAD -q || exit 2
cleanup() { git -C /repo worktree remove --force $WT 2>/dev/null; rm -rf /verif/build/alt__tmp_seedcheck_$$ /verif/build/gen/*__tmp_seedcheck_$$; }
trap cleanup EXIT
cd $WT
PYTHONPATH=$WT /venv/bin/python $D/demo.py > /tmp/seed_demo_clean_$$.log 2>&1; echo "demo on clean tree: exit $?"
git apply $D/patch.diff || { echo "PATCH DOES NOT APPLY"; exit 3; }
PYTHONPATH=$WT /venv/bin/python $D/demo.py > /tmp/seed_demo_patched_$$.log 2>&1; echo "demo on patched tree: exit $? ($(tail -1 /tmp/seed_demo_patched_$$.log | cut -c1-150))"
rm -f /tmp/seed_demo_clean_$$.log /tmp/seed_demo_patched_$$.log
if [ "${SKIP_SUITE:-0}" != 1 ]; then
  PYTHONPATH=$WT timeout 3000 /venv/bin/python -m pytest -q -p no:cacheprovider -n 8 -k "not spark" -W ignore cubed/tests --junitxml=/tmp/seed_suite_$$.xml > /tmp/seed_suite_$$.log 2>&1
  tail -1 /tmp/seed_suite_$$.log
  python3 /verif/tools/check_baseline.py /tmp/seed_suite_$$.xml | head -8
  rm -f /tmp/seed_suite_$$.xml /tmp/seed_suite_$$.log
fi
cd /verif
for P in "$@"; do
  VERIF_REPO=$WT ./check $P quick 2>&1 | grep -E "^VIOLATION|^KNOWN|^\[$P" | cut -c1-400
done
