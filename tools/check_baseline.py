#!/usr/bin/env python3
"""Compare a junit xml of the repository's suite with BASELINE.json's stable_pass list."""
import json, sys
import xml.etree.ElementTree as ET
base = json.load(open("/root/.vp/BASELINE.json"))
stable = set(base["stable_pass"])
root = ET.parse(sys.argv[1]).getroot()
status = {}
for tc in root.iter("testcase"):
    tid = f"{tc.get('classname')}::{tc.get('name')}"
    bad = any(ch.tag in ("failure", "error", "skipped") for ch in tc)
    status[tid] = not bad
missing = sorted(t for t in stable if not status.get(t, False) and "spark" not in t)
print(f"stable_pass={len(stable)} passed_now={sum(1 for t in stable if status.get(t))} not_passing={len(missing)}")
for t in missing[:40]:
    print("  NOT PASSING:", t, "(absent)" if t not in status else "")
