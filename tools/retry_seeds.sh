#!/bin/bash
# Regression over all seeded changes: every seeded/<id>/patch.diff is applied in a scratch worktree and the quick checks named
# in its meta.json (caught_by_checks) are run against it (VERIF_REPO); writes seeded/RESULTS.txt with one line per pair.
# usage: tools/retry_seeds.sh [parallel]
PAR=${1:-3}
cd /verif
mkdir -p build/retry
ls -d seeded/*/ | xargs -P $PAR -I{} sh -c '
  S={}; ID=$(basename $S)
  CHECKS=$(python3 -c "import json,sys; print(\" \".join(json.load(open(\"$S/meta.json\")).get(\"caught_by_checks\", [])))")
  SKIP_SUITE=1 tools/try_seed.sh $S $CHECKS > build/retry/$ID.log 2>&1
  for C in $CHECKS; do
    if grep -q "^VIOLATION property=$C " build/retry/$ID.log; then
      if grep "^VIOLATION property=$C " build/retry/$ID.log | grep -vq "no-failing-input-found"; then echo "$ID $C CAUGHT (concrete input)"; else echo "$ID $C CAUGHT (broken proof/correspondence, no-failing-input-found)"; fi
    else echo "$ID $C MISSED"; fi
  done' | sort > seeded/RESULTS.txt
cat seeded/RESULTS.txt | awk '{print $3}' | sort | uniq -c
