# Edited by hand; read by gen_manifest.py.
HOOK_COMMITS = []
NOTES = "See DESIGN.md. Known findings / fixed defects: known_findings.json."
NOT_BUILT = {}
BUILT = {}
