# Edited by hand; read by gen_manifest.py.
HOOK_COMMITS = []
NOTES = "See DESIGN.md. Known findings / fixed defects: known_findings.json."
NOT_BUILT = {}
BUILT = {
 "C15": dict(
   text="Coq theorem fusion_sound (all key functions, all block functions, any nesting depth by iteration) and blockwise_kf_spec over a Gallina model of make_blockwise_back_key_function_flattened / fuse_blockwise_specs; the model is tied to /repo by evaluating it (vm_compute) on the same generated index expressions and fusion trees as the real functions",
   note="partial: the theorem is about the hand-written model; the tie to the code is differential (generated expressions, all output coordinates; fusion trees depth<=3 with provenance terms). Multi-output generator functions are not modelled.",
   technique="Rocq proof over Gallina model + vm_compute correspondence with real key functions and fuse_multiple"),
}
