# Edited by hand; read by gen_manifest.py.
HOOK_COMMITS = []
NOTES = "See DESIGN.md. Known findings / fixed defects: known_findings.json."
NOT_BUILT = {}
BUILT = {
 "C02": dict(
   text="Coq theorem optimize_preserves: for every well-formed DAG, every valid visiting order, every requested set and every max_total_source_arrays / max_total_num_input_blocks / always_fuse / never_fuse, each requested array evaluates to the same value after multiple_inputs_optimize_dag and is still produced (requested_still_materialized); derived from fusion_sound, not from an assumed composition law. The Gallina optimizer is tied to /repo by comparing, inside Coq, its output on the abstraction of real Plan DAGs (with networkx's recorded order) against the abstraction of the real optimizer's output; oracle: values with optimize_graph off vs each optimizer (default, fuse_all, fuse_only, mixed, legacy simple_optimize_dag)",
   note="partial: multi-output generator functions and the legacy simple_optimize_dag are covered by the oracle and by legacy_fuse_sound (single-key successor) only, not by a DAG-level theorem; semantics of block functions is abstract (any deterministic function)",
   technique="Rocq proof (graph rewriting preserves evaluation) over Gallina optimizer model + vm_compute correspondence with the real optimizer on real plans"),
 "C04": dict(
   text="Coq theorems over Model.Memory / Model.Dag: admission is exact (plan_accepted <-> every op's projected <= allowed, equality accepted), default_optimizer_fits (no forced fusion => every op of the optimised DAG still fits, for every DAG / visiting order / limits), fused_op_not_under_reported, peak_projected bounds; tied to /repo by evaluating the model on the integers of real finalized plans and by probing the real admission boundary (allowed_mem = M-1, M, M+1) with a tracing store and event callback on the local executors",
   note="partial: 'nothing written before refusal' is observed on the tracing store (intermediate store only) and callbacks, the theorem covers the decision arithmetic and the optimizer's memory guard; plans depend on the budget so M is re-read per probe",
   technique="Rocq proof over Gallina memory/optimizer model + vm_compute correspondence on real plans + boundary probing"),
 "C08": dict(
   text="Coq theorems (no_double_delivery, delivered_succeeded, submissions_bounded, never_crashes, raise_is_genuine, done_exactly_once, futures_bounded, wake_progress, retry_*) proved by invariant over a Gallina step-function model of async_map_unordered for every script of completions / iteration orders / backup-policy answers / batch sizes; the model is tied to /repo by replaying, inside Coq, the choices recorded while the REAL async_map_unordered runs under a scripted discrete-event simulation (asyncio.wait, time and the backup policy shimmed), plus the real tenacity wrapper and an end-to-end fault-injecting store under the threads executor",
   note="partial: a future that completes between asyncio.wait returning and the loop inspecting its twin is not in the model (benign by the same invariant); real thread timing is only exercised end to end; liveness is 'every effective wake-up consumes one of at most 2n futures', a never-completing future is outside the statement",
   technique="Rocq invariant proof over step-function model + refinement replay of the real coroutine under scripted futures"),
 "C15": dict(
   text="Coq theorem fusion_sound (all key functions, all block functions, any nesting depth by iteration) and blockwise_kf_spec over a Gallina model of make_blockwise_back_key_function_flattened / fuse_blockwise_specs; the model is tied to /repo by evaluating it (vm_compute) on the same generated index expressions and fusion trees as the real functions",
   note="partial: the theorem is about the hand-written model; the tie to the code is differential (generated expressions, all output coordinates; fusion trees depth<=3 with provenance terms). Multi-output generator functions are not modelled.",
   technique="Rocq proof over Gallina model + vm_compute correspondence with real key functions and fuse_multiple"),
}
