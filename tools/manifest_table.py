# Edited by hand; read by gen_manifest.py.
HOOK_COMMITS = []
NOTES = "See DESIGN.md. Known findings / fixed defects: known_findings.json."
NOT_BUILT = {}
BUILT = {
 "C08": dict(
   text="Coq theorems (no_double_delivery, delivered_succeeded, submissions_bounded, never_crashes, raise_is_genuine, done_exactly_once, futures_bounded, wake_progress, retry_*) proved by invariant over a Gallina step-function model of async_map_unordered for every script of completions / iteration orders / backup-policy answers / batch sizes; the model is tied to /repo by replaying, inside Coq, the choices recorded while the REAL async_map_unordered runs under a scripted discrete-event simulation (asyncio.wait, time and the backup policy shimmed), plus the real tenacity wrapper and an end-to-end fault-injecting store under the threads executor",
   note="partial: a future that completes between asyncio.wait returning and the loop inspecting its twin is not in the model (benign by the same invariant); real thread timing is only exercised end to end; liveness is 'every effective wake-up consumes one of at most 2n futures', a never-completing future is outside the statement",
   technique="Rocq invariant proof over step-function model + refinement replay of the real coroutine under scripted futures"),
 "C15": dict(
   text="Coq theorem fusion_sound (all key functions, all block functions, any nesting depth by iteration) and blockwise_kf_spec over a Gallina model of make_blockwise_back_key_function_flattened / fuse_blockwise_specs; the model is tied to /repo by evaluating it (vm_compute) on the same generated index expressions and fusion trees as the real functions",
   note="partial: the theorem is about the hand-written model; the tie to the code is differential (generated expressions, all output coordinates; fusion trees depth<=3 with provenance terms). Multi-output generator functions are not modelled.",
   technique="Rocq proof over Gallina model + vm_compute correspondence with real key functions and fuse_multiple"),
}
