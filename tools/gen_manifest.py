#!/usr/bin/env python3
"""Regenerates /verif/MANIFEST.json from the table below (kept valid at all times)."""
import json, sys
from pathlib import Path

V = Path("/verif")
props = [json.loads(l) for l in (V / "properties.jsonl").read_text().splitlines() if l.strip()]
ids = [p["id"] for p in props]

# property -> dict(category, text, note, technique)   (only for built checks)
BUILT = {}
exec((V / "tools" / "manifest_table.py").read_text())

checks = []
na = []
for pid in ids:
    if pid in BUILT:
        b = BUILT[pid]
        checks.append({
            "property_id": pid,
            "quick_cmd": f"./check {pid} quick",
            "thorough_cmd": f"./check {pid} thorough",
            "evidence_file": f"/verif/evidence/{pid}.json",
            "replay_cmd_template": f"./check {pid} --replay {{path}}",
            "engine": "coq-model+correspondence",
            "level_claimed": {"category": b.get("category", "proof"), "text": b["text"], "design_ref": f"DESIGN.md#{pid}"},
            "level_note": b["note"],
            "technique": b["technique"],
        })
    else:
        na.append({"property_id": pid, "reason": NOT_BUILT.get(pid, "check not built yet in this session (design in DESIGN.md); not claimed until its Coq model, theorems and correspondence exist")})

m = {
    "version": 1,
    "setup_cmd": "./setup.sh",
    "hooks": {
        "guard": "CUBED_VERIF",
        "enable": "no source hooks: all instrumentation lives in /verif/harness (tracing WrapperStore, custom DagExecutor, scripted asyncio futures); checks run with PYTHONPATH=/repo",
        "baseline_off_cmd": "cd /repo && /venv/bin/python -m pytest -ra -q -p no:cacheprovider --timeout=900 --continue-on-collection-errors",
        "source_commits": HOOK_COMMITS,
        "add_only": True,
    },
    "engines": [{
        "name": "coq-model+correspondence",
        "path": "/verif/coq + /verif/harness",
        "serves_properties": [c["property_id"] for c in checks],
        "kind_free_text": "Rocq/Coq 8.16 theorems over hand-written Gallina models; models tied to /repo on every run by behavioural correspondence (model evaluated by vm_compute inside coqc on the same generated inputs as the implementation) plus a property oracle on the implementation that supplies the replay for VIOLATION lines",
    }],
    "checks": checks,
    "notes": NOTES,
    "not_applicable": na,
}
(V / "MANIFEST.json").write_text(json.dumps(m, indent=1) + "\n")
try:
    import jsonschema
    jsonschema.validate(m, json.loads(Path("/root/.vp/MANIFEST.schema.json").read_text()))
    print("MANIFEST valid;", len(checks), "checks,", len(na), "not claimed")
except ImportError:
    print("written (jsonschema not available)")
