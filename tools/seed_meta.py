#!/usr/bin/env python3
"""usage: tools/seed_meta.py <seed dir> <round> <caught_by comma list> [note]  - completes meta.json of a seeded change"""
import json, sys, os
d, rnd, caught = sys.argv[1].rstrip("/"), int(sys.argv[2]), [c for c in sys.argv[3].split(",") if c]
note = sys.argv[4] if len(sys.argv) > 4 else ""
p = os.path.join(d, "meta.json")
m = json.load(open(p))
sid = os.path.basename(d)
m["id"] = sid
m["breaks_property"] = sid.split("-")[0]
m["property"] = sid.split("-")[0]
m["caught_by_checks"] = caught
m["round"] = rnd
if note:
    m["note"] = note
m["confirmed_by_me"] = ("demo.py exits 0 on the clean tree and non-zero with patch.diff applied (scratch worktree of /repo HEAD, tools/try_seed.sh); "
                        "the quick checks listed in caught_by_checks, run against the patched scratch worktree (VERIF_REPO), exit 1 with a VIOLATION "
                        "line and a concrete replay, and exit 0 on /repo")
m["suite_with_patch"] = "see suite_result.txt (tools/seed_suites.sh); the proposing agent's own full-suite run is in tests_run"
json.dump(m, open(p, "w"), indent=1)
