import os, time, threading
from zarr.storage import WrapperStore, LocalStore
LOG = os.environ.get("TRACE_LOG", "/tmp/scratch/trace.log")
class TracingStore(WrapperStore):
    def _log(self, op, key, extra=""):
        with open(LOG, "a") as f:
            f.write(f"{time.monotonic_ns()} {os.getpid()} {threading.get_ident()} {op} {key} {extra}\n")
    async def get(self, key, prototype, byte_range=None):
        r = await super().get(key, prototype, byte_range)
        self._log("get", key, "hit" if r is not None else "miss")
        return r
    async def set(self, key, value):
        self._log("set", key, len(value))
        return await super().set(key, value)
    async def delete(self, key):
        self._log("delete", key)
        return await super().delete(key)
    def with_read_only(self, read_only=False):
        return type(self)(self._store.with_read_only(read_only))
