import numpy as np, cubed, cubed.array_api as xp, tempfile, warnings, tracemalloc, gc
from cubed.runtime.types import DagExecutor
from cubed.runtime.pipeline import visit_nodes
warnings.simplefilter("ignore")
class TM(DagExecutor):
    name="tm"
    def __init__(self): super().__init__(); self.peaks={}
    def execute_dag(self, dag, callbacks=None, spec=None, compute_id=None, **kw):
        for name,node in visit_nodes(dag):
            p=node["pipeline"]; proj=node["primitive_op"].projected_mem
            for m in p.mappable:
                gc.collect(); tracemalloc.start(); base=tracemalloc.get_traced_memory()[0]; tracemalloc.reset_peak()
                p.function(m, config=p.config)
                peak=tracemalloc.get_traced_memory()[1]-base; tracemalloc.stop()
                self.peaks.setdefault(name,[proj,0,node.get("func_name")])
                self.peaks[name][1]=max(self.peaks[name][1],peak)
def run(label, build, **kw):
    spec = cubed.Spec(tempfile.mkdtemp(), allowed_mem=2_000_000_000, zarr_compressor=None)
    ex=TM()
    arrs = build(spec)
    if not isinstance(arrs,(tuple,list)): arrs=(arrs,)
    cubed.compute(*arrs, executor=ex, **kw)
    for k,(proj,peak,fn) in ex.peaks.items():
        flag = "UNDER" if peak>proj else ""
        print(f"{label:28s} {k:14s} {fn or '':12s} projected={proj:>10d} peak={peak:>10d} {flag}")
n=400
xn=np.random.default_rng(0).random((3,n,n))
run("unstack 3 blocks", lambda s: xp.unstack(cubed.from_array(xn, chunks=(1,n,n), spec=s), axis=0))
run("unstack 3 blocks unopt", lambda s: xp.unstack(cubed.from_array(xn, chunks=(1,n,n), spec=s), axis=0), optimize_graph=False)
an=np.random.default_rng(0).random((n,n))
run("add fused", lambda s: xp.add(xp.negative(cubed.from_array(an, chunks=(n,n), spec=s)), xp.negative(cubed.from_array(an, chunks=(n,n), spec=s))))
run("sum axis0 8 blocks", lambda s: xp.sum(cubed.from_array(np.random.default_rng(0).random((8*200,n)), chunks=(200,n), spec=s), axis=0))
run("mean", lambda s: xp.mean(cubed.from_array(np.random.default_rng(0).random((8*200,n)), chunks=(200,n), spec=s), axis=0))
run("concat", lambda s: xp.concat([cubed.from_array(an, chunks=(200,n), spec=s), cubed.from_array(an, chunks=(200,n), spec=s)], axis=0))
run("matmul", lambda s: xp.matmul(cubed.from_array(an, chunks=(200,200), spec=s), cubed.from_array(an, chunks=(200,200), spec=s)))
run("std", lambda s: xp.std(cubed.from_array(an, chunks=(200,n), spec=s), axis=0))
run("cumsum", lambda s: xp.cumulative_sum(cubed.from_array(an, chunks=(100,n), spec=s), axis=0))
run("index step", lambda s: cubed.from_array(an, chunks=(100,n), spec=s)[::3])
run("rechunk", lambda s: cubed.from_array(an, chunks=(100,n), spec=s).rechunk((n,100)))
