import numpy as np, cubed, cubed.array_api as xp, tempfile, zarr, warnings, tracemalloc
warnings.simplefilter("ignore")
spec = cubed.Spec(tempfile.mkdtemp(), allowed_mem=100_000_000)
ex = cubed.runtime.create.create_executor("single-threaded")
def rep(name, f):
    try:
        print(name, "->", f())
    except BaseException as e:
        print(name, "EXC", type(e).__name__, str(e)[:200])
# region store with differing chunking
big = np.arange(64.).reshape(8,8)
def r1():
    src = xp.asarray(big[:4,:4], chunks=(2,2), spec=spec)+0
    t = zarr.create_array(store=tempfile.mkdtemp(), shape=(8,8), dtype="f8", chunks=(4,4), fill_value=-1)
    a = cubed.store(src, t, regions=(slice(4,8), slice(0,4)), compute=False)
    p = a[0].plan()
    print("num_tasks", p.num_tasks)
    cubed.store(src, t, regions=(slice(4,8), slice(0,4)), executor=ex)
    return t[:].tolist()
rep("region store diff chunks", r1)
# unstack memory
n=500
xn = np.ones((3, n, n))
x = cubed.from_array(xn, chunks=(1,n,n), spec=spec)
outs = xp.unstack(xp.negative(x)+0, axis=0)
p = cubed.plan(*outs)
for nme,d in p.dag.nodes(data=True):
    if 'primitive_op' in d: print(nme, d['op_name'], d['primitive_op'].projected_mem, d['primitive_op'].num_tasks)
