import asyncio
import cubed.runtime.asyncio as ca
log=[]
class F(asyncio.Future):
    def exception(self):
        log.append(("exc?", self.tag)); return super().exception()
async def main():
    loop = asyncio.get_running_loop()
    futs={}
    def create(inputs, **kw):
        out=[]
        for i in inputs:
            f=F(loop=loop); f.tag=(i,len([k for k in futs if k[0]==i])); futs[f.tag]=f; out.append((i,f))
        return out
    ca.should_launch_backup = lambda task, now, st, et: task.tag==(1,0) and (0,0) in [t.tag for t in et]
    res=[]
    agen = ca.async_map_unordered(create, [0,1], use_backups=True)
    async def driver():
        await asyncio.sleep(0); futs[(0,0)].set_result("r0")
        while (1,1) not in futs: await asyncio.sleep(0.01)
        futs[(1,0)].set_result("r1-orig"); futs[(1,1)].set_result("r1-backup")
    d = asyncio.ensure_future(driver())
    async for r in agen: res.append(r)
    print(res, log)
asyncio.run(main())
