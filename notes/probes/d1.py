import numpy as np, cubed, cubed.array_api as xp, tempfile, zarr, warnings
warnings.simplefilter("ignore")
spec = cubed.Spec(tempfile.mkdtemp(), allowed_mem=10_000_000)
ex = cubed.runtime.create.create_executor("single-threaded")
def rep(name, f):
    try:
        print(name, "->", f())
    except BaseException as e:
        print(name, "EXC", type(e).__name__, str(e)[:150])

# C01 stack differing chunking
an = np.arange(12.).reshape(4,3); bn = an*10
a = xp.asarray(an, chunks=(2,3), spec=spec); b = xp.asarray(bn, chunks=(4,3), spec=spec)
rep("stack", lambda: np.array_equal(xp.stack([a,b]).compute(executor=ex), np.stack([an,bn])))
# cumulative_sum with 7 chunks
x = xp.asarray(np.arange(7.), chunks=1, spec=spec)
rep("cumsum7", lambda: xp.cumulative_sum(x).compute(executor=ex))
x = xp.asarray(np.arange(6.), chunks=1, spec=spec)
rep("cumsum6", lambda: xp.cumulative_sum(x).compute(executor=ex))
x = xp.asarray(np.arange(10.), chunks=1, spec=spec)
rep("cumsum10", lambda: xp.cumulative_sum(x).compute(executor=ex))
x = xp.asarray(np.arange(26.), chunks=1, spec=spec)
rep("cumsum26", lambda: xp.cumulative_sum(x).compute(executor=ex))
# qr 9x4 chunks 4
A = np.random.default_rng(0).random((9,4))
q = xp.asarray(A, chunks=(4,4), spec=spec)
def f():
    Q,R = xp.linalg.qr(q)
    Qn, Rn = cubed.compute(Q,R, executor=ex)
    return np.allclose(Qn@Rn, A)
rep("qr", f)
# searchsorted with spec
x1 = xp.asarray(np.array([1,2,3,4,5]), chunks=2, spec=spec); x2 = xp.asarray(np.array([2,4]), chunks=2, spec=spec)
rep("searchsorted", lambda: xp.searchsorted(x1,x2).compute(executor=ex))
# store [x,x]
y = xp.asarray(an, chunks=(2,3), spec=spec)+1
t1 = zarr.create_array(store=tempfile.mkdtemp(), shape=(4,3), dtype="f8", chunks=(2,3), fill_value=-1)
t2 = zarr.create_array(store=tempfile.mkdtemp(), shape=(4,3), dtype="f8", chunks=(2,3), fill_value=-1)
def g():
    cubed.store([y,y],[t1,t2], executor=ex)
    return t1[:].tolist(), t2[:].tolist()
rep("store xx", g)
# to_zarr then derived
y = xp.asarray(an, chunks=(2,3), spec=spec)+1
z = y*2
def h():
    cubed.to_zarr(y, tempfile.mkdtemp()+"/a.zarr", executor=ex)
    return z.compute(executor=ex).tolist()
rep("to_zarr then derived", h)
