import numpy as np, cubed, cubed.array_api as xp, tempfile, warnings
warnings.simplefilter("ignore")
spec = cubed.Spec(tempfile.mkdtemp(), allowed_mem=10_000_000)
ex = cubed.runtime.create.create_executor("single-threaded")
def rep(name, f):
    try: print(name, "->", f())
    except BaseException as e: print(name, "EXC", type(e).__name__, str(e)[:200])
a = xp.asarray(np.arange(4.), chunks=2, spec=spec)
b = xp.asarray(np.arange(12.).reshape(3,4), chunks=(3,2), spec=spec)
def f(x, y): return x + y.sum(axis=0)
def g():
    r = cubed.map_blocks(f, a, b, dtype=np.float64, drop_axis=0)
    print("built", r.shape, r.chunks)
    return r.compute(executor=ex)
rep("map_blocks drop_axis non-first", g)
from cubed.utils import convert_to_bytes
for s in ["9007199254740993", "1000.00000000000001B", "0.1kB", "123456789.123456789GB", 9007199254740993.0, "1e3", "1e-3kB", " 5 MB", "5mb", "nanB", "infB", "-0B", "+5kB","0x10"]:
    rep(repr(s), lambda s=s: convert_to_bytes(s))
