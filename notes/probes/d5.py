import numpy as np, cubed, cubed.array_api as xp, tempfile, warnings, subprocess, sys, cloudpickle, os
warnings.simplefilter("ignore")
wd = tempfile.mkdtemp()
child = r'''
import sys, numpy as np, cubed, cubed.array_api as xp, cloudpickle
spec = cubed.Spec(sys.argv[1], allowed_mem=10_000_000)
a = xp.asarray(np.array([1.,2.,3.,4.]), chunks=2, spec=spec)
b = xp.negative(a)
open(sys.argv[2],"wb").write(cloudpickle.dumps(b))
'''
pk = wd+"/b.pkl"
subprocess.run([sys.executable, "-c", child, wd, pk], check=True, env=dict(os.environ, PYTHONPATH="/repo"))
spec = cubed.Spec(wd, allowed_mem=10_000_000)
ex = cubed.runtime.create.create_executor("single-threaded")
b = cloudpickle.loads(open(pk,"rb").read())
print("remote alone:", b.compute(executor=ex))
c = xp.asarray(np.array([10.,20.,30.,40.]), chunks=2, spec=spec)
d = xp.negative(c)
print("names", b.name, d.name)
try:
    print("remote+local:", (b + d).compute(executor=ex), "expected", [-11,-22,-33,-44])
except BaseException as e: print("EXC", type(e).__name__, e)
