import numpy as np, cubed, cubed.array_api as xp, tempfile, warnings, os, sys
sys.path.insert(0, "/tmp/scratch")
from tstore import TracingStore, LOG
from zarr.storage import LocalStore
warnings.simplefilter("ignore")
if os.path.exists(LOG): os.remove(LOG)
root = tempfile.mkdtemp()
store = TracingStore(LocalStore(root))
spec = cubed.Spec(intermediate_store=store, allowed_mem=10_000_000)
an = np.arange(16.).reshape(4,4)
if __name__ == "__main__":
    for exname in ["single-threaded", "threads", "processes"]:
        ex = cubed.runtime.create.create_executor(exname)
        a = xp.asarray(an, chunks=(2,2), spec=spec)
        b = xp.sum(xp.negative(a) + 1, axis=0)
        try:
            print(exname, b.compute(executor=ex, optimize_graph=False))
        except BaseException as e:
            print(exname, "EXC", type(e).__name__, str(e)[:300])
    lines = open(LOG).read().splitlines()
    print(len(lines), "log lines; pids:", len({l.split()[1] for l in lines}))
    print("\n".join(lines[:6]))
