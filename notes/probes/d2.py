import numpy as np, cubed, cubed.array_api as xp, tempfile, zarr, warnings, asyncio
warnings.simplefilter("ignore")
spec = cubed.Spec(tempfile.mkdtemp(), allowed_mem=10_000_000)
ex = cubed.runtime.create.create_executor("single-threaded")
def rep(name, f):
    try:
        print(name, "->", f())
    except BaseException as e:
        print(name, "EXC", type(e).__name__, str(e)[:150])

an = np.arange(12.).reshape(4,3); bn = an*10
# stack silently wrong: a chunks (2,3) b chunks (1,3)?  a has 2 blocks, b has 4 blocks
a = xp.asarray(an, chunks=(2,3), spec=spec); b = xp.asarray(bn, chunks=(1,3), spec=spec)
rep("stack(2,3)/(1,3)", lambda: (xp.stack([a,b]).compute(executor=ex).tolist()))
a = xp.asarray(an, chunks=(4,3), spec=spec); b = xp.asarray(bn, chunks=(2,3), spec=spec)
rep("stack(4,3)/(2,3)", lambda: (xp.stack([a,b]).compute(executor=ex).tolist()))

# store [y,y] into paths
y = xp.asarray(an, chunks=(2,3), spec=spec)+1
p1 = tempfile.mkdtemp()+"/a.zarr"; p2 = tempfile.mkdtemp()+"/b.zarr"
def g():
    cubed.store([y,y],[p1,p2], executor=ex)
    r=[]
    for p in (p1,p2):
        try: r.append(zarr.open_array(p)[:].tolist())
        except BaseException as e: r.append(type(e).__name__)
    return r
rep("store xx paths", g)

# legacy optimizer with reduction
from cubed.core.optimization import simple_optimize_dag, fuse_all_optimize_dag
x = xp.asarray(an, chunks=(4,3), spec=spec)
s = xp.sum(xp.negative(x))
rep("simple_opt sum(neg)", lambda: s.compute(executor=ex, optimize_function=simple_optimize_dag))
x = xp.asarray(an, chunks=(2,3), spec=spec)
s = xp.sum(xp.negative(x), axis=0)
rep("simple_opt sum(neg) 2", lambda: s.compute(executor=ex, optimize_function=simple_optimize_dag))
rep("fuse_all sum(neg) 2", lambda: s.compute(executor=ex, optimize_function=fuse_all_optimize_dag))

# store into existing zarr with different chunking, threads
big = np.arange(64*64.).reshape(64,64)
bad=0
for trial in range(5):
    src = xp.asarray(big, chunks=(8,8), spec=spec)+0
    t = zarr.create_array(store=tempfile.mkdtemp(), shape=(64,64), dtype="f8", chunks=(32,32), fill_value=-1)
    cubed.store(src, t, executor=cubed.runtime.create.create_executor("threads"))
    bad += int(not np.array_equal(t[:], big))
print("store diff chunking threads bad runs:", bad, "/5")
