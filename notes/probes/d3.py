import asyncio, time
from cubed.runtime.asyncio import async_map_unordered

async def run(n, batch_size, use_backups, delays):
    loop = asyncio.get_running_loop()
    def create(inputs, **kw):
        out=[]
        for i in inputs:
            f = loop.create_future()
            loop.call_later(delays(i), f.set_result, i)
            out.append((i,f))
        return out
    res=[]
    async for r in async_map_unordered(create, list(range(n)), use_backups=use_backups, batch_size=batch_size):
        res.append(r)
    return res

def d(i): return 0.01 if i < 19 else 0.5
try:
    print(sorted(asyncio.run(run(30, 12, True, d))))
except BaseException as e:
    print("EXC", type(e).__name__, e)

# simultaneous completion of original and backup
async def run2():
    loop = asyncio.get_running_loop()
    futs={}
    calls=[]
    def create(inputs, **kw):
        out=[]
        for i in inputs:
            f = loop.create_future()
            calls.append(i)
            if i==11 and calls.count(11)==1:
                loop.call_later(1.0, f.set_result, i)   # straggler finishes at t=1.0
            elif i==11:
                # backup launched at ~? finish at same absolute time: schedule to complete with the original
                futs['b']=f
            else:
                loop.call_later(0.01, f.set_result, i)
            out.append((i,f))
        return out
    res=[]
    async def finisher():
        # complete original and backup in same loop iteration
        while 'b' not in futs: await asyncio.sleep(0.01)
    t = asyncio.ensure_future(finisher())
    agen = async_map_unordered(create, list(range(12)), use_backups=True)
    async for r in agen:
        res.append(r)
    return res, calls
