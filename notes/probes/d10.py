import numpy as np, cubed, cubed.array_api as xp, tempfile, zarr, warnings
print(cubed.__file__)
warnings.simplefilter("ignore")
spec = cubed.Spec(tempfile.mkdtemp(), allowed_mem=10_000_000)
ex = cubed.runtime.create.create_executor("single-threaded")
def rep(name, f):
    try: print(name, "->", f())
    except BaseException as e: print(name, "EXC", type(e).__name__, str(e)[:120])
A = np.random.default_rng(0).random((9,4))
rep("qr 9x4/4", lambda: xp.linalg.qr(xp.asarray(A, chunks=(4,4), spec=spec)))
def q2():
    Q,R = xp.linalg.qr(xp.asarray(A[:8], chunks=(4,4), spec=spec)); Qn,Rn = cubed.compute(Q,R,executor=ex); return np.allclose(Qn@Rn, A[:8])
rep("qr 8x4/4", q2)
x1 = xp.asarray(np.array([1,2,3,4,5]), chunks=2, spec=spec); x2 = xp.asarray(np.array([2,4]), chunks=2, spec=spec)
rep("searchsorted", lambda: xp.searchsorted(x1,x2).compute(executor=ex))
big = np.arange(64.).reshape(8,8)
def r1():
    src = xp.asarray(big[:4,:4], chunks=(2,2), spec=spec)+0
    t = zarr.create_array(store=tempfile.mkdtemp(), shape=(8,8), dtype="f8", chunks=(4,4), fill_value=-1)
    cubed.store(src, t, regions=(slice(4,8), slice(0,4)), executor=ex)
rep("region store mismatch", r1)
def r2():
    src = xp.asarray(big[:4,:4], chunks=(4,4), spec=spec)+0
    t = zarr.create_array(store=tempfile.mkdtemp(), shape=(8,8), dtype="f8", chunks=(4,4), fill_value=-1)
    cubed.store(src, t, regions=(slice(4,8), slice(0,4)), executor=ex); return t[4:8,0:4].tolist()==big[:4,:4].tolist()
rep("region store ok", r2)
a = xp.asarray(np.arange(4.), chunks=2, spec=spec)
b = xp.asarray(np.arange(12.).reshape(3,4), chunks=(3,2), spec=spec)
def f(x, y): return x + y.sum(axis=0)
rep("map_blocks drop_axis", lambda: cubed.map_blocks(f, a, b, dtype=np.float64, drop_axis=0).compute(executor=ex).tolist() == (np.arange(4.)+np.arange(12.).reshape(3,4).sum(axis=0)).tolist())
