(* Targets for Proofs/FusedTreeProofs.v (C03, finding D25: a fused task reads all inputs eagerly and
   holds the intermediate results of the nested fused function). *)
From CubedV Require Import Model.Util Model.Memory Model.AllocTrace.
Local Open Scope Z_scope.

(* everything ever allocated by the task, as if nothing were released *)
Fixpoint total_alloc (t : ftree) : Z :=
  match t with
  | FIn _ => 0
  | FOp e o cs => e + o + (fix go (l : list ftree) : Z := match l with [] => 0 | c :: r => total_alloc c + go r end) cs
  end.
Fixpoint tree_ok (t : ftree) : Prop :=
  match t with
  | FIn b => 0 <= b
  | FOp e o cs => 0 <= e /\ 0 <= o /\ (fix go (l : list ftree) : Prop := match l with [] => True | c :: r => tree_ok c /\ go r end) cs
  end.

(* 1. the projection of fuse_multiple is not an upper bound for nested fused functions *)
Goal tree_task_peak 1 1 (right_fold 1 3) > tree_projected 1 1 (right_fold 1 3).
Abort. (* nested_fused_refuted *)

(* 2. closed forms for the folds (x bytes per chunk, n + 1 terms) *)
Goal forall x n, 0 < x -> (1 <= n)%nat -> tree_task_peak 1 1 (right_fold x n) = (2 * Z.of_nat n + 3) * x.
Abort. (* right_fold_peak *)
Goal forall x n, 0 < x -> (1 <= n)%nat -> tree_projected 1 1 (right_fold x n) = (Z.of_nat n + 5) * x.
Abort. (* right_fold_projected *)
Goal forall x n, 0 < x -> (1 <= n)%nat -> tree_task_peak 1 1 (left_fold x n) = (Z.of_nat n + 4) * x.
Abort. (* left_fold_peak *)
Goal forall x n, 0 < x -> (1 <= n)%nat -> tree_projected 1 1 (left_fold x n) = 6 * x.
Abort. (* left_fold_projected *)

(* 3. hence the under-projection grows with the depth of the fold *)
Goal forall x n, 0 < x -> (3 <= n)%nat ->
  tree_task_peak 1 1 (right_fold x n) - tree_projected 1 1 (right_fold x n) = (Z.of_nat n - 2) * x /\
  tree_task_peak 1 1 (left_fold x n) - tree_projected 1 1 (left_fold x n) = (Z.of_nat n - 2) * x.
Abort. (* fold_overrun_grows *)

(* 4. a projection that IS safe for every fused function: all input blocks with their read copies,
   every intermediate, and the write copies of the result *)
Goal forall rc wc t, 0 <= rc -> 0 <= wc -> tree_ok t ->
  tree_task_peak rc wc t <= sumz (map (fun b => b * (rc + 1)) (leaves t)) + total_alloc t + fsize t * wc.
Abort. (* safe_projection_bounds *)
