(* TARGET STATEMENTS for C04 / the arithmetic part of C03 (to be proved in
   Proofs/MemoryProofs.v under these names). *)
From CubedV Require Import Model.Util Model.Keys Model.Fusion Model.Memory Model.Dag.
Local Open Scope Z_scope.

(* -- Memory.v -------------------------------------------------------------- *)
(* calc_projected is the closed formula *)
Goal forall reserved inputs operation output rc wc,
  calc_projected reserved inputs operation output rc wc
  = reserved + sumz (map (fun i => i * (rc + 1)) inputs) + operation + output * (wc + 1). Abort.
(* monotone in every argument when the copy counts are non-negative *)
Goal forall r i1 i2 op out rc wc x, 0 <= rc -> 0 <= x ->
  calc_projected r (i1 ++ x :: i2) op out rc wc >= calc_projected r (i1 ++ i2) op out rc wc. Abort.

(* peak_projected_mem: with non-negative chunk memories, the peak bounds every
   predecessor's projected memory plus what earlier predecessors left behind *)
Goal forall ps, (forall p, In p ps -> 0 <= snd p) ->
  forall l1 p l2, ps = l1 ++ p :: l2 -> peak_projected ps >= sumz (map snd l1) + fst p. Abort.
Goal forall ps, (forall p, In p ps -> 0 <= snd p) -> forall p, In p ps -> peak_projected ps >= fst p. Abort.
Goal forall ps, (forall p, In p ps -> 0 <= snd p /\ snd p <= fst p) ->
  peak_projected ps <= sumz (map snd ps) + maxz (map fst ps). Abort.
Goal forall ps, 0 <= peak_projected ps. Abort.

(* fused_not_under_reported *)
Goal forall opp ps, (forall p, In p ps -> 0 <= snd p) ->
  fused_projected opp ps >= opp /\ forall p, In p ps -> fused_projected opp ps >= fst p. Abort.
Goal forall p1 p2, legacy_fused_projected p1 p2 >= p1 /\ legacy_fused_projected p1 p2 >= p2. Abort.

(* admission_exact *)
Goal forall ops, plan_accepted ops = true <-> (forall pa, In pa ops -> fst pa <= snd pa). Abort.
Goal forall ops, plan_accepted ops = false <-> exists pa, In pa ops /\ fst pa > snd pa. Abort.
Goal forall ops pa, In pa ops -> fst pa = snd pa -> exceeds pa = false. Abort.
Goal forall ops, (forall pa, In pa ops -> 0 <= fst pa) ->
  (forall pa, In pa ops -> fst pa <= max_projected ops) /\
  (ops <> [] -> exists pa, In pa ops /\ fst pa = max_projected ops). Abort.

(* -- Dag.v: the default optimizer keeps every op within its budget ------------ *)
Section DagMem.
Variable B : Type.
Definition fits (d : dag B) : Prop :=
  forall o p, In o (dops B d) -> prim B o = Some p -> proj B p <= allowed B p.

(* can_fuse_multiple implies the memory guard *)
Goal forall (p : primop B) pps mn, can_fuse_multiple B p pps mn = true ->
  peak_projected (map (fun pp => (proj B pp, chunkmem B pp)) (somes pps)) <= allowed B p. Abort.

(* one step, then the whole optimizer: no forced fusion (always_fuse = []) *)
Goal forall c d o, always_fuse c = [] -> fits d -> fits (fuse_predecessors B c d o). Abort.
Goal forall c order d, always_fuse c = [] -> fits d -> fits (optimize B c order d). Abort.

(* whatever the setting (forced fusion included), a fused op never reports less than what it replaced *)
Goal forall c d o p o' p',
  NoDup (map (oid B) (dops B d)) -> In o (dops B d) -> prim B o = Some p ->
  (forall x q, In x (dops B d) -> prim B x = Some q -> 0 <= chunkmem B q) ->
  In o' (dops B (fuse_predecessors B c d o)) -> oid B o' = oid B o -> prim B o' = Some p' ->
  proj B p' >= proj B p /\
  (can_fuse_predecessors B c d o = true ->
     forall pp, In pp (somes (pred_prims B d p)) -> proj B p' >= proj B pp). Abort.

(* allowed / reserved / ntasks of an op are never changed by the optimizer *)
Goal forall c order d o', In o' (dops B (optimize B c order d)) ->
  exists o, In o (dops B d) /\ oid B o = oid B o' /\
    match prim B o, prim B o' with
    | Some p, Some p' => allowed B p' = allowed B p /\ reserved B p' = reserved B p /\ ntasks B p' = ntasks B p
    | None, None => True
    | _, _ => False
    end. Abort.
End DagMem.
