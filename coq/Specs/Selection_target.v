(* TARGET STATEMENTS over Model.Selection (C01: the concat / slice block laws), to be proved in Proofs/SelectionProofs.v. *)
From CubedV Require Import Model.Util Model.Keys Model.Selection.
From Coq Require Import Sorted.

(* proj_chunks_spec: exactly the chunks that intersect the range *)
Goal forall c s e ci, 0 < c -> (In ci (proj_chunks c s e) <-> (s < e /\ ci * c < e /\ s < (ci + 1) * c)). Abort.

(* proj_element: every selected element x lies in the listed chunk x / c, inside that chunk's selection, and lands at x - s *)
Goal forall c s e x, 0 < c -> s <= x < e ->
  In (x / c) (proj_chunks c s e) /\
  fst (proj_chunk_sel c s e (x / c)) <= x - (x / c) * c < snd (proj_chunk_sel c s e (x / c)) /\
  fst (proj_out_sel c s e (x / c)) + (x - (x / c) * c - fst (proj_chunk_sel c s e (x / c))) = x - s. Abort.

(* proj_tiles: the output selections of the listed chunks tile [0, e - s) without gap or overlap, in order *)
Goal forall c s e, 0 < c -> s < e ->
  fst (proj_out_sel c s e (s / c)) = 0 /\
  snd (proj_out_sel c s e ((e - 1) / c)) = e - s /\
  (forall ci, s / c <= ci < (e - 1) / c -> snd (proj_out_sel c s e ci) = fst (proj_out_sel c s e (ci + 1))) /\
  (forall ci, In ci (proj_chunks c s e) ->
     fst (proj_out_sel c s e ci) < snd (proj_out_sel c s e ci) /\
     snd (proj_out_sel c s e ci) - fst (proj_out_sel c s e ci) = snd (proj_chunk_sel c s e ci) - fst (proj_chunk_sel c s e ci)). Abort.

(* offsets of a concatenation: non-decreasing, starting at 0 *)
Definition offsets_ok (offsets : list nat) : Prop :=
  hd 1 offsets = 0 /\ forall i, S i < length offsets -> nth i offsets 0 <= nth (S i) offsets 0.

(* bisect_pred_spec: the array a global index falls in *)
Goal forall offsets x, offsets_ok offsets -> x < last offsets 0 ->
  let i := bisect_pred offsets x in
  S i < length offsets /\ nth i offsets 0 <= x < nth (S i) offsets 0. Abort.

(* array_slices_cover: the pieces are non-empty, each inside one input array, and their global extents
   [offset_i + lo, offset_i + hi) follow each other from start to stop without gap *)
Fixpoint contiguous (offsets : list nat) (pieces : list (nat * nat * nat)) (from : nat) : option nat :=
  match pieces with
  | [] => Some from
  | (i, lo, hi) :: rest =>
      if Nat.eqb (nth i offsets 0 + lo) from && (lo <? hi) && (nth i offsets 0 + hi <=? nth (S i) offsets 0)
      then contiguous offsets rest (nth i offsets 0 + hi) else None
  end.
Goal forall offsets start stop fuel, offsets_ok offsets -> start <= stop -> stop <= last offsets 0 ->
  length offsets <= fuel ->
  contiguous offsets (array_slices fuel offsets start stop) start = Some stop. Abort.
