(* TARGET STATEMENTS for the geometry layer (to be proved in Proofs/GeometryProofs.v). *)
From CubedV Require Import Model.Util Model.Geometry.

(* G5 regular_sum / regular_shape *)
Goal forall n c, 0 < c -> sumn (regular n c) = n. Abort.
Goal forall n c x, 0 < c -> 0 < n -> In x (regular n c) -> 0 < x /\ x <= c. Abort.
Goal forall n c, 0 < c -> 0 < n -> numblocks1 n c = (n + c - 1) / c. Abort.
(* G4 blocks_length / blocks_complete / blocks_nodup / blocks_from *)
Goal forall nb, length (blocks nb) = prodn nb. Abort.
Goal forall nb b, In b (blocks nb) <-> Forall2 lt b nb. Abort.
Goal forall nb, NoDup (blocks nb). Abort.
Goal forall nb k, k < prodn nb -> nth k (blocks nb) [] = unravel nb k. Abort.
Goal forall nb start, blocks_from nb start = map (unravel nb) (seq start (prodn nb - start)). Abort.
(* mappable_length: the task list of a blockwise op has exactly num_tasks entries, no duplicates *)
Goal forall chunks, length (blocks (map (@length nat) chunks)) = num_tasks chunks. Abort.
(* G3 ravel_unravel / unravel_ravel / ravel_injective *)
Goal forall nb o, o < prodn nb -> ravel nb (unravel nb o) = o /\ Forall2 lt (unravel nb o) nb. Abort.
Goal forall nb b, Forall2 lt b nb -> unravel nb (ravel nb b) = b /\ ravel nb b < prodn nb. Abort.
Goal forall nb b b', Forall2 lt b nb -> Forall2 lt b' nb -> ravel nb b = ravel nb b' -> b = b'. Abort.
(* G1 regions_partition_axis: every index below the axis length lies in exactly one block region *)
Goal forall cs x, x < sumn cs -> exists i, i < length cs /\ fst (region1 cs i) <= x < snd (region1 cs i)
  /\ forall j, j < length cs -> fst (region1 cs j) <= x < snd (region1 cs j) -> j = i. Abort.
Goal forall cs i, i < length cs -> snd (region1 cs i) = fst (region1 cs i) + nth i cs 0
  /\ snd (region1 cs i) <= sumn cs. Abort.
(* G2 regions_partition: N-d - every in-bounds element index lies in the region of exactly one block *)
Goal forall chunks x, Forall2 (fun c xi => xi < sumn c) chunks x ->
  exists b, In b (blocks (map (@length nat) chunks)) /\ in_region (get_item chunks b) x = true
  /\ forall b', In b' (blocks (map (@length nat) chunks)) -> in_region (get_item chunks b') x = true -> b' = b. Abort.
