(* TARGET STATEMENTS for the blockwise key function (to be proved in
   Proofs/BlockwiseKFProofs.v under these names). *)
From CubedV Require Import Model.Util Model.Keys Model.BlockwiseKF.

(* every argument has one block count (>= 1) per index position *)
Definition wf_args (nbs : nbmap) (args : list argpair) : bool :=
  forallb (fun a : argpair =>
    Nat.eqb (length (snd a)) (length (nb_of nbs (fst a)))
    && forallb (fun nb => 1 <=? nb) (nb_of nbs (fst a))) args.

(* blockwise_kf_spec: whenever the constructor accepts the expression, the key function
   returns, per argument position, exactly the key the index expression designates *)
Goal forall out args nbs new_axes f ocoords,
  wf_args nbs args = true ->
  (forall i, In i (dummy_indices out args) -> lookup i new_axes = None) ->
  make_kf out args nbs new_axes true = Ok f ->
  length ocoords = length out ->
  f ocoords = Ok (ref_kf out args nbs ocoords).
Abort.

(* the pinned variant agrees whenever the first argument carries a contracted index or none does *)
Goal forall out args nbs new_axes f ocoords,
  wf_args nbs args = true ->
  (forall i, In i (dummy_indices out args) -> lookup i new_axes = None) ->
  make_kf out args nbs new_axes false = Ok f ->
  length ocoords = length out ->
  (match args with a :: _ => concat_axes out args a <> [] | [] => True end
   \/ forall a, In a args -> concat_axes out args a = []) ->
  f ocoords = Ok (ref_kf out args nbs ocoords).
Abort.

(* D15 witness for the pinned variant: map_blocks(f, a_1d, b_2d, drop_axis=0) *)
Goal exists f, make_kf [1] [(0, [1]); (1, [0; 1])] [(0, [2]); (1, [1; 2])] [] false = Ok f
               /\ f [0] = Err E_MALFORMED.
Abort.

(* the key function reports one key per argument and names the right arrays *)
Goal forall out args nbs ocoords,
  map fst (ref_kf out args nbs ocoords) = map fst args.
Abort.
