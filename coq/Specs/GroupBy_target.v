(* Targets for Proofs/GroupByProofs.v (C12: every block a groupby_blockwise task returns has the number
   of groups its declared chunk holds, and every label it reads falls inside that block). *)
From CubedV Require Import Model.Util Model.Geometry Model.GroupBy.

Definition labels_ok (labels : list nat) (G : nat) : Prop := sortedb labels = true /\ Forall (fun l => l < G) labels.

Goal forall nc labels G, 0 < nc -> 0 < G -> labels_ok labels G ->
  sumn (newchunks nc labels G) = length labels.
Abort. (* newchunks_sum *)

Goal forall nc labels G, 0 < nc -> 0 < G ->
  length (newchunks nc labels G) = num_out_chunks (groups_per_chunk nc G) G.
Abort. (* newchunks_length *)

Goal forall nc labels G j l, 0 < nc -> 0 < G -> labels_ok labels G ->
  j < num_out_chunks (groups_per_chunk nc G) G -> In l (read_labels nc labels G j) ->
  start_group nc G j <= l < start_group nc G j + groups_in_chunk nc G j.
Abort. (* read_labels_in_range *)

Goal forall nc labels G, 0 < nc -> 0 < G -> labels_ok labels G ->
  concat (map (read_labels nc labels G) (seq 0 (num_out_chunks (groups_per_chunk nc G) G))) = labels.
Abort. (* read_labels_partition *)

Goal forall nc G, 0 < nc -> 0 < G ->
  sumn (map (groups_in_chunk nc G) (seq 0 (num_out_chunks (groups_per_chunk nc G) G))) = G /\
  forall j, j < num_out_chunks (groups_per_chunk nc G) G -> 0 < groups_in_chunk nc G j <= groups_per_chunk nc G.
Abort. (* groups_in_chunk_spec *)

(* the last output chunk can hold fewer groups than groups_per_chunk: a task must be told the size of
   ITS chunk (the seeded change C12-groupby-blockwise-last-group-chunk passes groups_per_chunk) *)
Goal exists nc G j, 0 < nc /\ 0 < G /\ j < num_out_chunks (groups_per_chunk nc G) G /\
  groups_in_chunk nc G j < groups_per_chunk nc G.
Abort. (* short_last_group_chunk *)
