(* TARGET STATEMENTS over Model.OpsKF (C01 / C12 / C17), to be proved in Proofs/OpsKFProofs.v. *)
From CubedV Require Import Model.Util Model.Keys Model.OpsKF.
From Coq Require Import Permutation.

(* pr_groups_partition: the groups of partial_reduce partition the input blocks of the axis *)
Goal forall k nb x, 0 < k -> x < nb ->
  exists bi, bi < pr_numblocks k nb /\ In x (pr_group k nb bi) /\
    forall bj, In x (pr_group k nb bj) -> bj = bi. Abort.
(* pr_groups_inside *)
Goal forall k nb bi, 0 < k -> bi < pr_numblocks k nb ->
  pr_group k nb bi <> [] /\ (forall x, In x (pr_group k nb bi) -> x < nb) /\ length (pr_group k nb bi) <= k. Abort.
(* tree_reduce_terminates: d rounds with k^d >= nb leave a single block along the axis *)
Goal forall d k nb, 2 <= k -> 0 < nb -> nb <= k ^ d -> tree_rounds d k nb = 1. Abort.
(* pr_keep_all_truthful: when the reduce function keeps one entry per merged block (scan's first
   reduction, combine size = min k nb) every output block has the declared extent iff k | nb or nb <= k *)
Goal forall k nb, 0 < k -> 0 < nb ->
  ((forall bi, bi < pr_numblocks k nb -> pr_actual_keep_all k nb bi = pr_declared (Nat.min k nb))
   <-> (nb <= k \/ nb mod k = 0)). Abort.
(* scan_accepts_spec: the recursive scan's bookkeeping holds exactly for block counts m * 5^e, 1 <= m <= 5 *)
Goal forall nb, 0 < nb -> (scan_accepts nb = true <-> exists e m, 1 <= m /\ m <= 5 /\ nb = m * 5 ^ e). Abort.
(* scan_refuted: the defect D2 - accepted by the API, rejected by an internal assertion *)
Goal scan_accepts 6 = false /\ scan_accepts 7 = false /\ scan_accepts 26 = false /\ scan_accepts 30 = false. Abort.
(* scan_addressing: block bi of the scanned array takes entry bi mod 5 of increment block bi / 5 *)
Goal forall bi, (bi / 5) * 5 + bi mod 5 = bi /\ bi mod 5 < 5. Abort.
(* stack_unstack_coords: inserting / removing the stacked coordinate are mutually inverse *)
Goal forall axis l v, axis <= length l ->
  remove_at axis (insert_at axis v l) = l /\ nth axis (insert_at axis v l) 0 = v. Abort.
Goal forall axis l, axis < length l -> insert_at axis (nth axis l 0) (remove_at axis l) = l. Abort.
(* is_permutation_spec *)
Goal forall axes, is_permutation axes = true <-> Permutation axes (seq 0 (length axes)). Abort.
