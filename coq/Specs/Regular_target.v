(* Targets for Proofs/RegularProofs.v (C12: declared chunks are truthful about the stored grid). *)
From CubedV Require Import Model.Util Model.Geometry Model.Regular.

Definition wf_axis (c : list nat) : Prop := (c <> [] /\ Forall (fun x => 0 < x) c) \/ c = [0].

Goal forall c, c <> [] ->
  (check_regular1 c = true <-> exists a k r, c = repeat a k ++ [r] /\ (k = 0 \/ r <= a)).
Abort. (* check_regular1_spec *)

Goal forall c, wf_axis c -> check_regular1 c = true ->
  stored_chunks (sumn c) (Nat.max (hd 0 c) 1) = c.
Abort. (* to_chunksize_truthful1 *)

Goal forall cs sz, Forall wf_axis cs -> to_chunksize cs = Some sz ->
  length sz = length cs /\
  forall i, i < length cs -> stored_chunks (sumn (nth i cs [])) (nth i sz 0) = nth i cs [].
Abort. (* to_chunksize_truthful *)

Goal forall n c, 0 < c -> check_regular1 (regular n c) = true.
Abort. (* regular_passes *)

Goal forall a k r, 0 < k -> a < r -> check_regular1 (repeat a k ++ [r]) = false.
Abort. (* larger_last_refused *)

Goal forall l1 x y l2 z, x <> y -> check_regular1 (l1 ++ x :: y :: l2 ++ [z]) = false.
Abort. (* unequal_middle_refused *)

Goal forall cs, to_chunksize cs = None <-> exists c, In c cs /\ check_regular1 c = false.
Abort. (* refusal_iff *)
