(* TARGET STATEMENTS over the history machine Model.Api (C10, C16), to be proved in Proofs/ApiProofs.v. *)
From CubedV Require Import Model.Util Model.Api.

Section T.
Variable V : Type.
Variable inp : nat -> V.
Variable opf : nat -> list V -> V.
Variable ident : nat.
Notation state := (state V).
Notation step := (step V inp opf ident).
Notation run := (run V inp opf ident).
Notation den := (den V inp opf).

(* arguments of every operation are earlier arrays *)
Definition wf (s : state) : Prop :=
  forall id c, nth_error (cells V s) id = Some c ->
    match cexpr c with Inp _ => True | Op _ args => forall a, In a args -> a < id end.
(* distinct arrays live at distinct locations, all below next_loc *)
Definition locs_ok (s : state) : Prop :=
  (forall i j ci cj, nth_error (cells V s) i = Some ci -> nth_error (cells V s) j = Some cj ->
      cloc ci = cloc cj -> i = j) /\
  (forall i c, nth_error (cells V s) i = Some c -> cloc c < next_loc V s).
(* a call is valid in a state: it mentions existing arrays, store targets are fresh locations *)
Definition valid (s : state) (c : call) : Prop :=
  match c with
  | Derive _ args => forall a, In a args -> a < length (cells V s)
  | Compute ids written => forall a, In a (written ++ ids) -> a < length (cells V s)
  | StoreLazy id t => id < length (cells V s) /\ next_loc V s <= t
  | StoreEager id t written => id < length (cells V s) /\ next_loc V s <= t /\
                               forall a, In a written -> a < length (cells V s)
  | PlanOf _ | ConfigChange => True
  end.
Fixpoint valid_history (s : state) (h : list call) : Prop :=
  match h with [] => True | c :: h' => valid s c /\ valid_history (step s c) h' end.

(* lazy_calls_no_effects (C16): building, lazy store, plan, visualize, config changes write nothing *)
Goal forall s c k, is_lazy c = true -> store V (step s c) k = store V s k. Abort.
Goal forall s h k, forallb is_lazy h = true -> store V (run s h) k = store V s k. Abort.

(* invariants_preserved *)
Goal forall s c, wf s -> locs_ok s -> valid s c -> wf (step s c) /\ locs_ok (step s c). Abort.

(* value_fixed_when_built (C10): whatever valid calls follow, an existing array keeps its denotation *)
Goal forall s h id, wf s -> locs_ok s -> valid_history s h -> id < length (cells V s) ->
  den (run s h) id = den s id. Abort.

(* compute_gives_denotation (C10): computing an array leaves exactly its denotation at its location *)
Goal forall s ids written id l, wf s -> locs_ok s -> valid s (Compute ids written) ->
  In id ids -> is_op V s id = true -> loc_of V s id = Some l ->
  store V (step s (Compute ids written)) l = den s id. Abort.

(* inputs_untouched (C10): no valid call ever writes the location of an input array *)
Goal forall s h id l, wf s -> locs_ok s -> valid_history s h ->
  is_op V s id = false -> loc_of V s id = Some l ->
  store V (run s h) l = store V s l. Abort.

(* targets_hold_denotations (C10): every location holds nothing or the denotation of its owner, always *)
Definition store_ok (s : state) : Prop :=
  forall id l, is_op V s id = true -> loc_of V s id = Some l ->
    store V s l = None \/ store V s l = den s id.
Goal forall s h, wf s -> locs_ok s -> store_ok s -> valid_history s h -> store_ok (run s h). Abort.

(* eager_store_fills_target (C11 at the history level): after an eager store the target holds the source's value *)
Goal forall s id t written, wf s -> locs_ok s -> valid s (StoreEager id t written) ->
  store V (step s (StoreEager id t written)) t = den s id \/
  (exists v, den s id = Some v /\ store V (step s (StoreEager id t written)) t = Some (opf ident [v])). Abort.
End T.
