(* TARGET STATEMENTS for the scheduling / callback-event layer (C07, C13), to be proved in
   Proofs/EventsProofs.v under the names given in the comments. *)
From CubedV Require Import Model.Util Model.Events.
From Coq Require Import Permutation.

Definition count_ev (e : ev) (l : list ev) : nat := length (filter (ev_eqb e) l).

(* events_ok_sound: what an accepted trace guarantees *)
Goal forall nt trace, events_ok nt trace = true ->
  exists body, trace = ECS :: body ++ [ECE] /\
    (forall e, In e body -> e <> ECS /\ e <> ECE) /\
    (forall e n, In e body -> ev_op e = Some n -> In n (map fst nt)) /\
    forall n k, In (n, k) nt ->
      count_ev (EOS n) body = 1 /\ count_ev (EOE n) body = 1 /\ count_ev (ETE n) body = k /\
      exists l1 l2 l3, body = l1 ++ EOS n :: l2 ++ EOE n :: l3 /\
        count_ev (ETE n) l1 = 0 /\ count_ev (ETE n) l3 = 0. Abort.

(* seq_trace_ok: the sequential executors produce an accepted trace *)
Goal forall ops, NoDup (map fst ops) -> events_ok ops (seq_trace ops) = true. Abort.

(* par_trace_ok: so does the generation-parallel executor, for EVERY interleaving of the merged streams *)
Goal forall gens,
  NoDup (map fst (concat (map fst gens))) ->
  (forall gi, In gi gens -> Permutation (snd gi) (gen_expected (fst gi))) ->
  events_ok (concat (map fst gens)) (par_trace gens) = true. Abort.

(* is_topo_order_sound *)
Goal forall nodes edges order, is_topo_order nodes edges order = true ->
  NoDup order /\ (forall n, In n nodes <-> In n order) /\
  forall u v, In (u, v) edges -> exists i j, index_of u order = Some i /\ index_of v order = Some j /\ i < j. Abort.

(* is_generations_sound *)
Goal forall nodes edges gens, is_generations nodes edges gens = true ->
  (forall n, In n nodes <-> exists g, In g gens /\ In n g) /\
  forall u v, In (u, v) edges -> exists i j, gen_index u gens = Some i /\ gen_index v gens = Some j /\ i < j. Abort.

(* op_deps_spec *)
Goal forall is_op edges p b, In (p, b) (op_deps is_op edges) <->
  (is_op p = true /\ is_op b = true /\ exists a, In (p, a) edges /\ In (a, b) edges). Abort.

(* seq_barrier: running the unskipped ops of any accepted topological order one at a time keeps
   every producer's end before every consumer's start *)
Goal forall nodes edges order is_op skip (ntasks : nat -> nat),
  is_topo_order nodes edges order = true ->
  barrier_ok (op_deps is_op edges)
    (seq_trace (map (fun n => (n, ntasks n)) (visit_nodes skip order))) = true. Abort.

(* par_barrier: the same for accepted generations, for every interleaving inside a generation *)
Goal forall nodes edges gens is_op skip (ntasks : nat -> nat) (inter : list (list ev)),
  is_generations nodes edges gens = true ->
  length inter = length (visit_generations skip gens) ->
  barrier_ok (op_deps is_op edges)
    (par_trace (combine (map (map (fun n => (n, ntasks n))) (visit_generations skip gens)) inter)) = true. Abort.

(* barrier_ok_sound: in an accepted, barrier-respecting trace every task end of a producer precedes
   every task end of its consumer *)
Goal forall deps trace p b i j,
  barrier_ok deps trace = true -> In (p, b) deps ->
  forall nt, events_ok nt trace = true -> In p (map fst nt) -> In b (map fst nt) ->
  nth_error trace i = Some (ETE p) -> nth_error trace j = Some (ETE b) -> i < j. Abort.
