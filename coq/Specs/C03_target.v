(* TARGET STATEMENTS for C03 over Model.AllocTrace (to be proved in Proofs/AllocProofs.v). *)
From CubedV Require Import Model.Util Model.Memory Model.AllocTrace.
Local Open Scope Z_scope.

Definition arg_ok (a : argkind) : Prop :=
  match a with ABlock b => 0 <= b | AList b _ => 0 <= b | AIter b _ => 0 <= b end.
Definition single_or_stream (a : argkind) : Prop :=
  match a with ABlock _ => True | AIter _ _ => True | AList _ k => (k <= 1)%nat end.

(* unfused_peak_bounded: for a task whose every argument is one block or a stream of blocks, the modelled
   peak never exceeds what the formula charges (beyond the reserved memory) *)
Goal forall rc wc args extra out, 0 <= rc -> 0 <= wc -> 0 <= extra -> 0 <= out ->
  Forall arg_ok args -> Forall single_or_stream args ->
  task_peak rc wc args extra out <= formula rc wc args extra out. Abort.

(* multi_block_list_refuted: an argument that holds k > 1 blocks of one array at once is under-projected
   (the formula counts the array once) - e.g. unstack over several blocks (D14) *)
Goal exists rc wc args extra out, 0 <= rc /\ 0 <= wc /\ Forall arg_ok args /\
  task_peak rc wc args extra out > formula rc wc args extra out. Abort.
(* list_peak_exact: how much a list argument really needs *)
Goal forall rc wc b k out, 0 <= rc -> 0 <= wc -> 0 <= b -> 0 <= out -> (0 < k)%nat ->
  task_peak rc wc [AList b k] 0 out = Z.max (b * Z.of_nat (k - 1) + (b * rc + b)) (b * Z.of_nat k + out + out * wc). Abort.

(* fused_peak_bounded: if each fused predecessor's own peak is bounded by its projected memory (minus reserved)
   and leaves its chunk memory (<= its projection) behind, and the op charges one block per predecessor output,
   then the fused task's peak is bounded by the fused projection max(op, peak_projected preds) *)
Goal forall wc rc (preds : list (Z * Z * Z)) extra out,     (* (modelled peak, projected, chunkmem) *)
  0 <= rc -> 0 <= wc -> 0 <= extra -> 0 <= out ->
  (forall t, In t preds -> fst (fst t) <= snd (fst t) /\ 0 <= snd t /\ snd t <= snd (fst t)) ->
  fused_task_peak wc (map (fun t => (fst (fst t), snd t)) preds) extra out
  <= fused_projected (calc_projected 0 (map (fun t : Z * Z * Z => snd t) preds) extra out rc wc)
                     (map (fun t => (snd (fst t), snd t)) preds). Abort.

(* projected_includes_reserved: the plan's projected memory is the data bound plus the reserved memory *)
Goal forall reserved inputs extra out rc wc,
  calc_projected reserved inputs extra out rc wc = reserved + calc_projected 0 inputs extra out rc wc. Abort.
