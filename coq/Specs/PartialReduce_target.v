(* Targets for Proofs/PartialReduceProofs.v (C03, defect D22: the first round of a reduction). *)
From CubedV Require Import Model.Util Model.Memory Model.PartialReduce.
Local Open Scope Z_scope.

(* 1. with the repaired extra memory the projection bounds the task, for every number of blocks,
      with or without an initial function (the intermediate of initial_func has the size of a
      reduced chunk: R' = R) *)
Goal forall rc wc x R wi k, 0 <= rc -> 1 <= wc -> 0 <= x -> 0 <= R ->
  pr_task_peak rc wc x R R wi k <= pr_projected 0 rc wc x R wi.
Abort. (* pr_task_peak_bounded *)

(* 2. the projection before the repair was too small for reduced chunks wider than three input chunks *)
Goal pr_task_peak 1 1 1 8 8 true 2 > pr_projected_old 0 1 1 1 8.
Abort. (* pr_old_refuted *)

(* 3. ... exactly then *)
Goal forall x R k, 0 <= x -> 0 <= R -> (2 <= k)%nat ->
  (pr_task_peak 1 1 x R R true k <= pr_projected_old 0 1 1 x R <-> R <= 3 * x).
Abort. (* pr_old_bound_iff *)

(* 4. closed form of the peak from the third block on *)
Goal forall rc wc x R k, 0 <= rc -> 0 <= wc -> 0 <= x -> 0 <= R -> (3 <= k)%nat ->
  pr_task_peak rc wc x R R true k
  = Z.max (3 * R + x * rc + x) (Z.max (5 * R) (R + R * wc)).
Abort. (* pr_peak_closed *)

(* 5. reserved memory is added on top *)
Goal forall res rc wc x R wi, pr_projected res rc wc x R wi = res + pr_projected 0 rc wc x R wi.
Abort. (* pr_projected_reserved *)
