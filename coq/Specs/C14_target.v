(* TARGET STATEMENTS for C14 (to be proved in Proofs/RechunkProofs.v under these names).
   Positivity / length side conditions are the ones the real code guarantees (shapes and
   chunk sizes are >= 1 for non-empty arrays; zero-size arrays skip rechunking). *)
From CubedV Require Import Model.Util Model.Rechunk.
From Coq Require Import Sorted.
Local Open Scope Z_scope.

Definition allpos (l : list Z) : Prop := Forall (fun x => 0 < x) l.
Definition le_all (a b : list Z) : Prop := Forall2 (fun x y => x <= y) a b.

(* --- split_chunksizes: the irregular intermediate grid refines both grids ------------- *)
(* split_sum *)
Goal forall n sc tc, 0 < n -> 0 < sc -> 0 < tc ->
  sumz (split_chunksizes n sc tc) = n /\ allpos (split_chunksizes n sc tc). Abort.
(* boundaries_spec *)
Goal forall n sc tc b, 0 < n -> 0 < sc -> 0 < tc ->
  (In b (boundaries n sc tc) <-> (b = n \/ (0 <= b < n /\ (b mod sc = 0 \/ b mod tc = 0)))). Abort.
(* boundaries_sorted *)
Goal forall n sc tc, 0 < n -> 0 < sc -> 0 < tc -> StronglySorted Z.lt (boundaries n sc tc). Abort.
(* split_refines: a piece never straddles a source-chunk or a target-chunk boundary *)
Goal forall n sc tc l1 x y l2, 0 < n -> 0 < sc -> 0 < tc ->
  boundaries n sc tc = l1 ++ x :: y :: l2 ->
  x < y /\ x / sc = (y - 1) / sc /\ x / tc = (y - 1) / tc. Abort.

(* --- consolidate_chunks -------------------------------------------------------------- *)
(* consolidate_bounded: the result fits in max_mem, never shrinks a chunk, never exceeds the shape *)
Goal forall shape chunks itemsize max_mem lims c,
  allpos shape -> allpos chunks -> 0 < itemsize -> le_all chunks shape ->
  (match lims with Some l => length l = length shape | None => True end) ->
  consolidate_chunks shape chunks itemsize max_mem lims = POk c ->
  mem_of itemsize c <= max_mem /\ le_all chunks c /\ le_all c shape. Abort.
(* consolidate_rejects_only_explicitly: the only failure is the explicit ValueError *)
Goal forall shape chunks itemsize max_mem lims e,
  consolidate_chunks shape chunks itemsize max_mem lims = PErr e -> e = E_VALUE. Abort.

(* --- _fix_copy_chunks / shared chunks ------------------------------------------------- *)
(* fix_copy_spec: per axis, the fixed copy chunk is <= the original, positive, and either
   not larger than the target chunk, the whole axis, or a multiple of the target chunk *)
Goal forall shape cc tc, allpos shape -> allpos cc -> allpos tc ->
  length cc = length shape -> length tc = length shape ->
  let r := fix_copy_chunks shape cc tc in
  length r = length shape /\ allpos r /\ le_all r cc /\
  forall i, (i < length shape)%nat ->
    nth i r 0 <= nth i tc 0 \/ nth i r 0 = nth i shape 0 \/ (nth i r 0) mod (nth i tc 0) = 0. Abort.
(* shared_le *)
Goal forall r w, length r = length w -> le_all (shared_chunks r w) r /\ le_all (shared_chunks r w) w. Abort.
(* mem_monotone *)
Goal forall itemsize a b, 0 < itemsize -> allpos a -> le_all a b -> mem_of itemsize a <= mem_of itemsize b. Abort.

(* --- the stage search and the whole planner -------------------------------------------- *)
(* search_shape: a returned plan is one of the candidate plans: non-empty, chained, ending in write *)
Goal forall regular shape itemsize min_mem read write prev table budget plan,
  (match prev with Some (_, p) => p <> [] /\ snd (last p (read, read, read)) = write
                                  /\ (forall l1 a b l2, p = l1 ++ a :: b :: l2 -> snd a = fst (fst b))
                 | None => True end) ->
  search regular shape itemsize min_mem read write prev table budget = POk plan ->
  plan <> [] /\ snd (last plan (read, read, read)) = write /\
  (forall l1 a b l2, plan = l1 ++ a :: b :: l2 -> snd a = fst (fst b)). Abort.
(* planner_total: every outcome is a plan or one of the three error classes (never stuck) *)
Goal forall regular shape source target itemsize min_mem max_mem table,
  match multistage_plan regular shape source target itemsize min_mem max_mem table with
  | POk p => p <> []
  | PErr e => e = E_VALUE \/ e = E_ASSERT \/ e = E_TABLE
  end. Abort.
(* planner_rejects_oversized: source or target chunks that do not fit are refused explicitly *)
Goal forall regular shape source target itemsize min_mem max_mem table,
  (max_mem < mem_of itemsize source \/ max_mem < mem_of itemsize target \/ max_mem < min_mem) ->
  length source = length shape -> length target = length shape ->
  multistage_plan regular shape source target itemsize min_mem max_mem table = PErr E_VALUE. Abort.
(* plan_memory: every read / intermediate / write chunk of every stage fits in max_mem,
   provided the oracle's stage values do (their contract, checked per case by the harness) *)
Goal forall regular shape source target itemsize min_mem max_mem table plan,
  allpos shape -> allpos source -> allpos target -> 0 < itemsize ->
  le_all source shape -> le_all target shape ->
  Forall (Forall (fun c => allpos c /\ length c = length shape /\ mem_of itemsize c <= max_mem)) table ->
  multistage_plan regular shape source target itemsize min_mem max_mem table = POk plan ->
  forall s, In s plan ->
    mem_of itemsize (fst (fst s)) <= max_mem /\ mem_of itemsize (snd (fst s)) <= max_mem
    /\ mem_of itemsize (snd s) <= max_mem. Abort.
(* copies_end_at_target: the derived copy sequence is non-empty and its last target is the request *)
Goal forall target plan, plan <> [] ->
  copies_of target plan <> [] /\ snd (last (copies_of target plan) (target, [])) = target. Abort.
