(* TARGET STATEMENTS for C02 (to be proved in Proofs/DagProofs.v under these names). *)
From CubedV Require Import Model.Util Model.Keys Model.Fusion Model.Memory Model.Dag.

Section C02.
Variable B : Type.

(* a primitive op's key function names the array it is asked for and reads only its sources *)
Definition op_names_ok (p : primop B) : Prop :=
  (forall k, fst (kf B p k) = fst k) /\
  (forall k t l, In t (snd (kf B p k)) -> In l (leaves t) -> In (fst l) (srcs B p)).
(* an op that has not been fused yet: keys, lists of keys, iterators of keys *)
Definition op_unfused (p : primop B) : Prop :=
  forall k, forallb unfused_arg (snd (kf B p k)) = true.

(* unique ids, unique producer per array, ops listed in a topological order,
   the edges cover the sources, key functions well-formed *)
Definition wf_ops (L : list (opnode B)) : Prop :=
  NoDup (map (oid B) L) /\
  NoDup (flat_map (outs B) L) /\
  (forall L1 o L2, L = L1 ++ o :: L2 ->
     forall a, In a (ins B o) -> ~ In a (flat_map (outs B) (o :: L2))) /\
  (forall o p, In o L -> prim B o = Some p -> incl (srcs B p) (ins B o) /\ op_names_ok p).

Definition all_unfused (L : list (opnode B)) : Prop :=
  forall o p, In o L -> prim B o = Some p -> op_unfused p.

(* arrays that disappear when o is fused with its predecessors *)
Definition removed_by (c : optcfg) (d : dag B) (o : opnode B) : list name :=
  if can_fuse_predecessors B c d o then
    match prim B o with Some p => fused_arrays B (pred_info B d p) | None => [] end
  else [].

(* T0 *)
Goal forall c d o a, In a (requested c) -> ~ In a (removed_by c d o). Abort.

(* T1: one fusion step leaves the value of every surviving array unchanged *)
Goal forall c d o e0 k,
  wf_ops (dops B d) -> In o (dops B d) ->
  (forall p, prim B o = Some p -> op_unfused p) ->
  ~ In (fst k) (removed_by c d o) ->
  eval B (fuse_predecessors B c d o) e0 k = eval B d e0 k. Abort.

(* T2: well-formedness is preserved, and ops other than o are untouched or removed *)
Goal forall c d o, wf_ops (dops B d) -> In o (dops B d) ->
  wf_ops (dops B (fuse_predecessors B c d o)). Abort.
Goal forall c d o x, In x (dops B (fuse_predecessors B c d o)) -> oid B x <> oid B o -> In x (dops B d). Abort.

(* T3: the property - the optimizer never changes the value of a requested array *)
Goal forall c order d e0 a cs,
  wf_ops (dops B d) -> all_unfused (dops B d) -> NoDup order ->
  In a (requested c) ->
  eval B (optimize B c order d) e0 (a, cs) = eval B d e0 (a, cs). Abort.

(* T4: every requested array is still produced by an op of the same kind *)
Goal forall c order d a o,
  wf_ops (dops B d) -> In a (requested c) -> In o (dops B d) -> In a (outs B o) ->
  exists o', In o' (dops B (optimize B c order d)) /\ oid B o' = oid B o /\ In a (outs B o')
             /\ is_prim B o' = is_prim B o. Abort.
End C02.
