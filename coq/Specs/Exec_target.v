(* TARGET STATEMENTS for C06 / C09 over Model.Exec (to be proved in Proofs/ExecProofs.v). *)
From CubedV Require Import Model.Util Model.Keys Model.Exec.
From Coq Require Import Permutation.

Section T.
Variable V : Type.
Notation store := (store V).
Notation task := (task V).
Notation op := (op V).

(* pointwise equality of stores (no functional extensionality) *)
Definition seq (s1 s2 : store) : Prop := forall k, s1 k = s2 k.

(* canonical_result: what an op leaves behind, independent of any schedule *)
Definition op_result (s : store) (o : op) : store :=
  fun k => match find (fun t => mem_key k (t_writes V t)) o with
           | Some t => Some (t_val V t s k)
           | None => s k
           end.

(* op_schedule_irrelevant (C06): any schedule made of the op's tasks in which every task occurs
   at least once - any order, any repetitions - leaves exactly the canonical result *)
Goal forall (o : op) (sched : list task) (s : store),
  op_ok V o -> (forall t, In t sched -> In t o) -> (forall t, In t o -> In t sched) ->
  seq (run_sched V s sched) (op_result s o). Abort.

(* run_task_idempotent *)
Goal forall (t : task) (s : store), task_local V t -> disjoint (t_reads V t) (t_writes V t) ->
  seq (run_task V (run_task V s t) t) (run_task V s t). Abort.

(* late_reexecution_harmless (C06): after a plan has run, re-executing any task of any of its ops
   (a retry or a backup that finishes late) changes nothing *)
Goal forall (p : list op) (s : store) (o : op) (t : task),
  plan_ok V p -> In o p -> In t o ->
  seq (run_task V (run_plan V s p) t) (run_plan V s p). Abort.

(* late_reexecution_midway: the duplicate may also run between two later ops *)
Goal forall (p1 p2 : list op) (s : store) (o : op) (t : task),
  plan_ok V (p1 ++ p2) -> In o p1 -> In t o ->
  seq (run_plan V (run_task V (run_plan V s p1) t) p2) (run_plan V s (p1 ++ p2)). Abort.

(* ---- resume (C09) ---------------------------------------------------------------------- *)
(* a crash state: the input chunks are those of s0, and every chunk of a produced array that is
   present already holds its final value (prefix invariant; established by final_if_present below) *)
Definition crash_state (p : list op) (s0 sc : store) : Prop :=
  (forall k, (forall o, In o p -> mem_key k (op_writes V o) = false) -> sc k = s0 k) /\
  (forall o k v, In o p -> mem_key k (op_writes V o) = true -> sc k = Some v -> run_plan V s0 p k = Some v).

(* resume_correct: from any crash state, resume ends in the store of the uninterrupted run *)
Goal forall (always : op -> bool) (p : list op) (s0 sc : store),
  plan_ok V p -> crash_state p s0 sc ->
  seq (resume_plan V always sc p) (run_plan V s0 p). Abort.

(* skip_only_complete: an op is skipped only if every one of its output chunks is present *)
Goal forall (s : store) (o : op), complete V s o = true ->
  forall k, mem_key k (op_writes V o) = true -> exists v, s k = Some v. Abort.

(* never_wipes: resume never removes a chunk that was present *)
Goal forall (always : op -> bool) (p : list op) (sc : store) k v,
  sc k = Some v -> exists v', resume_plan V always sc p k = Some v'. Abort.

(* final_if_present: every prefix of a run - at chunk-write granularity, tasks of the running op in
   any order - is a crash state.  [done] are the ops that finished, [o] the op that was running,
   [ws] the (task, chunk) writes of o that happened, in any order *)
Goal forall (done rest : list op) (o : op) (s0 : store) (ws : list (task * key)),
  plan_ok V (done ++ o :: rest) ->
  (forall tw, In tw ws -> In (fst tw) o /\ mem_key (snd tw) (t_writes V (fst tw)) = true) ->
  let s1 := run_plan V s0 done in
  crash_state (done ++ o :: rest) s0
    (fold_left (fun s tw => write_one V s1 (fst tw) (snd tw) s) ws s1). Abort.
End T.
