(* TARGET STATEMENTS for C08 (type-checked here with Abort; to be proved in
   Proofs/AsyncMapProofs.v under exactly these names and statements). *)
From CubedV Require Import Model.Util Model.AsyncMap.
From Coq Require Import Permutation.

Definition repaired (c : cfg) : Prop := fix_starts c = true /\ fix_super c = true.
Definition batch_ok (c : cfg) : Prop := batch c <> Some 0.

(* number of submissions of input i that are (b = true) backups / (b = false) originals *)
Definition nsub (s : st) (i : input) (b : bool) : nat :=
  length (filter (fun x => Nat.eqb (fst (snd x)) i && Bool.eqb (snd (snd x)) b) (submitted s)).

Section C08.
Variable c : cfg.
Hypothesis Hrep : repaired c.
Hypothesis Hb : batch_ok c.
Variable ins : list input.
Hypothesis Hnd : NoDup ins.
Variable script : list wake.
Let s := run c ins script.

(* S1: no input is delivered twice; everything delivered succeeded *)
Goal NoDup (map snd (yielded s)). Abort.
Goal forall t i, In (t, i) (yielded s) -> lookup t (completed s) = Some true /\ lookup t (tasks s) = Some i /\ In i ins. Abort.
(* S2: at most one original and one backup per input, only for real inputs *)
Goal forall i, nsub s i false <= 1 /\ nsub s i true <= nsub s i false. Abort.
Goal forall f i b, In (f, (i, b)) (submitted s) -> In i ins. Abort.
(* S3: no internal failure (KeyError / CancelledError / missing dictionary entry) *)
Goal stat s <> Crashed. Abort.
(* S4: an exception is raised only when every submission of that input failed *)
Goal forall t, stat s = Raised t ->
  exists i, lookup t (tasks s) = Some i /\ lookup t (completed s) = Some false /\
    forall f b, In (f, (i, b)) (submitted s) -> lookup f (completed s) = Some false. Abort.
(* C1: normal completion means exactly one result per input *)
Goal stat s = Done -> Permutation (map snd (yielded s)) ins. Abort.
(* L1: progress - bounded number of futures, every effective wake-up consumes one *)
Goal next s <= 2 * length ins. Abort.
Goal NoDup (map fst (completed s)) /\ length (completed s) <= next s. Abort.
Goal stat s = Running -> pending s <> []. Abort.
Goal forall w, stat s = Running -> valid_fin (pending s) [] (fin w) <> [] ->
  length (completed s) < length (completed (step c s w)). Abort.
Goal forall w, stat s <> Running -> step c s w = s. Abort.
End C08.

(* tenacity *)
Goal forall r o, fst (retry r o) <= S r. Abort.
Goal forall r o, r < length o ->
  (snd (retry r o) = true <-> exists k, k <= r /\ nth k o false = true). Abort.
Goal forall r o k, r < length o -> nth k o false = true -> (forall j, j < k -> nth j o false = false) -> k <= r ->
  retry r o = (S k, true). Abort.
