(* TARGET STATEMENTS for C05 / C11 over Model.StoreRegion (to be proved in Proofs/StoreProofs.v). *)
From CubedV Require Import Model.Util Model.Geometry Model.StoreRegion.

(* two half-open intervals overlap *)
Definition overlaps (a b : nat * nat) : Prop := fst a < snd b /\ fst b < snd a.

(* touched_spec: [touched] lists exactly the storage chunks that the task block overlaps *)
Goal forall n c t b j, 0 < t -> 0 < c -> b * c < n ->
  (In j (touched n c t b) <->
   (j * t < n /\ overlaps (blk_lo t j, blk_hi n t j) (blk_lo c b, blk_hi n c b))). Abort.

(* one_writer_axis: when the task grid is aligned with the storage grid (task chunk a multiple of
   the storage chunk, or a single task block), every storage chunk lies inside exactly one task
   block, which therefore writes it whole *)
Goal forall n c t j, 0 < t -> 0 < c -> (c mod t = 0 \/ n <= c) -> j * t < n ->
  exists b, b * c < n /\ writes_whole n c t b j = true /\
    forall b', b' * c < n -> overlaps (blk_lo t j, blk_hi n t j) (blk_lo c b', blk_hi n c b') -> b' = b. Abort.

(* touched_whole: under the same alignment a task writes every chunk it touches whole
   (no read-modify-write, no chunk shared with another task) *)
Goal forall n c t b, 0 < t -> 0 < c -> b * c < n -> (c mod t = 0 \/ n <= c) ->
  forallb (writes_whole n c t b) (touched n c t b) = true. Abort.

(* misaligned_shares_chunk (the defect D4 before the repair): without alignment two task blocks
   can touch the same storage chunk *)
Goal exists n c t b b' j, b <> b' /\ In j (touched n c t b) /\ In j (touched n c t b'). Abort.

(* store_task_chunks_aligned: with the rechunk rule of _store_array the tasks that write into an
   existing array are aligned with its chunks on every axis *)
Goal forall scs tcs nbs i, length scs = length tcs -> length nbs = length tcs -> i < length tcs ->
  0 < nth i tcs 0 ->
  (nth i (store_task_chunks scs tcs nbs) 0) mod (nth i tcs 0) = 0 \/ nth i nbs 0 <= 1. Abort.

(* ---- region store, one axis ---------------------------------------------------------------- *)
Definition accepted_axis (a : raxis) : Prop :=
  aligned a = true /\ shape_ok a = true /\ chunks_ok a = true /\ 0 < tc a /\ 0 < sc a /\ 0 < sn a.

(* region_task_exact: a task copies one source block onto the target block of the same extent,
   placed at region start + the block's position in the source, inside the region *)
Goal forall a b, accepted_axis a -> In b (out_blocks_axis a) ->
  rstart a <= fst (task_target a b) /\ snd (task_target a b) <= rstop a /\
  fst (task_target a b) < snd (task_target a b) /\
  fst (task_target a b) = rstart a + fst (task_source a b) /\
  snd (task_target a b) = rstart a + snd (task_source a b) /\
  b - block_offset a < nblocks (sn a) (sc a). Abort.

(* region_covered_once: every element of the region is written by exactly one enumerated block *)
Goal forall a x, accepted_axis a -> rstart a <= x < rstop a ->
  exists b, In b (out_blocks_axis a) /\ fst (task_target a b) <= x < snd (task_target a b) /\
    forall b', In b' (out_blocks_axis a) -> fst (task_target a b') <= x < snd (task_target a b') -> b' = b. Abort.

(* region_block_count: the enumerated blocks are exactly as many as the source has blocks *)
Goal forall a, accepted_axis a -> length (out_blocks_axis a) = nblocks (sn a) (sc a) /\ NoDup (out_blocks_axis a). Abort.

(* region_num_tasks_exact: N-d - the advertised number of tasks equals the number of enumerated blocks *)
Goal forall axes, Forall accepted_axis axes -> length (out_blocks axes) = region_num_tasks axes. Abort.

(* region_rejects_unsafe: a misaligned start, a misaligned interior stop, a wrong source extent or
   mismatched chunking is refused *)
Goal forall axes a, In a axes ->
  (rstart a mod tc a <> 0 \/ (rstop a mod tc a <> 0 /\ rstop a <> tn a) \/ sn a <> rstop a - rstart a
   \/ (sc a <> tc a /\ (1 < nblocks (sn a) (sc a) \/ tc a < sn a))) ->
  region_accepts axes = RejectValue. Abort.
