(* Targets for Proofs/StridedIndexProofs.v (C01 addressing of a strided slice; C03/C15: the number of input
   blocks an output block reads never exceeds what _index_num_input_blocks declares). *)
From CubedV Require Import Model.Util Model.Geometry Model.StridedIndex.

Definition num_out_blocks (oc L : nat) : nat := (L + oc - 1) / oc.

(* 1. the output blocks tile the selected positions, in order *)
Goal forall start step oc L, 0 < oc ->
  concat (map (block_positions start step oc L) (seq 0 (num_out_blocks oc L))) = map (sel_pos start step) (seq 0 L).
Abort. (* blocks_tile_selection *)

(* 2. the positions of block j are exactly those of the Python slice(lo, hi, step) that _target_chunk_selection builds *)
Goal forall start step oc L j, 0 < step -> 0 < oc -> j < num_out_blocks oc L ->
  let (lo, hi) := block_sel start step oc L j in
  block_positions start step oc L j = map (fun i => lo + i * step) (seq 0 ((hi - lo + step - 1) / step)).
Abort. (* block_positions_is_slice *)

(* 3. an output block of chunk_len_for_indexer elements spans fewer than c input positions: at most two input chunks *)
Goal forall c start step L j, 0 < c -> 0 < step -> j < num_out_blocks (out_chunk_len c step) L ->
  length (touched_chunks c (block_positions start step (out_chunk_len c step) L j)) <= 2.
Abort. (* touched_at_most_two *)

(* 4. ... and never more than the factor _index_num_input_blocks charges for the axis *)
Goal forall n c start step L j, 0 < c -> 0 < step -> 0 < L -> start + (L - 1) * step < n ->
  j < num_out_blocks (out_chunk_len c step) L ->
  length (touched_chunks c (block_positions start step (out_chunk_len c step) L j))
  <= slice_nib c ((n + c - 1) / c) start step L.
Abort. (* touched_le_declared *)
