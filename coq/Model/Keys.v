(* Chunk keys and the nested structures cubed passes around:
   ChunkKey, list of keys, iterator of keys, FunctionArgs (cubed/primitive/blockwise.py). *)
From CubedV Require Import Model.Util.

Definition name := nat.
Definition key := (name * list nat)%type.      (* ChunkKey(name, coords) *)

Definition key_eqb (a b : key) : bool := Nat.eqb (fst a) (fst b) && natlist_eqb (snd a) (snd b).

(* key side *)
Inductive ktree :=
| KLeaf (k : key)                       (* a ChunkKey *)
| KList (l : list ktree)                (* a Python list *)
| KIter (l : list ktree)                (* an iterator / generator *)
| KArgs (out : name) (l : list ktree).  (* FunctionArgs of l with output_name out *)

(* value side (what map_nested(get_chunk, ...) produces), over any block type *)
Inductive vtree (B : Type) :=
| VLeaf (b : B)
| VList (l : list (vtree B))
| VIter (l : list (vtree B))
| VArgs (out : name) (l : list (vtree B)).
Arguments VLeaf {B}. Arguments VList {B}. Arguments VIter {B}. Arguments VArgs {B}.

(* _map_nested_impl *)
Fixpoint map_nested {B} (f : key -> B) (t : ktree) : vtree B :=
  match t with
  | KLeaf k => VLeaf (f k)
  | KList l => VList (map (map_nested f) l)
  | KIter l => VIter (map (map_nested f) l)
  | KArgs o l => VArgs o (map (map_nested f) l)
  end.

Fixpoint ktree_eqb (a b : ktree) {struct a} : bool :=
  match a, b with
  | KLeaf k, KLeaf k' => key_eqb k k'
  | KList l, KList l' =>
      (fix go (l l' : list ktree) : bool :=
         match l, l' with [], [] => true | x :: r, y :: r' => ktree_eqb x y && go r r' | _, _ => false end) l l'
  | KIter l, KIter l' =>
      (fix go (l l' : list ktree) : bool :=
         match l, l' with [], [] => true | x :: r, y :: r' => ktree_eqb x y && go r r' | _, _ => false end) l l'
  | KArgs o l, KArgs o' l' =>
      Nat.eqb o o' &&
      (fix go (l l' : list ktree) : bool :=
         match l, l' with [], [] => true | x :: r, y :: r' => ktree_eqb x y && go r r' | _, _ => false end) l l'
  | _, _ => false
  end.

(* all chunk keys mentioned, left to right *)
Fixpoint leaves (t : ktree) : list key :=
  match t with
  | KLeaf k => [k]
  | KList l | KIter l | KArgs _ l => flat_map leaves l
  end.

(* a FunctionArgs returned by a key function: (output_name, args) *)
Definition fargs := (name * list ktree)%type.
Definition keyfun := key -> fargs.
