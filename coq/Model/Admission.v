(* The admission test of a finalized plan (cubed/core/plan.py: Plan._find_ops_exceeding_memory, FinalizedPlan.validate,
   called first by FinalizedPlan.execute) over the nodes of the DAG: a node is (name, Some view) for an operation node
   carrying a primitive operation and (name, None) for every other node.  This is the shape harness/translate.py renders
   the source into on every run. *)
From CubedV Require Import Model.Util Model.Keys Model.Fusion Model.Memory Model.Dag Model.FuseGuard.
Local Open Scope Z_scope.

(* list.sort(key=projected_mem, reverse=True): stable, descending *)
Fixpoint insert_desc (x : nat * pview) (l : list (nat * pview)) : list (nat * pview) :=
  match l with
  | [] => [x]
  | y :: l' => if v_proj (snd y) <? v_proj (snd x) then x :: l else y :: insert_desc x l'
  end.
Definition sort_by_proj_desc (l : list (nat * pview)) : list (nat * pview) :=
  fold_left (fun acc x => insert_desc x acc) l [].

Definition exceedsZ (op : pview) : bool := v_allowed op <? v_proj op.

Definition find_exceedingZ (nodes : list (nat * option pview)) : list (nat * pview) :=
  sort_by_proj_desc
    (flat_map (fun t : nat * option pview =>
                 match snd t with Some op => if exceedsZ op then [(fst t, op)] else [] | None => [] end) nodes).

(* validate(): raises iff the list is not empty *)
Definition validate_raises {A} (ops : list A) : bool := match ops with [] => false | _ => true end.

Definition plan_refusedZ (nodes : list (nat * option pview)) : bool := validate_raises (find_exceedingZ nodes).
