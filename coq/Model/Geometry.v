(* Chunk geometry: dask-normalised regular chunks, block enumeration
   (ChunkKeys.__iter__ / product_from), regions of a block (cubed.utils.get_item),
   block-id <-> offset conversion (np.ravel_multi_index / np.unravel_index). *)
From CubedV Require Import Model.Util.

(* normalize_chunks((c,), shape=(n,)) for one axis: n // c chunks of size c, then the
   remainder; a zero-length axis has the single chunk (0,) *)
Definition regular (n c : nat) : list nat :=
  match n with
  | O => [0]
  | _ => repeat c (n / c) ++ (if Nat.eqb (n mod c) 0 then [] else [n mod c])
  end.
Definition numblocks1 (n c : nat) : nat := length (regular n c).

(* cartesian product in row-major order: itertools.product over range(n) for n in nb *)
Fixpoint blocks (nb : list nat) : list (list nat) :=
  match nb with
  | [] => [[]]
  | n :: nb' => flat_map (fun i => map (cons i) (blocks nb')) (seq 0 n)
  end.

(* np.ravel_multi_index / np.unravel_index (C order) *)
Fixpoint ravel (nb b : list nat) : nat :=
  match nb, b with
  | n :: nb', i :: b' => i * prodn nb' + ravel nb' b'
  | _, _ => 0
  end.
Fixpoint unravel (nb : list nat) (o : nat) : list nat :=
  match nb with
  | [] => []
  | n :: nb' => (o / prodn nb') :: unravel nb' (o mod prodn nb')
  end.

(* product_from(..., start): the enumeration from an arbitrary offset *)
Definition blocks_from (nb : list nat) (start : nat) : list (list nat) := skipn start (blocks nb).

(* _cumsum(c, initial_zero=True) and get_item for one axis: [start, stop) of block i *)
Fixpoint starts_from (acc : nat) (cs : list nat) : list nat :=
  match cs with [] => [acc] | c :: cs' => acc :: starts_from (acc + c) cs' end.
Definition starts (cs : list nat) : list nat := starts_from 0 cs.
Definition region1 (cs : list nat) (i : nat) : nat * nat := (nth i (starts cs) 0, nth (S i) (starts cs) 0).
(* get_item(chunks, idx) *)
Definition get_item (chunks : list (list nat)) (idx : list nat) : list (nat * nat) :=
  map (fun p : list nat * nat => region1 (fst p) (snd p)) (combine chunks idx).

Definition in_region (r : list (nat * nat)) (x : list nat) : bool :=
  forallb (fun p : (nat * nat) * nat => (fst (fst p) <=? snd p) && (snd p <? snd (fst p))) (combine r x)
  && Nat.eqb (length r) (length x).

(* number of tasks of an ordinary blockwise op: math.prod(len(c) for c in chunks_normal) *)
Definition num_tasks (chunks : list (list nat)) : nat := prodn (map (@length nat) chunks).

Definition natlist3_eqb := list_eqb natlist2_eqb.
Definition regions_eqb (a b : list (nat * nat)) : bool := list_eqb (pair_eqb Nat.eqb Nat.eqb) a b.
