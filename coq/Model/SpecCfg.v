(* Resource specs (cubed/spec.py Spec.__eq__, cubed/core/array.py check_array_specs) and the
   exact meaning of memory-size literals (cubed/utils.py convert_to_bytes). *)
From CubedV Require Import Model.Util.
Local Open Scope Z_scope.

(* ---- convert_to_bytes ---------------------------------------------------------------
   A numeric literal accepted by the parser is  sign digits [. digits] [e exponent]  followed
   by an optional unit B / kB / MB / GB / TB / PB (powers of 1000).  The harness renders the
   literal from (negative, mantissa m >= 0 as the digit string without the point, exponent e
   = explicit exponent - number of fraction digits, unit power u); its value is
   (-1)^negative * m * 10^(e + 3u) bytes.  It is accepted iff that is a non-negative integer. *)
Inductive cres := Bytes (z : Z) | Rejected.

Definition pow10 (n : Z) : Z := 10 ^ n.
Definition convert_literal (negative : bool) (m e : Z) (u : Z) : cres :=
  let ex := e + 3 * u in
  if negative && negb (m =? 0) then Rejected
  else if 0 <=? ex then Bytes (m * pow10 ex)
  else if m mod pow10 (- ex) =? 0 then Bytes (m / pow10 (- ex))
  else Rejected.

(* integer and float arguments: an int is taken as is, a float must be integral; negative rejected *)
Definition convert_int (z : Z) : cres := if z <? 0 then Rejected else Bytes z.
(* a finite binary64 float is mant * 2^ex with integers mant, ex *)
Definition convert_float (mant ex : Z) : cres :=
  if 0 <=? ex then convert_int (mant * 2 ^ ex)
  else if mant mod 2 ^ (- ex) =? 0 then convert_int (mant / 2 ^ (- ex))
  else Rejected.

Definition cres_eqb (a b : cres) : bool :=
  match a, b with Bytes x, Bytes y => x =? y | Rejected, Rejected => true | _, _ => false end.

(* ---- Spec ------------------------------------------------------------------------------ *)
(* the seven compared fields, interned as numbers by the harness (None = 0) *)
Record spec := {
  work_dir : nat; intermediate_store : nat; allowed_mem : Z; reserved_mem : Z;
  executor : nat; storage_options : nat; zarr_compressor : nat }.

Definition spec_eqb (a b : spec) : bool :=
  Nat.eqb (work_dir a) (work_dir b) && Nat.eqb (intermediate_store a) (intermediate_store b)
  && (allowed_mem a =? allowed_mem b) && (reserved_mem a =? reserved_mem b)
  && Nat.eqb (executor a) (executor b) && Nat.eqb (storage_options a) (storage_options b)
  && Nat.eqb (zarr_compressor a) (zarr_compressor b).

(* check_array_specs: all specs equal to the first, which is returned; None = ValueError *)
Definition check_array_specs (specs : list spec) : option (option spec) :=
  match specs with
  | [] => Some None                           (* IndexError in the code: no array argument *)
  | s0 :: _ => if forallb (spec_eqb s0) specs then Some (Some s0) else None
  end.

(* Spec.__init__: allowed_mem defaults to reserved_mem *)
Definition spec_mems (allowed : option cres) (reserved : cres) : option (Z * Z) :=
  match reserved with
  | Rejected => None
  | Bytes r => match allowed with
               | None => Some (r, r)
               | Some Rejected => None
               | Some (Bytes a) => Some (a, r)
               end
  end.

Definition S7 (w i : nat) (a r : Z) (e so zc : nat) : spec :=
  {| work_dir := w; intermediate_store := i; allowed_mem := a; reserved_mem := r; executor := e;
     storage_options := so; zarr_compressor := zc |}.
