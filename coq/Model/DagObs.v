(* Observation of a model DAG that the correspondence compares with the abstraction of
   the real networkx DAG (names interned as numbers, edge multisets sorted). *)
From CubedV Require Import Model.Util Model.Keys Model.Fusion Model.Memory Model.Dag.

Fixpoint insert_nat (x : nat) (l : list nat) : list nat :=
  match l with [] => [x] | y :: l' => if x <=? y then x :: l else y :: insert_nat x l' end.
Definition sort_nat (l : list nat) : list nat := fold_right insert_nat [] l.

Definition dummy_kf : keyfun := fun k => (fst k, []).
Definition dummy_fn : bfun unit := fun _ => tt.

(* structural primop with no semantics attached *)
Definition P (bw fp fs : bool) (nt : nat) (pr al rs : Z) (nib : list nat) (cm : Z) (srcs : list name) : primop unit :=
  {| bw := bw; fpred := fp; fsucc := fs; ntasks := nt; proj := pr; allowed := al; reserved := rs;
     nib := nib; chunkmem := cm; srcs := srcs; kf := dummy_kf; fn := dummy_fn |}.
Definition O (id : nat) (ins outs : list name) (p : option (primop unit)) : opnode unit :=
  {| oid := id; ins := ins; outs := outs; prim := p |}.
Definition D (ops : list (opnode unit)) (virt : list name) : dag unit := {| dops := ops; virtuals := virt |}.

(* block counts are observed up to a cap: they are only ever compared with small limits (max_total_num_input_blocks),
   and the harness caps the counts it writes so that nat literals stay small *)
Definition NIB_CAP : nat := 200.
Definition prim_eqb (a b : primop unit) : bool :=
  Bool.eqb (bw _ a) (bw _ b) && Bool.eqb (fpred _ a) (fpred _ b) && Bool.eqb (fsucc _ a) (fsucc _ b)
  && Nat.eqb (ntasks _ a) (ntasks _ b) && Z.eqb (proj _ a) (proj _ b) && Z.eqb (allowed _ a) (allowed _ b)
  && Z.eqb (reserved _ a) (reserved _ b) && natlist_eqb (map (Nat.min NIB_CAP) (nib _ a)) (map (Nat.min NIB_CAP) (nib _ b))
  && Z.eqb (chunkmem _ a) (chunkmem _ b) && natlist_eqb (srcs _ a) (srcs _ b).

Definition op_eqb (a b : opnode unit) : bool :=
  Nat.eqb (oid _ a) (oid _ b)
  && natlist_eqb (sort_nat (ins _ a)) (sort_nat (ins _ b))
  && natlist_eqb (sort_nat (outs _ a)) (sort_nat (outs _ b))
  && option_eqb prim_eqb (prim _ a) (prim _ b).

Definition dag_eqb (a b : dag unit) : bool := list_eqb op_eqb (dops _ a) (dops _ b).

Definition CFG (req : list name) (ms : nat) (mn : option nat) (af nf : list nat) : optcfg :=
  {| requested := req; max_src := ms; max_nib := mn; always_fuse := af; never_fuse := nf |}.

(* first op on which two dags differ (for the replay file) *)
Fixpoint first_diff (a b : list (opnode unit)) : option (nat * nat) :=
  match a, b with
  | [], [] => None
  | x :: a', y :: b' => if op_eqb x y then first_diff a' b' else Some (oid _ x, oid _ y)
  | x :: _, [] => Some (oid _ x, 0)
  | [], y :: _ => Some (0, oid _ y)
  end.
