(* Shared executable helpers used by the models and by generated case files.
   No proofs here (Model files stay proof-free so they still evaluate when a
   proof elsewhere breaks). *)
From Coq Require Export List Arith ZArith Bool Lia.
Export ListNotations.

Fixpoint list_eqb {A} (eqb : A -> A -> bool) (l1 l2 : list A) : bool :=
  match l1, l2 with
  | [], [] => true
  | x :: l1', y :: l2' => eqb x y && list_eqb eqb l1' l2'
  | _, _ => false
  end.

Definition option_eqb {A} (eqb : A -> A -> bool) (o1 o2 : option A) : bool :=
  match o1, o2 with
  | Some x, Some y => eqb x y
  | None, None => true
  | _, _ => false
  end.

Definition pair_eqb {A B} (ea : A -> A -> bool) (eb : B -> B -> bool)
  (p q : A * B) : bool := ea (fst p) (fst q) && eb (snd p) (snd q).

Definition natlist_eqb := list_eqb Nat.eqb.
Definition natlist2_eqb := list_eqb natlist_eqb.
Definition zlist_eqb := list_eqb Z.eqb.

(* indices (0-based) of the [false] entries: what a generated case file prints *)
Fixpoint failing_from (i : nat) (l : list bool) : list nat :=
  match l with
  | [] => []
  | b :: l' => if b then failing_from (S i) l' else i :: failing_from (S i) l'
  end.
Definition failing (l : list bool) : list nat := failing_from 0 l.

Fixpoint prodn (l : list nat) : nat :=
  match l with [] => 1 | x :: l' => x * prodn l' end.
Fixpoint sumn (l : list nat) : nat :=
  match l with [] => 0 | x :: l' => x + sumn l' end.
Fixpoint prodz (l : list Z) : Z :=
  match l with [] => 1%Z | x :: l' => (x * prodz l')%Z end.
Fixpoint sumz (l : list Z) : Z :=
  match l with [] => 0%Z | x :: l' => (x + sumz l')%Z end.
Fixpoint maxz (l : list Z) : Z :=
  match l with [] => 0%Z | x :: l' => Z.max x (maxz l') end.

Fixpoint mem_nat (x : nat) (l : list nat) : bool :=
  match l with [] => false | y :: l' => Nat.eqb x y || mem_nat x l' end.

Fixpoint lookup {B} (k : nat) (l : list (nat * B)) : option B :=
  match l with
  | [] => None
  | (k', v) :: l' => if Nat.eqb k k' then Some v else lookup k l'
  end.
