(* Model of cubed.runtime.asyncio.async_map_unordered (one call = one operation's
   parallel map) as a step function driven by an adversary script, and of the
   tenacity retry wrapper used by the threads executor.

   Futures are numbered in creation order (fid).  One [wake] is one iteration of
   the [while pending] loop:
     - [fin]  : the futures asyncio.wait reports as finished, in the order the
                [for task in finished] loop visits them, with their outcome
                (true = result, false = exception);  [] is the 2 s timeout;
     - [exam] : the order in which the backup loop visits [copy(pending)] and the
                answer should_launch_backup gives for each visited task.
   The two flags [fix_starts]/[fix_super] select the pinned behaviour (false) or
   the repaired one (true) so that the defects D8/D9 remain stated as theorems. *)
From CubedV Require Import Model.Util.

Definition fid := nat.
Definition input := nat.

Inductive status := Running | Done | Raised (f : fid) | Crashed.

Record cfg := {
  use_backups : bool;
  batch : option nat;          (* batch_size *)
  fix_starts : bool;           (* start_times.update(..) instead of replacement *)
  fix_super : bool;            (* superseded set *)
  min_tasks : nat;             (* should_launch_backup default: 10 *)
  scripted_policy : bool;      (* policy replaced by a total black box (harness mode) *)
}.

Record st := {
  next : fid;
  tasks : list (fid * input);
  pending : list fid;
  backups : list (fid * fid);
  starts : list fid;           (* keys of start_times *)
  ends : list fid;             (* keys of end_times *)
  superseded : list fid;
  cancelled : list fid;
  completed : list (fid * bool);
  batches : list (list input);
  yielded : list (fid * input);      (* most recent first *)
  submitted : list (fid * (input * bool));  (* (future, (input, is_backup)), most recent first *)
  stat : status;
}.

Record wake := { fin : list (fid * bool); exam : list (fid * bool) }.

(* --- helpers ------------------------------------------------------------ *)
Fixpoint remove_nat (x : nat) (l : list nat) : list nat :=
  match l with [] => [] | y :: l' => if Nat.eqb x y then remove_nat x l' else y :: remove_nat x l' end.

Fixpoint remove_key {B} (k : nat) (l : list (nat * B)) : list (nat * B) :=
  match l with
  | [] => []
  | (k', v) :: l' => if Nat.eqb k k' then remove_key k l' else (k', v) :: remove_key k l'
  end.

Fixpoint batched_fuel (fuel : nat) (l : list input) (n : nat) : list (list input) :=
  match fuel with
  | O => []
  | S fuel' => match l with
               | [] => []
               | _ => firstn n l :: batched_fuel fuel' (skipn n l) n
               end
  end.
(* cubed.runtime.utils.batched (n >= 1) *)
Definition batched (l : list input) (n : nat) : list (list input) := batched_fuel (length l) l n.

(* create_futures_func(inputs): one fresh future per input, in order *)
Fixpoint mk_futures (nx : fid) (ins : list input) : list (fid * input) :=
  match ins with [] => [] | i :: ins' => (nx, i) :: mk_futures (S nx) ins' end.

Definition is_done (s : st) (f : fid) : bool :=
  match lookup f (completed s) with Some _ => true | None => mem_nat f (cancelled s) end.

(* math.ceil(len * 0.5) - 1 for len >= 1 *)
Definition half_up_pred (n : nat) : nat := (n + 1) / 2 - 1.

(* Does should_launch_backup(task, now, start_times, end_times) return without a
   KeyError, and is its answer forced to False by one of the two early returns? *)
Definition policy_early (c : cfg) (s : st) : bool :=
  negb (scripted_policy c) &&
  ((length (starts s) <? min_tasks c) || (length (ends s) <=? half_up_pred (length (starts s)))).
Definition policy_defined (c : cfg) (s : st) (t : fid) : bool :=
  scripted_policy c || policy_early c s
  || (forallb (fun e => mem_nat e (starts s)) (ends s) && mem_nat t (starts s)).

(* --- the [for task in finished] loop body ------------------------------- *)
Definition set_stat (s : st) (x : status) : st :=
  {| next := next s; tasks := tasks s; pending := pending s; backups := backups s;
     starts := starts s; ends := ends s; superseded := superseded s; cancelled := cancelled s;
     completed := completed s; batches := batches s; yielded := yielded s;
     submitted := submitted s; stat := x |}.

Definition on_success (c : cfg) (s : st) (t : fid) : st :=
  match lookup t (tasks s) with
  | None => set_stat s Crashed
  | Some i =>
    let s1 := {| next := next s; tasks := tasks s; pending := pending s; backups := backups s;
                 starts := starts s; ends := t :: ends s; superseded := superseded s;
                 cancelled := cancelled s; completed := completed s; batches := batches s;
                 yielded := (t, i) :: yielded s; submitted := submitted s; stat := stat s |} in
    if use_backups c then
      match lookup t (backups s1) with
      | None => s1
      | Some b =>
        {| next := next s1; tasks := tasks s1;
           pending := remove_nat b (pending s1);
           backups := remove_key b (remove_key t (backups s1));
           starts := starts s1; ends := ends s1;
           superseded := if fix_super c then b :: superseded s1 else superseded s1;
           cancelled := if is_done s1 b then cancelled s1 else b :: cancelled s1;
           completed := completed s1; batches := batches s1; yielded := yielded s1;
           submitted := submitted s1; stat := stat s1 |}
      end
    else s1
  end.

Definition on_finished (c : cfg) (s : st) (tb : fid * bool) : st :=
  match stat s with
  | Running =>
    let (t, ok) := tb in
    if fix_super c && mem_nat t (superseded s) then s
    else if ok then on_success c s t
    else match lookup t (backups s) with
         | None => set_stat s (Raised t)
         | Some b =>
           if negb (is_done s b) then s
           else if mem_nat b (cancelled s) then set_stat s Crashed   (* CancelledError *)
           else match lookup b (completed s) with
                | Some true => s
                | Some false => set_stat s (Raised t)
                | None => s
                end
         end
  | _ => s
  end.

(* --- the backup loop ----------------------------------------------------- *)
Definition launch_backup (s : st) (t : fid) : st :=
  match lookup t (tasks s) with
  | None => set_stat s Crashed
  | Some i =>
    let f := next s in
    {| next := S f; tasks := (f, i) :: tasks s; pending := f :: pending s;
       backups := (t, f) :: (f, t) :: backups s;
       starts := f :: starts s; ends := ends s; superseded := superseded s;
       cancelled := cancelled s; completed := completed s; batches := batches s;
       yielded := yielded s; submitted := (f, (i, true)) :: submitted s; stat := stat s |}
  end.

Definition on_exam (c : cfg) (pend0 : list fid) (s : st) (ta : fid * bool) : st :=
  match stat s with
  | Running =>
    let (t, ans) := ta in
    if mem_nat t pend0 && negb (match lookup t (backups s) with Some _ => true | None => false end) then
      if policy_defined c s t then
        if ans && negb (policy_early c s) then launch_backup s t else s
      else set_stat s Crashed                                             (* KeyError *)
    else s
  | _ => s
  end.

(* --- batch refill -------------------------------------------------------- *)
Definition refill (c : cfg) (s : st) : st :=
  match stat s, batch c with
  | Running, Some b =>
    if length (pending s) <? b then
      match batches s with
      | [] => s
      | ins :: rest =>
        let new := mk_futures (next s) ins in
        {| next := next s + length ins; tasks := new ++ tasks s;
           pending := map fst new ++ pending s; backups := backups s;
           starts := if fix_starts c then map fst new ++ starts s else map fst new;
           ends := ends s; superseded := superseded s; cancelled := cancelled s;
           completed := completed s; batches := rest; yielded := yielded s;
           submitted := map (fun fi => (fst fi, (snd fi, false))) (rev new) ++ submitted s;
           stat := stat s |}
      end
    else s
  | _, _ => s
  end.

Definition finish (s : st) : st :=
  match stat s, pending s with
  | Running, [] => set_stat s Done
  | _, _ => s
  end.

(* keep only the finished futures that really are pending, once each *)
Fixpoint valid_fin (pend : list fid) (seen : list fid) (l : list (fid * bool)) : list (fid * bool) :=
  match l with
  | [] => []
  | (t, ok) :: l' =>
    if mem_nat t pend && negb (mem_nat t seen) then (t, ok) :: valid_fin pend (t :: seen) l'
    else valid_fin pend seen l'
  end.

Definition step (c : cfg) (s : st) (w : wake) : st :=
  match stat s with
  | Running =>
    let fin' := valid_fin (pending s) [] (fin w) in
    let s0 := {| next := next s; tasks := tasks s;
                 pending := fold_left (fun p tb => remove_nat (fst tb) p) fin' (pending s);
                 backups := backups s; starts := starts s; ends := ends s;
                 superseded := superseded s; cancelled := cancelled s;
                 completed := fin' ++ completed s; batches := batches s; yielded := yielded s;
                 submitted := submitted s; stat := stat s |} in
    let s1 := fold_left (on_finished c) fin' s0 in
    let s2 := if use_backups c then fold_left (on_exam c (pending s1)) (exam w) s1 else s1 in
    finish (refill c s2)
  | _ => s
  end.

Definition init (c : cfg) (ins : list input) : st :=
  let bs := match batch c with None => [ins] | Some b => batched ins b end in
  let first := match bs with [] => [] | b :: _ => b end in
  let new := mk_futures 0 first in
  finish
  {| next := length first; tasks := new; pending := map fst new; backups := [];
     starts := map fst new; ends := []; superseded := []; cancelled := []; completed := [];
     batches := tl bs; yielded := [];
     submitted := map (fun fi => (fst fi, (snd fi, false))) (rev new); stat := Running |}.

Definition run (c : cfg) (ins : list input) (script : list wake) : st :=
  fold_left (step c) script (init c ins).

Definition fixed_cfg (ub : bool) (b : option nat) (scripted : bool) : cfg :=
  {| use_backups := ub; batch := b; fix_starts := true; fix_super := true; min_tasks := 10;
     scripted_policy := scripted |}.
Definition pinned_cfg (ub : bool) (b : option nat) (scripted : bool) : cfg :=
  {| use_backups := ub; batch := b; fix_starts := false; fix_super := false; min_tasks := 10;
     scripted_policy := scripted |}.

(* --- observation used by the correspondence ------------------------------ *)
Definition status_code (s : st) : nat * nat :=
  match stat s with
  | Running => (0, 0) | Done => (1, 0) | Raised f => (2, f) | Crashed => (3, 0)
  end.
(* (status, yielded futures oldest first, number of futures created, pending sorted is left to the harness) *)
Definition observe (s : st) : (nat * nat) * list fid * nat * list (fid * fid) :=
  (status_code s, rev (map fst (yielded s)), next s, backups s).

(* --- tenacity: Retrying(reraise=True, stop=stop_after_attempt(retries+1)) --- *)
(* [outcomes] is the sequence of results successive calls of the function would
   give (true = returns).  Result: (attempts made, succeeded). *)
Fixpoint retry_loop (budget : nat) (outcomes : list bool) (made : nat) : nat * bool :=
  match budget with
  | O => (made, false)
  | S budget' =>
    match outcomes with
    | [] => (made, false)            (* not reached when length outcomes >= budget *)
    | true :: _ => (S made, true)
    | false :: rest => retry_loop budget' rest (S made)
    end
  end.
Definition retry (retries : nat) (outcomes : list bool) : nat * bool :=
  retry_loop (S retries) outcomes 0.

(* --- what the correspondence compares ------------------------------------ *)
Definition sub_eqb (a b : fid * (input * bool)) : bool :=
  Nat.eqb (fst a) (fst b) && Nat.eqb (fst (snd a)) (fst (snd b)) && Bool.eqb (snd (snd a)) (snd (snd b)).

Definition check_run (c : cfg) (n : nat) (script : list wake)
  (exp_status : nat * nat) (exp_yields : list fid) (exp_subs : list (fid * (input * bool))) : bool :=
  let s := run c (seq 0 n) script in
  pair_eqb Nat.eqb Nat.eqb (status_code s) exp_status
  && natlist_eqb (rev (map fst (yielded s))) exp_yields
  && list_eqb sub_eqb (rev (submitted s)) exp_subs.

Definition W (f : list (fid * bool)) (e : list (fid * bool)) : wake := {| fin := f; exam := e |}.
