(* Names and plan merging (gensym counters in cubed/core/array.py, cubed/core/plan.py,
   cubed/primitive/blockwise.py; arrays_to_dag = networkx.compose_all in cubed/core/plan.py).

   A plan is a finite map from node names to nodes; a node records what it is computed from.
   Names are numbers drawn from a per-process counter. *)
From CubedV Require Import Model.Util.

(* a node: an input with its data id, or an operation applied to named arguments *)
Inductive node := NInp (d : nat) | NOp (f : nat) (args : list nat).
Definition plan := list (nat * node).           (* association list; first binding wins on lookup *)

Definition node_eqb (a b : node) : bool :=
  match a, b with
  | NInp x, NInp y => Nat.eqb x y
  | NOp f l, NOp g m => Nat.eqb f g && natlist_eqb l m
  | _, _ => false
  end.

(* compose_all [p1; p2]: the union of the nodes; for a name in both, the later graph's attributes win *)
Definition merge (p1 p2 : plan) : plan := p2 ++ p1.

(* two plans agree on the names they share *)
Definition compatible (p1 p2 : plan) : bool :=
  forallb (fun kv : nat * node =>
             match lookup (fst kv) p2 with Some n => node_eqb (snd kv) n | None => true end) p1.

Section Den.
Variable V : Type.
Variable inp : nat -> V.
Variable opf : nat -> list V -> V.

(* meaning of a named array in a plan (fuel = number of bindings suffices for acyclic plans) *)
Fixpoint den_fuel (fuel : nat) (p : plan) (a : nat) : option V :=
  match fuel with
  | O => None
  | S f =>
    match lookup a p with
    | None => None
    | Some (NInp d) => Some (inp d)
    | Some (NOp g args) =>
        let vals := map (den_fuel f p) args in
        if forallb (fun o => match o with Some _ => true | None => false end) vals
        then Some (opf g (flat_map (fun o => match o with Some v => [v] | None => [] end) vals))
        else None
    end
  end.
End Den.

(* ---- per-process name generation ---------------------------------------------------------- *)
(* a process: its counter and everything it has named so far *)
Record proc := { counter : nat; registry : plan }.
Definition fresh (p : proc) (n : node) : proc * nat :=
  ({| counter := S (counter p); registry := (S (counter p), n) :: registry p |}, S (counter p)).
Definition proc0 : proc := {| counter := 0; registry := [] |}.

Definition names (p : plan) : list nat := map fst p.
Definition plan_eq_as_maps (p q : plan) (ks : list nat) : bool :=
  forallb (fun k => option_eqb node_eqb (lookup k p) (lookup k q)) ks.
