(* Selections over chunk grids: the Zarr indexer's chunk projection of a contiguous slice, and the
   key function of concat (cubed/array_api/manipulation_functions.py concat, _array_slices). *)
From CubedV Require Import Model.Util Model.Keys.

(* chunks (size c) overlapped by the half-open range [s, e): from s / c to (e - 1) / c; none if empty *)
Definition proj_chunks (c s e : nat) : list nat :=
  if e <=? s then [] else seq (s / c) ((e - 1) / c - s / c + 1).
(* the part of chunk ci selected, in chunk-local coordinates, and where it lands in the output *)
Definition proj_chunk_sel (c s e ci : nat) : nat * nat := (Nat.max s (ci * c) - ci * c, Nat.min e ((ci + 1) * c) - ci * c).
Definition proj_out_sel (c s e ci : nat) : nat * nat := (Nat.max s (ci * c) - s, Nat.min e ((ci + 1) * c) - s).

(* bisect(offsets, x) - 1: index of the last offset <= x (offsets sorted, first is 0) *)
Fixpoint bisect_pred (offsets : list nat) (x : nat) : nat :=
  match offsets with
  | [] => 0
  | _ :: rest =>
    match rest with
    | o :: _ => if o <=? x then S (bisect_pred rest x) else 0
    | [] => 0
    end
  end.

(* _array_slices(offsets, start, stop): (array index, local start, local stop) pieces of [start, stop) *)
Fixpoint array_slices (fuel : nat) (offsets : list nat) (start stop : nat) : list (nat * nat * nat) :=
  match fuel with
  | O => []
  | S f =>
    if stop <=? start then []
    else
      let i := bisect_pred offsets start in
      let oi := nth i offsets 0 in
      let sstop := Nat.min stop (nth (S i) offsets 0) in
      (i, start - oi, sstop - oi) :: array_slices f offsets sstop stop
  end.

Fixpoint product_lists (ls : list (list nat)) : list (list nat) :=
  match ls with [] => [[]] | l :: rest => flat_map (fun i => map (cons i) (product_lists rest)) l end.

(* concat's back_key_function for one output block.
   names/chunksizes/offsets of the inputs; out_chunks = chunk size of the output per dim; shape of the output *)
Definition concat_kf (names : list name) (in_chunksizes : list (list nat)) (offsets : list nat)
  (axis : nat) (out_chunksize out_shape : list nat) (out_coords : list nat) : list key :=
  let c := nth axis out_chunksize 1 in
  let start := nth axis out_coords 0 * c in
  let stop := Nat.min (start + c) (nth axis out_shape 0) in
  flat_map (fun piece : nat * nat * nat =>
    let ai := fst (fst piece) in
    let cs := nth ai in_chunksizes [] in
    let dims := map (fun d =>
                  if Nat.eqb d axis then proj_chunks (nth d cs 1) (snd (fst piece)) (snd piece)
                  else let oc := nth d out_chunksize 1 in
                       let lo := nth d out_coords 0 * oc in
                       proj_chunks (nth d cs 1) lo (Nat.min (lo + oc) (nth d out_shape 0)))
                (seq 0 (length out_coords)) in
    map (fun coords => (nth ai names 0, coords)) (product_lists dims))
  (array_slices (S (length offsets)) offsets start stop).

Definition keys_eqb (a b : list key) : bool := list_eqb key_eqb a b.
