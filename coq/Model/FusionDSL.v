(* A small language of key-function shapes and fusion trees, interpreted both here
   (through Model.Fusion) and by the harness (as real BlockwiseSpec objects handed to
   the real fuse_multiple), so that fused key trees and provenance terms can be compared. *)
From CubedV Require Import Model.Util Model.Keys Model.Fusion.

Inductive kfdesc :=
| KD_map (srcs : list name)              (* one key per source, same coords: elementwise *)
| KD_list (src : name) (m : nat)         (* a list of m keys of src: coords (c0*m+j :: rest) *)
| KD_iter (src : name) (m : nat)         (* the same as an iterator *)
| KD_alt (srcs : list name)              (* stack-like: source number c0 mod n, coords (c0/n :: rest) *)
| KD_cat (src1 src2 : name)              (* concat-like: a list holding a key of each source *)
| KD_mixed (src1 src2 : name) (m : nat). (* a single key of src1 and an iterator over src2 *)

Definition c0 (cs : list nat) := hd 0 cs.
Definition kd_args (d : kfdesc) (k : key) : list ktree :=
  let cs := snd k in
  match d with
  | KD_map srcs => map (fun s => KLeaf (s, cs)) srcs
  | KD_list s m => [KList (map (fun j => KLeaf (s, (c0 cs * m + j) :: tl cs)) (seq 0 m))]
  | KD_iter s m => [KIter (map (fun j => KLeaf (s, (c0 cs * m + j) :: tl cs)) (seq 0 m))]
  | KD_alt srcs => [KLeaf (nth (c0 cs mod (length srcs)) srcs 0, (c0 cs / length srcs) :: tl cs)]
  | KD_cat s1 s2 => [KList [KLeaf (s1, cs); KLeaf (s2, cs)]]
  | KD_mixed s1 s2 m => [KLeaf (s1, cs); KIter (map (fun j => KLeaf (s2, (c0 cs * m + j) :: tl cs)) (seq 0 m))]
  end.
Definition interp (d : kfdesc) : keyfun := fun k => (fst k, kd_args d k).

(* provenance as token lists: a free-enough algebra (the serialisation is injective) *)
Definition blk := list nat.
Fixpoint ser (v : vtree blk) : list nat :=
  match v with
  | VLeaf b => b
  | VList l => [2] ++ flat_map ser l ++ [3]
  | VIter l => [4] ++ flat_map ser l ++ [5]
  | VArgs o l => [7; o] ++ flat_map ser l ++ [8]
  end.
Definition sym_fun (fname : nat) : bfun blk := fun args => [0; fname] ++ flat_map ser args ++ [1].
Definition sym_read (k : key) : blk := [6; fst k; length (snd k)] ++ snd k.

(* an op (output array name, key-function shape) with the predecessors that get fused into it *)
Inductive optree := OT (out : name) (d : kfdesc) (fused : list optree).
Definition ot_out (t : optree) : name := match t with OT o _ _ => o end.

Fixpoint find_pred {X} (n : name) (l : list (name * X)) : option X :=
  match l with [] => None | (m, x) :: l' => if Nat.eqb n m then Some x else find_pred n l' end.

(* the (key function, block function) pair fuse_multiple builds, bottom-up *)
Fixpoint fuse_tree (t : optree) : keyfun * bfun blk :=
  match t with
  | OT o d [] => (interp d, sym_fun o)
  | OT o d cs =>
      let ps := map (fun c => (ot_out c, fuse_tree c)) cs in
      (fused_kf (interp d) (fun n => option_map fst (find_pred n ps)),
       fused_fun blk (sym_fun o) (fun n => option_map snd (find_pred n ps)))
  end.

(* the unfused reference: run every fused predecessor as its own operation *)
Fixpoint run_tree (t : optree) (k : key) {struct t} : blk :=
  match t with
  | OT o d cs =>
      let rd := fun k' : key =>
        (fix look (l : list optree) : blk :=
           match l with
           | [] => sym_read k'
           | c :: l' => if Nat.eqb (fst k') (ot_out c) then run_tree c k' else look l'
           end) cs in
      run_op blk (interp d) (sym_fun o) rd k
  end.

Definition fused_result (t : optree) (k : key) : blk :=
  run_op blk (fst (fuse_tree t)) (snd (fuse_tree t)) sym_read k.
Definition fused_keys (t : optree) (k : key) : fargs := fst (fuse_tree t) k.

Definition fargs_eqb (a b : fargs) : bool :=
  Nat.eqb (fst a) (fst b) && ktree_eqb (KList (snd a)) (KList (snd b)).
