(* groupby_blockwise (cubed/core/groupby.py): the chunking of the grouped axis.
   _get_chunks_for_groups(num_chunks, labels, num_groups) re-chunks the input along the grouped axis so
   that output chunk j holds the groups [j * gpc, (j+1) * gpc) with gpc = max(num_groups // num_chunks, 1);
   labels are sorted non-negative integers < num_groups, one per position of the grouped axis. *)
From CubedV Require Import Model.Util Model.Geometry.

(* searchsorted(labels, g) (side = left) on a sorted list: the number of labels smaller than g *)
Definition start_index (labels : list nat) (g : nat) : nat := length (filter (fun l => l <? g) labels).

Definition groups_per_chunk (num_chunks G : nat) : nat := Nat.max (G / num_chunks) 1.

(* start_indexes[::gpc]: one boundary per output chunk *)
Definition num_out_chunks (gpc G : nat) : nat := (G + gpc - 1) / gpc.
Definition chunk_boundaries (labels : list nat) (gpc G : nat) : list nat :=
  map (fun j => start_index labels (j * gpc)) (seq 0 (num_out_chunks gpc G)).

(* diff(boundaries, append = len(labels)) *)
Fixpoint diffs (l : list nat) (last : nat) : list nat :=
  match l with
  | [] => []
  | [a] => [last - a]
  | a :: ((b :: _) as r) => (b - a) :: diffs r last
  end.
Definition newchunks (num_chunks : nat) (labels : list nat) (G : nat) : list nat :=
  diffs (chunk_boundaries labels (groups_per_chunk num_chunks G) G) (length labels).

(* what task j reads of the labels, the first group of its output chunk and the number of groups the
   output chunk is declared to hold (normalize_chunks of (gpc,) over G) *)
Definition read_labels (num_chunks : nat) (labels : list nat) (G j : nat) : list nat :=
  let nc := newchunks num_chunks labels G in
  firstn (nth j nc 0) (skipn (sumn (firstn j nc)) labels).
Definition start_group (num_chunks G j : nat) : nat := j * groups_per_chunk num_chunks G.
Definition groups_in_chunk (num_chunks G j : nat) : nat := nth j (regular G (groups_per_chunk num_chunks G)) 0.

Fixpoint sortedb (l : list nat) : bool :=
  match l with a :: ((b :: _) as r) => (a <=? b) && sortedb r | _ => true end.
