(* The rechunk planner: cubed/vendor/rechunker/algorithm.py (consolidate_chunks,
   _calculate_shared_chunks, _count_intermediate_chunks, multistage_rechunking_plan),
   cubed/core/rechunk.py (_fix_copy_chunks, verify_chunk_compatibility,
   multistage_regular_rechunking_plan) and cubed/core/ops.py (_rechunk_plan,
   split_chunksizes, _rechunk's max_num_input_blocks).

   Sizes are Z.  The two float computations are not re-implemented:
     - max_mem / chunk_mem followed by int() or "> 1" is integer division / comparison
       (exact for byte counts below 2^52);
     - the geometric stage values (np.geomspace + floor, resp. _multspace) are an ORACLE:
       the search loop takes the list of stage chunkings, one entry per stage_count tried,
       and the harness feeds the values the real functions returned. *)
From CubedV Require Import Model.Util.
Local Open Scope Z_scope.

Definition chunksz := list Z.

Definition mem_of (itemsize : Z) (c : chunksz) : Z := itemsize * prodz c.

Inductive pres (A : Type) := POk (a : A) | PErr (e : nat).
Arguments POk {A}. Arguments PErr {A}.
Definition E_VALUE := 1%nat.       (* ValueError *)
Definition E_ASSERT := 2%nat.      (* AssertionError *)
Definition E_TABLE := 9%nat.       (* oracle table exhausted (harness artefact, never the code) *)

(* ---- consolidate_chunks ---------------------------------------------------- *)
(* chunk_limits: None -> no consolidation on that axis; Some (-1) -> shape; Some cl *)
Fixpoint limits_ok (shape chunks : chunksz) (limits : list (option Z)) : bool :=
  match shape, chunks, limits with
  | n :: shape', c :: chunks', l :: limits' =>
      (match l with
       | None => true
       | Some cl => (cl =? -1) || ((c <=? cl) && (cl <=? n)) || (n <? cl)
       end) && limits_ok shape' chunks' limits'
  | _, _, _ => true
  end.
Definition limit_val (n : Z) (l : option Z) : option Z :=
  match l with
  | None => None
  | Some cl => if cl =? -1 then Some n else if n <? cl then Some n else Some cl
  end.

Fixpoint set_nth (l : chunksz) (i : nat) (v : Z) : chunksz :=
  match l, i with
  | [], _ => []
  | _ :: l', O => v :: l'
  | x :: l', S i' => x :: set_nth l' i' v
  end.

(* one axis of the consolidation loop; state = (new_chunks, headroom as max_mem and chunk_mem) *)
Definition consolidate_axis (shape chunks : chunksz) (itemsize max_mem : Z) (lims : list (option Z))
  (st : chunksz * Z) (ax : nat) : chunksz * Z :=
  let (newc, headroom_int) := st in
  match limit_val (nth ax shape 0) (nth ax lims None) with
  | None => st
  | Some lim =>
    let ub := Z.min (nth ax shape 0) lim in
    let c1 := set_nth newc ax ub in
    let m1 := mem_of itemsize c1 in
    if m1 <? max_mem then (c1, max_mem / m1)               (* upper_bound_headroom > 1 *)
    else
      let larger := nth ax chunks 0 * headroom_int in
      let c2 := set_nth newc ax (Z.min larger ub) in
      (c2, max_mem / mem_of itemsize c2)
  end.

(* axes are visited from the highest to axis 0 *)
Definition consolidate_chunks (shape chunks : chunksz) (itemsize max_mem : Z) (lims : option (list (option Z)))
  : pres chunksz :=
  let lims' := match lims with None => map Some shape | Some l => l end in
  if negb (limits_ok shape chunks lims') then PErr E_VALUE
  else
    let cm := mem_of itemsize chunks in
    if max_mem <? cm then PErr E_VALUE
    else if cm =? 0 then PErr E_VALUE        (* ZeroDivisionError in the code; never with chunks >= 1 *)
    else POk (fst (fold_left (consolidate_axis shape chunks itemsize max_mem lims')
                             (rev (seq 0 (length shape))) (chunks, max_mem / cm))).

(* ---- helpers ---------------------------------------------------------------- *)
Fixpoint map2 {A B C} (f : A -> B -> C) (a : list A) (b : list B) : list C :=
  match a, b with x :: a', y :: b' => f x y :: map2 f a' b' | _, _ => [] end.
Fixpoint map3 {A B C D} (f : A -> B -> C -> D) (a : list A) (b : list B) (c : list C) : list D :=
  match a, b, c with x :: a', y :: b', z :: c' => f x y z :: map3 f a' b' c' | _, _, _ => [] end.

Definition shared_chunks (r w : chunksz) : chunksz := map2 Z.min r w.

(* _fix_copy_chunks *)
Definition fix_copy_chunks (shape cc tc : chunksz) : chunksz :=
  map3 (fun n c t => if (c <=? t) || (c =? n) || (c mod t =? 0) then c else (c / t) * t) shape cc tc.

(* verify_chunk_compatibility as a boolean *)
Definition chunk_compatible (shape wc tc : chunksz) : bool :=
  forallb (fun b : bool => b) (map3 (fun n w t => (w =? n) || (w mod t =? 0)) shape wc tc).

Definition cdiv (a b : Z) : Z := (a + b - 1) / b.
(* _count_intermediate_chunks *)
Definition count_intermediate (sc tc size : Z) : Z :=
  let m := Z.lcm sc tc in
  let splits := m / sc + m / tc - 1 in
  let q := size / m in
  let r := size mod m in
  q * splits + (if r =? 0 then 0 else cdiv r sc + cdiv r tc - 1).
Definition io_ops (shape inc outc : chunksz) : Z := prodz (map3 (fun n s t => count_intermediate s t n) shape inc outc).

(* ---- the stage search -------------------------------------------------------- *)
Definition stage := (chunksz * chunksz * chunksz)%type.    (* (read, intermediate, write) *)

Fixpoint minz_list (l : list Z) (d : Z) : Z :=
  match l with [] => d | x :: l' => Z.min x (minz_list l' x) end.

Definition build_plan (read : chunksz) (stages : list chunksz) (write : chunksz) : list stage :=
  let pre := read :: stages in
  let post := stages ++ [write] in
  map2 (fun p q => (p, shared_chunks p q, q)) pre post.

Definition plan_int_mem (itemsize : Z) (plan : list stage) : Z :=
  match map (fun s : stage => mem_of itemsize (snd (fst s))) plan with
  | [] => 0
  | x :: l => minz_list (x :: l) x
  end.
Definition plan_io (shape : chunksz) (plan : list stage) : Z :=
  sumz (map (fun s : stage => io_ops shape (fst (fst s)) (snd s)) plan).

(* [table]: stage chunkings returned by calculate_(regular_)stage_chunks for stage_count = 1, 2, ... *)
Fixpoint search (regular : bool) (shape : chunksz) (itemsize min_mem : Z)
  (read write : chunksz) (prev : option (Z * list stage)) (table : list (list chunksz)) (budget : nat)
  : pres (list stage) :=
  match budget with
  | O => PErr E_ASSERT                           (* MAX_STAGES exhausted *)
  | S budget' =>
    match table with
    | [] => PErr E_TABLE
    | stages :: table' =>
      let read' := if regular then fix_copy_chunks shape read (hd write (stages ++ [write])) else read in
      let plan := build_plan read' stages write in
      if min_mem <=? plan_int_mem itemsize plan then POk plan
      else
        let io := plan_io shape plan in
        match prev with
        | Some (pio, pplan) => if pio <? io then POk pplan
                               else search regular shape itemsize min_mem read' write (Some (io, plan)) table' budget'
        | None => search regular shape itemsize min_mem read' write (Some (io, plan)) table' budget'
        end
    end
  end.

Definition MAX_STAGES := 100%nat.

(* multistage_rechunking_plan / multistage_regular_rechunking_plan *)
Definition multistage_plan (regular : bool) (shape source target : chunksz) (itemsize min_mem max_mem : Z)
  (table : list (list chunksz)) : pres (list stage) :=
  if negb ((length source =? length shape)%nat && (length target =? length shape)%nat) then PErr E_VALUE
  else if max_mem <? mem_of itemsize source then PErr E_VALUE
  else if max_mem <? mem_of itemsize target then PErr E_VALUE
  else if max_mem <? min_mem then PErr E_VALUE
  else
    match consolidate_chunks shape target itemsize max_mem None with
    | PErr e => PErr e
    | POk write =>
      let lims := map2 (fun sc wc => if sc <? wc then Some wc else None) source write in
      match consolidate_chunks shape source itemsize max_mem (Some lims) with
      | PErr e => PErr e
      | POk read => search regular shape itemsize min_mem read write None table (pred MAX_STAGES)
      end
    end.

(* _rechunk_plan: stages -> (copy_chunks, target_chunks) pairs *)
Definition chunks_eqb := list_eqb Z.eqb.
Fixpoint copies_of (target : chunksz) (plan : list stage) : list (chunksz * chunksz) :=
  match plan with
  | [] => []
  | (r, i, w) :: rest =>
    let last := match rest with [] => true | _ => false end in
    let tgt := if last then target else w in
    (if chunks_eqb r w then [(r, tgt)]
     else (r, i) :: (if last then [(w, tgt)] else []))
    ++ copies_of target rest
  end.

(* ---- split_chunksizes (np.arange / union1d / diff) ------------------------------ *)
(* boundaries: multiples of sc and of tc below n, plus n; as sorted distinct list *)
Fixpoint multiples_below (fuel : nat) (k step n : Z) : list Z :=
  match fuel with
  | O => []
  | S f => if k <? n then k :: multiples_below f (k + step) step n else []
  end.
Fixpoint merge_u (fuel : nat) (a b : list Z) : list Z :=
  match fuel with
  | O => []
  | S f =>
    match a, b with
    | [], _ => b
    | _, [] => a
    | x :: a', y :: b' =>
      if x <? y then x :: merge_u f a' b
      else if y <? x then y :: merge_u f a b'
      else x :: merge_u f a' b'
    end
  end.
Fixpoint diffs (l : list Z) : list Z :=
  match l with
  | x :: ((y :: _) as l') => (y - x) :: diffs l'
  | _ => []
  end.
Definition boundaries (n sc tc : Z) : list Z :=
  let a := multiples_below (Z.to_nat n + 1) 0 sc n in
  let b := multiples_below (Z.to_nat n + 1) 0 tc n in
  merge_u (length a + length b + 1) a b ++ [n].
Definition split_chunksizes (n sc tc : Z) : list Z := diffs (boundaries n sc tc).

(* _rechunk: max_num_input_blocks = prod(ceil(copy / source chunksize)) *)
Definition max_num_input_blocks (src copy : chunksz) : Z := prodz (map2 (fun c0 c1 => cdiv c1 c0) src copy).

(* ---- comparison helpers for the correspondence --------------------------------- *)
Definition stage_eqb (a b : stage) : bool :=
  chunks_eqb (fst (fst a)) (fst (fst b)) && chunks_eqb (snd (fst a)) (snd (fst b)) && chunks_eqb (snd a) (snd b).
Definition pres_plan_eqb (a b : pres (list stage)) : bool :=
  match a, b with
  | POk x, POk y => list_eqb stage_eqb x y
  | PErr e, PErr e' => Nat.eqb e e'
  | _, _ => false
  end.
Definition pres_chunks_eqb (a b : pres chunksz) : bool :=
  match a, b with
  | POk x, POk y => chunks_eqb x y
  | PErr e, PErr e' => Nat.eqb e e'
  | _, _ => false
  end.
Definition copies_eqb (a b : list (chunksz * chunksz)) : bool :=
  list_eqb (fun p q => chunks_eqb (fst p) (fst q) && chunks_eqb (snd p) (snd q)) a b.
