(* The allocation behaviour of one task of partial_reduce (cubed/core/ops.py::_partial_reduce, plain
   array path) and the memory cubed projects for it (partial_reduce's extra_projected_mem).

   The task streams k input blocks of x bytes.  For each block: it is read (x * rc bytes of
   copies, released when the read returns, plus the block itself), [array = initial_func(block)]
   allocates R' bytes and releases the block, [reduced_chunk = reduce_func(array)] allocates R bytes,
   and from the second block on [result = concat([result, reduced_chunk])] allocates 2 R (the old
   result is released when the name is rebound) and [result = reduce_func(result)] allocates R
   (the concatenation is released afterwards).  Python locals (array, reduced_chunk) stay bound
   until the next iteration rebinds them (array: by the for statement, as soon as the next block has been
   read); in the first iteration result IS reduced_chunk. *)
From CubedV Require Import Model.Util Model.Memory.
Local Open Scope Z_scope.

(* locals alive between iterations: (array, reduced_chunk distinct from result, result) *)
Record prstate := { st_array : Z; st_reduced : Z; st_result : Z }.
Definition pr_alive (s : prstate) : Z := st_array s + st_reduced s + st_result s.
Definition pr0 : prstate := {| st_array := 0; st_reduced := 0; st_result := 0 |}.

(* one iteration: returns (peak during the iteration, state afterwards); [first] = no result yet.
   with_init = an initial function is applied to the block (first round of a reduction); without
   it the block itself is the array (later rounds: x = R') *)
Definition pr_iter (rc x R' R : Z) (with_init first : bool) (s : prstate) : Z * prstate :=
  let a0 := pr_alive s in
  let p_read := a0 + x * rc + x in
  (* [for array in arrays] rebinds the name to the block: the old array is released once the block has arrived;
     array = initial_func(block): new array while the block is alive *)
  let p_init := if with_init then a0 - st_array s + x + R' else a0 - st_array s + x in
  let arr := if with_init then R' else x in
  let a1 := a0 - st_array s + arr in                 (* the block, if converted, released *)
  (* reduced_chunk = reduce_func(array): new chunk while the old one is still bound *)
  let p_red := a1 + R in
  let a2 := a1 - st_reduced s + R in
  if first then
    (Z.max p_read (Z.max p_init p_red), {| st_array := arr; st_reduced := 0; st_result := R |})
  else
    let p_cat := a2 + 2 * R in                        (* concat of result and reduced_chunk *)
    let a3 := a2 - st_result s + 2 * R in             (* old result released *)
    let p_fin := a3 + R in                            (* reduce of the concatenation *)
    (Z.max p_read (Z.max p_init (Z.max p_red (Z.max p_cat p_fin))),
     {| st_array := arr; st_reduced := R; st_result := R |}).

Fixpoint pr_run (rc x R' R : Z) (with_init : bool) (k : nat) (first : bool) (s : prstate) (pk : Z) : Z * prstate :=
  match k with
  | O => (pk, s)
  | S k' => let (p, s') := pr_iter rc x R' R with_init first s in
            pr_run rc x R' R with_init k' false s' (Z.max pk p)
  end.

(* the whole task: k blocks, then the result is written with wc copies (the function's locals are gone) *)
Definition pr_task_peak (rc wc x R' R : Z) (with_init : bool) (k : nat) : Z :=
  let (p, s) := pr_run rc x R' R with_init k true pr0 0 in
  Z.max p (st_result s + st_result s * wc).

(* partial_reduce: extra_projected_mem, before and after the repair of D22, and the op's projected_mem *)
Definition pr_extra_old (x R : Z) : Z := x + 2 * R.
Definition pr_extra (x R : Z) (with_init : bool) : Z := x + 2 * R + (if with_init then 2 * R else 0).
Definition pr_projected (reserved rc wc x R : Z) (with_init : bool) : Z :=
  calc_projected reserved [x] (pr_extra x R with_init) R rc wc.
Definition pr_projected_old (reserved rc wc x R : Z) : Z :=
  calc_projected reserved [x] (pr_extra_old x R) R rc wc.
