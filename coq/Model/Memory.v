(* Projected-memory arithmetic (cubed/primitive/memory.py, peak_projected_mem and the
   projected memory of fused operations in cubed/primitive/blockwise.py, the admission
   test of cubed/core/plan.py). All quantities are bytes in Z. *)
From CubedV Require Import Model.Util.
Local Open Scope Z_scope.

(* calculate_projected_mem(reserved_mem, inputs, operation, output, buffer_copies) *)
Definition calc_projected (reserved : Z) (inputs : list Z) (operation output : Z) (rcopies wcopies : Z) : Z :=
  fold_left (fun acc i => acc + i * rcopies + i) inputs reserved + operation + output + output * wcopies.

(* general_blockwise: the projected memory of an ordinary operation from the chunk memories of its inputs (array_memory(dtype, largest chunk))
   and of the chunks it writes to each of its outputs (array_memory(dtype, write chunk size)) *)
Definition blockwise_projected (reserved extra rcopies wcopies : Z) (ins outs : list Z) : Z :=
  calc_projected reserved ins extra (fold_left Z.max outs 0) rcopies wcopies.

(* MemoryModeller *)
Record mm := { cur : Z; peak : Z }.
Definition mm0 : mm := {| cur := 0; peak := 0 |}.
Definition allocate (m : mm) (n : Z) : mm := {| cur := cur m + n; peak := Z.max (peak m) (cur m + n) |}.
Definition free (m : mm) (n : Z) : mm := {| cur := cur m - n; peak := Z.max (peak m) (cur m - n) |}.

(* peak_projected_mem over the (projected_mem, chunk_memory(target)) of the predecessors that
   are fused (None entries are skipped by the caller) *)
Definition peak_step (m : mm) (p : Z * Z) : mm := free (allocate m (fst p)) (fst p - snd p).
Definition peak_projected (ps : list (Z * Z)) : Z := peak (fold_left peak_step ps mm0).

(* fuse_multiple: projected_mem of the fused operation *)
Definition fused_projected (op_projected : Z) (preds : list (Z * Z)) : Z :=
  Z.max op_projected (peak_projected preds).
(* legacy fuse *)
Definition legacy_fused_projected (p1 p2 : Z) : Z := Z.max p1 p2.

(* create_zarr_arrays: max itemsize + reserved *)
Definition create_arrays_projected (itemsizes : list Z) (reserved : Z) : Z := maxz itemsizes + reserved.

(* Plan._find_ops_exceeding_memory / FinalizedPlan.validate on (projected, allowed) pairs *)
Definition exceeds (pa : Z * Z) : bool := snd pa <? fst pa.
Definition ops_exceeding (ops : list (Z * Z)) : list (Z * Z) := filter exceeds ops.
Definition plan_accepted (ops : list (Z * Z)) : bool := match ops_exceeding ops with [] => true | _ => false end.
Definition max_projected (ops : list (Z * Z)) : Z := fold_left (fun m pa => Z.max (fst pa) m) ops 0.
