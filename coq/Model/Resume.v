(* already_computed (cubed/core/plan.py): which operations a resumed run skips, as a function of what it finds in storage.
   An operation node has a pipeline or not; each of its output arrays is described by what opening its target gives. *)
From CubedV Require Import Model.Util.
Local Open Scope Z_scope.

Inductive tgt :=
| NoTarget                         (* nodes[output]["target"] is None *)
| Missing                          (* opening raises ArrayNotFoundError / GroupNotFoundError *)
| NoProp                           (* the opened array has no nchunks_initialized: NotImplementedError propagates *)
| Arr (ndim nchunks_initialized nchunks : Z).

Definition is_notarget (t : tgt) : bool := match t with NoTarget => true | _ => false end.

(* the test inside the loop: "this output is not complete" *)
Definition incompleteZ (ndim nci n : Z) : bool := (ndim =? 0) || negb (nci =? n).

(* Some b = returns b, None = raises; [inc] is the test inside the loop *)
Fixpoint outputs_complete_with (inc : Z -> Z -> Z -> bool) (outs : list tgt) : option bool :=
  match outs with
  | [] => Some true
  | NoTarget :: r => outputs_complete_with inc r
  | Missing :: _ => Some false
  | NoProp :: _ => None
  | Arr nd nci n :: r => if inc nd nci n then Some false else outputs_complete_with inc r
  end.
Definition outputs_complete := outputs_complete_with incompleteZ.

Definition already_computed_with (inc : Z -> Z -> Z -> bool) (has_pipeline : bool) (outs : list tgt) : option bool :=
  if negb has_pipeline then Some true
  else if forallb is_notarget outs then Some false
  else outputs_complete_with inc outs.
Definition already_computedZ := already_computed_with incompleteZ.
