(* Boolean checkers for the side conditions of Model.Exec, evaluated on the read / write sets
   observed (through the tracing store) for the tasks of real plans. *)
From CubedV Require Import Model.Util Model.Keys Model.Exec.

(* an observed task: (chunks read, chunks written) *)
Definition otask := (list key * list key)%type.
Definition oop := list otask.

Definition disjoint_b (a b : list key) : bool := forallb (fun k => negb (mem_key k b)) a.

Fixpoint pairwise_writes_disjoint (o : oop) : bool :=
  match o with
  | [] => true
  | t :: rest => forallb (fun t' : otask => disjoint_b (snd t) (snd t')) rest && pairwise_writes_disjoint rest
  end.
Definition oop_ok (o : oop) : bool :=
  forallb (fun t : otask => forallb (fun t' : otask => disjoint_b (fst t) (snd t')) o) o
  && pairwise_writes_disjoint o.
Definition oop_writes (o : oop) : list key := flat_map snd o.
Definition oop_reads (o : oop) : list key := flat_map fst o.
Fixpoint oplan_ok (p : list oop) : bool :=
  match p with
  | [] => true
  | o :: rest =>
      oop_ok o
      && forallb (fun o' => disjoint_b (oop_writes o) (oop_writes o') && disjoint_b (oop_reads o) (oop_writes o')) rest
      && oplan_ok rest
  end.

(* every chunk of every produced array has exactly one writer and is covered:
   [expected] = all chunk keys of the op's outputs *)
Definition covers (o : oop) (expected : list key) : bool :=
  forallb (fun k => mem_key k (oop_writes o)) expected
  && forallb (fun k => mem_key k expected) (oop_writes o)
  && Nat.eqb (length (oop_writes o)) (length expected).

(* turn an observation into a model task over any value type *)
Definition to_task {V} (val : store V -> key -> V) (t : otask) : task V :=
  {| t_reads := fst t; t_writes := snd t; t_val := val |}.

(* resume: which ops does the model skip, given the chunk keys present at restart?
   an observed op for resume = (always-run flag, all chunk keys of its outputs) *)
Definition present_store (present : list key) : store unit :=
  fun k => if mem_key k present then Some tt else None.
Definition resume_skips (present : list key) (ops : list (bool * list key)) : list bool :=
  map (fun o : bool * list key =>
         negb (fst o) && complete unit (present_store present) [ {| t_reads := []; t_writes := snd o; t_val := fun _ _ => tt |} ])
      ops.
Definition boollist_eqb := list_eqb Bool.eqb.
