(* An allocation-trace semantics of one task (apply_blockwise in cubed/primitive/blockwise.py) against
   which the projected-memory formula (Model.Memory) is judged.  Sizes in bytes (Z, non-negative).

   A task reads its arguments one after the other.  Reading a stored block of b bytes costs b * rcopies
   (compressed / buffer copies, released when the read returns) plus b for the decoded block, which stays
   alive.  An argument that is a LIST of k blocks keeps all k alive; an ITERATOR argument keeps one block
   alive at a time (plus whatever the function accumulates, which the op declares as extra memory).
   Then the function runs (its declared extra memory) and produces the output block, which is written
   with wcopies further buffer copies. *)
From CubedV Require Import Model.Util Model.Memory.
Local Open Scope Z_scope.

Inductive argkind :=
| ABlock (b : Z)                 (* one block *)
| AList (b : Z) (k : nat)        (* k blocks held together *)
| AIter (b : Z) (k : nat).       (* k blocks streamed one at a time *)

(* bytes that stay alive once the argument has been read *)
Definition held (a : argkind) : Z :=
  match a with
  | ABlock b => b
  | AList b k => b * Z.of_nat k
  | AIter b k => if (k =? 0)%nat then 0 else b
  end.
(* peak while reading the argument, above what was alive before *)
Definition read_peak (rc : Z) (a : argkind) : Z :=
  match a with
  | ABlock b => b * rc + b
  | AList b k => if (k =? 0)%nat then 0 else b * Z.of_nat (k - 1) + (b * rc + b)
  | AIter b k => if (k =? 0)%nat then 0 else b * rc + b
  end.

(* peak over the argument-reading phase; returns (peak, alive afterwards) *)
Fixpoint read_args (rc : Z) (alive : Z) (args : list argkind) : Z * Z :=
  match args with
  | [] => (alive, alive)
  | a :: rest =>
      let p := alive + read_peak rc a in
      let (p', alive') := read_args rc (alive + held a) rest in
      (Z.max p p', alive')
  end.

(* the whole task: reading, then the function (extra) and the output, then writing the output *)
Definition task_peak (rc wc : Z) (args : list argkind) (extra out : Z) : Z :=
  let (p, alive) := read_args rc 0 args in
  Z.max p (alive + extra + out + out * wc).

(* what the formula charges for the same task: one block per source array *)
Definition formula (rc wc : Z) (args : list argkind) (extra out : Z) : Z :=
  calc_projected 0 (map (fun a => match a with ABlock b | AList b _ | AIter b _ => b end) args) extra out rc wc.

(* a fused task: each predecessor runs to completion inside the argument evaluation (its own peak),
   leaving its output chunk alive; then the op itself runs on those chunks *)
Fixpoint fused_read (alive : Z) (preds : list (Z * Z)) : Z * Z :=     (* (task peak of the predecessor, its chunk memory) *)
  match preds with
  | [] => (alive, alive)
  | (pk, cm) :: rest =>
      let (p', alive') := fused_read (alive + cm) rest in
      (Z.max (alive + pk) p', alive')
  end.
Definition fused_task_peak (wc : Z) (preds : list (Z * Z)) (extra out : Z) : Z :=
  let (p, alive) := fused_read 0 preds in
  Z.max p (alive + extra + out + out * wc).

(* ------------------------------------------------------------------------- *)
(* A fused task as the implementation runs it (apply_blockwise): ALL input blocks of all fused
   predecessors are read first (map_nested over a list is eager) and stay referenced by the
   argument tuple until the task ends; then the nested fused function is evaluated: a node
   evaluates its children left to right, their results stay alive until the node's own function
   has produced its output (extra + out), and are released when it returns. *)
Inductive ftree :=
| FIn (b : Z)                                   (* an input block *)
| FOp (extra out : Z) (children : list ftree).  (* an operation of the fused function *)

Fixpoint leaves (t : ftree) : list Z :=
  match t with
  | FIn b => [b]
  | FOp _ _ cs => (fix go (l : list ftree) : list Z := match l with [] => [] | c :: r => leaves c ++ go r end) cs
  end.

Definition fsize (t : ftree) : Z := match t with FIn b => b | FOp _ o _ => o end.

(* peak reached while evaluating t when [alive] bytes are alive before; the result (fsize t bytes,
   nothing new for an input block) is alive afterwards *)
Fixpoint eval_peak (alive : Z) (t : ftree) : Z :=
  match t with
  | FIn _ => alive
  | FOp e o cs =>
      (fix go (al pk : Z) (l : list ftree) : Z :=
         match l with
         | [] => Z.max pk (al + e + o)
         | c :: r => go (al + match c with FIn _ => 0 | FOp _ o' _ => o' end) (Z.max pk (eval_peak al c)) r
         end) alive alive cs
  end.

(* reading the input blocks one after the other: peak, and what is alive afterwards *)
Fixpoint read_blocks (rc alive : Z) (bs : list Z) : Z * Z :=
  match bs with
  | [] => (alive, alive)
  | b :: r => let (p, a) := read_blocks rc (alive + b) r in (Z.max (alive + b * rc + b) p, a)
  end.

Definition tree_task_peak (rc wc : Z) (t : ftree) : Z :=
  let (p, alive) := read_blocks rc 0 (leaves t) in
  Z.max (Z.max p (eval_peak alive t)) (alive + fsize t + fsize t * wc).

(* what cubed projects for the same fused op: the optimizer fuses bottom-up with fuse_multiple, a
   fused predecessor enters with its own projection and chunk memory, an input block read directly
   is charged by the op's formula only *)
Fixpoint tree_projected (rc wc : Z) (t : ftree) : Z :=
  match t with
  | FIn _ => 0
  | FOp e o cs =>
      fused_projected
        (calc_projected 0 ((fix go (l : list ftree) : list Z := match l with [] => [] | c :: r => fsize c :: go r end) cs) e o rc wc)
        ((fix go (l : list ftree) : list (Z * Z) :=
            match l with
            | [] => []
            | FIn _ :: r => go r
            | (FOp _ o' _ as c) :: r => (tree_projected rc wc c, o') :: go r
            end) cs)
  end.

(* the folds used by the correspondence: term i = negative(multiply(a_i, k)) over blocks of x bytes *)
Definition fterm (x : Z) : ftree := FOp 0 x [FOp 0 x [FIn x; FIn 0]].
Fixpoint right_fold (x : Z) (n : nat) : ftree :=
  match n with O => fterm x | S n' => FOp 0 x [fterm x; right_fold x n'] end.
Fixpoint left_fold (x : Z) (n : nat) : ftree :=
  match n with O => fterm x | S n' => FOp 0 x [left_fold x n'; fterm x] end.
