(* An allocation-trace semantics of one task (apply_blockwise in cubed/primitive/blockwise.py) against
   which the projected-memory formula (Model.Memory) is judged.  Sizes in bytes (Z, non-negative).

   A task reads its arguments one after the other.  Reading a stored block of b bytes costs b * rcopies
   (compressed / buffer copies, released when the read returns) plus b for the decoded block, which stays
   alive.  An argument that is a LIST of k blocks keeps all k alive; an ITERATOR argument keeps one block
   alive at a time (plus whatever the function accumulates, which the op declares as extra memory).
   Then the function runs (its declared extra memory) and produces the output block, which is written
   with wcopies further buffer copies. *)
From CubedV Require Import Model.Util Model.Memory.
Local Open Scope Z_scope.

Inductive argkind :=
| ABlock (b : Z)                 (* one block *)
| AList (b : Z) (k : nat)        (* k blocks held together *)
| AIter (b : Z) (k : nat).       (* k blocks streamed one at a time *)

(* bytes that stay alive once the argument has been read *)
Definition held (a : argkind) : Z :=
  match a with
  | ABlock b => b
  | AList b k => b * Z.of_nat k
  | AIter b k => if (k =? 0)%nat then 0 else b
  end.
(* peak while reading the argument, above what was alive before *)
Definition read_peak (rc : Z) (a : argkind) : Z :=
  match a with
  | ABlock b => b * rc + b
  | AList b k => if (k =? 0)%nat then 0 else b * Z.of_nat (k - 1) + (b * rc + b)
  | AIter b k => if (k =? 0)%nat then 0 else b * rc + b
  end.

(* peak over the argument-reading phase; returns (peak, alive afterwards) *)
Fixpoint read_args (rc : Z) (alive : Z) (args : list argkind) : Z * Z :=
  match args with
  | [] => (alive, alive)
  | a :: rest =>
      let p := alive + read_peak rc a in
      let (p', alive') := read_args rc (alive + held a) rest in
      (Z.max p p', alive')
  end.

(* the whole task: reading, then the function (extra) and the output, then writing the output *)
Definition task_peak (rc wc : Z) (args : list argkind) (extra out : Z) : Z :=
  let (p, alive) := read_args rc 0 args in
  Z.max p (alive + extra + out + out * wc).

(* what the formula charges for the same task: one block per source array *)
Definition formula (rc wc : Z) (args : list argkind) (extra out : Z) : Z :=
  calc_projected 0 (map (fun a => match a with ABlock b | AList b _ | AIter b _ => b end) args) extra out rc wc.

(* a fused task: each predecessor runs to completion inside the argument evaluation (its own peak),
   leaving its output chunk alive; then the op itself runs on those chunks *)
Fixpoint fused_read (alive : Z) (preds : list (Z * Z)) : Z * Z :=     (* (task peak of the predecessor, its chunk memory) *)
  match preds with
  | [] => (alive, alive)
  | (pk, cm) :: rest =>
      let (p', alive') := fused_read (alive + cm) rest in
      (Z.max (alive + pk) p', alive')
  end.
Definition fused_task_peak (wc : Z) (preds : list (Z * Z)) (extra out : Z) : Z :=
  let (p, alive) := fused_read 0 preds in
  Z.max p (alive + extra + out + out * wc).
