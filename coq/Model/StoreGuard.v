(* The two refusals of a region store (cubed/core/ops.py _store_array, region branch) per axis, in the integer shape the
   source is translated into on every run; Proofs/StoreGuardProofs.v relates them to Model.StoreRegion.aligned / chunks_ok. *)
From CubedV Require Import Model.Util.
Local Open Scope Z_scope.

(* region slice [start, stop) on a target axis of length shape_i with chunk size cs: "does not align with target chunks" *)
Definition misalignedZ (start stop cs shape_i : Z) : bool :=
  negb (start mod cs =? 0) || (negb (stop mod cs =? 0) && negb (stop =? shape_i)).

(* source axis of length n, chunk size sc, nb blocks, into target chunk size tc: "source chunks do not match target chunks" *)
Definition chunks_mismatchZ (n sc tc nb : Z) : bool :=
  negb (sc =? tc) && ((1 <? nb) || (tc <? n)).
