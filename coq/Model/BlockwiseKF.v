(* Model of make_blockwise_back_key_function(_flattened)
   (cubed/primitive/blockwise.py) and of the vendored dask helpers it uses
   (_make_dims/broadcast_dimensions, _get_coord_mapping, lol_product, flatten). *)
From CubedV Require Import Model.Util Model.Keys.

Definition index := nat.                         (* an index symbol: 'i', 'j', 0, 1, ... *)
Definition argpair := (name * list index)%type.  (* (array name, its index tuple) *)

(* numblocks: dict name -> tuple of block counts *)
Definition nbmap := list (name * list nat).
Definition nb_of (nbs : nbmap) (a : name) : list nat :=
  match lookup a nbs with Some l => l | None => [] end.

Fixpoint nodup_nat (l : list nat) : list nat :=
  match l with
  | [] => []
  | x :: l' => if mem_nat x l' then nodup_nat l' else x :: nodup_nat l'
  end.

Definition all_indices (args : list argpair) : list index := nodup_nat (flat_map snd args).
Definition dummy_indices (out : list index) (args : list argpair) : list index :=
  filter (fun i => negb (mem_nat i out)) (all_indices args).

(* broadcast_dimensions: the block counts seen for index i over all arguments *)
Definition seen_for (nbs : nbmap) (args : list argpair) (i : index) : list nat :=
  flat_map (fun a : argpair =>
    flat_map (fun p : index * nat => if Nat.eqb (fst p) i then [snd p] else [])
             (combine (snd a) (nb_of nbs (fst a)))) args.

Inductive res (A : Type) := Ok (a : A) | Err (e : nat).
Arguments Ok {A}. Arguments Err {A}.
(* error codes *)
Definition E_SHAPES := 1.      (* ValueError: Shapes do not align *)
Definition E_DROPPED := 2.     (* ValueError: Cannot have multiple chunks in dropped axis *)
Definition E_MALFORMED := 3.   (* no exception at build time: malformed keys (D15) *)

Definition dim_of (nbs : nbmap) (args : list argpair) (i : index) : res nat :=
  let g := nodup_nat (seen_for nbs args i) in
  let g2 := match g with _ :: _ :: _ => filter (fun d => negb (Nat.eqb d 1)) g | _ => g end in
  match g2 with
  | [d] => Ok d
  | _ => Err E_SHAPES
  end.

(* _make_dims: new_axes override (value = number of blocks of the new axis) *)
Definition dims_ok (nbs : nbmap) (args : list argpair) : bool :=
  forallb (fun i => match dim_of nbs args i with Ok _ => true | Err _ => false end) (all_indices args).
Definition dim_or (nbs : nbmap) (args : list argpair) (new_axes : list (index * nat)) (i : index) : nat :=
  match lookup i new_axes with
  | Some n => n
  | None => match dim_of nbs args i with Ok d => d | Err _ => 0 end
  end.

(* an entry of the coordinate set: an int or a list of ints *)
Inductive centry := CI (n : nat) | CL (l : list nat).

Fixpoint index_of (x : nat) (l : list nat) : option nat :=
  match l with
  | [] => None
  | y :: l' => if Nat.eqb x y then Some 0 else option_map S (index_of x l')
  end.
(* position of the LAST occurrence (a dict filled by enumerate keeps the last) *)
Definition last_index_of (x : nat) (l : list nat) : option nat :=
  option_map (fun k => length l - 1 - k) (index_of x (rev l)).

Section KF.
Variable out : list index.
Variable args : list argpair.
Variable nbs : nbmap.
Variable new_axes : list (index * nat).

Definition dummies_l := dummy_indices out args.
Definition dummies : list centry :=
  flat_map (fun i => let d := dim_or nbs args new_axes i in [CL (seq 0 d); CL (repeat 0 d)]) dummies_l
  ++ [CI 0].
Definition ncoords := length out + length dummies.

Definition index_pos (i : index) : nat :=
  match last_index_of i out with
  | Some p => p
  | None => match index_of i dummies_l with Some k => 2 * k + length out | None => 0 end
  end.
Definition zero_pos (i : index) : nat :=
  match last_index_of i out with
  | Some _ => ncoords - 1                       (* python index -1 *)
  | None => match index_of i dummies_l with Some k => 2 * k + 1 + length out | None => 0 end
  end.

Definition coord_map (a : argpair) : list nat :=
  map (fun p : index * nat => if Nat.eqb (snd p) 1 then zero_pos (fst p) else index_pos (fst p))
      (combine (snd a) (nb_of nbs (fst a))).
(* positions of the argument's axes that are contracted *)
Definition concat_axes (a : argpair) : list nat :=
  flat_map (fun p : nat * index => if mem_nat (snd p) dummies_l then [fst p] else [])
           (combine (seq 0 (length (snd a))) (snd a)).

(* the build-time guard *)
Definition guard_ok : bool :=
  forallb (fun a => forallb (fun ax => nth ax (nb_of nbs (fst a)) 0 <=? 1) (concat_axes a)) args.

(* lol_product *)
Inductive lol := LT (nm : name) (coords : list nat) | LL (l : list lol).
Fixpoint lol_product (nm : name) (head : list nat) (values : list centry) : lol :=
  match values with
  | [] => LT nm head
  | CI v :: rest => lol_product nm (head ++ [v]) rest
  | CL xs :: rest => LL (map (fun x => lol_product nm (head ++ [x]) rest) xs)
  end.

(* what back_key_function builds for one argument *)
Definition arg_keys (ocoords : list nat) (a : argpair) : lol :=
  let coords := map CI ocoords ++ dummies in
  let arg_coords := map (fun c => nth c coords (CI 0)) (coord_map a) in
  match concat_axes a with
  | [] => LT (fst a) (map (fun e => match e with CI n => n | CL _ => 0 end) arg_coords)
  | _ => lol_product (fst a) [] arg_coords
  end.

(* dask.core.flatten over a list of lol *)
Fixpoint flatten_lol (t : lol) : list key :=
  match t with
  | LT nm cs => [(nm, cs)]
  | LL l => flat_map flatten_lol l
  end.
Definition is_ll (t : lol) : bool := match t with LL _ => true | LT _ _ => false end.

(* blockwise_fn_flattened: [fix_any] = false is the pinned code (flatten only when the
   FIRST argument is a list), true the repaired one (flatten when ANY argument is). *)
Definition flattened (fix_any : bool) (ocoords : list nat) : res (list key) :=
  let in_keys := map (arg_keys ocoords) args in
  let do_flatten := if fix_any then existsb is_ll in_keys
                    else match in_keys with t :: _ => is_ll t | [] => false end in
  if do_flatten then Ok (flat_map flatten_lol in_keys)
  else if existsb is_ll in_keys then Err E_MALFORMED
  else Ok (flat_map flatten_lol in_keys).

(* the whole constructor: build-time errors, then the key function *)
Definition make_kf (fix_any : bool) : res (list nat -> res (list key)) :=
  if negb (dims_ok nbs args) then Err E_SHAPES
  else if negb guard_ok then Err E_DROPPED
  else Ok (flattened fix_any).

(* ---- declarative reference --------------------------------------------- *)
(* The index expression says: argument a, axis n carries index ind[n]; the block to read
   along that axis is 0 when the argument has a single block there (broadcast), else the
   output block coordinate at the (last) position of that index in the output expression. *)
Definition ref_coord (ocoords : list nat) (i : index) (nb : nat) : nat :=
  if Nat.eqb nb 1 then 0
  else match last_index_of i out with Some p => nth p ocoords 0 | None => 0 end.
Definition ref_key (ocoords : list nat) (a : argpair) : key :=
  (fst a, map (fun p : index * nat => ref_coord ocoords (fst p) (snd p)) (combine (snd a) (nb_of nbs (fst a)))).
Definition ref_kf (ocoords : list nat) : list key := map (ref_key ocoords) args.

End KF.

(* as a Keys.keyfun: FunctionArgs(ChunkKey..., output_name = out_key.name) *)
Definition blockwise_keyfun (out : list index) (args : list argpair) (nbs : nbmap)
  (new_axes : list (index * nat)) (fix_any : bool) : keyfun :=
  fun k => (fst k, match flattened out args nbs new_axes fix_any (snd k) with
                   | Ok ks => map KLeaf ks
                   | Err _ => []
                   end).

Definition keylist_eqb := list_eqb key_eqb.
Definition res_keys_eqb (a b : res (list key)) : bool :=
  match a, b with
  | Ok x, Ok y => keylist_eqb x y
  | Err e, Err e' => Nat.eqb e e'
  | _, _ => false
  end.
