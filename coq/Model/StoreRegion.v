(* store / to_zarr geometry (cubed/core/ops.py _store_array) and the write sets of tasks
   (apply_blockwise / key_to_slices in cubed/primitive/blockwise.py).

   Per axis: a task grid with chunk size c over an axis of length n, written into a storage
   grid with chunk size t.  All sizes nat (block counts and lengths are small in the
   correspondence; the theorems are for all sizes). *)
From CubedV Require Import Model.Util Model.Geometry.

(* [lo, hi) of block b of a regular grid with chunk size c over length n *)
Definition blk_lo (c b : nat) : nat := b * c.
Definition blk_hi (n c b : nat) : nat := Nat.min ((b + 1) * c) n.
Definition nblocks (n c : nat) : nat := if Nat.eqb n 0 then 1 else (n + c - 1) / c.

(* ---- whole-array store into an existing array (after the D4 repair) --------------------- *)
(* _store_array rechunks the source when some source chunk is not a union of target chunks *)
Definition needs_rechunk_axis (sc tc nb : nat) : bool := negb (Nat.eqb (sc mod tc) 0) && (1 <? nb).
Definition needs_rechunk (scs tcs nbs : list nat) : bool :=
  existsb (fun p : nat * nat * nat => needs_rechunk_axis (fst (fst p)) (snd (fst p)) (snd p))
          (combine (combine scs tcs) nbs).
(* chunk size of the tasks that finally write into the target *)
Definition store_task_chunks (scs tcs nbs : list nat) : list nat :=
  if needs_rechunk scs tcs nbs then tcs else scs.

(* the storage chunks (indices along one axis) that task block b touches *)
Definition touched (n c t b : nat) : list nat :=
  let lo := blk_lo c b in let hi := blk_hi n c b in
  if hi <=? lo then [] else seq (lo / t) ((hi - 1) / t - lo / t + 1).
(* a task writes storage chunk j whole iff the chunk lies inside the task's region *)
Definition writes_whole (n c t b j : nat) : bool :=
  (blk_lo c b <=? blk_lo t j) && (blk_hi n t j <=? blk_hi n c b).

(* ---- region store ------------------------------------------------------------------------ *)
(* one axis of a region: slice(start, stop) into a target axis of length tn with chunk size tc,
   from a source axis of length sn with chunk size sc (None start/stop are resolved by the harness) *)
Record raxis := { tn : nat; tc : nat; rstart : nat; rstop : nat; sn : nat; sc : nat }.

Definition aligned (a : raxis) : bool :=
  Nat.eqb (rstart a mod tc a) 0 && (Nat.eqb (rstop a mod tc a) 0 || Nat.eqb (rstop a) (tn a)).
Definition shape_ok (a : raxis) : bool := Nat.eqb (sn a) (rstop a - rstart a) && (rstart a <=? rstop a) && (rstop a <=? tn a).
Definition chunks_ok (a : raxis) : bool :=
  Nat.eqb (sc a) (tc a) || ((nblocks (sn a) (sc a) <=? 1) && (sn a <=? tc a)).

Inductive sres := Accept | RejectValue.      (* ValueError before anything is written *)
Definition region_accepts (axes : list raxis) : sres :=
  if forallb aligned axes && forallb shape_ok axes && forallb chunks_ok axes then Accept else RejectValue.

Definition block_offset (a : raxis) : nat := rstart a / tc a.
(* the output blocks the indexer enumerates along this axis *)
Definition out_blocks_axis (a : raxis) : list nat :=
  if Nat.eqb (sn a) 0 then [] else seq (rstart a / tc a) ((rstop a - 1) / tc a - rstart a / tc a + 1).
(* row-major product over the axes *)
Fixpoint product (ls : list (list nat)) : list (list nat) :=
  match ls with
  | [] => [[]]
  | l :: rest => flat_map (fun i => map (cons i) (product rest)) l
  end.
Definition out_blocks (axes : list raxis) : list (list nat) := product (map out_blocks_axis axes).
Definition region_key (axes : list raxis) (out_coords : list nat) : list nat :=
  map (fun p : nat * raxis => fst p - block_offset (snd p)) (combine out_coords axes).
Definition region_num_tasks (axes : list raxis) : nat := prodn (map (fun a => nblocks (sn a) (sc a)) axes).

(* where a task puts its data: target elements [tlo, thi) get source elements [slo, shi) *)
Definition task_target (a : raxis) (b : nat) : nat * nat := (blk_lo (tc a) b, blk_hi (tn a) (tc a) b).
Definition task_source (a : raxis) (b : nat) : nat * nat :=
  (blk_lo (sc a) (b - block_offset a), blk_hi (sn a) (sc a) (b - block_offset a)).

Definition sres_eqb (x y : sres) : bool := match x, y with Accept, Accept | RejectValue, RejectValue => true | _, _ => false end.
Definition RA (tn tc rstart rstop sn sc : nat) : raxis :=
  {| tn := tn; tc := tc; rstart := rstart; rstop := rstop; sn := sn; sc := sc |}.
