(* Declared shape / dtype bookkeeping (cubed/array_api/dtypes.py _upcast_integral_dtypes,
   declared chunks of reductions in cubed/core/ops.py). *)
From CubedV Require Import Model.Util Model.OpsKF.

(* the 13 array-API dtypes *)
Inductive dt := Bool | I8 | I16 | I32 | I64 | U8 | U16 | U32 | U64 | F32 | F64 | C64 | C128.
Definition all_dt : list dt := [Bool; I8; I16; I32; I64; U8; U16; U32; U64; F32; F64; C64; C128].
Definition dt_code (d : dt) : nat :=
  match d with Bool => 0 | I8 => 1 | I16 => 2 | I32 => 3 | I64 => 4 | U8 => 5 | U16 => 6 | U32 => 7 | U64 => 8
             | F32 => 9 | F64 => 10 | C64 => 11 | C128 => 12 end.
Definition itemsize (d : dt) : nat :=
  match d with Bool | I8 | U8 => 1 | I16 | U16 => 2 | I32 | U32 | F32 => 4 | I64 | U64 | F64 | C64 => 8 | C128 => 16 end.
Inductive kind := KBool | KSigned | KUnsigned | KFloat | KComplex.
Definition kind_of (d : dt) : kind :=
  match d with Bool => KBool | I8 | I16 | I32 | I64 => KSigned | U8 | U16 | U32 | U64 => KUnsigned
             | F32 | F64 => KFloat | C64 | C128 => KComplex end.

(* _upcast_integral_dtypes(x, dtype=None) with the default integral dtype int64:
   the dtype sum / prod / cumulative_sum / cumulative_prod accumulate in *)
Definition upcast (d : dt) : dt :=
  match kind_of d with
  | KBool | KSigned => I64
  | KUnsigned => U64
  | _ => d
  end.

(* declared chunks along a reduced axis after one partial_reduce round (combine size 1): all ones *)
Definition reduced_chunks (k nb : nat) : list nat := repeat 1 (pr_numblocks k nb).
