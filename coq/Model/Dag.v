(* The plan DAG and the optimizer (cubed/core/optimization.py, fuse_multiple /
   can_fuse_multiple_primitive_ops in cubed/primitive/blockwise.py).

   A plan is a list of op nodes; array nodes are implicit (the names that occur as
   inputs / outputs) plus a table of the virtual ones.  Every op carries the data the
   optimizer looks at and, for the semantic theorems, its (key function, block function). *)
From CubedV Require Import Model.Util Model.Keys Model.Fusion Model.Memory.

Section Dag.
Variable B : Type.

Record primop := {
  bw : bool;            (* pipeline.function == apply_blockwise *)
  fpred : bool;         (* fusable_with_predecessors *)
  fsucc : bool;         (* fusable_with_successors *)
  ntasks : nat;
  proj : Z; allowed : Z; reserved : Z;
  nib : list nat;       (* pipeline.config.num_input_blocks *)
  chunkmem : Z;         (* chunk_memory(target_array) *)
  srcs : list name;     (* source_array_names *)
  kf : keyfun; fn : bfun B;
}.

Record opnode := {
  oid : nat;
  ins : list name;           (* in-edges (arrays), one entry per multi-edge *)
  outs : list name;          (* out-edges (arrays) *)
  prim : option primop;
}.

Record dag := { dops : list opnode; virtuals : list name }.

(* ---- graph queries -------------------------------------------------------- *)
Definition producers (d : dag) (a : name) : list opnode :=
  filter (fun o => mem_nat a (outs o)) (dops d).
Definition find_op (d : dag) (n : nat) : option opnode :=
  find (fun o => Nat.eqb (oid o) n) (dops d).

Fixpoint nodup_n (l : list nat) : list nat :=
  match l with [] => [] | x :: l' => if mem_nat x l' then nodup_n l' else x :: nodup_n l' end.

(* out_degree_unique(dag, array): number of distinct consumer ops *)
Definition out_degree_unique (d : dag) (a : name) : nat :=
  length (filter (fun o => mem_nat a (ins o)) (dops d)).

Definition is_prim (o : opnode) : bool := match prim o with Some _ => true | None => false end.

(* predecessor_ops_and_arrays: (producer op, input array, can_fuse) per source array *)
Definition pred_info (d : dag) (p : primop) : list (option opnode * name * bool) :=
  map (fun a =>
    match producers d a with
    | [pre] =>
        (Some pre, a,
         match prim pre with
         | Some pp => fsucc pp && Nat.eqb (out_degree_unique d a) 1
         | None => false
         end)
    | _ => (None, a, false)          (* assertion failure in the real code *)
    end) (srcs p).

(* num_source_arrays(dag, pre): non-virtual in-edges, with multiplicity *)
Definition num_source_arrays (d : dag) (pre : opnode) : nat :=
  length (filter (fun a => negb (mem_nat a (virtuals d))) (ins pre)).

Definition is_fuse_candidate (p : primop) : bool := bw p && (fpred p || fsucc p).

(* the predecessors that will be fused: Some primop, or None *)
Definition pred_prims (d : dag) (p : primop) : list (option primop) :=
  map (fun t : option opnode * name * bool =>
         match t with
         | (Some pre, _, true) => prim pre
         | _ => None
         end) (pred_info d p).

Definition somes {A} (l : list (option A)) : list A :=
  flat_map (fun o => match o with Some x => [x] | None => [] end) l.

(* can_fuse_multiple_primitive_ops *)
Definition total_nib (p : primop) (pps : list (option primop)) : nat :=
  sumn (map (fun t : nat * option primop =>
              match snd t with
              | None => 0
              | Some pp => sumn (map (fun nj => fst t * nj) (nib pp))
              end) (combine (nib p) pps)).

Definition can_fuse_multiple (p : primop) (pps : list (option primop)) (max_nib : option nat) : bool :=
  if is_fuse_candidate p && forallb (fun o => match o with None => true | Some pp => is_fuse_candidate pp end) pps
  then
    if (allowed p <? peak_projected (map (fun pp => (proj pp, chunkmem pp)) (somes pps)))%Z then false
    else match max_nib with
         | None => forallb (fun pp => Nat.eqb (ntasks p) (ntasks pp)) (somes pps)
         | Some m => total_nib p pps <=? m
         end
  else false.

Record optcfg := {
  requested : list name;               (* array_names *)
  max_src : nat;                       (* max_total_source_arrays *)
  max_nib : option nat;                (* max_total_num_input_blocks *)
  always_fuse : list nat;              (* op ids; [] when None *)
  never_fuse : list nat;
}.

(* can_fuse_predecessors *)
Definition can_fuse_predecessors (c : optcfg) (d : dag) (o : opnode) : bool :=
  match prim o with
  | None => false
  | Some p =>
    if negb (fpred p) then false
    else
      let info := pred_info d p in
      if forallb (fun t : option opnode * name * bool => negb (snd t)) info then false
      else if existsb (fun t : option opnode * name * bool => mem_nat (snd (fst t)) (requested c)) info then false
      else if existsb (fun t : option opnode * name * bool =>
                         match fst (fst t) with Some pre => 1 <? length (outs pre) | None => false end) info then false
      else if mem_nat (oid o) (never_fuse c) then false
      else if mem_nat (oid o) (always_fuse c) then true
      else if (1 <? length info) &&
              (max_src c <? sumn (map (fun t : option opnode * name * bool =>
                                         match t with
                                         | (Some pre, _, true) => num_source_arrays d pre
                                         | _ => 1
                                         end) info))
           then false
      else can_fuse_multiple p (pred_prims d p) (max_nib c)
  end.

(* fuse_multiple *)
Definition fuse_multiple (p : primop) (pps : list (option primop)) : primop :=
  let named := flat_map (fun t : name * option primop =>
                           match snd t with Some pp => [(fst t, pp)] | None => [] end)
                        (combine (srcs p) pps) in
  {| bw := true; fpred := true; fsucc := true; ntasks := ntasks p;
     proj := fused_projected (proj p) (map (fun pp => (proj pp, chunkmem pp)) (somes pps));
     allowed := allowed p; reserved := reserved p;
     nib := fused_num_input_blocks (nib p)
              (map (fun o => match o with Some pp => nib pp | None => [1] end) pps);
     chunkmem := chunkmem p;
     srcs := flat_map (fun t : name * option primop =>
                         match snd t with Some pp => srcs pp | None => [fst t] end)
                      (combine (srcs p) pps);
     kf := fused_kf (kf p) (fun n => option_map kf (lookup n named));
     fn := fused_fun B (fn p) (fun n => option_map fn (lookup n named)) |}.

(* fuse_predecessors: new primitive op + re-wiring *)
Definition fused_arrays (info : list (option opnode * name * bool)) : list name :=
  flat_map (fun t : option opnode * name * bool => if snd t then [snd (fst t)] else []) info.
Definition fused_pre_ids (info : list (option opnode * name * bool)) : list nat :=
  flat_map (fun t : option opnode * name * bool =>
              match t with (Some pre, _, true) => [oid pre] | _ => [] end) info.

Definition fuse_predecessors (c : optcfg) (d : dag) (o : opnode) : dag :=
  if can_fuse_predecessors c d o then
    match prim o with
    | None => d
    | Some p =>
      let info := pred_info d p in
      let o' := {| oid := oid o;
                   ins := filter (fun a => negb (mem_nat a (fused_arrays info))) (ins o)
                          ++ flat_map (fun t : option opnode * name * bool =>
                                         match t with (Some pre, _, true) => ins pre | _ => [] end) info;
                   outs := outs o;
                   prim := Some (fuse_multiple p (pred_prims d p)) |} in
      {| dops := map (fun x => if Nat.eqb (oid x) (oid o) then o' else x)
                     (filter (fun x => negb (mem_nat (oid x) (fused_pre_ids info))) (dops d));
         virtuals := virtuals d |}
    end
  else d.

(* multiple_inputs_optimize_dag: visit the op nodes in the given (topological) order *)
Definition optimize (c : optcfg) (order : list nat) (d : dag) : dag :=
  fold_left (fun d n => match find_op d n with Some o => fuse_predecessors c d o | None => d end) order d.

(* ---- legacy simple_optimize_dag (map fusion of single chains op1 -> array -> op2) --------- *)
Definition can_fuse_primitive_ops (p1 p2 : primop) : bool :=
  is_fuse_candidate p1 && is_fuse_candidate p2
  && forallb (fun n => Nat.eqb n 1) (nib p2)           (* the successor reads single blocks *)
  && Nat.eqb (ntasks p1) (ntasks p2).

(* number of out-edges of an array node, counting multi-edges *)
Definition out_degree_multi (d : dag) (a : name) : nat :=
  sumn (map (fun o => length (filter (Nat.eqb a) (ins o))) (dops d)).

Definition simple_can_fuse (req : list name) (d : dag) (o2 : opnode) : option opnode :=
  match prim o2, ins o2, outs o2 with
  | Some p2, [a], [_] =>
      if mem_nat a req then None
      else if negb (Nat.eqb (out_degree_multi d a) 1) then None
      else match producers d a with
           | [o1] =>
               match prim o1, outs o1 with
               | Some p1, [_] => if can_fuse_primitive_ops p1 p2 then Some o1 else None
               | _, _ => None
               end
           | _ => None
           end
  | _, _, _ => None
  end.

(* fuse(primitive_op1, primitive_op2) *)
Definition legacy_fuse (p1 p2 : primop) : primop :=
  {| bw := true; fpred := true; fsucc := true; ntasks := ntasks p2;
     proj := legacy_fused_projected (proj p1) (proj p2);
     allowed := allowed p2; reserved := reserved p2;
     nib := legacy_num_input_blocks (nib p1) (nib p2);
     chunkmem := chunkmem p2; srcs := srcs p1;
     kf := fun k => match legacy_fused_kf (kf p1) (kf p2) k with Some fa => fa | None => (fst k, []) end;
     fn := legacy_fused_fun B (fn p1) (fn p2) |}.

Definition simple_fuse_step (req : list name) (d : dag) (n : nat) : dag :=
  match find_op d n with
  | None => d
  | Some o2 =>
    match simple_can_fuse req d o2, prim o2 with
    | Some o1, Some p2 =>
      match prim o1 with
      | Some p1 =>
        let o2' := {| oid := oid o2; ins := nodup_n (ins o1); outs := outs o2; prim := Some (legacy_fuse p1 p2) |} in
        {| dops := map (fun x => if Nat.eqb (oid x) (oid o2) then o2' else x)
                       (filter (fun x => negb (Nat.eqb (oid x) (oid o1))) (dops d));
           virtuals := virtuals d |}
      | None => d
      end
    | _, _ => d
    end
  end.
Definition simple_optimize (req : list name) (order : list nat) (d : dag) : dag :=
  fold_left (simple_fuse_step req) order d.

(* ---- semantics: run the ops in list order, each writing its output arrays ----------- *)
Definition env := key -> B.
Definition exec_op (e : env) (o : opnode) : env :=
  match prim o with
  | None => e                                   (* input / creation node: nothing is run *)
  | Some p => fun k => if mem_nat (fst k) (outs o) then run_op B (kf p) (fn p) e k else e k
  end.
Definition eval (d : dag) (e0 : env) : env := fold_left exec_op (dops d) e0.

(* ---- admission (Plan._find_ops_exceeding_memory on the final dag) -------------------- *)
Definition mem_pairs (d : dag) : list (Z * Z) :=
  flat_map (fun o => match prim o with Some p => [(proj p, allowed p)] | None => [] end) (dops d).
Definition plan_num_tasks (d : dag) : nat :=
  sumn (flat_map (fun o => match prim o with Some p => [ntasks p] | None => [] end) (dops d)).
End Dag.
