(* Per-axis arithmetic of basic indexing (cubed/core/indexing.py: chunk_len_for_indexer, merged_chunk_len_for_indexer, the per-axis
   factor of _index_num_input_blocks) in the integer shape the source is translated into on every run.  An index entry (after
   ndindex's expansion) is an integer, a slice with explicit start / stop / step, an integer array, or something else. *)
From CubedV Require Import Model.Util.
Local Open Scope Z_scope.

Inductive ixZ := IxInt | IxSlice (start stop step : Z) | IxArr | IxOther.
Definition is_ixint (ia : ixZ) : bool := match ia with IxInt => true | _ => false end.
Definition is_ixarr (ia : ixZ) : bool := match ia with IxArr => true | _ => false end.

(* chunk_len_for_indexer *)
Definition chunk_lenZ (ia : ixZ) (c : Z) : Z :=
  match ia with IxSlice _ _ step => Z.max (c / step) 1 | _ => c end.

(* merged_chunk_len_for_indexer *)
Definition merged_chunk_lenZ (ia : ixZ) (c : Z) : Z :=
  match ia with
  | IxSlice _ _ step => if step =? 1 then c else if (c / step) <? 1 then c else (c / step) * step
  | _ => c
  end.

(* the factor one axis contributes to _index_num_input_blocks; None = NotImplementedError *)
Definition index_axis_factorZ (ia : ixZ) (c oc nb : Z) : option Z :=
  if is_ixint ia || (nb =? 1) then Some 1
  else match ia with
       | IxSlice start stop step =>
           if (start / c) =? ((stop - 1) / c) then Some 1
           else if negb (start mod c =? 0) then Some 2
           else if true && negb (c mod step =? 0) && (1 <? oc) then Some 2
           else Some 1
       | _ => if is_ixarr ia then Some nb else None
       end.

Definition index_num_input_blocksZ (axes : list (ixZ * Z * Z * Z)) : option Z :=
  fold_left (fun num (t : ixZ * Z * Z * Z) =>
               match num, index_axis_factorZ (fst (fst (fst t))) (snd (fst (fst t))) (snd (fst t)) (snd t) with
               | Some a, Some m => Some (a * m)
               | _, _ => None
               end) axes (Some 1).
