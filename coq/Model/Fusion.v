(* Fusion of blockwise operations (cubed/primitive/blockwise.py):
   apply_blockwise_key_func, make_fused_back_key_function, apply_blockwise_func,
   make_fused_function, fuse_blockwise_specs (num_input_blocks), legacy fuse. *)
From CubedV Require Import Model.Util Model.Keys.

Section Fusion.
Variable B : Type.                                   (* blocks *)
Definition bfun := list (vtree B) -> B.              (* a block function applied to *args *)

(* _apply_blockwise_key_func_to_chunk_key *)
Definition apply_ck (kd : name -> option keyfun) (k : key) : fargs :=
  match kd (fst k) with
  | None => (fst k, [KLeaf k])
  | Some kf => kf k
  end.

(* the element treatment inside the list / generator branches: output_name=a.name *)
Definition apply_elem (kd : name -> option keyfun) (a : ktree) : ktree :=
  match a with
  | KLeaf k => KArgs (fst k) (snd (apply_ck kd k))
  | t => t                 (* real code: AttributeError; excluded by [unfused_arg] *)
  end.

(* apply_blockwise_key_func *)
Definition apply_key (kd : name -> option keyfun) (a : ktree) : ktree :=
  match a with
  | KLeaf k => KArgs (fst (apply_ck kd k)) (snd (apply_ck kd k))
  | KList l => KList (map (apply_elem kd) l)
  | KIter l => KIter (map (apply_elem kd) l)
  | KArgs o l => KArgs o l (* never an argument of an unfused key function *)
  end.

(* make_fused_back_key_function *)
Definition fused_kf (kf : keyfun) (kd : name -> option keyfun) : keyfun :=
  fun k => (fst (kf k), map (apply_key kd) (snd (kf k))).

(* apply_blockwise_func *)
Fixpoint apply_fun (fd : name -> option bfun) (v : vtree B) : vtree B :=
  match v with
  | VArgs o args =>
      match fd o with
      | None => match args with [x] => x | _ => VList args end
      | Some f => VLeaf (f args)
      end
  | VList l => VList (map (apply_fun fd) l)
  | VIter l => VIter (map (apply_fun fd) l)
  | VLeaf b => VLeaf b
  end.

(* make_fused_function (single-output form) *)
Definition fused_fun (f : bfun) (fd : name -> option bfun) : bfun :=
  fun args => f (map (apply_fun fd) args).

(* what apply_blockwise computes for output key k: function applied to map_nested(get_chunk, kf(k)).args *)
Definition run_op (kf : keyfun) (f : bfun) (read : key -> B) (k : key) : B :=
  f (map (map_nested read) (snd (kf k))).

(* arguments an unfused key function may return: a key, a list of keys, an iterator of keys *)
Definition is_leaf (t : ktree) : bool := match t with KLeaf _ => true | _ => false end.
Definition unfused_arg (t : ktree) : bool :=
  match t with
  | KLeaf _ => true
  | KList l | KIter l => forallb is_leaf l
  | KArgs _ _ => false
  end.

(* legacy fuse(primitive_op1, primitive_op2) *)
Definition legacy_fused_kf (kf1 kf2 : keyfun) (k : key) : option fargs :=
  match snd (kf2 k) with
  | KLeaf k1 :: _ => Some (kf1 k1)
  | _ => None                      (* .coords on a list / iterator: AttributeError in a task *)
  end.
Definition legacy_fused_fun (f1 f2 : bfun) : bfun := fun args => f2 [VLeaf (f1 args)].

End Fusion.

(* fuse_blockwise_specs: fused num_input_blocks *)
Fixpoint fused_num_input_blocks (nib : list nat) (pred_nibs : list (list nat)) : list nat :=
  match nib, pred_nibs with
  | n :: nib', nb :: rest => map (Nat.mul n) nb ++ fused_num_input_blocks nib' rest
  | _, _ => []
  end.
(* legacy fuse: n * pipeline2.num_input_blocks[0] for n in pipeline1.num_input_blocks *)
Definition legacy_num_input_blocks (nib1 nib2 : list nat) : list nat :=
  map (fun n => n * hd 1 nib2) nib1.
