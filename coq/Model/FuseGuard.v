(* The fusion guards and the budget fields of a fused operation as integer functions of the
   fields of the primitive operations they read (cubed/primitive/blockwise.py: is_fuse_candidate,
   can_fuse_primitive_ops, can_fuse_multiple_primitive_ops and the projected_mem / allowed_mem /
   reserved_mem / num_tasks that fuse_multiple gives the fused operation).

   These are the *Z views* of Model.Dag's definitions: the shape in which harness/translate.py
   renders the Python source on every run (Python int = Z).  Proofs/FuseGuardProofs.v shows that
   they agree with Model.Dag.is_fuse_candidate / can_fuse_multiple / fuse_multiple (nat task and
   block counts) on the view of every primitive operation, so a theorem about the Dag model is a
   theorem about what the translated source computes. *)
From CubedV Require Import Model.Util Model.Keys Model.Fusion Model.Memory Model.Dag.
Local Open Scope Z_scope.

Record pview := {
  v_bw : bool;          (* pipeline.function == apply_blockwise *)
  v_fpred : bool;       (* fusable_with_predecessors *)
  v_fsucc : bool;       (* fusable_with_successors *)
  v_ntasks : Z;         (* num_tasks *)
  v_proj : Z;           (* projected_mem *)
  v_allowed : Z;        (* allowed_mem *)
  v_reserved : Z;       (* reserved_mem *)
  v_nib : list Z;       (* pipeline.config.num_input_blocks *)
  v_chunkmem : Z;       (* chunk_memory(target_array) *)
}.

(* what peak_projected_mem reads of a list of optional primitive operations *)
Definition pviews_to_pairs (ps : list (option pview)) : list (option (Z * Z)) :=
  map (option_map (fun p => (v_proj p, v_chunkmem p))) ps.
(* (p for p in ps if p is not None) *)
Definition keep_somes {A} (ps : list (option A)) : list (option A) :=
  filter (fun o => match o with Some _ => true | None => false end) ps.

Definition is_fuse_candidateZ (p : pview) : bool := v_bw p && (v_fpred p || v_fsucc p).

Definition can_fuse_primitive_opsZ (p1 p2 : pview) : bool :=
  if is_fuse_candidateZ p1 && is_fuse_candidateZ p2 then
    if existsb (fun n => negb (n =? 1)) (v_nib p2) then false
    else v_ntasks p1 =? v_ntasks p2
  else false.

Definition total_nibZ (p : pview) (pps : list (option pview)) : Z :=
  fold_left (fun total (t : Z * option pview) =>
               match snd t with
               | None => total
               | Some pp => fold_left (fun total nj => total + fst t * nj) (v_nib pp) total
               end) (combine (v_nib p) pps) 0.

Definition somesZ {A} (l : list (option A)) : list A :=
  flat_map (fun o => match o with Some x => [x] | None => [] end) l.

Definition can_fuse_multipleZ (p : pview) (pps : list (option pview)) (max_nib : option Z) : bool :=
  if is_fuse_candidateZ p && forallb (fun o => match o with None => true | Some pp => is_fuse_candidateZ pp end) pps
  then
    if v_allowed p <? peak_projected (map (fun pp => (v_proj pp, v_chunkmem pp)) (somesZ pps)) then false
    else match max_nib with
         | None => forallb (fun o => match o with None => true | Some pp => v_ntasks p =? v_ntasks pp end) pps
         | Some m => total_nibZ p pps <=? m
         end
  else false.

(* the (projected_mem, allowed_mem, reserved_mem, num_tasks) fuse_multiple hands to PrimitiveOperation *)
Definition fuse_multiple_fieldsZ (p : pview) (pps : list (option pview)) : Z * Z * Z * Z :=
  (Z.max (v_proj p) (peak_projected (map (fun pp => (v_proj pp, v_chunkmem pp)) (somesZ pps))),
   v_allowed p, v_reserved p, v_ntasks p).

(* the view of a Model.Dag primitive operation *)
Definition zview {B} (p : primop B) : pview :=
  {| v_bw := bw B p; v_fpred := fpred B p; v_fsucc := fsucc B p; v_ntasks := Z.of_nat (ntasks B p);
     v_proj := proj B p; v_allowed := allowed B p; v_reserved := reserved B p;
     v_nib := map Z.of_nat (nib B p); v_chunkmem := chunkmem B p |}.
