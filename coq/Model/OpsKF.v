(* Hand-coded key functions and shape bookkeeping of the core operations
   (cubed/core/ops.py partial_reduce / tree_reduce / scan, cubed/array_api/manipulation_functions.py
   stack / unstack / repeat / permute_dims, cubed/array_api/linalg.py tsqr). *)
From CubedV Require Import Model.Util Model.Keys.

Definition cdivn (a b : nat) : nat := (a + b - 1) / b.

(* ---- partial_reduce -------------------------------------------------------------------- *)
(* input block indices along one axis merged into output block bi: range(bi*k, min((bi+1)*k, nb)) *)
Definition pr_group (k nb bi : nat) : list nat := seq (bi * k) (Nat.min ((bi + 1) * k) nb - bi * k).
(* number of output blocks along a reduced axis: ceil(nb / k) *)
Definition pr_numblocks (k nb : nat) : nat := cdivn nb k.
(* key function: per axis either the group (reduced axis, split k) or the block itself (k = 1 gives [bi]) *)
Fixpoint product_keys (ls : list (list nat)) : list (list nat) :=
  match ls with [] => [[]] | l :: rest => flat_map (fun i => map (cons i) (product_keys rest)) l end.
Definition partial_reduce_kf (x : name) (splits nbs : list nat) (out_coords : list nat) : ktree :=
  KIter (map (fun p => KLeaf (x, p))
             (product_keys (map (fun t : nat * nat * nat => pr_group (fst (fst t)) (snd (fst t)) (snd t))
                                (combine (combine splits nbs) out_coords)))).
(* declared chunk size of every output block along a reduced axis vs the extent a block really has
   when the reduce function keeps one entry per merged input block (combine_sizes = split, as in scan) *)
Definition pr_declared (combine_size : nat) : nat := combine_size.
Definition pr_actual_keep_all (k nb bi : nat) : nat := length (pr_group k nb bi).

(* tree_reduce: block count along an axis after d rounds *)
Fixpoint tree_rounds (d k nb : nat) : nat :=
  match d with O => nb | S d' => tree_rounds d' k (pr_numblocks k nb) end.

(* ---- scan (cumulative_sum / cumulative_prod) --------------------------------------------- *)
(* does the shape bookkeeping of the recursive scan hold for nb blocks along the axis?
   (the assertion increment.shape[axis] == scanned.numblocks[axis]) *)
Fixpoint scan_ok (fuel nb : nat) : bool :=
  match fuel with
  | O => false
  | S f =>
    if nb <=? 1 then true
    else let s := Nat.min 5 nb in
         Nat.eqb (s * cdivn nb s) nb && scan_ok f (cdivn nb s)
  end.
Definition scan_accepts (nb : nat) : bool := scan_ok (S nb) nb.
(* step-4 key function: the scanned block itself and the increment block bi / split *)
Definition scan_kf (scanned increment : name) (axis split : nat) (out_coords : list nat) : list ktree :=
  [KLeaf (scanned, out_coords);
   KLeaf (increment, map (fun p : nat * nat => if Nat.eqb (fst p) axis then snd p / split else snd p)
                         (combine (seq 0 (length out_coords)) out_coords))].

(* ---- stack / unstack ------------------------------------------------------------------------ *)
Definition remove_at (axis : nat) (l : list nat) : list nat := firstn axis l ++ skipn (S axis) l.
Definition insert_at (axis v : nat) (l : list nat) : list nat := firstn axis l ++ v :: skipn axis l.
(* stack: output block (…, j, …) reads block (…) of the j-th input *)
Definition stack_kf (names : list name) (axis : nat) (out_coords : list nat) : ktree :=
  KLeaf (nth (nth axis out_coords 0) names 0, remove_at axis out_coords).
(* unstack: output block reads all blocks of x along the axis *)
Definition unstack_kf (x : name) (axis nb_axis : nat) (out_coords : list nat) : list ktree :=
  map (fun i => KLeaf (x, insert_at axis i out_coords)) (seq 0 nb_axis).
(* repeat: output block bi along the axis reads input block bi / repeats (one task per output block) *)

(* ---- acceptance predicates -------------------------------------------------------------------- *)
Definition stack_accepts (shapes : list (list nat)) : bool :=
  match shapes with [] => false | s0 :: rest => forallb (natlist_eqb s0) rest end.
Definition is_permutation (axes : list nat) : bool :=
  forallb (fun i => mem_nat i axes) (seq 0 (length axes)) && forallb (fun a => a <? length axes) axes.
Definition tsqr_accepts (row_chunks : list nat) (ncols : nat) : bool := forallb (fun c => ncols <=? c) row_chunks.

Definition ktreelist_eqb (a b : list ktree) : bool := ktree_eqb (KList a) (KList b).
