(* Basic indexing with a (positive-step) slice along one axis: cubed/core/indexing.py
   (chunk_len_for_indexer, _target_chunk_selection, _index_num_input_blocks).

   The axis has length n and chunk size c.  ndindex has canonicalised the slice: 0 <= start, step >= 1,
   and the selected positions are start + k * step for k < L (L = number of selected elements, all
   positions < n); its canonical stop is the last position + 1.  (A negative step is first rewritten
   into a positive one followed by a flip.) *)
From CubedV Require Import Model.Util Model.Geometry.

(* chunk_len_for_indexer: the chunk size of the output axis *)
Definition out_chunk_len (c step : nat) : nat := Nat.max (c / step) 1.

(* the selected input position of output element k *)
Definition sel_pos (start step k : nat) : nat := start + k * step.

(* _target_chunk_selection for a slice: output block j reads slice(lo, hi, step) of the input *)
Definition block_sel (start step oc L j : nat) : nat * nat :=
  (start + (j * oc) * step, start + (Nat.min ((j + 1) * oc) L) * step).
(* the positions of that slice, in order *)
Definition block_positions (start step oc L j : nat) : list nat :=
  map (sel_pos start step) (seq (j * oc) (Nat.min ((j + 1) * oc) L - j * oc)).

(* the input chunks those positions lie in *)
Definition touched_chunks (c : nat) (ps : list nat) : list nat := nodup Nat.eq_dec (map (fun p => p / c) ps).

(* _index_num_input_blocks, the factor of one axis indexed by a slice (numblocks nb on that axis) *)
Definition canonical_stop (start step L : nat) : nat := start + (L - 1) * step + 1.
Definition slice_nib (c nb start step L : nat) : nat :=
  let oc := out_chunk_len c step in
  if nb =? 1 then 1
  else if (start / c) =? ((canonical_stop start step L - 1) / c) then 1
  else if negb (start mod c =? 0) then 2
  else if negb (c mod step =? 0) && (1 <? oc) then 2
  else 1.
