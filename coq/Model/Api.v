(* A history machine for the public API (cubed/core/array.py, cubed/core/ops.py store/_store_array,
   cubed/core/plan.py): a pool of lazy arrays, where each one's data lives, and what the store
   holds after any sequence of derive / compute / store (lazy or eager) / plan / visualize calls.

   Arrays are numbered in creation order.  An array is an input (data given) or the result of an
   operation applied to earlier arrays.  Every array owns a location cell that is SHARED by all
   plans referring to it (the lazy Zarr array object); store re-targets that cell. *)
From CubedV Require Import Model.Util.

Inductive expr := Inp (i : nat) | Op (f : nat) (args : list nat).

Record cell := { cexpr : expr; cloc : nat; retargeted : bool }.

Inductive call :=
| Derive (f : nat) (args : list nat)        (* any array-building function *)
| Compute (ids : list nat) (written : list nat)
      (* compute of the arrays ids; [written]: the arrays the (possibly optimised) plan materialises -
         a subset of the ancestors with an op, containing ids (the optimiser's choice) *)
| StoreLazy (id : nat) (target : nat)       (* store / to_zarr with compute=False; returns an array *)
| StoreEager (id : nat) (target : nat) (written : list nat)
| PlanOf (ids : list nat)                   (* plan() / visualize() *)
| ConfigChange.                             (* changing the default executor etc. *)

Section Machine.
Variable V : Type.
Variable inp : nat -> V.                    (* data of the input arrays *)
Variable opf : nat -> list V -> V.          (* meaning of operation f on argument values *)
Variable ident : nat.                       (* the identity copy used by store *)

Record state := { cells : list cell; store : nat -> option V; next_loc : nat }.

(* denotation: the value an array was built to have; arguments are earlier arrays *)
Fixpoint den_fuel (fuel : nat) (cs : list cell) (id : nat) : option V :=
  match fuel with
  | O => None
  | S f =>
    match nth_error cs id with
    | None => None
    | Some c =>
      match cexpr c with
      | Inp i => Some (inp i)
      | Op g args =>
        let vals := map (den_fuel f cs) args in
        if forallb (fun o => match o with Some _ => true | None => false end) vals
        then Some (opf g (flat_map (fun o => match o with Some v => [v] | None => [] end) vals))
        else None
      end
    end
  end.
Definition den (s : state) (id : nat) : option V := den_fuel (S (length (cells s))) (cells s) id.

Definition loc_of (s : state) (id : nat) : option nat := option_map cloc (nth_error (cells s) id).
Definition is_op (s : state) (id : nat) : bool :=
  match nth_error (cells s) id with Some c => match cexpr c with Op _ _ => true | Inp _ => false end | None => false end.

Definition upd (st : nat -> option V) (l : nat) (v : option V) : nat -> option V :=
  fun k => if Nat.eqb k l then v else st k.

Definition add_cell (s : state) (e : expr) (l : nat) (rt : bool) : state :=
  {| cells := cells s ++ [ {| cexpr := e; cloc := l; retargeted := rt |} ]; store := store s;
     next_loc := Nat.max (next_loc s) (S l) |}.

Fixpoint set_cell (cs : list cell) (id : nat) (c : cell) : list cell :=
  match cs, id with
  | [], _ => []
  | _ :: r, O => c :: r
  | x :: r, S i => x :: set_cell r i c
  end.

(* materialise: write the denotation of every listed op-array to its location *)
Definition materialise (s : state) (written : list nat) : state :=
  {| cells := cells s;
     store := fold_left (fun st id =>
                 match loc_of s id, is_op s id with
                 | Some l, true => upd st l (den s id)
                 | _, _ => st
                 end) written (store s);
     next_loc := next_loc s |}.

Definition store_lazy (s : state) (id target : nat) : state :=
  match nth_error (cells s) id with
  | None => s
  | Some c =>
    match cexpr c, retargeted c with
    | Op _ _, false =>
        (* re-target the shared location cell: every plan sees it *)
        {| cells := set_cell (cells s) id {| cexpr := cexpr c; cloc := target; retargeted := true |};
           store := store s; next_loc := Nat.max (next_loc s) (S target) |}
    | _, _ =>
        (* an input, or an array already being stored elsewhere: an identity copy into the target *)
        add_cell s (Op ident [id]) target true
    end
  end.
(* the array a store call returns *)
Definition store_result (s : state) (id : nat) : nat :=
  match nth_error (cells s) id with
  | Some c => match cexpr c, retargeted c with Op _ _, false => id | _, _ => length (cells s) end
  | None => id
  end.

Definition step (s : state) (c : call) : state :=
  match c with
  | Derive f args => add_cell s (Op f args) (next_loc s) false
  | Compute ids written => materialise s (written ++ ids)
  | StoreLazy id target => store_lazy s id target
  | StoreEager id target written =>
      let r := store_result s id in
      let s1 := store_lazy s id target in
      materialise s1 (written ++ [r])
  | PlanOf _ => s
  | ConfigChange => s
  end.

Definition run (s : state) (h : list call) : state := fold_left step h s.

(* is a call one of the lazy ones (no execution)? *)
Definition is_lazy (c : call) : bool :=
  match c with Derive _ _ | StoreLazy _ _ | PlanOf _ | ConfigChange => true | _ => false end.
End Machine.
