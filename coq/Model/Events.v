(* Scheduling and callback events of the executors
   (cubed/runtime/pipeline.py visit_nodes / visit_node_generations,
    cubed/runtime/executors/local.py, cubed/runtime/asyncio.py async_map_dag,
    FinalizedPlan.execute).

   Graph view: nodes are numbers (ops and arrays alike), edges as pairs.  The orders
   networkx returns are not predicted: [is_topo_order] and [is_generations] CHECK them. *)
From CubedV Require Import Model.Util.

Inductive ev :=
| ECS                 (* on_compute_start *)
| ECE                 (* on_compute_end *)
| EOS (n : nat)       (* on_operation_start *)
| EOE (n : nat)       (* on_operation_end *)
| ETE (n : nat).      (* on_task_end for a task of op n *)

Definition ev_eqb (a b : ev) : bool :=
  match a, b with
  | ECS, ECS | ECE, ECE => true
  | EOS n, EOS m | EOE n, EOE m | ETE n, ETE m => Nat.eqb n m
  | _, _ => false
  end.

(* ---- per-op bracket automaton ------------------------------------------------ *)
Inductive ost := NotStarted | Started (c : nat) | Ended (c : nat) | Bad.
Definition step_op (n : nat) (s : ost) (e : ev) : ost :=
  match e with
  | EOS m => if Nat.eqb m n then match s with NotStarted => Started 0 | _ => Bad end else s
  | ETE m => if Nat.eqb m n then match s with Started c => Started (S c) | _ => Bad end else s
  | EOE m => if Nat.eqb m n then match s with Started c => Ended c | _ => Bad end else s
  | _ => s
  end.
Definition op_ok (n k : nat) (body : list ev) : bool :=
  match fold_left (step_op n) body NotStarted with Ended c => Nat.eqb c k | _ => false end.

Definition ev_op (e : ev) : option nat :=
  match e with EOS n | EOE n | ETE n => Some n | _ => None end.

(* the whole trace: ComputeStart, then well-bracketed op events for exactly the ops of
   [nt] (op, number of tasks), then ComputeEnd *)
Definition events_ok (nt : list (nat * nat)) (trace : list ev) : bool :=
  match trace with
  | ECS :: rest =>
    match rev rest with
    | ECE :: rbody =>
      let body := rev rbody in
      forallb (fun e => match ev_op e with Some n => mem_nat n (map fst nt) | None => false end) body
      && forallb (fun p : nat * nat => op_ok (fst p) (snd p) body) nt
    | _ => false
    end
  | _ => false
  end.

(* ---- executor models: the traces they produce ---------------------------------- *)
(* sequential executor and async_map_dag without compute_arrays_in_parallel: one op at a
   time; the op's result stream is drained (one task-end per input: C08 done_exactly_once) *)
Definition op_block (p : nat * nat) : list ev := EOS (fst p) :: repeat (ETE (fst p)) (snd p) ++ [EOE (fst p)].
Definition seq_trace (ops : list (nat * nat)) : list ev := ECS :: flat_map op_block ops ++ [ECE].

(* async_map_dag with compute_arrays_in_parallel: per generation all starts, then the merged
   streams in ANY interleaving [inter] (a permutation of the expected task-ends), then all ends *)
Definition gen_expected (g : list (nat * nat)) : list ev := flat_map (fun p => repeat (ETE (fst p)) (snd p)) g.
Definition gen_block (g : list (nat * nat)) (inter : list ev) : list ev :=
  map (fun p => EOS (fst p)) g ++ inter ++ map (fun p => EOE (fst p)) g.
Definition par_trace (gens : list (list (nat * nat) * list ev)) : list ev :=
  ECS :: flat_map (fun gi => gen_block (fst gi) (snd gi)) gens ++ [ECE].

(* ---- order checkers ------------------------------------------------------------- *)
Fixpoint index_of (x : nat) (l : list nat) : option nat :=
  match l with [] => None | y :: l' => if Nat.eqb x y then Some 0 else option_map S (index_of x l') end.

Fixpoint nodup_b (l : list nat) : bool :=
  match l with [] => true | x :: l' => negb (mem_nat x l') && nodup_b l' end.

(* order is a duplicate-free enumeration of exactly the nodes, every edge goes forward *)
Definition is_topo_order (nodes : list nat) (edges : list (nat * nat)) (order : list nat) : bool :=
  nodup_b order && forallb (fun n => mem_nat n order) nodes && forallb (fun n => mem_nat n nodes) order
  && forallb (fun e : nat * nat =>
       match index_of (fst e) order, index_of (snd e) order with
       | Some i, Some j => i <? j
       | _, _ => false
       end) edges.

(* generation index of a node in a list of generations *)
Fixpoint gen_index (x : nat) (gens : list (list nat)) : option nat :=
  match gens with
  | [] => None
  | g :: gens' => if mem_nat x g then Some 0 else option_map S (gen_index x gens')
  end.
(* gens partitions the nodes and every edge goes to a strictly later generation *)
Definition is_generations (nodes : list nat) (edges : list (nat * nat)) (gens : list (list nat)) : bool :=
  is_topo_order nodes edges (concat gens)
  && forallb (fun e : nat * nat =>
       match gen_index (fst e) gens, gen_index (snd e) gens with
       | Some i, Some j => i <? j
       | _, _ => false
       end) edges.

(* visit_nodes / visit_node_generations: drop the nodes without a pipeline or already computed *)
Definition visit_nodes (skip : nat -> bool) (order : list nat) : list nat := filter (fun n => negb (skip n)) order.
Definition visit_generations (skip : nat -> bool) (gens : list (list nat)) : list (list nat) :=
  filter (fun g => match g with [] => false | _ => true end) (map (filter (fun n => negb (skip n))) gens).

(* op-level dependencies: op P -> array a -> op B *)
Definition op_deps (is_op : nat -> bool) (edges : list (nat * nat)) : list (nat * nat) :=
  flat_map (fun e1 : nat * nat =>
    if is_op (fst e1) then
      flat_map (fun e2 : nat * nat => if Nat.eqb (snd e1) (fst e2) && is_op (snd e2) then [(fst e1, snd e2)] else []) edges
    else []) edges.

Fixpoint ev_index (e : ev) (l : list ev) : option nat :=
  match l with [] => None | y :: l' => if ev_eqb e y then Some 0 else option_map S (ev_index e l') end.
Fixpoint last_task_index (n : nat) (l : list ev) (i : nat) (acc : option nat) : option nat :=
  match l with
  | [] => acc
  | ETE m :: l' => last_task_index n l' (S i) (if Nat.eqb m n then Some i else acc)
  | _ :: l' => last_task_index n l' (S i) acc
  end.

(* the barrier: for every dependency P -> B whose both ends ran, P's end precedes B's start *)
Definition barrier_ok (deps : list (nat * nat)) (trace : list ev) : bool :=
  forallb (fun d : nat * nat =>
    match ev_index (EOE (fst d)) trace, ev_index (EOS (snd d)) trace with
    | Some i, Some j => i <? j
    | None, _ => true       (* producer skipped (already computed / no pipeline) *)
    | _, None => true
    end) deps.
