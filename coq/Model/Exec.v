(* Store-level semantics of executing a plan: tasks read chunks, compute, write chunks
   (apply_blockwise in cubed/primitive/blockwise.py), ops are lists of tasks, plans are lists
   of ops; crash = any subset of the chunk writes of an interrupted run that is closed under
   "a task's output chunk is only written with its final value"; resume (Plan.execute with
   resume=True + already_computed in cubed/core/plan.py). *)
From CubedV Require Import Model.Util Model.Keys.

Section Exec.
Variable V : Type.                       (* contents of one stored chunk *)
Definition store := key -> option V.

Fixpoint mem_key (k : key) (l : list key) : bool :=
  match l with [] => false | x :: l' => key_eqb k x || mem_key k l' end.

(* a task: the chunks it reads, the chunks it writes, and the value it writes to each,
   as a function of the store it sees *)
Record task := { t_reads : list key; t_writes : list key; t_val : store -> key -> V }.

(* running a task to completion *)
Definition run_task (s : store) (t : task) : store :=
  fun k => if mem_key k (t_writes t) then Some (t_val t s k) else s k.

(* one chunk write of a task whose inputs were read from store [s0] *)
Definition write_one (s0 : store) (t : task) (w : key) (s : store) : store :=
  fun k => if key_eqb k w then Some (t_val t s0 w) else s k.

Definition op := list task.
Definition run_sched (s : store) (sched : list task) : store := fold_left run_task sched s.
Definition run_op (s : store) (o : op) : store := run_sched s o.
Definition run_plan (s : store) (p : list op) : store := fold_left run_op p s.

(* ---- side conditions (what C05 / the DAG structure provide) ------------------------ *)
(* the value a task writes depends only on the chunks it reads *)
Definition task_local (t : task) : Prop :=
  forall s1 s2, (forall k, mem_key k (t_reads t) = true -> s1 k = s2 k) ->
  forall w, t_val t s1 w = t_val t s2 w.
Definition disjoint (a b : list key) : Prop := forall k, mem_key k a = true -> mem_key k b = false.
(* within an op: different tasks write different chunks, nobody reads what the op writes *)
Definition op_ok (o : op) : Prop :=
  (forall t, In t o -> task_local t) /\
  (forall t t', In t o -> In t' o -> disjoint (t_reads t) (t_writes t')) /\
  (forall l1 t l2 t' l3, o = l1 ++ t :: l2 ++ t' :: l3 -> disjoint (t_writes t) (t_writes t')).
Definition op_writes (o : op) : list key := flat_map t_writes o.
Definition op_reads (o : op) : list key := flat_map t_reads o.
(* in a plan: every chunk has one producing op, and ops only read what earlier ops (or nobody) write *)
Fixpoint plan_ok (p : list op) : Prop :=
  match p with
  | [] => True
  | o :: rest =>
      op_ok o /\
      (forall o', In o' rest -> disjoint (op_writes o) (op_writes o') /\ disjoint (op_reads o) (op_writes o')) /\
      plan_ok rest
  end.

(* ---- resume ------------------------------------------------------------------------- *)
(* already_computed: every output chunk present (nchunks_initialized == nchunks); ops flagged
   [always] (create-arrays, zero-dimensional outputs) are never skipped *)
Definition complete (s : store) (o : op) : bool :=
  forallb (fun k => match s k with Some _ => true | None => false end) (op_writes o).
Definition resume_plan (always : op -> bool) (s : store) (p : list op) : store :=
  (* the computed flags are evaluated on the store as it is when resume starts *)
  fold_left (fun st o => if negb (always o) && complete s o then st else run_op st o) p s.

End Exec.
