(* Regular-chunk check and Zarr chunk size of a declared chunking:
   cubed/vendor/dask/array/core.py::_check_regular_chunks and cubed/utils.py::to_chunksize
   (the only gate between the chunks an array declares and the regular grid it is stored on). *)
From CubedV Require Import Model.Util Model.Geometry.

Definition distinct_count (l : list nat) : nat := length (nodup Nat.eq_dec l).

(* one axis of _check_regular_chunks: a single chunk passes; otherwise all chunks but the last
   are equal and the last is not larger than the first *)
Definition check_regular1 (c : list nat) : bool :=
  if length c =? 1 then true
  else if 1 <? distinct_count (removelast c) then false
  else if hd 0 c <? last c 0 then false
  else true.
Definition check_regular (cs : list (list nat)) : bool := forallb check_regular1 cs.

(* to_chunksize: refuses irregular chunks, otherwise the first chunk of every axis (at least 1) *)
Definition to_chunksize (cs : list (list nat)) : option (list nat) :=
  if negb (check_regular cs) then None else Some (map (fun c => Nat.max (hd 0 c) 1) cs).

(* the chunks of the stored (regular) grid of chunk size c over an axis of length n *)
Definition stored_chunks (n c : nat) : list nat := regular n c.
