From CubedV Require Import Model.Util Model.Keys Model.Fusion Model.Memory Model.Dag Model.SpecCfg Proofs.SpecCfgProofs Proofs.MemoryProofs.
Local Open Scope Z_scope.

Lemma fold_shift (inputs : list Z) (rc r : Z) :
  fold_left (fun acc i => acc + i * rc + i) inputs r = r + fold_left (fun acc i => acc + i * rc + i) inputs 0.
Proof.
  revert r. induction inputs as [|i l IH]; intros r; cbn [fold_left]; [lia|].
  rewrite (IH (r + i * rc + i)), (IH (0 + i * rc + i)). lia.
Qed.

(* projected_minus_reserved_independent: what a plan needs beyond the reserved memory does not depend
   on the reserved memory (nor on anything else in the Spec: work dir, store, compressor, executor,
   allowed memory do not occur in the formula at all) *)
Theorem projected_minus_reserved_independent reserved reserved' inputs operation output rc wc :
  calc_projected reserved inputs operation output rc wc - reserved
  = calc_projected reserved' inputs operation output rc wc - reserved'.
Proof. unfold calc_projected. rewrite (fold_shift inputs rc reserved), (fold_shift inputs rc reserved'). lia. Qed.

(* admission under a larger allowed memory: a plan accepted under a budget stays accepted under any larger one *)
Theorem accepted_monotone (ops : list (Z * Z)) (extra : Z) :
  0 <= extra -> plan_accepted ops = true -> plan_accepted (map (fun pa => (fst pa, snd pa + extra)) ops) = true.
Proof.
  intros He H. apply accepted_iff_all_fit. intros pa Hin.
  apply in_map_iff in Hin. destruct Hin as (q & <- & Hq). cbn [fst snd].
  pose proof (proj1 (accepted_iff_all_fit ops) H q Hq). lia.
Qed.

(* acceptance_invariant: when every helper array inherits its operands' spec the spec check accepts,
   whatever that spec is; a helper built under another spec is what makes it fail (D10) *)
Theorem helpers_inherit_accepted (s : spec) (helpers : list spec) :
  (forall h, In h helpers -> h = s) -> check_array_specs (s :: helpers) = Some (Some s).
Proof.
  intros H. unfold check_array_specs. cbn [forallb]. rewrite spec_eqb_refl. cbn.
  assert (forallb (spec_eqb s) helpers = true) as ->; [|reflexivity].
  apply forallb_forall. intros h Hh. rewrite (H h Hh). apply spec_eqb_refl.
Qed.
Theorem foreign_helper_rejected (s d : spec) (rest : list spec) :
  s <> d -> check_array_specs (s :: d :: rest) = None.
Proof. intros Hne. apply (mixed_specs_rejected _ s d); [left; reflexivity|right; left; reflexivity|exact Hne]. Qed.
