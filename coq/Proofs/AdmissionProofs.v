From CubedV Require Import Model.Util Model.Keys Model.Fusion Model.Memory Model.Dag Model.FuseGuard Model.Admission.
From Coq Require Import Permutation.
Local Open Scope Z_scope.

Lemma fold_append_flat_map {A C} (f : A -> list C) : forall l acc,
  fold_left (fun acc t => acc ++ f t) l acc = acc ++ flat_map f l.
Proof.
  induction l as [|x l IH]; intros acc; cbn [fold_left flat_map].
  - now rewrite app_nil_r.
  - rewrite IH, app_assoc. reflexivity.
Qed.

Lemma insert_desc_perm : forall x l, Permutation (insert_desc x l) (x :: l).
Proof.
  induction l as [|y l IH]; cbn [insert_desc]; [reflexivity|].
  destruct (_ <? _); [reflexivity|]. rewrite IH. apply perm_swap.
Qed.

Lemma sort_fold_perm : forall l acc, Permutation (fold_left (fun acc x => insert_desc x acc) l acc) (acc ++ l).
Proof.
  induction l as [|x l IH]; intros acc; cbn [fold_left].
  - now rewrite app_nil_r.
  - rewrite IH, insert_desc_perm. apply Permutation_middle.
Qed.

Theorem sort_by_proj_desc_perm : forall l, Permutation (sort_by_proj_desc l) l.
Proof. intros l. exact (sort_fold_perm l []). Qed.

(* the worst offender is reported first *)
Inductive desc : list (nat * pview) -> Prop :=
| desc_nil : desc []
| desc_cons : forall x l, (forall y, In y l -> v_proj (snd y) <= v_proj (snd x)) -> desc l -> desc (x :: l).

Lemma insert_desc_in : forall x y l, In y (insert_desc x l) <-> y = x \/ In y l.
Proof.
  intros x y l. split; intros H.
  - apply (Permutation_in _ (insert_desc_perm x l)) in H. destruct H; [left; congruence|right; assumption].
  - apply (Permutation_in _ (Permutation_sym (insert_desc_perm x l))). destruct H; [left; congruence|right; assumption].
Qed.

Lemma insert_desc_sorted : forall x l, desc l -> desc (insert_desc x l).
Proof.
  intros x l H. induction H as [|y l Hy Hl IH]; cbn [insert_desc].
  - constructor; [intros y []|constructor].
  - destruct (Z.ltb_spec (v_proj (snd y)) (v_proj (snd x))) as [L|L].
    + constructor; [|constructor; assumption].
      intros z [<-|Hz]; [lia|]. specialize (Hy _ Hz). lia.
    + constructor; [|assumption].
      intros z Hz. apply insert_desc_in in Hz. destruct Hz as [->|Hz]; [assumption|exact (Hy _ Hz)].
Qed.

Theorem sort_by_proj_desc_sorted : forall l, desc (sort_by_proj_desc l).
Proof.
  intros l. unfold sort_by_proj_desc.
  assert (forall acc, desc acc -> desc (fold_left (fun acc x => insert_desc x acc) l acc)) as K.
  { induction l as [|x l IH]; intros acc Ha; cbn [fold_left]; [assumption|]. apply IH. now apply insert_desc_sorted. }
  apply K. constructor.
Qed.

Lemma in_find_exceeding : forall nodes n op,
  In (n, op) (find_exceedingZ nodes) <-> In (n, Some op) nodes /\ v_allowed op < v_proj op.
Proof.
  intros nodes n op. unfold find_exceedingZ.
  split.
  - intros H. apply (Permutation_in _ (sort_by_proj_desc_perm _)) in H.
    apply in_flat_map in H. destruct H as [[n' [op'|]] [Hin H]]; cbn [fst snd] in H; [|destruct H].
    unfold exceedsZ in H. destruct (Z.ltb_spec (v_allowed op') (v_proj op')) as [L|L]; [|destruct H].
    destruct H as [H|[]]. inversion H; subst. tauto.
  - intros [Hin L]. apply (Permutation_in _ (Permutation_sym (sort_by_proj_desc_perm _))).
    apply in_flat_map. exists (n, Some op). split; [assumption|]. cbn [fst snd]. unfold exceedsZ.
    destruct (Z.ltb_spec (v_allowed op) (v_proj op)); [left; reflexivity|lia].
Qed.

(* the plan is refused exactly when some operation projects more than it is allowed *)
Theorem plan_refused_iff : forall nodes,
  plan_refusedZ nodes = true <-> exists n op, In (n, Some op) nodes /\ v_proj op > v_allowed op.
Proof.
  intros nodes. unfold plan_refusedZ, validate_raises. split.
  - destruct (find_exceedingZ nodes) as [|[n op] l] eqn:E; [discriminate|]. intros _.
    assert (In (n, op) (find_exceedingZ nodes)) as H by (rewrite E; left; reflexivity).
    apply in_find_exceeding in H. exists n, op. split; [tauto|lia].
  - intros [n [op [Hin L]]].
    assert (In (n, op) (find_exceedingZ nodes)) as H by (apply in_find_exceeding; split; [assumption|lia]).
    destruct (find_exceedingZ nodes); [destruct H|reflexivity].
Qed.

Theorem plan_accepted_iff : forall nodes,
  plan_refusedZ nodes = false <-> forall n op, In (n, Some op) nodes -> v_proj op <= v_allowed op.
Proof.
  intros nodes. split.
  - intros H n op Hin. destruct (Z.le_gt_cases (v_proj op) (v_allowed op)) as [L|L]; [assumption|].
    assert (plan_refusedZ nodes = true) by (apply plan_refused_iff; exists n, op; split; [assumption|lia]). congruence.
  - intros H. destruct (plan_refusedZ nodes) eqn:E; [|reflexivity].
    apply plan_refused_iff in E. destruct E as [n [op [Hin L]]]. specialize (H _ _ Hin). lia.
Qed.

(* equality is accepted: the test is strict *)
Theorem equality_acceptedZ : forall n op, v_proj op = v_allowed op -> plan_refusedZ [(n, Some op)] = false.
Proof.
  intros n op E. apply plan_accepted_iff. intros n' op' [H|[]]. inversion H; subst. lia.
Qed.

(* the operation reported by validate() (the head of the list) is a worst offender *)
Theorem reported_is_worst : forall nodes n op rest,
  find_exceedingZ nodes = (n, op) :: rest ->
  In (n, Some op) nodes /\ v_proj op > v_allowed op /\
  forall n' op', In (n', Some op') nodes -> v_proj op' > v_allowed op' -> v_proj op' <= v_proj op.
Proof.
  intros nodes n op rest E.
  assert (In (n, op) (find_exceedingZ nodes)) as H by (rewrite E; left; reflexivity).
  apply in_find_exceeding in H. destruct H as [Hin L]. split; [assumption|]. split; [lia|].
  intros n' op' Hin' L'.
  assert (In (n', op') (find_exceedingZ nodes)) as H' by (apply in_find_exceeding; split; [assumption|lia]).
  pose proof (sort_by_proj_desc_sorted
    (flat_map (fun t : nat * option pview => match snd t with Some op => if exceedsZ op then [(fst t, op)] else [] | None => [] end) nodes)) as S.
  fold (find_exceedingZ nodes) in S. rewrite E in S, H'. inversion S as [|x l Hx Hl]; subst.
  destruct H' as [H'|H']; [inversion H'; subst; lia|]. exact (Hx _ H').
Qed.

(* tie to Model.Memory.plan_accepted over (projected, allowed) pairs *)
Theorem plan_refused_pairs : forall nodes,
  plan_refusedZ nodes = negb (plan_accepted (flat_map (fun t : nat * option pview =>
     match snd t with Some op => [(v_proj op, v_allowed op)] | None => [] end) nodes)).
Proof.
  intros nodes. destruct (plan_refusedZ nodes) eqn:E.
  - apply plan_refused_iff in E. destruct E as [n [op [Hin L]]].
    unfold plan_accepted, ops_exceeding.
    assert (In (v_proj op, v_allowed op) (filter exceeds (flat_map (fun t : nat * option pview =>
       match snd t with Some op => [(v_proj op, v_allowed op)] | None => [] end) nodes))) as H.
    { apply filter_In. split.
      - apply in_flat_map. exists (n, Some op). split; [assumption|left; reflexivity].
      - unfold exceeds. cbn [fst snd]. apply Z.ltb_lt. lia. }
    destruct (filter exceeds _); [destruct H|reflexivity].
  - unfold plan_accepted, ops_exceeding.
    destruct (filter exceeds _) as [|pa l] eqn:F; [reflexivity|].
    assert (In pa (filter exceeds (flat_map (fun t : nat * option pview =>
       match snd t with Some op => [(v_proj op, v_allowed op)] | None => [] end) nodes))) as H by (rewrite F; left; reflexivity).
    apply filter_In in H. destruct H as [H X]. apply in_flat_map in H. destruct H as [[n [op|]] [Hin H]]; cbn [snd] in H; [|destruct H].
    destruct H as [<-|[]]. unfold exceeds in X. cbn [fst snd] in X. apply Z.ltb_lt in X.
    pose proof (proj1 (plan_accepted_iff nodes) E n op Hin). lia.
Qed.
