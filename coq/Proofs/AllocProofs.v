(* C03: the projected-memory formula judged against the allocation-trace semantics of
   Model.AllocTrace.  Statements are those of Specs/C03_target.v. *)
From CubedV Require Import Model.Util Model.Keys Model.Fusion Model.Memory Model.Dag Model.AllocTrace.
From CubedV Require Import Proofs.MemoryProofs.
Local Open Scope Z_scope.

Definition arg_ok (a : argkind) : Prop :=
  match a with ABlock b => 0 <= b | AList b _ => 0 <= b | AIter b _ => 0 <= b end.
Definition single_or_stream (a : argkind) : Prop :=
  match a with ABlock _ => True | AIter _ _ => True | AList _ k => (k <= 1)%nat end.

(* ------------------------------------------------------------------------- *)
(* the formula in closed form                                                *)
(* ------------------------------------------------------------------------- *)
(* the one block per source array that the formula charges *)
Definition asize (a : argkind) : Z :=
  match a with ABlock b | AList b _ | AIter b _ => b end.

Lemma formula_closed : forall rc wc args extra out,
  formula rc wc args extra out
  = sumz (map (fun a => asize a * (rc + 1)) args) + extra + out * (wc + 1).
Proof.
  intros. unfold formula. rewrite calc_projected_closed, map_map.
  unfold asize. cbv beta. lia.
Qed.

(* ------------------------------------------------------------------------- *)
(* unfused tasks                                                             *)
(* ------------------------------------------------------------------------- *)
Lemma arg_bounds : forall rc a, 0 <= rc -> arg_ok a -> single_or_stream a ->
  held a <= asize a * (rc + 1) /\ read_peak rc a <= asize a * (rc + 1) /\ 0 <= asize a * (rc + 1).
Proof.
  intros rc a Hrc Hok Hs.
  destruct a as [b | b k | b k]; cbn [arg_ok single_or_stream held read_peak asize] in *.
  - nia.
  - destruct k as [|[|k]]; [| |lia]; cbn; nia.
  - destruct k as [|k]; cbn; nia.
Qed.

Lemma read_args_bound : forall rc args alive, 0 <= rc ->
  Forall arg_ok args -> Forall single_or_stream args ->
  fst (read_args rc alive args) <= alive + sumz (map (fun a => asize a * (rc + 1)) args) /\
  snd (read_args rc alive args) <= alive + sumz (map (fun a => asize a * (rc + 1)) args) /\
  0 <= sumz (map (fun a => asize a * (rc + 1)) args).
Proof.
  intros rc args. induction args as [|a rest IH]; intros alive Hrc Hok Hs.
  - cbn. lia.
  - inversion Hok as [|? ? Ha Hrest]; subst. inversion Hs as [|? ? Sa Srest]; subst.
    cbn [read_args map sumz].
    destruct (IH (alive + held a) Hrc Hrest Srest) as (I1 & I2 & I3).
    destruct (read_args rc (alive + held a) rest) as [p' alive'].
    cbn [fst snd] in *.
    destruct (arg_bounds rc a Hrc Ha Sa) as (B1 & B2 & B3). lia.
Qed.

Theorem unfused_peak_bounded : forall rc wc args extra out,
  0 <= rc -> 0 <= wc -> 0 <= extra -> 0 <= out ->
  Forall arg_ok args -> Forall single_or_stream args ->
  task_peak rc wc args extra out <= formula rc wc args extra out.
Proof.
  intros rc wc args extra out Hrc Hwc Hex Hout Hok Hs.
  rewrite formula_closed. unfold task_peak.
  destruct (read_args_bound rc args 0 Hrc Hok Hs) as (I1 & I2 & I3).
  destruct (read_args rc 0 args) as [p alive]. cbn [fst snd] in *. lia.
Qed.

(* ------------------------------------------------------------------------- *)
(* list arguments                                                            *)
(* ------------------------------------------------------------------------- *)
Theorem multi_block_list_refuted :
  exists rc wc args extra out, 0 <= rc /\ 0 <= wc /\ Forall arg_ok args /\
  task_peak rc wc args extra out > formula rc wc args extra out.
Proof.
  exists 1, 1, [AList 100 3], 0, 10.
  split; [lia|]. split; [lia|]. split.
  - repeat constructor. cbn. lia.
  - vm_compute. reflexivity.
Qed.

Theorem list_peak_exact : forall rc wc b k out,
  0 <= rc -> 0 <= wc -> 0 <= b -> 0 <= out -> (0 < k)%nat ->
  task_peak rc wc [AList b k] 0 out
  = Z.max (b * Z.of_nat (k - 1) + (b * rc + b)) (b * Z.of_nat k + out + out * wc).
Proof.
  intros rc wc b k out Hrc Hwc Hb Hout Hk.
  unfold task_peak. cbn [read_args held read_peak].
  destruct (Nat.eqb_spec k 0) as [E|_]; [lia|].
  assert (0 <= out * wc) by (apply Z.mul_nonneg_nonneg; lia). lia.
Qed.

(* ------------------------------------------------------------------------- *)
(* fused tasks                                                               *)
(* ------------------------------------------------------------------------- *)
(* the modeller run started in a state whose current memory is what is alive bounds the
   reading phase of the fused task, and what is alive afterwards is the chunk memories *)
Lemma fused_read_bound : forall (preds : list (Z * Z * Z)) alive m,
  (forall t, In t preds -> fst (fst t) <= snd (fst t) /\ 0 <= snd t /\ snd t <= snd (fst t)) ->
  cur m = alive ->
  fst (fused_read alive (map (fun t => (fst (fst t), snd t)) preds))
    <= Z.max alive (peak (fold_left peak_step (map (fun t => (snd (fst t), snd t)) preds) m)) /\
  snd (fused_read alive (map (fun t => (fst (fst t), snd t)) preds))
    = alive + sumz (map (fun t : Z * Z * Z => snd t) preds).
Proof.
  induction preds as [|t rest IH]; intros alive m H Hm.
  - cbn. lia.
  - cbn [map fused_read fold_left sumz].
    assert (Ht : fst (fst t) <= snd (fst t) /\ 0 <= snd t /\ snd t <= snd (fst t))
      by (apply H; left; reflexivity).
    assert (Hrest : forall u, In u rest ->
              fst (fst u) <= snd (fst u) /\ 0 <= snd u /\ snd u <= snd (fst u))
      by (intros u Hu; apply H; right; assumption).
    set (m' := peak_step m (snd (fst t), snd t)).
    assert (Hm' : cur m' = alive + snd t)
      by (unfold m'; rewrite step_cur; cbn [snd]; lia).
    destruct (IH (alive + snd t) m' Hrest Hm') as (I1 & I2).
    destruct (fused_read (alive + snd t) (map (fun t0 => (fst (fst t0), snd t0)) rest))
      as [p' alive'].
    cbn [fst snd] in *.
    pose proof (step_peak_ge_fst m (snd (fst t), snd t)) as S1. cbn [fst] in S1. fold m' in S1.
    pose proof (run_peak_mono (map (fun t0 : Z * Z * Z => (snd (fst t0), snd t0)) rest) m') as S2.
    split; lia.
Qed.

Lemma sumz_le_scaled : forall rc l, 0 <= rc -> (forall x, In x l -> 0 <= x) ->
  sumz l <= sumz (map (fun i => i * (rc + 1)) l).
Proof.
  intros rc l Hrc. induction l as [|x l IH]; intros H; cbn [map sumz]; [lia|].
  assert (0 <= x) by (apply H; left; reflexivity).
  assert (sumz l <= sumz (map (fun i => i * (rc + 1)) l))
    by (apply IH; intros; apply H; right; assumption).
  nia.
Qed.

Theorem fused_peak_bounded : forall wc rc (preds : list (Z * Z * Z)) extra out,
  0 <= rc -> 0 <= wc -> 0 <= extra -> 0 <= out ->
  (forall t, In t preds -> fst (fst t) <= snd (fst t) /\ 0 <= snd t /\ snd t <= snd (fst t)) ->
  fused_task_peak wc (map (fun t => (fst (fst t), snd t)) preds) extra out
  <= fused_projected (calc_projected 0 (map (fun t : Z * Z * Z => snd t) preds) extra out rc wc)
                     (map (fun t => (snd (fst t), snd t)) preds).
Proof.
  intros wc rc preds extra out Hrc Hwc Hex Hout H.
  unfold fused_task_peak, fused_projected.
  destruct (fused_read_bound preds 0 mm0 H eq_refl) as (I1 & I2).
  destruct (fused_read 0 (map (fun t => (fst (fst t), snd t)) preds)) as [p alive].
  cbn [fst snd] in *.
  fold (peak_projected (map (fun t : Z * Z * Z => (snd (fst t), snd t)) preds)) in I1.
  pose proof (peak_nonneg (map (fun t : Z * Z * Z => (snd (fst t), snd t)) preds)) as Pn.
  rewrite calc_projected_closed.
  assert (Hs : sumz (map (fun t : Z * Z * Z => snd t) preds)
               <= sumz (map (fun i => i * (rc + 1)) (map (fun t : Z * Z * Z => snd t) preds))).
  { apply sumz_le_scaled; [assumption|]. intros x Hx. apply in_map_iff in Hx.
    destruct Hx as (t & <- & Ht). apply H in Ht. lia. }
  lia.
Qed.

(* ------------------------------------------------------------------------- *)
(* reserved memory                                                           *)
(* ------------------------------------------------------------------------- *)
Theorem projected_includes_reserved : forall reserved inputs extra out rc wc,
  calc_projected reserved inputs extra out rc wc = reserved + calc_projected 0 inputs extra out rc wc.
Proof. intros. rewrite !calc_projected_closed. lia. Qed.

(* ------------------------------------------------------------------------- *)
(* writing with a compressor (finding D23)                                   *)
(* ------------------------------------------------------------------------- *)
(* With a compressor the write phase holds one more copy of the output chunk (the compressed
   bytes, as large as the chunk for incompressible data) than the wc copies the formula is given.
   The formula is then no longer an upper bound ... *)
Theorem compressed_write_refuted :
  exists rc wc args extra out, 0 <= rc /\ 0 <= wc /\ 0 <= extra /\ 0 <= out /\
    Forall arg_ok args /\ Forall single_or_stream args /\
    task_peak rc (wc + 1) args extra out > formula rc wc args extra out.
Proof.
  exists 1, 1, [ABlock 40; ABlock 40], 0, 25000.
  repeat split; try lia; try (repeat constructor; cbn; lia).
Qed.

(* ... the overrun is at most one output chunk ... *)
Theorem compressed_write_overrun_bounded : forall rc wc args extra out,
  0 <= rc -> 0 <= wc -> 0 <= extra -> 0 <= out ->
  Forall arg_ok args -> Forall single_or_stream args ->
  task_peak rc (wc + 1) args extra out <= formula rc wc args extra out + out.
Proof.
  intros rc wc args extra out Hrc Hwc Hex Hout Hok Hs.
  pose proof (unfused_peak_bounded rc (wc + 1) args extra out Hrc ltac:(lia) Hex Hout Hok Hs) as H.
  rewrite formula_closed in *. lia.
Qed.

(* ... and there is none when the read copies of the inputs already cover one output chunk *)
Lemma read_args_alive : forall rc args alive,
  Forall arg_ok args -> Forall single_or_stream args ->
  snd (read_args rc alive args) <= alive + sumz (map asize args).
Proof.
  intros rc args. induction args as [|a rest IH]; intros alive Hok Hs.
  - cbn. lia.
  - inversion Hok as [|? ? Ha Hrest]; subst. inversion Hs as [|? ? Sa Srest]; subst.
    cbn [read_args map sumz].
    specialize (IH (alive + held a) Hrest Srest).
    destruct (read_args rc (alive + held a) rest) as [p' alive']. cbn [snd] in *.
    assert (held a <= asize a).
    { destruct a as [b | b k | b k]; cbn [arg_ok single_or_stream held asize] in *.
      - lia.
      - destruct k as [|[|k]]; [| |lia]; cbn; nia.
      - destruct k as [|k]; cbn; lia. }
    lia.
Qed.

Lemma sumz_map_scale : forall (l : list argkind) k,
  sumz (map (fun a => asize a * k) l) = sumz (map asize l) * k.
Proof. induction l as [|a l IH]; intros k; cbn [map sumz]; [lia | rewrite IH; lia]. Qed.

Theorem compressed_write_within_when_inputs_cover : forall rc wc args extra out,
  0 <= rc -> 0 <= wc -> 0 <= extra -> 0 <= out ->
  Forall arg_ok args -> Forall single_or_stream args ->
  out <= sumz (map asize args) * rc ->
  task_peak rc (wc + 1) args extra out <= formula rc wc args extra out.
Proof.
  intros rc wc args extra out Hrc Hwc Hex Hout Hok Hs Hcov.
  rewrite formula_closed. unfold task_peak.
  destruct (read_args_bound rc args 0 Hrc Hok Hs) as (I1 & I2 & I3).
  pose proof (read_args_alive rc args 0 Hok Hs) as I4.
  destruct (read_args rc 0 args) as [p alive]. cbn [fst snd] in *.
  rewrite sumz_map_scale in *. nia.
Qed.
