From CubedV Require Import Model.Util Model.Keys Model.BlockwiseKF.

(* every argument has one block count (>= 1) per index position *)
Definition wf_args (nbs : nbmap) (args : list argpair) : bool :=
  forallb (fun a : argpair =>
    Nat.eqb (length (snd a)) (length (nb_of nbs (fst a)))
    && forallb (fun nb => 1 <=? nb) (nb_of nbs (fst a))) args.

(* ---- generic list lemmas ------------------------------------------------- *)

Lemma mem_nat_In x l : mem_nat x l = true <-> In x l.
Proof.
  induction l as [|y l IH]; cbn [mem_nat In].
  - split; [discriminate|tauto].
  - rewrite orb_true_iff, IH, Nat.eqb_eq. split; intros [H|H]; subst; auto.
Qed.

Lemma mem_nat_false x l : mem_nat x l = false <-> ~ In x l.
Proof.
  rewrite <- mem_nat_In. destruct (mem_nat x l); split; intros H; try congruence;
    try (exfalso; apply H; reflexivity).
Qed.

Lemma index_of_Some x l k : index_of x l = Some k -> k < length l /\ nth k l 0 = x.
Proof.
  revert k; induction l as [|y l IH]; cbn [index_of]; intros k H; [discriminate|].
  destruct (Nat.eqb x y) eqn:E.
  - inversion H; subst. apply Nat.eqb_eq in E. cbn. split; [lia|auto].
  - destruct (index_of x l) as [k'|]; cbn in H; [|discriminate]. inversion H; subst.
    destruct (IH k' eq_refl). cbn. split; [lia|assumption].
Qed.

Lemma index_of_In x l : In x l -> exists k, index_of x l = Some k.
Proof.
  induction l as [|y l IH]; cbn [index_of In]; intros H; [tauto|].
  destruct (Nat.eqb x y) eqn:E; [eauto|].
  destruct H as [H|H]; [subst; rewrite Nat.eqb_refl in E; discriminate|].
  destruct (IH H) as [k Hk]. rewrite Hk. cbn. eauto.
Qed.

Lemma index_of_None x l : index_of x l = None -> ~ In x l.
Proof. intros H Hin. destruct (index_of_In _ _ Hin) as [k Hk]. congruence. Qed.

Lemma last_index_of_Some x l p : last_index_of x l = Some p -> p < length l.
Proof.
  unfold last_index_of. destruct (index_of x (rev l)) as [k|] eqn:E; cbn; intros H; inversion H.
  apply index_of_Some in E. rewrite rev_length in E. lia.
Qed.

Lemma last_index_of_In x l p : last_index_of x l = Some p -> In x l.
Proof.
  unfold last_index_of. destruct (index_of x (rev l)) as [k|] eqn:E; cbn; intros H; inversion H.
  apply index_of_Some in E. destruct E as [Hk Hn]. apply in_rev. rewrite <- Hn. apply nth_In. exact Hk.
Qed.

Lemma last_index_of_None x l : last_index_of x l = None -> ~ In x l.
Proof.
  unfold last_index_of. destruct (index_of x (rev l)) as [k|] eqn:E; cbn; intros H; [discriminate|].
  intro Hin. apply in_rev in Hin. exact (index_of_None _ _ E Hin).
Qed.

Lemma nodup_nat_In x l : In x l -> In x (nodup_nat l).
Proof.
  induction l as [|y l IH]; cbn [nodup_nat In]; [tauto|].
  intros H. destruct (mem_nat y l) eqn:E.
  - destruct H as [H|H]; [subst; apply IH; apply mem_nat_In; exact E|auto].
  - destruct H as [H|H]; [left; exact H|right; auto].
Qed.

Lemma nodup_nat_ones l : l <> [] -> (forall x, In x l -> x = 1) -> nodup_nat l = [1].
Proof.
  induction l as [|y l IH]; intros Hne H1; [congruence|].
  assert (y = 1) by (apply H1; left; reflexivity). subst y.
  cbn [nodup_nat]. destruct l as [|z l'].
  - reflexivity.
  - assert (Hz : z = 1) by (apply H1; right; left; reflexivity). subst z.
    replace (mem_nat 1 (1 :: l')) with true by reflexivity.
    apply IH; [discriminate|]. intros x Hx. apply H1. right. exact Hx.
Qed.

Lemma flat2_length {A B} (f g : A -> B) l :
  length (flat_map (fun i => [f i; g i]) l) = 2 * length l.
Proof. induction l as [|x l IH]; [reflexivity|]. cbn [flat_map app length]. rewrite IH. lia. Qed.

Lemma flat2_nth_odd {A B} (f g : A -> B) l k d d0 :
  k < length l -> nth (2 * k + 1) (flat_map (fun i => [f i; g i]) l) d = g (nth k l d0).
Proof.
  revert k; induction l as [|x l IH]; intros k Hk; [cbn in Hk; lia|].
  cbn [flat_map app]. destruct k as [|k].
  - reflexivity.
  - replace (2 * S k + 1) with (S (S (2 * k + 1))) by lia. cbn [nth]. apply IH. cbn in Hk. lia.
Qed.

Lemma combine_In_pos {A B} (l : list A) (l' : list B) x y da db :
  length l = length l' -> In (x, y) (combine l l') ->
  exists k, k < length l /\ nth k l da = x /\ nth k l' db = y.
Proof.
  intros Hlen Hin. destruct (In_nth _ _ (da, db) Hin) as [k [Hk Hnth]].
  rewrite combine_length, <- Hlen, Nat.min_id in Hk.
  rewrite combine_nth in Hnth by assumption. inversion Hnth. eauto.
Qed.

Lemma combine_In_l {A B} (l : list A) (l' : list B) x :
  length l = length l' -> In x l -> exists y, In (x, y) (combine l l').
Proof.
  revert l'; induction l as [|a l IH]; intros [|b l'] Hlen Hin; cbn in *; try tauto; try discriminate.
  destruct Hin as [Hin|Hin].
  - subst. eauto.
  - destruct (IH l' (eq_add_S _ _ Hlen) Hin) as [y Hy]. eauto.
Qed.

Lemma flat_map_single {A B C} (F : B -> list C) (G : A -> B) (H : A -> C) l :
  (forall a, In a l -> F (G a) = [H a]) -> flat_map F (map G l) = map H l.
Proof.
  induction l as [|a l IH]; intros Hall; [reflexivity|].
  cbn [map flat_map]. rewrite Hall by (left; reflexivity). cbn [app]. f_equal.
  apply IH. intros b Hb. apply Hall. right. exact Hb.
Qed.

(* ---- lol_product / flatten ------------------------------------------------ *)

Definition val' (e : centry) : nat := match e with CI n => n | CL _ => 0 end.
Definition is_cl (e : centry) : bool := match e with CL _ => true | CI _ => false end.

Lemma lol_flatten {A} nm (g : A -> centry) (h : A -> nat) l head :
  (forall x, In x l -> g x = CI (h x) \/ (g x = CL [0] /\ h x = 0)) ->
  flatten_lol (lol_product nm head (map g l)) = [(nm, head ++ map h l)].
Proof.
  revert head; induction l as [|x l IH]; intros head Hall.
  - cbn. rewrite app_nil_r. reflexivity.
  - assert (Hl : forall y, In y l -> g y = CI (h y) \/ (g y = CL [0] /\ h y = 0))
      by (intros y Hy; apply Hall; right; exact Hy).
    cbn [map]. destruct (Hall x (or_introl eq_refl)) as [E|[E E0]]; rewrite E.
    + cbn [lol_product]. rewrite IH by exact Hl. rewrite <- app_assoc. reflexivity.
    + cbn [lol_product map flatten_lol flat_map]. rewrite IH by exact Hl.
      rewrite <- app_assoc, E0. reflexivity.
Qed.

Lemma val_map {A} (g : A -> centry) (h : A -> nat) l :
  (forall x, In x l -> g x = CI (h x) \/ (g x = CL [0] /\ h x = 0)) ->
  map val' (map g l) = map h l.
Proof.
  intros Hall. rewrite map_map. apply map_ext_in. intros x Hx.
  destruct (Hall x Hx) as [E|[E E0]]; rewrite E; cbn; auto.
Qed.

Lemma is_ll_lol nm head vals : is_ll (lol_product nm head vals) = existsb is_cl vals.
Proof.
  revert head; induction vals as [|e vals IH]; intros head; [reflexivity|].
  destruct e as [v|xs]; cbn [lol_product existsb is_cl orb]; [apply IH|reflexivity].
Qed.

(* ---- the key function ----------------------------------------------------- *)

Section Main.
Variables (out : list index) (args : list argpair) (nbs : nbmap) (new_axes : list (index * nat)).
Hypothesis Hwf : wf_args nbs args = true.
Hypothesis Hnew : forall i, In i (dummy_indices out args) -> lookup i new_axes = None.
Hypothesis Hguard : guard_ok out args nbs = true.

Notation D := (dummies_l out args).
Notation cmb a := (combine (snd a) (nb_of nbs (fst a))).

Lemma wf_len a : In a args -> length (snd a) = length (nb_of nbs (fst a)).
Proof.
  intros Ha. pose proof Hwf as W. unfold wf_args in W. rewrite forallb_forall in W.
  specialize (W a Ha). apply andb_prop in W. destruct W as [W _]. apply Nat.eqb_eq. exact W.
Qed.

Lemma wf_ge a n : In a args -> In n (nb_of nbs (fst a)) -> 1 <= n.
Proof.
  intros Ha Hn. pose proof Hwf as W. unfold wf_args in W. rewrite forallb_forall in W.
  specialize (W a Ha). apply andb_prop in W. destruct W as [_ W].
  rewrite forallb_forall in W. apply Nat.leb_le. apply W. exact Hn.
Qed.

Lemma guard_le a i n : In a args -> In (i, n) (cmb a) -> mem_nat i D = true -> n <= 1.
Proof.
  intros Ha Hin Hm.
  pose proof Hguard as G. unfold guard_ok in G. rewrite forallb_forall in G.
  specialize (G a Ha). rewrite forallb_forall in G.
  destruct (combine_In_pos _ _ _ _ 0 0 (wf_len a Ha) Hin) as [k [Hk [Hi Hn]]].
  assert (Hax : In k (concat_axes out args a)).
  { unfold concat_axes. apply in_flat_map. exists (k, i). split.
    - replace (k, i) with (nth k (combine (seq 0 (length (snd a))) (snd a)) (0, 0)).
      + apply nth_In. rewrite combine_length, seq_length, Nat.min_id. exact Hk.
      + rewrite combine_nth by apply seq_length. rewrite seq_nth by exact Hk. rewrite Hi. reflexivity.
    - cbn [fst snd]. rewrite Hm. left; reflexivity. }
  apply G in Hax. apply Nat.leb_le in Hax. rewrite Hn in Hax. exact Hax.
Qed.

Lemma nb_one a i n : In a args -> In (i, n) (cmb a) -> mem_nat i D = true -> n = 1.
Proof.
  intros Ha Hin Hm. pose proof (guard_le a i n Ha Hin Hm).
  pose proof (wf_ge a n Ha (in_combine_r _ _ _ _ Hin)). lia.
Qed.

Lemma concat_axes_In a ax :
  In ax (concat_axes out args a) -> exists i, In i (snd a) /\ mem_nat i D = true.
Proof.
  unfold concat_axes. intros H. apply in_flat_map in H. destruct H as [[k i] [Hin Hk]].
  cbn [fst snd] in Hk. exists i. split; [eapply in_combine_r; exact Hin|].
  destruct (mem_nat i D); [reflexivity|destruct Hk].
Qed.

Lemma dim_or_one a i n :
  In a args -> In (i, n) (cmb a) -> In i D -> dim_or nbs args new_axes i = 1.
Proof.
  intros Ha Hin HD. unfold dim_or. rewrite Hnew by exact HD. unfold dim_of.
  rewrite nodup_nat_ones; [reflexivity| |].
  - intro E. assert (Hs : In n (seen_for nbs args i)).
    { unfold seen_for. apply in_flat_map. exists a. split; [exact Ha|].
      apply in_flat_map. exists (i, n). split; [exact Hin|].
      cbn [fst snd]. rewrite Nat.eqb_refl. left; reflexivity. }
    rewrite E in Hs. destruct Hs.
  - intros x Hx. unfold seen_for in Hx. apply in_flat_map in Hx. destruct Hx as [a' [Ha' Hx]].
    apply in_flat_map in Hx. destruct Hx as [[i' x'] [Hp Hx]]. cbn [fst snd] in Hx.
    destruct (Nat.eqb i' i) eqn:E; [|destruct Hx].
    apply Nat.eqb_eq in E. subst i'. destruct Hx as [Hx|[]]. subst x'.
    apply (nb_one a' i x Ha' Hp). apply mem_nat_In. exact HD.
Qed.

Lemma dummies_nth_odd k :
  k < length D ->
  nth (2 * k + 1) (dummies out args nbs new_axes) (CI 0)
  = CL (repeat 0 (dim_or nbs args new_axes (nth k D 0))).
Proof.
  intros Hk. unfold dummies. cbv zeta.
  rewrite app_nth1.
  - exact (flat2_nth_odd (fun i => CL (seq 0 (dim_or nbs args new_axes i)))
                         (fun i => CL (repeat 0 (dim_or nbs args new_axes i))) D k (CI 0) 0 Hk).
  - rewrite (flat2_length (fun i => CL (seq 0 (dim_or nbs args new_axes i)))
                          (fun i => CL (repeat 0 (dim_or nbs args new_axes i))) D). lia.
Qed.

(* the coordinate-set entry selected for one (index, block count) position *)
Definition entry (oc : list nat) (p : index * nat) : centry :=
  nth (if Nat.eqb (snd p) 1 then zero_pos out args nbs new_axes (fst p) else index_pos out args (fst p))
      (map CI oc ++ dummies out args nbs new_axes) (CI 0).

Lemma entry_spec oc a i n :
  length oc = length out -> In a args -> In (i, n) (cmb a) ->
  (mem_nat i D = false /\ entry oc (i, n) = CI (ref_coord out oc i n))
  \/ (mem_nat i D = true /\ entry oc (i, n) = CL [0] /\ ref_coord out oc i n = 0).
Proof.
  intros Hlen Ha Hin. unfold entry, ref_coord, zero_pos, index_pos. cbn [fst snd].
  destruct (last_index_of i out) as [p|] eqn:EL.
  - left. split.
    + apply mem_nat_false. intro HD. unfold dummies_l, dummy_indices in HD.
      apply filter_In in HD. destruct HD as [_ HD].
      apply last_index_of_In in EL. apply mem_nat_In in EL. rewrite EL in HD. discriminate.
    + destruct (Nat.eqb n 1) eqn:En.
      * unfold ncoords, dummies. set (X := flat_map _ _). rewrite app_assoc.
        replace (length out + length (X ++ [CI 0]) - 1) with (length (map CI oc ++ X))
          by (rewrite !app_length, map_length; cbn [length]; lia).
        apply nth_middle.
      * apply last_index_of_Some in EL.
        rewrite app_nth1 by (rewrite map_length, Hlen; exact EL).
        exact (map_nth CI oc 0 p).
  - right.
    assert (HD : In i D).
    { unfold dummies_l, dummy_indices. apply filter_In. split.
      - unfold all_indices. apply nodup_nat_In. apply in_flat_map. exists a.
        split; [exact Ha|]. eapply in_combine_l; exact Hin.
      - apply last_index_of_None in EL. apply mem_nat_false in EL. rewrite EL. reflexivity. }
    assert (Hm : mem_nat i D = true) by (apply mem_nat_In; exact HD).
    assert (Hn1 : n = 1) by (eapply nb_one; eauto). subst n. cbn [Nat.eqb].
    destruct (index_of_In _ _ HD) as [k Hk]. rewrite Hk.
    apply index_of_Some in Hk. destruct Hk as [Hk Hnth].
    split; [exact Hm|]. split; [|reflexivity].
    rewrite app_nth2 by (rewrite map_length; lia). rewrite map_length.
    replace (2 * k + 1 + length out - length oc) with (2 * k + 1) by lia.
    rewrite dummies_nth_odd by exact Hk. unfold index in *. rewrite Hnth.
    rewrite (dim_or_one a i 1 Ha Hin HD). reflexivity.
Qed.

Lemma entry_good oc a :
  length oc = length out -> In a args ->
  forall x, In x (cmb a) ->
    entry oc x = CI (ref_coord out oc (fst x) (snd x))
    \/ (entry oc x = CL [0] /\ ref_coord out oc (fst x) (snd x) = 0).
Proof.
  intros Hlen Ha [i n] Hin. cbn [fst snd].
  destruct (entry_spec oc a i n Hlen Ha Hin) as [[_ E]|[_ [E E0]]]; auto.
Qed.

Lemma arg_keys_eq oc a :
  arg_keys out args nbs new_axes oc a =
  match concat_axes out args a with
  | [] => LT (fst a) (map val' (map (entry oc) (cmb a)))
  | _ => lol_product (fst a) [] (map (entry oc) (cmb a))
  end.
Proof.
  unfold arg_keys, coord_map. cbv zeta.
  assert (E : forall coords posf,
    map (fun c => nth c coords (CI 0)) (map posf (cmb a))
    = map (fun p => nth (posf p) coords (CI 0)) (cmb a)) by (intros; apply map_map).
  rewrite E. reflexivity.
Qed.

Lemma arg_keys_flat oc a :
  length oc = length out -> In a args ->
  flatten_lol (arg_keys out args nbs new_axes oc a) = [ref_key out nbs oc a].
Proof.
  intros Hlen Ha. rewrite arg_keys_eq. unfold ref_key.
  pose proof (entry_good oc a Hlen Ha) as G.
  destruct (concat_axes out args a).
  - cbn [flatten_lol]. rewrite (val_map _ _ _ G). reflexivity.
  - rewrite (lol_flatten (fst a) _ _ _ [] G). reflexivity.
Qed.

Lemma flat_keys oc :
  length oc = length out ->
  flat_map flatten_lol (map (arg_keys out args nbs new_axes oc) args) = ref_kf out args nbs oc.
Proof.
  intros Hlen. unfold ref_kf. apply flat_map_single. intros a Ha. apply arg_keys_flat; assumption.
Qed.

Lemma contracted_is_ll oc a :
  length oc = length out -> In a args -> concat_axes out args a <> [] ->
  is_ll (arg_keys out args nbs new_axes oc a) = true.
Proof.
  intros Hlen Ha Hne. rewrite arg_keys_eq.
  destruct (concat_axes out args a) as [|ax l] eqn:EC; [congruence|].
  rewrite is_ll_lol. apply existsb_exists.
  destruct (concat_axes_In a ax) as [i [Hi Hm]]; [rewrite EC; left; reflexivity|].
  destruct (combine_In_l _ _ i (wf_len a Ha) Hi) as [n Hin].
  exists (entry oc (i, n)). split; [apply in_map; exact Hin|].
  destruct (entry_spec oc a i n Hlen Ha Hin) as [[Hf _]|[_ [E _]]]; [congruence|].
  rewrite E. reflexivity.
Qed.

Lemma uncontracted_not_ll oc l :
  (forall a, In a l -> concat_axes out args a = []) ->
  existsb is_ll (map (arg_keys out args nbs new_axes oc) l) = false.
Proof.
  induction l as [|a l IH]; intros Hall; [reflexivity|].
  cbn [map existsb]. rewrite arg_keys_eq, (Hall a (or_introl eq_refl)). cbn [is_ll orb].
  apply IH. intros b Hb. apply Hall. right. exact Hb.
Qed.

End Main.

(* ---- the target theorems -------------------------------------------------- *)

Lemma make_kf_inv out args nbs new_axes b f :
  make_kf out args nbs new_axes b = Ok f ->
  guard_ok out args nbs = true /\ f = flattened out args nbs new_axes b.
Proof.
  unfold make_kf. destruct (dims_ok nbs args); cbn [negb]; [|discriminate].
  destruct (guard_ok out args nbs); cbn [negb]; [|discriminate].
  intros H. inversion H. split; reflexivity.
Qed.

Theorem blockwise_kf_spec : forall out args nbs new_axes f ocoords,
  wf_args nbs args = true ->
  (forall i, In i (dummy_indices out args) -> lookup i new_axes = None) ->
  make_kf out args nbs new_axes true = Ok f ->
  length ocoords = length out ->
  f ocoords = Ok (ref_kf out args nbs ocoords).
Proof.
  intros out args nbs new_axes f oc Hwf Hnew Hmk Hlen.
  apply make_kf_inv in Hmk. destruct Hmk as [Hg Hf]. subst f.
  unfold flattened. rewrite (flat_keys out args nbs new_axes Hwf Hnew Hg oc Hlen).
  destruct (existsb is_ll (map (arg_keys out args nbs new_axes oc) args)); reflexivity.
Qed.

Theorem blockwise_kf_spec_pinned : forall out args nbs new_axes f ocoords,
  wf_args nbs args = true ->
  (forall i, In i (dummy_indices out args) -> lookup i new_axes = None) ->
  make_kf out args nbs new_axes false = Ok f ->
  length ocoords = length out ->
  (match args with a :: _ => concat_axes out args a <> [] | [] => True end
   \/ forall a, In a args -> concat_axes out args a = []) ->
  f ocoords = Ok (ref_kf out args nbs ocoords).
Proof.
  intros out args nbs new_axes f oc Hwf Hnew Hmk Hlen Hor.
  apply make_kf_inv in Hmk. destruct Hmk as [Hg Hf]. subst f.
  unfold flattened. rewrite (flat_keys out args nbs new_axes Hwf Hnew Hg oc Hlen).
  destruct Hor as [H1|H2].
  - destruct args as [|a rest]; [reflexivity|].
    cbn [map].
    rewrite (contracted_is_ll out (a :: rest) nbs new_axes Hwf Hnew Hg oc a Hlen (or_introl eq_refl) H1).
    reflexivity.
  - rewrite (uncontracted_not_ll out args nbs new_axes oc args H2).
    destruct (match map (arg_keys out args nbs new_axes oc) args with
              | [] => false | t :: _ => is_ll t end); reflexivity.
Qed.

Theorem flatten_refuted :
  exists f, make_kf [1] [(0, [1]); (1, [0; 1])] [(0, [2]); (1, [1; 2])] [] false = Ok f
            /\ f [0] = Err E_MALFORMED.
Proof. eexists. split; [vm_compute; reflexivity|vm_compute; reflexivity]. Qed.

Theorem ref_kf_names : forall out args nbs ocoords,
  map fst (ref_kf out args nbs ocoords) = map fst args.
Proof.
  intros. unfold ref_kf. rewrite map_map. apply map_ext. intros a. reflexivity.
Qed.

Print Assumptions blockwise_kf_spec.
Print Assumptions blockwise_kf_spec_pinned.
Print Assumptions flatten_refuted.
Print Assumptions ref_kf_names.
