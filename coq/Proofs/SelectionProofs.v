(* Proofs of the target statements of Specs/Selection_target.v over Model.Selection
   (C01: the concat / slice block laws). *)
From CubedV Require Import Model.Util Model.Keys Model.Selection.
From Coq Require Import List Arith Bool Lia.
Import ListNotations.

(* ---------- nat division helpers (symbolic divisor) ---------- *)

Lemma div_le_iff : forall c a q, 0 < c -> (q <= a / c <-> q * c <= a).
Proof.
  intros c a q Hc.
  pose proof (Nat.div_mod a c ltac:(lia)) as E.
  pose proof (Nat.mod_upper_bound a c ltac:(lia)) as B.
  set (q0 := a / c) in *. set (r := a mod c) in *. clearbody q0 r.
  split; intro H.
  - assert (q * c <= q0 * c) by (apply Nat.mul_le_mono_r; exact H). lia.
  - destruct (le_lt_dec q q0) as [L|L]; [exact L|exfalso].
    assert ((q0 + 1) * c <= q * c) by (apply Nat.mul_le_mono_r; lia). lia.
Qed.

Lemma div_lt_iff : forall c a q, 0 < c -> (a / c < q <-> a < q * c).
Proof.
  intros c a q Hc. pose proof (div_le_iff c a q Hc) as H. lia.
Qed.

(* ---------- proj_chunks / proj_chunk_sel / proj_out_sel ---------- *)

Theorem proj_chunks_spec : forall c s e ci, 0 < c ->
  (In ci (proj_chunks c s e) <-> (s < e /\ ci * c < e /\ s < (ci + 1) * c)).
Proof.
  intros c s e ci Hc. unfold proj_chunks.
  destruct (e <=? s) eqn:E.
  - apply Nat.leb_le in E. split; [intros []|lia].
  - apply Nat.leb_gt in E. rewrite in_seq.
    pose proof (div_lt_iff c s (ci + 1) Hc) as A.
    pose proof (div_le_iff c (e - 1) ci Hc) as B.
    pose proof (Nat.div_le_mono s (e - 1) c ltac:(lia) ltac:(lia)) as M.
    set (qs := s / c) in *. set (qe := (e - 1) / c) in *. clearbody qs qe.
    lia.
Qed.

Theorem proj_element : forall c s e x, 0 < c -> s <= x < e ->
  In (x / c) (proj_chunks c s e) /\
  fst (proj_chunk_sel c s e (x / c)) <= x - (x / c) * c < snd (proj_chunk_sel c s e (x / c)) /\
  fst (proj_out_sel c s e (x / c)) + (x - (x / c) * c - fst (proj_chunk_sel c s e (x / c))) = x - s.
Proof.
  intros c s e x Hc Hx.
  pose proof (proj1 (div_le_iff c x (x / c) Hc) (le_n _)) as A.
  pose proof (proj1 (div_lt_iff c x (x / c + 1) Hc) ltac:(lia)) as B.
  rewrite proj_chunks_spec by exact Hc.
  unfold proj_chunk_sel, proj_out_sel. cbn [fst snd].
  set (q := x / c) in *. clearbody q.
  lia.
Qed.

Theorem proj_tiles : forall c s e, 0 < c -> s < e ->
  fst (proj_out_sel c s e (s / c)) = 0 /\
  snd (proj_out_sel c s e ((e - 1) / c)) = e - s /\
  (forall ci, s / c <= ci < (e - 1) / c -> snd (proj_out_sel c s e ci) = fst (proj_out_sel c s e (ci + 1))) /\
  (forall ci, In ci (proj_chunks c s e) ->
     fst (proj_out_sel c s e ci) < snd (proj_out_sel c s e ci) /\
     snd (proj_out_sel c s e ci) - fst (proj_out_sel c s e ci) = snd (proj_chunk_sel c s e ci) - fst (proj_chunk_sel c s e ci)).
Proof.
  intros c s e Hc Hse.
  unfold proj_chunk_sel, proj_out_sel. cbn [fst snd].
  split; [|split; [|split]].
  - pose proof (proj1 (div_le_iff c s (s / c) Hc) (le_n _)) as A.
    set (q := s / c) in *. clearbody q. lia.
  - pose proof (proj1 (div_lt_iff c (e - 1) ((e - 1) / c + 1) Hc) ltac:(lia)) as B.
    set (q := (e - 1) / c) in *. clearbody q. lia.
  - intros ci [L U].
    pose proof (proj1 (div_le_iff c (e - 1) (ci + 1) Hc) ltac:(lia)) as A.
    pose proof (proj1 (div_lt_iff c s (ci + 1) Hc) ltac:(lia)) as B.
    lia.
  - intros ci Hin. apply proj_chunks_spec in Hin; [|exact Hc]. lia.
Qed.

(* ---------- offsets, bisect_pred ---------- *)

(* offsets of a concatenation: non-decreasing, starting at 0 *)
Definition offsets_ok (offsets : list nat) : Prop :=
  hd 1 offsets = 0 /\ forall i, S i < length offsets -> nth i offsets 0 <= nth (S i) offsets 0.

(* bisect_pred finds the first i whose successor offset exceeds x; this needs no order on the list,
   only that the first entry is <= x and the last one is > x *)
Lemma bisect_pred_gen : forall l o0 x, o0 <= x < last (o0 :: l) 0 ->
  S (bisect_pred (o0 :: l) x) < length (o0 :: l) /\
  nth (bisect_pred (o0 :: l) x) (o0 :: l) 0 <= x < nth (S (bisect_pred (o0 :: l) x)) (o0 :: l) 0.
Proof.
  induction l as [|o1 l IH]; intros o0 x H.
  - cbn in H. lia.
  - change (bisect_pred (o0 :: o1 :: l) x)
      with (if o1 <=? x then S (bisect_pred (o1 :: l) x) else 0).
    destruct (o1 <=? x) eqn:E.
    + apply Nat.leb_le in E.
      change (last (o0 :: o1 :: l) 0) with (last (o1 :: l) 0) in H.
      assert (H' : o1 <= x < last (o1 :: l) 0) by lia.
      specialize (IH o1 x H').
      set (i := bisect_pred (o1 :: l) x) in *. clearbody i.
      change (length (o0 :: o1 :: l)) with (S (length (o1 :: l))).
      change (nth (S i) (o0 :: o1 :: l) 0) with (nth i (o1 :: l) 0).
      change (nth (S (S i)) (o0 :: o1 :: l) 0) with (nth (S i) (o1 :: l) 0).
      lia.
    + apply Nat.leb_gt in E. cbn [length nth]. lia.
Qed.

Theorem bisect_pred_spec : forall offsets x, offsets_ok offsets -> x < last offsets 0 ->
  let i := bisect_pred offsets x in
  S i < length offsets /\ nth i offsets 0 <= x < nth (S i) offsets 0.
Proof.
  intros offsets x [Hhd _] Hx. cbv zeta.
  destruct offsets as [|o0 l]; cbn [hd] in Hhd; [discriminate|]. subst o0.
  apply bisect_pred_gen. lia.
Qed.

Lemma offsets_mono : forall offsets, offsets_ok offsets ->
  forall j i, i <= j -> j < length offsets -> nth i offsets 0 <= nth j offsets 0.
Proof.
  intros offsets [_ Hm]. induction j as [|j IH]; intros i Hij Hj.
  - assert (i = 0) by lia. subst. lia.
  - destruct (Nat.eq_dec i (S j)) as [->|Hne]; [lia|].
    specialize (IH i ltac:(lia) ltac:(lia)). specialize (Hm j Hj). lia.
Qed.

(* ---------- array_slices ---------- *)

Fixpoint contiguous (offsets : list nat) (pieces : list (nat * nat * nat)) (from : nat) : option nat :=
  match pieces with
  | [] => Some from
  | (i, lo, hi) :: rest =>
      if Nat.eqb (nth i offsets 0 + lo) from && (lo <? hi) && (nth i offsets 0 + hi <=? nth (S i) offsets 0)
      then contiguous offsets rest (nth i offsets 0 + hi) else None
  end.

Lemma array_slices_nil : forall f offsets s, array_slices f offsets s s = [].
Proof.
  intros [|f] offsets s; cbn [array_slices]; [reflexivity|].
  rewrite Nat.leb_refl. reflexivity.
Qed.

(* the array index strictly increases from piece to piece, so fuel + current index bounds the work *)
Lemma array_slices_gen : forall offsets stop, offsets_ok offsets -> stop <= last offsets 0 ->
  forall fuel start, start <= stop -> length offsets <= fuel + bisect_pred offsets start + 1 ->
  contiguous offsets (array_slices fuel offsets start stop) start = Some stop.
Proof.
  intros offsets stop Hok Hlast. induction fuel as [|f IH]; intros start Hss Hlen.
  - destruct (Nat.eq_dec start stop) as [->|Hne]; [reflexivity|exfalso].
    pose proof (bisect_pred_spec offsets start Hok ltac:(lia)) as B. cbv zeta in B. lia.
  - cbn [array_slices]. destruct (stop <=? start) eqn:E.
    + apply Nat.leb_le in E. assert (start = stop) by lia. subst. reflexivity.
    + apply Nat.leb_gt in E.
      pose proof (bisect_pred_spec offsets start Hok ltac:(lia)) as B. cbv zeta in B |- *.
      set (i := bisect_pred offsets start) in *.
      set (oi := nth i offsets 0) in *. set (oi1 := nth (S i) offsets 0) in *.
      cbn [contiguous]. fold oi oi1.
      replace (Nat.eqb (oi + (start - oi)) start) with true
        by (symmetry; apply Nat.eqb_eq; lia).
      replace (start - oi <? Nat.min stop oi1 - oi) with true
        by (symmetry; apply Nat.ltb_lt; lia).
      replace (oi + (Nat.min stop oi1 - oi) <=? oi1) with true
        by (symmetry; apply Nat.leb_le; lia).
      cbn [andb].
      replace (oi + (Nat.min stop oi1 - oi)) with (Nat.min stop oi1) by lia.
      destruct (le_lt_dec stop oi1) as [L|L].
      * replace (Nat.min stop oi1) with stop by lia.
        rewrite array_slices_nil. reflexivity.
      * replace (Nat.min stop oi1) with oi1 by lia.
        apply IH; [lia|].
        pose proof (bisect_pred_spec offsets oi1 Hok ltac:(lia)) as B'. cbv zeta in B'.
        set (i' := bisect_pred offsets oi1) in *.
        assert (S i <= i').
        { destruct (le_lt_dec (S i) i') as [G|G]; [exact G|exfalso].
          pose proof (offsets_mono offsets Hok (S i) (S i') ltac:(lia) ltac:(lia)) as M.
          fold oi1 in M. lia. }
        lia.
Qed.

Theorem array_slices_cover : forall offsets start stop fuel,
  offsets_ok offsets -> start <= stop -> stop <= last offsets 0 ->
  length offsets <= fuel ->
  contiguous offsets (array_slices fuel offsets start stop) start = Some stop.
Proof.
  intros offsets start stop fuel Hok Hss Hlast Hlen.
  apply array_slices_gen; [exact Hok|exact Hlast|exact Hss|lia].
Qed.
