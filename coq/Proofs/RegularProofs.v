(* Proofs of the targets in Specs/Regular_target.v (C12: declared chunks are truthful
   about the stored grid).  Standard library only. *)
From Coq Require Import List Arith Bool Lia PeanoNat.
From CubedV Require Import Model.Util Model.Geometry Model.Regular Proofs.GeometryProofs.
Import ListNotations.

Arguments Nat.div : simpl never.
Arguments Nat.modulo : simpl never.

Definition wf_axis (c : list nat) : Prop := (c <> [] /\ Forall (fun x => 0 < x) c) \/ c = [0].

(* ------------------------------------------------------------------ *)
(* distinct_count <= 1  <->  all entries equal                          *)
(* ------------------------------------------------------------------ *)

Lemma distinct_le1_eq : forall l, distinct_count l <= 1 ->
  forall x y, In x l -> In y l -> x = y.
Proof.
  unfold distinct_count. intros l H x y Hx Hy.
  apply (nodup_In Nat.eq_dec) in Hx. apply (nodup_In Nat.eq_dec) in Hy.
  destruct (nodup Nat.eq_dec l) as [|a [|b t]]; simpl in *.
  - contradiction.
  - destruct Hx as [<-|[]]. destruct Hy as [<-|[]]. reflexivity.
  - lia.
Qed.

Lemma all_eq_repeat : forall (a : nat) (l : list nat), (forall x, In x l -> x = a) -> l = repeat a (length l).
Proof.
  intros a l. induction l as [|b l IH]; intros H; simpl; [reflexivity|].
  rewrite (H b (or_introl eq_refl)). f_equal. apply IH. intros x Hx. apply H. right. exact Hx.
Qed.

Lemma nodup_repeat_S : forall a k, nodup Nat.eq_dec (repeat a (S k)) = [a].
Proof.
  intros a k. induction k as [|k IH].
  - reflexivity.
  - change (repeat a (S (S k))) with (a :: repeat a (S k)).
    cbn [nodup]. destruct (in_dec Nat.eq_dec a (repeat a (S k))) as [_|N].
    + exact IH.
    + exfalso. apply N. left. reflexivity.
Qed.

Lemma distinct_repeat : forall a k, distinct_count (repeat a k) <= 1.
Proof.
  intros a [|k]; unfold distinct_count.
  - simpl. lia.
  - rewrite nodup_repeat_S. simpl. lia.
Qed.

Lemma distinct_le1_iff : forall l,
  distinct_count l <= 1 <-> exists a, l = repeat a (length l).
Proof.
  intros l. split.
  - intros H. destruct l as [|b l].
    + exists 0. reflexivity.
    + exists b. apply all_eq_repeat. intros x Hx.
      apply (distinct_le1_eq _ H); [exact Hx | left; reflexivity].
  - intros [a E]. rewrite E. apply distinct_repeat.
Qed.

(* ------------------------------------------------------------------ *)
(* check_regular1 on a list split at its last element                  *)
(* ------------------------------------------------------------------ *)

Lemma cr1_single : forall r, check_regular1 [r] = true.
Proof. reflexivity. Qed.

Lemma hd_app_ne : forall (l l2 : list nat) d, l <> [] -> hd d (l ++ l2) = hd d l.
Proof. intros [|x l] l2 d H; [contradiction | reflexivity]. Qed.

Lemma cr1_snoc : forall l r, l <> [] ->
  check_regular1 (l ++ [r]) =
  if 1 <? distinct_count l then false else if hd 0 l <? r then false else true.
Proof.
  intros l r Hl. unfold check_regular1.
  rewrite app_length, removelast_last, last_last, (hd_app_ne l [r] 0 Hl).
  replace (length l + length [r] =? 1) with false; [reflexivity|].
  symmetry. apply Nat.eqb_neq. destruct l; [contradiction | simpl; lia].
Qed.

Lemma repeat_snoc : forall (a : nat) k, repeat a (S k) = repeat a k ++ [a].
Proof.
  intros a k. induction k as [|k IH]; [reflexivity|].
  simpl. f_equal. exact IH.
Qed.

Lemma repeat_S_ne : forall (a : nat) k, repeat a (S k) <> [].
Proof. intros a k. simpl. discriminate. Qed.

Lemma cr1_repeat_snoc : forall a k r, 0 < k ->
  check_regular1 (repeat a k ++ [r]) = negb (a <? r).
Proof.
  intros a [|k] r Hk; [lia|].
  rewrite cr1_snoc by apply repeat_S_ne.
  pose proof (distinct_repeat a (S k)) as D.
  destruct (Nat.ltb_spec 1 (distinct_count (repeat a (S k)))); [lia|].
  simpl hd. destruct (a <? r); reflexivity.
Qed.

(* ------------------------------------------------------------------ *)
(* targets                                                              *)
(* ------------------------------------------------------------------ *)

Theorem check_regular1_spec : forall c, c <> [] ->
  (check_regular1 c = true <-> exists a k r, c = repeat a k ++ [r] /\ (k = 0 \/ r <= a)).
Proof.
  intros c Hc. split.
  - intros H. destruct (exists_last Hc) as [l [r ->]].
    destruct l as [|b l].
    + exists 0, 0, r. split; [reflexivity | left; reflexivity].
    + rewrite cr1_snoc in H by discriminate.
      destruct (Nat.ltb_spec 1 (distinct_count (b :: l))) as [|D]; [discriminate|].
      simpl hd in H. destruct (Nat.ltb_spec b r) as [|Hr]; [discriminate|].
      exists b, (length (b :: l)), r. split; [|right; exact Hr].
      f_equal. apply all_eq_repeat. intros x Hx.
      apply (distinct_le1_eq _ D); [exact Hx | left; reflexivity].
  - intros [a [k [r [-> [->|Hr]]]]].
    + reflexivity.
    + destruct k as [|k]; [reflexivity|].
      rewrite cr1_repeat_snoc by lia.
      destruct (Nat.ltb_spec a r); [lia | reflexivity].
Qed.

Lemma Forall_pos_app_inv : forall l (r : nat),
  Forall (fun x => 0 < x) (l ++ [r]) -> Forall (fun x => 0 < x) l /\ 0 < r.
Proof.
  intros l r H. rewrite Forall_forall in H. split.
  - rewrite Forall_forall. intros x Hx. apply H. apply in_or_app. left. exact Hx.
  - apply H. apply in_or_app. right. left. reflexivity.
Qed.

Lemma regular_repeat_snoc : forall a k r, 0 < a -> 0 < r -> r <= a ->
  regular (k * a + r) a = repeat a k ++ [r].
Proof.
  intros a k r Ha Hr Hra.
  rewrite regular_pos by lia.
  destruct (Nat.eq_dec r a) as [->|Hne].
  - assert (Hq : (k * a + a) / a = S k).
    { symmetry. apply (Nat.div_unique _ a (S k) 0); lia. }
    assert (Hm : (k * a + a) mod a = 0).
    { symmetry. apply (Nat.mod_unique _ a (S k) 0); lia. }
    rewrite Hq, Hm. cbn [Nat.eqb]. rewrite app_nil_r. apply repeat_snoc.
  - assert (Hq : (k * a + r) / a = k).
    { symmetry. apply (Nat.div_unique _ a k r); lia. }
    assert (Hm : (k * a + r) mod a = r).
    { symmetry. apply (Nat.mod_unique _ a k r); lia. }
    rewrite Hq, Hm.
    destruct (Nat.eqb_spec r 0); [lia | reflexivity].
Qed.

Theorem to_chunksize_truthful1 : forall c, wf_axis c -> check_regular1 c = true ->
  stored_chunks (sumn c) (Nat.max (hd 0 c) 1) = c.
Proof.
  intros c [[Hne Hpos] | ->] H; [|reflexivity].
  unfold stored_chunks.
  apply (check_regular1_spec c Hne) in H.
  destruct H as [a [k [r [-> Hk]]]].
  apply Forall_pos_app_inv in Hpos. destruct Hpos as [Hl Hr].
  destruct k as [|k].
  - cbn [repeat app hd sumn].
    replace (Nat.max r 1) with r by lia.
    replace (r + 0) with (0 * r + r) by lia.
    apply (regular_repeat_snoc r 0 r); lia.
  - assert (Ha : 0 < a).
    { rewrite Forall_forall in Hl. apply Hl. left. reflexivity. }
    destruct Hk as [Hk|Hra]; [discriminate|].
    rewrite hd_app_ne by apply repeat_S_ne.
    cbn [repeat hd]. replace (Nat.max a 1) with a by lia.
    change (a :: repeat a k) with (repeat a (S k)).
    rewrite sumn_app, sumn_repeat. cbn [sumn].
    replace (S k * a + (r + 0)) with (S k * a + r) by lia.
    apply regular_repeat_snoc; assumption.
Qed.

Theorem to_chunksize_truthful : forall cs sz, Forall wf_axis cs -> to_chunksize cs = Some sz ->
  length sz = length cs /\
  forall i, i < length cs -> stored_chunks (sumn (nth i cs [])) (nth i sz 0) = nth i cs [].
Proof.
  intros cs sz Hwf H. unfold to_chunksize in H.
  destruct (check_regular cs) eqn:E; [|discriminate].
  cbn [negb] in H. injection H as <-. split; [apply map_length|].
  intros i Hi.
  set (f := fun c : list nat => Nat.max (hd 0 c) 1).
  rewrite (nth_indep (map f cs) 0 (f [])) by (rewrite map_length; exact Hi).
  rewrite map_nth. subst f. cbv beta.
  unfold check_regular in E. rewrite forallb_forall in E.
  rewrite Forall_forall in Hwf.
  assert (Hin : In (nth i cs []) cs) by (apply nth_In; exact Hi).
  apply to_chunksize_truthful1; [apply Hwf | apply E]; exact Hin.
Qed.

Theorem regular_passes : forall n c, 0 < c -> check_regular1 (regular n c) = true.
Proof.
  intros n c Hc. destruct (Nat.eq_dec n 0) as [->|Hn]; [reflexivity|].
  assert (Hne : regular n c <> []).
  { rewrite regular_pos by lia. destruct (n / c) as [|q] eqn:Eq.
    - pose proof (Nat.div_mod n c ltac:(lia)) as Edm. rewrite Eq in Edm.
      destruct (Nat.eqb_spec (n mod c) 0); [lia | discriminate].
    - simpl. discriminate. }
  apply (check_regular1_spec _ Hne).
  rewrite regular_pos by lia.
  destruct (Nat.eqb_spec (n mod c) 0) as [E|E].
  - destruct (n / c) as [|q] eqn:Eq.
    + pose proof (Nat.div_mod n c ltac:(lia)) as Edm. rewrite Eq in Edm. lia.
    + exists c, q, c. split; [|right; lia].
      rewrite app_nil_r. apply repeat_snoc.
  - exists c, (n / c), (n mod c). split; [reflexivity|].
    right. pose proof (Nat.mod_upper_bound n c ltac:(lia)). lia.
Qed.

Theorem larger_last_refused : forall a k r, 0 < k -> a < r ->
  check_regular1 (repeat a k ++ [r]) = false.
Proof.
  intros a k r Hk Har. rewrite cr1_repeat_snoc by exact Hk.
  destruct (Nat.ltb_spec a r); [reflexivity | lia].
Qed.

Theorem unequal_middle_refused : forall l1 x y l2 z, x <> y ->
  check_regular1 (l1 ++ x :: y :: l2 ++ [z]) = false.
Proof.
  intros l1 x y l2 z Hxy.
  replace (l1 ++ x :: y :: l2 ++ [z]) with ((l1 ++ x :: y :: l2) ++ [z])
    by (rewrite <- app_assoc; reflexivity).
  rewrite cr1_snoc by (destruct l1; discriminate).
  destruct (Nat.ltb_spec 1 (distinct_count (l1 ++ x :: y :: l2))) as [|D]; [reflexivity|].
  exfalso. apply Hxy. apply (distinct_le1_eq _ D); apply in_or_app; right.
  - left. reflexivity.
  - right. left. reflexivity.
Qed.

Theorem refusal_iff : forall cs,
  to_chunksize cs = None <-> exists c, In c cs /\ check_regular1 c = false.
Proof.
  intros cs. unfold to_chunksize, check_regular. split.
  - intros H. destruct (forallb check_regular1 cs) eqn:E; [discriminate|].
    clear H. induction cs as [|c cs IH]; [discriminate|].
    cbn [forallb] in E. apply andb_false_iff in E. destruct E as [E|E].
    + exists c. split; [left; reflexivity | exact E].
    + destruct (IH E) as [c' [Hin Hc']]. exists c'. split; [right; exact Hin | exact Hc'].
  - intros [c [Hin Hc]].
    destruct (forallb check_regular1 cs) eqn:E; [|reflexivity].
    rewrite forallb_forall in E. rewrite (E c Hin) in Hc. discriminate.
Qed.
