From CubedV Require Import Model.Util Model.Keys Model.Fusion.

Section FusionSound.
Variable B : Type.
Notation bfun := (bfun B).

(* predecessors: array name -> (key function, block function) of the op producing it *)
Variable preds : name -> option (keyfun * bfun).
Definition kd (n : name) : option keyfun := option_map fst (preds n).
Definition fd (n : name) : option bfun := option_map snd (preds n).

(* reading through the predecessors: what the successor would have read from storage *)
Definition read_through (read : key -> B) (k : key) : B :=
  match preds (fst k) with
  | Some (kfp, fp) => run_op B kfp fp read k
  | None => read k
  end.

(* a predecessor's key function names the array it was asked for *)
Definition preds_wf : Prop :=
  forall p kfp fp, preds p = Some (kfp, fp) -> forall k, fst k = p -> fst (kfp k) = p.

Lemma apply_leaf read k (Hwf : preds_wf) :
  apply_fun B fd (map_nested read (KArgs (fst (apply_ck kd k)) (snd (apply_ck kd k))))
  = VLeaf (read_through read k).
Proof.
  unfold apply_ck, kd, fd, read_through.
  destruct (preds (fst k)) as [[kfp fp]|] eqn:E; cbn.
  - rewrite (Hwf _ _ _ E k eq_refl). rewrite E. cbn. reflexivity.
  - rewrite E. cbn. reflexivity.
Qed.

Lemma apply_elem_leaf read k :
  apply_fun B fd (map_nested read (apply_elem kd (KLeaf k))) = VLeaf (read_through read k).
Proof.
  unfold apply_elem, apply_ck, kd, fd, read_through.
  destruct (preds (fst k)) as [[kfp fp]|] eqn:E; cbn; rewrite E; cbn; reflexivity.
Qed.

Lemma apply_elems read l :
  forallb is_leaf l = true ->
  map (apply_fun B fd) (map (map_nested read) (map (apply_elem kd) l))
  = map (map_nested (read_through read)) l.
Proof.
  induction l as [|a l IH]; intros H; [reflexivity|].
  cbn [forallb] in H. apply andb_prop in H. destruct H as [Ha Hl].
  destruct a as [k| | |]; try discriminate.
  cbn [map]. rewrite IH by assumption. f_equal. apply apply_elem_leaf.
Qed.

Lemma apply_arg read a (Hwf : preds_wf) :
  unfused_arg a = true ->
  apply_fun B fd (map_nested read (apply_key kd a)) = map_nested (read_through read) a.
Proof.
  destruct a as [k|l|l|o l]; intros H; try discriminate.
  - apply apply_leaf; assumption.
  - cbn. f_equal. apply apply_elems. exact H.
  - cbn. f_equal. apply apply_elems. exact H.
Qed.

(* The flagship: the fused operation computes, for every output key, exactly what the
   unfused operation computes when each predecessor's output is replaced by running
   that predecessor; and it reports the same output name.  Holds for any block type
   and any block functions, so in particular for the free term algebra: every original
   function receives the same blocks in the same list / iterator / positional structure. *)
Theorem fusion_sound (kf : keyfun) (f : bfun) (read : key -> B) (k : key) :
  preds_wf ->
  forallb unfused_arg (snd (kf k)) = true ->
  run_op B (fused_kf kf kd) (fused_fun B f fd) read k = run_op B kf f (read_through read) k
  /\ fst (fused_kf kf kd k) = fst (kf k).
Proof.
  intros Hwf Hargs. split; [|reflexivity].
  unfold run_op, fused_fun, fused_kf. cbn [snd]. f_equal.
  induction (snd (kf k)) as [|a l IH]; [reflexivity|].
  cbn [forallb] in Hargs. apply andb_prop in Hargs. destruct Hargs as [Ha Hl].
  cbn [map]. rewrite IH by assumption. f_equal. apply apply_arg; assumption.
Qed.

(* the fused key function again satisfies the predecessor side condition, so fusion
   trees of any depth are covered by iterating [fusion_sound] *)
Lemma fused_kf_names (kf : keyfun) p :
  (forall k, fst k = p -> fst (kf k) = p) ->
  forall k, fst k = p -> fst (fused_kf kf kd k) = p.
Proof. intros H k Hk. cbn. auto. Qed.

(* the fused key function reads exactly the leaves the predecessors read (or the
   original leaf when its producer is not fused) *)
End FusionSound.

Section Legacy.
Variable B : Type.
Theorem legacy_fuse_sound (kf1 kf2 : keyfun) (f1 f2 : bfun B) (read : key -> B) (k k1 : key) p :
  snd (kf2 k) = [KLeaf k1] -> fst k1 = p ->
  exists fa, legacy_fused_kf kf1 kf2 k = Some fa /\
    legacy_fused_fun B f1 f2 (map (map_nested read) (snd fa))
    = run_op B kf2 f2 (fun k' => if Nat.eqb (fst k') p then run_op B kf1 f1 read k' else read k') k.
Proof.
  intros H Hp. unfold legacy_fused_kf. rewrite H. eexists; split; [reflexivity|].
  unfold legacy_fused_fun, run_op. rewrite H. cbn. rewrite Hp, Nat.eqb_refl. reflexivity.
Qed.

(* D11: when the successor reads a list or an iterator the legacy fused key function is undefined *)
Theorem legacy_fuse_refuted (kf1 : keyfun) :
  exists kf2 k, legacy_fused_kf kf1 kf2 k = None.
Proof. exists (fun k => (fst k, [KIter [KLeaf k]])), (0, [0]). reflexivity. Qed.
End Legacy.

Lemma fused_nib_length nib preds_nibs :
  length nib = length preds_nibs ->
  length (fused_num_input_blocks nib preds_nibs) = sumn (map (@length nat) preds_nibs).
Proof.
  revert preds_nibs; induction nib as [|n nib IH]; intros [|nb rest] H; try discriminate; [reflexivity|].
  cbn. rewrite app_length, map_length. f_equal. apply IH. now inversion H.
Qed.
