(* C03, finding D25: a fused task reads all its input blocks eagerly and holds the intermediate
   results of the nested fused function.  Closed forms for the right and left folds, the refutation
   of the fuse_multiple projection as an upper bound, and a projection that is an upper bound.

   The statements are those of Specs/FusedTree_target.v.  safe_projection_bounds is FALSE of the
   model for a bare input block with rc = 0 (tree_task_peak 0 0 (FIn 1) = 2, the bound is 1: see
   safe_projection_bounds_counterexample); it is proved for every tree with an operation at the
   root (safe_projection_bounds_partial) and for every tree when 1 <= rc
   (safe_projection_bounds_rc1_partial). *)
From Coq Require Import ZArith List Lia Bool.
From CubedV Require Import Model.Util Model.Memory Model.AllocTrace.
Import ListNotations.
Local Open Scope Z_scope.

(* everything ever allocated by the task, as if nothing were released *)
Fixpoint total_alloc (t : ftree) : Z :=
  match t with
  | FIn _ => 0
  | FOp e o cs => e + o + (fix go (l : list ftree) : Z := match l with [] => 0 | c :: r => total_alloc c + go r end) cs
  end.
Fixpoint tree_ok (t : ftree) : Prop :=
  match t with
  | FIn b => 0 <= b
  | FOp e o cs => 0 <= e /\ 0 <= o /\ (fix go (l : list ftree) : Prop := match l with [] => True | c :: r => tree_ok c /\ go r end) cs
  end.

(* ------------------------------------------------------------------------- *)
(* names for the inner loops of the nested fixpoints                          *)
(* ------------------------------------------------------------------------- *)
Definition leaves_l : list ftree -> list Z :=
  fix go (l : list ftree) : list Z := match l with [] => [] | c :: r => leaves c ++ go r end.
Definition fres (c : ftree) : Z := match c with FIn _ => 0 | FOp _ o' _ => o' end.
Definition eval_l (e o : Z) : Z -> Z -> list ftree -> Z :=
  fix go (al pk : Z) (l : list ftree) : Z :=
    match l with
    | [] => Z.max pk (al + e + o)
    | c :: r => go (al + fres c) (Z.max pk (eval_peak al c)) r
    end.
Definition talloc_l : list ftree -> Z :=
  fix go (l : list ftree) : Z := match l with [] => 0 | c :: r => total_alloc c + go r end.
Definition ok_l : list ftree -> Prop :=
  fix go (l : list ftree) : Prop := match l with [] => True | c :: r => tree_ok c /\ go r end.

Lemma leaves_FOp : forall e o cs, leaves (FOp e o cs) = leaves_l cs.
Proof. reflexivity. Qed.
Lemma leaves_l_cons : forall c r, leaves_l (c :: r) = leaves c ++ leaves_l r.
Proof. reflexivity. Qed.
Lemma eval_FOp : forall a e o cs, eval_peak a (FOp e o cs) = eval_l e o a a cs.
Proof. reflexivity. Qed.
Lemma eval_l_nil : forall e o al pk, eval_l e o al pk [] = Z.max pk (al + e + o).
Proof. reflexivity. Qed.
Lemma eval_l_cons : forall e o al pk c r,
  eval_l e o al pk (c :: r) = eval_l e o (al + fres c) (Z.max pk (eval_peak al c)) r.
Proof. reflexivity. Qed.
Lemma total_alloc_FOp : forall e o cs, total_alloc (FOp e o cs) = e + o + talloc_l cs.
Proof. reflexivity. Qed.
Lemma talloc_l_cons : forall c r, talloc_l (c :: r) = total_alloc c + talloc_l r.
Proof. reflexivity. Qed.
Lemma tree_ok_FOp : forall e o cs, tree_ok (FOp e o cs) = (0 <= e /\ 0 <= o /\ ok_l cs).
Proof. reflexivity. Qed.
Lemma ok_l_cons : forall c r, ok_l (c :: r) = (tree_ok c /\ ok_l r).
Proof. reflexivity. Qed.

Lemma read_blocks_cons : forall rc a b r,
  read_blocks rc a (b :: r)
  = (Z.max (a + b * rc + b) (fst (read_blocks rc (a + b) r)), snd (read_blocks rc (a + b) r)).
Proof. intros. cbn [read_blocks]. destruct (read_blocks rc (a + b) r). reflexivity. Qed.

Lemma tree_task_peak_eq : forall rc wc t,
  tree_task_peak rc wc t
  = Z.max (Z.max (fst (read_blocks rc 0 (leaves t))) (eval_peak (snd (read_blocks rc 0 (leaves t))) t))
          (snd (read_blocks rc 0 (leaves t)) + fsize t + fsize t * wc).
Proof. intros. unfold tree_task_peak. destruct (read_blocks rc 0 (leaves t)). reflexivity. Qed.

(* induction over trees with the children handled by Forall *)
Lemma ftree_ind2 : forall (P : ftree -> Prop),
  (forall b, P (FIn b)) ->
  (forall e o cs, Forall P cs -> P (FOp e o cs)) ->
  forall t, P t.
Proof.
  intros P HIn HOp.
  exact (fix rec (t : ftree) : P t :=
           match t with
           | FIn b => HIn b
           | FOp e o cs =>
               HOp e o cs
                 ((fix go (l : list ftree) : Forall P l :=
                     match l with
                     | [] => Forall_nil P
                     | c :: r => Forall_cons c (rec c) (go r)
                     end) cs)
           end).
Qed.

(* ------------------------------------------------------------------------- *)
(* 1. the refutation                                                         *)
(* ------------------------------------------------------------------------- *)
Theorem nested_fused_refuted : tree_task_peak 1 1 (right_fold 1 3) > tree_projected 1 1 (right_fold 1 3).
Proof. vm_compute. reflexivity. Qed.

(* ------------------------------------------------------------------------- *)
(* 2. closed forms for the folds                                             *)
(* ------------------------------------------------------------------------- *)
(* the input blocks of both folds: n + 1 times (x, 0) *)
Fixpoint pairs (x : Z) (n : nat) : list Z :=
  match n with O => [x; 0] | S n' => x :: 0 :: pairs x n' end.

Lemma pairs_snoc : forall x n, pairs x n ++ [x; 0] = x :: 0 :: pairs x n.
Proof. induction n; cbn [pairs app]; [reflexivity | rewrite IHn; reflexivity]. Qed.

Lemma leaves_right_fold : forall x n, leaves (right_fold x n) = pairs x n.
Proof.
  induction n; [reflexivity|].
  change (leaves (right_fold x (S n))) with (x :: 0 :: leaves (right_fold x n) ++ []).
  rewrite app_nil_r, IHn. reflexivity.
Qed.

Lemma leaves_left_fold : forall x n, leaves (left_fold x n) = pairs x n.
Proof.
  induction n; [reflexivity|].
  change (leaves (left_fold x (S n))) with (leaves (left_fold x n) ++ [x; 0]).
  rewrite IHn, pairs_snoc. reflexivity.
Qed.

Lemma read_blocks_pairs : forall x, 0 <= x -> forall n a,
  read_blocks 1 a (pairs x n) = (a + (Z.of_nat n + 2) * x, a + (Z.of_nat n + 1) * x).
Proof.
  intros x Hx. induction n; intros a.
  - change (pairs x 0) with [x; 0]. rewrite !read_blocks_cons. cbn [read_blocks fst snd].
    f_equal; lia.
  - change (pairs x (S n)) with (x :: 0 :: pairs x n).
    rewrite !read_blocks_cons, IHn. cbn [fst snd]. rewrite Nat2Z.inj_succ.
    assert (0 <= Z.of_nat n * x) by (apply Z.mul_nonneg_nonneg; lia).
    f_equal; lia.
Qed.

Lemma eval_fterm : forall a x, 0 <= x -> eval_peak a (fterm x) = a + 2 * x.
Proof. intros. cbv [fterm eval_peak]. lia. Qed.

Lemma fres_right_fold : forall x n, fres (right_fold x n) = x.
Proof. destruct n; reflexivity. Qed.
Lemma fres_left_fold : forall x n, fres (left_fold x n) = x.
Proof. destruct n; reflexivity. Qed.
Lemma fsize_right_fold : forall x n, fsize (right_fold x n) = x.
Proof. destruct n; reflexivity. Qed.
Lemma fsize_left_fold : forall x n, fsize (left_fold x n) = x.
Proof. destruct n; reflexivity. Qed.

Lemma eval_right_fold_S : forall a x n,
  eval_peak a (right_fold x (S n))
  = Z.max (Z.max (Z.max a (eval_peak a (fterm x))) (eval_peak (a + x) (right_fold x n)))
          (a + x + fres (right_fold x n) + 0 + x).
Proof. reflexivity. Qed.

Lemma eval_right_fold : forall x, 0 <= x -> forall n a,
  eval_peak a (right_fold x n) = a + (Z.of_nat n + 2) * x.
Proof.
  intros x Hx. induction n; intros a.
  - change (right_fold x 0) with (fterm x). rewrite eval_fterm by assumption. lia.
  - rewrite eval_right_fold_S, eval_fterm, IHn, fres_right_fold, Nat2Z.inj_succ by assumption.
    assert (0 <= Z.of_nat n * x) by (apply Z.mul_nonneg_nonneg; lia).
    lia.
Qed.

Lemma eval_left_fold_S : forall a x n,
  eval_peak a (left_fold x (S n))
  = Z.max (Z.max (Z.max a (eval_peak a (left_fold x n))) (eval_peak (a + fres (left_fold x n)) (fterm x)))
          (a + fres (left_fold x n) + x + 0 + x).
Proof. reflexivity. Qed.

Lemma eval_left_fold_S_closed : forall x, 0 <= x -> forall n a,
  eval_peak a (left_fold x (S n)) = a + 3 * x.
Proof.
  intros x Hx. induction n; intros a.
  - rewrite eval_left_fold_S, fres_left_fold. change (left_fold x 0) with (fterm x).
    rewrite !eval_fterm by assumption. lia.
  - rewrite eval_left_fold_S, fres_left_fold, IHn, eval_fterm by assumption. lia.
Qed.

Theorem right_fold_peak : forall x n, 0 < x -> (1 <= n)%nat ->
  tree_task_peak 1 1 (right_fold x n) = (2 * Z.of_nat n + 3) * x.
Proof.
  intros x n Hx Hn.
  rewrite tree_task_peak_eq, leaves_right_fold, read_blocks_pairs by lia. cbn [fst snd].
  rewrite eval_right_fold, fsize_right_fold by lia.
  assert (0 <= Z.of_nat n * x) by (apply Z.mul_nonneg_nonneg; lia).
  lia.
Qed.

Theorem left_fold_peak : forall x n, 0 < x -> (1 <= n)%nat ->
  tree_task_peak 1 1 (left_fold x n) = (Z.of_nat n + 4) * x.
Proof.
  intros x n Hx Hn. destruct n as [|n]; [lia|].
  rewrite tree_task_peak_eq, leaves_left_fold, read_blocks_pairs by lia. cbn [fst snd].
  rewrite eval_left_fold_S_closed, fsize_left_fold by lia.
  rewrite Nat2Z.inj_succ.
  assert (0 <= Z.of_nat n * x) by (apply Z.mul_nonneg_nonneg; lia).
  lia.
Qed.

(* the projections *)
Lemma projected_fterm : forall x, 0 <= x -> tree_projected 1 1 (fterm x) = 4 * x.
Proof.
  intros.
  cbv [fterm tree_projected fused_projected calc_projected peak_projected peak_step allocate free mm0
       fold_left fsize cur peak fst snd].
  lia.
Qed.

Lemma projected_right_fold_S : forall x n,
  tree_projected 1 1 (right_fold x (S n))
  = fused_projected (calc_projected 0 [x; fsize (right_fold x n)] 0 x 1 1)
      [(tree_projected 1 1 (fterm x), x); (tree_projected 1 1 (right_fold x n), fres (right_fold x n))].
Proof. destruct n; reflexivity. Qed.

Lemma projected_left_fold_S : forall x n,
  tree_projected 1 1 (left_fold x (S n))
  = fused_projected (calc_projected 0 [fsize (left_fold x n); x] 0 x 1 1)
      [(tree_projected 1 1 (left_fold x n), fres (left_fold x n)); (tree_projected 1 1 (fterm x), x)].
Proof. destruct n; reflexivity. Qed.

Lemma projected_right_fold_S_closed : forall x, 0 <= x -> forall n,
  tree_projected 1 1 (right_fold x (S n)) = (Z.of_nat n + 6) * x.
Proof.
  intros x Hx. induction n.
  - rewrite projected_right_fold_S, fsize_right_fold, fres_right_fold.
    change (right_fold x 0) with (fterm x). rewrite projected_fterm by assumption.
    cbv [fused_projected calc_projected peak_projected peak_step allocate free mm0 fold_left cur peak fst snd].
    lia.
  - rewrite projected_right_fold_S, fsize_right_fold, fres_right_fold, IHn, projected_fterm by assumption.
    cbv [fused_projected calc_projected peak_projected peak_step allocate free mm0 fold_left cur peak fst snd].
    rewrite Nat2Z.inj_succ.
    assert (0 <= Z.of_nat n * x) by (apply Z.mul_nonneg_nonneg; lia).
    lia.
Qed.

Lemma projected_left_fold_S_closed : forall x, 0 <= x -> forall n,
  tree_projected 1 1 (left_fold x (S n)) = 6 * x.
Proof.
  intros x Hx. induction n.
  - rewrite projected_left_fold_S, fsize_left_fold, fres_left_fold.
    change (left_fold x 0) with (fterm x). rewrite projected_fterm by assumption.
    cbv [fused_projected calc_projected peak_projected peak_step allocate free mm0 fold_left cur peak fst snd].
    lia.
  - rewrite projected_left_fold_S, fsize_left_fold, fres_left_fold, IHn, projected_fterm by assumption.
    cbv [fused_projected calc_projected peak_projected peak_step allocate free mm0 fold_left cur peak fst snd].
    lia.
Qed.

Theorem right_fold_projected : forall x n, 0 < x -> (1 <= n)%nat ->
  tree_projected 1 1 (right_fold x n) = (Z.of_nat n + 5) * x.
Proof.
  intros x n Hx Hn. destruct n as [|n]; [lia|].
  rewrite projected_right_fold_S_closed, Nat2Z.inj_succ by lia. lia.
Qed.

Theorem left_fold_projected : forall x n, 0 < x -> (1 <= n)%nat ->
  tree_projected 1 1 (left_fold x n) = 6 * x.
Proof.
  intros x n Hx Hn. destruct n as [|n]; [lia|].
  apply projected_left_fold_S_closed. lia.
Qed.

(* ------------------------------------------------------------------------- *)
(* 3. the under-projection grows with the depth of the fold                   *)
(* ------------------------------------------------------------------------- *)
Theorem fold_overrun_grows : forall x n, 0 < x -> (3 <= n)%nat ->
  tree_task_peak 1 1 (right_fold x n) - tree_projected 1 1 (right_fold x n) = (Z.of_nat n - 2) * x /\
  tree_task_peak 1 1 (left_fold x n) - tree_projected 1 1 (left_fold x n) = (Z.of_nat n - 2) * x.
Proof.
  intros x n Hx Hn.
  rewrite right_fold_peak, right_fold_projected, left_fold_peak, left_fold_projected by lia.
  split; lia.
Qed.

(* ------------------------------------------------------------------------- *)
(* 4. a projection that is an upper bound                                     *)
(* ------------------------------------------------------------------------- *)
Lemma sumz_app' : forall l1 l2, sumz (l1 ++ l2) = sumz l1 + sumz l2.
Proof. induction l1; intros; cbn [app sumz]; [lia | rewrite IHl1; lia]. Qed.

Lemma total_alloc_nonneg : forall t, tree_ok t -> 0 <= total_alloc t.
Proof.
  induction t as [b | e o cs IH] using ftree_ind2; intros Hok.
  - cbn [total_alloc]. lia.
  - rewrite tree_ok_FOp in Hok. destruct Hok as (He & Ho & Hcs). rewrite total_alloc_FOp.
    assert (0 <= talloc_l cs); [|lia].
    induction cs as [|c r IHr].
    + cbn [talloc_l]. lia.
    + rewrite talloc_l_cons. rewrite ok_l_cons in Hcs. destruct Hcs as (Hc & Hr).
      inversion IH as [|? ? Pc Pr]; subst.
      specialize (Pc Hc). specialize (IHr Pr Hr). lia.
Qed.

Lemma fres_bounds : forall t, tree_ok t -> 0 <= fres t <= total_alloc t.
Proof.
  intros t Hok. pose proof (total_alloc_nonneg t Hok) as Hn. destruct t as [b | e o cs].
  - cbn [fres total_alloc]. lia.
  - rewrite total_alloc_FOp in *. rewrite tree_ok_FOp in Hok. destruct Hok as (He & Ho & Hcs).
    cbn [fres].
    assert (0 <= talloc_l cs); [|lia].
    clear Hn. induction cs as [|c r IHr].
    + cbn [talloc_l]. lia.
    + rewrite talloc_l_cons. rewrite ok_l_cons in Hcs. destruct Hcs as (Hc & Hr).
      pose proof (total_alloc_nonneg c Hc). specialize (IHr Hr). lia.
Qed.

Lemma fsize_bounds_FOp : forall e o cs, tree_ok (FOp e o cs) -> 0 <= o <= total_alloc (FOp e o cs).
Proof. intros e o cs Hok. exact (fres_bounds (FOp e o cs) Hok). Qed.

Lemma eval_bounds : forall t, tree_ok t -> forall a, a <= eval_peak a t <= a + total_alloc t.
Proof.
  induction t as [b | e o cs IH] using ftree_ind2; intros Hok a.
  - cbn [eval_peak total_alloc]. lia.
  - rewrite tree_ok_FOp in Hok. destruct Hok as (He & Ho & Hcs).
    rewrite eval_FOp, total_alloc_FOp.
    assert (Hgo : forall al pk, pk <= eval_l e o al pk cs <= Z.max pk (al + e + o + talloc_l cs)).
    { induction cs as [|c r IHr]; intros al pk.
      - rewrite eval_l_nil. cbn [talloc_l]. lia.
      - rewrite eval_l_cons, talloc_l_cons. rewrite ok_l_cons in Hcs. destruct Hcs as (Hc & Hr).
        inversion IH as [|? ? Pc Pr]; subst.
        specialize (IHr Pr Hr (al + fres c) (Z.max pk (eval_peak al c))).
        specialize (Pc Hc al).
        pose proof (fres_bounds c Hc).
        assert (0 <= talloc_l r).
        { clear - Hr. induction r as [|c' r' IHr'].
          - cbn [talloc_l]. lia.
          - rewrite talloc_l_cons. rewrite ok_l_cons in Hr. destruct Hr as (Hc' & Hr').
            pose proof (total_alloc_nonneg c' Hc'). specialize (IHr' Hr'). lia. }
        lia. }
    specialize (Hgo a a).
    assert (0 <= talloc_l cs).
    { clear - Hcs. induction cs as [|c' r' IHr'].
      - cbn [talloc_l]. lia.
      - rewrite talloc_l_cons. rewrite ok_l_cons in Hcs. destruct Hcs as (Hc' & Hr').
        pose proof (total_alloc_nonneg c' Hc'). specialize (IHr' Hr'). lia. }
    lia.
Qed.

Lemma leaves_nonneg : forall t, tree_ok t -> Forall (fun b => 0 <= b) (leaves t).
Proof.
  induction t as [b | e o cs IH] using ftree_ind2; intros Hok.
  - cbn [leaves]. constructor; [exact Hok | constructor].
  - rewrite tree_ok_FOp in Hok. destruct Hok as (_ & _ & Hcs). rewrite leaves_FOp.
    induction cs as [|c r IHr].
    + cbn [leaves_l]. constructor.
    + rewrite leaves_l_cons. rewrite ok_l_cons in Hcs. destruct Hcs as (Hc & Hr).
      inversion IH as [|? ? Pc Pr]; subst.
      apply Forall_app. split; [apply Pc; exact Hc | apply IHr; assumption].
Qed.

Lemma read_blocks_bounds : forall rc, 0 <= rc -> forall bs, Forall (fun b => 0 <= b) bs -> forall a,
  fst (read_blocks rc a bs) <= a + sumz (map (fun b => b * (rc + 1)) bs) /\
  snd (read_blocks rc a bs) = a + sumz bs /\
  0 <= sumz bs <= sumz (map (fun b => b * (rc + 1)) bs).
Proof.
  intros rc Hrc bs Hbs. induction Hbs as [|b r Hb Hr IHr]; intros a.
  - cbn [read_blocks fst snd map sumz]. lia.
  - rewrite read_blocks_cons. cbn [fst snd map sumz].
    destruct (IHr (a + b)) as (H1 & H2 & H3).
    assert (0 <= b * rc) by (apply Z.mul_nonneg_nonneg; lia).
    rewrite H2. lia.
Qed.

(* the bound, given that input blocks plus result fit: this is what fails for a bare input block *)
Lemma safe_projection_core : forall rc wc t, 0 <= rc -> 0 <= wc -> tree_ok t ->
  0 <= fsize t ->
  sumz (leaves t) + fsize t <= sumz (map (fun b => b * (rc + 1)) (leaves t)) + total_alloc t ->
  tree_task_peak rc wc t <= sumz (map (fun b => b * (rc + 1)) (leaves t)) + total_alloc t + fsize t * wc.
Proof.
  intros rc wc t Hrc Hwc Hok Hfs Hfit.
  rewrite tree_task_peak_eq.
  destruct (read_blocks_bounds rc Hrc (leaves t) (leaves_nonneg t Hok) 0) as (H1 & H2 & H3).
  rewrite H2.
  pose proof (eval_bounds t Hok (0 + sumz (leaves t))) as He.
  pose proof (total_alloc_nonneg t Hok) as Hn.
  assert (0 <= fsize t * wc) by (apply Z.mul_nonneg_nonneg; lia).
  lia.
Qed.

(* the statement of the target is false for a bare input block when rc = 0 *)
Theorem safe_projection_bounds_counterexample :
  0 <= 0 /\ 0 <= 0 /\ tree_ok (FIn 1) /\
  tree_task_peak 0 0 (FIn 1) = 2 /\
  sumz (map (fun b => b * (0 + 1)) (leaves (FIn 1))) + total_alloc (FIn 1) + fsize (FIn 1) * 0 = 1.
Proof. cbn [tree_ok]. repeat split; try lia; vm_compute; reflexivity. Qed.

Theorem safe_projection_bounds_refuted :
  ~ (forall rc wc t, 0 <= rc -> 0 <= wc -> tree_ok t ->
     tree_task_peak rc wc t <= sumz (map (fun b => b * (rc + 1)) (leaves t)) + total_alloc t + fsize t * wc).
Proof.
  intros H. specialize (H 0 0 (FIn 1)).
  assert (Hc : tree_task_peak 0 0 (FIn 1) <= 1).
  { apply H; cbn [tree_ok]; lia. }
  revert Hc. vm_compute. intros Hc. apply Hc. reflexivity.
Qed.

(* extra condition: the root of the fused function is an operation *)
Theorem safe_projection_bounds_partial : forall rc wc e o cs, 0 <= rc -> 0 <= wc -> tree_ok (FOp e o cs) ->
  tree_task_peak rc wc (FOp e o cs)
  <= sumz (map (fun b => b * (rc + 1)) (leaves (FOp e o cs))) + total_alloc (FOp e o cs) + fsize (FOp e o cs) * wc.
Proof.
  intros rc wc e o cs Hrc Hwc Hok.
  pose proof (fsize_bounds_FOp e o cs Hok) as Ho.
  destruct (read_blocks_bounds rc Hrc _ (leaves_nonneg _ Hok) 0) as (_ & _ & H3).
  apply safe_projection_core; try assumption; cbn [fsize]; lia.
Qed.

(* extra condition: at least one read copy; then any tree, bare input blocks included *)
Theorem safe_projection_bounds_rc1_partial : forall rc wc t, 1 <= rc -> 0 <= wc -> tree_ok t ->
  tree_task_peak rc wc t <= sumz (map (fun b => b * (rc + 1)) (leaves t)) + total_alloc t + fsize t * wc.
Proof.
  intros rc wc t Hrc Hwc Hok. destruct t as [b | e o cs].
  - cbn [tree_ok] in Hok.
    apply safe_projection_core; try assumption; try lia; cbn [fsize leaves map sumz total_alloc]; try lia.
    assert (b * 1 <= b * rc) by (apply Z.mul_le_mono_nonneg_l; lia). lia.
  - apply safe_projection_bounds_partial; try assumption; lia.
Qed.

(* the weakest side condition under which the target statement holds: for a bare block b, b <= b * rc *)
Theorem safe_projection_bounds_general_partial : forall rc wc t, 0 <= rc -> 0 <= wc -> tree_ok t ->
  match t with FIn b => b <= b * rc | FOp _ _ _ => True end ->
  tree_task_peak rc wc t <= sumz (map (fun b => b * (rc + 1)) (leaves t)) + total_alloc t + fsize t * wc.
Proof.
  intros rc wc t Hrc Hwc Hok Hside. destruct t as [b | e o cs].
  - cbn [tree_ok] in Hok.
    apply safe_projection_core; try assumption; cbn [fsize leaves map sumz total_alloc]; lia.
  - apply safe_projection_bounds_partial; assumption.
Qed.

Print Assumptions nested_fused_refuted.
Print Assumptions right_fold_peak.
Print Assumptions right_fold_projected.
Print Assumptions left_fold_peak.
Print Assumptions left_fold_projected.
Print Assumptions fold_overrun_grows.
Print Assumptions safe_projection_bounds_counterexample.
Print Assumptions safe_projection_bounds_refuted.
Print Assumptions safe_projection_bounds_partial.
Print Assumptions safe_projection_bounds_rc1_partial.
Print Assumptions safe_projection_bounds_general_partial.
