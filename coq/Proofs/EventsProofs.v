(* Proofs of the target statements of Specs/Events_target.v (scheduling / callback events). *)
From CubedV Require Import Model.Util Model.Events.
From Coq Require Import Permutation.

Definition count_ev (e : ev) (l : list ev) : nat := length (filter (ev_eqb e) l).

(* ------------------------------------------------------------------------------ *)
(* reflection of the boolean helpers                                              *)
(* ------------------------------------------------------------------------------ *)
Lemma ev_eqb_spec : forall a b, reflect (a = b) (ev_eqb a b).
Proof.
  intros a b; destruct a as [| |n|n|n], b as [| |m|m|m]; simpl;
    try (constructor; congruence);
    destruct (Nat.eqb_spec n m); constructor; congruence.
Qed.

Lemma ev_eqb_refl : forall a, ev_eqb a a = true.
Proof. intros a. destruct (ev_eqb_spec a a); congruence. Qed.

Lemma ev_eqb_neq : forall a b, a <> b -> ev_eqb a b = false.
Proof. intros a b H. destruct (ev_eqb_spec a b); congruence. Qed.

Lemma mem_nat_In : forall x l, mem_nat x l = true <-> In x l.
Proof.
  induction l as [|a l IH]; simpl.
  - split; [discriminate | tauto].
  - rewrite orb_true_iff, Nat.eqb_eq, IH. intuition congruence.
Qed.

Lemma mem_nat_false : forall x l, mem_nat x l = false <-> ~ In x l.
Proof.
  intros x l. rewrite <- mem_nat_In. destruct (mem_nat x l); split; congruence.
Qed.

Lemma nodup_b_NoDup : forall l, nodup_b l = true -> NoDup l.
Proof.
  induction l as [|a l IH]; simpl; intros H.
  - constructor.
  - apply andb_true_iff in H. destruct H as [H1 H2].
    constructor; auto. apply mem_nat_false. apply negb_true_iff; exact H1.
Qed.

Lemma NoDup_app_disjoint : forall (A : Type) (l1 l2 : list A) x,
  NoDup (l1 ++ l2) -> In x l1 -> In x l2 -> False.
Proof.
  induction l1 as [|a l1 IH]; simpl; intros l2 x H H1 H2.
  - exact H1.
  - inversion H; subst. destruct H1 as [->|H1].
    + apply H4. apply in_or_app; auto.
    + eapply IH; eauto.
Qed.

Lemma NoDup_app_l : forall (A : Type) (l1 l2 : list A), NoDup (l1 ++ l2) -> NoDup l1.
Proof.
  induction l1 as [|a l1 IH]; simpl; intros l2 H.
  - constructor.
  - inversion H; subst. constructor; eauto. intro; apply H2; apply in_or_app; auto.
Qed.

Lemma NoDup_app_r : forall (A : Type) (l1 l2 : list A), NoDup (l1 ++ l2) -> NoDup l2.
Proof.
  induction l1 as [|a l1 IH]; simpl; intros l2 H; auto.
  inversion H; subst; auto.
Qed.

(* ------------------------------------------------------------------------------ *)
(* op_deps_spec                                                                   *)
(* ------------------------------------------------------------------------------ *)
Theorem op_deps_spec : forall is_op edges p b, In (p, b) (op_deps is_op edges) <->
  (is_op p = true /\ is_op b = true /\ exists a, In (p, a) edges /\ In (a, b) edges).
Proof.
  intros is_op edges p b. unfold op_deps. rewrite in_flat_map. split.
  - intros [[p' a] [H1 H2]]. simpl in H2.
    destruct (is_op p') eqn:Ep; [|destruct H2].
    apply in_flat_map in H2. destruct H2 as [[a' b'] [H3 H4]]. simpl in H4.
    destruct (Nat.eqb a a' && is_op b') eqn:E; [|destruct H4].
    destruct H4 as [H4|[]]. inversion H4; subst.
    apply andb_true_iff in E. destruct E as [E1 E2]. apply Nat.eqb_eq in E1. subst.
    repeat split; auto. exists a'; auto.
  - intros (Hp & Hb & a & H1 & H2). exists (p, a). split; auto. simpl. rewrite Hp.
    apply in_flat_map. exists (a, b). split; auto. simpl.
    rewrite Nat.eqb_refl, Hb. simpl. auto.
Qed.

(* ------------------------------------------------------------------------------ *)
(* is_topo_order_sound, is_generations_sound                                      *)
(* ------------------------------------------------------------------------------ *)
Theorem is_topo_order_sound : forall nodes edges order, is_topo_order nodes edges order = true ->
  NoDup order /\ (forall n, In n nodes <-> In n order) /\
  forall u v, In (u, v) edges -> exists i j, index_of u order = Some i /\ index_of v order = Some j /\ i < j.
Proof.
  intros nodes edges order H. unfold is_topo_order in H.
  rewrite !andb_true_iff in H. destruct H as [[[H1 H2] H3] H4].
  rewrite forallb_forall in H2, H3, H4.
  split; [apply nodup_b_NoDup; exact H1|]. split.
  - intros n; split; intros Hn.
    + apply mem_nat_In. apply H2; exact Hn.
    + apply mem_nat_In. apply H3; exact Hn.
  - intros u v Huv. specialize (H4 _ Huv). simpl in H4.
    destruct (index_of u order) as [i|]; [|discriminate].
    destruct (index_of v order) as [j|]; [|discriminate].
    exists i, j. repeat split; auto. apply Nat.ltb_lt; exact H4.
Qed.

Theorem is_generations_sound : forall nodes edges gens, is_generations nodes edges gens = true ->
  (forall n, In n nodes <-> exists g, In g gens /\ In n g) /\
  forall u v, In (u, v) edges -> exists i j, gen_index u gens = Some i /\ gen_index v gens = Some j /\ i < j.
Proof.
  intros nodes edges gens H. unfold is_generations in H.
  apply andb_true_iff in H. destruct H as [H1 H2].
  apply is_topo_order_sound in H1. destruct H1 as (_ & Hn & _).
  rewrite forallb_forall in H2. split.
  - intros n. rewrite Hn. apply in_concat.
  - intros u v Huv. specialize (H2 _ Huv). simpl in H2.
    destruct (gen_index u gens) as [i|]; [|discriminate].
    destruct (gen_index v gens) as [j|]; [|discriminate].
    exists i, j. repeat split; auto. apply Nat.ltb_lt; exact H2.
Qed.

(* ------------------------------------------------------------------------------ *)
(* count_ev                                                                       *)
(* ------------------------------------------------------------------------------ *)
Lemma count_ev_nil : forall e, count_ev e [] = 0.
Proof. reflexivity. Qed.

Lemma count_ev_cons : forall e x l,
  count_ev e (x :: l) = (if ev_eqb e x then 1 else 0) + count_ev e l.
Proof. intros e x l. unfold count_ev. simpl. destruct (ev_eqb e x); reflexivity. Qed.

Lemma count_ev_app : forall e l1 l2, count_ev e (l1 ++ l2) = count_ev e l1 + count_ev e l2.
Proof. intros e l1 l2. unfold count_ev. rewrite filter_app, app_length. reflexivity. Qed.

Lemma count_ev_notin : forall e l, ~ In e l -> count_ev e l = 0.
Proof.
  induction l as [|a l IH]; intros H; [reflexivity|].
  rewrite count_ev_cons, IH.
  - rewrite ev_eqb_neq; auto. intros ->. apply H; left; auto.
  - intro; apply H; right; auto.
Qed.

Lemma count_ev_zero : forall e l, count_ev e l = 0 -> ~ In e l.
Proof.
  induction l as [|a l IH]; intros H; [tauto|].
  rewrite count_ev_cons in H. intros [->|Hin].
  - rewrite ev_eqb_refl in H. discriminate.
  - apply IH; auto. lia.
Qed.

Lemma count_ev_repeat : forall e k, count_ev e (repeat e k) = k.
Proof.
  induction k as [|k IH]; [reflexivity|]. simpl. rewrite count_ev_cons, ev_eqb_refl, IH. reflexivity.
Qed.

Lemma count_ev_perm : forall e l1 l2, Permutation l1 l2 -> count_ev e l1 = count_ev e l2.
Proof.
  intros e l1 l2 H. induction H.
  - reflexivity.
  - rewrite !count_ev_cons. lia.
  - rewrite !count_ev_cons. lia.
  - congruence.
Qed.

(* ------------------------------------------------------------------------------ *)
(* the per-op automaton                                                           *)
(* ------------------------------------------------------------------------------ *)
(* no event of op n *)
Definition quiet (n : nat) (l : list ev) : Prop := forall e, In e l -> ev_op e <> Some n.

Lemma quiet_nil : forall n, quiet n [].
Proof. intros n e []. Qed.

Lemma quiet_cons : forall n a l, ev_op a <> Some n -> quiet n l -> quiet n (a :: l).
Proof. intros n a l Ha Hl e [<-|He]; auto. Qed.

Lemma quiet_app : forall n l1 l2, quiet n l1 -> quiet n l2 -> quiet n (l1 ++ l2).
Proof. intros n l1 l2 H1 H2 e He. apply in_app_or in He. destruct He; auto. Qed.

Lemma quiet_count : forall n l, quiet n l ->
  count_ev (EOS n) l = 0 /\ count_ev (EOE n) l = 0 /\ count_ev (ETE n) l = 0.
Proof.
  intros n l H. repeat split; apply count_ev_notin; intros Hin; apply (H _ Hin); reflexivity.
Qed.

Lemma step_quiet : forall n s e, ev_op e <> Some n -> step_op n s e = s.
Proof.
  intros n s e H. destruct e as [| |m|m|m]; simpl; auto;
    destruct (Nat.eqb_spec m n); subst; simpl in H; congruence.
Qed.

Lemma fold_quiet : forall n l s, quiet n l -> fold_left (step_op n) l s = s.
Proof.
  induction l as [|a l IH]; simpl; intros s H; auto.
  rewrite step_quiet.
  - apply IH. intros e He; apply H; right; auto.
  - apply H; left; auto.
Qed.

Lemma fold_bad : forall n l, fold_left (step_op n) l Bad = Bad.
Proof.
  induction l as [|a l IH]; simpl; auto.
  replace (step_op n Bad a) with Bad; auto.
  destruct a as [| |m|m|m]; simpl; auto; destruct (Nat.eqb m n); auto.
Qed.

Lemma fold_repeat : forall n k c,
  fold_left (step_op n) (repeat (ETE n) k) (Started c) = Started (c + k).
Proof.
  induction k as [|k IH]; simpl; intros c.
  - f_equal; lia.
  - rewrite Nat.eqb_refl, IH. f_equal; lia.
Qed.

Lemma fold_ete : forall n l c, (forall e, In e l -> exists m, e = ETE m) ->
  fold_left (step_op n) l (Started c) = Started (c + count_ev (ETE n) l).
Proof.
  induction l as [|a l IH]; intros c H.
  - simpl. rewrite count_ev_nil. f_equal; lia.
  - destruct (H a (or_introl eq_refl)) as [m ->]. rewrite count_ev_cons. simpl.
    assert (Hl : forall e, In e l -> exists m, e = ETE m) by (intros e He; apply H; right; auto).
    destruct (Nat.eqb_spec m n).
    + subst. rewrite Nat.eqb_refl, IH; auto. f_equal; lia.
    + destruct (Nat.eqb_spec n m); [congruence|]. rewrite IH; auto.
Qed.

Lemma ev_op_cases : forall n a, ev_op a <> Some n \/ a = EOS n \/ a = EOE n \/ a = ETE n.
Proof.
  intros n a. destruct a as [| |m|m|m]; simpl; try (left; congruence);
    destruct (Nat.eq_dec m n); subst; auto; left; congruence.
Qed.

Lemma ev_op_neq : forall n a, ev_op a <> Some n -> a <> EOS n /\ a <> EOE n /\ a <> ETE n.
Proof. intros n a H. repeat split; intros ->; apply H; reflexivity. Qed.

Lemma from_ended : forall n l c c',
  fold_left (step_op n) l (Ended c) = Ended c' -> c' = c /\ quiet n l.
Proof.
  induction l as [|a l IH]; simpl; intros c c' H.
  - inversion H; split; auto. apply quiet_nil.
  - destruct (ev_op_cases n a) as [Ha|[ -> |[ -> | -> ]]].
    + rewrite step_quiet in H by exact Ha. apply IH in H. destruct H; split; auto.
      apply quiet_cons; auto.
    + simpl in H. rewrite Nat.eqb_refl, fold_bad in H. discriminate.
    + simpl in H. rewrite Nat.eqb_refl, fold_bad in H. discriminate.
    + simpl in H. rewrite Nat.eqb_refl, fold_bad in H. discriminate.
Qed.

Lemma from_started : forall n l c c',
  fold_left (step_op n) l (Started c) = Ended c' ->
  exists l2 l3, l = l2 ++ EOE n :: l3 /\
    ~ In (EOS n) l2 /\ ~ In (EOE n) l2 /\
    c' = c + count_ev (ETE n) l2 /\ quiet n l3.
Proof.
  induction l as [|a l IH]; simpl; intros c c' H.
  - discriminate.
  - destruct (ev_op_cases n a) as [Ha|[ -> |[ -> | -> ]]].
    + rewrite step_quiet in H by exact Ha. apply IH in H.
      destruct H as (l2 & l3 & -> & H1 & H2 & H3 & H4).
      destruct (ev_op_neq _ _ Ha) as (N1 & N2 & N3).
      exists (a :: l2), l3. repeat split; auto.
      * intros [E|E]; auto.
      * intros [E|E]; auto.
      * rewrite count_ev_cons, ev_eqb_neq by congruence. exact H3.
    + simpl in H. rewrite Nat.eqb_refl, fold_bad in H. discriminate.
    + simpl in H. rewrite Nat.eqb_refl in H. apply from_ended in H. destruct H as [-> Hq].
      exists [], l. repeat split; auto; rewrite count_ev_nil; lia.
    + simpl in H. rewrite Nat.eqb_refl in H. apply IH in H.
      destruct H as (l2 & l3 & -> & H1 & H2 & H3 & H4).
      exists (ETE n :: l2), l3. repeat split; auto.
      * intros [E|E]; [discriminate|auto].
      * intros [E|E]; [discriminate|auto].
      * rewrite count_ev_cons, ev_eqb_refl. lia.
Qed.

Lemma from_notstarted : forall n l c',
  fold_left (step_op n) l NotStarted = Ended c' ->
  exists l1 l2 l3, l = l1 ++ EOS n :: l2 ++ EOE n :: l3 /\
    quiet n l1 /\ ~ In (EOS n) l2 /\ ~ In (EOE n) l2 /\
    c' = count_ev (ETE n) l2 /\ quiet n l3.
Proof.
  induction l as [|a l IH]; simpl; intros c' H.
  - discriminate.
  - destruct (ev_op_cases n a) as [Ha|[ -> |[ -> | -> ]]].
    + rewrite step_quiet in H by exact Ha. apply IH in H.
      destruct H as (l1 & l2 & l3 & -> & H1 & H2 & H3 & H4 & H5).
      exists (a :: l1), l2, l3. repeat split; auto. apply quiet_cons; auto.
    + simpl in H. rewrite Nat.eqb_refl in H. apply from_started in H.
      destruct H as (l2 & l3 & -> & H1 & H2 & H3 & H4).
      exists [], l2, l3. repeat split; auto. apply quiet_nil.
    + simpl in H. rewrite Nat.eqb_refl, fold_bad in H. discriminate.
    + simpl in H. rewrite Nat.eqb_refl, fold_bad in H. discriminate.
Qed.

(* ------------------------------------------------------------------------------ *)
(* events_ok: introduction and elimination                                        *)
(* ------------------------------------------------------------------------------ *)
Lemma events_ok_intro : forall nt body,
  (forall e, In e body -> exists n, ev_op e = Some n /\ In n (map fst nt)) ->
  (forall p, In p nt -> op_ok (fst p) (snd p) body = true) ->
  events_ok nt (ECS :: body ++ [ECE]) = true.
Proof.
  intros nt body H1 H2. unfold events_ok. rewrite rev_app_distr. simpl. rewrite rev_involutive.
  apply andb_true_iff; split; apply forallb_forall.
  - intros e He. destruct (H1 e He) as (n & -> & Hn). apply mem_nat_In; auto.
  - auto.
Qed.

Lemma events_ok_elim : forall nt trace, events_ok nt trace = true ->
  exists body, trace = ECS :: body ++ [ECE] /\
    (forall e, In e body -> exists n, ev_op e = Some n /\ In n (map fst nt)) /\
    (forall p, In p nt -> op_ok (fst p) (snd p) body = true).
Proof.
  unfold events_ok. intros nt trace H.
  destruct trace as [|[| |?|?|?] rest]; try discriminate.
  destruct (rev rest) as [|[| |?|?|?] rbody] eqn:E; try discriminate.
  exists (rev rbody). apply andb_true_iff in H. destruct H as [H1 H2].
  rewrite forallb_forall in H1, H2. repeat split.
  - f_equal. rewrite <- (rev_involutive rest), E. reflexivity.
  - intros e He. specialize (H1 e He). destruct (ev_op e) as [n|]; [|discriminate].
    exists n; split; auto. apply mem_nat_In; auto.
  - auto.
Qed.

Theorem events_ok_sound : forall nt trace, events_ok nt trace = true ->
  exists body, trace = ECS :: body ++ [ECE] /\
    (forall e, In e body -> e <> ECS /\ e <> ECE) /\
    (forall e n, In e body -> ev_op e = Some n -> In n (map fst nt)) /\
    forall n k, In (n, k) nt ->
      count_ev (EOS n) body = 1 /\ count_ev (EOE n) body = 1 /\ count_ev (ETE n) body = k /\
      exists l1 l2 l3, body = l1 ++ EOS n :: l2 ++ EOE n :: l3 /\
        count_ev (ETE n) l1 = 0 /\ count_ev (ETE n) l3 = 0.
Proof.
  intros nt trace H. apply events_ok_elim in H. destruct H as (body & -> & H1 & H2).
  exists body. split; [reflexivity|]. split; [|split].
  - intros e He. destruct (H1 e He) as (n & Hn & _). split; intros ->; discriminate.
  - intros e n He Hn. destruct (H1 e He) as (n' & Hn' & Hin). congruence.
  - intros n k Hin. specialize (H2 _ Hin). simpl in H2. unfold op_ok in H2.
    destruct (fold_left (step_op n) body NotStarted) as [|c|c|] eqn:E; try discriminate.
    apply Nat.eqb_eq in H2. subst c.
    apply from_notstarted in E.
    destruct E as (l1 & l2 & l3 & -> & Q1 & N1 & N2 & Hk & Q3).
    destruct (quiet_count _ _ Q1) as (A1 & A2 & A3).
    destruct (quiet_count _ _ Q3) as (B1 & B2 & B3).
    apply count_ev_notin in N1. apply count_ev_notin in N2.
    repeat split.
    + rewrite !count_ev_app, !count_ev_cons, !count_ev_app, !count_ev_cons, ev_eqb_refl.
      simpl (ev_eqb (EOS n) (EOE n)). cbv iota. lia.
    + rewrite !count_ev_app, !count_ev_cons, !count_ev_app, !count_ev_cons, ev_eqb_refl.
      simpl (ev_eqb (EOE n) (EOS n)). cbv iota. lia.
    + rewrite !count_ev_app, !count_ev_cons, !count_ev_app, !count_ev_cons.
      simpl (ev_eqb (ETE n) (EOS n)). simpl (ev_eqb (ETE n) (EOE n)). cbv iota. lia.
    + exists l1, l2, l3. repeat split; auto.
Qed.

(* ------------------------------------------------------------------------------ *)
(* the executors produce accepted traces                                          *)
(* ------------------------------------------------------------------------------ *)
Lemma op_ok_sandwich : forall n k A B C, quiet n A -> quiet n C ->
  fold_left (step_op n) B NotStarted = Ended k -> op_ok n k (A ++ B ++ C) = true.
Proof.
  intros n k A B C HA HC HB. unfold op_ok.
  rewrite !fold_left_app, (fold_quiet n A) by exact HA. rewrite HB.
  rewrite (fold_quiet n C) by exact HC. apply Nat.eqb_refl.
Qed.

Lemma in_op_block : forall e p, In e (op_block p) -> ev_op e = Some (fst p).
Proof.
  intros e p. unfold op_block. simpl. intros [<-|H]; auto.
  apply in_app_or in H. destruct H as [H|[<-|[]]]; auto.
  apply repeat_spec in H; subst; auto.
Qed.

Lemma in_seq_body : forall e ops, In e (flat_map op_block ops) ->
  exists p, In p ops /\ ev_op e = Some (fst p).
Proof.
  intros e ops H. apply in_flat_map in H. destruct H as (p & Hp & He).
  exists p; split; auto. apply in_op_block; auto.
Qed.

Lemma quiet_seq_body : forall n ops, ~ In n (map fst ops) -> quiet n (flat_map op_block ops).
Proof.
  intros n ops H e He E. apply in_seq_body in He. destruct He as (p & Hp & Hop).
  apply H. apply in_map_iff. exists p; split; auto. congruence.
Qed.

Lemma fold_op_block : forall n k, fold_left (step_op n) (op_block (n, k)) NotStarted = Ended k.
Proof.
  intros n k. unfold op_block. simpl. rewrite Nat.eqb_refl, fold_left_app, fold_repeat.
  simpl. rewrite Nat.eqb_refl. reflexivity.
Qed.

Theorem seq_trace_ok : forall ops, NoDup (map fst ops) -> events_ok ops (seq_trace ops) = true.
Proof.
  intros ops ND. unfold seq_trace. apply events_ok_intro.
  - intros e He. apply in_seq_body in He. destruct He as (p & Hp & Hop).
    exists (fst p); split; auto. apply in_map; auto.
  - intros [n k] Hp. simpl. apply in_split in Hp. destruct Hp as (o1 & o2 & ->).
    rewrite map_app in ND. simpl in ND. apply NoDup_remove_2 in ND.
    rewrite flat_map_app.
    change (flat_map op_block ((n, k) :: o2)) with (op_block (n, k) ++ flat_map op_block o2).
    apply op_ok_sandwich.
    + apply quiet_seq_body. intro; apply ND; apply in_or_app; auto.
    + apply quiet_seq_body. intro; apply ND; apply in_or_app; auto.
    + apply fold_op_block.
Qed.

(* body of a generation-parallel trace *)
Definition pbody (gens : list (list (nat * nat) * list ev)) : list ev :=
  flat_map (fun gi => gen_block (fst gi) (snd gi)) gens.

Lemma in_gen_expected : forall e g, In e (gen_expected g) -> exists p, In p g /\ e = ETE (fst p).
Proof.
  intros e g H. unfold gen_expected in H. apply in_flat_map in H. destruct H as (p & Hp & He).
  exists p; split; auto. apply repeat_spec in He; auto.
Qed.

Lemma in_gen_block : forall e g inter, In e (gen_block g inter) ->
  (exists p, In p g /\ (e = EOS (fst p) \/ e = EOE (fst p))) \/ In e inter.
Proof.
  intros e g inter H. unfold gen_block in H.
  apply in_app_or in H. destruct H as [H|H].
  - apply in_map_iff in H. destruct H as (p & <- & Hp). left; exists p; auto.
  - apply in_app_or in H. destruct H as [H|H]; auto.
    apply in_map_iff in H. destruct H as (p & <- & Hp). left; exists p; auto.
Qed.

Lemma in_gen_block_perm : forall e g inter, Permutation inter (gen_expected g) ->
  In e (gen_block g inter) -> exists p, In p g /\ ev_op e = Some (fst p).
Proof.
  intros e g inter HP H. apply in_gen_block in H. destruct H as [(p & Hp & [->| ->])|H].
  - exists p; auto.
  - exists p; auto.
  - apply (Permutation_in _ HP) in H. apply in_gen_expected in H.
    destruct H as (p & Hp & ->). exists p; auto.
Qed.

Lemma in_pbody_perm : forall e gens,
  (forall gi, In gi gens -> Permutation (snd gi) (gen_expected (fst gi))) ->
  In e (pbody gens) -> exists p, In p (concat (map fst gens)) /\ ev_op e = Some (fst p).
Proof.
  intros e gens HP H. unfold pbody in H. apply in_flat_map in H. destruct H as (gi & Hgi & He).
  apply in_gen_block_perm in He; auto. destruct He as (p & Hp & Hop).
  exists p; split; auto. apply in_concat. exists (fst gi); split; auto. apply in_map; auto.
Qed.

Lemma quiet_pbody : forall n gens,
  (forall gi, In gi gens -> Permutation (snd gi) (gen_expected (fst gi))) ->
  ~ In n (map fst (concat (map fst gens))) -> quiet n (pbody gens).
Proof.
  intros n gens HP H e He E. apply in_pbody_perm in He; auto. destruct He as (p & Hp & Hop).
  apply H. apply in_map_iff. exists p; split; auto. congruence.
Qed.

Lemma quiet_map_EOS : forall n (g : list (nat * nat)), ~ In n (map fst g) ->
  quiet n (map (fun p => EOS (fst p)) g).
Proof.
  intros n g H e He E. apply in_map_iff in He. destruct He as (p & <- & Hp).
  apply H. apply in_map_iff. exists p; split; auto. simpl in E; congruence.
Qed.

Lemma quiet_map_EOE : forall n (g : list (nat * nat)), ~ In n (map fst g) ->
  quiet n (map (fun p => EOE (fst p)) g).
Proof.
  intros n g H e He E. apply in_map_iff in He. destruct He as (p & <- & Hp).
  apply H. apply in_map_iff. exists p; split; auto. simpl in E; congruence.
Qed.

Lemma count_gen_expected_notin : forall n g, ~ In n (map fst g) -> count_ev (ETE n) (gen_expected g) = 0.
Proof.
  intros n g H. apply count_ev_notin. intros Hin. apply in_gen_expected in Hin.
  destruct Hin as (p & Hp & E). apply H. apply in_map_iff. exists p; split; auto. congruence.
Qed.

Lemma fold_gen_block : forall n k g inter,
  NoDup (map fst g) -> In (n, k) g -> Permutation inter (gen_expected g) ->
  fold_left (step_op n) (gen_block g inter) NotStarted = Ended k.
Proof.
  intros n k g inter ND Hin HP.
  assert (Hete : forall e, In e inter -> exists m, e = ETE m).
  { intros e He. apply (Permutation_in _ HP) in He. apply in_gen_expected in He.
    destruct He as (p & _ & ->). eauto. }
  assert (Hcnt : count_ev (ETE n) inter = k).
  { rewrite (count_ev_perm _ _ _ HP). clear HP Hete.
    apply in_split in Hin. destruct Hin as (g1 & g2 & ->).
    rewrite map_app in ND. simpl in ND. apply NoDup_remove_2 in ND.
    unfold gen_expected. rewrite flat_map_app. simpl.
    rewrite !count_ev_app, count_ev_repeat.
    fold (gen_expected g1). fold (gen_expected g2).
    rewrite !count_gen_expected_notin; [lia| |]; intro; apply ND; apply in_or_app; auto. }
  apply in_split in Hin. destruct Hin as (g1 & g2 & ->).
  rewrite map_app in ND. simpl in ND. apply NoDup_remove_2 in ND.
  assert (N1 : ~ In n (map fst g1)) by (intro; apply ND; apply in_or_app; auto).
  assert (N2 : ~ In n (map fst g2)) by (intro; apply ND; apply in_or_app; auto).
  unfold gen_block. rewrite !map_app. simpl.
  rewrite !fold_left_app. simpl.
  rewrite (fold_quiet n (map (fun p => EOS (fst p)) g1)) by (apply quiet_map_EOS; auto).
  rewrite Nat.eqb_refl.
  rewrite (fold_quiet n (map (fun p => EOS (fst p)) g2)) by (apply quiet_map_EOS; auto).
  rewrite fold_ete by exact Hete. rewrite Hcnt.
  rewrite (fold_quiet n (map (fun p => EOE (fst p)) g1)) by (apply quiet_map_EOE; auto).
  rewrite fold_quiet by (apply quiet_map_EOE; auto). reflexivity.
Qed.

Theorem par_trace_ok : forall gens,
  NoDup (map fst (concat (map fst gens))) ->
  (forall gi, In gi gens -> Permutation (snd gi) (gen_expected (fst gi))) ->
  events_ok (concat (map fst gens)) (par_trace gens) = true.
Proof.
  intros gens ND HP. unfold par_trace. fold (pbody gens). apply events_ok_intro.
  - intros e He. apply in_pbody_perm in He; auto. destruct He as (p & Hp & Hop).
    exists (fst p); split; auto. apply in_map; auto.
  - intros [n k] Hp. simpl. apply in_concat in Hp. destruct Hp as (g & Hg & Hin).
    apply in_map_iff in Hg. destruct Hg as (gi & <- & Hgi).
    assert (HPi := HP _ Hgi).
    apply in_split in Hgi. destruct Hgi as (G1 & G2 & ->).
    rewrite map_app, concat_app in ND. simpl in ND. rewrite !map_app in ND.
    assert (Hn : In n (map fst (fst gi))) by (apply in_map_iff; exists (n, k); auto).
    assert (N1 : ~ In n (map fst (concat (map fst G1)))).
    { intro H1. eapply NoDup_app_disjoint; [exact ND|exact H1|]. apply in_or_app; auto. }
    apply NoDup_app_r in ND.
    assert (N2 : ~ In n (map fst (concat (map fst G2)))).
    { intro H2. eapply NoDup_app_disjoint; [exact ND|exact Hn|exact H2]. }
    apply NoDup_app_l in ND.
    unfold pbody. rewrite flat_map_app.
    change (flat_map (fun gj => gen_block (fst gj) (snd gj)) (gi :: G2))
      with (gen_block (fst gi) (snd gi) ++ pbody G2).
    fold (pbody G1).
    apply op_ok_sandwich.
    + apply quiet_pbody; auto. intros gj Hj; apply HP; apply in_or_app; auto.
    + apply quiet_pbody; auto. intros gj Hj; apply HP; apply in_or_app; right; right; auto.
    + apply fold_gen_block; auto.
Qed.

(* ------------------------------------------------------------------------------ *)
(* ev_index and the shape of a barrier entry                                      *)
(* ------------------------------------------------------------------------------ *)
Lemma ev_index_some_in : forall e l i, ev_index e l = Some i -> In e l.
Proof.
  induction l as [|a l IH]; simpl; intros i H.
  - discriminate.
  - destruct (ev_eqb_spec e a); [left; auto|]. right.
    destruct (ev_index e l) as [i'|]; [eapply IH; eauto | discriminate].
Qed.

Lemma ev_index_in_lt : forall e l, In e l -> exists i, ev_index e l = Some i /\ i < length l.
Proof.
  induction l as [|a l IH]; simpl; intros H.
  - destruct H.
  - destruct (ev_eqb_spec e a).
    + exists 0; split; auto; lia.
    + destruct H as [->|H]; [congruence|]. destruct (IH H) as (i & -> & Hi).
      exists (S i); split; auto. lia.
Qed.

Lemma ev_index_app_l : forall e X Y i, ev_index e X = Some i -> ev_index e (X ++ Y) = Some i.
Proof.
  induction X as [|a X IH]; simpl; intros Y i H.
  - discriminate.
  - destruct (ev_eqb e a); auto.
    destruct (ev_index e X) as [i'|] eqn:E; [|discriminate].
    rewrite (IH Y i' eq_refl). exact H.
Qed.

Lemma ev_index_app_r : forall e X Y, ~ In e X ->
  ev_index e (X ++ Y) = option_map (fun i => length X + i) (ev_index e Y).
Proof.
  induction X as [|a X IH]; simpl; intros Y H.
  - destruct (ev_index e Y); reflexivity.
  - rewrite ev_eqb_neq by (intros ->; apply H; auto).
    rewrite IH by tauto. destruct (ev_index e Y); reflexivity.
Qed.

Lemma ev_index_mid : forall e X Y, ~ In e X -> ev_index e (X ++ e :: Y) = Some (length X).
Proof.
  intros e X Y H. rewrite ev_index_app_r by exact H. simpl. rewrite ev_eqb_refl. simpl.
  f_equal; lia.
Qed.

Lemma barrier_entry : forall trace p b,
  (In (EOE p) trace -> In (EOS b) trace ->
   exists X Y, trace = X ++ Y /\ In (EOE p) X /\ ~ In (EOS b) X) ->
  match ev_index (EOE p) trace, ev_index (EOS b) trace with
  | Some i, Some j => i <? j
  | None, _ => true
  | _, None => true
  end = true.
Proof.
  intros trace p b H.
  destruct (ev_index (EOE p) trace) as [i|] eqn:Ei; auto.
  destruct (ev_index (EOS b) trace) as [j|] eqn:Ej; auto.
  destruct (H (ev_index_some_in _ _ _ Ei) (ev_index_some_in _ _ _ Ej)) as (X & Y & -> & HX & HN).
  destruct (ev_index_in_lt _ _ HX) as (i' & Hi' & Hlt).
  rewrite (ev_index_app_l _ _ Y _ Hi') in Ei. inversion Ei; subst.
  rewrite ev_index_app_r in Ej by exact HN.
  destruct (ev_index (EOS b) Y); simpl in Ej; inversion Ej.
  apply Nat.ltb_lt. lia.
Qed.

(* ------------------------------------------------------------------------------ *)
(* seq_barrier                                                                    *)
(* ------------------------------------------------------------------------------ *)
Lemma index_of_some_in : forall x l i, index_of x l = Some i -> In x l.
Proof.
  induction l as [|a l IH]; simpl; intros i H.
  - discriminate.
  - destruct (Nat.eqb_spec x a); [left; auto|]. right.
    destruct (index_of x l) as [i'|]; [eapply IH; eauto | discriminate].
Qed.

Lemma index_before : forall x y l i j,
  index_of x l = Some i -> index_of y l = Some j -> i < j ->
  exists A B C, l = A ++ x :: B ++ y :: C.
Proof.
  induction l as [|a l IH]; simpl; intros i j Hi Hj Hlt.
  - discriminate.
  - destruct (Nat.eqb_spec x a).
    + subst a. inversion Hi; subst i.
      destruct (Nat.eqb_spec y x); [inversion Hj; lia|].
      destruct (index_of y l) as [j'|] eqn:E; [|discriminate].
      apply index_of_some_in in E. apply in_split in E. destruct E as (B & C & ->).
      exists [], B, C. reflexivity.
    + destruct (index_of x l) as [i'|] eqn:Ei; [|discriminate].
      simpl in Hi. inversion Hi; subst i.
      destruct (Nat.eqb_spec y a); [inversion Hj; lia|].
      destruct (index_of y l) as [j'|] eqn:Ej; [|discriminate].
      simpl in Hj. inversion Hj; subst j.
      destruct (IH i' j' eq_refl eq_refl) as (A & B & C & ->); [lia|].
      exists (a :: A), B, C. reflexivity.
Qed.

Lemma map_fst_pairing : forall (ntasks : nat -> nat) l, map fst (map (fun n => (n, ntasks n)) l) = l.
Proof. intros ntasks l. rewrite map_map. simpl. apply map_id. Qed.

Lemma seq_body_op_in : forall e n ops, In e (flat_map op_block ops) -> ev_op e = Some n ->
  In n (map fst ops).
Proof.
  intros e n ops H E. apply in_seq_body in H. destruct H as (p & Hp & Hop).
  apply in_map_iff. exists p; split; auto. congruence.
Qed.

Lemma seq_trace_op_in : forall e n ops, In e (seq_trace ops) -> ev_op e = Some n ->
  In n (map fst ops).
Proof.
  intros e n ops H E. unfold seq_trace in H. simpl in H. destruct H as [<-|H]; [discriminate|].
  apply in_app_or in H. destruct H as [H|[<-|[]]]; [|discriminate].
  eapply seq_body_op_in; eauto.
Qed.

Lemma seq_body_end_intro : forall n ops, In n (map fst ops) -> In (EOE n) (flat_map op_block ops).
Proof.
  intros n ops H. apply in_map_iff in H. destruct H as (p & <- & Hp).
  apply in_flat_map. exists p; split; auto. unfold op_block. right. apply in_or_app. right. left; auto.
Qed.

Theorem seq_barrier : forall nodes edges order is_op skip (ntasks : nat -> nat),
  is_topo_order nodes edges order = true ->
  barrier_ok (op_deps is_op edges)
    (seq_trace (map (fun n => (n, ntasks n)) (visit_nodes skip order))) = true.
Proof.
  intros nodes edges order is_op skip ntasks H.
  apply is_topo_order_sound in H. destruct H as (ND & _ & HE).
  unfold barrier_ok. apply forallb_forall. intros [p b] Hd. simpl fst; simpl snd.
  apply op_deps_spec in Hd. destruct Hd as (_ & _ & a & H1 & H2).
  destruct (HE _ _ H1) as (i & j & Hi & Hj & Hij).
  destruct (HE _ _ H2) as (j' & k & Hj' & Hk & Hjk).
  rewrite Hj in Hj'. inversion Hj'; subst j'.
  destruct (index_before p b order i k Hi Hk) as (A & B & C & ->); [lia|].
  apply barrier_entry. intros Hp Hb.
  apply seq_trace_op_in with (n := p) in Hp; [|reflexivity].
  apply seq_trace_op_in with (n := b) in Hb; [|reflexivity].
  rewrite map_fst_pairing in Hp, Hb. unfold visit_nodes in Hp, Hb.
  apply filter_In in Hp. destruct Hp as [_ Hp]. apply filter_In in Hb. destruct Hb as [_ Hb].
  apply (NoDup_filter (fun n => negb (skip n))) in ND.
  unfold visit_nodes. revert ND.
  rewrite filter_app. simpl. rewrite Hp. rewrite filter_app. simpl. rewrite Hb.
  set (A' := filter (fun n => negb (skip n)) A).
  set (B' := filter (fun n => negb (skip n)) B).
  set (C' := filter (fun n => negb (skip n)) C).
  replace (A' ++ p :: B' ++ b :: C') with ((A' ++ p :: B') ++ b :: C')
    by (rewrite <- app_assoc; reflexivity).
  intros ND. apply NoDup_remove_2 in ND.
  unfold seq_trace. rewrite map_app, flat_map_app.
  exists (ECS :: flat_map op_block (map (fun n => (n, ntasks n)) (A' ++ p :: B'))),
         (flat_map op_block (map (fun n => (n, ntasks n)) (b :: C')) ++ [ECE]).
  split; [|split].
  - rewrite <- app_assoc. reflexivity.
  - right. apply seq_body_end_intro. rewrite map_fst_pairing. apply in_or_app; right; left; auto.
  - intros [E|E]; [discriminate|].
    apply seq_body_op_in with (n := b) in E; [|reflexivity].
    rewrite map_fst_pairing in E. apply ND. apply in_or_app; auto.
Qed.

(* ------------------------------------------------------------------------------ *)
(* par_barrier                                                                    *)
(* ------------------------------------------------------------------------------ *)
Lemma gen_index_some_in : forall x gens i, gen_index x gens = Some i -> In x (concat gens).
Proof.
  induction gens as [|g gens IH]; simpl; intros i H.
  - discriminate.
  - apply in_or_app. destruct (mem_nat x g) eqn:E.
    + left. apply mem_nat_In; auto.
    + right. destruct (gen_index x gens) as [i'|]; [eapply IH; eauto | discriminate].
Qed.

Lemma gen_before : forall x y gens i j,
  gen_index x gens = Some i -> gen_index y gens = Some j -> i < j ->
  exists GA g GR, gens = GA ++ g :: GR /\ In x g /\ In y (concat GR).
Proof.
  induction gens as [|g0 gens IH]; simpl; intros i j Hi Hj Hlt.
  - discriminate.
  - destruct (mem_nat x g0) eqn:Ex.
    + inversion Hi; subst i.
      destruct (mem_nat y g0); [inversion Hj; lia|].
      destruct (gen_index y gens) as [j'|] eqn:Ey; [|discriminate].
      exists [], g0, gens. repeat split.
      * apply mem_nat_In; auto.
      * eapply gen_index_some_in; eauto.
    + destruct (gen_index x gens) as [i'|] eqn:Ei; [|discriminate].
      simpl in Hi. inversion Hi; subst i.
      destruct (mem_nat y g0); [inversion Hj; lia|].
      destruct (gen_index y gens) as [j'|] eqn:Ej; [|discriminate].
      simpl in Hj. inversion Hj; subst j.
      destruct (IH i' j' eq_refl eq_refl) as (GA & g & GR & -> & Hx & Hy); [lia|].
      exists (g0 :: GA), g, GR. repeat split; auto.
Qed.

Lemma visit_generations_app : forall skip G1 G2,
  visit_generations skip (G1 ++ G2) = visit_generations skip G1 ++ visit_generations skip G2.
Proof. intros. unfold visit_generations. rewrite map_app, filter_app. reflexivity. Qed.

Lemma visit_generations_cons_in : forall skip x g G, In x g -> skip x = false ->
  visit_generations skip (g :: G) = filter (fun n => negb (skip n)) g :: visit_generations skip G.
Proof.
  intros skip x g G Hx Hs. unfold visit_generations. simpl.
  destruct (filter (fun n => negb (skip n)) g) as [|y l] eqn:E; auto.
  exfalso. assert (Hin : In x (filter (fun n => negb (skip n)) g)).
  { apply filter_In; split; auto. rewrite Hs; auto. }
  rewrite E in Hin. destruct Hin.
Qed.

Lemma in_visit_generations : forall skip n G, In n (concat (visit_generations skip G)) ->
  In n (concat G) /\ skip n = false.
Proof.
  intros skip n G H. unfold visit_generations in H. apply in_concat in H.
  destruct H as (g & Hg & Hn). apply filter_In in Hg. destruct Hg as [Hg _].
  apply in_map_iff in Hg. destruct Hg as (g0 & <- & Hg0).
  apply filter_In in Hn. destruct Hn as [Hn Hs]. split.
  - apply in_concat. exists g0; auto.
  - apply negb_true_iff; auto.
Qed.

Definition ete_only (G : list (list (nat * nat) * list ev)) : Prop :=
  forall gi e, In gi G -> In e (snd gi) -> exists m, e = ETE m.

Lemma in_pbody_op : forall G e, ete_only G -> In e (pbody G) ->
  (exists m, e = ETE m) \/ exists n, ev_op e = Some n /\ In n (map fst (concat (map fst G))).
Proof.
  intros G e HG H. unfold pbody in H. apply in_flat_map in H. destruct H as (gi & Hgi & He).
  apply in_gen_block in He. destruct He as [(p & Hp & Hop)|He].
  - right. exists (fst p). split; [destruct Hop as [->| ->]; reflexivity|].
    apply in_map. apply in_concat. exists (fst gi); split; auto. apply in_map; auto.
  - left. eapply HG; eauto.
Qed.

Lemma in_par_trace_op : forall G e n, ete_only G -> In e (par_trace G) ->
  (e = EOS n \/ e = EOE n) -> In n (map fst (concat (map fst G))).
Proof.
  intros G e n HG H E. unfold par_trace in H. fold (pbody G) in H. simpl in H.
  destruct H as [<-|H]; [destruct E; discriminate|].
  apply in_app_or in H. destruct H as [H|[<-|[]]]; [|destruct E; discriminate].
  apply in_pbody_op in H; auto. destruct H as [(m & ->)|(n' & Hop & Hn')].
  - destruct E; discriminate.
  - destruct E as [-> | ->]; simpl in Hop; inversion Hop; subst; auto.
Qed.

Lemma in_pbody_end_intro : forall G gi n, In gi G -> In n (map fst (fst gi)) -> In (EOE n) (pbody G).
Proof.
  intros G gi n Hgi Hn. unfold pbody. apply in_flat_map. exists gi; split; auto.
  unfold gen_block. apply in_or_app; right. apply in_or_app; right.
  apply in_map_iff in Hn. destruct Hn as (p & <- & Hp). apply in_map_iff. exists p; auto.
Qed.

Lemma names_of : forall (ntasks : nat -> nat) (G : list (list (nat * nat) * list ev)) V,
  map fst G = map (map (fun n => (n, ntasks n))) V ->
  map fst (concat (map fst G)) = concat V.
Proof.
  intros ntasks G V H. rewrite H, <- concat_map. apply map_fst_pairing.
Qed.

Lemma map_fst_combine : forall (A B : Type) (l1 : list A) (l2 : list B),
  length l2 = length l1 -> map fst (combine l1 l2) = l1.
Proof.
  induction l1 as [|a l1 IH]; intros [|b l2] H; simpl in *; try discriminate; auto.
  f_equal. apply IH. lia.
Qed.

Lemma par_barrier_gen : forall nodes edges gens is_op skip (ntasks : nat -> nat) G,
  is_generations nodes edges gens = true ->
  map fst G = map (map (fun n => (n, ntasks n))) (visit_generations skip gens) ->
  ete_only G ->
  barrier_ok (op_deps is_op edges) (par_trace G) = true.
Proof.
  intros nodes edges gens is_op skip ntasks G HG Hmap Hete.
  assert (ND : NoDup (concat gens)).
  { unfold is_generations in HG. apply andb_true_iff in HG. destruct HG as [HT _].
    apply is_topo_order_sound in HT. tauto. }
  apply is_generations_sound in HG. destruct HG as (_ & HE).
  unfold barrier_ok. apply forallb_forall. intros [p b] Hd. simpl fst; simpl snd.
  apply op_deps_spec in Hd. destruct Hd as (_ & _ & a & H1 & H2).
  destruct (HE _ _ H1) as (i & j & Hi & Hj & Hij).
  destruct (HE _ _ H2) as (j' & k & Hj' & Hk & Hjk).
  rewrite Hj in Hj'. inversion Hj'; subst j'.
  destruct (gen_before p b gens i k Hi Hk) as (GA & gp & GR & -> & Hpg & Hbr); [lia|].
  apply barrier_entry. intros Hp _.
  assert (Hsp : skip p = false).
  { apply in_par_trace_op with (n := p) in Hp; auto.
    rewrite (names_of _ _ _ Hmap) in Hp. apply in_visit_generations in Hp. tauto. }
  assert (Hv : visit_generations skip (GA ++ [gp]) =
               visit_generations skip GA ++ [filter (fun n => negb (skip n)) gp]).
  { rewrite visit_generations_app, (visit_generations_cons_in skip p gp []); auto. }
  rewrite visit_generations_app, (visit_generations_cons_in skip p gp GR) in Hmap; auto.
  rewrite map_app in Hmap. simpl in Hmap.
  apply map_eq_app in Hmap. destruct Hmap as (G1 & G2' & -> & HG1 & HG2').
  apply map_eq_cons in HG2'. destruct HG2' as (gx & G2 & -> & Hgx & HG2).
  assert (Hmap1 : map fst (G1 ++ [gx]) =
                  map (map (fun n => (n, ntasks n))) (visit_generations skip (GA ++ [gp]))).
  { rewrite Hv, !map_app, HG1. simpl. rewrite Hgx. reflexivity. }
  exists (ECS :: pbody (G1 ++ [gx])), (pbody G2 ++ [ECE]). split; [|split].
  - unfold par_trace. fold (pbody (G1 ++ gx :: G2)).
    replace (G1 ++ gx :: G2) with ((G1 ++ [gx]) ++ G2) by (rewrite <- app_assoc; reflexivity).
    unfold pbody. rewrite (flat_map_app _ (G1 ++ [gx]) G2). rewrite <- app_assoc. reflexivity.
  - right. apply in_pbody_end_intro with (gi := gx).
    + apply in_or_app; right; left; auto.
    + rewrite Hgx, map_fst_pairing. apply filter_In; split; auto. rewrite Hsp; auto.
  - intros [E|E]; [discriminate|].
    assert (Hete1 : ete_only (G1 ++ [gx])).
    { intros gi e Hgi He. apply (Hete gi e); auto.
      apply in_app_or in Hgi. apply in_or_app. destruct Hgi as [Hgi|[<-|[]]]; auto.
      right; left; auto. }
    apply in_pbody_op in E; auto. destruct E as [(m & E)|(n & Hop & Hn)]; [discriminate|].
    simpl in Hop. inversion Hop; subst n.
    rewrite (names_of _ _ _ Hmap1) in Hn. apply in_visit_generations in Hn. destruct Hn as [Hn _].
    revert ND. replace (GA ++ gp :: GR) with ((GA ++ [gp]) ++ GR) by (rewrite <- app_assoc; reflexivity).
    rewrite concat_app. intros ND. eapply NoDup_app_disjoint; eauto.
Qed.

(* STATEMENT CHANGE w.r.t. Specs/Events_target.v: the additional premise that every element of
   every interleaving list is a task-end event.  Without it the statement is false (an arbitrary
   [inter] can contain a stray [EOS b] that [ev_index] finds first):
     gens = [[0];[1];[2]], edges = [(0,1);(1,2)], is_op n = negb (n =? 1), skip n = (n =? 1),
     ntasks = fun _ => 0, inter = [[EOS 2]; []]
   gives the trace [ECS; EOS 0; EOS 2; EOE 0; EOS 2; EOE 2; ECE], on which barrier_ok is false
   (see par_barrier_counterexample below). *)
Theorem par_barrier : forall nodes edges gens is_op skip (ntasks : nat -> nat) (inter : list (list ev)),
  is_generations nodes edges gens = true ->
  length inter = length (visit_generations skip gens) ->
  (forall l e, In l inter -> In e l -> exists n, e = ETE n) ->
  barrier_ok (op_deps is_op edges)
    (par_trace (combine (map (map (fun n => (n, ntasks n))) (visit_generations skip gens)) inter)) = true.
Proof.
  intros nodes edges gens is_op skip ntasks inter HG Hlen Hete.
  eapply par_barrier_gen; eauto.
  - apply map_fst_combine. rewrite map_length; auto.
  - intros [g l] e Hgi He. simpl in He. apply in_combine_r in Hgi. eauto.
Qed.

Example par_barrier_counterexample :
  let nodes := [0; 1; 2] in
  let edges := [(0, 1); (1, 2)] in
  let gens := [[0]; [1]; [2]] in
  let is_op := fun n => negb (Nat.eqb n 1) in
  let skip := fun n => Nat.eqb n 1 in
  let inter := [[EOS 2]; []] in
  is_generations nodes edges gens = true /\
  length inter = length (visit_generations skip gens) /\
  barrier_ok (op_deps is_op edges)
    (par_trace (combine (map (map (fun n => (n, 0))) (visit_generations skip gens)) inter)) = false.
Proof. vm_compute. repeat split. Qed.

(* ------------------------------------------------------------------------------ *)
(* barrier_ok_sound                                                               *)
(* ------------------------------------------------------------------------------ *)
Lemma nth_error_before : forall (X Y : list ev) x y i,
  nth_error (X ++ x :: Y) i = Some y -> y <> x -> ~ In y Y -> i < length X.
Proof.
  intros X Y x y i H Hne Hn. destruct (lt_dec i (length X)); auto. exfalso.
  rewrite nth_error_app2 in H by lia. destruct (i - length X) eqn:E; simpl in H.
  - inversion H; congruence.
  - apply nth_error_In in H. contradiction.
Qed.

Lemma nth_error_after : forall (X Y : list ev) x y i,
  nth_error (X ++ x :: Y) i = Some y -> y <> x -> ~ In y X -> length X < i.
Proof.
  intros X Y x y i H Hne Hn. destruct (lt_dec (length X) i); auto. exfalso.
  destruct (lt_dec i (length X)).
  - rewrite nth_error_app1 in H by lia. apply nth_error_In in H. contradiction.
  - assert (i = length X) by lia. subst i.
    rewrite nth_error_app2 in H by lia. rewrite Nat.sub_diag in H. simpl in H.
    inversion H; congruence.
Qed.

Theorem barrier_ok_sound : forall deps trace p b i j,
  barrier_ok deps trace = true -> In (p, b) deps ->
  forall nt, events_ok nt trace = true -> In p (map fst nt) -> In b (map fst nt) ->
  nth_error trace i = Some (ETE p) -> nth_error trace j = Some (ETE b) -> i < j.
Proof.
  intros deps trace p b i j HB Hd nt HE Hp Hb Hi Hj.
  apply events_ok_sound in HE. destruct HE as (body & -> & _ & _ & HN).
  apply in_map_iff in Hp. destruct Hp as ([p' kp] & Ep & Hp). simpl in Ep; subst p'.
  apply in_map_iff in Hb. destruct Hb as ([b' kb] & Eb & Hb). simpl in Eb; subst b'.
  destruct (HN _ _ Hp) as (_ & CP & _ & l1 & l2 & l3 & EP & _ & ZP).
  destruct (HN _ _ Hb) as (CB & _ & _ & m1 & m2 & m3 & EB & ZB & _).
  unfold barrier_ok in HB. rewrite forallb_forall in HB. specialize (HB _ Hd). simpl fst in HB; simpl snd in HB.
  assert (TP : ECS :: body ++ [ECE] = (ECS :: l1 ++ EOS p :: l2) ++ EOE p :: (l3 ++ [ECE])).
  { rewrite EP. simpl. f_equal. repeat (rewrite <- app_assoc; simpl). reflexivity. }
  assert (TB : ECS :: body ++ [ECE] = (ECS :: m1) ++ EOS b :: (m2 ++ EOE b :: m3 ++ [ECE])).
  { rewrite EB. simpl. f_equal. repeat (rewrite <- app_assoc; simpl). reflexivity. }
  rewrite EP in CP. rewrite count_ev_app, count_ev_cons, count_ev_app, count_ev_cons in CP.
  simpl (ev_eqb (EOE p) (EOS p)) in CP. rewrite ev_eqb_refl in CP. cbv iota in CP.
  rewrite EB in CB. rewrite count_ev_app, count_ev_cons, ev_eqb_refl in CB.
  assert (NP : ~ In (EOE p) (ECS :: l1 ++ EOS p :: l2)).
  { intros [E|E]; [discriminate|]. apply in_app_or in E. destruct E as [E|[E|E]].
    - revert E. apply count_ev_zero. lia.
    - discriminate.
    - revert E. apply count_ev_zero. lia. }
  assert (NB : ~ In (EOS b) (ECS :: m1)).
  { intros [E|E]; [discriminate|]. revert E. apply count_ev_zero. lia. }
  assert (IP := ev_index_mid (EOE p) _ (l3 ++ [ECE]) NP). rewrite <- TP in IP.
  assert (IB := ev_index_mid (EOS b) _ (m2 ++ EOE b :: m3 ++ [ECE]) NB). rewrite <- TB in IB.
  rewrite IP, IB in HB. apply Nat.ltb_lt in HB.
  assert (Hi' : i < length (ECS :: l1 ++ EOS p :: l2)).
  { rewrite TP in Hi. eapply nth_error_before; [exact Hi|discriminate|].
    intros E. apply in_app_or in E. destruct E as [E|[E|[]]]; [|discriminate].
    revert E. apply count_ev_zero. exact ZP. }
  assert (Hj' : length (ECS :: m1) < j).
  { rewrite TB in Hj. eapply nth_error_after; [exact Hj|discriminate|].
    intros [E|E]; [discriminate|]. revert E. apply count_ev_zero. exact ZB. }
  lia.
Qed.
