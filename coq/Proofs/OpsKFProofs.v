From CubedV Require Import Model.Util Model.Keys Model.OpsKF.
From Coq Require Import Permutation.
From Coq Require Import ZArith Lia ZifyNat.
(* Proofs about the hand-coded key functions / shape bookkeeping of Model.OpsKF
   (statements: Specs/OpsKF_target.v). *)

(* ---- ceiling division ------------------------------------------------------------------ *)
Lemma cdivn_ub : forall nb k, 0 < k -> nb <= cdivn nb k * k.
Proof.
  intros nb k Hk. unfold cdivn.
  pose proof (Nat.div_mod (nb + k - 1) k ltac:(lia)) as Hdm.
  pose proof (Nat.mod_upper_bound (nb + k - 1) k ltac:(lia)) as Hm.
  lia.
Qed.

Lemma cdivn_lb : forall nb k, 0 < k -> cdivn nb k * k < nb + k.
Proof.
  intros nb k Hk. unfold cdivn.
  pose proof (Nat.div_mod (nb + k - 1) k ltac:(lia)) as Hdm.
  lia.
Qed.

(* cdivn nb k is the least q with nb <= q * k *)
Lemma cdivn_le : forall nb k m, 0 < k -> nb <= m * k -> cdivn nb k <= m.
Proof.
  intros nb k m Hk H. unfold cdivn. apply Nat.lt_succ_r.
  apply Nat.div_lt_upper_bound; lia.
Qed.

Lemma cdivn_pos : forall nb k, 0 < k -> 0 < nb -> 0 < cdivn nb k.
Proof.
  intros nb k Hk Hnb. pose proof (cdivn_ub nb k Hk).
  destruct (cdivn nb k); lia.
Qed.

Lemma cdivn_mul : forall k c, 0 < k -> cdivn (k * c) k = c.
Proof.
  intros k c Hk. unfold cdivn. symmetry.
  apply (Nat.div_unique _ _ c (k - 1)); lia.
Qed.

(* ---- partial_reduce groups ------------------------------------------------------------- *)
Lemma in_pr_group : forall k nb bi x,
  In x (pr_group k nb bi) <-> bi * k <= x /\ x < (bi + 1) * k /\ x < nb.
Proof. intros. unfold pr_group. rewrite in_seq. lia. Qed.

Theorem pr_groups_partition : forall k nb x, 0 < k -> x < nb ->
  exists bi, bi < pr_numblocks k nb /\ In x (pr_group k nb bi) /\
    forall bj, In x (pr_group k nb bj) -> bj = bi.
Proof.
  intros k nb x Hk Hx.
  pose proof (Nat.div_mod x k ltac:(lia)) as Hdm.
  pose proof (Nat.mod_upper_bound x k ltac:(lia)) as Hm.
  exists (x / k). split; [|split].
  - unfold pr_numblocks. apply Nat.div_lt_upper_bound; [lia|].
    pose proof (cdivn_ub nb k Hk). lia.
  - apply in_pr_group. lia.
  - intros bj Hin. apply in_pr_group in Hin. destruct Hin as (H1 & H2 & _).
    apply (Nat.div_unique x k bj (x - bj * k)); lia.
Qed.

Theorem pr_groups_inside : forall k nb bi, 0 < k -> bi < pr_numblocks k nb ->
  pr_group k nb bi <> [] /\ (forall x, In x (pr_group k nb bi) -> x < nb) /\
  length (pr_group k nb bi) <= k.
Proof.
  intros k nb bi Hk Hbi. unfold pr_numblocks in Hbi.
  pose proof (cdivn_lb nb k Hk) as Hlb.
  assert (Hlt : bi * k < nb).
  { assert ((bi + 1) * k <= cdivn nb k * k) by (apply Nat.mul_le_mono_r; lia). lia. }
  split; [|split].
  - unfold pr_group. intro E. apply (f_equal (@length nat)) in E.
    rewrite seq_length in E. simpl in E. lia.
  - intros x Hx. apply in_pr_group in Hx. lia.
  - unfold pr_group. rewrite seq_length. lia.
Qed.

(* ---- tree_reduce ------------------------------------------------------------------------- *)
Theorem tree_reduce_terminates : forall d k nb, 2 <= k -> 0 < nb -> nb <= k ^ d ->
  tree_rounds d k nb = 1.
Proof.
  induction d; intros k nb Hk Hnb Hle.
  - rewrite Nat.pow_0_r in Hle. cbn [tree_rounds]. lia.
  - rewrite Nat.pow_succ_r' in Hle. cbn [tree_rounds]. apply IHd; auto.
    + unfold pr_numblocks. apply cdivn_pos; lia.
    + unfold pr_numblocks. apply cdivn_le; lia.
Qed.

(* ---- declared vs actual extent when every merged block keeps one entry --------------------- *)
Theorem pr_keep_all_truthful : forall k nb, 0 < k -> 0 < nb ->
  ((forall bi, bi < pr_numblocks k nb -> pr_actual_keep_all k nb bi = pr_declared (Nat.min k nb))
   <-> (nb <= k \/ nb mod k = 0)).
Proof.
  intros k nb Hk Hnb.
  unfold pr_actual_keep_all, pr_declared, pr_numblocks, pr_group.
  split.
  - intros H. destruct (le_lt_dec nb k) as [Hle|Hgt]; [left; exact Hle|right].
    pose proof (cdivn_ub nb k Hk) as Hub.
    pose proof (cdivn_lb nb k Hk) as Hlb.
    pose proof (cdivn_pos nb k Hk Hnb) as Hpos.
    remember (cdivn nb k) as q eqn:Eq. destruct q as [|q]; [lia|].
    specialize (H q ltac:(lia)). rewrite seq_length in H.
    assert (E : nb = S q * k) by lia.
    rewrite E. apply Nat.mod_mul. lia.
  - intros [Hle|Hmod] bi Hbi; rewrite seq_length.
    + assert (cdivn nb k <= 1) by (apply cdivn_le; lia).
      assert (bi = 0) by lia. subst bi. lia.
    + apply Nat.mod_divides in Hmod; [|lia]. destruct Hmod as [c Hc]. subst nb.
      rewrite cdivn_mul in Hbi by lia.
      assert ((bi + 1) * k <= c * k) by (apply Nat.mul_le_mono_r; lia).
      pose proof (Nat.le_0_l (bi * k)).
      lia.
Qed.

(* ---- scan ------------------------------------------------------------------------------------ *)
Definition scan_shape (nb : nat) : Prop := exists e m, 1 <= m /\ m <= 5 /\ nb = m * 5 ^ e.

Lemma scan_ok_spec : forall f nb, nb < f -> 0 < nb -> (scan_ok f nb = true <-> scan_shape nb).
Proof.
  induction f; intros nb Hf Hnb; [lia|].
  cbn [scan_ok]. cbv zeta.
  destruct (Nat.leb_spec nb 1) as [H1|H1].
  - assert (nb = 1) by lia. subst nb. split; auto. intros _. exists 0, 1. cbn. lia.
  - destruct (le_lt_dec nb 5) as [H5|H5].
    + rewrite Nat.min_r by lia.
      assert (Hc : cdivn nb nb = 1).
      { unfold cdivn. symmetry. apply (Nat.div_unique _ _ 1 (nb - 1)); lia. }
      rewrite Hc, Nat.mul_1_r, Nat.eqb_refl. cbn [andb].
      split.
      * intros _. exists 0, nb. cbn. lia.
      * intros _. apply IHf; [lia|lia|]. exists 0, 1. cbn. lia.
    + rewrite Nat.min_l by lia.
      rewrite andb_true_iff, Nat.eqb_eq.
      split.
      * intros [E Hrec].
        assert (0 < cdivn nb 5) by (apply cdivn_pos; lia).
        apply IHf in Hrec; [|lia|lia]. destruct Hrec as (e & m & Hm1 & Hm5 & Hc).
        exists (S e), m. rewrite Nat.pow_succ_r'. rewrite <- E, Hc.
        split; [exact Hm1|split; [exact Hm5|ring]].
      * intros (e & m & Hm1 & Hm5 & E).
        destruct e as [|e]; [cbn in E; lia|].
        rewrite Nat.pow_succ_r' in E.
        assert (Hc : cdivn nb 5 = m * 5 ^ e).
        { subst nb. replace (m * (5 * 5 ^ e)) with (5 * (m * 5 ^ e)) by ring.
          apply cdivn_mul; lia. }
        rewrite Hc. split; [lia|].
        apply IHf; [lia|lia|]. exists e, m. auto.
Qed.

Theorem scan_accepts_spec : forall nb, 0 < nb ->
  (scan_accepts nb = true <-> exists e m, 1 <= m /\ m <= 5 /\ nb = m * 5 ^ e).
Proof. intros nb Hnb. unfold scan_accepts. apply scan_ok_spec; lia. Qed.

Theorem scan_refuted :
  scan_accepts 6 = false /\ scan_accepts 7 = false /\ scan_accepts 26 = false /\ scan_accepts 30 = false.
Proof. vm_compute. repeat split; reflexivity. Qed.

Theorem scan_addressing : forall bi, (bi / 5) * 5 + bi mod 5 = bi /\ bi mod 5 < 5.
Proof.
  intros bi. pose proof (Nat.div_mod bi 5 ltac:(lia)).
  pose proof (Nat.mod_upper_bound bi 5 ltac:(lia)). lia.
Qed.

(* ---- stack / unstack coordinates --------------------------------------------------------------- *)
Lemma remove_at_cons : forall a x l, remove_at (S a) (x :: l) = x :: remove_at a l.
Proof. reflexivity. Qed.
Lemma insert_at_cons : forall a v x l, insert_at (S a) v (x :: l) = x :: insert_at a v l.
Proof. reflexivity. Qed.

Theorem stack_unstack_coords : forall axis l v, axis <= length l ->
  remove_at axis (insert_at axis v l) = l /\ nth axis (insert_at axis v l) 0 = v.
Proof.
  induction axis; intros l v Hlen.
  - split; reflexivity.
  - destruct l as [|x l]; [simpl in Hlen; lia|].
    simpl in Hlen. destruct (IHaxis l v ltac:(lia)) as [H1 H2].
    rewrite insert_at_cons, remove_at_cons, H1. split; [reflexivity|exact H2].
Qed.

Theorem unstack_stack_coords : forall axis l, axis < length l ->
  insert_at axis (nth axis l 0) (remove_at axis l) = l.
Proof.
  induction axis; intros l Hlen.
  - destruct l; [simpl in Hlen; lia|reflexivity].
  - destruct l as [|x l]; [simpl in Hlen; lia|].
    simpl in Hlen. rewrite remove_at_cons, insert_at_cons. cbn [nth].
    rewrite IHaxis by lia. reflexivity.
Qed.

(* ---- is_permutation ------------------------------------------------------------------------------ *)
Lemma mem_nat_In : forall x l, mem_nat x l = true <-> In x l.
Proof.
  induction l as [|a l IH]; simpl.
  - split; [discriminate|tauto].
  - rewrite orb_true_iff, Nat.eqb_eq, IH. intuition congruence.
Qed.

Theorem is_permutation_spec : forall axes,
  is_permutation axes = true <-> Permutation axes (seq 0 (length axes)).
Proof.
  intros axes. unfold is_permutation. rewrite andb_true_iff, !forallb_forall. split.
  - intros [H _]. apply Permutation_sym. apply NoDup_Permutation_bis.
    + apply seq_NoDup.
    + rewrite seq_length. lia.
    + intros i Hi. apply mem_nat_In, H, Hi.
  - intros P. split.
    + intros i Hi. apply mem_nat_In.
      apply Permutation_in with (l := seq 0 (length axes)); [apply Permutation_sym; exact P|exact Hi].
    + intros a Ha. apply Nat.ltb_lt. apply (Permutation_in _ P) in Ha.
      apply in_seq in Ha. lia.
Qed.
