(* Proofs over the history machine Model.Api (C10, C16): the statements of Specs/Api_target.v. *)
From CubedV Require Import Model.Util Model.Api.

Section T.
Variable V : Type.
Variable inp : nat -> V.
Variable opf : nat -> list V -> V.
Variable ident : nat.
Notation state := (state V).
Notation step := (step V inp opf ident).
Notation run := (run V inp opf ident).
Notation den := (den V inp opf).

(* arguments of every operation are earlier arrays *)
Definition wf (s : state) : Prop :=
  forall id c, nth_error (cells V s) id = Some c ->
    match cexpr c with Inp _ => True | Op _ args => forall a, In a args -> a < id end.
(* distinct arrays live at distinct locations, all below next_loc *)
Definition locs_ok (s : state) : Prop :=
  (forall i j ci cj, nth_error (cells V s) i = Some ci -> nth_error (cells V s) j = Some cj ->
      cloc ci = cloc cj -> i = j) /\
  (forall i c, nth_error (cells V s) i = Some c -> cloc c < next_loc V s).
(* a call is valid in a state: it mentions existing arrays, store targets are fresh locations *)
Definition valid (s : state) (c : call) : Prop :=
  match c with
  | Derive _ args => forall a, In a args -> a < length (cells V s)
  | Compute ids written => forall a, In a (written ++ ids) -> a < length (cells V s)
  | StoreLazy id t => id < length (cells V s) /\ next_loc V s <= t
  | StoreEager id t written => id < length (cells V s) /\ next_loc V s <= t /\
                               forall a, In a written -> a < length (cells V s)
  | PlanOf _ | ConfigChange => True
  end.
Fixpoint valid_history (s : state) (h : list call) : Prop :=
  match h with [] => True | c :: h' => valid s c /\ valid_history (step s c) h' end.

(* every location holds nothing or the denotation of its owner *)
Definition store_ok (s : state) : Prop :=
  forall id l, is_op V s id = true -> loc_of V s id = Some l ->
    store V s l = None \/ store V s l = den s id.

(* ADDED side condition of targets_hold_denotations: locations not yet handed out are empty *)
Definition fresh_empty (s : state) : Prop :=
  forall l, next_loc V s <= l -> store V s l = None.

Notation den_fuel := (den_fuel V inp opf).
Notation materialise := (materialise V inp opf).
Notation store_lazy := (store_lazy V ident).
Notation store_result := (store_result V).
Notation add_cell := (add_cell V).
Notation cells := (cells V).
Notation store := (store V).
Notation next_loc := (next_loc V).
Notation loc_of := (loc_of V).
Notation is_op := (is_op V).
Notation upd := (upd V).

(* ------------------------------------------------------------------ *)
(* lazy calls                                                          *)
(* ------------------------------------------------------------------ *)

Theorem lazy_call_no_effect : forall s c k, is_lazy c = true -> store (step s c) k = store s k.
Proof.
  intros s c k H. destruct c; simpl in *; try discriminate; try reflexivity.
  unfold Api.store_lazy. destruct (nth_error (cells s) id) as [c|]; [|reflexivity].
  destruct (cexpr c); [reflexivity|]. destruct (retargeted c); reflexivity.
Qed.

Theorem lazy_history_no_effect : forall s h k, forallb is_lazy h = true -> store (run s h) k = store s k.
Proof.
  intros s h; revert s. induction h as [|c h IH]; intros s k H; simpl in *.
  - reflexivity.
  - apply andb_prop in H. destruct H as [Hc Hh].
    change (store (run (step s c) h) k = store s k).
    rewrite IH by exact Hh. apply lazy_call_no_effect. exact Hc.
Qed.

(* ------------------------------------------------------------------ *)
(* list facts                                                          *)
(* ------------------------------------------------------------------ *)

Lemma nth_error_snoc : forall (A : Type) (cs : list A) x j c,
  nth_error (cs ++ [x]) j = Some c ->
  (j < length cs /\ nth_error cs j = Some c) \/ (j = length cs /\ c = x).
Proof.
  intros A cs x j c H. destruct (Nat.lt_ge_cases j (length cs)) as [Hl|Hl].
  - left. split; [exact Hl|]. rewrite nth_error_app1 in H; assumption.
  - right. rewrite nth_error_app2 in H by exact Hl.
    destruct (j - length cs) as [|n] eqn:E; simpl in H.
    + split; [lia | congruence].
    + destruct n; discriminate.
Qed.

Lemma nth_error_snoc_old : forall (A : Type) (cs : list A) x j,
  j < length cs -> nth_error (cs ++ [x]) j = nth_error cs j.
Proof. intros. apply nth_error_app1; assumption. Qed.

Lemma nth_error_snoc_new : forall (A : Type) (cs : list A) x,
  nth_error (cs ++ [x]) (length cs) = Some x.
Proof. intros. rewrite nth_error_app2 by lia. rewrite Nat.sub_diag. reflexivity. Qed.

Lemma set_cell_length : forall cs i (c : cell), length (set_cell cs i c) = length cs.
Proof. induction cs as [|x r IH]; intros [|i] c; simpl; auto. Qed.

Lemma set_cell_eq : forall cs i (c : cell), i < length cs -> nth_error (set_cell cs i c) i = Some c.
Proof.
  induction cs as [|x r IH]; intros [|i] c H; simpl in *; try lia; auto.
  apply IH; lia.
Qed.

Lemma set_cell_neq : forall cs i j (c : cell), i <> j -> nth_error (set_cell cs i c) j = nth_error cs j.
Proof.
  induction cs as [|x r IH]; intros [|i] [|j] c H; simpl; try reflexivity; try congruence.
  apply IH; lia.
Qed.

Lemma set_cell_inv : forall cs i j (x c : cell),
  nth_error (set_cell cs i x) j = Some c ->
  (j = i /\ c = x /\ i < length cs) \/ (j <> i /\ nth_error cs j = Some c).
Proof.
  intros cs i j x c H. destruct (Nat.eq_dec j i) as [E|E].
  - left. subst j.
    assert (Hl : i < length (set_cell cs i x)) by (apply nth_error_Some; congruence).
    rewrite set_cell_length in Hl. rewrite set_cell_eq in H by exact Hl.
    repeat split; congruence.
  - right. split; [exact E|]. rewrite set_cell_neq in H by congruence. exact H.
Qed.

(* ------------------------------------------------------------------ *)
(* denotation stability                                                *)
(* ------------------------------------------------------------------ *)

Definition wfc (cs : list cell) : Prop :=
  forall id c, nth_error cs id = Some c ->
    match cexpr c with Inp _ => True | Op _ args => forall a, In a args -> a < id end.

(* the denotation of id depends only on the expressions at positions <= id, and on no fuel > id *)
Lemma den_fuel_ext : forall id f f' cs cs', wfc cs ->
  (forall j, j <= id -> option_map cexpr (nth_error cs j) = option_map cexpr (nth_error cs' j)) ->
  id < f -> id < f' -> den_fuel f cs id = den_fuel f' cs' id.
Proof.
  induction id as [id IH] using lt_wf_ind.
  intros f f' cs cs' Hwf Hext Hf Hf'.
  destruct f as [|f]; [lia|]. destruct f' as [|f']; [lia|].
  simpl.
  pose proof (Hext id (le_n _)) as He.
  pose proof (Hwf id) as Hw.
  destruct (nth_error cs id) as [c|]; destruct (nth_error cs' id) as [c'|];
    simpl in He; try discriminate; [|reflexivity].
  injection He as He. rewrite <- He.
  specialize (Hw c eq_refl).
  destruct (cexpr c) as [i|g args]; [reflexivity|].
  assert (Hm : map (den_fuel f cs) args = map (den_fuel f' cs') args).
  { apply map_ext_in. intros a Ha. specialize (Hw a Ha).
    apply IH; auto; try lia. intros j Hj. apply Hext. lia. }
  rewrite Hm. reflexivity.
Qed.

(* s' keeps every existing array's expression *)
Definition cext (s s' : state) : Prop :=
  length (cells s) <= length (cells s') /\
  forall j, j < length (cells s) ->
    option_map cexpr (nth_error (cells s) j) = option_map cexpr (nth_error (cells s') j).

Lemma den_cext : forall s s' id, wf s -> cext s s' -> id < length (cells s) -> den s' id = den s id.
Proof.
  intros s s' id Hwf [Hlen Hc] Hid. unfold Api.den. symmetry.
  apply den_fuel_ext; try lia.
  - exact Hwf.
  - intros j Hj. apply Hc. lia.
Qed.

Lemma cext_refl : forall s, cext s s.
Proof. intros s. split; auto. Qed.

Lemma cext_add_cell : forall s e l rt, cext s (add_cell s e l rt).
Proof.
  intros. unfold Api.add_cell. split; simpl.
  - rewrite app_length. lia.
  - intros j Hj. rewrite nth_error_snoc_old by exact Hj. reflexivity.
Qed.

Definition retarget (s : state) (id : nat) (e : expr) (t : nat) : state :=
  {| Api.cells := set_cell (cells s) id {| cexpr := e; cloc := t; retargeted := true |};
     Api.store := store s; Api.next_loc := Nat.max (next_loc s) (S t) |}.

Lemma store_lazy_cases : forall s id t,
  (nth_error (cells s) id = None /\ store_lazy s id t = s) \/
  (exists c f a, nth_error (cells s) id = Some c /\ cexpr c = Op f a /\ retargeted c = false /\
     store_lazy s id t = retarget s id (Op f a) t /\ store_result s id = id) \/
  (id < length (cells s) /\ store_lazy s id t = add_cell s (Op ident [id]) t true /\
     store_result s id = length (cells s)).
Proof.
  intros s id t. unfold Api.store_lazy, Api.store_result.
  destruct (nth_error (cells s) id) as [c|] eqn:E; [|left; auto].
  assert (Hl : id < length (cells s)) by (apply nth_error_Some; congruence).
  right. destruct (cexpr c) as [i|f a] eqn:Ec; [right; auto|].
  destruct (retargeted c) eqn:Er; [right; auto|].
  left. exists c, f, a. repeat split; auto.
Qed.

Lemma cext_retarget : forall s id c f a t, nth_error (cells s) id = Some c -> cexpr c = Op f a ->
  cext s (retarget s id (Op f a) t).
Proof.
  intros s id c f a t Hn Hc. unfold retarget. split; simpl.
  - rewrite set_cell_length. lia.
  - intros j Hj. destruct (Nat.eq_dec id j) as [E|E].
    + subst j. rewrite set_cell_eq by exact Hj. rewrite Hn. simpl. congruence.
    + rewrite set_cell_neq by exact E. reflexivity.
Qed.

Lemma cext_store_lazy : forall s id t, cext s (store_lazy s id t).
Proof.
  intros s id t.
  destruct (store_lazy_cases s id t) as [[_ H]|[(c & f & a & Hn & Hc & _ & H & _)|(_ & H & _)]];
    rewrite H.
  - apply cext_refl.
  - eapply cext_retarget; eauto.
  - apply cext_add_cell.
Qed.

Lemma cext_step : forall s c, cext s (step s c).
Proof.
  intros s c. destruct c; simpl.
  - apply cext_add_cell.
  - exact (cext_refl s).
  - apply cext_store_lazy.
  - exact (cext_store_lazy s id target).
  - apply cext_refl.
  - apply cext_refl.
Qed.

Lemma den_step : forall s c id, wf s -> id < length (cells s) -> den (step s c) id = den s id.
Proof. intros. apply den_cext; auto. apply cext_step. Qed.

(* ------------------------------------------------------------------ *)
(* invariants                                                          *)
(* ------------------------------------------------------------------ *)

Lemma add_cell_inv : forall s e l rt, wf s -> locs_ok s ->
  match e with Inp _ => True | Op _ args => forall a, In a args -> a < length (cells s) end ->
  next_loc s <= l -> wf (add_cell s e l rt) /\ locs_ok (add_cell s e l rt).
Proof.
  intros s e l rt Hwf [Hinj Hb] He Hl. unfold wf, locs_ok, Api.add_cell. simpl. split.
  - intros id c Hn. apply nth_error_snoc in Hn. destruct Hn as [[Hlt Hn]|[Hj Hc]].
    + apply (Hwf id c Hn).
    + subst. simpl. exact He.
  - split.
    + intros i j ci cj Hi Hj Hc. apply nth_error_snoc in Hi. apply nth_error_snoc in Hj.
      destruct Hi as [[Hil Hi]|[Hi Hci]]; destruct Hj as [[Hjl Hj]|[Hj Hcj]].
      * eapply Hinj; eauto.
      * subst. simpl in Hc. apply Hb in Hi. lia.
      * subst. simpl in Hc. apply Hb in Hj. lia.
      * lia.
    + intros i c Hn. apply nth_error_snoc in Hn. destruct Hn as [[_ Hn]|[_ Hc]].
      * apply Hb in Hn. lia.
      * subst. simpl. lia.
Qed.

Lemma retarget_inv : forall s id c f a t, wf s -> locs_ok s ->
  nth_error (cells s) id = Some c -> cexpr c = Op f a -> next_loc s <= t ->
  wf (retarget s id (Op f a) t) /\ locs_ok (retarget s id (Op f a) t).
Proof.
  intros s id c f a t Hwf [Hinj Hb] Hn Hc Ht. unfold wf, locs_ok, retarget. simpl. split.
  - intros j c' Hj. apply set_cell_inv in Hj. destruct Hj as [[Hj [Hc' _]]|[Hne Hj]].
    + subst. simpl. specialize (Hwf id c Hn). rewrite Hc in Hwf. exact Hwf.
    + apply (Hwf j c' Hj).
  - split.
    + intros i j ci cj Hi Hj Hl. apply set_cell_inv in Hi. apply set_cell_inv in Hj.
      destruct Hi as [[Hi [Hci _]]|[Hine Hi]]; destruct Hj as [[Hj [Hcj _]]|[Hjne Hj]].
      * congruence.
      * subst. simpl in Hl. apply Hb in Hj. lia.
      * subst. simpl in Hl. apply Hb in Hi. lia.
      * eapply Hinj; eauto.
    + intros i c' Hi. apply set_cell_inv in Hi. destruct Hi as [[Hi [Hci _]]|[Hine Hi]].
      * subst. simpl. lia.
      * apply Hb in Hi. lia.
Qed.

Lemma store_lazy_inv : forall s id t, wf s -> locs_ok s -> id < length (cells s) -> next_loc s <= t ->
  wf (store_lazy s id t) /\ locs_ok (store_lazy s id t).
Proof.
  intros s id t Hwf Hl Hid Ht.
  destruct (store_lazy_cases s id t) as [[_ H]|[(c & f & a & Hn & Hc & _ & H & _)|(_ & H & _)]];
    rewrite H.
  - auto.
  - eapply retarget_inv; eauto.
  - apply add_cell_inv; auto. intros a [Ha|[]]. subst. exact Hid.
Qed.

Theorem invariants_preserved : forall s c, wf s -> locs_ok s -> valid s c ->
  wf (step s c) /\ locs_ok (step s c).
Proof.
  intros s c Hwf Hl Hv. destruct c; simpl in Hv; simpl step.
  - apply add_cell_inv; auto.
  - split; [exact Hwf | exact Hl].
  - destruct Hv. apply store_lazy_inv; auto.
  - destruct Hv as (Hid & Ht & _).
    destruct (store_lazy_inv s id target Hwf Hl Hid Ht) as [H1 H2].
    split; [exact H1 | exact H2].
  - auto.
  - auto.
Qed.

Theorem value_fixed_when_built : forall s h id, wf s -> locs_ok s -> valid_history s h ->
  id < length (cells s) -> den (run s h) id = den s id.
Proof.
  intros s h; revert s. induction h as [|c h IH]; intros s id Hwf Hl Hv Hid.
  - reflexivity.
  - destruct Hv as [Hv Hh].
    change (den (run (step s c) h) id = den s id).
    destruct (invariants_preserved s c Hwf Hl Hv) as [Hwf' Hl'].
    rewrite IH; auto.
    + apply den_step; auto.
    + destruct (cext_step s c) as [Hlen _]. lia.
Qed.

(* ------------------------------------------------------------------ *)
(* materialise                                                         *)
(* ------------------------------------------------------------------ *)

Definition matF (s : state) (st : nat -> option V) (id : nat) : nat -> option V :=
  match loc_of s id, is_op s id with
  | Some l, true => upd st l (den s id)
  | _, _ => st
  end.

Lemma store_materialise : forall s w, store (materialise s w) = fold_left (matF s) w (store s).
Proof. reflexivity. Qed.

Lemma mat_char : forall s w st0 k,
  (fold_left (matF s) w st0 k = st0 k /\
   (forall id, In id w -> is_op s id = true -> loc_of s id = Some k -> False)) \/
  (exists id, In id w /\ is_op s id = true /\ loc_of s id = Some k /\
              fold_left (matF s) w st0 k = den s id).
Proof.
  intros s w st0 k. induction w as [|x w IH] using rev_ind.
  - left. split; [reflexivity|]. intros id [].
  - rewrite fold_left_app. simpl.
    set (r := fold_left (matF s) w st0) in *.
    assert (Hkeep : matF s r x k = r k ->
      (loc_of s x = Some k -> is_op s x = true -> False) ->
      (matF s r x k = st0 k /\
       (forall id, In id (w ++ [x]) -> is_op s id = true -> loc_of s id = Some k -> False)) \/
      (exists id, In id (w ++ [x]) /\ is_op s id = true /\ loc_of s id = Some k /\
                  matF s r x k = den s id)).
    { intros Hr Hx. rewrite Hr. destruct IH as [[H1 H2]|(id & Hin & Ho & Hl & H)].
      - left. split; [exact H1|]. intros id Hin Ho Hl. apply in_app_or in Hin.
        destruct Hin as [Hin|[Hin|[]]].
        + eapply H2; eauto.
        + subst. auto.
      - right. exists id. repeat split; auto. apply in_or_app. left. exact Hin. }
    unfold matF in *.
    destruct (loc_of s x) as [l|] eqn:El.
    + destruct (is_op s x) eqn:Eo.
      * unfold Api.upd in *. destruct (Nat.eqb k l) eqn:E.
        -- apply Nat.eqb_eq in E. subst l. right. exists x. repeat split; auto.
           apply in_or_app. right. left. reflexivity.
        -- apply Hkeep; [reflexivity|]. intros Hk _. apply Nat.eqb_neq in E. congruence.
      * apply Hkeep; [reflexivity|]. intros _ Hf. discriminate.
    + apply Hkeep; [reflexivity|]. intros Hf _. discriminate.
Qed.

Lemma loc_of_lt : forall s id l, loc_of s id = Some l -> id < length (cells s).
Proof.
  intros s id l H. unfold Api.loc_of in H. apply nth_error_Some.
  destruct (nth_error (cells s) id); [discriminate | discriminate].
Qed.

Lemma loc_inj : forall s i j k, locs_ok s -> loc_of s i = Some k -> loc_of s j = Some k -> i = j.
Proof.
  intros s i j k [Hinj _] Hi Hj. unfold Api.loc_of in *.
  destruct (nth_error (cells s) i) as [ci|] eqn:Ei; [|discriminate].
  destruct (nth_error (cells s) j) as [cj|] eqn:Ej; [|discriminate].
  simpl in *. eapply Hinj; eauto. congruence.
Qed.

Lemma loc_bound : forall s i k, locs_ok s -> loc_of s i = Some k -> k < next_loc s.
Proof.
  intros s i k [_ Hb] Hi. unfold Api.loc_of in *.
  destruct (nth_error (cells s) i) as [ci|] eqn:Ei; [|discriminate].
  simpl in Hi. injection Hi as Hi. subst. eapply Hb; eauto.
Qed.

Lemma mat_hit : forall s w st0 k id, locs_ok s -> In id w -> is_op s id = true ->
  loc_of s id = Some k -> fold_left (matF s) w st0 k = den s id.
Proof.
  intros s w st0 k id Hl Hin Ho Hk.
  destruct (mat_char s w st0 k) as [[_ H]|(id' & _ & _ & Hk' & H)].
  - exfalso. eapply H; eauto.
  - rewrite H. rewrite (loc_inj s id' id k Hl Hk' Hk). reflexivity.
Qed.

Lemma mat_miss : forall s w st0 k,
  (forall id, In id w -> is_op s id = true -> loc_of s id = Some k -> False) ->
  fold_left (matF s) w st0 k = st0 k.
Proof.
  intros s w st0 k Hno.
  destruct (mat_char s w st0 k) as [[H _]|(id' & Hin & Ho & Hk' & _)].
  - exact H.
  - exfalso. eapply Hno; eauto.
Qed.

Lemma mat_either : forall s w st0 k,
  fold_left (matF s) w st0 k = st0 k \/
  (exists id, In id w /\ is_op s id = true /\ loc_of s id = Some k /\
              fold_left (matF s) w st0 k = den s id).
Proof.
  intros s w st0 k. destruct (mat_char s w st0 k) as [[H _]|H]; auto.
Qed.

Theorem compute_gives_denotation : forall s ids written id l, wf s -> locs_ok s ->
  valid s (Compute ids written) ->
  In id ids -> is_op s id = true -> loc_of s id = Some l ->
  store (step s (Compute ids written)) l = den s id.
Proof.
  intros s ids written id l _ Hl _ Hin Ho Hk. simpl step. rewrite store_materialise.
  apply mat_hit; auto. apply in_or_app. right. exact Hin.
Qed.

(* ------------------------------------------------------------------ *)
(* inputs                                                              *)
(* ------------------------------------------------------------------ *)

Lemma input_add_cell : forall s e l rt id, id < length (cells s) ->
  nth_error (cells (add_cell s e l rt)) id = nth_error (cells s) id.
Proof. intros. unfold Api.add_cell. simpl. apply nth_error_snoc_old. assumption. Qed.

Lemma input_store_lazy : forall s i t id l, is_op s id = false -> loc_of s id = Some l ->
  is_op (store_lazy s i t) id = false /\ loc_of (store_lazy s i t) id = Some l.
Proof.
  intros s i t id l Ho Hk. pose proof (loc_of_lt s id l Hk) as Hid.
  destruct (store_lazy_cases s i t) as [[_ H]|[(c & f & a & Hn & Hc & _ & H & _)|(_ & H & _)]];
    rewrite H.
  - auto.
  - assert (Hne : i <> id).
    { intros E. subst i. unfold Api.is_op in Ho. rewrite Hn, Hc in Ho. discriminate. }
    unfold Api.is_op, Api.loc_of, retarget in *. simpl.
    rewrite set_cell_neq by exact Hne. auto.
  - unfold Api.is_op, Api.loc_of in *. rewrite input_add_cell by exact Hid. auto.
Qed.

Lemma input_mat : forall s w id l, locs_ok s -> is_op s id = false -> loc_of s id = Some l ->
  store (materialise s w) l = store s l.
Proof.
  intros s w id l Hl Ho Hk. rewrite store_materialise. apply mat_miss.
  intros id' _ Ho' Hk'. rewrite (loc_inj s id' id l Hl Hk' Hk) in Ho'. congruence.
Qed.

Lemma input_step : forall s c id l, wf s -> locs_ok s -> valid s c ->
  is_op s id = false -> loc_of s id = Some l ->
  store (step s c) l = store s l /\ is_op (step s c) id = false /\ loc_of (step s c) id = Some l.
Proof.
  intros s c id l Hwf Hl Hv Ho Hk. pose proof (loc_of_lt s id l Hk) as Hid.
  destruct c; simpl in Hv; simpl step.
  - split; [reflexivity|]. unfold Api.is_op, Api.loc_of in *.
    rewrite input_add_cell by exact Hid. auto.
  - split; [eapply input_mat; eauto|]. split; [exact Ho | exact Hk].
  - split; [apply (lazy_call_no_effect s (StoreLazy id0 target) l); reflexivity|].
    apply input_store_lazy; auto.
  - destruct Hv as (Hid0 & Ht & _).
    destruct (store_lazy_inv s id0 target Hwf Hl Hid0 Ht) as [_ Hl1].
    destruct (input_store_lazy s id0 target id l Ho Hk) as [Ho1 Hk1].
    split.
    + rewrite (input_mat _ _ id l Hl1 Ho1 Hk1).
      apply (lazy_call_no_effect s (StoreLazy id0 target) l). reflexivity.
    + split; [exact Ho1 | exact Hk1].
  - auto.
  - auto.
Qed.

Theorem inputs_untouched : forall s h id l, wf s -> locs_ok s -> valid_history s h ->
  is_op s id = false -> loc_of s id = Some l ->
  store (run s h) l = store s l.
Proof.
  intros s h; revert s. induction h as [|c h IH]; intros s id l Hwf Hl Hv Ho Hk.
  - reflexivity.
  - destruct Hv as [Hv Hh].
    change (store (run (step s c) h) l = store s l).
    destruct (invariants_preserved s c Hwf Hl Hv) as [Hwf' Hl'].
    destruct (input_step s c id l Hwf Hl Hv Ho Hk) as (Hs & Ho' & Hk').
    rewrite (IH (step s c) id l Hwf' Hl' Hh Ho' Hk'). exact Hs.
Qed.

(* ------------------------------------------------------------------ *)
(* targets hold denotations                                            *)
(* ------------------------------------------------------------------ *)

Lemma op_at : forall s id l, is_op s id = true -> loc_of s id = Some l ->
  exists c f a, nth_error (cells s) id = Some c /\ cexpr c = Op f a /\ cloc c = l.
Proof.
  intros s id l Ho Hk. unfold Api.is_op, Api.loc_of in *.
  destruct (nth_error (cells s) id) as [c|]; [|discriminate].
  destruct (cexpr c) as [i|f a] eqn:Ec; [discriminate|].
  simpl in Hk. injection Hk as Hk. exists c, f, a. auto.
Qed.

Lemma op_at_rev : forall s id c f a, nth_error (cells s) id = Some c -> cexpr c = Op f a ->
  is_op s id = true /\ loc_of s id = Some (cloc c).
Proof.
  intros s id c f a Hn Hc. unfold Api.is_op, Api.loc_of. rewrite Hn, Hc. auto.
Qed.

Lemma ok_add_cell : forall s e l rt, wf s -> store_ok s -> fresh_empty s -> next_loc s <= l ->
  store_ok (add_cell s e l rt) /\ fresh_empty (add_cell s e l rt).
Proof.
  intros s e l rt Hwf Hok Hfr Hl. split.
  - intros id l0 Ho Hk.
    destruct (op_at _ _ _ Ho Hk) as (c & f & a & Hn & Hc & Hcl).
    unfold Api.add_cell in Hn. simpl in Hn. apply nth_error_snoc in Hn.
    change (store (add_cell s e l rt) l0) with (store s l0).
    destruct Hn as [[Hlt Hn]|[Hid Hcx]].
    + destruct (op_at_rev s id c f a Hn Hc) as [Ho' Hk']. rewrite Hcl in Hk'.
      rewrite (den_cext s (add_cell s e l rt) id Hwf (cext_add_cell s e l rt) Hlt).
      exact (Hok id l0 Ho' Hk').
    + subst. left. simpl. apply Hfr. exact Hl.
  - intros l0 Hl0. unfold Api.add_cell in *. simpl in *. apply Hfr. lia.
Qed.

Lemma ok_retarget : forall s id c f a t, wf s -> store_ok s -> fresh_empty s ->
  nth_error (cells s) id = Some c -> cexpr c = Op f a -> next_loc s <= t ->
  store_ok (retarget s id (Op f a) t) /\ fresh_empty (retarget s id (Op f a) t).
Proof.
  intros s id c f a t Hwf Hok Hfr Hn Hc Ht. split.
  - intros id' l0 Ho Hk.
    destruct (op_at _ _ _ Ho Hk) as (c' & f' & a' & Hn' & Hc' & Hcl).
    unfold retarget in Hn'. simpl in Hn'. apply set_cell_inv in Hn'.
    change (store (retarget s id (Op f a) t) l0) with (store s l0).
    destruct Hn' as [[Hj [Hcx _]]|[Hne Hn']].
    + subst. left. simpl. apply Hfr. exact Ht.
    + destruct (op_at_rev s id' c' f' a' Hn' Hc') as [Ho' Hk']. rewrite Hcl in Hk'.
      assert (Hlt : id' < length (cells s)) by (apply nth_error_Some; congruence).
      rewrite (den_cext s (retarget s id (Op f a) t) id' Hwf (cext_retarget s id c f a t Hn Hc) Hlt).
      exact (Hok id' l0 Ho' Hk').
  - intros l0 Hl0. unfold retarget in *. simpl in *. apply Hfr. lia.
Qed.

Lemma ok_store_lazy : forall s id t, wf s -> store_ok s -> fresh_empty s -> next_loc s <= t ->
  store_ok (store_lazy s id t) /\ fresh_empty (store_lazy s id t).
Proof.
  intros s id t Hwf Hok Hfr Ht.
  destruct (store_lazy_cases s id t) as [[_ H]|[(c & f & a & Hn & Hc & _ & H & _)|(_ & H & _)]];
    rewrite H.
  - auto.
  - eapply ok_retarget; eauto.
  - apply ok_add_cell; auto.
Qed.

Lemma ok_mat : forall s w, locs_ok s -> store_ok s -> fresh_empty s ->
  store_ok (materialise s w) /\ fresh_empty (materialise s w).
Proof.
  intros s w Hl Hok Hfr. split.
  - intros id l Ho Hk.
    change (is_op s id = true) in Ho. change (loc_of s id = Some l) in Hk.
    change (den (materialise s w) id) with (den s id).
    rewrite store_materialise.
    destruct (mat_either s w (store s) l) as [H|(id' & _ & _ & Hk' & H)]; rewrite H.
    + exact (Hok id l Ho Hk).
    + right. rewrite (loc_inj s id' id l Hl Hk' Hk). reflexivity.
  - intros l Hl0. change (next_loc s <= l) in Hl0. rewrite store_materialise.
    rewrite mat_miss; [apply Hfr; exact Hl0|].
    intros id _ _ Hk. apply (loc_bound s id l Hl) in Hk. lia.
Qed.

Lemma ok_step : forall s c, wf s -> locs_ok s -> store_ok s -> fresh_empty s -> valid s c ->
  store_ok (step s c) /\ fresh_empty (step s c).
Proof.
  intros s c Hwf Hl Hok Hfr Hv. destruct c; simpl in Hv; simpl step.
  - apply ok_add_cell; auto.
  - apply ok_mat; auto.
  - destruct Hv. apply ok_store_lazy; auto.
  - destruct Hv as (Hid & Ht & _).
    destruct (store_lazy_inv s id target Hwf Hl Hid Ht) as [_ Hl1].
    destruct (ok_store_lazy s id target Hwf Hok Hfr Ht) as [Hok1 Hfr1].
    apply ok_mat; auto.
  - auto.
  - auto.
Qed.

Theorem targets_hold_denotations_strong : forall s h, wf s -> locs_ok s -> store_ok s ->
  fresh_empty s -> valid_history s h -> store_ok (run s h) /\ fresh_empty (run s h).
Proof.
  intros s h; revert s. induction h as [|c h IH]; intros s Hwf Hl Hok Hfr Hv.
  - split; [exact Hok | exact Hfr].
  - destruct Hv as [Hv Hh].
    change (store_ok (run (step s c) h) /\ fresh_empty (run (step s c) h)).
    destruct (invariants_preserved s c Hwf Hl Hv) as [Hwf' Hl'].
    destruct (ok_step s c Hwf Hl Hok Hfr Hv) as [Hok' Hfr'].
    apply IH; auto.
Qed.

(* CHANGED w.r.t. the target: the premise that locations >= next_loc are empty is added
   (see targets_need_fresh_empty in Props/Api.v for the counterexample without it). *)
Theorem targets_hold_denotations : forall s h, wf s -> locs_ok s -> store_ok s ->
  (forall l, next_loc s <= l -> store s l = None) ->
  valid_history s h -> store_ok (run s h).
Proof.
  intros s h Hwf Hl Hok Hfr Hv.
  exact (proj1 (targets_hold_denotations_strong s h Hwf Hl Hok Hfr Hv)).
Qed.

(* ------------------------------------------------------------------ *)
(* eager store                                                         *)
(* ------------------------------------------------------------------ *)

Lemma den_fuel_S : forall f cs id,
  den_fuel (S f) cs id =
  match nth_error cs id with
  | None => None
  | Some c =>
    match cexpr c with
    | Inp i => Some (inp i)
    | Op g args =>
      let vals := map (den_fuel f cs) args in
      if forallb (fun o => match o with Some _ => true | None => false end) vals
      then Some (opf g (flat_map (fun o => match o with Some v => [v] | None => [] end) vals))
      else None
    end
  end.
Proof. reflexivity. Qed.

Lemma den_copy : forall s id t rt, wf s -> id < length (cells s) ->
  den (add_cell s (Op ident [id]) t rt) (length (cells s)) =
  option_map (fun v => opf ident [v]) (den s id).
Proof.
  intros s id t rt Hwf Hid.
  unfold Api.den. rewrite den_fuel_S.
  unfold Api.add_cell. simpl Api.cells.
  rewrite nth_error_snoc_new. simpl cexpr. cbv zeta. simpl map.
  set (x := {| cexpr := Op ident [id]; cloc := t; retargeted := rt |}).
  assert (Hd : den_fuel (length (cells s ++ [x])) (cells s ++ [x]) id =
               den_fuel (S (length (cells s))) (cells s) id).
  { symmetry. apply den_fuel_ext.
    - exact Hwf.
    - intros j Hj. rewrite nth_error_snoc_old by lia. reflexivity.
    - lia.
    - rewrite app_length. simpl. lia. }
  cbv beta iota zeta. cbn [map]. rewrite Hd.
  destruct (den_fuel (S (length (cells s))) (cells s) id); reflexivity.
Qed.

Theorem eager_store_fills_target : forall s id t written, wf s -> locs_ok s ->
  valid s (StoreEager id t written) ->
  store (step s (StoreEager id t written)) t = den s id \/
  (exists v, den s id = Some v /\ store (step s (StoreEager id t written)) t = Some (opf ident [v])).
Proof.
  intros s id t written Hwf Hl (Hid & Ht & _).
  change (step s (StoreEager id t written))
    with (materialise (store_lazy s id t) (written ++ [store_result s id])).
  rewrite store_materialise.
  destruct (store_lazy_inv s id t Hwf Hl Hid Ht) as [_ Hl1].
  assert (Hin : In (store_result s id) (written ++ [store_result s id]))
    by (apply in_or_app; right; left; reflexivity).
  revert Hl1 Hin.
  destruct (store_lazy_cases s id t) as [[Hn _]|[(c & f & a & Hn & Hc & _ & H & Hr)|(_ & H & Hr)]].
  - exfalso. apply nth_error_None in Hn. lia.
  - rewrite H, Hr. intros Hl1 Hin. left.
    assert (Hn1 : nth_error (cells (retarget s id (Op f a) t)) id =
                  Some {| cexpr := Op f a; cloc := t; retargeted := true |}).
    { unfold retarget. simpl. apply set_cell_eq. exact Hid. }
    destruct (op_at_rev _ id _ f a Hn1 eq_refl) as [Ho1 Hk1]. simpl in Hk1.
    rewrite (mat_hit _ _ _ t id Hl1 Hin Ho1 Hk1).
    apply den_cext; auto. eapply cext_retarget; eauto.
  - rewrite H, Hr. intros Hl1 Hin.
    assert (Hn1 : nth_error (cells (add_cell s (Op ident [id]) t true)) (length (cells s)) =
                  Some {| cexpr := Op ident [id]; cloc := t; retargeted := true |}).
    { unfold Api.add_cell. simpl. apply nth_error_snoc_new. }
    destruct (op_at_rev _ _ _ ident [id] Hn1 eq_refl) as [Ho1 Hk1]. simpl in Hk1.
    rewrite (mat_hit _ _ _ t _ Hl1 Hin Ho1 Hk1).
    rewrite den_copy by assumption.
    destruct (den s id) as [v|]; simpl.
    + right. exists v. auto.
    + left. reflexivity.
Qed.

End T.
