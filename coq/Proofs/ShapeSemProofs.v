From CubedV Require Import Model.Util Model.OpsKF Model.ShapeSem.

(* the accumulation dtype never narrows and keeps the kind (bool counts as integer) *)
Theorem upcast_never_narrows : forall d, itemsize d <= itemsize (upcast d).
Proof. destruct d; cbn; repeat constructor. Qed.
Theorem upcast_kind : forall d,
  kind_of (upcast d) = match kind_of d with KBool => KSigned | k => k end.
Proof. destruct d; reflexivity. Qed.
Theorem upcast_idempotent : forall d, upcast (upcast d) = upcast d.
Proof. destruct d; reflexivity. Qed.
Theorem all_dt_complete : forall d, In d all_dt.
Proof. destruct d; cbn; tauto. Qed.
Theorem reduced_chunks_sum : forall k nb, sumn (reduced_chunks k nb) = pr_numblocks k nb.
Proof.
  intros. unfold reduced_chunks. induction (pr_numblocks k nb) as [|n IH]; [reflexivity|].
  cbn [repeat sumn]. rewrite IH. reflexivity.
Qed.
