From CubedV Require Import Model.Util Model.Resume.
Local Open Scope Z_scope.

Lemma outputs_complete_true : forall outs, outputs_complete outs = Some true ->
  forall t, In t outs -> t = NoTarget \/ exists nd n, t = Arr nd n n /\ nd <> 0.
Proof.
  induction outs as [|o outs IH]; intros H t Hin; [destruct Hin|].
  destruct o as [| | |nd nci n]; unfold outputs_complete in *; cbn [outputs_complete_with] in H; try discriminate.
  - destruct Hin as [<-|Hin]; [left; reflexivity|exact (IH H _ Hin)].
  - unfold incompleteZ in H. destruct (Z.eqb_spec nd 0) as [E|E]; cbn [orb] in H; [discriminate|].
    destruct (Z.eqb_spec nci n) as [E2|E2]; cbn [negb] in H; [|discriminate].
    destruct Hin as [<-|Hin]; [right; exists nd, n; subst; split; [reflexivity|assumption]|exact (IH H _ Hin)].
Qed.

(* an operation with a pipeline is skipped only if it has at least one stored output and every stored output is present,
   is not zero-dimensional and has all its chunks initialised *)
Theorem skipped_only_if_complete : forall outs,
  already_computedZ true outs = Some true ->
  (exists t, In t outs /\ t <> NoTarget) /\
  forall t, In t outs -> t = NoTarget \/ exists nd n, t = Arr nd n n /\ nd <> 0.
Proof.
  intros outs. unfold already_computedZ, already_computed_with. cbn [negb].
  destruct (forallb is_notarget outs) eqn:F; [discriminate|]. intros H. split.
  - assert (forall l, forallb is_notarget l = false -> exists t, In t l /\ t <> NoTarget) as K.
    { induction l as [|x l IHl]; cbn [forallb]; [discriminate|].
      destruct x; cbn [is_notarget andb]; intros Hx;
        try (eexists; split; [left; reflexivity|discriminate]).
      destruct (IHl Hx) as [t [Ht Hn]]. exists t. split; [right; assumption|assumption]. }
    exact (K _ F).
  - exact (outputs_complete_true _ H).
Qed.

(* conversely a complete operation is skipped (no output raises) *)
Theorem complete_is_skipped : forall outs,
  (exists t, In t outs /\ t <> NoTarget) ->
  (forall t, In t outs -> t = NoTarget \/ exists nd n, t = Arr nd n n /\ nd <> 0) ->
  already_computedZ true outs = Some true.
Proof.
  intros outs [t0 [Hin0 Hn0]] Hall. unfold already_computedZ, already_computed_with. cbn [negb].
  assert (forallb is_notarget outs = false) as F.
  { destruct (forallb is_notarget outs) eqn:F; [|reflexivity].
    rewrite forallb_forall in F. specialize (F _ Hin0). destruct t0; try discriminate. congruence. }
  rewrite F. clear F t0 Hin0 Hn0.
  induction outs as [|o outs IH]; [reflexivity|].
  destruct (Hall o (or_introl eq_refl)) as [->|[nd [n [-> Hnd]]]]; cbn [outputs_complete_with].
  - apply IH. intros t Ht. apply Hall. right. assumption.
  - unfold incompleteZ. destruct (Z.eqb_spec nd 0); [contradiction|]. rewrite Z.eqb_refl. cbn.
    apply IH. intros t Ht. apply Hall. right. assumption.
Qed.

(* never skipped: create-arrays (no output has a target), zero-dimensional outputs, a missing or partly written output *)
Theorem create_arrays_never_skipped : forall outs, (forall t, In t outs -> t = NoTarget) -> already_computedZ true outs = Some false.
Proof.
  intros outs H. unfold already_computedZ, already_computed_with. cbn [negb].
  assert (forallb is_notarget outs = true) as F by (apply forallb_forall; intros t Ht; rewrite (H _ Ht); reflexivity).
  now rewrite F.
Qed.

Theorem incomplete_output_not_skipped : forall outs t,
  In t outs -> (t = Missing \/ exists nd nci n, t = Arr nd nci n /\ (nd = 0 \/ nci <> n)) ->
  already_computedZ true outs <> Some true.
Proof.
  intros outs t Hin Ht H. apply skipped_only_if_complete in H. destruct H as [_ H].
  destruct (H _ Hin) as [->|[nd [n [-> Hnd]]]].
  - destruct Ht as [Ht|[? [? [? [Ht _]]]]]; discriminate.
  - destruct Ht as [Ht|[nd' [nci' [n' [Ht [E|E]]]]]]; [discriminate| |]; inversion Ht; subst; contradiction.
Qed.

Theorem no_pipeline_is_skipped : forall outs, already_computedZ false outs = Some true.
Proof. reflexivity. Qed.
