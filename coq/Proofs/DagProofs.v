From CubedV Require Import Model.Util Model.Keys Model.Fusion Model.Memory Model.Dag Proofs.FusionProofs.

(* ------------------------------------------------------------------------- *)
(* generic list facts                                                         *)
(* ------------------------------------------------------------------------- *)
Lemma mem_nat_In x l : mem_nat x l = true <-> In x l.
Proof.
  induction l as [|y l IH]; cbn; [split; [discriminate|tauto]|].
  rewrite orb_true_iff, IH, Nat.eqb_eq. split; intros [H|H]; auto.
Qed.

Lemma mem_nat_nIn x l : mem_nat x l = false <-> ~ In x l.
Proof.
  rewrite <- mem_nat_In. destruct (mem_nat x l); split; congruence.
Qed.

Lemma nodup_app_iff {A} (l1 l2 : list A) :
  NoDup (l1 ++ l2) <-> NoDup l1 /\ NoDup l2 /\ (forall x, In x l1 -> ~ In x l2).
Proof.
  induction l1 as [|a l1 IH]; cbn.
  - split; [intros H; repeat split; auto; constructor | tauto].
  - split.
    + intros H. inversion H as [|? ? Hn Hd]; subst. apply IH in Hd. destruct Hd as (H1 & H2 & H3).
      repeat split; auto.
      * constructor; auto. intros Hi. apply Hn. apply in_or_app; auto.
      * intros x [->|Hx]; auto. intros Hi. apply Hn. apply in_or_app; auto.
    + intros (H1 & H2 & H3). inversion H1 as [|? ? Hn Hd]; subst. constructor.
      * intros Hi. apply in_app_or in Hi. destruct Hi as [Hi|Hi]; auto. apply (H3 a); auto.
      * apply IH. repeat split; auto.
Qed.

Lemma nodup_flat_map_filter {A C} (f : A -> list C) (g : A -> bool) (l : list A) :
  NoDup (flat_map f l) -> NoDup (flat_map f (filter g l)).
Proof.
  induction l as [|a l IH]; cbn; auto. intros H. apply nodup_app_iff in H. destruct H as (H1 & H2 & H3).
  destruct (g a); cbn; auto. apply nodup_app_iff. repeat split; auto.
  intros x Hx Hi. apply (H3 x Hx). apply in_flat_map in Hi. destruct Hi as (y & Hy & Hxy).
  apply in_flat_map. exists y. split; auto. apply filter_In in Hy. tauto.
Qed.

Lemma map_as_flat_map {A C} (f : A -> C) (l : list A) : map f l = flat_map (fun x => [f x]) l.
Proof. induction l; cbn; congruence. Qed.

Lemma nodup_map_filter {A C} (f : A -> C) (g : A -> bool) (l : list A) :
  NoDup (map f l) -> NoDup (map f (filter g l)).
Proof. rewrite !map_as_flat_map. apply nodup_flat_map_filter. Qed.

Lemma nodup_map_inj {A C} (f : A -> C) (l : list A) x y :
  NoDup (map f l) -> In x l -> In y l -> f x = f y -> x = y.
Proof.
  induction l as [|a l IH]; cbn; [tauto|]. intros H Hx Hy E. inversion H as [|? ? Hn Hd]; subst.
  destruct Hx as [->|Hx], Hy as [->|Hy]; auto.
  - exfalso. apply Hn. rewrite E. apply in_map; auto.
  - exfalso. apply Hn. rewrite <- E. apply in_map; auto.
Qed.

Lemma filter_len1 {A} (f : A -> bool) (l : list A) x y :
  length (filter f l) = 1 -> In x l -> f x = true -> In y l -> f y = true -> x = y.
Proof.
  intros H Hx Fx Hy Fy.
  assert (Ix : In x (filter f l)) by (apply filter_In; auto).
  assert (Iy : In y (filter f l)) by (apply filter_In; auto).
  destruct (filter f l) as [|a [|b r]]; cbn in H; try discriminate.
  destruct Ix as [<-|[]], Iy as [<-|[]]. reflexivity.
Qed.

Lemma filter_all {A} (f : A -> bool) (l : list A) :
  (forall x, In x l -> f x = true) -> filter f l = l.
Proof.
  induction l as [|a l IH]; cbn; auto. intros H. rewrite (H a) by auto. f_equal. apply IH. auto.
Qed.

Lemma map_id_in {A} (f : A -> A) (l : list A) :
  (forall x, In x l -> f x = x) -> map f l = l.
Proof. intros H. rewrite <- (map_id l) at 2. apply map_ext_in. exact H. Qed.

Lemma combine_map_self {A C} (f : A -> C) (l : list A) :
  combine l (map f l) = map (fun a => (a, f a)) l.
Proof. induction l; cbn; congruence. Qed.

Lemma lookup_flat_some {V} (F : nat -> option V) (S : list nat) n :
  lookup n (flat_map (fun t : nat * option V => match snd t with Some v => [(fst t, v)] | None => [] end)
                     (map (fun a => (a, F a)) S))
  = if mem_nat n S then F n else None.
Proof.
  induction S as [|a S IH]; cbn [map flat_map mem_nat]; [reflexivity|].
  cbn [snd fst]. destruct (Nat.eqb n a) eqn:E.
  - apply Nat.eqb_eq in E. subst a. cbn [orb]. destruct (F n) as [v|] eqn:EF; cbn [app lookup].
    + rewrite Nat.eqb_refl. reflexivity.
    + rewrite IH. destruct (mem_nat n S); auto.
  - cbn [orb]. destruct (F a) as [v|]; cbn [app lookup]; [rewrite E|]; exact IH.
Qed.

(* ------------------------------------------------------------------------- *)
(* induction principles for the nested trees                                  *)
(* ------------------------------------------------------------------------- *)
Section KtreeInd.
  Variable P : ktree -> Prop.
  Variable HLeaf : forall k, P (KLeaf k).
  Variable HList : forall l, Forall P l -> P (KList l).
  Variable HIter : forall l, Forall P l -> P (KIter l).
  Variable HArgs : forall o l, Forall P l -> P (KArgs o l).
  Fixpoint ktree_ind' (t : ktree) : P t :=
    match t with
    | KLeaf k => HLeaf k
    | KList l => HList l ((fix go (l : list ktree) : Forall P l :=
                   match l with [] => Forall_nil P | x :: r => Forall_cons x (ktree_ind' x) (go r) end) l)
    | KIter l => HIter l ((fix go (l : list ktree) : Forall P l :=
                   match l with [] => Forall_nil P | x :: r => Forall_cons x (ktree_ind' x) (go r) end) l)
    | KArgs o l => HArgs o l ((fix go (l : list ktree) : Forall P l :=
                   match l with [] => Forall_nil P | x :: r => Forall_cons x (ktree_ind' x) (go r) end) l)
    end.
End KtreeInd.

Section VtreeInd.
  Variable B : Type.
  Variable P : vtree B -> Prop.
  Variable HLeaf : forall b, P (VLeaf b).
  Variable HList : forall l, Forall P l -> P (VList l).
  Variable HIter : forall l, Forall P l -> P (VIter l).
  Variable HArgs : forall o l, Forall P l -> P (VArgs o l).
  Fixpoint vtree_ind' (t : vtree B) : P t :=
    match t with
    | VLeaf b => HLeaf b
    | VList l => HList l ((fix go (l : list (vtree B)) : Forall P l :=
                   match l with [] => Forall_nil P | x :: r => Forall_cons x (vtree_ind' x) (go r) end) l)
    | VIter l => HIter l ((fix go (l : list (vtree B)) : Forall P l :=
                   match l with [] => Forall_nil P | x :: r => Forall_cons x (vtree_ind' x) (go r) end) l)
    | VArgs o l => HArgs o l ((fix go (l : list (vtree B)) : Forall P l :=
                   match l with [] => Forall_nil P | x :: r => Forall_cons x (vtree_ind' x) (go r) end) l)
    end.
End VtreeInd.

Lemma map_ext_Forall {A C} (f g : A -> C) (l : list A) :
  Forall (fun x => f x = g x) l -> map f l = map g l.
Proof. induction 1; cbn; congruence. Qed.

(* ------------------------------------------------------------------------- *)
(* locality of map_nested / run_op, extensionality in the dictionaries        *)
(* ------------------------------------------------------------------------- *)
Section Ext.
Variable B : Type.

Lemma map_nested_ext (e1 e2 : key -> B) (t : ktree) :
  (forall l, In l (leaves t) -> e1 l = e2 l) -> map_nested e1 t = map_nested e2 t.
Proof.
  induction t as [k|l IH|l IH|o l IH] using ktree_ind'; cbn [map_nested leaves]; intros H.
  - f_equal. apply H. cbn. auto.
  - f_equal. apply map_ext_Forall. rewrite Forall_forall in *. intros x Hx. apply IH; auto.
    intros y Hy. apply H. apply in_flat_map. eauto.
  - f_equal. apply map_ext_Forall. rewrite Forall_forall in *. intros x Hx. apply IH; auto.
    intros y Hy. apply H. apply in_flat_map. eauto.
  - f_equal. apply map_ext_Forall. rewrite Forall_forall in *. intros x Hx. apply IH; auto.
    intros y Hy. apply H. apply in_flat_map. eauto.
Qed.

Lemma run_op_local (kf0 : keyfun) (f : bfun B) (e1 e2 : key -> B) (k : key) :
  (forall t l, In t (snd (kf0 k)) -> In l (leaves t) -> e1 l = e2 l) ->
  run_op B kf0 f e1 k = run_op B kf0 f e2 k.
Proof.
  intros H. unfold run_op. f_equal. apply map_ext_in. intros t Ht. apply map_nested_ext. eauto.
Qed.

Lemma apply_ck_ext (kd1 kd2 : name -> option keyfun) k :
  (forall n, kd1 n = kd2 n) -> apply_ck kd1 k = apply_ck kd2 k.
Proof. intros H. unfold apply_ck. rewrite H. reflexivity. Qed.

Lemma apply_elem_ext (kd1 kd2 : name -> option keyfun) t :
  (forall n, kd1 n = kd2 n) -> apply_elem kd1 t = apply_elem kd2 t.
Proof. intros H. destruct t; cbn; auto. rewrite (apply_ck_ext kd1 kd2 k H). reflexivity. Qed.

Lemma apply_key_ext (kd1 kd2 : name -> option keyfun) t :
  (forall n, kd1 n = kd2 n) -> apply_key kd1 t = apply_key kd2 t.
Proof.
  intros H. destruct t; cbn; auto.
  - rewrite (apply_ck_ext kd1 kd2 k H). reflexivity.
  - f_equal. apply map_ext. intros a. apply apply_elem_ext; auto.
  - f_equal. apply map_ext. intros a. apply apply_elem_ext; auto.
Qed.

Lemma fused_kf_ext (kf0 : keyfun) (kd1 kd2 : name -> option keyfun) k :
  (forall n, kd1 n = kd2 n) -> fused_kf kf0 kd1 k = fused_kf kf0 kd2 k.
Proof. intros H. unfold fused_kf. f_equal. apply map_ext. intros a. apply apply_key_ext; auto. Qed.

Lemma apply_fun_ext (fd1 fd2 : name -> option (bfun B)) v :
  (forall n, fd1 n = fd2 n) -> apply_fun B fd1 v = apply_fun B fd2 v.
Proof.
  intros H. induction v as [b|l IH|l IH|o l IH] using vtree_ind'; cbn [apply_fun]; auto.
  - f_equal. apply map_ext_Forall. exact IH.
  - f_equal. apply map_ext_Forall. exact IH.
  - rewrite H. reflexivity.
Qed.

Lemma fused_fun_ext (f : bfun B) (fd1 fd2 : name -> option (bfun B)) args :
  (forall n, fd1 n = fd2 n) -> fused_fun B f fd1 args = fused_fun B f fd2 args.
Proof. intros H. unfold fused_fun. f_equal. apply map_ext. intros a. apply apply_fun_ext; auto. Qed.

Lemma run_op_fused_ext (kf0 : keyfun) (f : bfun B) kd1 kd2 fd1 fd2 (e : key -> B) k :
  (forall n, kd1 n = kd2 n) -> (forall n, fd1 n = fd2 n) ->
  run_op B (fused_kf kf0 kd1) (fused_fun B f fd1) e k = run_op B (fused_kf kf0 kd2) (fused_fun B f fd2) e k.
Proof.
  intros Hk Hf. unfold run_op. rewrite (fused_kf_ext kf0 kd1 kd2 k Hk). apply fused_fun_ext. exact Hf.
Qed.
End Ext.

(* ------------------------------------------------------------------------- *)
(* the C02 statements                                                          *)
(* ------------------------------------------------------------------------- *)
Section C02.
Variable B : Type.

Definition op_names_ok (p : primop B) : Prop :=
  (forall k, fst (kf B p k) = fst k) /\
  (forall k t l, In t (snd (kf B p k)) -> In l (leaves t) -> In (fst l) (srcs B p)).
Definition op_unfused (p : primop B) : Prop :=
  forall k, forallb unfused_arg (snd (kf B p k)) = true.

Definition wf_ops (L : list (opnode B)) : Prop :=
  NoDup (map (oid B) L) /\
  NoDup (flat_map (outs B) L) /\
  (forall L1 o L2, L = L1 ++ o :: L2 ->
     forall a, In a (ins B o) -> ~ In a (flat_map (outs B) (o :: L2))) /\
  (forall o p, In o L -> prim B o = Some p -> incl (srcs B p) (ins B o) /\ op_names_ok p).

Definition all_unfused (L : list (opnode B)) : Prop :=
  forall o p, In o L -> prim B o = Some p -> op_unfused p.

Definition removed_by (c : optcfg) (d : dag B) (o : opnode B) : list name :=
  if can_fuse_predecessors B c d o then
    match prim B o with Some p => fused_arrays B (pred_info B d p) | None => [] end
  else [].

(* ---- the per-array view of pred_info ------------------------------------- *)
Definition info_of (d : dag B) (a : name) : option (opnode B) * name * bool :=
  match producers B d a with
  | [pre] => (Some pre, a,
              match prim B pre with
              | Some pp => fsucc B pp && Nat.eqb (out_degree_unique B d a) 1
              | None => false
              end)
  | _ => (None, a, false)
  end.
Definition flag (d : dag B) (a : name) : bool := snd (info_of d a).
Definition pprim (d : dag B) (a : name) : option (primop B) :=
  match info_of d a with (Some pre, _, true) => prim B pre | _ => None end.

Lemma pred_info_eq d p : pred_info B d p = map (info_of d) (srcs B p).
Proof. reflexivity. Qed.

Lemma pred_prims_eq d p : pred_prims B d p = map (pprim d) (srcs B p).
Proof. unfold pred_prims. rewrite pred_info_eq, map_map. reflexivity. Qed.

Lemma info_name d a : snd (fst (info_of d a)) = a.
Proof. unfold info_of. destruct (producers B d a) as [|x [|y r]]; reflexivity. Qed.

(* array a is fused into its consumer: unique producer pre with primitive op pp *)
Definition fusable (d : dag B) (a : name) (pre : opnode B) (pp : primop B) : Prop :=
  producers B d a = [pre] /\ prim B pre = Some pp /\ fsucc B pp = true /\ out_degree_unique B d a = 1.

Lemma flag_true d a : flag d a = true ->
  exists pre pp, fusable d a pre pp /\ info_of d a = (Some pre, a, true) /\ pprim d a = Some pp.
Proof.
  unfold flag, pprim, fusable, info_of. destruct (producers B d a) as [|pre [|y r]]; cbn; try discriminate.
  destruct (prim B pre) as [pp|] eqn:Ep; try discriminate. intros H. rewrite H.
  apply andb_prop in H. destruct H as [H1 H2]. apply Nat.eqb_eq in H2.
  exists pre, pp. repeat split; auto.
Qed.

Lemma flag_false d a : flag d a = false -> pprim d a = None.
Proof.
  unfold flag, pprim. destruct (info_of d a) as [[op n] b]. cbn. intros ->. destruct op; reflexivity.
Qed.

Lemma pprim_some d a pp : pprim d a = Some pp -> flag d a = true.
Proof. destruct (flag d a) eqn:E; auto. rewrite (flag_false _ _ E). discriminate. Qed.

Lemma info_some d a pre b : info_of d a = (Some pre, a, b) -> producers B d a = [pre].
Proof.
  unfold info_of. destruct (producers B d a) as [|x [|y r]]; try discriminate. intros H. congruence.
Qed.

Lemma fused_arrays_in d S a :
  In a (fused_arrays B (map (info_of d) S)) <-> In a S /\ flag d a = true.
Proof.
  unfold fused_arrays. rewrite in_flat_map. split.
  - intros (t & Ht & Ha). apply in_map_iff in Ht. destruct Ht as (a' & <- & Ha').
    fold (flag d a') in Ha. destruct (flag d a') eqn:E; [|destruct Ha].
    rewrite info_name in Ha. destruct Ha as [<-|[]]. auto.
  - intros [Ha E]. exists (info_of d a). split; [apply in_map; auto|].
    fold (flag d a). rewrite E, info_name. left; reflexivity.
Qed.

Lemma fused_pre_ids_in d S i :
  In i (fused_pre_ids B (map (info_of d) S)) <->
  exists a pre, In a S /\ info_of d a = (Some pre, a, true) /\ i = oid B pre.
Proof.
  unfold fused_pre_ids. rewrite in_flat_map. split.
  - intros (t & Ht & Hi). apply in_map_iff in Ht. destruct Ht as (a & <- & Ha).
    pose proof (info_name d a) as Hn.
    destruct (info_of d a) as [[[pre|] n] [|]] eqn:E; cbn in Hi, Hn; try destruct Hi as [<-|[]]; try destruct Hi.
    subst n. exists a, pre. auto.
  - intros (a & pre & Ha & E & ->). exists (info_of d a). split; [apply in_map; auto|].
    rewrite E. left; reflexivity.
Qed.

Lemma fused_ins_in d S s :
  In s (flat_map (fun t : option (opnode B) * name * bool =>
                    match t with (Some pre, _, true) => ins B pre | _ => [] end) (map (info_of d) S)) <->
  exists a pre, In a S /\ info_of d a = (Some pre, a, true) /\ In s (ins B pre).
Proof.
  rewrite in_flat_map. split.
  - intros (t & Ht & Hi). apply in_map_iff in Ht. destruct Ht as (a & <- & Ha).
    pose proof (info_name d a) as Hn.
    destruct (info_of d a) as [[[pre|] n] [|]] eqn:E; cbn in Hi, Hn; try destruct Hi.
    subst n. exists a, pre. auto.
  - intros (a & pre & Ha & E & Hs). exists (info_of d a). split; [apply in_map; auto|].
    rewrite E. exact Hs.
Qed.

(* what a successful can_fuse_predecessors check guarantees *)
Lemma can_fuse_inv c d o p :
  can_fuse_predecessors B c d o = true -> prim B o = Some p ->
  (forall a, In a (srcs B p) -> ~ In a (requested c)) /\
  (forall a pre b, In a (srcs B p) -> info_of d a = (Some pre, a, b) -> length (outs B pre) <= 1).
Proof.
  intros H Hp. unfold can_fuse_predecessors in H. rewrite Hp in H. cbv zeta in H.
  change (pred_info B d p) with (map (info_of d) (srcs B p)) in H.
  destruct (negb (fpred B p)); [discriminate|].
  destruct (forallb _ _); [discriminate|].
  destruct (existsb (fun t : option (opnode B) * name * bool => mem_nat (snd (fst t)) (requested c))
              (map (info_of d) (srcs B p))) eqn:E1; [discriminate|].
  destruct (existsb (fun t : option (opnode B) * name * bool =>
        match fst (fst t) with Some pre => 1 <? length (outs B pre) | None => false end)
              (map (info_of d) (srcs B p))) eqn:E2; [discriminate|].
  clear H. split.
  - intros a Ha Hr. assert (X : existsb (fun t : option (opnode B) * name * bool =>
        mem_nat (snd (fst t)) (requested c)) (map (info_of d) (srcs B p)) = true).
    { apply existsb_exists. exists (info_of d a). split; [apply in_map; auto|].
      rewrite info_name. apply mem_nat_In; auto. }
    congruence.
  - intros a pre b Ha E. destruct (Nat.leb_spec (length (outs B pre)) 1) as [Hl|Hl]; auto.
    assert (X : existsb (fun t : option (opnode B) * name * bool =>
        match fst (fst t) with Some pre => 1 <? length (outs B pre) | None => false end)
        (map (info_of d) (srcs B p)) = true).
    { apply existsb_exists. exists (info_of d a). split; [apply in_map; auto|].
      rewrite E. cbn [fst]. apply Nat.ltb_lt. exact Hl. }
    congruence.
Qed.

(* T0 *)
Theorem requested_not_removed : forall c d o a, In a (requested c) -> ~ In a (removed_by c d o).
Proof.
  intros c d o a Hr Hi. unfold removed_by in Hi.
  destruct (can_fuse_predecessors B c d o) eqn:Hc; [|destruct Hi].
  destruct (prim B o) as [p|] eqn:Hp; [|destruct Hi].
  rewrite pred_info_eq in Hi. apply fused_arrays_in in Hi. destruct Hi as [Ha _].
  destruct (can_fuse_inv c d o p Hc Hp) as [H1 _]. exact (H1 a Ha Hr).
Qed.

(* ---- semantics: stability and locality ------------------------------------ *)
Definition agree_out (A : list name) (e e' : env B) : Prop :=
  forall k, ~ In (fst k) A -> e k = e' k.

Lemma exec_op_stable e x k : ~ In (fst k) (outs B x) -> exec_op B e x k = e k.
Proof.
  unfold exec_op. destruct (prim B x); auto. intros H. apply mem_nat_nIn in H. rewrite H. reflexivity.
Qed.

Lemma exec_op_prim e x q k : prim B x = Some q ->
  exec_op B e x k = if mem_nat (fst k) (outs B x) then run_op B (kf B q) (fn B q) e k else e k.
Proof. unfold exec_op. intros ->. reflexivity. Qed.

Lemma fold_stable M : forall e k,
  ~ In (fst k) (flat_map (outs B) M) -> fold_left (exec_op B) M e k = e k.
Proof.
  induction M as [|x M IH]; cbn [fold_left flat_map]; auto. intros e k H.
  rewrite IH; [apply exec_op_stable|]; intros Hi; apply H; apply in_or_app; auto.
Qed.

Definition reads_outside (A : list name) (x : opnode B) : Prop :=
  forall q, prim B x = Some q -> op_names_ok q /\ forall s, In s (srcs B q) -> ~ In s A.

Lemma exec_op_local A e e' x :
  agree_out A e e' -> reads_outside A x -> agree_out A (exec_op B e x) (exec_op B e' x).
Proof.
  intros HR Hx k Hk. unfold exec_op. destruct (prim B x) as [q|] eqn:Eq; [|apply HR; auto].
  destruct (mem_nat (fst k) (outs B x)); [|apply HR; auto].
  destruct (Hx q Eq) as [[_ Hn] Hs]. apply run_op_local. intros t l Ht Hl.
  apply HR. apply Hs. eapply Hn; eauto.
Qed.

Lemma exec_op_removed A e e' x :
  agree_out A e e' -> incl (outs B x) A -> agree_out A (exec_op B e x) e'.
Proof.
  intros HR Hx k Hk. rewrite exec_op_stable; auto.
Qed.

Lemma fold_agree_filter A g M :
  (forall x, In x M -> g x = false -> incl (outs B x) A) ->
  (forall x, In x M -> g x = true -> reads_outside A x) ->
  forall e e', agree_out A e e' ->
  agree_out A (fold_left (exec_op B) M e) (fold_left (exec_op B) (filter g M) e').
Proof.
  induction M as [|x M IH]; intros H1 H2 e e' HR; cbn [fold_left filter]; auto.
  destruct (g x) eqn:Eg; cbn [fold_left].
  - apply IH; [intros; apply H1; cbn; auto | intros; apply H2; cbn; auto |].
    apply exec_op_local; auto. apply H2; cbn; auto.
  - apply IH; [intros; apply H1; cbn; auto | intros; apply H2; cbn; auto |].
    apply exec_op_removed; auto. apply H1; cbn; auto.
Qed.

Lemma fold_agree_all A M :
  (forall x, In x M -> reads_outside A x) ->
  forall e e', agree_out A e e' ->
  agree_out A (fold_left (exec_op B) M e) (fold_left (exec_op B) M e').
Proof.
  induction M as [|x M IH]; intros H2 e e' HR; cbn [fold_left]; auto.
  apply IH; [intros; apply H2; cbn; auto|]. apply exec_op_local; auto. apply H2; cbn; auto.
Qed.

Lemma nodup_mid {A C} (f : A -> C) (L1 L2 : list A) (o : A) :
  NoDup (map f (L1 ++ o :: L2)) ->
  (forall x, In x L1 -> f x <> f o) /\ (forall x, In x L2 -> f x <> f o) /\
  (forall x y, In x L1 -> In y L2 -> f x <> f y).
Proof.
  rewrite map_app. cbn [map]. intros H. pose proof (NoDup_remove_2 _ _ _ H) as Hn.
  apply NoDup_remove_1 in H. apply nodup_app_iff in H. destruct H as (_ & _ & H3).
  repeat split.
  - intros x Hx E. apply Hn. apply in_or_app. left. rewrite <- E. apply in_map; auto.
  - intros x Hx E. apply Hn. apply in_or_app. right. rewrite <- E. apply in_map; auto.
  - intros x y Hx Hy E. apply (H3 (f x)); [apply in_map; auto|]. rewrite E. apply in_map; auto.
Qed.

Lemma info_of_prod d a pre : producers B d a = [pre] -> exists b, info_of d a = (Some pre, a, b).
Proof. unfold info_of. intros ->. eauto. Qed.

(* ---- the context of one successful fusion step ----------------------------- *)
Definition fA (d : dag B) (p : primop B) : list name := fused_arrays B (pred_info B d p).
Definition fids (d : dag B) (p : primop B) : list nat := fused_pre_ids B (pred_info B d p).
Definition keep (d : dag B) (p : primop B) (x : opnode B) : bool := negb (mem_nat (oid B x) (fids d p)).

(* ---- the dictionaries built by fuse_multiple -------------------------------- *)
Definition named_of (d : dag B) (p : primop B) : list (name * primop B) :=
  flat_map (fun t : name * option (primop B) => match snd t with Some pp => [(fst t, pp)] | None => [] end)
           (combine (srcs B p) (pred_prims B d p)).

Lemma named_lookup d p n :
  lookup n (named_of d p) = if mem_nat n (srcs B p) then pprim d n else None.
Proof. unfold named_of. rewrite pred_prims_eq, combine_map_self. apply lookup_flat_some. Qed.

Definition preds_of (d : dag B) (p : primop B) : name -> option (keyfun * bfun B) :=
  fun n => option_map (fun pp => (kf B pp, fn B pp)) (lookup n (named_of d p)).

Lemma fuse_multiple_kf d p k :
  kf B (fuse_multiple B p (pred_prims B d p)) k = fused_kf (kf B p) (kd B (preds_of d p)) k.
Proof.
  unfold fuse_multiple. cbn [kf]. apply fused_kf_ext. intros n.
  unfold kd, preds_of, named_of. destruct (lookup n _); reflexivity.
Qed.

Lemma run_fused d p (e : env B) k :
  run_op B (kf B (fuse_multiple B p (pred_prims B d p))) (fn B (fuse_multiple B p (pred_prims B d p))) e k
  = run_op B (fused_kf (kf B p) (kd B (preds_of d p))) (fused_fun B (fn B p) (fd B (preds_of d p))) e k.
Proof.
  unfold fuse_multiple. cbn [kf fn]. apply run_op_fused_ext; intros n;
    unfold kd, fd, preds_of, named_of; destruct (lookup n _); reflexivity.
Qed.


Section FuseCtx.
Variables (c : optcfg) (d : dag B) (o : opnode B) (p : primop B) (L1 L2 : list (opnode B)).
Variable Hwf : wf_ops (dops B d).
Variable HL : dops B d = L1 ++ o :: L2.
Variable Hp : prim B o = Some p.
Variable Hcan : can_fuse_predecessors B c d o = true.

Lemma ctx_in_o : In o (dops B d).
Proof. rewrite HL. apply in_or_app. right. left. reflexivity. Qed.

Lemma ctx_in_L1 x : In x L1 -> In x (dops B d).
Proof. intros H. rewrite HL. apply in_or_app. auto. Qed.

Lemma ctx_in_L2 x : In x L2 -> In x (dops B d).
Proof. intros H. rewrite HL. apply in_or_app. right. right. auto. Qed.

Lemma ctx_src_ins : incl (srcs B p) (ins B o).
Proof. destruct Hwf as (_ & _ & _ & H4). apply (H4 o p ctx_in_o Hp). Qed.

Lemma ctx_names_p : op_names_ok p.
Proof. destruct Hwf as (_ & _ & _ & H4). apply (H4 o p ctx_in_o Hp). Qed.

Lemma ctx_topo_o a : In a (ins B o) -> ~ In a (flat_map (outs B) (o :: L2)).
Proof. destruct Hwf as (_ & _ & H3 & _). apply (H3 L1 o L2 HL). Qed.

Lemma ctx_oid :
  (forall x, In x L1 -> oid B x <> oid B o) /\ (forall x, In x L2 -> oid B x <> oid B o) /\
  (forall x y, In x L1 -> In y L2 -> oid B x <> oid B y).
Proof. destruct Hwf as (H1 & _). rewrite HL in H1. apply nodup_mid. exact H1. Qed.

Lemma ctx_fusable a pre pp : In a (srcs B p) -> fusable d a pre pp ->
  In pre L1 /\ outs B pre = [a] /\ op_names_ok pp /\ incl (srcs B pp) (ins B pre) /\ oid B pre <> oid B o.
Proof.
  intros Ha (Hprod & Hpp & _ & _).
  assert (Hin : In pre (dops B d) /\ In a (outs B pre)).
  { assert (X : In pre (producers B d a)) by (rewrite Hprod; left; reflexivity).
    unfold producers in X. apply filter_In in X. destruct X as [X1 X2]. apply mem_nat_In in X2. auto. }
  destruct Hin as [Hin Hout].
  assert (H1 : In pre L1).
  { rewrite HL in Hin. apply in_app_or in Hin. destruct Hin as [Hin|Hin]; auto. exfalso.
    apply (ctx_topo_o a (ctx_src_ins a Ha)). apply in_flat_map. exists pre. auto. }
  split; auto. split.
  - destruct (info_of_prod d a pre Hprod) as [b Hb].
    destruct (can_fuse_inv c d o p Hcan Hp) as [_ Hlen]. specialize (Hlen a pre b Ha Hb).
    destruct (outs B pre) as [|x [|y r]]; cbn in Hlen, Hout; [destruct Hout| |lia].
    destruct Hout as [->|[]]. reflexivity.
  - destruct Hwf as (_ & _ & _ & H4). destruct (H4 pre pp Hin Hpp) as [Hi Hn].
    split; [exact Hn|]. split; [exact Hi|]. destruct ctx_oid as (X & _). apply X. exact H1.
Qed.

Lemma ctx_A_in a : In a (fA d p) <-> In a (srcs B p) /\ flag d a = true.
Proof. unfold fA. rewrite pred_info_eq. apply fused_arrays_in. Qed.

Lemma ctx_other x : In x (dops B d) -> oid B x <> oid B o -> reads_outside (fA d p) x.
Proof.
  intros Hx Hne q Hq. destruct Hwf as (_ & _ & _ & H4). destruct (H4 x q Hx Hq) as [Hi Hn].
  split; auto. intros s Hs HA. apply ctx_A_in in HA. destruct HA as [Hsp Hf].
  destruct (flag_true d s Hf) as (pre & pp & (_ & _ & _ & Hdeg) & _).
  unfold out_degree_unique in Hdeg. apply Hne. f_equal.
  apply (filter_len1 (fun o0 => mem_nat s (ins B o0)) (dops B d) x o Hdeg); auto.
  - apply mem_nat_In. apply Hi. exact Hs.
  - apply ctx_in_o.
  - apply mem_nat_In. apply ctx_src_ins. exact Hsp.
Qed.

Lemma ctx_ids i : In i (fids d p) ->
  exists a pre pp, In a (srcs B p) /\ fusable d a pre pp /\ i = oid B pre.
Proof.
  unfold fids. rewrite pred_info_eq. intros H. apply fused_pre_ids_in in H.
  destruct H as (a & pre & Ha & E & ->).
  assert (Hf : flag d a = true) by (unfold flag; rewrite E; reflexivity).
  destruct (flag_true d a Hf) as (pre' & pp & Hfu & E' & _).
  rewrite E in E'. injection E' as <-. exists a, pre, pp. auto.
Qed.

Lemma ctx_ids_conv a pre pp : In a (srcs B p) -> fusable d a pre pp -> In (oid B pre) (fids d p).
Proof.
  intros Ha Hfu. unfold fids. rewrite pred_info_eq. apply fused_pre_ids_in.
  exists a, pre. repeat split; auto.
  destruct Hfu as (Hprod & Hpp & Hfs & Hdeg). unfold info_of. rewrite Hprod, Hpp, Hfs, Hdeg. reflexivity.
Qed.

Lemma ctx_removed x : In x (dops B d) -> keep d p x = false -> incl (outs B x) (fA d p).
Proof.
  intros Hx Hk. unfold keep in Hk. apply negb_false_iff in Hk. apply mem_nat_In in Hk.
  destruct (ctx_ids _ Hk) as (a & pre & pp & Ha & Hfu & E).
  destruct (ctx_fusable a pre pp Ha Hfu) as (H1 & Ho & _).
  assert (x = pre).
  { destruct Hwf as (Hnd & _). apply (nodup_map_inj (oid B) (dops B d)); auto. apply ctx_in_L1; auto. }
  subst x. rewrite Ho. intros z [<-|[]]. apply ctx_A_in. split; auto.
  destruct Hfu as (Hprod & Hpp & Hfs & Hdeg). unfold flag, info_of. rewrite Hprod, Hpp, Hfs, Hdeg. reflexivity.
Qed.

Lemma ctx_keep_o : keep d p o = true.
Proof.
  unfold keep. apply negb_true_iff. apply mem_nat_nIn. intros H.
  destruct (ctx_ids _ H) as (a & pre & pp & Ha & Hfu & E).
  destruct (ctx_fusable a pre pp Ha Hfu) as (_ & _ & _ & _ & Hne). congruence.
Qed.

Lemma ctx_keep_L2 x : In x L2 -> keep d p x = true.
Proof.
  intros Hx. unfold keep. apply negb_true_iff. apply mem_nat_nIn. intros H.
  destruct (ctx_ids _ H) as (a & pre & pp & Ha & Hfu & E).
  destruct (ctx_fusable a pre pp Ha Hfu) as (H1 & _).
  destruct ctx_oid as (_ & _ & H3). apply (H3 pre x H1 Hx). auto.
Qed.

Lemma ctx_shape (o' : opnode B) :
  map (fun x => if Nat.eqb (oid B x) (oid B o) then o' else x) (filter (keep d p) (L1 ++ o :: L2))
  = filter (keep d p) L1 ++ o' :: L2.
Proof.
  rewrite filter_app. cbn [filter]. rewrite ctx_keep_o. rewrite (filter_all _ L2 ctx_keep_L2).
  rewrite map_app. cbn [map]. rewrite Nat.eqb_refl. destruct ctx_oid as (H1 & H2 & _). f_equal; [|f_equal].
  - apply map_id_in. intros x Hx. apply filter_In in Hx. destruct Hx as [Hx _].
    apply H1 in Hx. apply Nat.eqb_neq in Hx. rewrite Hx. reflexivity.
  - apply map_id_in. intros x Hx. apply H2 in Hx. apply Nat.eqb_neq in Hx. rewrite Hx. reflexivity.
Qed.

Lemma ctx_preds_wf : preds_wf B (preds_of d p).
Proof.
  intros n kfp fp H k Hk. unfold preds_of in H. rewrite named_lookup in H.
  destruct (mem_nat n (srcs B p)) eqn:Em; [|discriminate].
  destruct (pprim d n) as [pp|] eqn:Epp; [|discriminate]. cbn in H. injection H as <- <-.
  apply mem_nat_In in Em. destruct (flag_true d n (pprim_some d n pp Epp)) as (pre & pp' & Hfu & _ & Epp').
  rewrite Epp in Epp'. injection Epp' as <-.
  destruct (ctx_fusable n pre pp Em Hfu) as (_ & _ & [Hn _] & _). rewrite Hn. exact Hk.
Qed.

(* the value stored for a fused array is what its producer computes from the
   environment reached in the optimized run *)
Lemma ctx_pre_value e0 e1' a pre pp l :
  In a (srcs B p) -> fusable d a pre pp -> fst l = a ->
  agree_out (fA d p) (fold_left (exec_op B) L1 e0) e1' ->
  fold_left (exec_op B) L1 e0 l = run_op B (kf B pp) (fn B pp) e1' l.
Proof.
  intros Ha Hfu Hl HR. destruct (ctx_fusable a pre pp Ha Hfu) as (H1 & Ho & Hn & Hi & Hne).
  destruct (in_split pre L1 H1) as (La & Lb & E).
  assert (HL' : dops B d = La ++ pre :: (Lb ++ o :: L2)).
  { rewrite HL, E, <- app_assoc. reflexivity. }
  assert (Htopo : forall s, In s (ins B pre) -> ~ In s (flat_map (outs B) (pre :: Lb ++ o :: L2))).
  { destruct Hwf as (_ & _ & H3 & _). apply (H3 La pre (Lb ++ o :: L2) HL'). }
  assert (Huniq : ~ In a (flat_map (outs B) Lb)).
  { destruct Hwf as (_ & Hnd & _). rewrite HL', flat_map_app in Hnd. cbn [flat_map] in Hnd.
    apply nodup_app_iff in Hnd. destruct Hnd as (_ & Hnd & _).
    apply nodup_app_iff in Hnd. destruct Hnd as (_ & _ & Hnd).
    intros Hi'. apply (Hnd a); [rewrite Ho; left; reflexivity|].
    rewrite flat_map_app. apply in_or_app. auto. }
  rewrite E in HR |- *. rewrite fold_left_app in HR |- *. cbn [fold_left] in HR |- *.
  rewrite fold_stable by (rewrite Hl; exact Huniq).
  destruct Hfu as (_ & Hpp & _). unfold exec_op at 1. rewrite Hpp, Ho, Hl. cbn [mem_nat]. rewrite Nat.eqb_refl.
  cbn [orb]. apply run_op_local. intros t l' Ht Hl'.
  assert (Hs : In (fst l') (srcs B pp)) by (destruct Hn as [_ Hn]; eapply Hn; eauto).
  rewrite <- HR.
  - symmetry. rewrite (fold_stable Lb); [apply exec_op_stable|].
    + intros X. apply (Htopo _ (Hi _ Hs)). cbn [flat_map]. apply in_or_app. auto.
    + intros X. apply (Htopo _ (Hi _ Hs)). cbn [flat_map]. apply in_or_app. right.
      rewrite flat_map_app. apply in_or_app. auto.
  - destruct (ctx_other pre (ctx_in_L1 pre H1) Hne pp Hpp) as [_ X]. apply X. exact Hs.
Qed.

Lemma ctx_eval e0 k (o' : opnode B) :
  op_unfused p ->
  prim B o' = Some (fuse_multiple B p (pred_prims B d p)) -> outs B o' = outs B o ->
  ~ In (fst k) (fA d p) ->
  fold_left (exec_op B) (filter (keep d p) L1 ++ o' :: L2) e0 k
  = fold_left (exec_op B) (L1 ++ o :: L2) e0 k.
Proof.
  intros Hunf Hprim Houts Hk. rewrite !fold_left_app. cbn [fold_left]. symmetry.
  revert k Hk. apply fold_agree_all.
  - intros x Hx. apply ctx_other; [apply ctx_in_L2; auto|]. destruct ctx_oid as (_ & X & _). auto.
  - assert (R1 : agree_out (fA d p) (fold_left (exec_op B) L1 e0)
                                    (fold_left (exec_op B) (filter (keep d p) L1) e0)).
    { apply fold_agree_filter.
      - intros x Hx Hkp. apply ctx_removed; auto. apply ctx_in_L1; auto.
      - intros x Hx _. apply ctx_other; [apply ctx_in_L1; auto|]. destruct ctx_oid as (X & _). auto.
      - intros k' _. reflexivity. }
    intros k' Hk'. rewrite (exec_op_prim _ o p k' Hp), (exec_op_prim _ o' _ k' Hprim), Houts.
    destruct (mem_nat (fst k') (outs B o)); [|apply R1; auto].
    rewrite run_fused.
    destruct (fusion_sound B (preds_of d p) (kf B p) (fn B p)
                (fold_left (exec_op B) (filter (keep d p) L1) e0) k' ctx_preds_wf (Hunf k')) as [-> _].
    apply run_op_local. intros t l Ht Hl.
    assert (Hs : In (fst l) (srcs B p)) by (destruct ctx_names_p as [_ Hn]; eapply Hn; eauto).
    unfold read_through, preds_of. rewrite named_lookup.
    apply mem_nat_In in Hs. rewrite Hs. apply mem_nat_In in Hs.
    destruct (flag d (fst l)) eqn:Ef.
    + destruct (flag_true d _ Ef) as (pre & pp & Hfu & _ & Epp). rewrite Epp. cbn [option_map].
      apply ctx_pre_value with (a := fst l) (pre := pre); auto.
    + rewrite (flag_false _ _ Ef). cbn [option_map]. apply R1. rewrite ctx_A_in. intros [_ X]. congruence.
Qed.


(* ---- preservation of well-formedness ---------------------------------------- *)
Lemma ctx_info_fusable a pre : info_of d a = (Some pre, a, true) -> exists pp, fusable d a pre pp /\ pprim d a = Some pp.
Proof.
  intros E. assert (Hf : flag d a = true) by (unfold flag; rewrite E; reflexivity).
  destruct (flag_true d a Hf) as (pre' & pp & Hfu & E' & Epp).
  rewrite E in E'. injection E' as <-. eauto.
Qed.

Lemma ctx_pre_topo a pre pp s : In a (srcs B p) -> fusable d a pre pp ->
  In s (ins B pre) -> ~ In s (flat_map (outs B) (o :: L2)).
Proof.
  intros Ha Hfu Hs. destruct (ctx_fusable a pre pp Ha Hfu) as (H1 & _).
  destruct (in_split pre L1 H1) as (La & Lb & E).
  assert (HL' : dops B d = La ++ pre :: (Lb ++ o :: L2)).
  { rewrite HL, E, <- app_assoc. reflexivity. }
  destruct Hwf as (_ & _ & H3 & _). specialize (H3 La pre (Lb ++ o :: L2) HL' s Hs).
  intros X. apply H3. cbn [flat_map]. apply in_or_app. right. rewrite flat_map_app. apply in_or_app. auto.
Qed.

Definition new_ins : list name :=
  filter (fun a => negb (mem_nat a (fA d p))) (ins B o)
  ++ flat_map (fun t : option (opnode B) * name * bool =>
                 match t with (Some pre, _, true) => ins B pre | _ => [] end) (pred_info B d p).

Lemma ctx_new_ins_topo s : In s new_ins -> ~ In s (flat_map (outs B) (o :: L2)).
Proof.
  unfold new_ins. intros H. apply in_app_or in H. destruct H as [H|H].
  - apply filter_In in H. apply ctx_topo_o. tauto.
  - rewrite pred_info_eq in H. apply fused_ins_in in H. destruct H as (a & pre & Ha & E & Hs).
    destruct (ctx_info_fusable a pre E) as (pp & Hfu & _). eapply ctx_pre_topo; eauto.
Qed.

Lemma fm_srcs_in s :
  In s (srcs B (fuse_multiple B p (pred_prims B d p))) <->
  exists a, In a (srcs B p) /\ match pprim d a with Some pp => In s (srcs B pp) | None => s = a end.
Proof.
  unfold fuse_multiple. cbn [srcs]. rewrite pred_prims_eq, combine_map_self, in_flat_map. split.
  - intros (t & Ht & Hs). apply in_map_iff in Ht. destruct Ht as (a & <- & Ha). exists a. split; auto.
    cbn [snd fst] in Hs. destruct (pprim d a); auto. destruct Hs as [<-|[]]. reflexivity.
  - intros (a & Ha & Hs). exists (a, pprim d a). split; [apply in_map_iff; eauto|].
    cbn [snd fst]. destruct (pprim d a); auto. left. auto.
Qed.

Lemma ctx_new_srcs_ins : incl (srcs B (fuse_multiple B p (pred_prims B d p))) new_ins.
Proof.
  intros s Hs. apply fm_srcs_in in Hs. destruct Hs as (a & Ha & Hs). unfold new_ins. apply in_or_app.
  destruct (pprim d a) as [pp|] eqn:Epp.
  - right. rewrite pred_info_eq. apply fused_ins_in.
    destruct (flag_true d a (pprim_some d a pp Epp)) as (pre & pp' & Hfu & E & Epp').
    rewrite Epp in Epp'. injection Epp' as <-.
    destruct (ctx_fusable a pre pp Ha Hfu) as (_ & _ & _ & Hi & _). exists a, pre. auto.
  - left. subst s. apply filter_In. split; [apply ctx_src_ins; auto|].
    apply negb_true_iff. apply mem_nat_nIn. rewrite ctx_A_in. intros [_ Hf].
    destruct (flag_true d a Hf) as (_ & pp & _ & _ & X). congruence.
Qed.

Lemma leaves_apply_ck k0 l :
  In (fst k0) (srcs B p) ->
  In l (flat_map leaves (snd (apply_ck (kd B (preds_of d p)) k0))) ->
  In (fst l) (srcs B (fuse_multiple B p (pred_prims B d p))).
Proof.
  intros Hk0 Hl. apply fm_srcs_in. exists (fst k0). split; auto.
  unfold apply_ck, kd, preds_of in Hl. rewrite named_lookup in Hl.
  apply mem_nat_In in Hk0. rewrite Hk0 in Hl. apply mem_nat_In in Hk0.
  destruct (pprim d (fst k0)) as [pp|] eqn:Epp; cbn [option_map fst snd] in Hl.
  - destruct (flag_true d _ (pprim_some d _ pp Epp)) as (pre & pp' & Hfu & _ & Epp').
    rewrite Epp in Epp'. injection Epp' as <-.
    destruct (ctx_fusable _ pre pp Hk0 Hfu) as (_ & _ & [_ Hn] & _).
    apply in_flat_map in Hl. destruct Hl as (t & Ht & Hl). eapply Hn; eauto.
  - cbn in Hl. destruct Hl as [<-|[]]. reflexivity.
Qed.

Lemma leaves_apply_elem t0 l :
  is_leaf t0 = true -> (forall l0, In l0 (leaves t0) -> In (fst l0) (srcs B p)) ->
  In l (leaves (apply_elem (kd B (preds_of d p)) t0)) ->
  In (fst l) (srcs B (fuse_multiple B p (pred_prims B d p))).
Proof.
  destruct t0 as [k0| | |]; try discriminate. intros _ H0 Hl. cbn [apply_elem leaves] in Hl.
  apply leaves_apply_ck with (k0 := k0); auto. apply H0. left. reflexivity.
Qed.

Lemma leaves_apply_elems l0 l :
  forallb is_leaf l0 = true -> (forall x l1, In x l0 -> In l1 (leaves x) -> In (fst l1) (srcs B p)) ->
  In l (flat_map leaves (map (apply_elem (kd B (preds_of d p))) l0)) ->
  In (fst l) (srcs B (fuse_multiple B p (pred_prims B d p))).
Proof.
  intros Hall H0 Hl. apply in_flat_map in Hl. destruct Hl as (t & Ht & Hl).
  apply in_map_iff in Ht. destruct Ht as (t1 & <- & Ht1).
  rewrite forallb_forall in Hall. eapply leaves_apply_elem; eauto.
Qed.

Lemma leaves_apply_key t0 l :
  unfused_arg t0 = true -> (forall l0, In l0 (leaves t0) -> In (fst l0) (srcs B p)) ->
  In l (leaves (apply_key (kd B (preds_of d p)) t0)) ->
  In (fst l) (srcs B (fuse_multiple B p (pred_prims B d p))).
Proof.
  destruct t0 as [k0|l0|l0|o0 l0]; cbn [unfused_arg apply_key leaves]; intros Hu H0 Hl; try discriminate.
  - apply leaves_apply_ck with (k0 := k0); auto. apply H0. left. reflexivity.
  - eapply leaves_apply_elems; eauto. intros x l1 Hx Hl1. apply H0. apply in_flat_map. eauto.
  - eapply leaves_apply_elems; eauto. intros x l1 Hx Hl1. apply H0. apply in_flat_map. eauto.
Qed.

Lemma ctx_new_names_ok : op_unfused p -> op_names_ok (fuse_multiple B p (pred_prims B d p)).
Proof.
  intros Hunf. destruct ctx_names_p as [Hn1 Hn2]. split.
  - intros k. rewrite fuse_multiple_kf. cbn [fused_kf fst]. apply Hn1.
  - intros k t l Ht Hl. rewrite fuse_multiple_kf in Ht. cbn [fused_kf snd] in Ht.
    apply in_map_iff in Ht. destruct Ht as (t0 & <- & Ht0).
    specialize (Hunf k). rewrite forallb_forall in Hunf.
    apply leaves_apply_key with (t0 := t0); auto. intros l0 Hl0. eapply Hn2; eauto.
Qed.

Lemma ctx_outs_eq (o' : opnode B) : outs B o' = outs B o ->
  flat_map (outs B) (filter (keep d p) L1 ++ o' :: L2)
  = flat_map (outs B) (filter (keep d p) (L1 ++ o :: L2)).
Proof.
  intros H. rewrite filter_app. cbn [filter]. rewrite ctx_keep_o, (filter_all _ L2 ctx_keep_L2).
  rewrite !flat_map_app. cbn [flat_map]. rewrite H. reflexivity.
Qed.


End FuseCtx.

(* ---- shape of the rewritten dag ------------------------------------------------ *)
Definition new_op (d : dag B) (o : opnode B) (p : primop B) : opnode B :=
  {| oid := oid B o; ins := new_ins d o p; outs := outs B o;
     prim := Some (fuse_multiple B p (pred_prims B d p)) |}.

Lemma fuse_dops c d o p L1 L2 :
  wf_ops (dops B d) -> dops B d = L1 ++ o :: L2 -> prim B o = Some p ->
  can_fuse_predecessors B c d o = true ->
  dops B (fuse_predecessors B c d o) = filter (keep d p) L1 ++ new_op d o p :: L2.
Proof.
  intros Hwf HL Hp Hcan. unfold fuse_predecessors. rewrite Hcan, Hp. cbn [dops]. rewrite HL.
  apply (ctx_shape c d o p L1 L2 Hwf HL Hp Hcan).
Qed.

Lemma fuse_noop c d o :
  can_fuse_predecessors B c d o = false \/ prim B o = None -> fuse_predecessors B c d o = d.
Proof.
  unfold fuse_predecessors. intros [->| ->]; auto. destruct (can_fuse_predecessors B c d o); reflexivity.
Qed.

(* T1 *)
Theorem fuse_predecessors_preserves : forall c d o e0 k,
  wf_ops (dops B d) -> In o (dops B d) ->
  (forall p, prim B o = Some p -> op_unfused p) ->
  ~ In (fst k) (removed_by c d o) ->
  eval B (fuse_predecessors B c d o) e0 k = eval B d e0 k.
Proof.
  intros c d o e0 k Hwf Hin Hunf Hk. unfold removed_by in Hk.
  destruct (can_fuse_predecessors B c d o) eqn:Hcan; [|rewrite fuse_noop; auto].
  destruct (prim B o) as [p|] eqn:Hp; [|rewrite fuse_noop; auto].
  destruct (in_split o _ Hin) as (L1 & L2 & HL). unfold eval.
  rewrite (fuse_dops c d o p L1 L2 Hwf HL Hp Hcan), HL.
  apply (ctx_eval c d o p L1 L2 Hwf HL Hp Hcan); auto.
Qed.

(* ---- the topological clause as a recursive predicate --------------------------- *)
Fixpoint topo (L : list (opnode B)) : Prop :=
  match L with
  | [] => True
  | x :: L' => (forall a, In a (ins B x) -> ~ In a (flat_map (outs B) (x :: L'))) /\ topo L'
  end.

Lemma topo_iff L :
  topo L <-> (forall L1 o L2, L = L1 ++ o :: L2 ->
                forall a, In a (ins B o) -> ~ In a (flat_map (outs B) (o :: L2))).
Proof.
  induction L as [|x L IH]; cbn [topo].
  - split; auto. intros _ [|y L1] o L2 E; discriminate.
  - split.
    + intros [H T] [|y L1] o L2 E; cbn [app] in E; injection E as -> ->; auto.
      rewrite IH in T. apply (T L1 o L2 eq_refl).
    + intros H. split; [apply (H [] x L eq_refl)|]. apply IH. intros L1 o L2 E.
      apply (H (x :: L1) o L2). rewrite E. reflexivity.
Qed.

Lemma outs_sub g L1 (o o' : opnode B) L2 s : outs B o' = outs B o ->
  In s (flat_map (outs B) (filter g L1 ++ o' :: L2)) -> In s (flat_map (outs B) (L1 ++ o :: L2)).
Proof.
  intros Ho. rewrite !flat_map_app. cbn [flat_map]. rewrite Ho. intros H. apply in_app_or in H.
  apply in_or_app. destruct H as [H|H]; auto. left. apply in_flat_map in H. destruct H as (x & Hx & Hs).
  apply filter_In in Hx. apply in_flat_map. exists x. tauto.
Qed.

Lemma topo_replace g L1 (o o' : opnode B) L2 : outs B o' = outs B o ->
  (forall a, In a (ins B o') -> ~ In a (flat_map (outs B) (o :: L2))) ->
  topo (L1 ++ o :: L2) -> topo (filter g L1 ++ o' :: L2).
Proof.
  intros Ho Hi. induction L1 as [|x L1 IH]; cbn [app filter topo].
  - intros [H T]. split; auto. cbn [flat_map] in *. rewrite Ho. exact Hi.
  - intros [H T]. destruct (g x); cbn [app topo]; auto. split; auto.
    intros a Ha X. apply (H a Ha). cbn [flat_map] in *. apply in_app_or in X. apply in_or_app.
    destruct X as [X|X]; auto. right. eapply outs_sub; eauto.
Qed.

(* T2 *)
Theorem fuse_predecessors_wf : forall c d o,
  wf_ops (dops B d) -> In o (dops B d) ->
  (forall p, prim B o = Some p -> op_unfused p) ->
  wf_ops (dops B (fuse_predecessors B c d o)).
Proof.
  intros c d o Hwf Hin Hunf.
  destruct (can_fuse_predecessors B c d o) eqn:Hcan; [|rewrite fuse_noop; auto].
  destruct (prim B o) as [p|] eqn:Hp; [|rewrite fuse_noop; auto].
  destruct (in_split o _ Hin) as (L1 & L2 & HL).
  rewrite (fuse_dops c d o p L1 L2 Hwf HL Hp Hcan).
  pose proof Hwf as (W1 & W2 & W3 & W4). split; [|split; [|split]].
  - rewrite HL in W1. rewrite map_app in *. cbn [map] in *.
    apply nodup_app_iff in W1. destruct W1 as (N1 & N2 & N3). apply nodup_app_iff. repeat split; auto.
    + apply nodup_map_filter. exact N1.
    + intros i Hi. apply N3. apply in_map_iff in Hi. destruct Hi as (x & <- & Hx).
      apply filter_In in Hx. apply in_map. tauto.
  - rewrite (ctx_outs_eq c d o p L1 L2 Hwf HL Hp Hcan) by reflexivity. rewrite <- HL.
    apply nodup_flat_map_filter. exact W2.
  - apply topo_iff. apply topo_replace with (o := o); [reflexivity| |].
    + intros a Ha. apply (ctx_new_ins_topo c d o p L1 L2 Hwf HL Hp Hcan). exact Ha.
    + rewrite <- HL. apply topo_iff. exact W3.
  - intros x q H H0. apply in_app_or in H. destruct H as [H|[H|H]].
    + apply filter_In in H. apply (W4 x q); auto. rewrite HL. apply in_or_app. tauto.
    + subst x. cbn [new_op prim] in H0. injection H0 as <-. split.
      * apply (ctx_new_srcs_ins c d o p L1 L2 Hwf HL Hp Hcan).
      * apply (ctx_new_names_ok c d o p L1 L2 Hwf HL Hp Hcan). auto.
    + apply (W4 x q); auto. rewrite HL. apply in_or_app. right. right. exact H.
Qed.

Theorem fuse_predecessors_others : forall c d o x,
  In x (dops B (fuse_predecessors B c d o)) -> oid B x <> oid B o -> In x (dops B d).
Proof.
  intros c d o x. unfold fuse_predecessors.
  destruct (can_fuse_predecessors B c d o); auto. destruct (prim B o) as [p|]; auto. cbn [dops].
  intros H Hne. apply in_map_iff in H. destruct H as (y & E & Hy). apply filter_In in Hy.
  destruct (Nat.eqb (oid B y) (oid B o)) eqn:Eo.
  - subst x. cbn [oid] in Hne. congruence.
  - subst x. tauto.
Qed.

(* ---- the whole optimizer ----------------------------------------------------------- *)
Lemma optimize_cons c n order d :
  optimize B c (n :: order) d
  = optimize B c order (match find_op B d n with Some o => fuse_predecessors B c d o | None => d end).
Proof. reflexivity. Qed.

Lemma find_op_some d n o : find_op B d n = Some o -> In o (dops B d) /\ oid B o = n.
Proof.
  unfold find_op. intros H. apply find_some in H. destruct H as [H1 H2]. apply Nat.eqb_eq in H2. auto.
Qed.

Lemma optimize_inv c : forall order d,
  wf_ops (dops B d) -> NoDup order ->
  (forall x q, In x (dops B d) -> In (oid B x) order -> prim B x = Some q -> op_unfused q) ->
  forall e0 a cs, In a (requested c) ->
  eval B (optimize B c order d) e0 (a, cs) = eval B d e0 (a, cs).
Proof.
  induction order as [|n order IH]; intros d Hwf Hnd Hunf e0 a cs Ha; [reflexivity|].
  rewrite optimize_cons. inversion Hnd as [|? ? Hn Hnd']; subst.
  destruct (find_op B d n) as [o|] eqn:Ef.
  - destruct (find_op_some d n o Ef) as [Hin Hid].
    assert (Hou : forall p, prim B o = Some p -> op_unfused p).
    { intros p Hp. apply (Hunf o p Hin); auto. rewrite Hid. left. reflexivity. }
    rewrite IH; auto.
    + apply fuse_predecessors_preserves; auto. cbn [fst]. apply requested_not_removed. exact Ha.
    + apply fuse_predecessors_wf; auto.
    + intros x q Hx Hxo Hq.
      assert (Hne : oid B x <> oid B o) by (rewrite Hid; intros E; apply Hn; rewrite <- E; exact Hxo).
      apply (Hunf x q); auto; [|right; exact Hxo]. eapply fuse_predecessors_others; eauto.
  - apply IH; auto. intros x q Hx Hxo Hq. apply (Hunf x q); auto. right. exact Hxo.
Qed.

(* T3 *)
Theorem optimize_preserves : forall c order d e0 a cs,
  wf_ops (dops B d) -> all_unfused (dops B d) -> NoDup order ->
  In a (requested c) ->
  eval B (optimize B c order d) e0 (a, cs) = eval B d e0 (a, cs).
Proof.
  intros c order d e0 a cs Hwf Hall Hnd Ha. apply optimize_inv; auto.
  intros x q Hx _ Hq. apply (Hall x q); auto.
Qed.

Lemma fuse_nodup_ids c d o :
  NoDup (map (oid B) (dops B d)) -> NoDup (map (oid B) (dops B (fuse_predecessors B c d o))).
Proof.
  unfold fuse_predecessors. destruct (can_fuse_predecessors B c d o); auto.
  destruct (prim B o) as [p|]; auto. cbn [dops]. intros H. rewrite map_map.
  rewrite (map_ext _ (oid B)); [apply nodup_map_filter; exact H|].
  intros x. destruct (Nat.eqb (oid B x) (oid B o)) eqn:E; cbn [oid]; auto.
  symmetry. apply Nat.eqb_eq. exact E.
Qed.

Lemma fuse_keeps_requested c d o a x :
  NoDup (map (oid B) (dops B d)) -> In o (dops B d) -> In a (requested c) ->
  In x (dops B d) -> In a (outs B x) ->
  exists x', In x' (dops B (fuse_predecessors B c d o)) /\ oid B x' = oid B x /\ In a (outs B x')
             /\ is_prim B x' = is_prim B x.
Proof.
  intros Hnd Hin Ha Hx Hax. unfold fuse_predecessors.
  destruct (can_fuse_predecessors B c d o) eqn:Hcan; [|exists x; auto].
  destruct (prim B o) as [p|] eqn:Hp; [|exists x; auto]. cbn [dops].
  destruct (can_fuse_inv c d o p Hcan Hp) as [Hreq Hlen].
  match goal with |- exists x', In x' (map ?h _) /\ _ => set (hh := h); exists (hh x) end. split.
  - apply in_map. apply filter_In. split; auto. apply negb_true_iff. apply mem_nat_nIn.
    rewrite pred_info_eq. intros Hi. apply fused_pre_ids_in in Hi.
    destruct Hi as (a' & pre & Ha' & E & Eo). pose proof (info_some d a' pre true E) as Hprod.
    assert (Hpre : In pre (dops B d) /\ In a' (outs B pre)).
    { assert (X : In pre (producers B d a')) by (rewrite Hprod; left; reflexivity).
      unfold producers in X. apply filter_In in X. destruct X as [X1 X2]. apply mem_nat_In in X2. auto. }
    destruct Hpre as [Hpre Hout].
    assert (x = pre) by (apply (nodup_map_inj (oid B) (dops B d)); auto). subst x.
    specialize (Hlen a' pre true Ha' E). apply (Hreq a' Ha').
    destruct (outs B pre) as [|y [|z r]]; cbn in Hlen, Hout, Hax; [destruct Hout| |lia].
    destruct Hout as [->|[]]. destruct Hax as [->|[]]. exact Ha.
  - unfold hh. destruct (Nat.eqb (oid B x) (oid B o)) eqn:E; auto.
    apply Nat.eqb_eq in E. assert (x = o) by (apply (nodup_map_inj (oid B) (dops B d)); auto). subst x.
    cbn [oid outs]. repeat split; auto. unfold is_prim. cbn [prim]. rewrite Hp. reflexivity.
Qed.

(* T4 *)
Theorem requested_still_materialized : forall c order d a o,
  wf_ops (dops B d) -> In a (requested c) -> In o (dops B d) -> In a (outs B o) ->
  exists o', In o' (dops B (optimize B c order d)) /\ oid B o' = oid B o /\ In a (outs B o')
             /\ is_prim B o' = is_prim B o.
Proof.
  intros c order d a o Hwf Ha. destruct Hwf as (Hnd & _). revert d o Hnd.
  induction order as [|n order IH]; intros d o Hnd Ho Hao; [exists o; auto|].
  rewrite optimize_cons. destruct (find_op B d n) as [o1|] eqn:Ef; [|apply IH; auto].
  destruct (find_op_some d n o1 Ef) as [Hin1 _].
  destruct (fuse_keeps_requested c d o1 a o Hnd Hin1 Ha Ho Hao) as (x' & Hx' & E1 & E2 & E3).
  destruct (IH (fuse_predecessors B c d o1) x' (fuse_nodup_ids c d o1 Hnd) Hx' E2) as (o' & H1 & H2 & H3 & H4).
  exists o'. repeat split; auto; congruence.
Qed.

End C02.

(* ---- the unfused side condition of fuse_predecessors_wf cannot be dropped ------------
   op 2 hands its source chunk over wrapped in a FunctionArgs node (not the shape an
   unfused key function returns); fusing op 1 into it leaves the key function untouched
   while array 1 disappears from the source list *)
Module WfCounterexample.
Definition cpp1 : primop unit :=
  {| bw := true; fpred := true; fsucc := true; ntasks := 1; proj := 0; allowed := 0; reserved := 0;
     nib := []; chunkmem := 0; srcs := []; kf := fun k => (fst k, []); fn := fun _ => tt |}.
Definition cp2 : primop unit :=
  {| bw := true; fpred := true; fsucc := true; ntasks := 1; proj := 0; allowed := 0; reserved := 0;
     nib := [1]; chunkmem := 0; srcs := [1];
     kf := fun k => (fst k, [KArgs 0 [KLeaf (1, snd k)]]); fn := fun _ => tt |}.
Definition cop1 : opnode unit := {| oid := 1; ins := []; outs := [1]; prim := Some cpp1 |}.
Definition cop2 : opnode unit := {| oid := 2; ins := [1]; outs := [2]; prim := Some cp2 |}.
Definition cdag : dag unit := {| dops := [cop1; cop2]; virtuals := [] |}.
Definition ccfg : optcfg :=
  {| requested := [2]; max_src := 4; max_nib := None; always_fuse := []; never_fuse := [] |}.

Lemma cdag_wf : wf_ops unit (dops unit cdag).
Proof.
  split; [|split; [|split]].
  - cbn. repeat constructor; cbn; intuition discriminate.
  - cbn. repeat constructor; cbn; intuition discriminate.
  - apply topo_iff. cbn. intuition congruence.
  - intros x q Hx Hq. cbn in Hx. destruct Hx as [<-|[<-|[]]]; cbn in Hq; injection Hq as <-; (split; [|split]); cbn; auto.
    + intros a H; exact H.
    + intros a H; exact H.
    + intros k t l [<-|[]]. cbn. intros [<-|[]]. cbn. auto.
Qed.

Theorem fuse_predecessors_wf_needs_unfused :
  wf_ops unit (dops unit cdag) /\ In cop2 (dops unit cdag) /\
  ~ wf_ops unit (dops unit (fuse_predecessors unit ccfg cdag cop2)).
Proof.
  split; [exact cdag_wf|]. split; [right; left; reflexivity|].
  intros (_ & _ & _ & W4).
  set (x' := hd cop2 (dops unit (fuse_predecessors unit ccfg cdag cop2))).
  set (q' := match prim unit x' with Some q => q | None => cp2 end).
  assert (H1 : In x' (dops unit (fuse_predecessors unit ccfg cdag cop2))) by (vm_compute; left; reflexivity).
  assert (H2 : prim unit x' = Some q') by (vm_compute; reflexivity).
  destruct (W4 x' q' H1 H2) as [_ [_ Hn]].
  specialize (Hn (2, []) (KArgs 0 [KLeaf (1, [])]) (1, [])).
  vm_compute in Hn. apply Hn; auto.
Qed.
End WfCounterexample.
