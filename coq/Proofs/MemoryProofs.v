From CubedV Require Import Model.Util Model.Keys Model.Fusion Model.Memory Model.Dag.
Local Open Scope Z_scope.

(* ------------------------------------------------------------------------- *)
(* list helpers                                                              *)
(* ------------------------------------------------------------------------- *)
Lemma sumz_app : forall l1 l2, sumz (l1 ++ l2) = sumz l1 + sumz l2.
Proof. induction l1; intros; cbn [app sumz]; [lia | rewrite IHl1; lia]. Qed.

Lemma sumz_nonneg : forall l, (forall x, In x l -> 0 <= x) -> 0 <= sumz l.
Proof.
  induction l; intros H; cbn [sumz]; [lia|].
  assert (0 <= a) by (apply H; left; reflexivity).
  assert (0 <= sumz l) by (apply IHl; intros; apply H; right; assumption). lia.
Qed.

Lemma maxz_nonneg : forall l, 0 <= maxz l.
Proof. induction l; cbn [maxz]; lia. Qed.

Lemma maxz_ge : forall l x, In x l -> x <= maxz l.
Proof.
  induction l; intros x H; [destruct H|]. cbn [maxz].
  destruct H as [->|H]; [lia|]. apply IHl in H. lia.
Qed.

(* ------------------------------------------------------------------------- *)
(* calc_projected                                                            *)
(* ------------------------------------------------------------------------- *)
Lemma fold_calc : forall rc inputs r,
  fold_left (fun acc i => acc + i * rc + i) inputs r
  = r + sumz (map (fun i => i * (rc + 1)) inputs).
Proof.
  induction inputs; intros; cbn [fold_left map sumz]; [lia|].
  rewrite IHinputs. lia.
Qed.

Theorem calc_projected_closed : forall reserved inputs operation output rc wc,
  calc_projected reserved inputs operation output rc wc
  = reserved + sumz (map (fun i => i * (rc + 1)) inputs) + operation + output * (wc + 1).
Proof. intros. unfold calc_projected. rewrite fold_calc. lia. Qed.

Theorem calc_projected_monotone : forall r i1 i2 op out rc wc x, 0 <= rc -> 0 <= x ->
  calc_projected r (i1 ++ x :: i2) op out rc wc >= calc_projected r (i1 ++ i2) op out rc wc.
Proof.
  intros. rewrite !calc_projected_closed, !map_app, !sumz_app. cbn [map sumz].
  assert (0 <= x * (rc + 1)) by (apply Z.mul_nonneg_nonneg; lia). lia.
Qed.

(* ------------------------------------------------------------------------- *)
(* the memory modeller                                                       *)
(* ------------------------------------------------------------------------- *)
Lemma step_cur : forall m p, cur (peak_step m p) = cur m + snd p.
Proof. intros. unfold peak_step, free, allocate. cbn [cur peak]. lia. Qed.

Lemma step_peak_ge_peak : forall m p, peak m <= peak (peak_step m p).
Proof. intros. unfold peak_step, free, allocate. cbn [cur peak]. lia. Qed.

Lemma step_peak_ge_fst : forall m p, cur m + fst p <= peak (peak_step m p).
Proof. intros. unfold peak_step, free, allocate. cbn [cur peak]. lia. Qed.

Lemma step_peak_le : forall m p,
  peak (peak_step m p) <= Z.max (peak m) (Z.max (cur m + fst p) (cur m + snd p)).
Proof. intros. unfold peak_step, free, allocate. cbn [cur peak]. lia. Qed.

Lemma run_cur : forall ps m, cur (fold_left peak_step ps m) = cur m + sumz (map snd ps).
Proof.
  induction ps; intros; cbn [fold_left map sumz]; [lia|].
  rewrite IHps, step_cur. lia.
Qed.

Lemma run_peak_mono : forall ps m, peak m <= peak (fold_left peak_step ps m).
Proof.
  induction ps; intros; cbn [fold_left]; [lia|].
  pose proof (IHps (peak_step m a)). pose proof (step_peak_ge_peak m a). lia.
Qed.

(* the prefix bound holds from any starting state (and needs no sign condition) *)
Lemma run_prefix : forall l1 p l2 m,
  cur m + sumz (map snd l1) + fst p <= peak (fold_left peak_step (l1 ++ p :: l2) m).
Proof.
  intros. rewrite fold_left_app. cbn [fold_left].
  pose proof (run_peak_mono l2 (peak_step (fold_left peak_step l1 m) p)).
  pose proof (step_peak_ge_fst (fold_left peak_step l1 m) p).
  pose proof (run_cur l1 m). lia.
Qed.

Theorem peak_bounds_prefix : forall ps, (forall p, In p ps -> 0 <= snd p) ->
  forall l1 p l2, ps = l1 ++ p :: l2 -> peak_projected ps >= sumz (map snd l1) + fst p.
Proof.
  intros ps _ l1 p l2 ->. unfold peak_projected.
  pose proof (run_prefix l1 p l2 mm0). cbn [cur mm0] in H. lia.
Qed.

Theorem peak_bounds_each : forall ps, (forall p, In p ps -> 0 <= snd p) ->
  forall p, In p ps -> peak_projected ps >= fst p.
Proof.
  intros ps Hnn p Hin. destruct (in_split _ _ Hin) as (l1 & l2 & E).
  pose proof (peak_bounds_prefix ps Hnn l1 p l2 E).
  assert (0 <= sumz (map snd l1)).
  { apply sumz_nonneg. intros x Hx. apply in_map_iff in Hx. destruct Hx as (q & <- & Hq).
    apply Hnn. subst ps. apply in_or_app. left. assumption. }
  lia.
Qed.

Lemma run_upper : forall ps m, (forall p, In p ps -> 0 <= snd p /\ snd p <= fst p) ->
  peak (fold_left peak_step ps m)
  <= Z.max (peak m) (cur m + sumz (map snd ps) + maxz (map fst ps)).
Proof.
  induction ps; intros m H; cbn [fold_left map sumz maxz]; [lia|].
  assert (Ha : 0 <= snd a /\ snd a <= fst a) by (apply H; left; reflexivity).
  assert (Hps : forall p, In p ps -> 0 <= snd p /\ snd p <= fst p)
    by (intros; apply H; right; assumption).
  pose proof (IHps (peak_step m a) Hps) as IH.
  rewrite step_cur in IH. pose proof (step_peak_le m a).
  assert (0 <= sumz (map snd ps)).
  { apply sumz_nonneg. intros x Hx. apply in_map_iff in Hx. destruct Hx as (q & <- & Hq).
    apply Hps. assumption. }
  pose proof (maxz_nonneg (map fst ps)). lia.
Qed.

Theorem peak_upper : forall ps, (forall p, In p ps -> 0 <= snd p /\ snd p <= fst p) ->
  peak_projected ps <= sumz (map snd ps) + maxz (map fst ps).
Proof.
  intros ps H. unfold peak_projected. pose proof (run_upper ps mm0 H) as U.
  cbn [cur peak mm0] in U.
  assert (0 <= sumz (map snd ps)).
  { apply sumz_nonneg. intros x Hx. apply in_map_iff in Hx. destruct Hx as (q & <- & Hq).
    apply H. assumption. }
  pose proof (maxz_nonneg (map fst ps)). lia.
Qed.

Theorem peak_nonneg : forall ps, 0 <= peak_projected ps.
Proof. intros. unfold peak_projected. pose proof (run_peak_mono ps mm0) as H. cbn [peak mm0] in H. lia. Qed.

(* ------------------------------------------------------------------------- *)
(* fused operations                                                          *)
(* ------------------------------------------------------------------------- *)
Theorem fused_not_under_reported : forall opp ps, (forall p, In p ps -> 0 <= snd p) ->
  fused_projected opp ps >= opp /\ forall p, In p ps -> fused_projected opp ps >= fst p.
Proof.
  intros opp ps H. unfold fused_projected. split; [lia|].
  intros p Hp. pose proof (peak_bounds_each ps H p Hp). lia.
Qed.

Theorem legacy_fused_not_under_reported : forall p1 p2,
  legacy_fused_projected p1 p2 >= p1 /\ legacy_fused_projected p1 p2 >= p2.
Proof. intros. unfold legacy_fused_projected. lia. Qed.

(* ------------------------------------------------------------------------- *)
(* admission                                                                 *)
(* ------------------------------------------------------------------------- *)
Lemma exceeds_true : forall pa, exceeds pa = true <-> fst pa > snd pa.
Proof. intros. unfold exceeds. rewrite Z.ltb_lt. lia. Qed.

Lemma exceeds_false : forall pa, exceeds pa = false <-> fst pa <= snd pa.
Proof. intros. unfold exceeds. rewrite Z.ltb_ge. lia. Qed.

Theorem accepted_iff_all_fit : forall ops,
  plan_accepted ops = true <-> (forall pa, In pa ops -> fst pa <= snd pa).
Proof.
  unfold plan_accepted, ops_exceeding. induction ops; cbn [filter].
  - split; [intros _ pa []| reflexivity].
  - destruct (exceeds a) eqn:E.
    + split; [discriminate|]. intros H. apply exceeds_true in E.
      assert (fst a <= snd a) by (apply H; left; reflexivity). lia.
    + apply exceeds_false in E. rewrite IHops. split.
      * intros H pa [<-|Hin]; [assumption | apply H; assumption].
      * intros H pa Hin. apply H. right. assumption.
Qed.

Theorem refused_iff_some_exceeds : forall ops,
  plan_accepted ops = false <-> exists pa, In pa ops /\ fst pa > snd pa.
Proof.
  unfold plan_accepted, ops_exceeding. induction ops; cbn [filter].
  - split; [discriminate | intros (pa & [] & _)].
  - destruct (exceeds a) eqn:E.
    + split; [|reflexivity]. intros _. exists a. split; [left; reflexivity|].
      apply exceeds_true. assumption.
    + apply exceeds_false in E. rewrite IHops. split.
      * intros (pa & Hin & Hgt). exists pa. split; [right|]; assumption.
      * intros (pa & [<-|Hin] & Hgt); [lia|]. exists pa. split; assumption.
Qed.

Theorem equality_is_accepted : forall ops pa, In pa ops -> fst pa = snd pa -> exceeds pa = false.
Proof. intros ops pa _ E. apply exceeds_false. lia. Qed.

Lemma maxp_gen : forall ops a,
  a <= fold_left (fun m pa => Z.max (fst pa) m) ops a /\
  (forall pa : Z * Z, In pa ops -> fst pa <= fold_left (fun m pa => Z.max (fst pa) m) ops a) /\
  (fold_left (fun m pa => Z.max (fst pa) m) ops a = a \/
   exists pa : Z * Z, In pa ops /\ fst pa = fold_left (fun m pa => Z.max (fst pa) m) ops a).
Proof.
  induction ops as [|x ops IH]; intros a; cbn [fold_left].
  - split; [lia|]. split; [intros pa []|]. left. reflexivity.
  - destruct (IH (Z.max (fst x) a)) as (H1 & H2 & H3). split; [lia|]. split.
    + intros pa [<-|Hin]; [lia | apply H2; assumption].
    + destruct H3 as [E | (pa & Hin & E)].
      * destruct (Z.max_spec (fst x) a) as [[_ M]|[_ M]].
        -- left. lia.
        -- right. exists x. split; [left; reflexivity | lia].
      * right. exists pa. split; [right; assumption | assumption].
Qed.

Theorem max_projected_is_max : forall ops, (forall pa, In pa ops -> 0 <= fst pa) ->
  (forall pa, In pa ops -> fst pa <= max_projected ops) /\
  (ops <> [] -> exists pa, In pa ops /\ fst pa = max_projected ops).
Proof.
  intros ops Hnn. unfold max_projected. destruct (maxp_gen ops 0) as (H1 & H2 & H3).
  split; [assumption|]. intros Hne. destruct H3 as [E | H3]; [|assumption].
  destruct ops as [|x ops]; [contradiction Hne; reflexivity|].
  exists x. split; [left; reflexivity|].
  assert (0 <= fst x) by (apply Hnn; left; reflexivity).
  assert (fst x <= fold_left (fun m pa => Z.max (fst pa) m) (x :: ops) 0)
    by (apply H2; left; reflexivity).
  lia.
Qed.

(* ------------------------------------------------------------------------- *)
(* Dag.v: the optimizer and the memory budget                                *)
(* ------------------------------------------------------------------------- *)
Section DagMem.
Variable B : Type.

Definition fits (d : dag B) : Prop :=
  forall o p, In o (dops B d) -> prim B o = Some p -> proj B p <= allowed B p.

Theorem can_fuse_multiple_guard : forall (p : primop B) pps mn,
  can_fuse_multiple B p pps mn = true ->
  peak_projected (map (fun pp => (proj B pp, chunkmem B pp)) (somes pps)) <= allowed B p.
Proof.
  intros p pps mn. unfold can_fuse_multiple.
  destruct (is_fuse_candidate B p && _); [|discriminate].
  match goal with |- context [(?a <? ?b)] => destruct (Z.ltb_spec a b) end; [discriminate|].
  intros _. assumption.
Qed.

Lemma can_fuse_pred_prim : forall c d o, can_fuse_predecessors B c d o = true ->
  exists p, prim B o = Some p.
Proof.
  intros c d o. unfold can_fuse_predecessors. destruct (prim B o) as [p|]; [|discriminate].
  intros _. exists p. reflexivity.
Qed.

Lemma can_fuse_pred_default : forall c d o p, always_fuse c = [] -> prim B o = Some p ->
  can_fuse_predecessors B c d o = true ->
  can_fuse_multiple B p (pred_prims B d p) (max_nib c) = true.
Proof.
  intros c d o p Haf Hp. unfold can_fuse_predecessors. rewrite Hp, Haf. cbn [mem_nat]. cbv zeta.
  destruct (negb (fpred B p)); [discriminate|].
  destruct (forallb _ _); [discriminate|].
  destruct (existsb _ _); [discriminate|].
  destruct (existsb _ _); [discriminate|].
  destruct (mem_nat _ _); [discriminate|].
  destruct (_ && _); [discriminate|].
  intros H. exact H.
Qed.

(* what the op list of fuse_predecessors looks like *)
Lemma fuse_pred_in : forall c d o x', In x' (dops B (fuse_predecessors B c d o)) ->
  (can_fuse_predecessors B c d o = false /\ In x' (dops B d)) \/
  (can_fuse_predecessors B c d o = true /\ exists p, prim B o = Some p /\
     ((In x' (dops B d) /\ oid B x' <> oid B o) \/
      (oid B x' = oid B o /\ prim B x' = Some (fuse_multiple B p (pred_prims B d p)) /\
       exists x, In x (dops B d) /\ oid B x = oid B o))).
Proof.
  intros c d o x'. unfold fuse_predecessors.
  destruct (can_fuse_predecessors B c d o) eqn:C; [|intros H; left; split; [reflexivity|assumption]].
  destruct (can_fuse_pred_prim _ _ _ C) as (p & Hp). rewrite Hp. cbv zeta. cbn [dops].
  intros H. right. split; [reflexivity|]. exists p. split; [reflexivity|].
  apply in_map_iff in H. destruct H as (x & Hx & Hin).
  apply filter_In in Hin. destruct Hin as (Hin & _).
  destruct (Nat.eqb (oid B x) (oid B o)) eqn:E.
  - right. subst x'. cbn [oid prim]. split; [reflexivity|]. split; [reflexivity|].
    exists x. split; [assumption|]. apply Nat.eqb_eq. assumption.
  - left. subst x'. split; [assumption|]. apply Nat.eqb_neq. assumption.
Qed.

Lemma pred_prims_in : forall d p pp, In pp (somes (pred_prims B d p)) ->
  exists pre, In pre (dops B d) /\ prim B pre = Some pp.
Proof.
  intros d p pp H. unfold somes in H. apply in_flat_map in H. destruct H as (op & Hop & Hpp).
  destruct op as [q|]; [|destruct Hpp]. destruct Hpp as [->|[]].
  unfold pred_prims in Hop. apply in_map_iff in Hop. destruct Hop as (t & Ht & Hin).
  destruct t as [[[pre|] a] [|]]; try discriminate.
  exists pre. split; [|assumption].
  unfold pred_info in Hin. apply in_map_iff in Hin. destruct Hin as (a' & Ha' & _).
  destruct (producers B d a') as [|pre' [|? ?]] eqn:P; try discriminate.
  inversion Ha'; subst.
  assert (Hin : In pre (producers B d a)) by (rewrite P; left; reflexivity).
  unfold producers in Hin. apply filter_In in Hin. tauto.
Qed.

(* STATEMENT CHANGE.  The target statement
     forall c d o, always_fuse c = [] -> fits d -> fits (fuse_predecessors B c d o)
   is false when o is not a node of d: an out-of-budget o that shares its id with a node
   of d is written into the result (see [fuse_step_fits_as_stated_refuted] below, after
   the section).  The premise actually needed is that o itself is within its budget,
   which is implied by [In o (dops d)] together with [fits d]. *)
Theorem fuse_step_fits : forall c d o, always_fuse c = [] -> fits d ->
  (forall p, prim B o = Some p -> proj B p <= allowed B p) ->
  fits (fuse_predecessors B c d o).
Proof.
  intros c d o Haf Hd Ho x' p' Hin Hp'.
  destruct (fuse_pred_in _ _ _ _ Hin) as [(_ & Hx) | (C & p & Hp & [(Hx & _) | (_ & Hpr & _)])].
  - exact (Hd _ _ Hx Hp').
  - exact (Hd _ _ Hx Hp').
  - rewrite Hpr in Hp'. inversion Hp'; subst p'. cbn [proj allowed fuse_multiple].
    pose proof (Ho _ Hp).
    pose proof (can_fuse_multiple_guard _ _ _ (can_fuse_pred_default _ _ _ _ Haf Hp C)).
    unfold fused_projected. lia.
Qed.

Corollary fuse_step_fits_member : forall c d o, always_fuse c = [] -> fits d ->
  In o (dops B d) -> fits (fuse_predecessors B c d o).
Proof.
  intros c d o Haf Hd Hin. apply fuse_step_fits; [assumption|assumption|].
  intros p Hp. exact (Hd _ _ Hin Hp).
Qed.

Lemma find_op_in : forall d n o, find_op B d n = Some o -> In o (dops B d).
Proof. intros d n o H. unfold find_op in H. apply find_some in H. tauto. Qed.

Theorem default_optimizer_fits : forall c order d, always_fuse c = [] -> fits d ->
  fits (optimize B c order d).
Proof.
  intros c order. unfold optimize. induction order as [|n order IH]; intros d Haf Hd; cbn [fold_left].
  - assumption.
  - apply IH; [assumption|]. destruct (find_op B d n) as [o|] eqn:F; [|assumption].
    apply fuse_step_fits_member; [assumption|assumption|]. exact (find_op_in _ _ _ F).
Qed.

Lemma nodup_oid_inj : forall (l : list (opnode B)) a b,
  NoDup (map (oid B) l) -> In a l -> In b l -> oid B a = oid B b -> a = b.
Proof.
  induction l as [|x l IH]; intros a b ND Ha Hb E; [destruct Ha|].
  cbn [map] in ND. inversion ND as [|? ? Hnot ND']; subst.
  destruct Ha as [->|Ha]; destruct Hb as [->|Hb].
  - reflexivity.
  - exfalso. apply Hnot. rewrite E. apply in_map. assumption.
  - exfalso. apply Hnot. rewrite <- E. apply in_map. assumption.
  - apply IH; assumption.
Qed.

Theorem fused_op_not_under_reported : forall c d o p o' p',
  NoDup (map (oid B) (dops B d)) -> In o (dops B d) -> prim B o = Some p ->
  (forall x q, In x (dops B d) -> prim B x = Some q -> 0 <= chunkmem B q) ->
  In o' (dops B (fuse_predecessors B c d o)) -> oid B o' = oid B o -> prim B o' = Some p' ->
  proj B p' >= proj B p /\
  (can_fuse_predecessors B c d o = true ->
     forall pp, In pp (somes (pred_prims B d p)) -> proj B p' >= proj B pp).
Proof.
  intros c d o p o' p' ND Ho Hp Hcm Hin Hoid Hp'.
  destruct (fuse_pred_in _ _ _ _ Hin) as [(C & Hx) | (C & q & Hq & [(_ & Hne) | (_ & Hpr & _)])].
  - assert (o' = o) by (apply (nodup_oid_inj _ _ _ ND); assumption). subst o'.
    rewrite Hp in Hp'. inversion Hp'; subst p'. split; [lia|].
    rewrite C. discriminate.
  - contradiction.
  - rewrite Hp in Hq. inversion Hq; subst q.
    rewrite Hpr in Hp'. inversion Hp'; subst p'. cbn [proj fuse_multiple].
    set (ps := map (fun pp => (proj B pp, chunkmem B pp)) (somes (pred_prims B d p))).
    assert (Hnn : forall t, In t ps -> 0 <= snd t).
    { intros t Ht. unfold ps in Ht. apply in_map_iff in Ht. destruct Ht as (pp & <- & Hpp).
      cbn [snd]. destruct (pred_prims_in _ _ _ Hpp) as (pre & Hpre & Hprim).
      exact (Hcm _ _ Hpre Hprim). }
    destruct (fused_not_under_reported (proj B p) ps Hnn) as (F1 & F2).
    split; [assumption|]. intros _ pp Hpp.
    assert (Hin' : In (proj B pp, chunkmem B pp) ps)
      by (unfold ps; apply in_map_iff; exists pp; split; [reflexivity|assumption]).
    apply F2 in Hin'. cbn [fst] in Hin'. assumption.
Qed.

(* allowed / reserved / ntasks preserved, node by node *)
Definition same_budget (o o' : opnode B) : Prop :=
  oid B o = oid B o' /\
  match prim B o, prim B o' with
  | Some p, Some p' => allowed B p' = allowed B p /\ reserved B p' = reserved B p /\ ntasks B p' = ntasks B p
  | None, None => True
  | _, _ => False
  end.

Lemma same_budget_refl : forall o, same_budget o o.
Proof. intros o. split; [reflexivity|]. destruct (prim B o); [repeat split|exact I]. Qed.

Lemma same_budget_trans : forall a b c, same_budget a b -> same_budget b c -> same_budget a c.
Proof.
  intros a b c (E1 & M1) (E2 & M2). split; [congruence|].
  destruct (prim B a), (prim B b), (prim B c); try contradiction; try exact I.
  destruct M1 as (? & ? & ?), M2 as (? & ? & ?). repeat split; congruence.
Qed.

Lemma fuse_step_budget : forall c d o x', In o (dops B d) ->
  In x' (dops B (fuse_predecessors B c d o)) ->
  exists x, In x (dops B d) /\ same_budget x x'.
Proof.
  intros c d o x' Ho Hin.
  destruct (fuse_pred_in _ _ _ _ Hin) as [(_ & Hx) | (_ & p & Hp & [(Hx & _) | (Hoid & Hpr & _)])].
  - exists x'. split; [assumption | apply same_budget_refl].
  - exists x'. split; [assumption | apply same_budget_refl].
  - exists o. split; [assumption|]. split; [symmetry; assumption|].
    rewrite Hp, Hpr. cbn [allowed reserved ntasks fuse_multiple]. repeat split.
Qed.

Theorem optimizer_keeps_budget_fields : forall c order d o', In o' (dops B (optimize B c order d)) ->
  exists o, In o (dops B d) /\ oid B o = oid B o' /\
    match prim B o, prim B o' with
    | Some p, Some p' => allowed B p' = allowed B p /\ reserved B p' = reserved B p /\ ntasks B p' = ntasks B p
    | None, None => True
    | _, _ => False
    end.
Proof.
  intros c order. unfold optimize.
  induction order as [|n order IH]; intros d o' Hin; cbn [fold_left] in Hin.
  - exists o'. split; [assumption|]. apply same_budget_refl.
  - apply IH in Hin. destruct Hin as (o1 & Hin1 & S1).
    destruct (find_op B d n) as [o0|] eqn:F.
    + destruct (fuse_step_budget _ _ _ _ (find_op_in _ _ _ F) Hin1) as (o & Hino & S0).
      exists o. split; [assumption|]. exact (same_budget_trans _ _ _ S0 S1).
    + exists o1. split; assumption.
Qed.

End DagMem.

(* ------------------------------------------------------------------------- *)
(* The counterexample to the target form of fuse_step_fits (o not a node of d) *)
(* ------------------------------------------------------------------------- *)
Definition cx_kf : keyfun := fun k => (fst k, []).
Definition cx_fn : bfun unit := fun _ => tt.
Definition cx_prim (pj : Z) (sr : list name) : primop unit :=
  {| bw := true; fpred := true; fsucc := true; ntasks := 1%nat;
     proj := pj; allowed := 100; reserved := 0; nib := [1%nat]; chunkmem := 1;
     srcs := sr; kf := cx_kf; fn := cx_fn |}.
Definition cx_pre : opnode unit :=
  {| oid := 0%nat; ins := []; outs := [0%nat]; prim := Some (cx_prim 10 []) |}.
Definition cx_x : opnode unit :=
  {| oid := 1%nat; ins := [0%nat]; outs := [1%nat]; prim := Some (cx_prim 10 [0%nat]) |}.
(* same id as cx_x, not a node of cx_d, projected 200 > allowed 100 *)
Definition cx_o : opnode unit :=
  {| oid := 1%nat; ins := [0%nat]; outs := [1%nat]; prim := Some (cx_prim 200 [0%nat]) |}.
Definition cx_d : dag unit := {| dops := [cx_pre; cx_x]; virtuals := [] |}.
Definition cx_c : optcfg :=
  {| requested := []; max_src := 4%nat; max_nib := None; always_fuse := []; never_fuse := [] |}.
Definition budget_pairs (d : dag unit) : list (nat * Z * Z) :=
  flat_map (fun o => match prim unit o with
                     | Some p => [(oid unit o, proj unit p, allowed unit p)]
                     | None => [] end) (dops unit d).

(* before: every node within budget; after: node 1 reports 200 against 100 *)
Eval vm_compute in budget_pairs cx_d.
Eval vm_compute in can_fuse_predecessors unit cx_c cx_d cx_o.
Eval vm_compute in budget_pairs (fuse_predecessors unit cx_c cx_d cx_o).

Theorem fuse_step_fits_as_stated_refuted :
  ~ (forall (B : Type) (c : optcfg) (d : dag B) (o : opnode B),
       always_fuse c = [] -> fits B d -> fits B (fuse_predecessors B c d o)).
Proof.
  intros H. specialize (H unit cx_c cx_d cx_o eq_refl).
  assert (Hd : fits unit cx_d).
  { intros o p Hin Hp. cbn [dops cx_d In] in Hin.
    destruct Hin as [<-|[<-|[]]]; cbn [prim cx_pre cx_x] in Hp; inversion Hp; subst p;
      cbn [proj allowed cx_prim]; lia. }
  specialize (H Hd).
  set (o' := hd cx_o (dops unit (fuse_predecessors unit cx_c cx_d cx_o))).
  assert (Hin : In o' (dops unit (fuse_predecessors unit cx_c cx_d cx_o)))
    by (vm_compute; left; reflexivity).
  destruct (prim unit o') as [p'|] eqn:Hp'; [|vm_compute in Hp'; discriminate].
  pose proof (H o' p' Hin Hp') as Hle.
  vm_compute in Hp'. inversion Hp'; subst p'. vm_compute in Hle. apply Hle. reflexivity.
Qed.
