From CubedV Require Import Model.Util Model.Naming.

Lemma node_eqb_eq a b : node_eqb a b = true <-> a = b.
Proof.
  split.
  - destruct a as [x|f l], b as [y|g m]; cbn; try discriminate.
    + intros H. apply Nat.eqb_eq in H. now subst.
    + intros H. apply andb_prop in H. destruct H as [H1 H2]. apply Nat.eqb_eq in H1. subst g.
      f_equal. revert m H2. induction l as [|x l IH]; intros [|y m]; cbn; try discriminate; [reflexivity|].
      intros H. apply andb_prop in H. destruct H as [Hx Hl]. apply Nat.eqb_eq in Hx. subst. f_equal. auto.
  - intros ->. destruct b as [y|g m]; cbn; [apply Nat.eqb_refl|].
    rewrite Nat.eqb_refl. cbn. induction m as [|y m IH]; cbn; [reflexivity|]. now rewrite Nat.eqb_refl.
Qed.

Lemma lookup_app {B} k (p q : list (nat * B)) :
  lookup k (p ++ q) = match lookup k p with Some v => Some v | None => lookup k q end.
Proof.
  induction p as [|[k' v] p IH]; cbn; [reflexivity|]. destruct (Nat.eqb k k'); [reflexivity|exact IH].
Qed.

Lemma lookup_in {B} k (v : B) p : lookup k p = Some v -> In (k, v) p.
Proof.
  induction p as [|[k' v'] p IH]; cbn; [discriminate|].
  destruct (Nat.eqb k k') eqn:E; intros H.
  - apply Nat.eqb_eq in E. inversion H. subst. now left.
  - right. auto.
Qed.

(* on names bound in p1, merging with a compatible plan does not change the binding *)
Lemma merge_lookup p1 p2 k n :
  compatible p1 p2 = true -> NoDup (names p1) -> lookup k p1 = Some n -> lookup k (merge p1 p2) = Some n.
Proof.
  intros Hc _ Hk. unfold merge. rewrite lookup_app.
  destruct (lookup k p2) as [n2|] eqn:E2; [|exact Hk].
  unfold compatible in Hc. rewrite forallb_forall in Hc.
  specialize (Hc (k, n) (lookup_in _ _ _ Hk)). cbn in Hc. rewrite E2 in Hc.
  apply node_eqb_eq in Hc. now subst.
Qed.
Lemma merge_lookup_r p1 p2 k n : lookup k p2 = Some n -> lookup k (merge p1 p2) = Some n.
Proof. intros H. unfold merge. rewrite lookup_app, H. reflexivity. Qed.

Section Den.
Variable V : Type.
Variable inp : nat -> V.
Variable opf : nat -> list V -> V.

(* closed: every argument mentioned by a node of p reachable from a is itself bound in p, to the depth explored *)
(* merge_faithful: if p1 and p2 agree on shared names then every array of p1 that has a meaning in p1
   (within the fuel) has the same meaning in the merged plan *)
Theorem merge_faithful fuel p1 p2 a v :
  compatible p1 p2 = true -> NoDup (names p1) ->
  den_fuel V inp opf fuel p1 a = Some v -> den_fuel V inp opf fuel (merge p1 p2) a = Some v.
Proof.
  intros Hc Hnd. revert a v. induction fuel as [|f IH]; intros a v; cbn [den_fuel]; [discriminate|].
  destruct (lookup a p1) as [[d|g args]|] eqn:E; try discriminate.
  - intros H. rewrite (merge_lookup _ _ _ _ Hc Hnd E). exact H.
  - rewrite (merge_lookup _ _ _ _ Hc Hnd E).
    intros H.
    assert (Hmap : forall l, forallb (fun o : option V => match o with Some _ => true | None => false end) (map (den_fuel V inp opf f p1) l) = true ->
                  map (den_fuel V inp opf f (merge p1 p2)) l = map (den_fuel V inp opf f p1) l).
    { induction l as [|x l IHl]; cbn; [reflexivity|].
      destruct (den_fuel V inp opf f p1 x) as [vx|] eqn:Ex; [|discriminate].
      intros Hl. rewrite (IH _ _ Ex), (IHl Hl). reflexivity. }
    destruct (forallb _ (map (den_fuel V inp opf f p1) args)) eqn:Ef; [|discriminate].
    rewrite (Hmap args Ef), Ef. exact H.
Qed.

(* symmetric statement for the later plan: its bindings always win, so its arrays keep their meaning
   as long as the earlier plan agrees on shared names *)
Theorem merge_faithful_r fuel p1 p2 a v :
  compatible p2 p1 = true -> NoDup (names p2) ->
  den_fuel V inp opf fuel p2 a = Some v -> den_fuel V inp opf fuel (merge p1 p2) a = Some v.
Proof.
  intros Hc Hnd. revert a v. induction fuel as [|f IH]; intros a v; cbn [den_fuel]; [discriminate|].
  destruct (lookup a p2) as [[d|g args]|] eqn:E; try discriminate.
  - intros H. rewrite (merge_lookup_r _ _ _ _ E). exact H.
  - rewrite (merge_lookup_r _ _ _ _ E). intros H.
    assert (Hmap : forall l, forallb (fun o : option V => match o with Some _ => true | None => false end) (map (den_fuel V inp opf f p2) l) = true ->
                  map (den_fuel V inp opf f (merge p1 p2)) l = map (den_fuel V inp opf f p2) l).
    { induction l as [|x l IHl]; cbn; [reflexivity|].
      destruct (den_fuel V inp opf f p2 x) as [vx|] eqn:Ex; [|discriminate].
      intros Hl. rewrite (IH _ _ Ex), (IHl Hl). reflexivity. }
    destruct (forallb _ (map (den_fuel V inp opf f p2) args)) eqn:Ef; [|discriminate].
    rewrite (Hmap args Ef), Ef. exact H.
Qed.
End Den.

(* inside one process every name is generated once: a fresh name is not in the registry, so all plans
   cut out of one registry are pairwise compatible *)
Lemma registry_bound (p : proc) :
  (forall k n, In (k, n) (registry p) -> k <= counter p) ->
  forall n, let (p', k) := fresh p n in
    k = S (counter p) /\ lookup k (registry p) = None /\ (forall k' n', In (k', n') (registry p') -> k' <= counter p').
Proof.
  intros Hb n. cbn. split; [reflexivity|]. split.
  - destruct (lookup (S (counter p)) (registry p)) eqn:E; [|reflexivity].
    apply lookup_in in E. apply Hb in E. lia.
  - intros k' n' [H|H]; [inversion H; lia|apply Hb in H; lia].
Qed.

(* two processes hand out the same names for different nodes: merging their plans confuses the arrays (D12) *)
Example cross_process_collision_refuted :
  let inp (d : nat) := d in
  let opf (f : nat) (l : list nat) := f + sumn l in
  let remote : plan := [(2, NOp 100 [1]); (1, NInp 10)] in      (* made in process A: b = f100(a), a = data 10 *)
  let local : plan := [(2, NOp 200 [1]); (1, NInp 33)] in       (* made in process B with the same counters *)
  compatible remote local = false /\
  den_fuel nat inp opf 5 remote 2 = Some 110 /\
  den_fuel nat inp opf 5 (merge remote local) 2 = Some 233.      (* the remote array now means something else *)
Proof. cbn. repeat split. Qed.
