From CubedV Require Import Model.Util Model.SpecCfg.
From Coq Require Import ZifyBool.
Local Open Scope Z_scope.

Lemma pow10_pos n : 0 <= n -> 0 < pow10 n.
Proof. intros H. unfold pow10. apply Z.pow_pos_nonneg; lia. Qed.

Definition convert_ex (negative : bool) (m ex : Z) : cres :=
  if negative && negb (m =? 0) then Rejected
  else if 0 <=? ex then Bytes (m * pow10 ex)
  else if m mod pow10 (- ex) =? 0 then Bytes (m / pow10 (- ex))
  else Rejected.
Lemma convert_literal_ex negative m e u : convert_literal negative m e u = convert_ex negative m (e + 3 * u).
Proof. reflexivity. Qed.

Lemma convert_ex_exact negative m ex z :
  0 <= m -> convert_ex negative m ex = Bytes z ->
  0 <= z /\ (negative = true -> m = 0) /\ (0 <= ex -> z = m * 10 ^ ex) /\ (ex < 0 -> z * 10 ^ (- ex) = m).
Proof.
  intros Hm. unfold convert_ex.
  destruct (negative && negb (m =? 0)) eqn:Hn; [discriminate|].
  assert (Hsign : negative = true -> m = 0).
  { intros ->. cbn in Hn. destruct (m =? 0) eqn:E; [lia|discriminate]. }
  destruct (0 <=? ex) eqn:He.
  - intros H. injection H as Hz. subst z.
    assert (H0 : 0 <= ex) by lia.
    pose proof (pow10_pos _ H0) as Hp. unfold pow10 in *.
    split; [apply Z.mul_nonneg_nonneg; lia|].
    split; [exact Hsign|]. split; [intros _; reflexivity|intros Hc; exfalso; clear - Hc H0; lia].
  - destruct (m mod pow10 (- ex) =? 0) eqn:Hd; [|discriminate].
    intros H. injection H as Hz. subst z.
    assert (Hneg : 0 <= - ex) by lia.
    pose proof (pow10_pos _ Hneg) as Hp. unfold pow10 in *.
    remember (10 ^ (- ex)) as k eqn:Ek.
    assert (Hmod : m mod k = 0) by lia.
    assert (Hk : k <> 0) by lia.
    split; [apply Z.div_pos; [exact Hm|exact Hp]|].
    split; [exact Hsign|]. split; [intros Hc; exfalso; clear - Hc Hneg He; lia|].
    intros _. rewrite (Z.mul_comm (m / k) k). symmetry. apply (proj2 (Z.div_exact m k Hk)). exact Hmod.
Qed.

(* convert_exact: the accepted value is exactly the rational value of the literal, whole and >= 0 *)
Theorem convert_exact negative m e u z :
  0 <= m ->
  convert_literal negative m e u = Bytes z ->
  0 <= z /\
  (negative = true -> m = 0) /\
  (0 <= e + 3 * u -> z = m * 10 ^ (e + 3 * u)) /\
  (e + 3 * u < 0 -> z * 10 ^ (- (e + 3 * u)) = m).
Proof. intros Hm H. rewrite convert_literal_ex in H. exact (convert_ex_exact _ _ _ _ Hm H). Qed.

(* convert_complete: a literal whose value is a non-negative whole number of bytes is accepted *)
Theorem convert_complete negative m e u :
  0 <= m -> (negative = true -> m = 0) ->
  (0 <= e + 3 * u \/ m mod 10 ^ (- (e + 3 * u)) = 0) ->
  exists z, convert_literal negative m e u = Bytes z.
Proof.
  intros Hm Hneg Hw. rewrite convert_literal_ex. remember (e + 3 * u) as ex eqn:Eex. unfold convert_ex.
  assert (Hn : negative && negb (m =? 0) = false).
  { destruct negative; cbn; [rewrite (Hneg eq_refl); reflexivity|reflexivity]. }
  rewrite Hn.
  destruct (0 <=? ex) eqn:He; [eexists; reflexivity|].
  destruct Hw as [Hw|Hw]; [lia|].
  unfold pow10. rewrite Hw. cbn. eexists; reflexivity.
Qed.

(* beyond double precision the exact semantics keeps every digit (D13 witness: a float pipeline
   would return ...992) *)
Example convert_keeps_53_bits : convert_literal false 9007199254740993 0 0 = Bytes 9007199254740993.
Proof. reflexivity. Qed.
Example convert_rejects_tiny_fraction : convert_literal false 100000000000000001 (-14) 0 = Rejected.
Proof. reflexivity. Qed.
Example convert_units : convert_literal false 12 (-1) 2 = Bytes 1200000.
Proof. reflexivity. Qed.

(* spec_eq_equivalence *)
Lemma spec_eqb_refl a : spec_eqb a a = true.
Proof. unfold spec_eqb. rewrite !Nat.eqb_refl, !Z.eqb_refl. reflexivity. Qed.
Lemma spec_eqb_eq a b : spec_eqb a b = true <-> a = b.
Proof.
  split; [|intros ->; apply spec_eqb_refl].
  destruct a, b; unfold spec_eqb; cbn. intros H.
  repeat (apply andb_prop in H; destruct H as [H ?]).
  repeat match goal with
  | H : Nat.eqb _ _ = true |- _ => apply Nat.eqb_eq in H
  | H : (_ =? _) = true |- _ => apply Z.eqb_eq in H
  end. subst. reflexivity.
Qed.

(* mixed_specs_rejected: check_array_specs accepts exactly the lists whose specs are all equal,
   and then returns that common spec (so admission uses the arrays' own budget) *)
Theorem check_array_specs_spec specs :
  match check_array_specs specs with
  | Some (Some s) => forall x, In x specs -> x = s
  | Some None => specs = []
  | None => exists x y, In x specs /\ In y specs /\ x <> y
  end.
Proof.
  destruct specs as [|s0 rest]; [reflexivity|].
  unfold check_array_specs.
  destruct (forallb (spec_eqb s0) (s0 :: rest)) eqn:E.
  - intros x Hx. rewrite forallb_forall in E. symmetry. apply spec_eqb_eq. apply E. exact Hx.
  - assert (exists y, In y (s0 :: rest) /\ spec_eqb s0 y = false) as (y & Hy & Hne).
    { clear -E. induction (s0 :: rest) as [|a l IH]; [discriminate|].
      cbn in E. destruct (spec_eqb s0 a) eqn:Ea.
      - destruct (IH E) as (y & Hy & Hn). exists y; split; [right; exact Hy|exact Hn].
      - exists a; split; [left; reflexivity|exact Ea]. }
    exists s0, y. repeat split; [left; reflexivity|exact Hy|].
    intros ->. rewrite spec_eqb_refl in Hne. discriminate.
Qed.

Theorem mixed_specs_rejected specs a b :
  In a specs -> In b specs -> a <> b -> check_array_specs specs = None.
Proof.
  intros Ha Hb Hab. pose proof (check_array_specs_spec specs) as H.
  destruct (check_array_specs specs) as [[s|]|]; [|subst; destruct Ha|reflexivity].
  exfalso. apply Hab. rewrite (H a Ha), (H b Hb). reflexivity.
Qed.
