(* Proofs about basic indexing with a positive-step slice (Model/StridedIndex.v):
   the output blocks tile the selection, each block is the Python slice that
   _target_chunk_selection builds, and the number of input chunks a block touches
   is at most two and never more than _index_num_input_blocks declares. *)
From Coq Require Import List Arith Bool Lia PeanoNat.
From CubedV Require Import Model.Util Model.Geometry Model.StridedIndex.
Import ListNotations.

Arguments Nat.div : simpl never.
Arguments Nat.modulo : simpl never.

Definition num_out_blocks (oc L : nat) : nat := (L + oc - 1) / oc.

(* ---------- ceiling division ---------- *)

Lemma ceil_ge : forall oc L, 0 < oc -> L <= num_out_blocks oc L * oc.
Proof.
  intros oc L H. unfold num_out_blocks.
  pose proof (Nat.div_mod (L + oc - 1) oc ltac:(lia)) as E.
  pose proof (Nat.mod_upper_bound (L + oc - 1) oc ltac:(lia)) as B.
  generalize dependent ((L + oc - 1) / oc). generalize dependent ((L + oc - 1) mod oc).
  intros r B q E. nia.
Qed.

Lemma ceil_lt : forall oc L j, 0 < oc -> j < num_out_blocks oc L -> j * oc < L.
Proof.
  intros oc L j H. unfold num_out_blocks.
  pose proof (Nat.div_mod (L + oc - 1) oc ltac:(lia)) as E.
  pose proof (Nat.mod_upper_bound (L + oc - 1) oc ltac:(lia)) as B.
  generalize dependent ((L + oc - 1) / oc). generalize dependent ((L + oc - 1) mod oc).
  intros r B q E Hj.
  assert (S j * oc <= q * oc) by (apply Nat.mul_le_mono_r; lia).
  nia.
Qed.

(* ---------- 1. tiling ---------- *)

Lemma seq_split0 : forall a b, a <= b -> seq 0 a ++ seq a (b - a) = seq 0 b.
Proof.
  intros a b H. replace b with (a + (b - a)) at 2 by lia.
  rewrite seq_app. reflexivity.
Qed.

Lemma tile_prefix : forall start step oc L m,
  concat (map (block_positions start step oc L) (seq 0 m))
  = map (sel_pos start step) (seq 0 (Nat.min (m * oc) L)).
Proof.
  intros start step oc L m. induction m as [|m IH].
  - reflexivity.
  - rewrite seq_S, map_app, concat_app, IH. cbn [map concat Nat.add].
    rewrite app_nil_r. unfold block_positions.
    rewrite <- map_app. f_equal.
    replace (m + 1) with (S m) by lia.
    destruct (Nat.le_gt_cases (m * oc) L) as [Hle|Hgt].
    + rewrite (Nat.min_l (m * oc) L) by exact Hle.
      apply seq_split0. apply Nat.min_glb; [simpl; lia | exact Hle].
    + rewrite (Nat.min_r (m * oc) L) by lia.
      rewrite (Nat.min_r (S m * oc) L) by (simpl; lia).
      replace (L - m * oc) with 0 by lia. simpl. apply app_nil_r.
Qed.

Theorem blocks_tile_selection : forall start step oc L, 0 < oc ->
  concat (map (block_positions start step oc L) (seq 0 (num_out_blocks oc L))) = map (sel_pos start step) (seq 0 L).
Proof.
  intros start step oc L H. rewrite tile_prefix.
  rewrite Nat.min_r by (apply ceil_ge; exact H). reflexivity.
Qed.

(* ---------- 2. a block is a Python slice ---------- *)

Lemma map_sel_shift : forall start step cnt a,
  map (sel_pos start step) (seq a cnt)
  = map (fun i => start + a * step + i * step) (seq 0 cnt).
Proof.
  intros start step cnt. induction cnt as [|cnt IH]; intro a.
  - reflexivity.
  - cbn [seq map]. f_equal.
    + unfold sel_pos. lia.
    + rewrite IH. rewrite <- seq_shift, map_map.
      apply map_ext. intro i. simpl. lia.
Qed.

Theorem block_positions_is_slice : forall start step oc L j, 0 < step -> 0 < oc -> j < num_out_blocks oc L ->
  let (lo, hi) := block_sel start step oc L j in
  block_positions start step oc L j = map (fun i => lo + i * step) (seq 0 ((hi - lo + step - 1) / step)).
Proof.
  intros start step oc L j Hs Ho Hj. unfold block_sel, block_positions.
  pose proof (ceil_lt oc L j Ho Hj) as Hlt.
  assert (Hm : j * oc <= Nat.min ((j + 1) * oc) L).
  { apply Nat.min_glb; [|lia]. apply Nat.mul_le_mono_r. lia. }
  remember (Nat.min ((j + 1) * oc) L) as m eqn:Em. clear Em.
  remember (m - j * oc) as cnt eqn:Ec.
  assert (Hmm : m = j * oc + cnt) by lia. subst m. clear Ec Hm.
  assert (Hd : (start + (j * oc + cnt) * step - (start + j * oc * step) + step - 1) / step = cnt).
  { symmetry. apply Nat.div_unique with (r := step - 1); [lia|].
    rewrite Nat.mul_add_distr_r.
    replace (start + (j * oc * step + cnt * step) - (start + j * oc * step)) with (cnt * step) by lia.
    rewrite (Nat.mul_comm step cnt). lia. }
  rewrite Hd. apply map_sel_shift.
Qed.

(* ---------- 3. at most two chunks ---------- *)

Lemma nodup_len_two : forall (l : list nat) a,
  (forall x, In x l -> x = a \/ x = S a) -> length (nodup Nat.eq_dec l) <= 2.
Proof.
  intros l a H.
  change 2 with (length [a; S a]).
  apply NoDup_incl_length.
  - apply NoDup_nodup.
  - intros x Hx. apply nodup_In in Hx. destruct (H x Hx); subst; simpl; auto.
Qed.

Lemma nodup_len_one : forall (l : list nat) a,
  (forall x, In x l -> x = a) -> length (nodup Nat.eq_dec l) <= 1.
Proof.
  intros l a H.
  change 1 with (length [a]).
  apply NoDup_incl_length.
  - apply NoDup_nodup.
  - intros x Hx. apply nodup_In in Hx. rewrite (H x Hx). simpl; auto.
Qed.

Lemma touched_one : forall c ps a,
  (forall p, In p ps -> p / c = a) -> length (touched_chunks c ps) <= 1.
Proof.
  intros c ps a H. unfold touched_chunks. apply nodup_len_one with (a := a).
  intros x Hx. apply in_map_iff in Hx. destruct Hx as [p [E Hp]]. subst x. apply H, Hp.
Qed.

Lemma block_positions_In : forall start step oc L j p,
  In p (block_positions start step oc L j) ->
  exists k, p = start + k * step /\ j * oc <= k /\ k < (j + 1) * oc /\ k < L.
Proof.
  intros start step oc L j p H. unfold block_positions in H.
  apply in_map_iff in H. destruct H as [k [E Hk]]. apply in_seq in Hk.
  exists k. split; [unfold sel_pos in E; lia|].
  pose proof (Nat.le_min_l ((j + 1) * oc) L). pose proof (Nat.le_min_r ((j + 1) * oc) L).
  lia.
Qed.

Lemma div_between : forall c lo p, 0 < c -> lo <= p -> p < lo + c ->
  p / c = lo / c \/ p / c = S (lo / c).
Proof.
  intros c lo p Hc H1 H2.
  pose proof (Nat.div_le_mono lo p c ltac:(lia) H1) as A.
  assert (B : p / c <= (lo + 1 * c) / c) by (apply Nat.div_le_mono; lia).
  rewrite Nat.div_add in B by lia. lia.
Qed.

Lemma div_sandwich : forall c lo hi p, 0 < c -> lo <= p -> p <= hi -> lo / c = hi / c ->
  p / c = lo / c.
Proof.
  intros c lo hi p Hc H1 H2 E.
  pose proof (Nat.div_le_mono lo p c ltac:(lia) H1).
  pose proof (Nat.div_le_mono p hi c ltac:(lia) H2). lia.
Qed.

Lemma out_chunk_len_pos : forall c step, 1 <= out_chunk_len c step.
Proof. intros. unfold out_chunk_len. apply Nat.le_max_r. Qed.

Lemma out_chunk_span : forall c step, 0 < c -> 0 < step ->
  (out_chunk_len c step - 1) * step < c.
Proof.
  intros c step Hc Hs. unfold out_chunk_len.
  pose proof (Nat.mul_div_le c step ltac:(lia)) as M.
  destruct (c / step) as [|q].
  - simpl. exact Hc.
  - rewrite Nat.max_l by lia. nia.
Qed.

Theorem touched_at_most_two : forall c start step L j, 0 < c -> 0 < step -> j < num_out_blocks (out_chunk_len c step) L ->
  length (touched_chunks c (block_positions start step (out_chunk_len c step) L j)) <= 2.
Proof.
  intros c start step L j Hc Hs _.
  pose proof (out_chunk_span c step Hc Hs) as Sp.
  pose proof (out_chunk_len_pos c step) as Op.
  remember (out_chunk_len c step) as oc eqn:Eo. clear Eo.
  unfold touched_chunks.
  apply nodup_len_two with (a := (start + j * oc * step) / c).
  intros x Hx. apply in_map_iff in Hx. destruct Hx as [p [E Hp]]. subst x.
  apply block_positions_In in Hp. destruct Hp as [k [Ep [K1 [K2 _]]]].
  assert (Hk : k = j * oc + (k - j * oc)) by lia.
  remember (k - j * oc) as d eqn:Ed.
  assert (Hd : d <= oc - 1) by lia.
  assert (d * step <= (oc - 1) * step) by (apply Nat.mul_le_mono_r; exact Hd).
  apply div_between; [exact Hc| |]; subst p; rewrite Hk, Nat.mul_add_distr_r; lia.
Qed.

(* ---------- 4. never more than declared ---------- *)

Lemma slice_nib_pos : forall c nb start step L, 1 <= slice_nib c nb start step L.
Proof.
  intros. unfold slice_nib.
  destruct (nb =? 1); [lia|].
  destruct (_ =? _); [lia|].
  destruct (negb _); [lia|].
  destruct (_ && _); lia.
Qed.

Lemma one_block_small : forall n c, 0 < c -> (n + c - 1) / c = 1 -> n <= c.
Proof.
  intros n c Hc E.
  pose proof (Nat.div_mod (n + c - 1) c ltac:(lia)) as D.
  pose proof (Nat.mod_upper_bound (n + c - 1) c ltac:(lia)) as B.
  rewrite E in D. lia.
Qed.

(* aligned case: c is a multiple of step and start a multiple of c *)
Lemma aligned_div : forall oc step q j d, 0 < step -> d < oc ->
  (oc * step * q + (j * oc + d) * step) / (oc * step) = q + j.
Proof.
  intros oc step q j d Hs Hd. symmetry.
  apply Nat.div_unique with (r := d * step).
  - apply Nat.mul_lt_mono_pos_r; assumption.
  - ring.
Qed.

Theorem touched_le_declared : forall n c start step L j, 0 < c -> 0 < step -> 0 < L -> start + (L - 1) * step < n ->
  j < num_out_blocks (out_chunk_len c step) L ->
  length (touched_chunks c (block_positions start step (out_chunk_len c step) L j))
  <= slice_nib c ((n + c - 1) / c) start step L.
Proof.
  intros n c start step L j Hc Hs HL Hn Hj.
  pose proof (slice_nib_pos c ((n + c - 1) / c) start step L) as Pos.
  pose proof (touched_at_most_two c start step L j Hc Hs Hj) as Two.
  assert (Last : forall p, In p (block_positions start step (out_chunk_len c step) L j) ->
                 start <= p /\ p <= start + (L - 1) * step).
  { intros p Hp. apply block_positions_In in Hp. destruct Hp as [k [Ep [_ [_ K]]]].
    subst p. split; [lia|].
    apply Nat.add_le_mono_l, Nat.mul_le_mono_r. lia. }
  unfold slice_nib in *.
  destruct ((n + c - 1) / c =? 1) eqn:E1.
  { (* one input chunk on the axis *)
    apply Nat.eqb_eq in E1. apply one_block_small in E1; [|exact Hc].
    apply touched_one with (a := 0). intros p Hp. apply Last in Hp.
    apply Nat.div_small. lia. }
  destruct (start / c =? (canonical_stop start step L - 1) / c) eqn:E2.
  { (* first and last selected position in the same chunk *)
    apply Nat.eqb_eq in E2. unfold canonical_stop in E2. rewrite Nat.add_sub in E2.
    apply touched_one with (a := start / c). intros p Hp. apply Last in Hp.
    apply div_sandwich with (hi := start + (L - 1) * step); [exact Hc|lia|lia|exact E2]. }
  destruct (negb (start mod c =? 0)) eqn:E3; [exact Two|].
  destruct (negb (c mod step =? 0) && (1 <? out_chunk_len c step)) eqn:E4; [exact Two|].
  apply negb_false_iff, Nat.eqb_eq in E3.
  apply andb_false_iff in E4. destruct E4 as [E4|E4].
  - (* c is a multiple of step *)
    apply negb_false_iff, Nat.eqb_eq in E4.
    pose proof (Nat.div_mod c step ltac:(lia)) as Dc. rewrite E4, Nat.add_0_r in Dc.
    pose proof (Nat.div_mod start c ltac:(lia)) as Ds. rewrite E3, Nat.add_0_r in Ds.
    assert (Hq : 1 <= c / step).
    { destruct (c / step); [rewrite Nat.mul_0_r in Dc; lia | lia]. }
    assert (Eo : out_chunk_len c step = c / step).
    { unfold out_chunk_len. apply Nat.max_l. exact Hq. }
    rewrite Eo in *.
    remember (c / step) as oc eqn:Eoc. clear Eoc Eo.
    remember (start / c) as q eqn:Eq. clear Eq.
    assert (Ec : c = oc * step) by (rewrite Dc; apply Nat.mul_comm).
    clear Dc. subst c. subst start.
    apply touched_one with (a := q + j). intros p Hp.
    apply block_positions_In in Hp. destruct Hp as [k [Ep [K1 [K2 _]]]].
    assert (Hk : k = j * oc + (k - j * oc)) by lia.
    subst p. rewrite Hk. apply aligned_div; [exact Hs|lia].
  - (* output chunk length one *)
    apply Nat.ltb_ge in E4. pose proof (out_chunk_len_pos c step) as Op.
    assert (Eo : out_chunk_len c step = 1) by lia. rewrite Eo in *.
    apply touched_one with (a := (start + j * step) / c). intros p Hp.
    apply block_positions_In in Hp. destruct Hp as [k [Ep [K1 [K2 _]]]].
    assert (k = j) by lia. subst k p. reflexivity.
Qed.

Print Assumptions blocks_tile_selection.
Print Assumptions block_positions_is_slice.
Print Assumptions touched_at_most_two.
Print Assumptions touched_le_declared.
