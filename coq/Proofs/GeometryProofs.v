From CubedV Require Import Model.Util Model.Geometry.

(* Proofs of the geometry-layer target statements (Specs/Geometry_target.v).
   Everything is over nat; only the standard library is used. *)

(* ------------------------------------------------------------------ *)
(* sums                                                                *)
(* ------------------------------------------------------------------ *)

Lemma sumn_app : forall l1 l2, sumn (l1 ++ l2) = sumn l1 + sumn l2.
Proof. induction l1; intros; simpl; [reflexivity | rewrite IHl1; lia]. Qed.

Lemma sumn_repeat : forall c k, sumn (repeat c k) = k * c.
Proof. induction k; simpl; lia. Qed.

(* ------------------------------------------------------------------ *)
(* G5: regular chunks of one axis                                      *)
(* ------------------------------------------------------------------ *)

Lemma regular_pos : forall n c, 0 < n ->
  regular n c = repeat c (n / c) ++ (if Nat.eqb (n mod c) 0 then [] else [n mod c]).
Proof. intros n c H. destruct n; [lia | reflexivity]. Qed.

Theorem regular_sum : forall n c, 0 < c -> sumn (regular n c) = n.
Proof.
  intros n c Hc. destruct (Nat.eq_dec n 0) as [->|Hn]; [reflexivity|].
  rewrite regular_pos by lia. rewrite sumn_app, sumn_repeat.
  pose proof (Nat.div_mod n c ltac:(lia)) as E.
  remember (n / c) as q. remember (n mod c) as r. clear Heqq Heqr.
  destruct (Nat.eqb_spec r 0) as [H|H]; cbn [sumn]; lia.
Qed.

Theorem regular_entries : forall n c x, 0 < c -> 0 < n -> In x (regular n c) -> 0 < x /\ x <= c.
Proof.
  intros n c x Hc Hn H. rewrite regular_pos in H by assumption.
  apply in_app_or in H. destruct H as [H|H].
  - apply repeat_spec in H. lia.
  - pose proof (Nat.mod_upper_bound n c ltac:(lia)) as B.
    remember (n mod c) as r. clear Heqr.
    destruct (Nat.eqb_spec r 0) as [E|E]; cbn [In] in H; [contradiction|].
    destruct H as [H|[]]. lia.
Qed.

Theorem numblocks1_ceil : forall n c, 0 < c -> 0 < n -> numblocks1 n c = (n + c - 1) / c.
Proof.
  intros n c Hc Hn. unfold numblocks1. rewrite regular_pos by assumption.
  rewrite app_length, repeat_length.
  pose proof (Nat.div_mod n c ltac:(lia)) as E.
  pose proof (Nat.mod_upper_bound n c ltac:(lia)) as B.
  remember (n / c) as q. remember (n mod c) as r. clear Heqq Heqr.
  destruct (Nat.eqb_spec r 0) as [H|H]; cbn [length].
  - apply Nat.div_unique with (r := c - 1); nia.
  - apply Nat.div_unique with (r := r - 1); nia.
Qed.

(* ------------------------------------------------------------------ *)
(* G4: block enumeration                                               *)
(* ------------------------------------------------------------------ *)

Lemma flat_map_length_const : forall {A B} (f : A -> list B) P l,
  (forall a, In a l -> length (f a) = P) -> length (flat_map f l) = length l * P.
Proof.
  induction l as [|a l IH]; intros H; simpl; [reflexivity|].
  rewrite app_length.
  rewrite H by (left; reflexivity).
  rewrite IH by (intros; apply H; right; assumption).
  reflexivity.
Qed.

Theorem blocks_length : forall nb, length (blocks nb) = prodn nb.
Proof.
  induction nb as [|n nb IH]; [reflexivity|].
  cbn [blocks prodn]. rewrite flat_map_length_const with (P := prodn nb).
  - rewrite seq_length. reflexivity.
  - intros a _. rewrite map_length. exact IH.
Qed.

Theorem blocks_complete : forall nb b, In b (blocks nb) <-> Forall2 lt b nb.
Proof.
  induction nb as [|n nb IH]; intros b.
  - simpl. split.
    + intros [<-|[]]. constructor.
    + intros H. inversion H. left; reflexivity.
  - cbn [blocks]. rewrite in_flat_map. split.
    + intros [i [Hi Hb]]. apply in_seq in Hi. apply in_map_iff in Hb.
      destruct Hb as [b' [<- Hb']]. constructor; [lia | apply IH; assumption].
    + intros H. inversion H as [|i m b' nb' Hi Hb']; subst.
      exists i. split; [apply in_seq; lia|].
      apply in_map_iff. exists b'. split; [reflexivity | apply IH; assumption].
Qed.

Lemma NoDup_app_disj : forall {A} (l1 l2 : list A),
  NoDup l1 -> NoDup l2 -> (forall x, In x l1 -> In x l2 -> False) -> NoDup (l1 ++ l2).
Proof.
  induction l1 as [|a l1 IH]; intros l2 H1 H2 D; simpl; [assumption|].
  inversion H1; subst. constructor.
  - intros Hin. apply in_app_or in Hin. destruct Hin as [Hin|Hin]; [contradiction|].
    apply (D a); [left; reflexivity | assumption].
  - apply IH; try assumption. intros x Hx. apply D. right; assumption.
Qed.

Lemma NoDup_flat_map : forall {A B} (f : A -> list B) l,
  NoDup l -> (forall a, In a l -> NoDup (f a)) ->
  (forall a a' x, In a l -> In a' l -> In x (f a) -> In x (f a') -> a = a') ->
  NoDup (flat_map f l).
Proof.
  induction l as [|a l IH]; intros Hl Hf Hd; simpl; [constructor|].
  inversion Hl; subst. apply NoDup_app_disj.
  - apply Hf. left; reflexivity.
  - apply IH.
    + assumption.
    + intros; apply Hf; right; assumption.
    + intros a1 a2 x I1 I2 X1 X2. apply (Hd a1 a2 x); try assumption; right; assumption.
  - intros x Hx Hx'. apply in_flat_map in Hx'. destruct Hx' as [a' [Ha' Hx']].
    assert (a = a') as E.
    { apply (Hd a a' x); [left; reflexivity | right; assumption | assumption | assumption]. }
    subst a'. contradiction.
Qed.

Lemma NoDup_map_cons : forall (i : nat) (l : list (list nat)), NoDup l -> NoDup (map (cons i) l).
Proof.
  induction l as [|a l IH]; intros H; simpl; [constructor|].
  inversion H; subst. constructor; [|apply IH; assumption].
  intros Hin. apply in_map_iff in Hin. destruct Hin as [y [E Hy]].
  inversion E; subst. contradiction.
Qed.

Theorem blocks_nodup : forall nb, NoDup (blocks nb).
Proof.
  induction nb as [|n nb IH].
  - simpl. constructor; [intros [] | constructor].
  - cbn [blocks]. apply NoDup_flat_map.
    + apply seq_NoDup.
    + intros a _. apply NoDup_map_cons. exact IH.
    + intros a a' x _ _ H1 H2. apply in_map_iff in H1. apply in_map_iff in H2.
      destruct H1 as [y1 [E1 _]]. destruct H2 as [y2 [E2 _]]. congruence.
Qed.

(* the k-th element of a flat_map whose pieces all have the same length P > 0 *)
Lemma nth_flat_map_const : forall {A B} (f : A -> list B) P (d : B) (da : A), 0 < P ->
  forall l k, (forall a, In a l -> length (f a) = P) -> k < length l * P ->
  nth k (flat_map f l) d = nth (k mod P) (f (nth (k / P) l da)) d.
Proof.
  intros A B f P d da HP. induction l as [|a l IH]; intros k Hlen Hk.
  - simpl in Hk. lia.
  - cbn [flat_map]. cbn [length] in Hk.
    assert (La : length (f a) = P) by (apply Hlen; left; reflexivity).
    destruct (Nat.lt_ge_cases k P) as [Hlt|Hge].
    + rewrite app_nth1 by lia. rewrite Nat.div_small, Nat.mod_small by assumption. reflexivity.
    + assert (exists k', k = k' + 1 * P) as [k' ->] by (exists (k - P); lia).
      rewrite app_nth2 by lia. rewrite La. replace (k' + 1 * P - P) with k' by lia.
      rewrite Nat.div_add, Nat.mod_add by lia.
      rewrite IH; [| intros; apply Hlen; right; assumption | lia].
      replace (k' / P + 1) with (S (k' / P)) by lia. reflexivity.
Qed.

Theorem blocks_nth_unravel : forall nb k, k < prodn nb -> nth k (blocks nb) [] = unravel nb k.
Proof.
  induction nb as [|n nb IH]; intros k Hk.
  - simpl in Hk. assert (k = 0) by lia. subst. reflexivity.
  - cbn [prodn] in Hk. cbn [blocks unravel].
    destruct (Nat.eq_dec (prodn nb) 0) as [Z|Z]; [rewrite Z, Nat.mul_0_r in Hk; lia|].
    assert (HP : 0 < prodn nb) by lia.
    assert (Hm : k mod prodn nb < prodn nb) by (apply Nat.mod_upper_bound; assumption).
    rewrite (nth_flat_map_const _ (prodn nb) [] 0 HP).
    + assert (Hq : k / prodn nb < n) by (apply Nat.div_lt_upper_bound; lia).
      rewrite seq_nth by assumption. cbn [Nat.add].
      rewrite (nth_indep _ [] ((k / prodn nb) :: [])).
      * rewrite (map_nth (cons (k / prodn nb)) (blocks nb) [] (k mod prodn nb)).
        rewrite IH by assumption. reflexivity.
      * rewrite map_length, blocks_length. assumption.
    + intros a _. rewrite map_length. apply blocks_length.
    + rewrite seq_length. assumption.
Qed.

Lemma blocks_as_map : forall nb, blocks nb = map (unravel nb) (seq 0 (prodn nb)).
Proof.
  intros nb. apply (nth_ext _ _ [] (unravel nb 0)).
  - rewrite map_length, seq_length. apply blocks_length.
  - intros k Hk. rewrite blocks_length in Hk. rewrite map_nth.
    rewrite seq_nth by assumption. apply blocks_nth_unravel. assumption.
Qed.

Lemma skipn_seq_shift : forall s a N, skipn s (seq a N) = seq (a + s) (N - s).
Proof.
  induction s as [|s IH]; intros a N.
  - simpl. rewrite Nat.add_0_r, Nat.sub_0_r. reflexivity.
  - destruct N as [|N]; [reflexivity|].
    cbn [seq skipn]. rewrite IH. replace (S a + s) with (a + S s) by lia. reflexivity.
Qed.

Lemma skipn_map_comm : forall {A B} (f : A -> B) n l, skipn n (map f l) = map f (skipn n l).
Proof. induction n; destruct l; simpl; try reflexivity. apply IHn. Qed.

Theorem blocks_from_spec : forall nb start,
  blocks_from nb start = map (unravel nb) (seq start (prodn nb - start)).
Proof.
  intros. unfold blocks_from. rewrite blocks_as_map.
  rewrite skipn_map_comm, skipn_seq_shift. reflexivity.
Qed.

Theorem mappable_length : forall chunks,
  length (blocks (map (@length nat) chunks)) = num_tasks chunks.
Proof. intros. unfold num_tasks. apply blocks_length. Qed.

(* ------------------------------------------------------------------ *)
(* G3: ravel / unravel                                                 *)
(* ------------------------------------------------------------------ *)

Theorem ravel_unravel : forall nb o, o < prodn nb ->
  ravel nb (unravel nb o) = o /\ Forall2 lt (unravel nb o) nb.
Proof.
  induction nb as [|n nb IH]; intros o Ho.
  - simpl in *. split; [lia | constructor].
  - cbn [prodn] in Ho. cbn [unravel ravel].
    destruct (Nat.eq_dec (prodn nb) 0) as [Z|Z]; [rewrite Z, Nat.mul_0_r in Ho; lia|].
    destruct (IH (o mod prodn nb)) as [R F]; [apply Nat.mod_upper_bound; assumption|].
    split.
    + rewrite R. pose proof (Nat.div_mod o (prodn nb) Z). lia.
    + constructor; [apply Nat.div_lt_upper_bound; lia | assumption].
Qed.

Theorem unravel_ravel : forall nb b, Forall2 lt b nb ->
  unravel nb (ravel nb b) = b /\ ravel nb b < prodn nb.
Proof.
  intros nb b H. induction H as [|i n b nb Hi HF [IH1 IH2]].
  - simpl. split; [reflexivity | lia].
  - cbn [ravel unravel prodn].
    assert (D : (i * prodn nb + ravel nb b) / prodn nb = i).
    { symmetry. apply Nat.div_unique with (r := ravel nb b); [assumption | lia]. }
    assert (M : (i * prodn nb + ravel nb b) mod prodn nb = ravel nb b).
    { symmetry. apply Nat.mod_unique with (q := i); [assumption | lia]. }
    rewrite D, M, IH1. split; [reflexivity|].
    assert (S i * prodn nb <= n * prodn nb) by (apply Nat.mul_le_mono_r; lia).
    lia.
Qed.

Theorem ravel_injective : forall nb b b',
  Forall2 lt b nb -> Forall2 lt b' nb -> ravel nb b = ravel nb b' -> b = b'.
Proof.
  intros nb b b' H H' E.
  destruct (unravel_ravel nb b H) as [U _]. destruct (unravel_ravel nb b' H') as [U' _].
  transitivity (unravel nb (ravel nb b)); [symmetry; exact U | rewrite E; exact U'].
Qed.

(* ------------------------------------------------------------------ *)
(* G1: regions of one axis                                             *)
(* ------------------------------------------------------------------ *)

Lemma starts_from_nth : forall cs acc i, i <= length cs ->
  nth i (starts_from acc cs) 0 = acc + sumn (firstn i cs).
Proof.
  induction cs as [|c cs IH]; intros acc i Hi.
  - simpl in Hi. assert (i = 0) by lia. subst. simpl. lia.
  - destruct i as [|i]; simpl; [lia|]. rewrite IH by (simpl in Hi; lia). lia.
Qed.

Lemma region1_eq : forall cs i, i < length cs ->
  region1 cs i = (sumn (firstn i cs), sumn (firstn (S i) cs)).
Proof.
  intros cs i Hi. unfold region1, starts.
  rewrite (starts_from_nth cs 0 i) by lia.
  rewrite (starts_from_nth cs 0 (S i)) by lia. reflexivity.
Qed.

Lemma sumn_firstn_S : forall cs i, i < length cs ->
  sumn (firstn (S i) cs) = sumn (firstn i cs) + nth i cs 0.
Proof.
  induction cs as [|c cs IH]; intros i Hi; [simpl in Hi; lia|].
  destruct i as [|i].
  - simpl. lia.
  - change (firstn (S (S i)) (c :: cs)) with (c :: firstn (S i) cs).
    change (firstn (S i) (c :: cs)) with (c :: firstn i cs).
    cbn [sumn nth]. rewrite IH by (simpl in Hi; lia). lia.
Qed.

Lemma sumn_firstn_le : forall cs i, sumn (firstn i cs) <= sumn cs.
Proof.
  intros cs i. rewrite <- (firstn_skipn i cs) at 2. rewrite sumn_app. lia.
Qed.

Lemma sumn_firstn_mono : forall cs i j, i <= j -> sumn (firstn i cs) <= sumn (firstn j cs).
Proof.
  intros cs i j H. replace (firstn i cs) with (firstn i (firstn j cs)).
  - apply sumn_firstn_le.
  - rewrite firstn_firstn. f_equal. lia.
Qed.

Lemma axis_exists : forall cs x, x < sumn cs ->
  exists i, i < length cs /\ sumn (firstn i cs) <= x < sumn (firstn (S i) cs).
Proof.
  induction cs as [|c cs IH]; intros x Hx; [simpl in Hx; lia|].
  cbn [sumn] in Hx. destruct (Nat.lt_ge_cases x c) as [L|G].
  - exists 0. simpl. lia.
  - destruct (IH (x - c)) as [i [Hi [A B]]]; [lia|].
    exists (S i). split; [simpl; lia|].
    change (firstn (S (S i)) (c :: cs)) with (c :: firstn (S i) cs).
    change (firstn (S i) (c :: cs)) with (c :: firstn i cs).
    cbn [sumn]. lia.
Qed.

Theorem regions_partition_axis : forall cs x, x < sumn cs ->
  exists i, i < length cs /\ fst (region1 cs i) <= x < snd (region1 cs i)
  /\ forall j, j < length cs -> fst (region1 cs j) <= x < snd (region1 cs j) -> j = i.
Proof.
  intros cs x Hx. destruct (axis_exists cs x Hx) as [i [Hi [A B]]].
  exists i. split; [assumption|]. rewrite region1_eq by assumption. cbn [fst snd].
  split; [lia|]. intros j Hj. rewrite region1_eq by assumption. cbn [fst snd]. intros [A' B'].
  destruct (Nat.lt_trichotomy j i) as [L|[E|L]]; [|assumption|].
  - pose proof (sumn_firstn_mono cs (S j) i ltac:(lia)). lia.
  - pose proof (sumn_firstn_mono cs (S i) j ltac:(lia)). lia.
Qed.

Theorem region1_extent : forall cs i, i < length cs ->
  snd (region1 cs i) = fst (region1 cs i) + nth i cs 0
  /\ snd (region1 cs i) <= sumn cs.
Proof.
  intros cs i Hi. rewrite region1_eq by assumption. cbn [fst snd]. split.
  - apply sumn_firstn_S; assumption.
  - apply sumn_firstn_le.
Qed.

(* ------------------------------------------------------------------ *)
(* G2: N-d regions                                                     *)
(* ------------------------------------------------------------------ *)

Lemma get_item_cons : forall c cs i b,
  get_item (c :: cs) (i :: b) = region1 c i :: get_item cs b.
Proof. reflexivity. Qed.

Lemma in_region_cons : forall r rs xi xs,
  in_region (r :: rs) (xi :: xs) = ((fst r <=? xi) && (xi <? snd r)) && in_region rs xs.
Proof.
  intros. unfold in_region. cbn [combine forallb length fst snd Nat.eqb].
  rewrite <- !andb_assoc. reflexivity.
Qed.

Theorem regions_partition : forall chunks x,
  Forall2 (fun c xi => xi < sumn c) chunks x ->
  exists b, In b (blocks (map (@length nat) chunks))
    /\ in_region (get_item chunks b) x = true
    /\ forall b', In b' (blocks (map (@length nat) chunks)) ->
         in_region (get_item chunks b') x = true -> b' = b.
Proof.
  intros chunks x H. induction H as [|c xi chunks x Hc HF IH].
  - exists []. split; [left; reflexivity|]. split; [reflexivity|].
    intros b' [<-|[]] _. reflexivity.
  - destruct IH as [b0 [Hb0 [Rb0 Ub0]]].
    destruct (regions_partition_axis c xi Hc) as [i [Hi [[A B] Ui]]].
    exists (i :: b0). split; [|split].
    + cbn [map]. apply blocks_complete.
      constructor; [assumption | apply blocks_complete; assumption].
    + rewrite get_item_cons, in_region_cons, Rb0.
      rewrite (proj2 (Nat.leb_le _ _) A), (proj2 (Nat.ltb_lt _ _) B). reflexivity.
    + intros b' Hb' Rb'. cbn [map] in Hb'. apply blocks_complete in Hb'.
      inversion Hb' as [|j m b'' nb' Hj Hb'']; subst.
      rewrite get_item_cons, in_region_cons in Rb'.
      apply andb_true_iff in Rb'. destruct Rb' as [R1 R2].
      apply andb_true_iff in R1. destruct R1 as [R1a R1b].
      apply Nat.leb_le in R1a. apply Nat.ltb_lt in R1b.
      f_equal.
      * apply Ui; [assumption | split; assumption].
      * apply Ub0; [apply blocks_complete; assumption | assumption].
Qed.

(* distinct block ids inside the grid have distinct offsets (the Philox stream id of cubed.random) *)
Theorem distinct_blocks_distinct_streams : forall root nb b b', Forall2 lt b nb -> Forall2 lt b' nb ->
  b <> b' -> root + ravel nb b <> root + ravel nb b'.
Proof.
  intros root nb b b' Hb Hb' Hne E. apply Hne. apply (ravel_injective nb); try assumption. lia.
Qed.
