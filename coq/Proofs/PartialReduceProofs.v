(* Proofs of the targets in Specs/PartialReduce_target.v (C03, defect D22). *)
From Coq Require Import ZArith List Lia Bool.
From CubedV Require Import Model.Util Model.Memory Model.PartialReduce.
Import ListNotations.
Local Open Scope Z_scope.

(* the states after the first and after every later iteration (R' = R) *)
Definition pr_s1 (x R : Z) (wi : bool) : prstate :=
  {| st_array := (if wi then R else x); st_reduced := 0; st_result := R |}.
Definition pr_s2 (x R : Z) (wi : bool) : prstate :=
  {| st_array := (if wi then R else x); st_reduced := R; st_result := R |}.

(* iteration peaks *)
Definition pk1 (rc x R : Z) (wi : bool) : Z :=
  if wi then Z.max (x * rc + x) (Z.max (x + R) (2 * R))
  else Z.max (x * rc + x) (Z.max x (x + R)).
Definition pk2 (rc x R : Z) (wi : bool) : Z :=
  if wi then Z.max (2 * R + x * rc + x) (Z.max (2 * R + x) (5 * R))
  else Z.max (x + R + x * rc + x) (Z.max (x + R) (x + 4 * R)).
Definition pk3 (rc x R : Z) (wi : bool) : Z :=
  if wi then Z.max (3 * R + x * rc + x) (Z.max (3 * R + x) (5 * R))
  else Z.max (2 * x + 2 * R + x * rc) (Z.max (x + 2 * R) (x + 4 * R)).

Lemma pr_iter_first : forall rc x R wi, 0 <= R ->
  pr_iter rc x R R wi true pr0 = (pk1 rc x R wi, pr_s1 x R wi).
Proof.
  intros. unfold pr_iter, pr_alive, pr0, pk1, pr_s1.
  cbn [st_array st_reduced st_result]. destruct wi; f_equal; lia.
Qed.

Lemma pr_iter_second : forall rc x R wi, 0 <= R ->
  pr_iter rc x R R wi false (pr_s1 x R wi) = (pk2 rc x R wi, pr_s2 x R wi).
Proof.
  intros. unfold pr_iter, pr_alive, pk2, pr_s1, pr_s2.
  cbn [st_array st_reduced st_result]. destruct wi; f_equal; lia.
Qed.

Lemma pr_iter_later : forall rc x R wi, 0 <= R ->
  pr_iter rc x R R wi false (pr_s2 x R wi) = (pk3 rc x R wi, pr_s2 x R wi).
Proof.
  intros. unfold pr_iter, pr_alive, pk3, pr_s2.
  cbn [st_array st_reduced st_result]. destruct wi; f_equal; lia.
Qed.

(* the iteration peaks grow: 0 <= pk1 <= pk2 <= pk3 *)
Lemma pk_chain : forall rc x R wi, 0 <= rc -> 0 <= x -> 0 <= R ->
  Z.max (Z.max 0 (pk1 rc x R wi)) (pk2 rc x R wi) <= pk3 rc x R wi.
Proof.
  intros. assert (0 <= x * rc) by (apply Z.mul_nonneg_nonneg; lia).
  unfold pk1, pk2, pk3. destruct wi; lia.
Qed.

(* from the third iteration on the state is a fixed point *)
Lemma pr_run_later : forall rc x R wi, 0 <= R -> forall k pk,
  pr_run rc x R R wi k false (pr_s2 x R wi) pk
  = (match k with O => pk | S _ => Z.max pk (pk3 rc x R wi) end, pr_s2 x R wi).
Proof.
  intros rc x R wi HR. induction k; intros pk.
  - reflexivity.
  - cbn [pr_run]. rewrite pr_iter_later by assumption. rewrite IHk.
    f_equal. destruct k; lia.
Qed.

(* the whole run, by number of blocks *)
Lemma pr_run_closed : forall rc x R wi, 0 <= R -> forall k,
  pr_run rc x R R wi k true pr0 0
  = match k with
    | O => (0, pr0)
    | S O => (Z.max 0 (pk1 rc x R wi), pr_s1 x R wi)
    | S (S O) => (Z.max (Z.max 0 (pk1 rc x R wi)) (pk2 rc x R wi), pr_s2 x R wi)
    | S (S (S _)) =>
        (Z.max (Z.max (Z.max 0 (pk1 rc x R wi)) (pk2 rc x R wi)) (pk3 rc x R wi), pr_s2 x R wi)
    end.
Proof.
  intros rc x R wi HR k.
  destruct k as [|[|k]].
  - reflexivity.
  - cbn [pr_run]. rewrite pr_iter_first by assumption. reflexivity.
  - cbn [pr_run]. rewrite pr_iter_first by assumption.
    rewrite pr_iter_second by assumption.
    rewrite pr_run_later by assumption. destruct k; reflexivity.
Qed.

Lemma pr_projected_closed : forall res rc wc x R wi,
  pr_projected res rc wc x R wi
  = res + x * rc + x + (x + 2 * R + (if wi then 2 * R else 0)) + R + R * wc.
Proof.
  intros. unfold pr_projected, pr_extra, calc_projected. cbn [fold_left]. reflexivity.
Qed.

Lemma pr_projected_old_closed : forall res rc wc x R,
  pr_projected_old res rc wc x R = res + x * rc + x + (x + 2 * R) + R + R * wc.
Proof.
  intros. unfold pr_projected_old, pr_extra_old, calc_projected. cbn [fold_left]. reflexivity.
Qed.

(* 1 *)
Theorem pr_task_peak_bounded : forall rc wc x R wi k, 0 <= rc -> 1 <= wc -> 0 <= x -> 0 <= R ->
  pr_task_peak rc wc x R R wi k <= pr_projected 0 rc wc x R wi.
Proof.
  intros rc wc x R wi k Hrc Hwc Hx HR.
  unfold pr_task_peak. rewrite pr_run_closed by assumption.
  rewrite pr_projected_closed.
  assert (0 <= x * rc) by (apply Z.mul_nonneg_nonneg; lia).
  assert (R <= R * wc) by nia.
  destruct k as [|[|[|k]]]; unfold pk1, pk2, pk3, pr0, pr_s1, pr_s2;
    cbn [st_array st_reduced st_result]; destruct wi; lia.
Qed.

(* 2 *)
Theorem pr_old_refuted : pr_task_peak 1 1 1 8 8 true 2 > pr_projected_old 0 1 1 1 8.
Proof. vm_compute. reflexivity. Qed.

(* 3 *)
Theorem pr_old_bound_iff : forall x R k, 0 <= x -> 0 <= R -> (2 <= k)%nat ->
  (pr_task_peak 1 1 x R R true k <= pr_projected_old 0 1 1 x R <-> R <= 3 * x).
Proof.
  intros x R k Hx HR Hk.
  unfold pr_task_peak. rewrite pr_run_closed by assumption.
  rewrite pr_projected_old_closed.
  destruct k as [|[|[|k]]]; try (exfalso; lia);
    unfold pk1, pk2, pk3, pr_s2; cbn [st_array st_reduced st_result]; lia.
Qed.

(* 4 *)
Theorem pr_peak_closed : forall rc wc x R k, 0 <= rc -> 0 <= wc -> 0 <= x -> 0 <= R -> (3 <= k)%nat ->
  pr_task_peak rc wc x R R true k
  = Z.max (3 * R + x * rc + x) (Z.max (5 * R) (R + R * wc)).
Proof.
  intros rc wc x R k Hrc Hwc Hx HR Hk.
  unfold pr_task_peak. rewrite pr_run_closed by assumption.
  assert (0 <= x * rc) by (apply Z.mul_nonneg_nonneg; lia).
  assert (0 <= R * wc) by (apply Z.mul_nonneg_nonneg; lia).
  destruct k as [|[|[|k]]]; try (exfalso; lia).
  cbn [pr_s2 st_result].
  rewrite (Z.max_r _ _ (pk_chain rc x R true Hrc Hx HR)).
  unfold pk3. lia.
Qed.

(* 5 *)
Theorem pr_projected_reserved : forall res rc wc x R wi,
  pr_projected res rc wc x R wi = res + pr_projected 0 rc wc x R wi.
Proof. intros. rewrite !pr_projected_closed. lia. Qed.

Print Assumptions pr_task_peak_bounded.
Print Assumptions pr_old_refuted.
Print Assumptions pr_old_bound_iff.
Print Assumptions pr_peak_closed.
Print Assumptions pr_projected_reserved.
