From CubedV Require Import Model.Util Model.Geometry Model.StoreRegion Model.StoreGuard Proofs.StoreProofs.
From Coq Require Import ZifyBool.
Local Open Scope Z_scope.

Lemma mod0_nat_Z : forall a b : nat, (Z.of_nat a mod Z.of_nat b =? 0) = Nat.eqb (a mod b) 0.
Proof.
  intros a b. rewrite <- Nat2Z.inj_mod.
  destruct (Nat.eqb_spec (a mod b) 0) as [E|E]; [rewrite E; reflexivity|apply Z.eqb_neq; lia].
Qed.

Lemma eqb_nat_Z : forall a b : nat, (Z.of_nat a =? Z.of_nat b) = Nat.eqb a b.
Proof. intros a b. destruct (Nat.eqb_spec a b) as [E|E]; [rewrite E; apply Z.eqb_refl|apply Z.eqb_neq; lia]. Qed.

Lemma ltb_nat_Z : forall a b : nat, (Z.of_nat a <? Z.of_nat b) = (a <? b)%nat.
Proof. intros a b. destruct (Nat.ltb_spec a b); [apply Z.ltb_lt|apply Z.ltb_ge]; lia. Qed.

(* the source's alignment test is the negation of Model.StoreRegion.aligned *)
Theorem misalignedZ_view : forall a : raxis,
  misalignedZ (Z.of_nat (rstart a)) (Z.of_nat (rstop a)) (Z.of_nat (tc a)) (Z.of_nat (tn a)) = negb (aligned a).
Proof.
  intros a. unfold misalignedZ, aligned. rewrite !mod0_nat_Z, eqb_nat_Z.
  destruct (Nat.eqb (rstart a mod tc a) 0), (Nat.eqb (rstop a mod tc a) 0), (Nat.eqb (rstop a) (tn a)); reflexivity.
Qed.

(* the source's chunk test is the negation of Model.StoreRegion.chunks_ok *)
Theorem chunks_mismatchZ_view : forall a : raxis,
  chunks_mismatchZ (Z.of_nat (sn a)) (Z.of_nat (sc a)) (Z.of_nat (tc a)) (Z.of_nat (nblocks (sn a) (sc a))) = negb (chunks_ok a).
Proof.
  intros a. unfold chunks_mismatchZ, chunks_ok. rewrite eqb_nat_Z. change 1 with (Z.of_nat 1). rewrite !ltb_nat_Z.
  destruct (Nat.eqb (sc a) (tc a)); cbn [negb andb orb]; [reflexivity|].
  destruct (Nat.ltb_spec 1 (nblocks (sn a) (sc a))) as [L|L], (Nat.ltb_spec (tc a) (sn a)) as [M|M]; cbn [orb];
    destruct (Nat.leb_spec (nblocks (sn a) (sc a)) 1), (Nat.leb_spec (sn a) (tc a)); cbn; try reflexivity; lia.
Qed.

(* hence: a region store is accepted only if no axis trips either source test (shape_ok is the indexer's shape comparison) *)
Theorem region_accepts_source_tests : forall axes,
  region_accepts axes = Accept ->
  forall a, In a axes ->
    misalignedZ (Z.of_nat (rstart a)) (Z.of_nat (rstop a)) (Z.of_nat (tc a)) (Z.of_nat (tn a)) = false /\
    chunks_mismatchZ (Z.of_nat (sn a)) (Z.of_nat (sc a)) (Z.of_nat (tc a)) (Z.of_nat (nblocks (sn a) (sc a))) = false.
Proof.
  intros axes H a Hin. unfold region_accepts in H.
  destruct (forallb aligned axes && forallb shape_ok axes && forallb chunks_ok axes) eqn:E; [|discriminate].
  apply andb_true_iff in E. destruct E as [E Hch]. apply andb_true_iff in E. destruct E as [Hal _].
  rewrite forallb_forall in Hal, Hch. rewrite misalignedZ_view, chunks_mismatchZ_view, (Hal _ Hin), (Hch _ Hin). split; reflexivity.
Qed.
