(* Proofs of the groupby_blockwise targets (Specs/GroupBy_target.v): the re-chunking of the grouped
   axis computed by _get_chunks_for_groups hands task j exactly the labels of the groups of output
   chunk j, and the declared number of groups of that chunk is the j-th entry of the regular chunks.
   Standard library only. *)
From Coq Require Import List Arith Bool Lia PeanoNat.
From CubedV Require Import Model.Util Model.Geometry Model.GroupBy Proofs.GeometryProofs.
Import ListNotations.

Arguments Nat.div : simpl never.
Arguments Nat.modulo : simpl never.

Definition labels_ok (labels : list nat) (G : nat) : Prop := sortedb labels = true /\ Forall (fun l => l < G) labels.

(* ------------------------------------------------------------------ *)
(* sorted lists and start_index                                        *)
(* ------------------------------------------------------------------ *)

Lemma sorted_tail : forall a l, sortedb (a :: l) = true -> sortedb l = true.
Proof.
  intros a [|b l] H; [reflexivity|].
  change ((a <=? b) && sortedb (b :: l) = true) in H.
  apply andb_true_iff in H. tauto.
Qed.

Lemma sorted_head_le : forall l a, sortedb (a :: l) = true -> Forall (fun x => a <= x) l.
Proof.
  induction l as [|b l IH]; intros a H; [constructor|].
  change ((a <=? b) && sortedb (b :: l) = true) in H.
  apply andb_true_iff in H. destruct H as [H1 H2]. apply Nat.leb_le in H1.
  constructor; [assumption|].
  apply IH in H2. eapply Forall_impl; [|exact H2]. simpl. intros; lia.
Qed.

Lemma filter_lt_nil : forall g l, Forall (fun x => g <= x) l -> filter (fun x => x <? g) l = [].
Proof.
  induction 1 as [|x l Hx Hl IH]; simpl; [reflexivity|].
  destruct (Nat.ltb_spec x g); [lia|assumption].
Qed.

(* on a sorted list the labels smaller than g are a prefix, of length start_index l g *)
Lemma sorted_split : forall g l, sortedb l = true ->
  firstn (start_index l g) l = filter (fun x => x <? g) l /\
  Forall (fun x => g <= x) (skipn (start_index l g) l).
Proof.
  intros g. induction l as [|a l IH]; intros H.
  - split; [reflexivity|constructor].
  - pose proof (sorted_head_le _ _ H) as Hle. apply sorted_tail in H. destruct (IH H) as [I1 I2].
    unfold start_index in *. cbn [filter]. destruct (Nat.ltb_spec a g) as [L|L].
    + cbn [length firstn skipn]. split; [f_equal; assumption|assumption].
    + assert (F : Forall (fun x => g <= x) l).
      { eapply Forall_impl; [|exact Hle]. simpl. intros; lia. }
      rewrite (filter_lt_nil g l F). cbn [length firstn skipn].
      split; [reflexivity|]. constructor; assumption.
Qed.

Lemma in_firstn_start_index : forall l g x, sortedb l = true ->
  In x (firstn (start_index l g) l) -> x < g.
Proof.
  intros l g x H Hin. destruct (sorted_split g l H) as [E _]. rewrite E in Hin.
  apply filter_In in Hin. destruct Hin as [_ Hlt]. apply Nat.ltb_lt in Hlt. assumption.
Qed.

Lemma in_skipn_start_index : forall l g x, sortedb l = true ->
  In x (skipn (start_index l g) l) -> g <= x.
Proof.
  intros l g x H Hin. destruct (sorted_split g l H) as [_ F].
  rewrite Forall_forall in F. apply F. assumption.
Qed.

Lemma start_index_mono : forall l g g', g <= g' -> start_index l g <= start_index l g'.
Proof.
  unfold start_index. induction l as [|a l IH]; intros g g' H; simpl; [lia|].
  specialize (IH g g' H).
  destruct (Nat.ltb_spec a g), (Nat.ltb_spec a g'); simpl; lia.
Qed.

Lemma start_index_0 : forall l, start_index l 0 = 0.
Proof. unfold start_index. induction l as [|a l IH]; simpl; [reflexivity|assumption]. Qed.

Lemma start_index_all : forall l g, Forall (fun x => x < g) l -> start_index l g = length l.
Proof.
  unfold start_index. induction 1 as [|x l Hx Hl IH]; simpl; [reflexivity|].
  destruct (Nat.ltb_spec x g); [simpl; congruence|lia].
Qed.

Lemma start_index_le_length : forall l g, start_index l g <= length l.
Proof.
  unfold start_index. induction l as [|a l IH]; intros g; simpl; [lia|].
  specialize (IH g). destruct (a <? g); simpl; lia.
Qed.

(* ------------------------------------------------------------------ *)
(* firstn / skipn                                                      *)
(* ------------------------------------------------------------------ *)

Lemma firstn_app_skipn : forall (l : list nat) a b, a <= b ->
  firstn a l ++ firstn (b - a) (skipn a l) = firstn b l.
Proof.
  induction l as [|x l IH]; intros a b H.
  - rewrite skipn_nil, !firstn_nil. reflexivity.
  - destruct a as [|a].
    + simpl. rewrite Nat.sub_0_r. reflexivity.
    + destruct b as [|b]; [lia|]. simpl. f_equal. apply IH. lia.
Qed.

Lemma in_firstn : forall (l : list nat) n x, In x (firstn n l) -> In x l.
Proof.
  induction l as [|a l IH]; intros n x H.
  - rewrite firstn_nil in H. assumption.
  - destruct n; simpl in H; [contradiction|]. destruct H as [H|H]; [left; assumption|right; eauto].
Qed.

Lemma firstn_map_seq : forall (g : nat -> nat) n j a, j <= n ->
  firstn j (map g (seq a n)) = map g (seq a j).
Proof.
  intros g. induction n as [|n IH]; intros j a H.
  - assert (j = 0) by lia. subst. reflexivity.
  - destruct j as [|j]; [reflexivity|]. simpl. f_equal. apply IH. lia.
Qed.

Lemma nth_map_seq : forall (g : nat -> nat) n j a d, j < n -> nth j (map g (seq a n)) d = g (a + j).
Proof.
  intros g. induction n as [|n IH]; intros j a d H; [lia|].
  destruct j as [|j]; simpl.
  - rewrite Nat.add_0_r. reflexivity.
  - rewrite IH by lia. f_equal. lia.
Qed.

Lemma nth_repeat_lt : forall (a d : nat) m n, n < m -> nth n (repeat a m) d = a.
Proof.
  induction m as [|m IH]; intros n H; [lia|].
  destruct n; simpl; [reflexivity|]. apply IH. lia.
Qed.

Lemma map_nth_seq : forall (l : list nat) d, map (fun j => nth j l d) (seq 0 (length l)) = l.
Proof.
  induction l as [|a l IH]; intros d; [reflexivity|].
  cbn [length seq map nth]. f_equal.
  rewrite <- seq_shift, map_map. apply IH.
Qed.

(* ------------------------------------------------------------------ *)
(* diffs                                                               *)
(* ------------------------------------------------------------------ *)

Lemma diffs_length : forall l last, length (diffs l last) = length l.
Proof.
  induction l as [|a l IH]; intros last; [reflexivity|].
  destruct l as [|b r]; [reflexivity|].
  change (diffs (a :: b :: r) last) with ((b - a) :: diffs (b :: r) last).
  cbn [length]. f_equal. apply IH.
Qed.

Lemma diffs_map_seq : forall (f : nat -> nat) n a,
  diffs (map f (seq a n)) (f (a + n)) = map (fun j => f (S j) - f j) (seq a n).
Proof.
  intros f. induction n as [|n IH]; intros a; [reflexivity|].
  destruct n as [|m].
  - simpl. rewrite Nat.add_1_r. reflexivity.
  - specialize (IH (S a)).
    change (seq a (S (S m))) with (a :: S a :: seq (S (S a)) m).
    cbn [map].
    change (diffs (f a :: f (S a) :: map f (seq (S (S a)) m)) (f (a + S (S m))))
      with ((f (S a) - f a) :: diffs (f (S a) :: map f (seq (S (S a)) m)) (f (a + S (S m)))).
    f_equal. replace (a + S (S m)) with (S a + S m) by lia. exact IH.
Qed.

Lemma sumn_map_diff : forall (f : nat -> nat), (forall i j, i <= j -> f i <= f j) ->
  forall k a, sumn (map (fun j => f (S j) - f j) (seq a k)) = f (a + k) - f a.
Proof.
  intros f M. induction k as [|k IH]; intros a.
  - simpl. rewrite Nat.add_0_r. lia.
  - cbn [seq map sumn]. rewrite IH.
    pose proof (M a (S a) ltac:(lia)). pose proof (M (S a) (S a + k) ltac:(lia)).
    replace (a + S k) with (S a + k) by lia. lia.
Qed.

(* ------------------------------------------------------------------ *)
(* arithmetic of groups_per_chunk / num_out_chunks                     *)
(* ------------------------------------------------------------------ *)

Lemma gpc_pos : forall nc G, 0 < groups_per_chunk nc G.
Proof. intros. unfold groups_per_chunk. lia. Qed.

Lemma num_out_chunks_cover : forall gpc G, 0 < gpc -> G <= num_out_chunks gpc G * gpc.
Proof.
  intros gpc G H. unfold num_out_chunks.
  pose proof (Nat.div_mod (G + gpc - 1) gpc ltac:(lia)) as E.
  pose proof (Nat.mod_upper_bound (G + gpc - 1) gpc ltac:(lia)) as B.
  remember ((G + gpc - 1) / gpc) as q. remember ((G + gpc - 1) mod gpc) as r. nia.
Qed.

Lemma num_out_chunks_regular : forall gpc G, 0 < gpc -> 0 < G ->
  num_out_chunks gpc G = length (regular G gpc).
Proof.
  intros gpc G H1 H2. unfold num_out_chunks. rewrite <- numblocks1_ceil by assumption. reflexivity.
Qed.

(* the j-th regular chunk reaches the end of the axis or the end of the j-th full block *)
Lemma regular_nth_reach : forall G c j, 0 < c -> 0 < G -> j < length (regular G c) ->
  G <= j * c + nth j (regular G c) 0 \/ (j + 1) * c <= j * c + nth j (regular G c) 0.
Proof.
  intros G c j Hc HG Hj. rewrite regular_pos in * by assumption.
  rewrite app_length, repeat_length in Hj.
  pose proof (Nat.div_mod G c ltac:(lia)) as E.
  pose proof (Nat.mod_upper_bound G c ltac:(lia)) as B.
  remember (G / c) as q. remember (G mod c) as r. clear Heqq Heqr.
  destruct (Nat.lt_ge_cases j q) as [L|L].
  - right. rewrite app_nth1 by (rewrite repeat_length; assumption).
    rewrite nth_repeat_lt by assumption. lia.
  - left. rewrite app_nth2 by (rewrite repeat_length; assumption). rewrite repeat_length.
    destruct (Nat.eqb_spec r 0) as [Z|Z]; cbn [length] in Hj; [lia|].
    assert (j = q) by lia. subst j. rewrite Nat.sub_diag. cbn [nth]. lia.
Qed.

(* ------------------------------------------------------------------ *)
(* newchunks as differences of boundaries                              *)
(* ------------------------------------------------------------------ *)

Definition bnd (labels : list nat) (gpc j : nat) : nat := start_index labels (j * gpc).

Lemma bnd_mono : forall labels gpc i j, i <= j -> bnd labels gpc i <= bnd labels gpc j.
Proof. intros. unfold bnd. apply start_index_mono. nia. Qed.

Lemma bnd_0 : forall labels gpc, bnd labels gpc 0 = 0.
Proof. intros. unfold bnd. apply start_index_0. Qed.

Lemma bnd_last : forall nc labels G, 0 < G -> labels_ok labels G ->
  bnd labels (groups_per_chunk nc G) (num_out_chunks (groups_per_chunk nc G) G) = length labels.
Proof.
  intros nc labels G HG [_ HF]. unfold bnd. apply start_index_all.
  pose proof (num_out_chunks_cover (groups_per_chunk nc G) G (gpc_pos nc G)) as C.
  eapply Forall_impl; [|exact HF]. simpl. intros; lia.
Qed.

Lemma newchunks_eq : forall nc labels G, 0 < G -> labels_ok labels G ->
  newchunks nc labels G =
  map (fun j => bnd labels (groups_per_chunk nc G) (S j) - bnd labels (groups_per_chunk nc G) j)
      (seq 0 (num_out_chunks (groups_per_chunk nc G) G)).
Proof.
  intros nc labels G HG Hok. unfold newchunks, chunk_boundaries.
  rewrite <- (bnd_last nc labels G HG Hok).
  apply (diffs_map_seq (bnd labels (groups_per_chunk nc G))
           (num_out_chunks (groups_per_chunk nc G) G) 0).
Qed.

Lemma read_labels_eq : forall nc labels G j, 0 < G -> labels_ok labels G ->
  j < num_out_chunks (groups_per_chunk nc G) G ->
  read_labels nc labels G j =
  firstn (bnd labels (groups_per_chunk nc G) (S j) - bnd labels (groups_per_chunk nc G) j)
         (skipn (bnd labels (groups_per_chunk nc G) j) labels).
Proof.
  intros nc labels G j HG Hok Hj. unfold read_labels. cbv zeta.
  rewrite (newchunks_eq nc labels G HG Hok).
  rewrite nth_map_seq by assumption.
  rewrite firstn_map_seq by lia.
  rewrite sumn_map_diff by (intros; apply bnd_mono; assumption).
  rewrite bnd_0. cbn [Nat.add]. rewrite Nat.sub_0_r. reflexivity.
Qed.

(* ------------------------------------------------------------------ *)
(* the targets                                                         *)
(* ------------------------------------------------------------------ *)

Theorem newchunks_sum : forall nc labels G, 0 < nc -> 0 < G -> labels_ok labels G ->
  sumn (newchunks nc labels G) = length labels.
Proof.
  intros nc labels G _ HG Hok. rewrite (newchunks_eq nc labels G HG Hok).
  rewrite sumn_map_diff by (intros; apply bnd_mono; assumption).
  cbn [Nat.add]. rewrite (bnd_last nc labels G HG Hok), bnd_0. lia.
Qed.

Theorem newchunks_length : forall nc labels G, 0 < nc -> 0 < G ->
  length (newchunks nc labels G) = num_out_chunks (groups_per_chunk nc G) G.
Proof.
  intros nc labels G _ _. unfold newchunks, chunk_boundaries.
  rewrite diffs_length, map_length, seq_length. reflexivity.
Qed.

Theorem read_labels_in_range : forall nc labels G j l, 0 < nc -> 0 < G -> labels_ok labels G ->
  j < num_out_chunks (groups_per_chunk nc G) G -> In l (read_labels nc labels G j) ->
  start_group nc G j <= l < start_group nc G j + groups_in_chunk nc G j.
Proof.
  intros nc labels G j l _ HG Hok Hj Hin.
  rewrite (read_labels_eq nc labels G j HG Hok Hj) in Hin.
  pose proof Hok as [Hs HF].
  pose proof (gpc_pos nc G) as Hc.
  unfold start_group, groups_in_chunk.
  remember (groups_per_chunk nc G) as c.
  split.
  - apply in_firstn in Hin. unfold bnd in Hin.
    apply (in_skipn_start_index labels (j * c) l Hs Hin).
  - assert (L1 : l < G).
    { rewrite Forall_forall in HF. apply HF. apply in_firstn in Hin.
      clear - Hin. revert Hin. generalize (bnd labels c j). intros n.
      revert labels. induction n as [|n IH]; intros labels H; [assumption|].
      destruct labels as [|a r]; [contradiction|]. right. apply IH. assumption. }
    assert (L2 : l < S j * c).
    { apply (in_firstn_start_index labels (S j * c) l Hs).
      fold (bnd labels c (S j)).
      rewrite <- (firstn_app_skipn labels (bnd labels c j) (bnd labels c (S j)))
        by (apply bnd_mono; lia).
      apply in_or_app. right. assumption. }
    rewrite (num_out_chunks_regular c G Hc HG) in Hj.
    pose proof (regular_nth_reach G c j Hc HG Hj) as R. lia.
Qed.

Theorem read_labels_partition : forall nc labels G, 0 < nc -> 0 < G -> labels_ok labels G ->
  concat (map (read_labels nc labels G) (seq 0 (num_out_chunks (groups_per_chunk nc G) G))) = labels.
Proof.
  intros nc labels G _ HG Hok.
  assert (P : forall k, k <= num_out_chunks (groups_per_chunk nc G) G ->
            concat (map (read_labels nc labels G) (seq 0 k)) =
            firstn (bnd labels (groups_per_chunk nc G) k) labels).
  { induction k as [|k IH]; intros Hk.
    - rewrite bnd_0. reflexivity.
    - rewrite seq_S, map_app, concat_app, IH by lia. cbn [Nat.add map concat].
      rewrite app_nil_r, (read_labels_eq nc labels G k HG Hok) by lia.
      apply firstn_app_skipn. apply bnd_mono. lia. }
  rewrite P by lia. rewrite (bnd_last nc labels G HG Hok). apply firstn_all.
Qed.

Theorem groups_in_chunk_spec : forall nc G, 0 < nc -> 0 < G ->
  sumn (map (groups_in_chunk nc G) (seq 0 (num_out_chunks (groups_per_chunk nc G) G))) = G /\
  forall j, j < num_out_chunks (groups_per_chunk nc G) G -> 0 < groups_in_chunk nc G j <= groups_per_chunk nc G.
Proof.
  intros nc G _ HG. pose proof (gpc_pos nc G) as Hc.
  rewrite (num_out_chunks_regular _ G Hc HG). unfold groups_in_chunk. split.
  - rewrite (map_nth_seq (regular G (groups_per_chunk nc G)) 0). apply regular_sum. assumption.
  - intros j Hj. apply (regular_entries G (groups_per_chunk nc G)); try assumption.
    apply nth_In. assumption.
Qed.

Theorem short_last_group_chunk : exists nc G j, 0 < nc /\ 0 < G /\ j < num_out_chunks (groups_per_chunk nc G) G /\
  groups_in_chunk nc G j < groups_per_chunk nc G.
Proof. exists 2, 5, 2. vm_compute. repeat split; lia. Qed.

Print Assumptions newchunks_sum.
Print Assumptions newchunks_length.
Print Assumptions read_labels_in_range.
Print Assumptions read_labels_partition.
Print Assumptions groups_in_chunk_spec.
Print Assumptions short_last_group_chunk.
