From CubedV Require Import Model.Util Model.Geometry Model.StridedIndex Model.IndexGuard Proofs.StridedIndexProofs.
Local Open Scope Z_scope.

Lemma ig_eqb_nat_Z : forall a b : nat, (Z.of_nat a =? Z.of_nat b) = Nat.eqb a b.
Proof. intros a b. destruct (Nat.eqb_spec a b) as [E|E]; [rewrite E; apply Z.eqb_refl|apply Z.eqb_neq; lia]. Qed.
Lemma ig_ltb_nat_Z : forall a b : nat, (Z.of_nat a <? Z.of_nat b) = (a <? b)%nat.
Proof. intros a b. destruct (Nat.ltb_spec a b); [apply Z.ltb_lt|apply Z.ltb_ge]; lia. Qed.

(* chunk_len_for_indexer on a slice is Model.StridedIndex.out_chunk_len *)
Theorem chunk_lenZ_view : forall start stop (c step : nat),
  chunk_lenZ (IxSlice start stop (Z.of_nat step)) (Z.of_nat c) = Z.of_nat (out_chunk_len c step).
Proof.
  intros. unfold chunk_lenZ, out_chunk_len. rewrite <- Nat2Z.inj_div. change 1 with (Z.of_nat 1). rewrite <- Nat2Z.inj_max. reflexivity.
Qed.

(* the merged chunk length is a multiple of the unmerged one (what merge_chunks requires) and never exceeds the input chunk *)
Theorem merged_multiple : forall start stop c step, 0 < c -> 0 < step ->
  exists k, 0 < k /\ merged_chunk_lenZ (IxSlice start stop step) c = k * chunk_lenZ (IxSlice start stop step) c.
Proof.
  intros start stop c step Hc Hs. unfold merged_chunk_lenZ, chunk_lenZ.
  destruct (Z.eqb_spec step 1) as [E|E].
  - subst step. rewrite Z.div_1_r. exists 1. split; [lia|]. lia.
  - destruct (Z.ltb_spec (c / step) 1) as [L|L].
    + assert (0 <= c / step) by (apply Z.div_pos; lia). exists c. split; [lia|]. lia.
    + exists step. split; [lia|]. rewrite Z.max_l by lia. lia.
Qed.

Theorem merged_le_chunk : forall start stop c step, 0 < c -> 0 < step -> merged_chunk_lenZ (IxSlice start stop step) c <= c.
Proof.
  intros start stop c step Hc Hs. unfold merged_chunk_lenZ.
  destruct (step =? 1); [lia|]. destruct (c / step <? 1); [lia|].
  pose proof (Z.mul_div_le c step Hs). lia.
Qed.

(* the per-axis factor of the source for a (canonical) slice is Model.StridedIndex.slice_nib *)
Theorem index_axis_factorZ_view : forall c nb start step L : nat, (0 < L)%nat ->
  index_axis_factorZ (IxSlice (Z.of_nat start) (Z.of_nat (canonical_stop start step L)) (Z.of_nat step))
                     (Z.of_nat c) (Z.of_nat (out_chunk_len c step)) (Z.of_nat nb)
  = Some (Z.of_nat (slice_nib c nb start step L)).
Proof.
  intros c nb start step L HL. unfold index_axis_factorZ, slice_nib. cbn [is_ixint orb].
  change 1 with (Z.of_nat 1). rewrite ig_eqb_nat_Z.
  destruct (Nat.eqb nb 1); [reflexivity|].
  assert (Z.of_nat (canonical_stop start step L) - Z.of_nat 1 = Z.of_nat (canonical_stop start step L - 1)) as E
    by (unfold canonical_stop; generalize (start + (L - 1) * step)%nat; intros q; lia).
  rewrite E, <- !Nat2Z.inj_div, ig_eqb_nat_Z.
  destruct (Nat.eqb (start / c) ((canonical_stop start step L - 1) / c)); [reflexivity|].
  rewrite <- !Nat2Z.inj_mod. change 0 with (Z.of_nat 0). rewrite !ig_eqb_nat_Z.
  destruct (Nat.eqb (start mod c) 0); cbn [negb]; [|reflexivity].
  rewrite ig_ltb_nat_Z. cbn [andb].
  destruct (negb (Nat.eqb (c mod step) 0) && (1 <? out_chunk_len c step)%nat); reflexivity.
Qed.

(* hence the factor the source charges covers the input blocks an output block of a strided slice reads *)
Theorem source_factor_covers_touched : forall n c start step L j,
  (0 < c)%nat -> (0 < step)%nat -> (0 < L)%nat -> (start + (L - 1) * step < n)%nat ->
  (j < num_out_blocks (out_chunk_len c step) L)%nat ->
  exists f, index_axis_factorZ (IxSlice (Z.of_nat start) (Z.of_nat (canonical_stop start step L)) (Z.of_nat step))
                               (Z.of_nat c) (Z.of_nat (out_chunk_len c step)) (Z.of_nat ((n + c - 1) / c)) = Some f /\
            Z.of_nat (length (touched_chunks c (block_positions start step (out_chunk_len c step) L j))) <= f.
Proof.
  intros n c start step L j Hc Hs HL Hn Hj.
  exists (Z.of_nat (slice_nib c ((n + c - 1) / c) start step L)). split; [apply index_axis_factorZ_view; assumption|].
  apply Nat2Z.inj_le. apply touched_le_declared; assumption.
Qed.
