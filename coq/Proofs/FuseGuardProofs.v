(* Model.FuseGuard (the Z rendering of the fusion guards, i.e. the shape of the translated Python source) agrees with
   Model.Dag (nat task / block counts) on the view of every primitive operation; the guard theorems restated for it. *)
From CubedV Require Import Model.Util Model.Keys Model.Fusion Model.Memory Model.Dag Model.FuseGuard.
From Coq Require Import ZifyBool.
Local Open Scope Z_scope.

(* what peak_projected_mem (translated: it skips None entries) sees of a list of optional operations *)
Lemma pairs_somes : forall pps : list (option pview),
  flat_map (fun o : option (Z * Z) => match o with None => [] | Some p => [p] end) (pviews_to_pairs pps)
  = map (fun pp => (v_proj pp, v_chunkmem pp)) (somesZ pps).
Proof.
  induction pps as [|[pp|] pps IH]; cbn [pviews_to_pairs map option_map flat_map somesZ app]; [reflexivity| |exact IH].
  f_equal. exact IH.
Qed.

Lemma pairs_keep_somes : forall pps : list (option pview),
  flat_map (fun o : option (Z * Z) => match o with None => [] | Some p => [p] end) (pviews_to_pairs (keep_somes pps))
  = map (fun pp => (v_proj pp, v_chunkmem pp)) (somesZ pps).
Proof.
  induction pps as [|[pp|] pps IH]; cbn [keep_somes filter pviews_to_pairs map option_map flat_map somesZ app]; [reflexivity| |exact IH].
  f_equal. exact IH.
Qed.

Section FG.
Variable B : Type.

Lemma is_fuse_candidateZ_view : forall p : primop B, is_fuse_candidateZ (zview p) = is_fuse_candidate B p.
Proof. reflexivity. Qed.

Lemma somesZ_view : forall pps : list (option (primop B)),
  map (fun pp => (v_proj pp, v_chunkmem pp)) (somesZ (map (option_map zview) pps))
  = map (fun pp => (proj B pp, chunkmem B pp)) (somes pps).
Proof.
  induction pps as [|[pp|] pps IH]; cbn [map option_map somesZ somes flat_map app]; [reflexivity| |exact IH].
  f_equal. exact IH.
Qed.

Lemma forallb_cand_view : forall pps : list (option (primop B)),
  forallb (fun o => match o with None => true | Some pp => is_fuse_candidateZ pp end) (map (option_map zview) pps)
  = forallb (fun o => match o with None => true | Some pp => is_fuse_candidate B pp end) pps.
Proof.
  induction pps as [|[pp|] pps IH]; cbn [map option_map forallb]; [reflexivity| |exact IH].
  rewrite IH. reflexivity.
Qed.

Lemma forallb_ntasks_view : forall (p : primop B) pps,
  forallb (fun o => match o with None => true | Some pp => v_ntasks (zview p) =? v_ntasks pp end) (map (option_map zview) pps)
  = forallb (fun pp => Nat.eqb (ntasks B p) (ntasks B pp)) (somes pps).
Proof.
  intros p. induction pps as [|[pp|] pps IH]; cbn [map option_map forallb somes flat_map app]; [reflexivity| |exact IH].
  rewrite IH. f_equal. cbn [zview v_ntasks].
  destruct (Nat.eqb_spec (ntasks B p) (ntasks B pp)) as [E|E].
  - rewrite E. apply Z.eqb_refl.
  - apply Z.eqb_neq. lia.
Qed.

Lemma inner_fold_nib : forall (ni : nat) (l : list nat) (acc : nat),
  fold_left (fun total nj => total + Z.of_nat ni * nj) (map Z.of_nat l) (Z.of_nat acc)
  = Z.of_nat (acc + sumn (map (fun nj => (ni * nj)%nat) l)).
Proof.
  intros ni. induction l as [|x l IH]; intros acc; cbn [map fold_left sumn].
  - f_equal. lia.
  - replace (Z.of_nat acc + Z.of_nat ni * Z.of_nat x) with (Z.of_nat (acc + ni * x)) by lia.
    rewrite IH. f_equal. lia.
Qed.

Lemma total_nib_fold : forall (nibs : list nat) (pps : list (option (primop B))) (acc : nat),
  fold_left (fun total (t : Z * option pview) =>
               match snd t with
               | None => total
               | Some pp => fold_left (fun total nj => total + fst t * nj) (v_nib pp) total
               end) (combine (map Z.of_nat nibs) (map (option_map zview) pps)) (Z.of_nat acc)
  = Z.of_nat (acc + sumn (map (fun t : nat * option (primop B) =>
              match snd t with
              | None => 0%nat
              | Some pp => sumn (map (fun nj => (fst t * nj)%nat) (nib B pp))
              end) (combine nibs pps))).
Proof.
  induction nibs as [|ni nibs IH]; intros pps acc; cbn [map combine fold_left sumn].
  - f_equal. lia.
  - destruct pps as [|[pp|] pps]; cbn [map option_map combine fold_left sumn snd fst].
    + f_equal. lia.
    + cbn [zview v_nib]. rewrite inner_fold_nib. rewrite IH. f_equal. lia.
    + rewrite IH. f_equal.
Qed.

Lemma total_nibZ_view : forall (p : primop B) pps,
  total_nibZ (zview p) (map (option_map zview) pps) = Z.of_nat (total_nib B p pps).
Proof.
  intros p pps. unfold total_nibZ, total_nib. cbn [zview v_nib].
  exact (total_nib_fold (nib B p) pps 0).
Qed.

(* the Z rendering decides exactly what Model.Dag.can_fuse_multiple decides *)
Theorem can_fuse_multipleZ_view : forall (p : primop B) pps m,
  can_fuse_multipleZ (zview p) (map (option_map zview) pps) (option_map Z.of_nat m) = can_fuse_multiple B p pps m.
Proof.
  intros p pps m. unfold can_fuse_multipleZ, can_fuse_multiple.
  rewrite is_fuse_candidateZ_view, forallb_cand_view, somesZ_view.
  destruct (is_fuse_candidate B p && _); [|reflexivity].
  cbn [zview v_allowed].
  destruct (allowed B p <? _); [reflexivity|].
  destruct m as [m|]; cbn [option_map].
  - rewrite total_nibZ_view.
    destruct (Nat.leb_spec (total_nib B p pps) m); [apply Z.leb_le|apply Z.leb_gt]; lia.
  - apply forallb_ntasks_view.
Qed.

(* ... and the budget fields of the fused operation are those of Model.Dag.fuse_multiple *)
Theorem fuse_multiple_fieldsZ_view : forall (p : primop B) pps,
  fuse_multiple_fieldsZ (zview p) (map (option_map zview) pps)
  = (proj B (fuse_multiple B p pps), allowed B (fuse_multiple B p pps), reserved B (fuse_multiple B p pps),
     Z.of_nat (ntasks B (fuse_multiple B p pps))).
Proof.
  intros p pps. unfold fuse_multiple_fieldsZ. rewrite somesZ_view. reflexivity.
Qed.
End FG.

(* the guard, for every view (not only views of Model.Dag operations): fusion is refused unless the peak of running the
   fused predecessors one after the other with their outputs kept fits the operation's allowed_mem *)
Theorem can_fuse_multipleZ_guard : forall p pps m,
  can_fuse_multipleZ p pps m = true ->
  peak_projected (map (fun pp => (v_proj pp, v_chunkmem pp)) (somesZ pps)) <= v_allowed p.
Proof.
  intros p pps m. unfold can_fuse_multipleZ.
  destruct (is_fuse_candidateZ p && _); [|discriminate].
  match goal with |- context [(?a <? ?b)] => destruct (Z.ltb_spec a b) end; [discriminate|].
  intros _. assumption.
Qed.

(* an accepted fusion of an operation that fits yields an operation that fits *)
Theorem fused_fieldsZ_fit : forall p pps m,
  can_fuse_multipleZ p pps m = true -> v_proj p <= v_allowed p ->
  let '(pr, al, _, _) := fuse_multiple_fieldsZ p pps in pr <= al.
Proof.
  intros p pps m H Hp. pose proof (can_fuse_multipleZ_guard _ _ _ H). cbn. lia.
Qed.

(* the fused operation never reports less than the operation or any fused predecessor's peak *)
Theorem fused_fieldsZ_not_under : forall p pps,
  let '(pr, _, _, _) := fuse_multiple_fieldsZ p pps in
  v_proj p <= pr /\ peak_projected (map (fun pp => (v_proj pp, v_chunkmem pp)) (somesZ pps)) <= pr.
Proof. intros p pps. cbn. lia. Qed.

(* only candidates are fused, and only with candidates *)
Theorem can_fuse_multipleZ_candidates : forall p pps m,
  can_fuse_multipleZ p pps m = true ->
  is_fuse_candidateZ p = true /\ forall pp, In (Some pp) pps -> is_fuse_candidateZ pp = true.
Proof.
  intros p pps m. unfold can_fuse_multipleZ.
  destruct (is_fuse_candidateZ p) eqn:E; cbn [andb]; [|discriminate].
  destruct (forallb _ pps) eqn:F; [|discriminate]. intros _. split; [reflexivity|].
  intros pp Hin. rewrite forallb_forall in F. exact (F _ Hin).
Qed.

Theorem can_fuse_primitive_opsZ_spec : forall p1 p2,
  can_fuse_primitive_opsZ p1 p2 = true <->
  is_fuse_candidateZ p1 = true /\ is_fuse_candidateZ p2 = true /\ (forall n, In n (v_nib p2) -> n = 1) /\ v_ntasks p1 = v_ntasks p2.
Proof.
  intros p1 p2. unfold can_fuse_primitive_opsZ.
  destruct (is_fuse_candidateZ p1); cbn [andb]; [|split; [discriminate|intros [H _]; discriminate]].
  destruct (is_fuse_candidateZ p2); [|split; [discriminate|intros [_ [H _]]; discriminate]].
  destruct (existsb _ (v_nib p2)) eqn:E.
  - split; [discriminate|]. intros [_ [_ [H _]]]. apply existsb_exists in E. destruct E as [n [Hin Hn]].
    rewrite (H _ Hin) in Hn. discriminate.
  - rewrite Z.eqb_eq. split.
    + intros H. repeat split; try assumption. intros n Hin.
      assert (existsb (fun n => negb (n =? 1)) (v_nib p2) = false -> negb (n =? 1) = false) as K.
      { intros E'. destruct (negb (n =? 1)) eqn:N; [|reflexivity].
        assert (existsb (fun n => negb (n =? 1)) (v_nib p2) = true) by (apply existsb_exists; exists n; tauto). congruence. }
      specialize (K E). apply negb_false_iff in K. apply Z.eqb_eq in K. exact K.
    + intros [_ [_ [_ H]]]. exact H.
Qed.
