(* Proofs about Model.StoreRegion: write sets of store tasks (C05) and region stores (C11).
   Statements are those of Specs/Store_target.v. *)
From CubedV Require Import Model.Util Model.Geometry Model.StoreRegion.
From Coq Require Import ZArith Lia ZifyNat.

(* two half-open intervals overlap *)
Definition overlaps (a b : nat * nat) : Prop := fst a < snd b /\ fst b < snd a.

(* ---- division helpers --------------------------------------------------------------------- *)
Lemma div_ge_iff : forall a t j, 0 < t -> (j <= a / t <-> j * t <= a).
Proof.
  intros a t j Ht. split; intro H.
  - pose proof (Nat.mul_div_le a t ltac:(lia)). nia.
  - apply Nat.div_le_lower_bound; lia.
Qed.

Lemma div_lt_iff : forall a t j, 0 < t -> (a / t < j <-> a < j * t).
Proof. intros a t j Ht. pose proof (div_ge_iff a t j Ht). lia. Qed.

Lemma div_le_iff : forall a t j, 0 < t -> (a / t <= j <-> a < (j + 1) * t).
Proof. intros a t j Ht. pose proof (div_lt_iff a t (j + 1) Ht). lia. Qed.

Lemma div_eq_iff : forall a t q, 0 < t -> (a / t = q <-> q * t <= a < (q + 1) * t).
Proof.
  intros a t q Ht. pose proof (div_ge_iff a t q Ht). pose proof (div_le_iff a t q Ht).
  pose proof (div_ge_iff a t (q + 1) Ht). lia.
Qed.

Lemma mul_lt_cancel : forall a b t, a * t < b * t -> a < b.
Proof. intros a b t H. nia. Qed.

Lemma mul_succ_le : forall a b t, a < b -> (a + 1) * t <= b * t.
Proof. intros a b t H. nia. Qed.

(* ---- touched ------------------------------------------------------------------------------ *)
Theorem touched_spec : forall n c t b j, 0 < t -> 0 < c -> b * c < n ->
  (In j (touched n c t b) <->
   (j * t < n /\ overlaps (blk_lo t j, blk_hi n t j) (blk_lo c b, blk_hi n c b))).
Proof.
  intros n c t b j Ht Hc Hb. unfold touched, overlaps, blk_lo, blk_hi. cbn [fst snd].
  set (hi := Nat.min ((b + 1) * c) n).
  assert (Hhi : b * c < hi /\ hi <= n) by (subst hi; lia).
  destruct (hi <=? b * c) eqn:E; [apply Nat.leb_le in E; lia|]. clear E.
  rewrite in_seq.
  assert (Hmono : b * c / t <= (hi - 1) / t) by (apply Nat.div_le_mono; lia).
  pose proof (div_le_iff (b * c) t j Ht) as H1.
  pose proof (div_ge_iff (hi - 1) t j Ht) as H2.
  split.
  - intros [Ha Hb']. assert (Hj : j <= (hi - 1) / t) by lia.
    apply H1 in Ha. apply H2 in Hj. lia.
  - intros [Hn [Ha Hb']].
    assert (Hx : b * c < (j + 1) * t) by lia.
    apply H1 in Hx. assert (Hy : j * t <= hi - 1) by lia. apply H2 in Hy. lia.
Qed.

Theorem one_writer_axis : forall n c t j, 0 < t -> 0 < c -> (c mod t = 0 \/ n <= c) -> j * t < n ->
  exists b, b * c < n /\ writes_whole n c t b j = true /\
    forall b', b' * c < n -> overlaps (blk_lo t j, blk_hi n t j) (blk_lo c b', blk_hi n c b') -> b' = b.
Proof.
  intros n c t j Ht Hc Hal Hj. unfold writes_whole, overlaps, blk_lo, blk_hi. cbn [fst snd].
  destruct Hal as [Hmod | Hn].
  - apply Nat.mod_divides in Hmod; [|lia]. destruct Hmod as [k Hk].
    assert (Hkpos : 0 < k) by nia.
    exists (j / k).
    assert (Hlo : j / k * k <= j) by (apply div_ge_iff; [lia|lia]).
    assert (Hup : j < (j / k + 1) * k) by (apply div_le_iff; [lia|lia]).
    assert (Hloc : j / k * c <= j * t) by (subst c; nia).
    assert (Hupc : (j + 1) * t <= (j / k + 1) * c) by (subst c; nia).
    split; [lia|]. split.
    + apply andb_true_iff. split; apply Nat.leb_le; lia.
    + intros b' Hb' [Ha Hb].
      assert (A1 : j * t < (b' + 1) * c) by lia.
      assert (A2 : b' * c < (j + 1) * t) by lia.
      assert (B1 : j < (b' + 1) * k) by (subst c; nia).
      assert (B2 : b' * k < j + 1) by (subst c; nia).
      assert (C1 : j / k < b' + 1) by (apply div_lt_iff; lia).
      assert (C2 : b' <= j / k) by (apply div_ge_iff; lia).
      lia.
  - exists 0. split; [lia|]. split.
    + apply andb_true_iff. split; apply Nat.leb_le; lia.
    + intros b' Hb' _. nia.
Qed.

Theorem touched_whole : forall n c t b, 0 < t -> 0 < c -> b * c < n -> (c mod t = 0 \/ n <= c) ->
  forallb (writes_whole n c t b) (touched n c t b) = true.
Proof.
  intros n c t b Ht Hc Hb Hal. apply forallb_forall. intros j Hj.
  apply touched_spec in Hj; try assumption. destruct Hj as [Hjn Hov].
  destruct (one_writer_axis n c t j Ht Hc Hal Hjn) as [b0 [_ [Hw Hu]]].
  rewrite (Hu b Hb Hov). exact Hw.
Qed.

Theorem misaligned_shares_chunk :
  exists n c t b b' j, b <> b' /\ In j (touched n c t b) /\ In j (touched n c t b').
Proof.
  exists 10, 3, 2, 0, 1, 1. split; [discriminate|]. split; vm_compute; tauto.
Qed.

(* ---- store_task_chunks -------------------------------------------------------------------- *)
Lemma existsb_combine3_false : forall (f : nat * nat * nat -> bool) (a b c : list nat),
  existsb f (combine (combine a b) c) = false ->
  forall i, i < length a -> i < length b -> i < length c ->
    f (nth i a 0, nth i b 0, nth i c 0) = false.
Proof.
  intros f a. induction a as [|x a IH]; intros b c H i Ha Hb Hc; [cbn in Ha; lia|].
  destruct b as [|y b]; [cbn in Hb; lia|]. destruct c as [|z c]; [cbn in Hc; lia|].
  cbn in H. apply orb_false_iff in H. destruct H as [H1 H2].
  destruct i as [|i]; cbn [nth]; [exact H1|].
  apply IH; [exact H2| cbn in Ha; lia | cbn in Hb; lia | cbn in Hc; lia].
Qed.

Theorem store_task_chunks_aligned : forall scs tcs nbs i,
  length scs = length tcs -> length nbs = length tcs -> i < length tcs ->
  0 < nth i tcs 0 ->
  (nth i (store_task_chunks scs tcs nbs) 0) mod (nth i tcs 0) = 0 \/ nth i nbs 0 <= 1.
Proof.
  intros scs tcs nbs i Hs Hn Hi Hpos. unfold store_task_chunks.
  destruct (needs_rechunk scs tcs nbs) eqn:E.
  - left. apply Nat.mod_same. lia.
  - unfold needs_rechunk in E.
    pose proof (existsb_combine3_false _ scs tcs nbs E i ltac:(lia) ltac:(lia) ltac:(lia)) as H.
    cbn [fst snd] in H. unfold needs_rechunk_axis in H.
    apply andb_false_iff in H. destruct H as [H | H].
    + left. apply negb_false_iff in H. apply Nat.eqb_eq in H. exact H.
    + right. apply Nat.ltb_ge in H. exact H.
Qed.

(* ---- region store, one axis --------------------------------------------------------------- *)
Definition accepted_axis (a : raxis) : Prop :=
  aligned a = true /\ shape_ok a = true /\ chunks_ok a = true /\ 0 < tc a /\ 0 < sc a /\ 0 < sn a.

Lemma nblocks_pos : forall m k, 0 < m -> nblocks m k = (m + k - 1) / k.
Proof.
  intros m k Hm. unfold nblocks. destruct (Nat.eqb m 0) eqn:E; [apply Nat.eqb_eq in E; lia|reflexivity].
Qed.

Lemma nblocks_le1 : forall m k, 0 < m -> 0 < k -> (nblocks m k <= 1 <-> m <= k).
Proof.
  intros m k Hm Hk. rewrite nblocks_pos by assumption.
  pose proof (div_le_iff (m + k - 1) k 1 Hk). lia.
Qed.

(* what acceptance means, in plain arithmetic *)
Lemma accepted_facts : forall a, accepted_axis a ->
  exists off,
    rstart a = off * tc a /\
    (rstop a = tn a \/ exists q, rstop a = q * tc a) /\
    sn a = rstop a - rstart a /\ rstart a < rstop a /\ rstop a <= tn a /\
    (sc a = tc a \/ (sn a <= sc a /\ sn a <= tc a)) /\
    0 < tc a /\ 0 < sc a /\ 0 < sn a.
Proof.
  intros [N T s e m k]. unfold accepted_axis, aligned, shape_ok, chunks_ok. cbn [tn tc rstart rstop sn sc].
  intros [Hal [Hsh [Hch [HT [Hk Hm]]]]].
  apply andb_true_iff in Hal. destruct Hal as [Hs He].
  apply Nat.eqb_eq in Hs. apply Nat.mod_divides in Hs; [|lia]. destruct Hs as [off Hoff].
  apply andb_true_iff in Hsh. destruct Hsh as [Hsh He2]. apply andb_true_iff in Hsh.
  destruct Hsh as [Hm2 Hse]. apply Nat.eqb_eq in Hm2. apply Nat.leb_le in Hse. apply Nat.leb_le in He2.
  exists off. split; [lia|]. split.
  { apply orb_true_iff in He. destruct He as [He | He].
    - right. apply Nat.eqb_eq in He. apply Nat.mod_divides in He; [|lia]. destruct He as [q Hq].
      exists q. lia.
    - left. apply Nat.eqb_eq in He. exact He. }
  split; [exact Hm2|]. split; [lia|]. split; [exact He2|]. split.
  { apply orb_true_iff in Hch. destruct Hch as [Hch | Hch].
    - left. apply Nat.eqb_eq in Hch. exact Hch.
    - right. apply andb_true_iff in Hch. destruct Hch as [H1 H2].
      apply Nat.leb_le in H1. apply Nat.leb_le in H2.
      pose proof (nblocks_le1 m k Hm Hk). lia. }
  lia.
Qed.

(* membership in the enumerated blocks, in plain arithmetic *)
Lemma out_blocks_axis_spec : forall a off, accepted_axis a -> rstart a = off * tc a ->
  rstart a / tc a = off /\
  forall b, In b (out_blocks_axis a) <-> (off <= b /\ b * tc a < rstop a).
Proof.
  intros a off Hacc Hoff.
  destruct (accepted_facts a Hacc) as [off' [Hoff' [_ [Hm [Hse [_ [_ [HT [_ Hmpos]]]]]]]]].
  assert (Hdiv : rstart a / tc a = off).
  { apply div_eq_iff; lia. }
  split; [exact Hdiv|]. intro b. unfold out_blocks_axis.
  destruct (Nat.eqb (sn a) 0) eqn:E; [apply Nat.eqb_eq in E; lia|]. clear E.
  rewrite in_seq. rewrite Hdiv.
  assert (Hmono : off <= (rstop a - 1) / tc a).
  { rewrite <- Hdiv. apply Nat.div_le_mono; lia. }
  pose proof (div_ge_iff (rstop a - 1) (tc a) b HT) as H2.
  split.
  - intros [H3 H4]. assert (Hb : b <= (rstop a - 1) / tc a) by lia. apply H2 in Hb. lia.
  - intros [H3 H4]. assert (Hb : b * tc a <= rstop a - 1) by lia. apply H2 in Hb. lia.
Qed.

Theorem region_task_exact : forall a b, accepted_axis a -> In b (out_blocks_axis a) ->
  rstart a <= fst (task_target a b) /\ snd (task_target a b) <= rstop a /\
  fst (task_target a b) < snd (task_target a b) /\
  fst (task_target a b) = rstart a + fst (task_source a b) /\
  snd (task_target a b) = rstart a + snd (task_source a b) /\
  b - block_offset a < nblocks (sn a) (sc a).
Proof.
  intros a b Hacc Hin.
  destruct (accepted_facts a Hacc) as [off [Hoff [Hstop [Hm [Hse [HeN [Hch [HT [Hk Hmpos]]]]]]]]].
  destruct (out_blocks_axis_spec a off Hacc Hoff) as [Hdiv Hspec].
  apply Hspec in Hin. destruct Hin as [Hob HbT].
  unfold task_target, task_source, block_offset, blk_lo, blk_hi. cbn [fst snd].
  rewrite Hdiv. rewrite nblocks_pos by assumption.
  destruct a as [N T s e m k]. cbn [tn tc rstart rstop sn sc] in *.
  assert (Hd : exists d, b = off + d) by (exists (b - off); lia). destruct Hd as [d Hd]. subst b.
  replace (off + d - off) with d by lia.
  assert (Hsnd : Nat.min ((off + d + 1) * T) N <= e /\
                 (k = T -> Nat.min ((off + d + 1) * T) N = s + Nat.min ((d + 1) * T) m)).
  { destruct Hstop as [HN | [q Hq]].
    - subst N. split; lia.
    - assert (Hlt : off + d < q) by (apply (mul_lt_cancel _ _ T); lia).
      pose proof (mul_succ_le _ _ T Hlt). split; lia. }
  destruct Hsnd as [Hsnd1 Hsnd2].
  destruct Hch as [Hch | [Hmk HmT]].
  - subst k. specialize (Hsnd2 eq_refl).
    split; [lia|]. split; [exact Hsnd1|]. split; [lia|]. split; [lia|]. split; [exact Hsnd2|].
    apply div_ge_iff; lia.
  - assert (d = 0).
    { assert (Hlt : off + d < off + 1) by (apply (mul_lt_cancel _ _ T); lia). lia. }
    subst d. replace (off + 0) with off in * by lia.
    split; [lia|]. split; [exact Hsnd1|]. split; [lia|]. split; [lia|]. split.
    + destruct Hstop as [HN | [q Hq]].
      * subst N. lia.
      * assert (Hq1 : off < q) by (apply (mul_lt_cancel _ _ T); lia).
        assert (Hq2 : q < off + 2) by (apply (mul_lt_cancel _ _ T); lia).
        assert (q = off + 1) by lia. subst q. lia.
    + apply div_ge_iff; lia.
Qed.

Theorem region_covered_once : forall a x, accepted_axis a -> rstart a <= x < rstop a ->
  exists b, In b (out_blocks_axis a) /\ fst (task_target a b) <= x < snd (task_target a b) /\
    forall b', In b' (out_blocks_axis a) -> fst (task_target a b') <= x < snd (task_target a b') -> b' = b.
Proof.
  intros a x Hacc Hx.
  destruct (accepted_facts a Hacc) as [off [Hoff [Hstop [Hm [Hse [HeN [Hch [HT [Hk Hmpos]]]]]]]]].
  destruct (out_blocks_axis_spec a off Hacc Hoff) as [Hdiv Hspec].
  unfold task_target, blk_lo, blk_hi. cbn [fst snd].
  pose proof (div_ge_iff x (tc a) (x / tc a) HT) as H1.
  pose proof (div_le_iff x (tc a) (x / tc a) HT) as H2.
  assert (Hlo : x / tc a * tc a <= x) by (apply H1; lia).
  assert (Hup : x < (x / tc a + 1) * tc a) by (apply H2; lia).
  exists (x / tc a). split; [|split].
  - apply Hspec. split; [|lia].
    apply div_ge_iff; lia.
  - lia.
  - intros b' _ Hb'.
    assert (A : b' <= x / tc a) by (apply div_ge_iff; lia).
    assert (B : x / tc a < b' + 1) by (apply div_lt_iff; lia).
    lia.
Qed.

Theorem region_block_count : forall a, accepted_axis a ->
  length (out_blocks_axis a) = nblocks (sn a) (sc a) /\ NoDup (out_blocks_axis a).
Proof.
  intros a Hacc.
  destruct (accepted_facts a Hacc) as [off [Hoff [Hstop [Hm [Hse [HeN [Hch [HT [Hk Hmpos]]]]]]]]].
  destruct (out_blocks_axis_spec a off Hacc Hoff) as [Hdiv _].
  unfold out_blocks_axis.
  destruct (Nat.eqb (sn a) 0) eqn:E; [apply Nat.eqb_eq in E; lia|]. clear E.
  split; [|apply seq_NoDup].
  rewrite seq_length, Hdiv, nblocks_pos by assumption.
  destruct a as [N T s e m k]. cbn [tn tc rstart rstop sn sc] in *.
  destruct Hch as [Hch | [Hmk HmT]].
  - subst k.
    replace (e - 1) with (off * T + (m - 1)) by lia.
    rewrite Nat.div_add_l by lia.
    replace (m + T - 1) with ((m - 1) + 1 * T) by lia.
    rewrite Nat.div_add by lia. clear Hdiv. generalize ((m - 1) / T). intros z. lia.
  - assert (H1 : (e - 1) / T = off) by (apply div_eq_iff; lia).
    assert (H2 : (m + k - 1) / k = 1) by (apply div_eq_iff; lia).
    lia.
Qed.

(* ---- region store, N-d -------------------------------------------------------------------- *)
Lemma flat_map_length_const : forall (A B : Type) (f : A -> list B) (l : list A) (k : nat),
  (forall x, length (f x) = k) -> length (flat_map f l) = length l * k.
Proof.
  intros A B f l k Hf. induction l as [|x l IH]; [reflexivity|].
  cbn. rewrite app_length, IH, Hf. reflexivity.
Qed.

Lemma product_length : forall ls, length (product ls) = prodn (map (@length nat) ls).
Proof.
  induction ls as [|l ls IH]; [reflexivity|].
  cbn. rewrite (flat_map_length_const _ _ _ l (length (product ls))).
  - rewrite IH. reflexivity.
  - intro x. apply map_length.
Qed.

Theorem region_num_tasks_exact : forall axes, Forall accepted_axis axes ->
  length (out_blocks axes) = region_num_tasks axes.
Proof.
  intros axes H. unfold out_blocks, region_num_tasks. rewrite product_length.
  induction H as [|a axes Ha _ IH]; [reflexivity|].
  cbn. rewrite IH. destruct (region_block_count a Ha) as [Hl _]. rewrite Hl. reflexivity.
Qed.

Theorem region_rejects_unsafe : forall axes a, In a axes ->
  (rstart a mod tc a <> 0 \/ (rstop a mod tc a <> 0 /\ rstop a <> tn a) \/ sn a <> rstop a - rstart a
   \/ (sc a <> tc a /\ (1 < nblocks (sn a) (sc a) \/ tc a < sn a))) ->
  region_accepts axes = RejectValue.
Proof.
  intros axes a Hin Hbad. unfold region_accepts.
  destruct (forallb aligned axes && forallb shape_ok axes && forallb chunks_ok axes) eqn:E; [|reflexivity].
  exfalso.
  apply andb_true_iff in E. destruct E as [E Hch]. apply andb_true_iff in E. destruct E as [Hal Hsh].
  pose proof (proj1 (forallb_forall _ _) Hal a Hin) as Ha.
  pose proof (proj1 (forallb_forall _ _) Hsh a Hin) as Hs.
  pose proof (proj1 (forallb_forall _ _) Hch a Hin) as Hc.
  unfold aligned in Ha. unfold shape_ok in Hs. unfold chunks_ok in Hc.
  apply andb_true_iff in Ha. destruct Ha as [Ha1 Ha2]. apply Nat.eqb_eq in Ha1.
  apply orb_true_iff in Ha2.
  apply andb_true_iff in Hs. destruct Hs as [Hs _]. apply andb_true_iff in Hs. destruct Hs as [Hs _].
  apply Nat.eqb_eq in Hs.
  apply orb_true_iff in Hc.
  destruct Hbad as [B | [[B1 B2] | [B | [B1 B2]]]].
  - contradiction.
  - destruct Ha2 as [A | A]; apply Nat.eqb_eq in A; contradiction.
  - contradiction.
  - destruct Hc as [C | C].
    + apply Nat.eqb_eq in C. contradiction.
    + apply andb_true_iff in C. destruct C as [C1 C2].
      apply Nat.leb_le in C1. apply Nat.leb_le in C2. lia.
Qed.
