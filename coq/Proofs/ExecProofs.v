From CubedV Require Import Model.Util Model.Keys Model.Exec.

(* Proofs for C06 / C09 over Model.Exec: schedule irrelevance within an op, harmless late
   re-execution, correctness of resume from a crash state, and the prefix invariant that
   makes every interrupted run a crash state.  Stores are compared pointwise ([seq]). *)

(* ---- reflection of the boolean key equality --------------------------------------------- *)
Lemma natlist_eqb_eq : forall l1 l2 : list nat, natlist_eqb l1 l2 = true <-> l1 = l2.
Proof.
  unfold natlist_eqb.
  induction l1 as [|x l1 IH]; destruct l2 as [|y l2]; simpl; split; intro H;
    try reflexivity; try discriminate.
  - apply andb_true_iff in H. destruct H as [H1 H2].
    apply Nat.eqb_eq in H1. apply IH in H2. subst. reflexivity.
  - inversion H; subst. rewrite Nat.eqb_refl. simpl. apply IH. reflexivity.
Qed.

Lemma key_eqb_eq : forall a b : key, key_eqb a b = true <-> a = b.
Proof.
  intros [n1 l1] [n2 l2]. unfold key_eqb. simpl.
  rewrite andb_true_iff, Nat.eqb_eq, natlist_eqb_eq. split.
  - intros [H1 H2]. subst. reflexivity.
  - intro H. inversion H. split; reflexivity.
Qed.

Lemma key_eqb_refl : forall k : key, key_eqb k k = true.
Proof. intro k. apply key_eqb_eq. reflexivity. Qed.

Lemma mem_key_In : forall k l, mem_key k l = true <-> In k l.
Proof.
  intros k l. induction l as [|x l IH]; simpl.
  - split; [discriminate | contradiction].
  - rewrite orb_true_iff, key_eqb_eq, IH. split; intros [H|H]; auto.
Qed.

Lemma mem_key_app : forall k a b, mem_key k (a ++ b) = mem_key k a || mem_key k b.
Proof.
  intros k a b. induction a as [|x a IH]; simpl; [reflexivity|].
  rewrite IH, orb_assoc. reflexivity.
Qed.

Lemma mem_key_flat_map : forall (A : Type) (f : A -> list key) k l,
  mem_key k (flat_map f l) = existsb (fun x => mem_key k (f x)) l.
Proof.
  intros A f k l. induction l as [|x l IH]; simpl; [reflexivity|].
  rewrite mem_key_app, IH. reflexivity.
Qed.

Lemma existsb_false : forall (A : Type) (f : A -> bool) l,
  existsb f l = false <-> (forall x, In x l -> f x = false).
Proof.
  intros A f l. induction l as [|y l IH]; simpl.
  - split; [intros _ x [] | reflexivity].
  - rewrite orb_false_iff, IH. split.
    + intros [H1 H2] x [Hx|Hx]; [subst; assumption | apply H2; assumption].
    + intro H. split; [apply H; left; reflexivity | intros x Hx; apply H; right; assumption].
Qed.

Lemma find_spec : forall (A : Type) (f : A -> bool) l,
  match find f l with
  | Some x => In x l /\ f x = true /\ existsb f l = true
  | None => existsb f l = false
  end.
Proof.
  intros A f l. induction l as [|y l IH]; simpl; [reflexivity|].
  destruct (f y) eqn:E; simpl.
  - split; [left; reflexivity | split; [assumption | reflexivity]].
  - destruct (find f l).
    + destruct IH as (H1 & H2 & H3). split; [right; assumption | split; assumption].
    + assumption.
Qed.

(* boolean checker for [disjoint], for concrete instances *)
Definition disjointb (a b : list key) : bool := forallb (fun k => negb (mem_key k b)) a.

Lemma disjointb_sound : forall a b, disjointb a b = true -> disjoint a b.
Proof.
  intros a b H k Hk. unfold disjointb in H. rewrite forallb_forall in H.
  apply mem_key_In in Hk. specialize (H k Hk). destruct (mem_key k b); [discriminate | reflexivity].
Qed.

Section P.
Variable V : Type.
Notation store := (store V).
Notation task := (task V).
Notation op := (op V).

(* pointwise equality of stores (no functional extensionality) *)
Definition seq (s1 s2 : store) : Prop := forall k, s1 k = s2 k.

(* canonical_result: what an op leaves behind, independent of any schedule *)
Definition op_result (s : store) (o : op) : store :=
  fun k => match find (fun t => mem_key k (t_writes V t)) o with
           | Some t => Some (t_val V t s k)
           | None => s k
           end.

(* a crash state: the input chunks are those of s0, and every chunk of a produced array that is
   present already holds its final value *)
Definition crash_state (p : list op) (s0 sc : store) : Prop :=
  (forall k, (forall o, In o p -> mem_key k (op_writes V o) = false) -> sc k = s0 k) /\
  (forall o k v, In o p -> mem_key k (op_writes V o) = true -> sc k = Some v -> run_plan V s0 p k = Some v).

(* "some op of the plan writes k", as a boolean *)
Definition wr_plan (p : list op) (k : key) : bool := existsb (fun o => mem_key k (op_writes V o)) p.

Lemma op_writes_mem : forall (o : op) k,
  mem_key k (op_writes V o) = existsb (fun t => mem_key k (t_writes V t)) o.
Proof. intros. unfold op_writes. apply mem_key_flat_map. Qed.

Lemma op_reads_mem : forall (o : op) k,
  mem_key k (op_reads V o) = existsb (fun t => mem_key k (t_reads V t)) o.
Proof. intros. unfold op_reads. apply mem_key_flat_map. Qed.

Lemma wr_plan_false : forall p k,
  wr_plan p k = false <-> (forall o, In o p -> mem_key k (op_writes V o) = false).
Proof. intros. unfold wr_plan. apply existsb_false. Qed.

Lemma wr_plan_true : forall p k,
  wr_plan p k = true <-> (exists o, In o p /\ mem_key k (op_writes V o) = true).
Proof. intros. unfold wr_plan. apply existsb_exists. Qed.

(* ---- keys that are not written keep their value ------------------------------------------ *)
Lemma run_sched_snoc : forall s sched t,
  run_sched V s (sched ++ [t]) = run_task V (run_sched V s sched) t.
Proof. intros. unfold run_sched. rewrite fold_left_app. reflexivity. Qed.

Lemma run_sched_other : forall sched s k,
  existsb (fun t => mem_key k (t_writes V t)) sched = false -> run_sched V s sched k = s k.
Proof.
  induction sched as [|t sched IH]; intros s k H; simpl in *; [reflexivity|].
  apply orb_false_iff in H. destruct H as [H1 H2].
  change (run_sched V (run_task V s t) sched k = s k).
  rewrite IH by assumption. unfold run_task. rewrite H1. reflexivity.
Qed.

Lemma run_op_other : forall (o : op) s k,
  mem_key k (op_writes V o) = false -> run_op V s o k = s k.
Proof. intros o s k H. unfold run_op. apply run_sched_other. rewrite <- op_writes_mem. assumption. Qed.

Lemma run_plan_other : forall p s k, wr_plan p k = false -> run_plan V s p k = s k.
Proof.
  induction p as [|o p IH]; intros s k H; simpl in *; [reflexivity|].
  unfold wr_plan in H. simpl in H. apply orb_false_iff in H. destruct H as [H1 H2].
  change (run_plan V (run_op V s o) p k = s k).
  rewrite IH by assumption. apply run_op_other. assumption.
Qed.

Lemma run_plan_app : forall s p1 p2, run_plan V s (p1 ++ p2) = run_plan V (run_plan V s p1) p2.
Proof. intros. unfold run_plan. apply fold_left_app. Qed.

(* ---- inside one op ----------------------------------------------------------------------- *)
Lemma writer_unique : forall (o : op) t t' k,
  op_ok V o -> In t o -> In t' o ->
  mem_key k (t_writes V t) = true -> mem_key k (t_writes V t') = true -> t = t'.
Proof.
  intros o t t' k (_ & _ & Hww) Ht Ht' Hk Hk'.
  apply in_split in Ht. destruct Ht as (l1 & l2 & Ho). subst o.
  apply in_app_or in Ht'. destruct Ht' as [Hin | [Heq | Hin]].
  - apply in_split in Hin. destruct Hin as (a & b & Hl1). subst l1.
    assert (E : (a ++ t' :: b) ++ t :: l2 = a ++ t' :: b ++ t :: l2)
      by (rewrite <- app_assoc; reflexivity).
    specialize (Hww a t' b t l2 E k Hk'). congruence.
  - assumption.
  - apply in_split in Hin. destruct Hin as (a & b & Hl2). subst l2.
    specialize (Hww l1 t a t' b eq_refl k Hk). congruence.
Qed.

Lemma op_result_writer : forall (o : op) t s k,
  op_ok V o -> In t o -> mem_key k (t_writes V t) = true ->
  op_result s o k = Some (t_val V t s k).
Proof.
  intros o t s k Hok Ht Hk. unfold op_result.
  pose proof (find_spec _ (fun t => mem_key k (t_writes V t)) o) as F.
  destruct (find (fun t => mem_key k (t_writes V t)) o) as [t0|].
  - destruct F as (Hin & Hw & _).
    rewrite (writer_unique o t0 t k Hok Hin Ht Hw Hk). reflexivity.
  - rewrite existsb_false in F. specialize (F t Ht). simpl in F. congruence.
Qed.

Lemma op_result_other : forall (o : op) s k,
  mem_key k (op_writes V o) = false -> op_result s o k = s k.
Proof.
  intros o s k H. rewrite op_writes_mem in H. unfold op_result.
  pose proof (find_spec _ (fun t => mem_key k (t_writes V t)) o) as F.
  destruct (find (fun t => mem_key k (t_writes V t)) o) as [t0|].
  - destruct F as (_ & _ & F). congruence.
  - reflexivity.
Qed.

Lemma task_reads_unwritten : forall (o : op) t r,
  op_ok V o -> In t o -> mem_key r (t_reads V t) = true -> mem_key r (op_writes V o) = false.
Proof.
  intros o t r (_ & Hrw & _) Ht Hr. rewrite op_writes_mem. apply existsb_false.
  intros t' Ht'. exact (Hrw t t' Ht Ht' r Hr).
Qed.

Lemma op_reads_unwritten : forall (o : op) r,
  op_ok V o -> mem_key r (op_reads V o) = true -> mem_key r (op_writes V o) = false.
Proof.
  intros o r Hok Hr. rewrite op_reads_mem in Hr. apply existsb_exists in Hr.
  destruct Hr as (t & Ht & Hr). exact (task_reads_unwritten o t r Hok Ht Hr).
Qed.

(* core lemma: any list of tasks of the op leaves the canonical value at every key it writes *)
Lemma op_core : forall (o : op), op_ok V o ->
  forall sched, (forall t, In t sched -> In t o) ->
  forall s k, run_sched V s sched k =
    if existsb (fun t => mem_key k (t_writes V t)) sched then op_result s o k else s k.
Proof.
  intros o Hok sched. induction sched as [|x sched IH] using rev_ind; intros Hsub s k.
  - reflexivity.
  - rewrite run_sched_snoc, existsb_app. simpl. rewrite orb_false_r.
    assert (Hsub' : forall t, In t sched -> In t o)
      by (intros t Ht; apply Hsub; apply in_or_app; left; assumption).
    assert (Hx : In x o) by (apply Hsub; apply in_or_app; right; left; reflexivity).
    unfold run_task at 1. destruct (mem_key k (t_writes V x)) eqn:E.
    + rewrite orb_true_r. rewrite (op_result_writer o x s k Hok Hx E). f_equal.
      destruct Hok as (Hloc & Hrw & Hww). apply (Hloc x Hx).
      intros r Hr. apply run_sched_other. apply existsb_false.
      intros t' Ht'. exact (Hrw x t' Hx (Hsub' t' Ht') r Hr).
    + rewrite orb_false_r. apply IH. assumption.
Qed.

Theorem op_schedule_irrelevant : forall (o : op) (sched : list task) (s : store),
  op_ok V o -> (forall t, In t sched -> In t o) -> (forall t, In t o -> In t sched) ->
  seq (run_sched V s sched) (op_result s o).
Proof.
  intros o sched s Hok H1 H2 k. rewrite (op_core o Hok sched H1).
  destruct (existsb (fun t => mem_key k (t_writes V t)) sched) eqn:E; [reflexivity|].
  symmetry. apply op_result_other. rewrite op_writes_mem. apply existsb_false.
  intros t Ht. rewrite existsb_false in E. exact (E t (H2 t Ht)).
Qed.

Lemma run_op_eq : forall (o : op) s, op_ok V o -> seq (run_op V s o) (op_result s o).
Proof. intros o s Hok. unfold run_op. apply op_schedule_irrelevant; auto. Qed.

Lemma run_task_at : forall s (t : task) k,
  run_task V s t k = if mem_key k (t_writes V t) then Some (t_val V t s k) else s k.
Proof. reflexivity. Qed.

Theorem run_task_idempotent : forall (t : task) (s : store),
  task_local V t -> disjoint (t_reads V t) (t_writes V t) ->
  seq (run_task V (run_task V s t) t) (run_task V s t).
Proof.
  intros t s Hloc Hd k.
  rewrite run_task_at. rewrite (run_task_at s t k).
  destruct (mem_key k (t_writes V t)) eqn:E; [|reflexivity].
  f_equal. apply Hloc. intros r Hr. rewrite run_task_at, (Hd r Hr). reflexivity.
Qed.

(* the canonical result on the op's outputs depends only on the op's inputs *)
Lemma op_result_local : forall (o : op) s1 s2, op_ok V o ->
  (forall r, mem_key r (op_reads V o) = true -> s1 r = s2 r) ->
  forall k, mem_key k (op_writes V o) = true -> op_result s1 o k = op_result s2 o k.
Proof.
  intros o s1 s2 Hok Hag k Hk. rewrite op_writes_mem in Hk. apply existsb_exists in Hk.
  destruct Hk as (t & Ht & Hk).
  rewrite (op_result_writer o t s1 k Hok Ht Hk), (op_result_writer o t s2 k Hok Ht Hk).
  f_equal. destruct Hok as (Hloc & _). apply (Hloc t Ht).
  intros r Hr. apply Hag. rewrite op_reads_mem. apply existsb_exists. exists t. split; assumption.
Qed.

Lemma run_op_seq : forall (o : op) s1 s2, op_ok V o -> seq s1 s2 -> seq (run_op V s1 o) (run_op V s2 o).
Proof.
  intros o s1 s2 Hok Hs k. destruct (mem_key k (op_writes V o)) eqn:E.
  - rewrite (run_op_eq o s1 Hok k), (run_op_eq o s2 Hok k).
    apply op_result_local; [assumption | intros r _; apply Hs | assumption].
  - rewrite !run_op_other by assumption. apply Hs.
Qed.

(* ---- plans ------------------------------------------------------------------------------- *)
Lemma plan_ok_app : forall p1 p2, plan_ok V (p1 ++ p2) ->
  plan_ok V p1 /\ plan_ok V p2 /\
  (forall o o', In o p1 -> In o' p2 ->
     disjoint (op_writes V o) (op_writes V o') /\ disjoint (op_reads V o) (op_writes V o')).
Proof.
  induction p1 as [|a p1 IH]; simpl; intros p2 H.
  - split; [exact I | split; [assumption | intros o o' []]].
  - destruct H as (Hok & Hd & Hr). destruct (IH _ Hr) as (A & B & C).
    split; [|split].
    + split; [assumption | split; [|assumption]].
      intros o' Ho'. apply Hd. apply in_or_app. left. assumption.
    + assumption.
    + intros o o' [Ho|Ho] Ho'.
      * subst a. apply Hd. apply in_or_app. right. assumption.
      * apply C; assumption.
Qed.

Lemma run_plan_seq : forall p s1 s2, plan_ok V p -> seq s1 s2 -> seq (run_plan V s1 p) (run_plan V s2 p).
Proof.
  induction p as [|o p IH]; intros s1 s2 Hok Hs; simpl; [assumption|].
  destruct Hok as (Hop & _ & Hrest).
  change (seq (run_plan V (run_op V s1 o) p) (run_plan V (run_op V s2 o) p)).
  apply IH; [assumption | apply run_op_seq; assumption].
Qed.

Lemma later_unwritten_w : forall (o : op) rest k, plan_ok V (o :: rest) ->
  mem_key k (op_writes V o) = true -> wr_plan rest k = false.
Proof.
  intros o rest k (_ & Hd & _) Hk. apply wr_plan_false. intros o' Ho'.
  destruct (Hd o' Ho') as (D & _). exact (D k Hk).
Qed.

Lemma later_unwritten_r : forall (o : op) rest k, plan_ok V (o :: rest) ->
  mem_key k (op_reads V o) = true -> wr_plan rest k = false.
Proof.
  intros o rest k (_ & Hd & _) Hk. apply wr_plan_false. intros o' Ho'.
  destruct (Hd o' Ho') as (_ & D). exact (D k Hk).
Qed.

Lemma run_plan_split : forall s0 done (o : op) rest,
  run_plan V s0 (done ++ o :: rest) = run_plan V (run_op V (run_plan V s0 done) o) rest.
Proof. intros. rewrite run_plan_app. reflexivity. Qed.

(* the final value of a chunk written by op o is the canonical result of o on the store o saw *)
Lemma final_own : forall s0 done (o : op) rest k, plan_ok V (done ++ o :: rest) ->
  mem_key k (op_writes V o) = true ->
  run_plan V s0 (done ++ o :: rest) k = op_result (run_plan V s0 done) o k.
Proof.
  intros s0 done o rest k Hok Hk. destruct (plan_ok_app _ _ Hok) as (_ & Hor & _).
  rewrite run_plan_split. rewrite run_plan_other by (eapply later_unwritten_w; eassumption).
  apply run_op_eq. apply Hor.
Qed.

(* chunks written by finished ops are never touched again *)
Lemma final_done : forall s0 done (o : op) rest d k, plan_ok V (done ++ o :: rest) ->
  In d done -> mem_key k (op_writes V d) = true ->
  run_plan V s0 (done ++ o :: rest) k = run_plan V s0 done k.
Proof.
  intros s0 done o rest d k Hok Hd Hk. destruct (plan_ok_app _ _ Hok) as (_ & _ & Hx).
  assert (W : wr_plan (o :: rest) k = false).
  { apply wr_plan_false. intros o' Ho'. destruct (Hx d o' Hd Ho') as (D & _). exact (D k Hk). }
  rewrite run_plan_app. apply run_plan_other. assumption.
Qed.

(* the inputs of op o are never touched from o on *)
Lemma final_reads : forall s0 done (o : op) rest r, plan_ok V (done ++ o :: rest) ->
  mem_key r (op_reads V o) = true ->
  run_plan V s0 (done ++ o :: rest) r = run_plan V s0 done r.
Proof.
  intros s0 done o rest r Hok Hr. destruct (plan_ok_app _ _ Hok) as (_ & Hor & _).
  rewrite run_plan_split. rewrite run_plan_other by (eapply later_unwritten_r; eassumption).
  apply run_op_other. apply op_reads_unwritten; [apply Hor | assumption].
Qed.

Lemma task_reads_op_reads : forall (o : op) t r, In t o ->
  mem_key r (t_reads V t) = true -> mem_key r (op_reads V o) = true.
Proof. intros o t r Ht Hr. rewrite op_reads_mem. apply existsb_exists. exists t. split; assumption. Qed.

Lemma task_writes_op_writes : forall (o : op) t k, In t o ->
  mem_key k (t_writes V t) = true -> mem_key k (op_writes V o) = true.
Proof. intros o t k Ht Hk. rewrite op_writes_mem. apply existsb_exists. exists t. split; assumption. Qed.

Theorem late_reexecution_harmless : forall (p : list op) (s : store) (o : op) (t : task),
  plan_ok V p -> In o p -> In t o ->
  seq (run_task V (run_plan V s p) t) (run_plan V s p).
Proof.
  intros p s o t Hok Ho Ht k. apply in_split in Ho. destruct Ho as (done & rest & Hp). subst p.
  unfold run_task. destruct (mem_key k (t_writes V t)) eqn:E; [|reflexivity].
  destruct (plan_ok_app _ _ Hok) as (_ & Hor & _). destruct Hor as (Hop & _).
  rewrite (final_own s done o rest k Hok (task_writes_op_writes o t k Ht E)).
  rewrite (op_result_writer o t _ k Hop Ht E). f_equal.
  destruct Hop as (Hloc & _). apply (Hloc t Ht).
  intros r Hr. apply final_reads; [assumption | exact (task_reads_op_reads o t r Ht Hr)].
Qed.

Theorem late_reexecution_midway : forall (p1 p2 : list op) (s : store) (o : op) (t : task),
  plan_ok V (p1 ++ p2) -> In o p1 -> In t o ->
  seq (run_plan V (run_task V (run_plan V s p1) t) p2) (run_plan V s (p1 ++ p2)).
Proof.
  intros p1 p2 s o t Hok Ho Ht. destruct (plan_ok_app _ _ Hok) as (H1 & H2 & _).
  rewrite run_plan_app. apply run_plan_seq; [assumption|].
  exact (late_reexecution_harmless p1 s o t H1 Ho Ht).
Qed.

(* ---- resume ------------------------------------------------------------------------------ *)
Theorem skip_only_complete : forall (s : store) (o : op), complete V s o = true ->
  forall k, mem_key k (op_writes V o) = true -> exists v, s k = Some v.
Proof.
  intros s o H k Hk. unfold complete in H. rewrite forallb_forall in H.
  apply mem_key_In in Hk. specialize (H k Hk). destruct (s k) as [v|]; [exists v; reflexivity | discriminate].
Qed.

Lemma run_task_keeps : forall s (t : task) k v, s k = Some v -> exists v', run_task V s t k = Some v'.
Proof.
  intros s t k v H. unfold run_task. destruct (mem_key k (t_writes V t)); eauto.
Qed.

Lemma run_sched_keeps : forall sched s k v, s k = Some v -> exists v', run_sched V s sched k = Some v'.
Proof.
  induction sched as [|t sched IH]; intros s k v H; simpl; [eauto|].
  destruct (run_task_keeps s t k v H) as (v' & H').
  change (exists v'0, run_sched V (run_task V s t) sched k = Some v'0). eapply IH. eassumption.
Qed.

Definition resume_step (always : op -> bool) (sc : store) (st : store) (o : op) : store :=
  if negb (always o) && complete V sc o then st else run_op V st o.

Lemma resume_plan_fold : forall always sc p,
  resume_plan V always sc p = fold_left (resume_step always sc) p sc.
Proof. reflexivity. Qed.

Lemma resume_fold_keeps : forall always sc p st k v, st k = Some v ->
  exists v', fold_left (resume_step always sc) p st k = Some v'.
Proof.
  intros always sc. induction p as [|o p IH]; intros st k v H; simpl; [eauto|].
  assert (H' : exists v', resume_step always sc st o k = Some v').
  { unfold resume_step. destruct (negb (always o) && complete V sc o); [eauto|].
    unfold run_op. eapply run_sched_keeps. eassumption. }
  destruct H' as (v' & H'). eapply IH. eassumption.
Qed.

Theorem never_wipes : forall (always : op -> bool) (p : list op) (sc : store) k v,
  sc k = Some v -> exists v', resume_plan V always sc p k = Some v'.
Proof. intros. rewrite resume_plan_fold. eapply resume_fold_keeps. eassumption. Qed.

(* invariant of resume, after the ops [done] of plan [p] have been handled *)
Definition resume_inv (p : list op) (s0 sc : store) (done : list op) (st : store) : Prop :=
  (forall k, st k = sc k \/ st k = run_plan V s0 p k) /\
  (forall d k, In d done -> mem_key k (op_writes V d) = true -> st k = run_plan V s0 p k).

Lemma resume_inv_step : forall always s0 sc done (o : op) rest st,
  plan_ok V (done ++ o :: rest) -> crash_state (done ++ o :: rest) s0 sc ->
  resume_inv (done ++ o :: rest) s0 sc done st ->
  resume_inv (done ++ o :: rest) s0 sc (done ++ [o]) (resume_step always sc st o).
Proof.
  intros always s0 sc done o rest st Hok (Hc1 & Hc2) (I1 & I2).
  assert (Ho : In o (done ++ o :: rest)) by (apply in_or_app; right; left; reflexivity).
  destruct (plan_ok_app _ _ Hok) as (_ & Hor & Hx).
  assert (Hop : op_ok V o) by apply Hor.
  unfold resume_step. destruct (negb (always o) && complete V sc o) eqn:Esk.
  - (* skipped: all outputs were present in the crash store, hence final and still there *)
    apply andb_true_iff in Esk. destruct Esk as (_ & Hcomp).
    split; [assumption|].
    intros d k Hd Hk. apply in_app_or in Hd. destruct Hd as [Hd | [Hd | []]].
    + apply (I2 d k Hd Hk).
    + subst d. destruct (skip_only_complete sc o Hcomp k Hk) as (v & Hv).
      pose proof (Hc2 o k v Ho Hk Hv) as HF.
      destruct (I1 k) as [E|E]; [|assumption]. rewrite E, Hv, HF. reflexivity.
  - (* run: the op sees the same inputs as in the uninterrupted run *)
    assert (Hreads : forall r, mem_key r (op_reads V o) = true -> st r = run_plan V s0 done r).
    { intros r Hr. rewrite <- (final_reads s0 done o rest r Hok Hr).
      destruct (wr_plan done r) eqn:Ew.
      - apply wr_plan_true in Ew. destruct Ew as (d & Hd & Hdk). apply (I2 d r Hd Hdk).
      - destruct (I1 r) as [E|E]; [|assumption].
        assert (Hnone : forall o', In o' (done ++ o :: rest) -> mem_key r (op_writes V o') = false).
        { intros o' Ho'. apply in_app_or in Ho'. destruct Ho' as [Ho'|[Ho'|Ho']].
          - rewrite wr_plan_false in Ew. apply Ew. assumption.
          - subst o'. apply op_reads_unwritten; assumption.
          - assert (W : wr_plan rest r = false) by (eapply later_unwritten_r; eassumption).
            rewrite wr_plan_false in W. apply W. assumption. }
        rewrite E, (Hc1 r Hnone). symmetry. apply run_plan_other. apply wr_plan_false. assumption. }
    assert (Hown : forall k, mem_key k (op_writes V o) = true ->
                     run_op V st o k = run_plan V s0 (done ++ o :: rest) k).
    { intros k Hk. rewrite (run_op_eq o st Hop k), (final_own s0 done o rest k Hok Hk).
      apply op_result_local; assumption. }
    split.
    + intro k. destruct (mem_key k (op_writes V o)) eqn:Ek.
      * right. apply Hown. assumption.
      * rewrite run_op_other by assumption. apply I1.
    + intros d k Hd Hk. apply in_app_or in Hd. destruct Hd as [Hd | [Hd | []]].
      * assert (Ek : mem_key k (op_writes V o) = false).
        { destruct (Hx d o Hd (or_introl eq_refl)) as (D & _). exact (D k Hk). }
        rewrite run_op_other by assumption. apply (I2 d k Hd Hk).
      * subst d. apply Hown. assumption.
Qed.

Lemma resume_inv_fold : forall always s0 sc rest done st p,
  p = done ++ rest -> plan_ok V p -> crash_state p s0 sc ->
  resume_inv p s0 sc done st ->
  resume_inv p s0 sc p (fold_left (resume_step always sc) rest st).
Proof.
  intros always s0 sc. induction rest as [|o rest IH]; intros done st p Hp Hok Hc Hi; simpl.
  - rewrite app_nil_r in Hp. subst done. assumption.
  - apply (IH (done ++ [o])).
    + rewrite <- app_assoc. assumption.
    + assumption.
    + assumption.
    + subst p. apply resume_inv_step; assumption.
Qed.

Theorem resume_correct : forall (always : op -> bool) (p : list op) (s0 sc : store),
  plan_ok V p -> crash_state p s0 sc ->
  seq (resume_plan V always sc p) (run_plan V s0 p).
Proof.
  intros always p s0 sc Hok Hc k. rewrite resume_plan_fold.
  assert (Hi : resume_inv p s0 sc [] sc).
  { split; [intro; left; reflexivity | intros d k' []]. }
  pose proof (resume_inv_fold always s0 sc p [] sc p eq_refl Hok Hc Hi) as (I1 & I2).
  destruct (wr_plan p k) eqn:Ew.
  - apply wr_plan_true in Ew. destruct Ew as (d & Hd & Hk). apply (I2 d k Hd Hk).
  - destruct (I1 k) as [E|E]; [|assumption].
    rewrite wr_plan_false in Ew. destruct Hc as (Hc1 & _).
    rewrite E, (Hc1 k Ew). symmetry. apply run_plan_other. apply wr_plan_false. assumption.
Qed.

(* ---- every prefix of a run is a crash state ---------------------------------------------- *)
Definition partial_writes (s1 : store) (ws : list (task * key)) (st : store) : store :=
  fold_left (fun s tw => write_one V s1 (fst tw) (snd tw) s) ws st.

Lemma partial_writes_char : forall (o : op) s1 ws, op_ok V o ->
  (forall tw, In tw ws -> In (fst tw) o /\ mem_key (snd tw) (t_writes V (fst tw)) = true) ->
  forall st k, partial_writes s1 ws st k = st k \/
    (mem_key k (op_writes V o) = true /\ partial_writes s1 ws st k = op_result s1 o k).
Proof.
  intros o s1 ws Hok. induction ws as [|tw ws IH]; intros Hws st k; simpl; [left; reflexivity|].
  assert (Hws' : forall tw', In tw' ws -> In (fst tw') o /\ mem_key (snd tw') (t_writes V (fst tw')) = true)
    by (intros tw' H; apply Hws; right; assumption).
  destruct (Hws tw (or_introl eq_refl)) as (Ht & Hw).
  destruct (IH Hws' (write_one V s1 (fst tw) (snd tw) st) k) as [E|E]; [|right; exact E].
  unfold partial_writes in *. rewrite E. unfold write_one.
  destruct (key_eqb k (snd tw)) eqn:Ek; [|left; reflexivity].
  apply key_eqb_eq in Ek. subst k. right. split.
  - exact (task_writes_op_writes o (fst tw) (snd tw) Ht Hw).
  - symmetry. apply op_result_writer; assumption.
Qed.

(* The statement of final_if_present in Specs/Exec_target.v is false when the initial store s0
   already holds a stale chunk at a key that an unfinished op will write (see
   final_if_present_unrestricted_false at the end of this file).  The side condition [Hs0] below
   is the weakest one that works: it is also necessary (take ws = []). *)
Theorem final_if_present_gen : forall (done rest : list op) (o : op) (s0 : store) (ws : list (task * key)),
  plan_ok V (done ++ o :: rest) ->
  (forall o' k v, In o' (o :: rest) -> mem_key k (op_writes V o') = true -> s0 k = Some v ->
     run_plan V s0 (done ++ o :: rest) k = Some v) ->
  (forall tw, In tw ws -> In (fst tw) o /\ mem_key (snd tw) (t_writes V (fst tw)) = true) ->
  let s1 := run_plan V s0 done in
  crash_state (done ++ o :: rest) s0
    (fold_left (fun s tw => write_one V s1 (fst tw) (snd tw) s) ws s1).
Proof.
  intros done rest o s0 ws Hok Hs0 Hws s1.
  destruct (plan_ok_app _ _ Hok) as (_ & Hor & Hx).
  assert (Hop : op_ok V o) by apply Hor.
  pose proof (partial_writes_char o s1 ws Hop Hws s1) as Hch. unfold partial_writes in Hch.
  split.
  - intros k Hnone.
    assert (Hko : mem_key k (op_writes V o) = false)
      by (apply Hnone; apply in_or_app; right; left; reflexivity).
    destruct (Hch k) as [E|(E & _)]; [|congruence].
    rewrite E. unfold s1. apply run_plan_other. apply wr_plan_false.
    intros d Hd. apply Hnone. apply in_or_app. left. assumption.
  - intros o' k v Ho' Hk Hv. destruct (Hch k) as [E|(Ek & E)].
    + rewrite E in Hv. destruct (wr_plan done k) eqn:Ew.
      * apply wr_plan_true in Ew. destruct Ew as (d & Hd & Hdk).
        rewrite (final_done s0 done o rest d k Hok Hd Hdk). assumption.
      * unfold s1 in Hv. rewrite run_plan_other in Hv by assumption.
        apply in_app_or in Ho'. destruct Ho' as [Ho'|Ho'].
        -- rewrite wr_plan_false in Ew. rewrite (Ew o' Ho') in Hk. discriminate.
        -- exact (Hs0 o' k v Ho' Hk Hv).
    + rewrite E in Hv. rewrite (final_own s0 done o rest k Hok Ek). assumption.
Qed.

(* final_if_present, with the added side condition that the initial store holds no chunk of the
   arrays still to be produced (nothing required about the outputs of the finished ops) *)
Theorem final_if_present : forall (done rest : list op) (o : op) (s0 : store) (ws : list (task * key)),
  plan_ok V (done ++ o :: rest) ->
  (forall o' k, In o' (o :: rest) -> mem_key k (op_writes V o') = true -> s0 k = None) ->
  (forall tw, In tw ws -> In (fst tw) o /\ mem_key (snd tw) (t_writes V (fst tw)) = true) ->
  let s1 := run_plan V s0 done in
  crash_state (done ++ o :: rest) s0
    (fold_left (fun s tw => write_one V s1 (fst tw) (snd tw) s) ws s1).
Proof.
  intros done rest o s0 ws Hok Hfresh Hws. apply final_if_present_gen; try assumption.
  intros o' k v Ho' Hk Hv. rewrite (Hfresh o' k Ho' Hk) in Hv. discriminate.
Qed.

(* ---- helpers for establishing op_ok on concrete ops --------------------------------------- *)
Fixpoint ww_ok (o : op) : Prop :=
  match o with
  | [] => True
  | t :: r => (forall t', In t' r -> disjoint (t_writes V t) (t_writes V t')) /\ ww_ok r
  end.

Lemma ww_ok_sound : forall (o : op), ww_ok o ->
  forall l1 t l2 t' l3, o = l1 ++ t :: l2 ++ t' :: l3 -> disjoint (t_writes V t) (t_writes V t').
Proof.
  intros o H l1. revert o H. induction l1 as [|a l1 IH]; intros o H t l2 t' l3 Ho; subst o; simpl in H.
  - destruct H as (H & _). apply H. apply in_or_app. right. left. reflexivity.
  - destruct H as (_ & H). exact (IH _ H t l2 t' l3 eq_refl).
Qed.

End P.

(* ---- the unrestricted statement of final_if_present is false ----------------------------- *)
(* one op with one task writing 7 to chunk (1,[0]); the initial store already has 5 there; no op
   finished, no write happened: the "crash store" is s0 itself, whose chunk (1,[0]) is present
   but not final *)
Definition cx_key : key := (1, [0]).
Definition cx_task : task nat := {| t_reads := []; t_writes := [cx_key]; t_val := fun _ _ => 7 |}.
Definition cx_op : op nat := [cx_task].
Definition cx_s0 : store nat := fun k => if key_eqb k cx_key then Some 5 else None.

Lemma cx_plan_ok : plan_ok nat ([] ++ cx_op :: []).
Proof.
  simpl. split; [|split; [intros o' [] | exact I]].
  split; [|split].
  - intros t [Ht|[]]. subst t. intros s1 s2 _ w. reflexivity.
  - intros t t' [Ht|[]] _. subst t. intros k Hk. discriminate.
  - apply ww_ok_sound. simpl. split; [intros t' [] | exact I].
Qed.

Example final_if_present_unrestricted_false :
  ~ (forall (done rest : list (op nat)) (o : op nat) (s0 : store nat) (ws : list (task nat * key)),
      plan_ok nat (done ++ o :: rest) ->
      (forall tw, In tw ws -> In (fst tw) o /\ mem_key (snd tw) (t_writes nat (fst tw)) = true) ->
      let s1 := run_plan nat s0 done in
      crash_state nat (done ++ o :: rest) s0
        (fold_left (fun s tw => write_one nat s1 (fst tw) (snd tw) s) ws s1)).
Proof.
  intro H. specialize (H [] [] cx_op cx_s0 [] cx_plan_ok).
  assert (Hws : forall tw : task nat * key, In tw [] ->
            In (fst tw) cx_op /\ mem_key (snd tw) (t_writes nat (fst tw)) = true) by (intros tw []).
  destruct (H Hws) as (_ & H2).
  specialize (H2 cx_op cx_key 5 (or_introl eq_refl) eq_refl eq_refl).
  vm_compute in H2. discriminate.
Qed.
