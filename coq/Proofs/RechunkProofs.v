(* C14: proofs about the rechunk planner model (Model/Rechunk.v).
   Statements are the ones of Specs/C14_target.v, under the same names. *)
From CubedV Require Import Model.Util Model.Rechunk.
From Coq Require Import Sorted.
From Coq Require Import ZifyBool.
Local Open Scope Z_scope.

Local Arguments Z.mul : simpl never.
Local Arguments Z.add : simpl never.
Local Arguments Z.sub : simpl never.
Local Arguments Z.div : simpl never.
Local Arguments Z.modulo : simpl never.
Local Arguments Z.min : simpl never.
Local Arguments Z.max : simpl never.
Local Arguments Z.ltb : simpl never.
Local Arguments Z.leb : simpl never.
Local Arguments Z.eqb : simpl never.
Local Arguments Z.of_nat : simpl never.
Local Arguments Z.to_nat : simpl never.

Definition allpos (l : list Z) : Prop := Forall (fun x => 0 < x) l.
Definition le_all (a b : list Z) : Prop := Forall2 (fun x y => x <= y) a b.

(* ---------------------------------------------------------------------------- *)
(* generic list facts                                                             *)
(* ---------------------------------------------------------------------------- *)
Lemma last_nonempty_indep {A} (l : list A) (d d' : A) : l <> [] -> last l d = last l d'.
Proof.
  induction l as [|x l IH]; intros H; [congruence|].
  destruct l as [|y l]; [reflexivity|].
  change (last (y :: l) d = last (y :: l) d'). apply IH. discriminate.
Qed.

Lemma last_app_nonempty {A} (l l' : list A) (d : A) : l' <> [] -> last (l ++ l') d = last l' d.
Proof.
  intros H. induction l as [|x l IH]; [reflexivity|].
  simpl app. destruct (l ++ l') as [|y m] eqn:E.
  - destruct l; simpl in E; [congruence|discriminate].
  - exact IH.
Qed.

Lemma le_all_length : forall a b, le_all a b -> length a = length b.
Proof. induction 1; simpl; congruence. Qed.

Lemma le_all_refl : forall a, le_all a a.
Proof. induction a; constructor; auto; lia. Qed.

Lemma le_all_trans : forall a b c, le_all a b -> le_all b c -> le_all a c.
Proof.
  intros a b c H; revert c. induction H; intros c Hc; inversion Hc; subst; constructor.
  - lia.
  - apply IHForall2; assumption.
Qed.

Lemma le_all_pos : forall a b, allpos a -> le_all a b -> allpos b.
Proof.
  intros a b Ha H. induction H; constructor; inversion Ha; subst.
  - lia.
  - apply IHForall2; assumption.
Qed.

(* ---------------------------------------------------------------------------- *)
(* shared_le, mem_monotone                                                        *)
(* ---------------------------------------------------------------------------- *)
Theorem shared_le : forall r w, length r = length w ->
  le_all (shared_chunks r w) r /\ le_all (shared_chunks r w) w.
Proof.
  unfold shared_chunks, le_all.
  induction r as [|x r IH]; intros [|y w] H; simpl in *; try discriminate.
  - split; constructor.
  - injection H as H. destruct (IH w H). split; constructor; auto; lia.
Qed.

Lemma shared_pos : forall r w, allpos r -> allpos w -> allpos (shared_chunks r w).
Proof.
  unfold shared_chunks, allpos.
  induction r as [|x r IH]; intros [|y w] Hr Hw; simpl; try constructor.
  - inversion Hr; inversion Hw; subst; lia.
  - inversion Hr; inversion Hw; subst; apply IH; assumption.
Qed.

Lemma prodz_pos : forall l, allpos l -> 0 < prodz l.
Proof. induction 1; simpl; [lia|]. apply Z.mul_pos_pos; assumption. Qed.

Lemma prodz_le : forall a b, allpos a -> le_all a b -> prodz a <= prodz b.
Proof.
  intros a b Ha H. induction H; simpl; [lia|]. inversion Ha; subst.
  apply Z.mul_le_mono_nonneg; try lia.
  - apply Z.lt_le_incl, prodz_pos; assumption.
  - apply IHForall2; assumption.
Qed.

Theorem mem_monotone : forall itemsize a b, 0 < itemsize -> allpos a -> le_all a b ->
  mem_of itemsize a <= mem_of itemsize b.
Proof.
  intros. unfold mem_of. apply Z.mul_le_mono_nonneg_l; [lia|]. apply prodz_le; assumption.
Qed.

Lemma mem_pos : forall itemsize a, 0 < itemsize -> allpos a -> 0 < mem_of itemsize a.
Proof. intros. unfold mem_of. apply Z.mul_pos_pos; [assumption|apply prodz_pos; assumption]. Qed.

(* ---------------------------------------------------------------------------- *)
(* fix_copy_spec                                                                  *)
(* ---------------------------------------------------------------------------- *)
Definition fixv (n c t : Z) : Z :=
  if (c <=? t) || (c =? n) || (c mod t =? 0) then c else (c / t) * t.

Lemma fix_copy_fixv : forall shape cc tc, fix_copy_chunks shape cc tc = map3 fixv shape cc tc.
Proof. reflexivity. Qed.

Lemma fixv_spec : forall n c t, 0 < c -> 0 < t ->
  0 < fixv n c t /\ fixv n c t <= c /\
  (fixv n c t <= t \/ fixv n c t = n \/ fixv n c t mod t = 0).
Proof.
  intros n c t Hc Ht. unfold fixv.
  destruct ((c <=? t) || (c =? n) || (c mod t =? 0)) eqn:E.
  - split; [lia|]. split; [lia|].
    apply orb_true_iff in E. destruct E as [E|E].
    + apply orb_true_iff in E. destruct E as [E|E].
      * left. apply Z.leb_le in E. exact E.
      * right; left. apply Z.eqb_eq in E. exact E.
    + right; right. apply Z.eqb_eq in E. exact E.
  - apply orb_false_iff in E. destruct E as [E _].
    apply orb_false_iff in E. destruct E as [E _].
    apply Z.leb_gt in E.
    assert (H1 : 0 < c / t) by (apply Z.div_str_pos; lia).
    assert (H2 : t * (c / t) <= c) by (apply Z.mul_div_le; lia).
    split; [apply Z.mul_pos_pos; lia|].
    split; [lia|].
    right; right. apply Z_mod_mult.
Qed.

Theorem fix_copy_spec : forall shape cc tc, allpos shape -> allpos cc -> allpos tc ->
  length cc = length shape -> length tc = length shape ->
  let r := fix_copy_chunks shape cc tc in
  length r = length shape /\ allpos r /\ le_all r cc /\
  forall i, (i < length shape)%nat ->
    nth i r 0 <= nth i tc 0 \/ nth i r 0 = nth i shape 0 \/ (nth i r 0) mod (nth i tc 0) = 0.
Proof.
  intros shape cc tc. rewrite fix_copy_fixv. revert cc tc.
  induction shape as [|n shape IH]; intros [|c cc] [|t tc] Hs Hc Ht L1 L2;
    simpl in *; try discriminate.
  - repeat split; try constructor. intros; lia.
  - inversion Hs; inversion Hc; inversion Ht; subst.
    injection L1 as L1. injection L2 as L2.
    destruct (IH cc tc) as (A & B & C & D); auto.
    destruct (fixv_spec n c t) as (P & Q & R); auto.
    split; [congruence|].
    split; [constructor; assumption|].
    split; [constructor; assumption|].
    intros [|i] Hi.
    + exact R.
    + apply D. lia.
Qed.

(* ---------------------------------------------------------------------------- *)
(* copies_end_at_target                                                           *)
(* ---------------------------------------------------------------------------- *)
Theorem copies_end_at_target : forall target plan, plan <> [] ->
  copies_of target plan <> [] /\ snd (last (copies_of target plan) (target, [])) = target.
Proof.
  intros target plan. induction plan as [|[[r i] w] rest IH]; intros H; [congruence|].
  destruct rest as [|s rest'].
  - simpl. destruct (chunks_eqb r w); simpl; split; try discriminate; reflexivity.
  - assert (Hne : s :: rest' <> []) by discriminate.
    destruct (IH Hne) as [IH1 IH2].
    change (copies_of target ((r, i, w) :: s :: rest'))
      with ((if chunks_eqb r w then [(r, w)] else (r, i) :: []) ++ copies_of target (s :: rest')).
    split.
    + intros E. apply app_eq_nil in E. destruct E as [_ E]. exact (IH1 E).
    + rewrite last_app_nonempty by exact IH1. exact IH2.
Qed.

(* ---------------------------------------------------------------------------- *)
(* consolidate_rejects_only_explicitly, planner_rejects_oversized                 *)
(* ---------------------------------------------------------------------------- *)
Theorem consolidate_rejects_only_explicitly : forall shape chunks itemsize max_mem lims e,
  consolidate_chunks shape chunks itemsize max_mem lims = PErr e -> e = E_VALUE.
Proof.
  intros shape chunks itemsize max_mem lims e. unfold consolidate_chunks.
  destruct (negb _); [intros H; inversion H; reflexivity|].
  destruct (_ <? _); [intros H; inversion H; reflexivity|].
  destruct (_ =? _); [intros H; inversion H; reflexivity|].
  discriminate.
Qed.

Theorem planner_rejects_oversized :
  forall regular shape source target itemsize min_mem max_mem table,
  (max_mem < mem_of itemsize source \/ max_mem < mem_of itemsize target \/ max_mem < min_mem) ->
  length source = length shape -> length target = length shape ->
  multistage_plan regular shape source target itemsize min_mem max_mem table = PErr E_VALUE.
Proof.
  intros regular shape source target itemsize min_mem max_mem table H L1 L2.
  unfold multistage_plan.
  rewrite L1, L2, Nat.eqb_refl. simpl negb. cbv iota.
  destruct (max_mem <? mem_of itemsize source) eqn:E1; [reflexivity|].
  destruct (max_mem <? mem_of itemsize target) eqn:E2; [reflexivity|].
  destruct (max_mem <? min_mem) eqn:E3; [reflexivity|].
  apply Z.ltb_ge in E1, E2, E3. lia.
Qed.

(* ---------------------------------------------------------------------------- *)
(* the stage search                                                               *)
(* ---------------------------------------------------------------------------- *)
Fixpoint chained (p : list stage) : Prop :=
  match p with
  | a :: p' => match p' with b :: _ => snd a = fst (fst b) | [] => True end /\ chained p'
  | [] => True
  end.

Lemma chained_spec : forall p, chained p ->
  forall l1 a b l2, p = l1 ++ a :: b :: l2 -> snd a = fst (fst b).
Proof.
  intros p Hp l1; revert p Hp.
  induction l1 as [|c l1 IH]; intros p Hp a b l2 E; subst p.
  - simpl in Hp. tauto.
  - change (chained (c :: (l1 ++ a :: b :: l2))) in Hp.
    assert (Hq : chained (l1 ++ a :: b :: l2)) by (simpl in Hp; tauto).
    exact (IH (l1 ++ a :: b :: l2) Hq a b l2 eq_refl).
Qed.

Lemma build_plan_nil : forall r w, build_plan r [] w = [(r, shared_chunks r w, w)].
Proof. reflexivity. Qed.

Lemma build_plan_cons : forall r s ss w,
  build_plan r (s :: ss) w = (r, shared_chunks r s, s) :: build_plan s ss w.
Proof. reflexivity. Qed.

Lemma build_plan_props : forall ss r w,
  build_plan r ss w <> [] /\
  (forall d, snd (last (build_plan r ss w) d) = w) /\
  (forall d, fst (fst (hd d (build_plan r ss w))) = r) /\
  chained (build_plan r ss w).
Proof.
  induction ss as [|s ss IH]; intros r w.
  - rewrite build_plan_nil. simpl. repeat split; try discriminate.
  - rewrite build_plan_cons. destruct (IH s w) as (A & B & C & D).
    split; [discriminate|].
    split.
    { intros d. destruct (build_plan s ss w) as [|x m] eqn:E; [congruence|].
      change (last ((r, shared_chunks r s, s) :: x :: m) d) with (last (x :: m) d). apply B. }
    split; [reflexivity|].
    destruct (build_plan s ss w) as [|x m] eqn:E; [congruence|].
    split; [|exact D].
    simpl. symmetry. exact (C x).
Qed.

Definition plan_shape (d : stage) (write : chunksz) (p : list stage) : Prop :=
  p <> [] /\ snd (last p d) = write /\
  (forall l1 a b l2, p = l1 ++ a :: b :: l2 -> snd a = fst (fst b)).

Lemma plan_shape_indep : forall d d' write p, plan_shape d write p -> plan_shape d' write p.
Proof.
  unfold plan_shape. intros d d' write p (A & B & C). split; [assumption|]. split; [|assumption].
  rewrite (last_nonempty_indep p d' d A). exact B.
Qed.

Lemma build_plan_shape : forall d r ss w, plan_shape d w (build_plan r ss w).
Proof.
  intros d r ss w. destruct (build_plan_props ss r w) as (A & B & C & D).
  split; [assumption|]. split; [apply B|]. apply chained_spec. exact D.
Qed.

Lemma search_shape_gen : forall regular shape itemsize min_mem write budget read prev table plan d,
  (match prev with Some (_, p) => plan_shape d write p | None => True end) ->
  search regular shape itemsize min_mem read write prev table budget = POk plan ->
  plan_shape d write plan.
Proof.
  intros regular shape itemsize min_mem write.
  induction budget as [|budget IH]; intros read prev table plan d Hprev H.
  - destruct table; cbn [search] in H; discriminate.
  - destruct table as [|stages table]; cbn [search] in H; [discriminate|].
    remember (if regular then fix_copy_chunks shape read (hd write (stages ++ [write])) else read)
      as read' eqn:Er.
    destruct (min_mem <=? plan_int_mem itemsize (build_plan read' stages write)).
    + inversion H; subst plan. apply build_plan_shape.
    + destruct prev as [[pio pplan]|].
      * destruct (pio <? plan_io shape (build_plan read' stages write)).
        -- inversion H; subst plan. exact Hprev.
        -- eapply IH; [|exact H]. apply build_plan_shape.
      * eapply IH; [|exact H]. apply build_plan_shape.
Qed.

Theorem search_shape : forall regular shape itemsize min_mem read write prev table budget plan,
  (match prev with Some (_, p) => p <> [] /\ snd (last p (read, read, read)) = write
                                  /\ (forall l1 a b l2, p = l1 ++ a :: b :: l2 -> snd a = fst (fst b))
                 | None => True end) ->
  search regular shape itemsize min_mem read write prev table budget = POk plan ->
  plan <> [] /\ snd (last plan (read, read, read)) = write /\
  (forall l1 a b l2, plan = l1 ++ a :: b :: l2 -> snd a = fst (fst b)).
Proof.
  intros regular shape itemsize min_mem read write prev table budget plan Hprev H.
  apply (search_shape_gen regular shape itemsize min_mem write budget read prev table plan
           (read, read, read)); [|exact H].
  destruct prev as [[pio p]|]; [exact Hprev|exact I].
Qed.

Lemma search_err : forall regular shape itemsize min_mem write budget read prev table e,
  search regular shape itemsize min_mem read write prev table budget = PErr e ->
  e = E_ASSERT \/ e = E_TABLE.
Proof.
  intros regular shape itemsize min_mem write.
  induction budget as [|budget IH]; intros read prev table e H.
  - destruct table; cbn [search] in H; inversion H; left; reflexivity.
  - destruct table as [|stages table]; cbn [search] in H; [inversion H; right; reflexivity|].
    destruct (min_mem <=? _); [discriminate|].
    destruct prev as [[pio pplan]|].
    + destruct (pio <? _); [discriminate|]. eapply IH; exact H.
    + eapply IH; exact H.
Qed.

Theorem planner_total : forall regular shape source target itemsize min_mem max_mem table,
  match multistage_plan regular shape source target itemsize min_mem max_mem table with
  | POk p => p <> []
  | PErr e => e = E_VALUE \/ e = E_ASSERT \/ e = E_TABLE
  end.
Proof.
  intros. unfold multistage_plan.
  destruct (negb _); [left; reflexivity|].
  destruct (max_mem <? mem_of itemsize source); [left; reflexivity|].
  destruct (max_mem <? mem_of itemsize target); [left; reflexivity|].
  destruct (max_mem <? min_mem); [left; reflexivity|].
  destruct (consolidate_chunks shape target itemsize max_mem None) as [write|e] eqn:E1.
  2:{ left. eapply consolidate_rejects_only_explicitly; exact E1. }
  destruct (consolidate_chunks shape source itemsize max_mem _) as [read|e] eqn:E2.
  2:{ left. eapply consolidate_rejects_only_explicitly; exact E2. }
  destruct (search _ _ _ _ _ _ _ _ _) as [p|e] eqn:E3.
  - apply (search_shape_gen _ _ _ _ _ _ _ _ _ _ (read, read, read)) in E3; [|exact I].
    destruct E3 as [A _]. exact A.
  - right. eapply search_err; exact E3.
Qed.

(* ---------------------------------------------------------------------------- *)
(* split_chunksizes / boundaries                                                  *)
(* ---------------------------------------------------------------------------- *)
Lemma mb_in : forall fuel k step n b, 0 < step ->
  In b (multiples_below fuel k step n) -> k <= b < n /\ (b - k) mod step = 0.
Proof.
  induction fuel as [|fuel IH]; intros k step n b Hs H; simpl in H; [contradiction|].
  destruct (k <? n) eqn:E; [|contradiction]. apply Z.ltb_lt in E.
  destruct H as [H|H].
  - subst b. split; [lia|]. replace (k - k) with 0 by lia. apply Z.mod_0_l. lia.
  - apply IH in H; [|assumption]. destruct H as [H1 H2]. split; [lia|].
    replace (b - k) with ((b - (k + step)) + 1 * step) by lia.
    rewrite Z_mod_plus_full. exact H2.
Qed.

Lemma mb_complete : forall fuel k step n b, 0 < step -> n - k <= Z.of_nat fuel * step ->
  k <= b < n -> (b - k) mod step = 0 -> In b (multiples_below fuel k step n).
Proof.
  induction fuel as [|fuel IH]; intros k step n b Hs Hf Hb Hm.
  - change (Z.of_nat 0) with 0 in Hf. lia.
  - simpl. destruct (k <? n) eqn:E; [|apply Z.ltb_ge in E; lia].
    destruct (Z.eq_dec b k) as [->|Hne]; [left; reflexivity|].
    right. rewrite Nat2Z.inj_succ in Hf.
    assert (Hq : b - k = step * ((b - k) / step))
      by (pose proof (Z_div_mod_eq_full (b - k) step); lia).
    assert (Hq1 : 1 <= (b - k) / step).
    { destruct (Z_lt_le_dec ((b - k) / step) 1) as [Hlt|]; [|assumption].
      assert (step * ((b - k) / step) <= step * 0) by (apply Z.mul_le_mono_nonneg_l; lia).
      lia. }
    assert (Hge : step * 1 <= step * ((b - k) / step)) by (apply Z.mul_le_mono_nonneg_l; lia).
    apply IH; try assumption; try lia.
    replace (b - (k + step)) with ((b - k) + (-1) * step) by lia.
    rewrite Z_mod_plus_full. exact Hm.
Qed.

Lemma mb_sorted : forall fuel k step n, 0 < step ->
  StronglySorted Z.lt (multiples_below fuel k step n).
Proof.
  induction fuel as [|fuel IH]; intros k step n Hs; simpl; [constructor|].
  destruct (k <? n); [|constructor].
  constructor; [apply IH; assumption|].
  apply Forall_forall. intros x Hx. apply mb_in in Hx; [|assumption]. lia.
Qed.

Lemma merge_in : forall fuel a b z, In z (merge_u fuel a b) -> In z a \/ In z b.
Proof.
  induction fuel as [|fuel IH]; intros a b z H; simpl in H; [contradiction|].
  destruct a as [|x a]; [right; exact H|].
  destruct b as [|y b]; [left; exact H|].
  destruct (x <? y).
  - destruct H as [H|H]; [left; left; exact H|].
    apply IH in H. destruct H as [H|H]; [left; right; exact H|right; exact H].
  - destruct (y <? x).
    + destruct H as [H|H]; [right; left; exact H|].
      apply IH in H. destruct H as [H|H]; [left; exact H|right; right; exact H].
    + destruct H as [H|H]; [left; left; exact H|].
      apply IH in H. destruct H as [H|H]; [left; right; exact H|right; right; exact H].
Qed.

Lemma merge_complete : forall fuel a b z, (length a + length b <= fuel)%nat ->
  In z a \/ In z b -> In z (merge_u fuel a b).
Proof.
  induction fuel as [|fuel IH]; intros a b z Hf H.
  - destruct a; destruct b; simpl in *; first [lia|tauto].
  - simpl. destruct a as [|x a]; [destruct H as [[]|H]; exact H|].
    destruct b as [|y b]; [destruct H as [H|[]]; exact H|].
    simpl in Hf.
    destruct (x <? y) eqn:E1.
    + destruct H as [[H|H]|H].
      * left; exact H.
      * right. apply IH; [simpl; lia|left; exact H].
      * right. apply IH; [simpl; lia|right; exact H].
    + destruct (y <? x) eqn:E2.
      * destruct H as [H|[H|H]].
        -- right. apply IH; [simpl; lia|left; exact H].
        -- left; exact H.
        -- right. apply IH; [simpl; lia|right; exact H].
      * apply Z.ltb_ge in E1, E2. assert (x = y) by lia. subst y.
        destruct H as [[H|H]|[H|H]].
        -- left; exact H.
        -- right. apply IH; [lia|left; exact H].
        -- left; exact H.
        -- right. apply IH; [lia|right; exact H].
Qed.

Lemma merge_sorted : forall fuel a b, StronglySorted Z.lt a -> StronglySorted Z.lt b ->
  StronglySorted Z.lt (merge_u fuel a b).
Proof.
  induction fuel as [|fuel IH]; intros a b Ha Hb; simpl; [constructor|].
  destruct a as [|x a]; [exact Hb|].
  destruct b as [|y b]; [exact Ha|].
  pose proof (StronglySorted_inv Ha) as [Ha1 Ha2].
  pose proof (StronglySorted_inv Hb) as [Hb1 Hb2].
  rewrite Forall_forall in Ha2, Hb2.
  destruct (x <? y) eqn:E1.
  - apply Z.ltb_lt in E1. constructor; [apply IH; assumption|].
    apply Forall_forall. intros z Hz. apply merge_in in Hz. destruct Hz as [Hz|Hz].
    + apply Ha2; exact Hz.
    + destruct Hz as [Hz|Hz]; [lia|]. apply Hb2 in Hz. lia.
  - destruct (y <? x) eqn:E2.
    + apply Z.ltb_lt in E2. constructor; [apply IH; assumption|].
      apply Forall_forall. intros z Hz. apply merge_in in Hz. destruct Hz as [Hz|Hz].
      * destruct Hz as [Hz|Hz]; [lia|]. apply Ha2 in Hz. lia.
      * apply Hb2; exact Hz.
    + apply Z.ltb_ge in E1, E2. assert (x = y) by lia. subst y.
      constructor; [apply IH; assumption|].
      apply Forall_forall. intros z Hz. apply merge_in in Hz. destruct Hz as [Hz|Hz].
      * apply Ha2; exact Hz.
      * apply Hb2; exact Hz.
Qed.

Lemma sorted_snoc : forall l n, StronglySorted Z.lt l -> (forall z, In z l -> z < n) ->
  StronglySorted Z.lt (l ++ [n]).
Proof.
  intros l n H. induction H as [|a l H IH Hall]; intros Hn; simpl.
  - constructor; constructor.
  - constructor.
    + apply IH. intros z Hz. apply Hn. right; exact Hz.
    + apply Forall_app. split; [exact Hall|]. constructor; [|constructor].
      apply Hn. left; reflexivity.
Qed.

Definition merged (n sc tc : Z) : list Z :=
  merge_u (length (multiples_below (Z.to_nat n + 1) 0 sc n)
           + length (multiples_below (Z.to_nat n + 1) 0 tc n) + 1)
          (multiples_below (Z.to_nat n + 1) 0 sc n)
          (multiples_below (Z.to_nat n + 1) 0 tc n).

Lemma boundaries_merged : forall n sc tc, boundaries n sc tc = merged n sc tc ++ [n].
Proof. reflexivity. Qed.

Lemma mb0_spec : forall n step b, 0 < n -> 0 < step ->
  (In b (multiples_below (Z.to_nat n + 1) 0 step n) <-> 0 <= b < n /\ b mod step = 0).
Proof.
  intros n step b Hn Hs. split.
  - intros H. apply mb_in in H; [|assumption]. rewrite Z.sub_0_r in H. exact H.
  - intros [H1 H2]. apply mb_complete; try assumption.
    + rewrite Nat2Z.inj_add, Z2Nat.id by lia. change (Z.of_nat 1) with 1.
      assert ((n + 1) * 1 <= (n + 1) * step) by (apply Z.mul_le_mono_nonneg_l; lia). lia.
    + rewrite Z.sub_0_r. exact H2.
Qed.

Lemma merged_spec : forall n sc tc b, 0 < n -> 0 < sc -> 0 < tc ->
  (In b (merged n sc tc) <-> 0 <= b < n /\ (b mod sc = 0 \/ b mod tc = 0)).
Proof.
  intros n sc tc b Hn Hsc Htc. unfold merged. split.
  - intros H. apply merge_in in H. destruct H as [H|H].
    + apply mb0_spec in H; try assumption. tauto.
    + apply mb0_spec in H; try assumption. tauto.
  - intros [H1 [H2|H2]]; apply merge_complete; try lia.
    + left. apply mb0_spec; auto.
    + right. apply mb0_spec; auto.
Qed.

Theorem boundaries_spec : forall n sc tc b, 0 < n -> 0 < sc -> 0 < tc ->
  (In b (boundaries n sc tc) <-> (b = n \/ (0 <= b < n /\ (b mod sc = 0 \/ b mod tc = 0)))).
Proof.
  intros n sc tc b Hn Hsc Htc. rewrite boundaries_merged, in_app_iff.
  rewrite (merged_spec n sc tc b Hn Hsc Htc). simpl. split.
  - intros [H|[H|[]]]; [right; exact H|left; symmetry; exact H].
  - intros [H|H]; [right; left; symmetry; exact H|left; exact H].
Qed.

Theorem boundaries_sorted : forall n sc tc, 0 < n -> 0 < sc -> 0 < tc ->
  StronglySorted Z.lt (boundaries n sc tc).
Proof.
  intros n sc tc Hn Hsc Htc. rewrite boundaries_merged. apply sorted_snoc.
  - unfold merged. apply merge_sorted; apply mb_sorted; assumption.
  - intros z Hz. apply merged_spec in Hz; try assumption. lia.
Qed.

Lemma boundaries_head : forall n sc tc, 0 < n -> 0 < sc -> 0 < tc ->
  exists t, boundaries n sc tc = 0 :: t.
Proof.
  intros n sc tc Hn Hsc Htc.
  pose proof (boundaries_sorted n sc tc Hn Hsc Htc) as Hs.
  assert (H0 : In 0 (boundaries n sc tc)).
  { apply boundaries_spec; try assumption. right. split; [lia|]. left. apply Z.mod_0_l. lia. }
  assert (Hge : forall z, In z (boundaries n sc tc) -> 0 <= z).
  { intros z Hz. apply boundaries_spec in Hz; try assumption. lia. }
  destruct (boundaries n sc tc) as [|h t]; [contradiction|].
  apply StronglySorted_inv in Hs. destruct Hs as [_ Hs]. rewrite Forall_forall in Hs.
  assert (0 <= h) by (apply Hge; left; reflexivity).
  destruct H0 as [H0|H0].
  - subst h. exists t. reflexivity.
  - apply Hs in H0. lia.
Qed.

Lemma diffs_sum : forall l x, sumz (diffs (x :: l)) = last (x :: l) x - x.
Proof.
  induction l as [|y l IH]; intros x.
  - simpl. lia.
  - change (diffs (x :: y :: l)) with ((y - x) :: diffs (y :: l)).
    change (last (x :: y :: l) x) with (last (y :: l) x).
    change (sumz ((y - x) :: diffs (y :: l))) with ((y - x) + sumz (diffs (y :: l))). rewrite IH.
    rewrite (last_nonempty_indep (y :: l) x y) by discriminate. lia.
Qed.

Lemma diffs_pos : forall l, StronglySorted Z.lt l -> allpos (diffs l).
Proof.
  intros l H. induction H as [|x l H IH Hall]; [constructor|].
  destruct l as [|y l]; [constructor|].
  change (diffs (x :: y :: l)) with ((y - x) :: diffs (y :: l)).
  constructor; [|exact IH]. inversion Hall; subst. lia.
Qed.

Theorem split_sum : forall n sc tc, 0 < n -> 0 < sc -> 0 < tc ->
  sumz (split_chunksizes n sc tc) = n /\ allpos (split_chunksizes n sc tc).
Proof.
  intros n sc tc Hn Hsc Htc. unfold split_chunksizes. split.
  - destruct (boundaries_head n sc tc Hn Hsc Htc) as [t Ht].
    rewrite Ht, diffs_sum, <- Ht, boundaries_merged.
    rewrite last_last. lia.
  - apply diffs_pos. apply boundaries_sorted; assumption.
Qed.

Lemma sorted_adjacent : forall l1 x y l2 z,
  StronglySorted Z.lt (l1 ++ x :: y :: l2) -> In z (l1 ++ x :: y :: l2) ->
  x < y /\ (z <= x \/ y <= z).
Proof.
  induction l1 as [|a l1 IH]; intros x y l2 z Hs Hz.
  - simpl in *. apply StronglySorted_inv in Hs. destruct Hs as [Hs Hx].
    apply StronglySorted_inv in Hs. destruct Hs as [_ Hy].
    rewrite Forall_forall in Hx, Hy.
    assert (x < y) by (apply Hx; left; reflexivity).
    split; [assumption|].
    destruct Hz as [Hz|[Hz|Hz]]; [lia|lia|]. apply Hy in Hz. lia.
  - change ((a :: l1) ++ x :: y :: l2) with (a :: (l1 ++ x :: y :: l2)) in *.
    apply StronglySorted_inv in Hs. destruct Hs as [Hs Ha].
    rewrite Forall_forall in Ha.
    destruct Hz as [Hz|Hz].
    + subst z. destruct (IH x y l2 x Hs) as [Hxy _]; [apply in_elt|].
      split; [assumption|]. left.
      assert (a < x) by (apply Ha; apply in_elt). lia.
    + apply (IH x y l2 z); assumption.
Qed.

Lemma same_block : forall n c x y, 0 < c -> 0 <= x -> x < y -> y <= n ->
  (forall m, 0 <= m < n -> m mod c = 0 -> m <= x \/ y <= m) ->
  x / c = (y - 1) / c.
Proof.
  intros n c x y Hc Hx Hxy Hyn Hno.
  assert (Hle : x / c <= (y - 1) / c) by (apply Z.div_le_mono; lia).
  destruct (Z.eq_dec (x / c) ((y - 1) / c)) as [|Hne]; [assumption|exfalso].
  set (q := (y - 1) / c) in *.
  assert (Hm1 : c * q <= y - 1) by (apply Z.mul_div_le; lia).
  assert (Hx1 : x < c * (x / c + 1)).
  { pose proof (Z_div_mod_eq_full x c). pose proof (Z.mod_pos_bound x c Hc). lia. }
  assert (Hm2 : c * (x / c + 1) <= c * q) by (apply Z.mul_le_mono_nonneg_l; lia).
  destruct (Hno (q * c)) as [H|H].
  - lia.
  - apply Z_mod_mult.
  - lia.
  - lia.
Qed.

Theorem split_refines : forall n sc tc l1 x y l2, 0 < n -> 0 < sc -> 0 < tc ->
  boundaries n sc tc = l1 ++ x :: y :: l2 ->
  x < y /\ x / sc = (y - 1) / sc /\ x / tc = (y - 1) / tc.
Proof.
  intros n sc tc l1 x y l2 Hn Hsc Htc E.
  pose proof (boundaries_sorted n sc tc Hn Hsc Htc) as Hs. rewrite E in Hs.
  assert (Hin : forall z, In z (l1 ++ x :: y :: l2) ->
                  z = n \/ (0 <= z < n /\ (z mod sc = 0 \/ z mod tc = 0))).
  { intros z Hz. rewrite <- E in Hz. apply boundaries_spec in Hz; assumption. }
  assert (Hx : In x (l1 ++ x :: y :: l2)) by apply in_elt.
  assert (Hy : In y (l1 ++ x :: y :: l2)).
  { apply in_or_app. right. right. left. reflexivity. }
  destruct (sorted_adjacent l1 x y l2 x Hs Hx) as [Hxy _].
  apply Hin in Hx. apply Hin in Hy.
  assert (Hno : forall m, 0 <= m < n -> (m mod sc = 0 \/ m mod tc = 0) -> m <= x \/ y <= m).
  { intros m Hm Hd.
    assert (Hmi : In m (l1 ++ x :: y :: l2)).
    { rewrite <- E. apply boundaries_spec; try assumption. right. split; assumption. }
    destruct (sorted_adjacent l1 x y l2 m Hs Hmi) as [_ H]. exact H. }
  split; [assumption|].
  split; apply (same_block n); try assumption; try lia; intros m Hm Hd; apply Hno; auto.
Qed.

(* ---------------------------------------------------------------------------- *)
(* consolidate_chunks                                                             *)
(* ---------------------------------------------------------------------------- *)
Lemma prodz_set_nth : forall l i v, (i < length l)%nat ->
  prodz (set_nth l i v) * nth i l 0 = prodz l * v.
Proof.
  induction l as [|a l IH]; intros [|i] v H; simpl in *; try lia.
  assert (Hi : (i < length l)%nat) by lia.
  specialize (IH i v Hi).
  transitivity (a * (prodz (set_nth l i v) * nth i l 0)); [ring|]. rewrite IH. ring.
Qed.

Lemma nth_set_nth_other : forall l i j v, i <> j -> nth j (set_nth l i v) 0 = nth j l 0.
Proof.
  induction l as [|a l IH]; intros [|i] [|j] v H; simpl; try reflexivity; try congruence.
  apply IH. congruence.
Qed.

Lemma forall2_set_nth_r : forall (R : Z -> Z -> Prop) a b i v,
  Forall2 R a b -> R (nth i a 0) v -> Forall2 R a (set_nth b i v).
Proof.
  intros R a b i v H; revert i. induction H as [|x y a b Hxy H IH]; intros [|i] Hv; simpl in *.
  - constructor.
  - constructor.
  - constructor; assumption.
  - constructor; [assumption|]. apply IH. exact Hv.
Qed.

Lemma forall2_set_nth_l : forall (R : Z -> Z -> Prop) a b i v,
  Forall2 R a b -> R v (nth i b 0) -> Forall2 R (set_nth a i v) b.
Proof.
  intros R a b i v H; revert i. induction H as [|x y a b Hxy H IH]; intros [|i] Hv; simpl in *.
  - constructor.
  - constructor.
  - constructor; assumption.
  - constructor; [assumption|]. apply IH. exact Hv.
Qed.

Lemma allpos_nth : forall l i, allpos l -> (i < length l)%nat -> 0 < nth i l 0.
Proof.
  intros l i H Hi. unfold allpos in H. rewrite Forall_forall in H. apply H. apply nth_In. exact Hi.
Qed.

Lemma le_all_nth : forall a b i, le_all a b -> nth i a 0 <= nth i b 0.
Proof.
  intros a b i H; revert i. induction H; intros [|i]; simpl; try lia. apply IHForall2.
Qed.

Lemma limits_ok_nth : forall shape chunks lims ax lim,
  limits_ok shape chunks lims = true -> length chunks = length shape ->
  limit_val (nth ax shape 0) (nth ax lims None) = Some lim ->
  (ax < length shape)%nat ->
  nth ax chunks 0 <= nth ax shape 0 ->
  nth ax chunks 0 <= Z.min (nth ax shape 0) lim.
Proof.
  induction shape as [|n shape IH]; intros [|c chunks] lims ax lim Hok HL Hlv Hax Hcs;
    simpl in HL, Hax; try lia; try discriminate.
  destruct lims as [|l lims].
  - destruct ax; simpl in Hlv; discriminate.
  - simpl in Hok. apply andb_true_iff in Hok. destruct Hok as [Hl Hok].
    destruct ax as [|ax].
    + simpl in *. destruct l as [cl|]; [|discriminate]. simpl in Hlv.
      destruct (cl =? -1) eqn:E1.
      * inversion Hlv; subst. lia.
      * destruct (n <? cl) eqn:E2.
        -- inversion Hlv; subst. lia.
        -- inversion Hlv; subst. simpl in Hl. rewrite orb_false_r in Hl.
           apply andb_true_iff in Hl. destruct Hl as [A B].
           apply Z.leb_le in A, B. lia.
    + simpl in *. apply IH with (lims := lims); try assumption; lia.
Qed.

Definition cinv (shape chunks : chunksz) (itemsize max_mem : Z) (st : chunksz * Z) : Prop :=
  le_all chunks (fst st) /\ le_all (fst st) shape /\ 1 <= snd st /\
  mem_of itemsize (fst st) * snd st <= max_mem.

Lemma headroom_ok : forall m max_mem, 0 < m -> m <= max_mem ->
  1 <= max_mem / m /\ m * (max_mem / m) <= max_mem.
Proof.
  intros m max_mem Hm Hle. split.
  - apply Z.div_le_lower_bound; lia.
  - apply Z.mul_div_le. exact Hm.
Qed.

Lemma consolidate_axis_inv : forall shape chunks itemsize max_mem lims st ax,
  allpos chunks -> 0 < itemsize -> le_all chunks shape ->
  limits_ok shape chunks lims = true ->
  (ax < length shape)%nat ->
  cinv shape chunks itemsize max_mem st ->
  nth ax (fst st) 0 = nth ax chunks 0 ->
  cinv shape chunks itemsize max_mem (consolidate_axis shape chunks itemsize max_mem lims st ax) /\
  forall j, j <> ax ->
    nth j (fst (consolidate_axis shape chunks itemsize max_mem lims st ax)) 0 = nth j (fst st) 0.
Proof.
  intros shape chunks itemsize max_mem lims [newc h] ax Hpos Hi Hcs Hok Hax Hinv Hnth.
  unfold consolidate_axis.
  destruct (limit_val (nth ax shape 0) (nth ax lims None)) as [lim|] eqn:EL.
  2:{ split; [exact Hinv|]. intros; reflexivity. }
  destruct Hinv as (I1 & I2 & I3 & I4). simpl fst in *. simpl snd in *.
  pose proof (le_all_length _ _ Hcs) as HL.
  pose proof (le_all_length _ _ I1) as HL1.
  assert (Hub : nth ax chunks 0 <= Z.min (nth ax shape 0) lim).
  { eapply limits_ok_nth; eauto. apply le_all_nth; assumption. }
  set (ub := Z.min (nth ax shape 0) lim) in *.
  assert (Hub2 : ub <= nth ax shape 0) by (unfold ub; lia).
  assert (Hca : 0 < nth ax chunks 0) by (apply allpos_nth; [assumption|lia]).
  destruct (mem_of itemsize (set_nth newc ax ub) <? max_mem) eqn:E.
  - apply Z.ltb_lt in E.
    assert (J1 : le_all chunks (set_nth newc ax ub)) by (apply forall2_set_nth_r; assumption).
    assert (J2 : le_all (set_nth newc ax ub) shape) by (apply forall2_set_nth_l; assumption).
    assert (Jp : 0 < mem_of itemsize (set_nth newc ax ub))
      by (apply mem_pos; [assumption|eapply le_all_pos; eauto]).
    split.
    + unfold cinv. simpl fst. simpl snd.
      destruct (headroom_ok _ max_mem Jp) as [K1 K2]; [lia|]. tauto.
    + intros j Hj. simpl fst. apply nth_set_nth_other. congruence.
  - clear E.
    set (v := Z.min (nth ax chunks 0 * h) ub).
    assert (Hv1 : nth ax chunks 0 <= v).
    { assert (nth ax chunks 0 * 1 <= nth ax chunks 0 * h) by (apply Z.mul_le_mono_nonneg_l; lia).
      unfold v. lia. }
    assert (Hv2 : v <= nth ax shape 0) by (unfold v; lia).
    assert (Hv3 : v <= nth ax chunks 0 * h) by (unfold v; lia).
    assert (J1 : le_all chunks (set_nth newc ax v)) by (apply forall2_set_nth_r; assumption).
    assert (J2 : le_all (set_nth newc ax v) shape) by (apply forall2_set_nth_l; assumption).
    assert (Jp : 0 < mem_of itemsize (set_nth newc ax v))
      by (apply mem_pos; [assumption|eapply le_all_pos; eauto]).
    assert (Jn : allpos newc) by (eapply le_all_pos; eauto).
    assert (Jm : mem_of itemsize (set_nth newc ax v) <= max_mem).
    { pose proof (prodz_set_nth newc ax v) as Hp. rewrite Hnth in Hp.
      assert (Hlt : (ax < length newc)%nat) by lia. specialize (Hp Hlt).
      pose proof (prodz_pos newc Jn) as Hpn.
      unfold mem_of in *.
      set (P2 := prodz (set_nth newc ax v)) in *. set (P := prodz newc) in *.
      set (ca := nth ax chunks 0) in *.
      assert (H1 : P * v <= P * (ca * h)) by (apply Z.mul_le_mono_nonneg_l; lia).
      assert (H2 : P2 * ca <= (P * h) * ca) by lia.
      assert (H3 : P2 <= P * h) by (apply Z.mul_le_mono_pos_r with (p := ca); assumption).
      assert (H4 : itemsize * P2 <= itemsize * (P * h)) by (apply Z.mul_le_mono_nonneg_l; lia).
      lia. }
    split.
    + unfold cinv. simpl fst. simpl snd.
      destruct (headroom_ok _ max_mem Jp Jm) as [K1 K2]. tauto.
    + intros j Hj. simpl fst. apply nth_set_nth_other. congruence.
Qed.

Lemma consolidate_fold_inv : forall shape chunks itemsize max_mem lims,
  allpos chunks -> 0 < itemsize -> le_all chunks shape ->
  limits_ok shape chunks lims = true ->
  forall axes st,
  NoDup axes -> (forall a, In a axes -> (a < length shape)%nat) ->
  cinv shape chunks itemsize max_mem st ->
  (forall a, In a axes -> nth a (fst st) 0 = nth a chunks 0) ->
  cinv shape chunks itemsize max_mem
       (fold_left (consolidate_axis shape chunks itemsize max_mem lims) axes st).
Proof.
  intros shape chunks itemsize max_mem lims Hpos Hi Hcs Hok.
  induction axes as [|a axes IH]; intros st Hnd Hlt Hinv Hun; simpl; [exact Hinv|].
  inversion Hnd as [|? ? Hna Hnd']; subst.
  destruct (consolidate_axis_inv shape chunks itemsize max_mem lims st a) as [K1 K2];
    try assumption.
  - apply Hlt. left; reflexivity.
  - apply Hun. left; reflexivity.
  - apply IH; try assumption.
    + intros b Hb. apply Hlt. right; exact Hb.
    + intros b Hb. rewrite K2.
      * apply Hun. right; exact Hb.
      * intros ->. contradiction.
Qed.

Theorem consolidate_bounded : forall shape chunks itemsize max_mem lims c,
  allpos shape -> allpos chunks -> 0 < itemsize -> le_all chunks shape ->
  (match lims with Some l => length l = length shape | None => True end) ->
  consolidate_chunks shape chunks itemsize max_mem lims = POk c ->
  mem_of itemsize c <= max_mem /\ le_all chunks c /\ le_all c shape.
Proof.
  intros shape chunks itemsize max_mem lims c Hs Hc Hi Hcs _ H.
  unfold consolidate_chunks in H.
  set (lims' := match lims with None => map Some shape | Some l => l end) in *.
  destruct (limits_ok shape chunks lims') eqn:Hok; simpl negb in H; cbv iota in H; [|discriminate].
  destruct (max_mem <? mem_of itemsize chunks) eqn:E1; [discriminate|].
  destruct (mem_of itemsize chunks =? 0) eqn:E2; [discriminate|].
  apply Z.ltb_ge in E1. inversion H as [Hc']; clear H. subst c.
  pose proof (mem_pos itemsize chunks Hi Hc) as Hcm.
  destruct (headroom_ok _ max_mem Hcm E1) as [K1 K2].
  match goal with |- mem_of _ (fst ?s) <= _ /\ _ => remember s as st eqn:Est end.
  assert (Hinv : cinv shape chunks itemsize max_mem st).
  { subst st. apply consolidate_fold_inv; try assumption.
    - apply NoDup_rev. apply seq_NoDup.
    - intros a Ha. apply in_rev in Ha. apply in_seq in Ha. lia.
    - unfold cinv. simpl fst. simpl snd. split; [apply le_all_refl|]. tauto.
    - intros; reflexivity. }
  clear Est. destruct st as [cc h]. unfold cinv in Hinv. simpl fst in *. simpl snd in *.
  destruct Hinv as (I1 & I2 & I3 & I4).
  split; [|split; assumption].
  assert (Hp : 0 < mem_of itemsize cc) by (apply mem_pos; [assumption|eapply le_all_pos; eauto]).
  assert (mem_of itemsize cc * 1 <= mem_of itemsize cc * h) by (apply Z.mul_le_mono_nonneg_l; lia).
  lia.
Qed.

(* ---------------------------------------------------------------------------- *)
(* plan_memory                                                                    *)
(* ---------------------------------------------------------------------------- *)
Definition good (shape : chunksz) (itemsize max_mem : Z) (c : chunksz) : Prop :=
  allpos c /\ length c = length shape /\ mem_of itemsize c <= max_mem.

Definition stage_ok (itemsize max_mem : Z) (s : stage) : Prop :=
  mem_of itemsize (fst (fst s)) <= max_mem /\ mem_of itemsize (snd (fst s)) <= max_mem
  /\ mem_of itemsize (snd s) <= max_mem.

Lemma map2_length : forall {A B C} (f : A -> B -> C) a b,
  length a = length b -> length (map2 f a b) = length a.
Proof.
  intros A B C f. induction a as [|x a IH]; intros [|y b] H; simpl in *; try discriminate;
    [reflexivity|]. f_equal. apply IH. congruence.
Qed.

Lemma shared_mem : forall shape itemsize max_mem r w, 0 < itemsize ->
  good shape itemsize max_mem r -> good shape itemsize max_mem w ->
  mem_of itemsize (shared_chunks r w) <= max_mem.
Proof.
  intros shape itemsize max_mem r w Hi (R1 & R2 & R3) (W1 & W2 & W3).
  destruct (shared_le r w) as [S1 _]; [congruence|].
  apply Z.le_trans with (mem_of itemsize r); [|assumption].
  apply mem_monotone; [assumption|apply shared_pos; assumption|assumption].
Qed.

Lemma build_plan_good : forall shape itemsize max_mem, 0 < itemsize ->
  forall ss r w,
  good shape itemsize max_mem r -> Forall (good shape itemsize max_mem) ss ->
  good shape itemsize max_mem w ->
  forall s, In s (build_plan r ss w) -> stage_ok itemsize max_mem s.
Proof.
  intros shape itemsize max_mem Hi.
  induction ss as [|a ss IH]; intros r w Hr Hss Hw s Hs.
  - rewrite build_plan_nil in Hs. destruct Hs as [<-|[]].
    unfold stage_ok; simpl. split; [apply Hr|]. split; [|apply Hw].
    apply (shared_mem shape); assumption.
  - rewrite build_plan_cons in Hs. inversion Hss as [|? ? Ha Hss']; subst.
    destruct Hs as [<-|Hs].
    + unfold stage_ok; simpl. split; [apply Hr|]. split; [|apply Ha].
      apply (shared_mem shape); assumption.
    + apply (IH a w); assumption.
Qed.

Lemma fix_copy_good : forall shape itemsize max_mem r t, 0 < itemsize -> allpos shape ->
  good shape itemsize max_mem r -> good shape itemsize max_mem t ->
  good shape itemsize max_mem (fix_copy_chunks shape r t).
Proof.
  intros shape itemsize max_mem r t Hi Hs (R1 & R2 & R3) (T1 & T2 & T3).
  destruct (fix_copy_spec shape r t Hs R1 T1 R2 T2) as (A & B & C & _).
  split; [assumption|]. split; [assumption|].
  apply Z.le_trans with (mem_of itemsize r); [|assumption].
  apply mem_monotone; assumption.
Qed.

Lemma search_mem : forall regular shape itemsize min_mem max_mem write,
  0 < itemsize -> allpos shape -> good shape itemsize max_mem write ->
  forall budget read prev table plan,
  good shape itemsize max_mem read ->
  Forall (Forall (good shape itemsize max_mem)) table ->
  (match prev with Some (_, p) => forall s, In s p -> stage_ok itemsize max_mem s
                 | None => True end) ->
  search regular shape itemsize min_mem read write prev table budget = POk plan ->
  forall s, In s plan -> stage_ok itemsize max_mem s.
Proof.
  intros regular shape itemsize min_mem max_mem write Hi Hsh Hw.
  induction budget as [|budget IH]; intros read prev table plan Hr Ht Hprev H.
  - destruct table; cbn [search] in H; discriminate.
  - destruct table as [|stages table]; cbn [search] in H; [discriminate|].
    inversion Ht as [|? ? Hst Ht']; subst.
    remember (if regular then fix_copy_chunks shape read (hd write (stages ++ [write])) else read)
      as read' eqn:Er.
    assert (Hr' : good shape itemsize max_mem read').
    { subst read'. destruct regular; [|assumption].
      apply fix_copy_good; try assumption.
      destruct stages as [|s0 stages]; simpl; [assumption|].
      inversion Hst; assumption. }
    assert (Hplan : forall s, In s (build_plan read' stages write) -> stage_ok itemsize max_mem s)
      by (eapply build_plan_good; eauto).
    destruct (min_mem <=? plan_int_mem itemsize (build_plan read' stages write)).
    + inversion H; subst plan. exact Hplan.
    + destruct prev as [[pio pplan]|].
      * destruct (pio <? plan_io shape (build_plan read' stages write)).
        -- inversion H; subst plan. exact Hprev.
        -- eapply IH; [exact Hr'|exact Ht'| |exact H]. exact Hplan.
      * eapply IH; [exact Hr'|exact Ht'| |exact H]. exact Hplan.
Qed.

Theorem plan_memory : forall regular shape source target itemsize min_mem max_mem table plan,
  allpos shape -> allpos source -> allpos target -> 0 < itemsize ->
  le_all source shape -> le_all target shape ->
  Forall (Forall (fun c => allpos c /\ length c = length shape /\ mem_of itemsize c <= max_mem)) table ->
  multistage_plan regular shape source target itemsize min_mem max_mem table = POk plan ->
  forall s, In s plan ->
    mem_of itemsize (fst (fst s)) <= max_mem /\ mem_of itemsize (snd (fst s)) <= max_mem
    /\ mem_of itemsize (snd s) <= max_mem.
Proof.
  intros regular shape source target itemsize min_mem max_mem table plan
         Hsh Hso Hta Hi Hss Hts Htab H.
  unfold multistage_plan in H.
  destruct (negb _); [discriminate|].
  destruct (max_mem <? mem_of itemsize source); [discriminate|].
  destruct (max_mem <? mem_of itemsize target); [discriminate|].
  destruct (max_mem <? min_mem); [discriminate|].
  destruct (consolidate_chunks shape target itemsize max_mem None) as [write|e] eqn:E1;
    [|discriminate].
  destruct (consolidate_chunks shape source itemsize max_mem _) as [read|e] eqn:E2;
    [|discriminate].
  destruct (consolidate_bounded shape target itemsize max_mem None write Hsh Hta Hi Hts I E1)
    as (W1 & W2 & W3).
  assert (Hw : good shape itemsize max_mem write).
  { split; [apply (le_all_pos target); assumption|]. split; [apply le_all_length; assumption|assumption]. }
  assert (HL : length (map2 (fun sc wc : Z => if sc <? wc then Some wc else None) source write)
               = length shape).
  { rewrite map2_length.
    - apply le_all_length; assumption.
    - rewrite (le_all_length _ _ Hss). symmetry. apply le_all_length; assumption. }
  destruct (consolidate_bounded shape source itemsize max_mem
              (Some (map2 (fun sc wc : Z => if sc <? wc then Some wc else None) source write))
              read Hsh Hso Hi Hss HL E2)
    as (R1 & R2 & R3).
  assert (Hr : good shape itemsize max_mem read).
  { split; [apply (le_all_pos source); assumption|]. split; [apply le_all_length; assumption|assumption]. }
  intros s Hs.
  exact (search_mem regular shape itemsize min_mem max_mem write Hi Hsh Hw
           _ read None table plan Hr Htab I H s Hs).
Qed.
