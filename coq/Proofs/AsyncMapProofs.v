From CubedV Require Import Model.Util Model.AsyncMap.
From Coq Require Export Permutation.

Definition repaired (c : cfg) : Prop := fix_starts c = true /\ fix_super c = true.
Definition batch_ok (c : cfg) : Prop := batch c <> Some 0.

(* number of submissions of input i that are (b = true) backups / (b = false) originals *)
Definition nsub (s : st) (i : input) (b : bool) : nat :=
  length (filter (fun x => Nat.eqb (fst (snd x)) i && Bool.eqb (snd (snd x)) b) (submitted s)).

(* ------------------------------------------------------------------ *)
(* basic list helpers                                                   *)
(* ------------------------------------------------------------------ *)

Lemma mem_nat_In : forall x l, mem_nat x l = true <-> In x l.
Proof.
  induction l as [|y l IH]; cbn.
  - split; [discriminate | tauto].
  - rewrite Bool.orb_true_iff, IH, Nat.eqb_eq. split; intros [H|H]; auto.
Qed.

Lemma mem_nat_nIn : forall x l, mem_nat x l = false <-> ~ In x l.
Proof.
  intros x l. rewrite <- mem_nat_In. destruct (mem_nat x l); split; intros H; try congruence;
    try (exfalso; apply H; reflexivity).
Qed.

Lemma In_remove_nat : forall x y l, In y (remove_nat x l) <-> In y l /\ y <> x.
Proof.
  induction l as [|z l IH]; cbn.
  - tauto.
  - destruct (Nat.eqb x z) eqn:E.
    + apply Nat.eqb_eq in E. subst z. rewrite IH. split.
      * intros [H1 H2]; auto.
      * intros [[H|H] H2]; [congruence|auto].
    + apply Nat.eqb_neq in E. cbn. rewrite IH. split.
      * intros [H|[H1 H2]]; [subst; split; auto|auto].
      * intros [[H|H] H2]; auto.
Qed.

Lemma lookup_remove_key : forall B k x (l : list (nat * B)),
  lookup x (remove_key k l) = if Nat.eqb x k then None else lookup x l.
Proof.
  induction l as [|[k' v] l IH]; cbn.
  - destruct (Nat.eqb x k); reflexivity.
  - destruct (Nat.eqb k k') eqn:E.
    + apply Nat.eqb_eq in E. subst k'. rewrite IH.
      destruct (Nat.eqb x k); reflexivity.
    + cbn. rewrite IH. destruct (Nat.eqb x k) eqn:E2; [|reflexivity].
      apply Nat.eqb_eq in E2. subst x. rewrite E. reflexivity.
Qed.

Lemma lookup_In : forall B k (v : B) l, lookup k l = Some v -> In (k, v) l.
Proof.
  induction l as [|[k' v'] l IH]; cbn; [discriminate|].
  destruct (Nat.eqb k k') eqn:E.
  - apply Nat.eqb_eq in E. intros H; inversion H; subst; auto.
  - auto.
Qed.

Lemma lookup_None : forall B k (l : list (nat * B)), lookup k l = None <-> ~ In k (map fst l).
Proof.
  induction l as [|[k' v'] l IH]; cbn.
  - tauto.
  - destruct (Nat.eqb k k') eqn:E.
    + apply Nat.eqb_eq in E. split; [discriminate|]. intros H; exfalso; auto.
    + apply Nat.eqb_neq in E. rewrite IH. split; [intros H [H1|H1]; auto | auto].
Qed.

Lemma lookup_Some_In_fst : forall B k (v : B) l, lookup k l = Some v -> In k (map fst l).
Proof.
  intros. apply lookup_In in H. apply in_map_iff. exists (k, v). auto.
Qed.

Lemma In_lookup : forall B k (v : B) l, NoDup (map fst l) -> In (k, v) l -> lookup k l = Some v.
Proof.
  induction l as [|[k' v'] l IH]; cbn; [tauto|].
  intros Hnd [H|H].
  - inversion H; subst. rewrite Nat.eqb_refl. reflexivity.
  - inversion Hnd; subst. destruct (Nat.eqb k k') eqn:E.
    + apply Nat.eqb_eq in E. subst k'. exfalso. apply H2. apply in_map_iff. exists (k, v). auto.
    + auto.
Qed.

Lemma lookup_app : forall B k (l1 l2 : list (nat * B)),
  lookup k (l1 ++ l2) = match lookup k l1 with Some v => Some v | None => lookup k l2 end.
Proof.
  induction l1 as [|[k' v'] l1 IH]; cbn; intros; [reflexivity|].
  destruct (Nat.eqb k k'); auto.
Qed.

Lemma nodup_snd_inj : forall A B (l : list (A * B)) a a' x,
  NoDup (map snd l) -> In (a, x) l -> In (a', x) l -> a = a'.
Proof.
  induction l as [|[a0 x0] l IH]; cbn; [tauto|].
  intros a a' x Hnd H1 H2. inversion Hnd; subst.
  destruct H1 as [H1|H1], H2 as [H2|H2].
  - congruence.
  - inversion H1; subst. exfalso. apply H3. apply in_map_iff. exists (a', x). auto.
  - inversion H2; subst. exfalso. apply H3. apply in_map_iff. exists (a, x). auto.
  - eauto.
Qed.

Lemma nodup_fst_inj : forall A B (l : list (A * B)) a x x',
  NoDup (map fst l) -> In (a, x) l -> In (a, x') l -> x = x'.
Proof.
  induction l as [|[a0 x0] l IH]; cbn; [tauto|].
  intros a x x' Hnd H1 H2. inversion Hnd; subst.
  destruct H1 as [H1|H1], H2 as [H2|H2].
  - congruence.
  - inversion H1; subst. exfalso. apply H3. apply in_map_iff. exists (a, x'). auto.
  - inversion H2; subst. exfalso. apply H3. apply in_map_iff. exists (a, x). auto.
  - eauto.
Qed.

(* ------------------------------------------------------------------ *)
(* mk_futures, valid_fin, batched                                       *)
(* ------------------------------------------------------------------ *)

Lemma mk_futures_fst : forall l n, map fst (mk_futures n l) = seq n (length l).
Proof. induction l as [|i l IH]; cbn; intros; [reflexivity|]. rewrite IH. reflexivity. Qed.

Lemma mk_futures_snd : forall l n, map snd (mk_futures n l) = l.
Proof. induction l as [|i l IH]; cbn; intros; [reflexivity|]. rewrite IH. reflexivity. Qed.

Lemma mk_futures_length : forall l n, length (mk_futures n l) = length l.
Proof. intros. rewrite <- (map_length fst), mk_futures_fst, seq_length. reflexivity. Qed.

Lemma mk_futures_In : forall l n f i, In (f, i) (mk_futures n l) -> n <= f < n + length l /\ In i l.
Proof.
  intros l n f i H. split.
  - assert (H1 : In f (map fst (mk_futures n l))) by (apply in_map_iff; exists (f, i); auto).
    rewrite mk_futures_fst in H1. apply in_seq in H1. lia.
  - assert (H1 : In i (map snd (mk_futures n l))) by (apply in_map_iff; exists (f, i); auto).
    rewrite mk_futures_snd in H1. exact H1.
Qed.

Lemma mk_futures_nodup : forall l n, NoDup (map fst (mk_futures n l)).
Proof. intros. rewrite mk_futures_fst. apply seq_NoDup. Qed.

Lemma mk_futures_lookup_None : forall l n f, f < n \/ n + length l <= f -> lookup f (mk_futures n l) = None.
Proof.
  intros. apply lookup_None. rewrite mk_futures_fst. rewrite in_seq. lia.
Qed.

Lemma mk_futures_In_snd : forall l n i, In i l -> exists f, In (f, i) (mk_futures n l).
Proof.
  intros l n i H. rewrite <- (mk_futures_snd l n) in H. apply in_map_iff in H.
  destruct H as [[f i'] [H1 H2]]. cbn in H1. subst. eauto.
Qed.

Lemma valid_fin_In : forall p l seen t ok,
  In (t, ok) (valid_fin p seen l) -> In t p /\ ~ In t seen.
Proof.
  induction l as [|[t0 ok0] l IH]; cbn; intros seen t ok H; [tauto|].
  destruct (mem_nat t0 p && negb (mem_nat t0 seen)) eqn:E.
  - apply Bool.andb_true_iff in E. destruct E as [E1 E2].
    apply mem_nat_In in E1. apply Bool.negb_true_iff in E2. apply mem_nat_nIn in E2.
    destruct H as [H|H].
    + inversion H; subst. auto.
    + apply IH in H. destruct H as [H1 H2]. split; auto. intros H3. apply H2. right. exact H3.
  - eauto.
Qed.

Lemma valid_fin_nodup : forall p l seen, NoDup (map fst (valid_fin p seen l)).
Proof.
  induction l as [|[t0 ok0] l IH]; cbn; intros seen; [constructor|].
  destruct (mem_nat t0 p && negb (mem_nat t0 seen)) eqn:E; [|auto].
  cbn. constructor; [|auto].
  intros H. apply in_map_iff in H. destruct H as [[t ok] [H1 H2]]. cbn in H1. subst t.
  apply valid_fin_In in H2. destruct H2 as [_ H2]. apply H2. left. reflexivity.
Qed.

Lemma fold_remove_In : forall (l : list (fid * bool)) p f,
  In f (fold_left (fun p tb => remove_nat (fst tb) p) l p) <-> In f p /\ ~ In f (map fst l).
Proof.
  induction l as [|[t ok] l IH]; cbn; intros p f.
  - tauto.
  - rewrite IH, In_remove_nat. split.
    + intros [[H1 H2] H3]. split; auto. intros [H|H]; auto.
    + intros [H1 H2]. split; [split|]; auto.
Qed.

Lemma batched_fuel_ne : forall fuel l n, 1 <= n -> forall x, In x (batched_fuel fuel l n) -> x <> [].
Proof.
  induction fuel as [|fuel IH]; cbn; intros l n Hn x H; [tauto|].
  destruct l as [|a l]; [tauto|].
  destruct H as [H|H].
  - subst x. destruct n; [lia|]. cbn. discriminate.
  - eapply IH; eauto.
Qed.

Lemma batched_fuel_concat : forall fuel l n, 1 <= n -> length l <= fuel -> concat (batched_fuel fuel l n) = l.
Proof.
  induction fuel as [|fuel IH]; intros l n Hn Hl.
  - destruct l; cbn in *; [reflexivity|lia].
  - destruct l as [|a l]; [reflexivity|].
    change (firstn n (a :: l) ++ concat (batched_fuel fuel (skipn n (a :: l)) n) = a :: l).
    rewrite IH; auto.
    + apply firstn_skipn.
    + rewrite skipn_length. cbn [length] in *. lia.
Qed.

(* ------------------------------------------------------------------ *)
(* retry                                                                *)
(* ------------------------------------------------------------------ *)

Lemma retry_loop_le : forall b o m, fst (retry_loop b o m) <= m + b.
Proof.
  induction b as [|b IH]; cbn; intros o m; [lia|].
  destruct o as [|[|] o]; cbn; try lia.
  specialize (IH o (S m)). lia.
Qed.

Theorem retry_attempts_le : forall r o, fst (retry r o) <= S r.
Proof. intros. unfold retry. pose proof (retry_loop_le (S r) o 0). lia. Qed.

Lemma retry_loop_snd : forall b o m, b <= length o ->
  (snd (retry_loop b o m) = true <-> exists k, k < b /\ nth k o false = true).
Proof.
  induction b as [|b IH]; cbn; intros o m Hl.
  - split; [discriminate|]. intros [k [H _]]. lia.
  - destruct o as [|[|] o]; cbn in *; [lia| |].
    + split; auto. intros _. exists 0. split; [lia|reflexivity].
    + rewrite IH by lia. split.
      * intros [k [H1 H2]]. exists (S k). split; [lia|exact H2].
      * intros [k [H1 H2]]. destruct k as [|k]; [discriminate|]. exists k. split; [lia|exact H2].
Qed.

Theorem retry_succeeds_iff : forall r o, r < length o ->
  (snd (retry r o) = true <-> exists k, k <= r /\ nth k o false = true).
Proof.
  intros r o H. unfold retry. rewrite retry_loop_snd by lia.
  split; intros [k [H1 H2]]; exists k; split; auto; lia.
Qed.

Lemma retry_loop_first : forall b o m k, k < b -> nth k o false = true ->
  (forall j, j < k -> nth j o false = false) -> retry_loop b o m = (S (m + k), true).
Proof.
  induction b as [|b IH]; intros o m k Hk Hn Hj; [lia|].
  destruct o as [|x o]; [destruct k; discriminate|].
  destruct k as [|k].
  - cbn in Hn. subst x. cbn. f_equal. lia.
  - assert (Hx : x = false) by (apply (Hj 0); lia). subst x. cbn.
    rewrite (IH o (S m) k); [f_equal; lia|lia|exact Hn|].
    intros j Hlt. apply (Hj (S j)). lia.
Qed.

Theorem retry_first_success : forall r o k, r < length o -> nth k o false = true ->
  (forall j, j < k -> nth j o false = false) -> k <= r -> retry r o = (S k, true).
Proof.
  intros r o k _ Hn Hj Hk. unfold retry. rewrite (retry_loop_first (S r) o 0 k); auto. lia.
Qed.

(* ------------------------------------------------------------------ *)
(* the invariant                                                        *)
(* ------------------------------------------------------------------ *)

Ltac prj := cbn [next tasks pending backups starts ends superseded cancelled completed
                 batches yielded submitted stat set_stat] in *.

Definition live (p : list fid) (todo : list (fid * bool)) (f : fid) : Prop :=
  In f p \/ In f (map fst todo).

Definition genuine (s : st) (t : fid) : Prop :=
  exists i, lookup t (tasks s) = Some i /\ lookup t (completed s) = Some false /\
    forall f b, In (f, (i, b)) (submitted s) -> lookup f (completed s) = Some false.

Section Inv.
Variable c : cfg.
Variable ins : list input.
Hypothesis Hrep : repaired c.
Hypothesis Hb : batch_ok c.
Hypothesis Hnd : NoDup ins.

Record Safe (s : st) : Prop := {
  S_fst : map fst (submitted s) = rev (seq 0 (next s));
  S_snd : NoDup (map snd (submitted s));
  S_task : forall f i b, In (f, (i, b)) (submitted s) -> lookup f (tasks s) = Some i;
  S_task' : forall f i, lookup f (tasks s) = Some i -> exists b, In (f, (i, b)) (submitted s);
  S_ins : forall f i b, In (f, (i, b)) (submitted s) -> In i ins;
  S_bk : forall f i, In (f, (i, true)) (submitted s) -> exists t, In (t, (i, false)) (submitted s);
  C_nodup : NoDup (map fst (completed s));
  C_lt : forall f, In f (map fst (completed s)) -> f < next s;
  Y_nodup : NoDup (map snd (yielded s));
  Y_ok : forall t i, In (t, i) (yielded s) ->
           lookup t (completed s) = Some true /\ lookup t (tasks s) = Some i;
  St_crash : stat s <> Crashed;
  St_raise : forall t, stat s = Raised t -> genuine s t;
  St_done : stat s = Done -> forall i, In i ins -> In i (map snd (yielded s));
}.

Record Struct (s : st) (todo : list (fid * bool)) : Prop := {
  T_nodup : NoDup (map fst todo);
  T_comp : forall t ok, In (t, ok) todo -> lookup t (completed s) = Some ok;
  T_pend : forall t, In t (map fst todo) -> ~ In t (pending s);
  R_pend : forall f, In f (pending s) -> f < next s;
  R_starts : forall f, f < next s -> In f (starts s);
  R_ends : forall f, In f (ends s) -> f < next s;
  R_super : forall f, In f (superseded s) -> f < next s;
  R_bk : forall x y, lookup x (backups s) = Some y -> x < next s /\ y < next s;
  R_comp : forall f, lookup f (completed s) <> None -> ~ In f (pending s);
  Sup_pend : forall f, In f (superseded s) -> ~ In f (pending s);
  Can_sup : forall f, In f (cancelled s) -> In f (superseded s);
  B_off : use_backups c = false -> backups s = [];
  B_sym : forall x y, lookup x (backups s) = Some y -> lookup y (backups s) = Some x;
  B_irr : forall x y, lookup x (backups s) = Some y -> x <> y;
  B_twin : forall x y, lookup x (backups s) = Some y -> exists i,
     (In (x, (i, false)) (submitted s) /\ In (y, (i, true)) (submitted s)) \/
     (In (y, (i, false)) (submitted s) /\ In (x, (i, true)) (submitted s));
  B_nsup : forall x y, lookup x (backups s) = Some y -> ~ In y (superseded s);
  B_live : forall x y, lookup x (backups s) = Some y ->
     live (pending s) todo y \/ lookup y (completed s) = Some false;
  P1 : forall t, live (pending s) todo t -> ~ In t (superseded s) -> lookup t (backups s) = None ->
     exists i, In (t, (i, false)) (submitted s) /\ forall f, ~ In (f, (i, true)) (submitted s);
  P3 : forall t i, live (pending s) todo t -> ~ In t (superseded s) -> lookup t (tasks s) = Some i ->
     ~ In i (map snd (yielded s));
  P4 : forall t b i, In (t, (i, false)) (submitted s) -> In (b, (i, true)) (submitted s) ->
     lookup t (backups s) = Some b \/
     ((~ live (pending s) todo t \/ In t (superseded s)) /\ (~ live (pending s) todo b \/ In b (superseded s)));
  P5 : forall t i, In (t, (i, false)) (submitted s) ->
     In i (map snd (yielded s)) \/ (live (pending s) todo t /\ ~ In t (superseded s)) \/
     (exists b, lookup t (backups s) = Some b /\ live (pending s) todo b);
  Bt_ne : forall l, In l (batches s) -> l <> [];
  Bt_nodup : NoDup (concat (batches s));
  Bt_fresh : forall i, In i (concat (batches s)) ->
     In i ins /\ forall f b, ~ In (f, (i, b)) (submitted s);
  Bt_cover : forall i, In i ins ->
     In i (concat (batches s)) \/ exists t, In (t, (i, false)) (submitted s);
}.

Definition Inv (s : st) (todo : list (fid * bool)) : Prop :=
  Safe s /\ (stat s = Running -> Struct s todo).

(* consequences of Safe *)
Lemma sub_lt : forall s f x, Safe s -> In (f, x) (submitted s) -> f < next s.
Proof.
  intros s f x HS H.
  assert (H1 : In f (map fst (submitted s))) by (apply in_map_iff; exists (f, x); auto).
  rewrite (S_fst _ HS) in H1. apply in_rev in H1. apply in_seq in H1. lia.
Qed.

Lemma sub_fst_nodup : forall s, Safe s -> NoDup (map fst (submitted s)).
Proof.
  intros s HS. rewrite (S_fst _ HS). apply NoDup_rev. apply seq_NoDup.
Qed.

Lemma task_lt : forall s f i, Safe s -> lookup f (tasks s) = Some i -> f < next s.
Proof.
  intros s f i HS H. apply (S_task' _ HS) in H. destruct H as [b H]. eapply sub_lt; eauto.
Qed.

Lemma lt_task : forall s f, Safe s -> f < next s -> exists i, lookup f (tasks s) = Some i.
Proof.
  intros s f HS H.
  assert (H1 : In f (map fst (submitted s))).
  { rewrite (S_fst _ HS). apply -> in_rev. apply in_seq. lia. }
  apply in_map_iff in H1. destruct H1 as [[f' [i b]] [H1 H2]]. cbn in H1. subst f'.
  exists i. eapply S_task; eauto.
Qed.

(* two submissions of the same input with the same role are the same future *)
Lemma sub_same : forall s f f' i b, Safe s ->
  In (f, (i, b)) (submitted s) -> In (f', (i, b)) (submitted s) -> f = f'.
Proof. intros s f f' i b HS H1 H2. eapply nodup_snd_inj; eauto using S_snd. Qed.

(* a future is submitted in one role only *)
Lemma sub_role : forall s f i i' b b', Safe s ->
  In (f, (i, b)) (submitted s) -> In (f, (i', b')) (submitted s) -> i = i' /\ b = b'.
Proof.
  intros s f i i' b b' HS H1 H2.
  assert (H : (i, b) = (i', b')) by (eapply nodup_fst_inj; eauto using sub_fst_nodup).
  inversion H; auto.
Qed.

Lemma comp_lookup_lt : forall s f, Safe s -> lookup f (completed s) <> None -> f < next s.
Proof.
  intros s f HS H. apply (C_lt _ HS). destruct (lookup f (completed s)) eqn:E; [|congruence].
  eapply lookup_Some_In_fst; eauto.
Qed.

Lemma live_cons : forall s t ok rest f, live (pending s) ((t, ok) :: rest) f <-> f = t \/ live (pending s) rest f.
Proof. unfold live; cbn; intros; split; intros; intuition auto. Qed.

Lemma live_weaken : forall s t ok rest f, live (pending s) rest f -> live (pending s) ((t, ok) :: rest) f.
Proof. intros. apply live_cons. auto. Qed.

(* the head of the todo list leaves without any state change *)
Lemma struct_drop : forall s t ok rest, Safe s -> Struct s ((t, ok) :: rest) ->
  (In t (superseded s) \/
   (ok = false /\ exists b, lookup t (backups s) = Some b /\ live (pending s) rest b)) ->
  Struct s rest.
Proof.
  intros s t ok rest HS H Hc.
  assert (Hnd' : NoDup (t :: map fst rest)) by (apply (T_nodup _ _ H)).
  inversion Hnd' as [|? ? Hnt Hndr]; subst.
  constructor.
  - exact Hndr.
  - intros t' ok' Hin. apply (T_comp _ _ H). right. exact Hin.
  - intros t' Hin. apply (T_pend _ _ H). right. exact Hin.
  - apply (R_pend _ _ H).
  - apply (R_starts _ _ H).
  - apply (R_ends _ _ H).
  - apply (R_super _ _ H).
  - apply (R_bk _ _ H).
  - apply (R_comp _ _ H).
  - apply (Sup_pend _ _ H).
  - apply (Can_sup _ _ H).
  - apply (B_off _ _ H).
  - apply (B_sym _ _ H).
  - apply (B_irr _ _ H).
  - apply (B_twin _ _ H).
  - apply (B_nsup _ _ H).
  - intros x y Hxy. destruct (B_live _ _ H x y Hxy) as [Hl|Hl]; [|auto].
    apply live_cons in Hl. destruct Hl as [Hl|Hl]; [subst y|auto].
    destruct Hc as [Hc|[Hok _]].
    + exfalso. eapply (B_nsup _ _ H); eauto.
    + subst ok. right. apply (T_comp _ _ H). left. reflexivity.
  - intros t' Hl. apply (P1 _ _ H). eapply live_weaken; eauto.
  - intros t' i Hl. apply (P3 _ _ H). eapply live_weaken; eauto.
  - intros t' b i H1 H2. destruct (P4 _ _ H t' b i H1 H2) as [Ho|[Hc1 Hc2]]; [auto|].
    right. split.
    + destruct Hc1 as [Hc1|Hc1]; auto. left. intros Hl. apply Hc1. eapply live_weaken; eauto.
    + destruct Hc2 as [Hc2|Hc2]; auto. left. intros Hl. apply Hc2. eapply live_weaken; eauto.
  - intros t' i Hsub.
    destruct (P5 _ _ H t' i Hsub) as [Hy|[[Hl Hns]|[b [Hb1 Hb2]]]]; [auto| |].
    + apply live_cons in Hl. destruct Hl as [Hl|Hl]; [subst t'|auto].
      destruct Hc as [Hc|[Hok [b [Hb1 Hb2]]]]; [tauto|].
      right. right. exists b. auto.
    + apply live_cons in Hb2. destruct Hb2 as [Hb2|Hb2]; [subst b|eauto].
      (* the live twin was t itself *)
      destruct Hc as [Hc|[Hok [b [Hb3 Hb4]]]].
      * exfalso. eapply (B_nsup _ _ H); eauto.
      * pose proof (B_sym _ _ H _ _ Hb1) as Hs. rewrite Hs in Hb3. inversion Hb3; subst b.
        right. left. split; [exact Hb4|]. eapply (B_nsup _ _ H); eauto.
  - apply (Bt_ne _ _ H).
  - apply (Bt_nodup _ _ H).
  - apply (Bt_fresh _ _ H).
  - apply (Bt_cover _ _ H).
Qed.

Lemma safe_set_stat : forall s x, Safe s -> x <> Crashed ->
  (forall t, x = Raised t -> genuine s t) ->
  (x = Done -> forall i, In i ins -> In i (map snd (yielded s))) ->
  Safe (set_stat s x).
Proof.
  intros s x HS Hx Hr Hd. destruct HS. constructor; prj; auto.
Qed.

Lemma bk_other : forall s todo t b x y, Struct s todo ->
  lookup t (backups s) = Some b -> lookup x (backups s) = Some y ->
  x <> t -> x <> b -> y <> t /\ y <> b.
Proof.
  intros s todo t b x y H Htb Hxy Hxt Hxb. split; intros E; subst y.
  - apply (B_sym _ _ H) in Hxy. congruence.
  - apply (B_sym _ _ H) in Hxy. apply (B_sym _ _ H) in Htb. congruence.
Qed.

(* the two members of a backups entry are exactly the submissions of their input *)
Lemma twin_inputs : forall s todo t b i, Safe s -> Struct s todo ->
  lookup t (backups s) = Some b -> lookup t (tasks s) = Some i ->
  lookup b (tasks s) = Some i /\
  forall f r, In (f, (i, r)) (submitted s) -> f = t \/ f = b.
Proof.
  intros s todo t b i HS H Htb Hti.
  destruct (B_twin _ _ H _ _ Htb) as [i0 [[H1 H2]|[H1 H2]]].
  - assert (i0 = i) by (apply (S_task _ HS) in H1; congruence). subst i0.
    split; [eapply S_task; eauto|].
    intros f [|] Hf; [right|left]; eapply sub_same; eauto.
  - assert (i0 = i) by (apply (S_task _ HS) in H2; congruence). subst i0.
    split; [eapply S_task; eauto|].
    intros f [|] Hf; [left|right]; eapply sub_same; eauto.
Qed.

Lemma not_live_head : forall s t ok rest, Struct s ((t, ok) :: rest) -> ~ live (pending s) rest t.
Proof.
  intros s t ok rest H [Hl|Hl].
  - eapply (T_pend _ _ H); eauto. left. reflexivity.
  - pose proof (T_nodup _ _ H) as Hn. cbn in Hn. inversion Hn; auto.
Qed.

Definition s_yield (s : st) (t : fid) (i : input) : st :=
  {| next := next s; tasks := tasks s; pending := pending s; backups := backups s;
     starts := starts s; ends := t :: ends s; superseded := superseded s;
     cancelled := cancelled s; completed := completed s; batches := batches s;
     yielded := (t, i) :: yielded s; submitted := submitted s; stat := stat s |}.

Lemma safe_yield : forall s t i rest, Safe s -> stat s = Running ->
  Struct s ((t, true) :: rest) -> ~ In t (superseded s) -> lookup t (tasks s) = Some i ->
  Safe (s_yield s t i).
Proof.
  intros s t i rest HS Hrun H Hns Hti.
  assert (Hl : live (pending s) ((t, true) :: rest) t) by (apply live_cons; auto).
  destruct HS. constructor; unfold s_yield; prj; auto.
  - constructor; auto. eapply (P3 _ _ H); eauto.
  - intros t' i' [Hin|Hin]; [|auto]. inversion Hin; subst. split; auto.
    apply (T_comp _ _ H). left. reflexivity.
  - intros t' Hr. congruence.
Qed.

Lemma struct_yield : forall s t i rest, Safe s -> Struct s ((t, true) :: rest) ->
  ~ In t (superseded s) -> lookup t (tasks s) = Some i -> lookup t (backups s) = None ->
  Struct (s_yield s t i) rest.
Proof.
  intros s t i rest HS H Hns Hti Hnb.
  assert (Hnd' : NoDup (t :: map fst rest)) by (apply (T_nodup _ _ H)).
  inversion Hnd' as [|? ? Hnt Hndr]; subst.
  assert (Hlt : live (pending s) ((t, true) :: rest) t) by (apply live_cons; auto).
  pose proof (not_live_head _ _ _ _ H) as Hnl.
  assert (Hny : forall x, lookup x (backups s) = Some t -> False).
  { intros x Hx. apply (B_sym _ _ H) in Hx. congruence. }
  constructor; unfold s_yield; prj.
  - exact Hndr.
  - intros t' ok' Hin. apply (T_comp _ _ H). right. exact Hin.
  - intros t' Hin. apply (T_pend _ _ H). right. exact Hin.
  - apply (R_pend _ _ H).
  - apply (R_starts _ _ H).
  - intros f [Hf|Hf]; [subst f; eapply task_lt; eauto|apply (R_ends _ _ H); auto].
  - apply (R_super _ _ H).
  - apply (R_bk _ _ H).
  - apply (R_comp _ _ H).
  - apply (Sup_pend _ _ H).
  - apply (Can_sup _ _ H).
  - apply (B_off _ _ H).
  - apply (B_sym _ _ H).
  - apply (B_irr _ _ H).
  - apply (B_twin _ _ H).
  - apply (B_nsup _ _ H).
  - intros x y Hxy. destruct (B_live _ _ H x y Hxy) as [Hl|Hl]; [|auto].
    apply live_cons in Hl. destruct Hl as [Hl|Hl]; [subst y; exfalso; eauto|auto].
  - intros t' Hl. apply (P1 _ _ H). eapply live_weaken; eauto.
  - intros t' i' Hl Hns' Hti' [Hi|Hi].
    + cbn in Hi. subst i'.
      destruct (P1 _ _ H t Hlt Hns Hnb) as [i0 [Hs1 Hs2]].
      assert (i0 = i) by (apply (S_task _ HS) in Hs1; congruence). subst i0.
      destruct (S_task' _ HS _ _ Hti') as [[|] Hs3]; [eapply Hs2; eauto|].
      assert (t' = t) by (eapply sub_same; eauto). subst t'. auto.
    + revert Hi. eapply (P3 _ _ H t' i'); eauto. eapply live_weaken; eauto.
  - intros t' b i' H1 H2. destruct (P4 _ _ H t' b i' H1 H2) as [Ho|[Hc1 Hc2]]; [auto|].
    right. split.
    + destruct Hc1 as [Hc1|Hc1]; auto. left. intros Hl. apply Hc1. eapply live_weaken; eauto.
    + destruct Hc2 as [Hc2|Hc2]; auto. left. intros Hl. apply Hc2. eapply live_weaken; eauto.
  - intros t' i' Hsub.
    destruct (P5 _ _ H t' i' Hsub) as [Hy|[[Hl Hns']|[b [Hb1 Hb2]]]].
    + left. right. exact Hy.
    + apply live_cons in Hl. destruct Hl as [Hl|Hl]; [subst t'|auto].
      left. left. cbn. apply (S_task _ HS) in Hsub. congruence.
    + apply live_cons in Hb2. destruct Hb2 as [Hb2|Hb2]; [subst b; exfalso; eauto|eauto].
  - apply (Bt_ne _ _ H).
  - apply (Bt_nodup _ _ H).
  - apply (Bt_fresh _ _ H).
  - apply (Bt_cover _ _ H).
Qed.

Definition s_close (s : st) (t : fid) (i : input) (b : fid) : st :=
  {| next := next s; tasks := tasks s; pending := remove_nat b (pending s);
     backups := remove_key b (remove_key t (backups s));
     starts := starts s; ends := t :: ends s; superseded := b :: superseded s;
     cancelled := if is_done s b then cancelled s else b :: cancelled s;
     completed := completed s; batches := batches s;
     yielded := (t, i) :: yielded s; submitted := submitted s; stat := stat s |}.

Lemma safe_close : forall s t i b rest, Safe s -> stat s = Running ->
  Struct s ((t, true) :: rest) -> ~ In t (superseded s) -> lookup t (tasks s) = Some i ->
  Safe (s_close s t i b).
Proof.
  intros s t i b rest HS Hrun H Hns Hti.
  assert (Hl : live (pending s) ((t, true) :: rest) t) by (apply live_cons; auto).
  destruct HS. constructor; unfold s_close; prj; auto.
  - constructor; auto. eapply (P3 _ _ H); eauto.
  - intros t' i' [Hin|Hin]; [|auto]. inversion Hin; subst. split; auto.
    apply (T_comp _ _ H). left. reflexivity.
  - intros t' Hr. congruence.
Qed.

Lemma lookup_close : forall (l : list (fid * fid)) t b x y,
  lookup x (remove_key b (remove_key t l)) = Some y ->
  x <> t /\ x <> b /\ lookup x l = Some y.
Proof.
  intros l t b x y. rewrite !lookup_remove_key.
  destruct (Nat.eqb x b) eqn:E1; [discriminate|].
  destruct (Nat.eqb x t) eqn:E2; [discriminate|].
  apply Nat.eqb_neq in E1. apply Nat.eqb_neq in E2. auto.
Qed.

Lemma lookup_close' : forall (l : list (fid * fid)) t b x,
  x <> t -> x <> b -> lookup x (remove_key b (remove_key t l)) = lookup x l.
Proof.
  intros l t b x H1 H2. rewrite !lookup_remove_key.
  apply Nat.eqb_neq in H1. apply Nat.eqb_neq in H2. rewrite H1, H2. reflexivity.
Qed.

Lemma live_remove : forall p b todo f, live (remove_nat b p) todo f -> live p todo f.
Proof. unfold live. intros p b todo f [H|H]; auto. apply In_remove_nat in H. tauto. Qed.

Lemma live_remove' : forall p b todo f, f <> b -> live p todo f -> live (remove_nat b p) todo f.
Proof. unfold live. intros p b todo f Hne [H|H]; auto. left. apply In_remove_nat. auto. Qed.

Lemma struct_close : forall s t i b rest, Safe s -> Struct s ((t, true) :: rest) ->
  ~ In t (superseded s) -> lookup t (tasks s) = Some i -> lookup t (backups s) = Some b ->
  Struct (s_close s t i b) rest.
Proof.
  intros s t i b rest HS H Hns Hti Htb.
  assert (Hnd' : NoDup (t :: map fst rest)) by (apply (T_nodup _ _ H)).
  inversion Hnd' as [|? ? Hnt Hndr]; subst.
  pose proof (not_live_head _ _ _ _ H) as Hnl.
  pose proof (B_sym _ _ H _ _ Htb) as Hbt.
  pose proof (B_irr _ _ H _ _ Htb) as Hne.
  destruct (twin_inputs _ _ _ _ _ HS H Htb Hti) as [Hbi Htw].
  assert (Hw : forall f, live (remove_nat b (pending s)) rest f ->
               live (pending s) ((t, true) :: rest) f).
  { intros f Hf. eapply live_weaken. eapply live_remove; eauto. }
  assert (Hnl' : ~ live (remove_nat b (pending s)) rest t).
  { intros Hf. apply Hnl. eapply live_remove; eauto. }
  constructor; unfold s_close; prj.
  - exact Hndr.
  - intros t' ok' Hin. apply (T_comp _ _ H). right. exact Hin.
  - intros t' Hin Hp. apply In_remove_nat in Hp. eapply (T_pend _ _ H); [right|]; eauto. tauto.
  - intros f Hf. apply In_remove_nat in Hf. apply (R_pend _ _ H). tauto.
  - apply (R_starts _ _ H).
  - intros f [Hf|Hf]; [subst f; eapply task_lt; eauto|apply (R_ends _ _ H); auto].
  - intros f [Hf|Hf]; [subst f; eapply (R_bk _ _ H); eauto|apply (R_super _ _ H); auto].
  - intros x y Hxy. apply lookup_close in Hxy. apply (R_bk _ _ H). tauto.
  - intros f Hf Hp. apply In_remove_nat in Hp. eapply (R_comp _ _ H); eauto. tauto.
  - intros f [Hf|Hf] Hp; apply In_remove_nat in Hp; [subst; tauto|].
    eapply (Sup_pend _ _ H); eauto. tauto.
  - intros f Hf. destruct (is_done s b).
    + right. apply (Can_sup _ _ H). exact Hf.
    + destruct Hf as [Hf|Hf]; [left; exact Hf|right; apply (Can_sup _ _ H); exact Hf].
  - intros Hoff. rewrite (B_off _ _ H Hoff) in Htb. discriminate.
  - intros x y Hxy. apply lookup_close in Hxy. destruct Hxy as [Hx1 [Hx2 Hxy]].
    destruct (bk_other _ _ _ _ _ _ H Htb Hxy Hx1 Hx2) as [Hy1 Hy2].
    rewrite lookup_close'; auto. apply (B_sym _ _ H). exact Hxy.
  - intros x y Hxy. apply lookup_close in Hxy. apply (B_irr _ _ H). tauto.
  - intros x y Hxy. apply lookup_close in Hxy. apply (B_twin _ _ H). tauto.
  - intros x y Hxy. apply lookup_close in Hxy. destruct Hxy as [Hx1 [Hx2 Hxy]].
    destruct (bk_other _ _ _ _ _ _ H Htb Hxy Hx1 Hx2) as [Hy1 Hy2].
    intros [Hs|Hs]; [congruence|]. eapply (B_nsup _ _ H); eauto.
  - intros x y Hxy. apply lookup_close in Hxy. destruct Hxy as [Hx1 [Hx2 Hxy]].
    destruct (bk_other _ _ _ _ _ _ H Htb Hxy Hx1 Hx2) as [Hy1 Hy2].
    destruct (B_live _ _ H x y Hxy) as [Hl|Hl]; [|auto].
    apply live_cons in Hl. destruct Hl as [Hl|Hl]; [congruence|].
    left. apply live_remove'; auto.
  - intros t' Hl Hns' Hlk.
    assert (t' <> b) by (intros E; apply Hns'; left; auto).
    assert (t' <> t) by (intros E; subst t'; auto).
    assert (Hns0 : ~ In t' (superseded s)) by (intros E; apply Hns'; right; auto).
    rewrite lookup_close' in Hlk by auto.
    apply (P1 _ _ H); auto.
  - intros t' i' Hl Hns' Hti' Hi.
    assert (t' <> b) by (intros E; apply Hns'; left; auto).
    assert (t' <> t) by (intros E; subst t'; auto).
    assert (Hns0 : ~ In t' (superseded s)) by (intros E; apply Hns'; right; auto).
    destruct Hi as [Hi|Hi].
    + cbn in Hi. subst i'. destruct (S_task' _ HS _ _ Hti') as [r Hr].
      destruct (Htw _ _ Hr); congruence.
    + revert Hi. eapply (P3 _ _ H t' i'); eauto.
  - intros t' b' i' H1 H2. destruct (P4 _ _ H t' b' i' H1 H2) as [Ho|[Hc1 Hc2]].
    + destruct (Nat.eq_dec t' t) as [E1|E1]; [|destruct (Nat.eq_dec t' b) as [E2|E2]].
      * subst t'. assert (b' = b) by congruence. subst b'.
        right. split; [left; exact Hnl'|right; left; reflexivity].
      * subst t'. assert (b' = t) by congruence. subst b'.
        right. split; [right; left; reflexivity|left; exact Hnl'].
      * left. rewrite lookup_close'; auto.
    + right. split.
      * destruct Hc1 as [Hc1|Hc1]; [left; intros Hl; apply Hc1; auto|right; right; auto].
      * destruct Hc2 as [Hc2|Hc2]; [left; intros Hl; apply Hc2; auto|right; right; auto].
  - intros t' i' Hsub.
    destruct (Nat.eq_dec t' t) as [E1|E1]; [|destruct (Nat.eq_dec t' b) as [E2|E2]].
    + subst t'. left. left. cbn. apply (S_task _ HS) in Hsub. congruence.
    + subst t'. left. left. cbn. apply (S_task _ HS) in Hsub. congruence.
    + destruct (P5 _ _ H t' i' Hsub) as [Hy|[[Hl Hns']|[b0 [Hb1 Hb2]]]].
      * left. right. exact Hy.
      * apply live_cons in Hl. destruct Hl as [Hl|Hl]; [congruence|].
        right. left. split; [apply live_remove'; auto|].
        intros [Hs|Hs]; [congruence|auto].
      * destruct (bk_other _ _ _ _ _ _ H Htb Hb1 E1 E2) as [Hy1 Hy2].
        right. right. exists b0. split; [rewrite lookup_close'; auto|].
        apply live_cons in Hb2. destruct Hb2 as [Hb2|Hb2]; [congruence|].
        apply live_remove'; auto.
  - apply (Bt_ne _ _ H).
  - apply (Bt_nodup _ _ H).
  - apply (Bt_fresh _ _ H).
  - apply (Bt_cover _ _ H).
Qed.

Lemma on_success_eq : forall s t i, fix_super c = true -> lookup t (tasks s) = Some i ->
  on_success c s t =
  if use_backups c then
    match lookup t (backups s) with None => s_yield s t i | Some b => s_close s t i b end
  else s_yield s t i.
Proof.
  intros s t i Hf Hti. unfold on_success. rewrite Hti. prj. rewrite Hf.
  destruct (use_backups c); [|reflexivity].
  destruct (lookup t (backups s)); reflexivity.
Qed.

Lemma todo_task : forall s t ok rest, Safe s -> Struct s ((t, ok) :: rest) ->
  exists i, lookup t (tasks s) = Some i.
Proof.
  intros s t ok rest HS H. apply lt_task; auto. apply comp_lookup_lt; auto.
  rewrite (T_comp _ _ H t ok) by (left; reflexivity). discriminate.
Qed.

Lemma fail_wait : forall s t rest b, Safe s -> Struct s ((t, false) :: rest) ->
  lookup t (backups s) = Some b -> lookup b (completed s) <> Some false -> Struct s rest.
Proof.
  intros s t rest b HS H Htb Hc. eapply struct_drop; eauto.
  right. split; [reflexivity|]. exists b. split; [exact Htb|].
  destruct (B_live _ _ H _ _ Htb) as [Hl|Hl]; [|congruence].
  apply live_cons in Hl. destruct Hl as [Hl|Hl]; [|exact Hl].
  exfalso. eapply (B_irr _ _ H); eauto.
Qed.

Lemma genuine_twin : forall s t rest b, Safe s -> Struct s ((t, false) :: rest) ->
  lookup t (backups s) = Some b -> lookup b (completed s) = Some false -> genuine s t.
Proof.
  intros s t rest b HS H Htb Hc.
  destruct (todo_task _ _ _ _ HS H) as [i Hti].
  destruct (twin_inputs _ _ _ _ _ HS H Htb Hti) as [Hbi Htw].
  assert (Htc : lookup t (completed s) = Some false) by (apply (T_comp _ _ H); left; reflexivity).
  exists i. split; [exact Hti|]. split; [exact Htc|].
  intros f r Hf. destruct (Htw _ _ Hf); subst; auto.
Qed.

Lemma genuine_single : forall s t rest, Safe s -> Struct s ((t, false) :: rest) ->
  ~ In t (superseded s) -> lookup t (backups s) = None -> genuine s t.
Proof.
  intros s t rest HS H Hns Hnb.
  assert (Hl : live (pending s) ((t, false) :: rest) t) by (apply live_cons; auto).
  destruct (P1 _ _ H t Hl Hns Hnb) as [i [Hs1 Hs2]].
  assert (Htc : lookup t (completed s) = Some false) by (apply (T_comp _ _ H); left; reflexivity).
  exists i. split; [eapply S_task; eauto|]. split; [exact Htc|].
  intros f [|] Hf; [exfalso; eapply Hs2; eauto|].
  assert (f = t) by (eapply sub_same; eauto). subst f. exact Htc.
Qed.

Lemma inv_frozen : forall s todo todo', stat s <> Running -> Inv s todo -> Inv s todo'.
Proof. intros s todo todo' Hs [HS _]. split; [exact HS|]. intros; congruence. Qed.

Lemma inv_raise : forall s t todo, Safe s -> genuine s t -> Inv (set_stat s (Raised t)) todo.
Proof.
  intros s t todo HS Hg. split.
  - apply safe_set_stat; auto; try discriminate. intros t' E. inversion E; subst; auto.
  - prj. discriminate.
Qed.

Lemma on_finished_inv : forall s t ok rest,
  Inv s ((t, ok) :: rest) -> Inv (on_finished c s (t, ok)) rest.
Proof.
  intros s t ok rest HI. unfold on_finished.
  destruct (stat s) eqn:Hst; try (eapply inv_frozen; eauto; congruence).
  destruct HI as [HS HR]. specialize (HR Hst).
  destruct Hrep as [_ Hfs]. rewrite Hfs. cbn [andb].
  destruct (mem_nat t (superseded s)) eqn:Em.
  { apply mem_nat_In in Em. split; [exact HS|]. intros _. eapply struct_drop; eauto. }
  apply mem_nat_nIn in Em.
  destruct ok.
  - destruct (todo_task _ _ _ _ HS HR) as [i Hti].
    rewrite (on_success_eq _ _ _ Hfs Hti).
    destruct (use_backups c) eqn:Eub.
    + destruct (lookup t (backups s)) as [b|] eqn:Eb.
      * split; [eapply safe_close; eauto|]. intros _. eapply struct_close; eauto.
      * split; [eapply safe_yield; eauto|]. intros _. eapply struct_yield; eauto.
    + assert (Eb : lookup t (backups s) = None) by (rewrite (B_off _ _ HR Eub); reflexivity).
      split; [eapply safe_yield; eauto|]. intros _. eapply struct_yield; eauto.
  - destruct (lookup t (backups s)) as [b|] eqn:Eb.
    + destruct (is_done s b) eqn:Ed; cbn [negb].
      * destruct (mem_nat b (cancelled s)) eqn:Ec.
        { apply mem_nat_In in Ec. exfalso. eapply (B_nsup _ _ HR); eauto.
          apply (Can_sup _ _ HR). exact Ec. }
        destruct (lookup b (completed s)) as [[|]|] eqn:Ecb.
        -- split; [exact HS|]. intros _. eapply fail_wait; eauto. congruence.
        -- eapply inv_raise; eauto. eapply genuine_twin; eauto.
        -- split; [exact HS|]. intros _. eapply fail_wait; eauto. congruence.
      * split; [exact HS|]. intros _. eapply fail_wait; eauto.
        unfold is_done in Ed. destruct (lookup b (completed s)); congruence.
    + eapply inv_raise; eauto. eapply genuine_single; eauto.
Qed.

Lemma fold_on_finished_inv : forall l s, Inv s l -> Inv (fold_left (on_finished c) l s) [].
Proof.
  induction l as [|[t ok] l IH]; cbn [fold_left]; intros s HI; [exact HI|].
  apply IH. apply on_finished_inv. exact HI.
Qed.

Lemma nodup_app : forall A (l1 l2 : list A), NoDup l1 -> NoDup l2 ->
  (forall x, In x l1 -> ~ In x l2) -> NoDup (l1 ++ l2).
Proof.
  induction l1 as [|a l1 IH]; cbn; intros l2 H1 H2 Hd; [exact H2|].
  inversion H1; subst. constructor.
  - intros Hin. apply in_app_or in Hin. destruct Hin as [Hin|Hin]; [auto|].
    eapply Hd; eauto.
  - apply IH; auto.
Qed.

(* the finished futures move from [pending] to the todo list *)
Definition s_wake (s : st) (fin' : list (fid * bool)) : st :=
  {| next := next s; tasks := tasks s;
     pending := fold_left (fun p tb => remove_nat (fst tb) p) fin' (pending s);
     backups := backups s; starts := starts s; ends := ends s;
     superseded := superseded s; cancelled := cancelled s;
     completed := fin' ++ completed s; batches := batches s; yielded := yielded s;
     submitted := submitted s; stat := stat s |}.

Section Wake.
Variable s : st.
Variable fin' : list (fid * bool).
Hypothesis HS : Safe s.
Hypothesis H : Struct s [].
Hypothesis Hrun : stat s = Running.
Hypothesis V1 : forall t ok, In (t, ok) fin' -> In t (pending s).
Hypothesis V2 : NoDup (map fst fin').

Lemma V1' : forall t, In t (map fst fin') -> In t (pending s).
Proof. intros t Ht. apply in_map_iff in Ht. destruct Ht as [[t' ok] [E Ht]]. cbn in E. subst. eauto. Qed.

Lemma live_wake : forall f, live (pending s) [] f <-> live (pending (s_wake s fin')) fin' f.
Proof.
  intros f. unfold live, s_wake; prj. rewrite fold_remove_In. cbn [map]. split.
  - intros [Hf|[]]. destruct (in_dec Nat.eq_dec f (map fst fin')); auto.
  - intros [[Hf _]|Hf]; [auto|]. left. apply V1'. exact Hf.
Qed.

Lemma lookup_wake_old : forall f, lookup f (completed s) <> None -> lookup f fin' = None.
Proof.
  intros f Hf. apply lookup_None. intros Hin. apply V1' in Hin.
  eapply (R_comp _ _ H); eauto.
Qed.

Lemma lookup_wake : forall f v, lookup f (completed s) = Some v ->
  lookup f (fin' ++ completed s) = Some v.
Proof.
  intros f v Hf. rewrite lookup_app, lookup_wake_old; [exact Hf|congruence].
Qed.

Lemma safe_wake : Safe (s_wake s fin').
Proof.
  destruct HS. constructor; unfold s_wake; prj; auto.
  - rewrite map_app. apply nodup_app; auto.
    intros x Hx Hc. apply V1' in Hx. eapply (R_comp _ _ H); eauto.
    apply in_map_iff in Hc. destruct Hc as [[x' v] [E Hc]]. cbn in E. subst x'.
    rewrite (In_lookup _ _ _ _ C_nodup0 Hc). discriminate.
  - intros f Hf. rewrite map_app in Hf. apply in_app_or in Hf. destruct Hf as [Hf|Hf]; auto.
    apply (R_pend _ _ H). apply V1'. exact Hf.
  - intros t i Hy. destruct (Y_ok0 _ _ Hy) as [Hy1 Hy2]. split; auto. apply lookup_wake. exact Hy1.
  - intros t Ht. congruence.
Qed.

Lemma struct_wake : Struct (s_wake s fin') fin'.
Proof.
  pose proof live_wake as Hlw.
  constructor; unfold s_wake in *; prj.
  - exact V2.
  - intros t ok Hin. rewrite lookup_app. rewrite (In_lookup _ _ _ _ V2 Hin). reflexivity.
  - intros t Hin Hp. apply fold_remove_In in Hp. tauto.
  - intros f Hf. apply fold_remove_In in Hf. apply (R_pend _ _ H). tauto.
  - apply (R_starts _ _ H).
  - apply (R_ends _ _ H).
  - apply (R_super _ _ H).
  - apply (R_bk _ _ H).
  - intros f Hf Hp. apply fold_remove_In in Hp. destruct Hp as [Hp1 Hp2].
    rewrite lookup_app in Hf. destruct (lookup f fin') eqn:E.
    + apply Hp2. eapply lookup_Some_In_fst; eauto.
    + eapply (R_comp _ _ H); eauto.
  - intros f Hf Hp. apply fold_remove_In in Hp. eapply (Sup_pend _ _ H); eauto. tauto.
  - apply (Can_sup _ _ H).
  - apply (B_off _ _ H).
  - apply (B_sym _ _ H).
  - apply (B_irr _ _ H).
  - apply (B_twin _ _ H).
  - apply (B_nsup _ _ H).
  - intros x y Hxy. destruct (B_live _ _ H x y Hxy) as [Hl|Hl].
    + left. apply Hlw. exact Hl.
    + right. apply lookup_wake. exact Hl.
  - intros t Hl. apply (P1 _ _ H). apply Hlw. exact Hl.
  - intros t i Hl. apply (P3 _ _ H). apply Hlw. exact Hl.
  - intros t b i H1 H2. destruct (P4 _ _ H t b i H1 H2) as [Ho|[Hc1 Hc2]]; [auto|].
    right. split.
    + destruct Hc1 as [Hc1|Hc1]; auto. left. intros Hl. apply Hc1. apply Hlw. exact Hl.
    + destruct Hc2 as [Hc2|Hc2]; auto. left. intros Hl. apply Hc2. apply Hlw. exact Hl.
  - intros t i Hsub.
    destruct (P5 _ _ H t i Hsub) as [Hy|[[Hl Hns]|[b [Hb1 Hb2]]]]; [auto| |].
    + right. left. split; auto. apply Hlw. exact Hl.
    + right. right. exists b. split; auto. apply Hlw. exact Hb2.
  - apply (Bt_ne _ _ H).
  - apply (Bt_nodup _ _ H).
  - apply (Bt_fresh _ _ H).
  - apply (Bt_cover _ _ H).
Qed.
End Wake.

(* ------------------------------------------------------------------ *)
(* the backup loop                                                      *)
(* ------------------------------------------------------------------ *)

Definition s_launch (s : st) (t : fid) (i : input) : st :=
  {| next := S (next s); tasks := (next s, i) :: tasks s; pending := next s :: pending s;
     backups := (t, next s) :: (next s, t) :: backups s;
     starts := next s :: starts s; ends := ends s; superseded := superseded s;
     cancelled := cancelled s; completed := completed s; batches := batches s;
     yielded := yielded s; submitted := (next s, (i, true)) :: submitted s; stat := stat s |}.

Lemma launch_cases : forall (l : list (fid * fid)) t f x y,
  lookup x ((t, f) :: (f, t) :: l) = Some y ->
  (x = t /\ y = f) \/ (x = f /\ y = t) \/ (x <> t /\ x <> f /\ lookup x l = Some y).
Proof.
  intros l t f x y. cbn [lookup].
  destruct (Nat.eqb x t) eqn:E1.
  - apply Nat.eqb_eq in E1. intros E. inversion E. auto.
  - apply Nat.eqb_neq in E1. destruct (Nat.eqb x f) eqn:E2.
    + apply Nat.eqb_eq in E2. intros E. inversion E. auto.
    + apply Nat.eqb_neq in E2. auto.
Qed.

Lemma launch_other : forall (l : list (fid * fid)) t f x,
  x <> t -> x <> f -> lookup x ((t, f) :: (f, t) :: l) = lookup x l.
Proof.
  intros l t f x H1 H2. cbn [lookup].
  apply Nat.eqb_neq in H1. apply Nat.eqb_neq in H2. rewrite H1, H2. reflexivity.
Qed.

Lemma lookup_cons_ne : forall B (l : list (nat * B)) k v x, x <> k -> lookup x ((k, v) :: l) = lookup x l.
Proof. intros. cbn [lookup]. apply Nat.eqb_neq in H. rewrite H. reflexivity. Qed.

Lemma lookup_cons_eq : forall B (l : list (nat * B)) k v, lookup k ((k, v) :: l) = Some v.
Proof. intros. cbn [lookup]. rewrite Nat.eqb_refl. reflexivity. Qed.

Lemma live_consp : forall p f x, live (f :: p) [] x <-> x = f \/ live p [] x.
Proof. unfold live; cbn; intros; split; intros; intuition auto. Qed.

Section Launch.
Variable s : st.
Variable t : fid.
Variable i : input.
Hypothesis HS : Safe s.
Hypothesis H : Struct s [].
Hypothesis Hrun : stat s = Running.
Hypothesis Hub : use_backups c = true.
Hypothesis Htp : In t (pending s).
Hypothesis Htb : lookup t (backups s) = None.
Hypothesis Hti : lookup t (tasks s) = Some i.

Lemma L_ns : ~ In t (superseded s).
Proof. intros E. eapply (Sup_pend _ _ H); eauto. Qed.

Lemma L_live : live (pending s) [] t.
Proof. left. exact Htp. Qed.

Lemma L_lt : t < next s.
Proof. apply (R_pend _ _ H). exact Htp. Qed.

Lemma L_sub : In (t, (i, false)) (submitted s) /\ forall f, ~ In (f, (i, true)) (submitted s).
Proof.
  destruct (P1 _ _ H t L_live L_ns Htb) as [i0 [H1 H2]].
  assert (i0 = i) by (apply (S_task _ HS) in H1; congruence). subst i0. auto.
Qed.

Lemma safe_launch : Safe (s_launch s t i).
Proof.
  destruct L_sub as [Hs1 Hs2]. pose proof L_lt as Hlt.
  constructor; unfold s_launch; prj.
  - cbn [map fst]. rewrite (S_fst _ HS). rewrite seq_S, rev_app_distr. reflexivity.
  - cbn [map snd]. constructor; [|apply (S_snd _ HS)].
    intros Hin. apply in_map_iff in Hin. destruct Hin as [[f [i' b]] [E Hin]]. cbn in E.
    inversion E; subst. eapply Hs2; eauto.
  - intros f i' b [E|Hin].
    + inversion E; subst. apply lookup_cons_eq.
    + rewrite lookup_cons_ne; [eapply S_task; eauto|].
      apply (sub_lt _ _ _ HS) in Hin. lia.
  - intros f i'. destruct (Nat.eq_dec f (next s)) as [E|E].
    + subst f. rewrite lookup_cons_eq. intros E. inversion E; subst. exists true. left. reflexivity.
    + rewrite lookup_cons_ne by auto. intros Hl. destruct (S_task' _ HS _ _ Hl) as [b Hb'].
      exists b. right. exact Hb'.
  - intros f i' b [E|Hin].
    + inversion E; subst. eapply S_ins; eauto.
    + eapply S_ins; eauto.
  - intros f i' [E|Hin].
    + inversion E; subst. exists t. right. exact Hs1.
    + destruct (S_bk _ HS _ _ Hin) as [t' Ht']. exists t'. right. exact Ht'.
  - apply (C_nodup _ HS).
  - intros f Hf. apply (C_lt _ HS) in Hf. lia.
  - apply (Y_nodup _ HS).
  - intros t' i' Hy. destruct (Y_ok _ HS _ _ Hy) as [Hy1 Hy2]. split; auto.
    rewrite lookup_cons_ne; auto. apply (task_lt _ _ _ HS) in Hy2. lia.
  - rewrite Hrun. discriminate.
  - intros t' E. congruence.
  - intros E. congruence.
Qed.

Lemma struct_launch : Struct (s_launch s t i) [].
Proof.
  destruct L_sub as [Hs1 Hs2]. pose proof L_lt as Hlt. pose proof L_ns as Hns.
  assert (Hfb : forall x y, lookup x (backups s) = Some y -> x <> next s /\ y <> next s /\ x <> t /\ y <> t).
  { intros x y Hxy. destruct (R_bk _ _ H _ _ Hxy) as [Hx Hy].
    repeat split; try lia; intros E; subst.
    - congruence.
    - apply (B_sym _ _ H) in Hxy. congruence. }
  constructor; unfold s_launch; prj.
  - constructor.
  - intros t' ok [].
  - intros t' [].
  - intros f [E|Hf]; [lia|]. apply (R_pend _ _ H) in Hf. lia.
  - intros f Hf. destruct (Nat.eq_dec f (next s)); [left; auto|right].
    apply (R_starts _ _ H). lia.
  - intros f Hf. apply (R_ends _ _ H) in Hf. lia.
  - intros f Hf. apply (R_super _ _ H) in Hf. lia.
  - intros x y Hxy. apply launch_cases in Hxy.
    destruct Hxy as [[E1 E2]|[[E1 E2]|[E1 [E2 Hxy]]]]; subst; try lia.
    apply (R_bk _ _ H) in Hxy. lia.
  - intros f Hf [E|Hp].
    + apply (comp_lookup_lt _ _ HS) in Hf. lia.
    + eapply (R_comp _ _ H); eauto.
  - intros f Hf [E|Hp].
    + apply (R_super _ _ H) in Hf. lia.
    + eapply (Sup_pend _ _ H); eauto.
  - apply (Can_sup _ _ H).
  - intros E. congruence.
  - intros x y Hxy. apply launch_cases in Hxy.
    destruct Hxy as [[E1 E2]|[[E1 E2]|[E1 [E2 Hxy]]]]; subst.
    + rewrite lookup_cons_ne by lia. apply lookup_cons_eq.
    + apply lookup_cons_eq.
    + destruct (Hfb _ _ Hxy) as [_ [Hy1 [_ Hy2]]].
      rewrite launch_other; auto. apply (B_sym _ _ H). exact Hxy.
  - intros x y Hxy. apply launch_cases in Hxy.
    destruct Hxy as [[E1 E2]|[[E1 E2]|[E1 [E2 Hxy]]]]; subst; try lia.
    eapply (B_irr _ _ H); eauto.
  - intros x y Hxy. apply launch_cases in Hxy.
    destruct Hxy as [[E1 E2]|[[E1 E2]|[E1 [E2 Hxy]]]]; subst.
    + exists i. left. split; [right; exact Hs1|left; reflexivity].
    + exists i. right. split; [right; exact Hs1|left; reflexivity].
    + destruct (B_twin _ _ H _ _ Hxy) as [i' [[H1 H2]|[H1 H2]]]; exists i'; [left|right];
        split; right; assumption.
  - intros x y Hxy. apply launch_cases in Hxy.
    destruct Hxy as [[E1 E2]|[[E1 E2]|[E1 [E2 Hxy]]]]; subst.
    + intros Hf. apply (R_super _ _ H) in Hf. lia.
    + exact Hns.
    + eapply (B_nsup _ _ H); eauto.
  - intros x y Hxy. apply launch_cases in Hxy.
    destruct Hxy as [[E1 E2]|[[E1 E2]|[E1 [E2 Hxy]]]]; subst.
    + left. apply live_consp. left. reflexivity.
    + left. apply live_consp. right. exact L_live.
    + destruct (B_live _ _ H _ _ Hxy) as [Hl|Hl]; [|auto].
      left. apply live_consp. right. exact Hl.
  - intros t' Hl Hns' Hlk.
    destruct (Nat.eq_dec t' t) as [E1|E1]; [subst; rewrite lookup_cons_eq in Hlk; discriminate|].
    destruct (Nat.eq_dec t' (next s)) as [E2|E2].
    { subst. rewrite lookup_cons_ne, lookup_cons_eq in Hlk by lia. discriminate. }
    rewrite launch_other in Hlk by auto.
    apply live_consp in Hl. destruct Hl as [Hl|Hl]; [congruence|].
    destruct (P1 _ _ H t' Hl Hns' Hlk) as [i' [H1 H2]].
    exists i'. split; [right; exact H1|].
    intros f [E|Hf]; [|eapply H2; eauto].
    inversion E; subst. apply E1. eapply sub_same; eauto.
  - intros t' i' Hl Hns' Hti'.
    destruct (Nat.eq_dec t' (next s)) as [E2|E2].
    + subst. rewrite lookup_cons_eq in Hti'. inversion Hti'; subst.
      eapply (P3 _ _ H t i'); eauto. exact L_live.
    + rewrite lookup_cons_ne in Hti' by auto.
      apply live_consp in Hl. destruct Hl as [Hl|Hl]; [congruence|].
      eapply (P3 _ _ H t' i'); eauto.
  - intros t' b' i' [E|H1]; [inversion E|]. intros [E|H2].
    + inversion E; subst. assert (t' = t) by (eapply sub_same; eauto). subst t'.
      left. apply lookup_cons_eq.
    + assert (Ht' : t' <> next s) by (apply (sub_lt _ _ _ HS) in H1; lia).
      assert (Hb' : b' <> next s) by (apply (sub_lt _ _ _ HS) in H2; lia).
      destruct (P4 _ _ H t' b' i' H1 H2) as [Ho|[Hc1 Hc2]].
      * left. destruct (Hfb _ _ Ho) as [? [? [? ?]]]. rewrite launch_other; auto.
      * right. split.
        -- destruct Hc1 as [Hc1|Hc1]; auto. left. intros Hl. apply live_consp in Hl. tauto.
        -- destruct Hc2 as [Hc2|Hc2]; auto. left. intros Hl. apply live_consp in Hl. tauto.
  - intros t' i' [E|Hsub]; [inversion E|].
    destruct (P5 _ _ H t' i' Hsub) as [Hy|[[Hl Hns']|[b [Hb1 Hb2]]]]; [auto| |].
    + right. left. split; auto. apply live_consp. auto.
    + right. right. exists b. destruct (Hfb _ _ Hb1) as [? [? [? ?]]].
      split; [rewrite launch_other; auto|apply live_consp; auto].
  - apply (Bt_ne _ _ H).
  - apply (Bt_nodup _ _ H).
  - intros i' Hi'. destruct (Bt_fresh _ _ H i' Hi') as [H1 H2]. split; auto.
    intros f b [E|Hf]; [|eapply H2; eauto].
    inversion E; subst. eapply H2; eauto.
  - intros i' Hi'. destruct (Bt_cover _ _ H i' Hi') as [H1|[t' H1]]; auto.
    right. exists t'. right. exact H1.
Qed.
End Launch.

Lemma launch_eq : forall s t i, lookup t (tasks s) = Some i -> launch_backup s t = s_launch s t i.
Proof. intros s t i Hti. unfold launch_backup. rewrite Hti. reflexivity. Qed.

Lemma policy_ok : forall s t, Struct s [] -> In t (pending s) -> policy_defined c s t = true.
Proof.
  intros s t H Ht. unfold policy_defined.
  assert (E : forallb (fun e => mem_nat e (starts s)) (ends s) && mem_nat t (starts s) = true).
  { apply Bool.andb_true_iff. split.
    - apply forallb_forall. intros e He. apply mem_nat_In. apply (R_starts _ _ H).
      apply (R_ends _ _ H). exact He.
    - apply mem_nat_In. apply (R_starts _ _ H). apply (R_pend _ _ H). exact Ht. }
  rewrite E. apply Bool.orb_true_r.
Qed.

Lemma on_exam_inv : forall pend0 s ta, use_backups c = true -> Inv s [] ->
  (forall x, In x pend0 -> In x (pending s)) ->
  Inv (on_exam c pend0 s ta) [] /\ (forall x, In x pend0 -> In x (pending (on_exam c pend0 s ta))).
Proof.
  intros pend0 s [t ans] Hub HI Hp. unfold on_exam.
  destruct (stat s) eqn:Hst; auto.
  destruct (mem_nat t pend0 && negb match lookup t (backups s) with Some _ => true | None => false end) eqn:E; auto.
  apply Bool.andb_true_iff in E. destruct E as [E1 E2]. apply mem_nat_In in E1.
  assert (Htb : lookup t (backups s) = None) by (destruct (lookup t (backups s)); [discriminate|reflexivity]).
  destruct HI as [HS HR]. pose proof (HR Hst) as H.
  rewrite (policy_ok _ _ H (Hp _ E1)).
  destruct (ans && negb (policy_early c s)); [|split; [split|]; auto].
  destruct (lt_task _ _ HS (R_pend _ _ H _ (Hp _ E1))) as [i Hti].
  rewrite (launch_eq _ _ _ Hti). split; [split|].
  - eapply safe_launch; eauto.
  - intros _. eapply struct_launch; eauto.
  - intros x Hx. unfold s_launch; prj. right. auto.
Qed.

Lemma fold_on_exam_inv : forall pend0 l s, use_backups c = true -> Inv s [] ->
  (forall x, In x pend0 -> In x (pending s)) ->
  Inv (fold_left (on_exam c pend0) l s) [].
Proof.
  induction l as [|ta l IH]; cbn [fold_left]; intros s Hub HI Hp; [exact HI|].
  destruct (on_exam_inv pend0 s ta Hub HI Hp) as [HI' Hp'].
  apply IH; auto.
Qed.

(* ------------------------------------------------------------------ *)
(* batch refill                                                         *)
(* ------------------------------------------------------------------ *)

Definition subnew (new : list (fid * input)) : list (fid * (input * bool)) :=
  map (fun fi => (fst fi, (snd fi, false))) (rev new).

Lemma in_subnew : forall new f i b, In (f, (i, b)) (subnew new) <-> b = false /\ In (f, i) new.
Proof.
  intros new f i b. unfold subnew. rewrite in_map_iff. split.
  - intros [[f' i'] [E Hin]]. cbn in E. inversion E; subst. split; auto. apply in_rev. exact Hin.
  - intros [E Hin]. subst b. exists (f, i). split; auto. apply -> in_rev. exact Hin.
Qed.

Lemma subnew_fst : forall new, map fst (subnew new) = rev (map fst new).
Proof. intros. unfold subnew. rewrite map_map. cbn. rewrite map_rev. reflexivity. Qed.

Lemma subnew_snd : forall new, map snd (subnew new) = map (fun i => (i, false)) (rev (map snd new)).
Proof. intros. unfold subnew. rewrite map_map. cbn. rewrite <- map_rev, map_map. reflexivity. Qed.

Lemma nodup_tag : forall (l : list input), NoDup l -> NoDup (map (fun i => (i, false)) l).
Proof.
  induction l as [|a l IH]; cbn; intros Hn; [constructor|].
  inversion Hn; subst. constructor; auto.
  intros Hin. apply in_map_iff in Hin. destruct Hin as [x [E Hin]]. inversion E; subst. auto.
Qed.

Lemma nodup_app_l : forall A (l1 l2 : list A), NoDup (l1 ++ l2) -> NoDup l1.
Proof.
  induction l1 as [|a l1 IH]; cbn; intros l2 Hn; [constructor|].
  inversion Hn; subst. constructor; eauto. intros Hin. apply H1. apply in_or_app. auto.
Qed.

Lemma nodup_app_r : forall A (l1 l2 : list A), NoDup (l1 ++ l2) -> NoDup l2.
Proof.
  induction l1 as [|a l1 IH]; cbn; intros l2 Hn; [exact Hn|].
  inversion Hn; subst. eauto.
Qed.

Lemma nodup_app_disj : forall A (l1 l2 : list A) x, NoDup (l1 ++ l2) -> In x l1 -> In x l2 -> False.
Proof.
  induction l1 as [|a l1 IH]; cbn; intros l2 x Hn H1 H2; [auto|].
  inversion Hn; subst. destruct H1 as [H1|H1].
  - subst. apply H3. apply in_or_app. auto.
  - eauto.
Qed.

Definition s_refill (s : st) (l : list input) (rest : list (list input)) : st :=
  {| next := next s + length l; tasks := mk_futures (next s) l ++ tasks s;
     pending := map fst (mk_futures (next s) l) ++ pending s; backups := backups s;
     starts := map fst (mk_futures (next s) l) ++ starts s;
     ends := ends s; superseded := superseded s; cancelled := cancelled s;
     completed := completed s; batches := rest; yielded := yielded s;
     submitted := subnew (mk_futures (next s) l) ++ submitted s;
     stat := stat s |}.

Lemma live_app : forall p q x, live (q ++ p) [] x <-> In x q \/ live p [] x.
Proof.
  unfold live; cbn; intros; rewrite in_app_iff; split; intros; intuition auto.
Qed.

Section Refill.
Variable s : st.
Variable l : list input.
Variable rest : list (list input).
Hypothesis HS : Safe s.
Hypothesis H : Struct s [].
Hypothesis Hrun : stat s = Running.
Hypothesis Hbat : batches s = l :: rest.

Local Notation new := (mk_futures (next s) l).

Lemma RF_nodup : NoDup (l ++ concat rest).
Proof. pose proof (Bt_nodup _ _ H) as Hn. rewrite Hbat in Hn. exact Hn. Qed.

Lemma RF_fresh : forall i, In i l -> In i ins /\ forall f b, ~ In (f, (i, b)) (submitted s).
Proof.
  intros i Hi. apply (Bt_fresh _ _ H). rewrite Hbat. cbn. apply in_or_app. auto.
Qed.

Lemma RF_new : forall f i, In (f, i) new -> next s <= f < next s + length l /\ In i l.
Proof. intros f i Hin. apply mk_futures_In. exact Hin. Qed.

Lemma RF_key : forall f, In f (map fst new) <-> next s <= f < next s + length l.
Proof. intros f. rewrite mk_futures_fst, in_seq. tauto. Qed.

Lemma RF_old : forall f, f < next s -> lookup f new = None.
Proof. intros f Hf. apply mk_futures_lookup_None. auto. Qed.

Lemma safe_refill : Safe (s_refill s l rest).
Proof.
  pose proof RF_fresh as Hfr. pose proof RF_new as Hnew.
  constructor; unfold s_refill; prj.
  - rewrite map_app, subnew_fst, (S_fst _ HS). rewrite mk_futures_fst.
    rewrite seq_app, rev_app_distr. reflexivity.
  - rewrite map_app. apply nodup_app.
    + rewrite subnew_snd. apply nodup_tag. apply NoDup_rev. rewrite mk_futures_snd.
      eapply nodup_app_l. exact RF_nodup.
    + apply (S_snd _ HS).
    + intros [i b] H1 H2. rewrite subnew_snd in H1. apply in_map_iff in H1.
      destruct H1 as [i' [E H1]]. inversion E; subst. apply in_rev in H1.
      rewrite mk_futures_snd in H1.
      apply in_map_iff in H2. destruct H2 as [[f [i2 b2]] [E2 H2]]. cbn in E2. inversion E2; subst.
      eapply (proj2 (Hfr _ H1)); eauto.
  - intros f i b Hin. apply in_app_or in Hin. rewrite lookup_app. destruct Hin as [Hin|Hin].
    + apply in_subnew in Hin. destruct Hin as [_ Hin].
      rewrite (In_lookup _ _ _ _ (mk_futures_nodup _ _) Hin). reflexivity.
    + rewrite RF_old; [eapply S_task; eauto|eapply sub_lt; eauto].
  - intros f i. rewrite lookup_app. destruct (lookup f new) eqn:E.
    + intros E'. inversion E'; subst. exists false. apply in_or_app. left.
      apply in_subnew. split; auto. apply lookup_In. exact E.
    + intros Hl. destruct (S_task' _ HS _ _ Hl) as [b Hb']. exists b. apply in_or_app. auto.
  - intros f i b Hin. apply in_app_or in Hin. destruct Hin as [Hin|Hin].
    + apply in_subnew in Hin. destruct Hin as [_ Hin]. apply Hnew in Hin. apply Hfr. tauto.
    + eapply S_ins; eauto.
  - intros f i Hin. apply in_app_or in Hin. destruct Hin as [Hin|Hin].
    + apply in_subnew in Hin. destruct Hin; discriminate.
    + destruct (S_bk _ HS _ _ Hin) as [t Ht]. exists t. apply in_or_app. auto.
  - apply (C_nodup _ HS).
  - intros f Hf. apply (C_lt _ HS) in Hf. lia.
  - apply (Y_nodup _ HS).
  - intros t i Hy. destruct (Y_ok _ HS _ _ Hy) as [Hy1 Hy2]. split; auto.
    rewrite lookup_app, RF_old; auto. eapply task_lt; eauto.
  - rewrite Hrun. discriminate.
  - intros t E. congruence.
  - intros E. congruence.
Qed.

Lemma struct_refill : Struct (s_refill s l rest) [].
Proof.
  pose proof RF_fresh as Hfr. pose proof RF_new as Hnew. pose proof RF_key as Hkey.
  assert (Hlw : forall x, live (pending s) [] x -> live (map fst new ++ pending s) [] x).
  { intros x Hx. apply live_app. auto. }
  assert (Hlo : forall x, x < next s -> live (map fst new ++ pending s) [] x -> live (pending s) [] x).
  { intros x Hx Hl. apply live_app in Hl. destruct Hl as [Hl|Hl]; auto. apply Hkey in Hl. lia. }
  constructor; unfold s_refill; prj.
  - constructor.
  - intros t' ok [].
  - intros t' [].
  - intros f Hf. apply in_app_or in Hf. destruct Hf as [Hf|Hf].
    + apply Hkey in Hf. lia.
    + apply (R_pend _ _ H) in Hf. lia.
  - intros f Hf. apply in_or_app. destruct (Nat.lt_ge_cases f (next s)).
    + right. apply (R_starts _ _ H). auto.
    + left. apply Hkey. lia.
  - intros f Hf. apply (R_ends _ _ H) in Hf. lia.
  - intros f Hf. apply (R_super _ _ H) in Hf. lia.
  - intros x y Hxy. apply (R_bk _ _ H) in Hxy. lia.
  - intros f Hf Hp. apply in_app_or in Hp. destruct Hp as [Hp|Hp].
    + apply Hkey in Hp. apply (comp_lookup_lt _ _ HS) in Hf. lia.
    + eapply (R_comp _ _ H); eauto.
  - intros f Hf Hp. apply in_app_or in Hp. destruct Hp as [Hp|Hp].
    + apply Hkey in Hp. apply (R_super _ _ H) in Hf. lia.
    + eapply (Sup_pend _ _ H); eauto.
  - apply (Can_sup _ _ H).
  - apply (B_off _ _ H).
  - apply (B_sym _ _ H).
  - apply (B_irr _ _ H).
  - intros x y Hxy. destruct (B_twin _ _ H _ _ Hxy) as [i' [[H1 H2]|[H1 H2]]]; exists i'; [left|right];
      split; apply in_or_app; right; assumption.
  - apply (B_nsup _ _ H).
  - intros x y Hxy. destruct (B_live _ _ H _ _ Hxy) as [Hl|Hl]; auto.
  - intros t' Hl Hns' Hlk. apply live_app in Hl. destruct Hl as [Hl|Hl].
    + apply in_map_iff in Hl. destruct Hl as [[t2 i] [E Hin]]. cbn in E. subst t2.
      exists i. split; [apply in_or_app; left; apply in_subnew; auto|].
      intros f Hf. apply in_app_or in Hf. destruct Hf as [Hf|Hf].
      * apply in_subnew in Hf. destruct Hf; discriminate.
      * apply Hnew in Hin. eapply (proj2 (Hfr _ (proj2 Hin))); eauto.
    + destruct (P1 _ _ H t' Hl Hns' Hlk) as [i' [H1 H2]].
      exists i'. split; [apply in_or_app; right; exact H1|].
      intros f Hf. apply in_app_or in Hf. destruct Hf as [Hf|Hf]; [|eapply H2; eauto].
      apply in_subnew in Hf. destruct Hf; discriminate.
  - intros t' i' Hl Hns' Hti'. rewrite lookup_app in Hti'. destruct (lookup t' new) eqn:E.
    + inversion Hti'; subst. apply lookup_In in E. apply Hnew in E. destruct E as [_ E].
      intros Hy. apply in_map_iff in Hy. destruct Hy as [[t0 i0] [E0 Hy]]. cbn in E0. subst i0.
      destruct (Y_ok _ HS _ _ Hy) as [_ Hy2]. destruct (S_task' _ HS _ _ Hy2) as [b Hb'].
      eapply (proj2 (Hfr _ E)); eauto.
    + apply (P3 _ _ H t' i'); auto. apply Hlo; auto. eapply task_lt; eauto.
  - intros t' b' i' H1 H2. apply in_app_or in H1. apply in_app_or in H2.
    destruct H2 as [H2|H2]; [apply in_subnew in H2; destruct H2; discriminate|].
    destruct H1 as [H1|H1].
    + apply in_subnew in H1. destruct H1 as [_ H1]. apply Hnew in H1.
      exfalso. eapply (proj2 (Hfr _ (proj2 H1))); eauto.
    + destruct (P4 _ _ H t' b' i' H1 H2) as [Ho|[Hc1 Hc2]]; [auto|].
      right. split.
      * destruct Hc1 as [Hc1|Hc1]; auto. left. intros Hl. apply Hc1. apply Hlo; auto.
        eapply sub_lt; eauto.
      * destruct Hc2 as [Hc2|Hc2]; auto. left. intros Hl. apply Hc2. apply Hlo; auto.
        eapply sub_lt; eauto.
  - intros t' i' Hsub. apply in_app_or in Hsub. destruct Hsub as [Hsub|Hsub].
    + apply in_subnew in Hsub. destruct Hsub as [_ Hsub]. right. left. split.
      * apply live_app. left. apply in_map_iff. exists (t', i'). auto.
      * intros Hs. apply (R_super _ _ H) in Hs. apply Hnew in Hsub. lia.
    + destruct (P5 _ _ H t' i' Hsub) as [Hy|[[Hl Hns']|[b [Hb1 Hb2]]]]; [auto| |].
      * right. left. auto.
      * right. right. exists b. auto.
  - intros l0 Hl0. apply (Bt_ne _ _ H). rewrite Hbat. right. exact Hl0.
  - eapply nodup_app_r. exact RF_nodup.
  - intros i Hi. assert (Hi' : In i (concat (batches s))).
    { rewrite Hbat. cbn. apply in_or_app. auto. }
    destruct (Bt_fresh _ _ H i Hi') as [H1 H2]. split; auto.
    intros f b Hf. apply in_app_or in Hf. destruct Hf as [Hf|Hf]; [|eapply H2; eauto].
    apply in_subnew in Hf. destruct Hf as [_ Hf]. apply Hnew in Hf.
    eapply nodup_app_disj; [exact RF_nodup| |exact Hi]. tauto.
  - intros i Hi. destruct (Bt_cover _ _ H i Hi) as [H1|[t' H1]].
    + rewrite Hbat in H1. cbn in H1. apply in_app_or in H1. destruct H1 as [H1|H1]; auto.
      right. destruct (mk_futures_In_snd l (next s) i H1) as [f Hf].
      exists f. apply in_or_app. left. apply in_subnew. auto.
    + right. exists t'. apply in_or_app. auto.
Qed.
End Refill.

(* ------------------------------------------------------------------ *)
(* frame lemmas: [completed] and [batches]                              *)
(* ------------------------------------------------------------------ *)

Ltac dm := repeat match goal with
  | |- context [match ?x with _ => _ end] => destruct x
  end; try reflexivity.

Lemma frame_on_finished : forall s tb,
  completed (on_finished c s tb) = completed s /\ batches (on_finished c s tb) = batches s.
Proof. intros s tb. unfold on_finished, on_success. dm; auto. Qed.

Lemma frame_fold_on_finished : forall l s,
  completed (fold_left (on_finished c) l s) = completed s /\
  batches (fold_left (on_finished c) l s) = batches s.
Proof.
  induction l as [|tb l IH]; cbn [fold_left]; intros s; [auto|].
  destruct (IH (on_finished c s tb)) as [H1 H2]. destruct (frame_on_finished s tb) as [H3 H4].
  split; congruence.
Qed.

Lemma frame_on_exam : forall p s ta,
  completed (on_exam c p s ta) = completed s /\ batches (on_exam c p s ta) = batches s.
Proof. intros p s ta. unfold on_exam, launch_backup. dm; auto. Qed.

Lemma frame_fold_on_exam : forall p l s,
  completed (fold_left (on_exam c p) l s) = completed s /\
  batches (fold_left (on_exam c p) l s) = batches s.
Proof.
  induction l as [|ta l IH]; cbn [fold_left]; intros s; [auto|].
  destruct (IH (on_exam c p s ta)) as [H1 H2]. destruct (frame_on_exam p s ta) as [H3 H4].
  split; congruence.
Qed.

Lemma frame_refill : forall s, completed (refill c s) = completed s /\
  (batch c = None -> batches (refill c s) = batches s).
Proof.
  intros s. unfold refill. split.
  - dm.
  - intros E. rewrite E. dm.
Qed.

Lemma frame_finish : forall s, completed (finish s) = completed s /\ batches (finish s) = batches s.
Proof. intros s. unfold finish. dm; auto. Qed.

Lemma frame_step : forall s w, stat s = Running ->
  completed (step c s w) = valid_fin (pending s) [] (fin w) ++ completed s /\
  (batch c = None -> batches (step c s w) = batches s).
Proof.
  intros s w Hrun. unfold step. rewrite Hrun.
  match goal with |- context [finish (refill c ?x)] => set (s2 := x) end.
  destruct (frame_finish (refill c s2)) as [F1 F2]. destruct (frame_refill s2) as [F3 F4].
  assert (F5 : completed s2 = valid_fin (pending s) [] (fin w) ++ completed s /\ batches s2 = batches s).
  { subst s2. destruct (use_backups c).
    - match goal with |- context [fold_left (on_exam c ?p) ?l ?x] =>
        destruct (frame_fold_on_exam p l x) as [G1 G2] end.
      match goal with |- context [fold_left (on_finished c) ?l ?x] =>
        destruct (frame_fold_on_finished l x) as [G3 G4] end.
      prj. split; congruence.
    - match goal with |- context [fold_left (on_finished c) ?l ?x] =>
        destruct (frame_fold_on_finished l x) as [G3 G4] end.
      prj. split; congruence. }
  destruct F5 as [F5 F6]. split; [congruence|]. intros E. rewrite F2, F4; auto.
Qed.

(* ------------------------------------------------------------------ *)
(* refill, finish, step                                                 *)
(* ------------------------------------------------------------------ *)

Lemma refill_inv : forall s, Inv s [] -> Inv (refill c s) [].
Proof.
  intros s HI. unfold refill.
  destruct (stat s) eqn:Hst; auto.
  destruct (batch c) as [b|]; auto.
  destruct (length (pending s) <? b); auto.
  destruct (batches s) as [|l rest] eqn:Hbat; auto.
  destruct HI as [HS HR]. pose proof (HR Hst) as H.
  destruct Hrep as [Hfst _]. rewrite Hfst. rewrite <- Hst.
  split.
  - exact (safe_refill s l rest HS H Hst Hbat).
  - intros _. exact (struct_refill s l rest HS H Hbat).
Qed.

Lemma refill_pending : forall s, Inv s [] -> (batch c = None -> batches s = []) ->
  stat (refill c s) = Running -> pending (refill c s) = [] -> batches (refill c s) = [].
Proof.
  intros s [HS HR] Hnone. unfold refill.
  destruct (stat s) eqn:Hst; try (intros; congruence).
  specialize (HR eq_refl).
  destruct (batch c) as [b|] eqn:Eb; [|auto].
  destruct (length (pending s) <? b) eqn:El.
  - destruct (batches s) as [|l rest] eqn:Hbat; [auto|]. prj. intros _ Hp.
    apply app_eq_nil in Hp. destruct Hp as [Hp _].
    rewrite mk_futures_fst in Hp.
    assert (l <> []) by (apply (Bt_ne _ _ HR); rewrite Hbat; left; reflexivity).
    destruct l; [congruence|]. cbn in Hp. discriminate.
  - intros _ Hp. rewrite Hp in El. cbn [length] in El. apply Nat.ltb_ge in El.
    exfalso. apply Hb. rewrite Eb. f_equal. lia.
Qed.

Lemma finish_inv : forall s, Inv s [] ->
  (stat s = Running -> pending s = [] -> batches s = []) ->
  Inv (finish s) [] /\ (stat (finish s) = Running -> pending (finish s) <> []).
Proof.
  intros s HI Hbt. unfold finish.
  destruct (stat s) eqn:Hst; try (split; [exact HI|intros; congruence]).
  destruct (pending s) as [|p ps] eqn:Hp.
  - split; [|prj; discriminate]. destruct HI as [HS HR]. specialize (HR Hst).
    split; [|prj; discriminate].
    apply safe_set_stat; auto; try discriminate.
    intros _ i Hi. destruct (Bt_cover _ _ HR i Hi) as [H1|[t H1]].
    + rewrite Hbt in H1 by auto. destruct H1.
    + destruct (P5 _ _ HR t i H1) as [Hy|[[[Hl|[]] _]|[b [_ [Hl|[]]]]]]; auto;
        rewrite Hp in Hl; destruct Hl.
  - split; [exact HI|]. intros _. rewrite Hp. discriminate.
Qed.

Lemma status_dec : forall s, stat s = Running \/ stat s <> Running.
Proof. intros s. destruct (stat s); auto; right; discriminate. Qed.

Definition Top (s : st) : Prop :=
  Inv s [] /\ (stat s = Running -> pending s <> []) /\ (batch c = None -> batches s = []).

Definition step_s1 (s : st) (w : wake) : st :=
  fold_left (on_finished c) (valid_fin (pending s) [] (fin w))
    (s_wake s (valid_fin (pending s) [] (fin w))).
Definition step_s2 (s : st) (w : wake) : st :=
  if use_backups c then fold_left (on_exam c (pending (step_s1 s w))) (exam w) (step_s1 s w)
  else step_s1 s w.

Lemma step_eq : forall s w, stat s = Running -> step c s w = finish (refill c (step_s2 s w)).
Proof.
  intros s w Hrun. unfold step. destruct (stat s) eqn:E; try discriminate.
  unfold step_s2, step_s1, s_wake. rewrite E. reflexivity.
Qed.

Lemma step_frozen : forall s w, stat s <> Running -> step c s w = s.
Proof. intros s w Hs. unfold step. destruct (stat s); congruence. Qed.

Lemma step_top : forall s w, Top s -> Top (step c s w).
Proof.
  intros s w [HI [Hpn Hnone]].
  destruct (status_dec s) as [Hst|Hst]; [|rewrite step_frozen by auto; split; auto].
  assert (Hn' : batch c = None -> batches (step c s w) = []).
  { intros E. rewrite (proj2 (frame_step s w Hst) E). auto. }
  rewrite step_eq in * by auto.
  set (fin' := valid_fin (pending s) [] (fin w)).
  destruct HI as [HS HR]. specialize (HR Hst).
  assert (V1 : forall t ok, In (t, ok) fin' -> In t (pending s)).
  { intros t ok Hin. apply valid_fin_In in Hin. tauto. }
  assert (V2 : NoDup (map fst fin')) by apply valid_fin_nodup.
  assert (I0 : Inv (s_wake s fin') fin').
  { split; [apply safe_wake; auto|intros _; apply struct_wake; auto]. }
  apply fold_on_finished_inv in I0. fold (step_s1 s w) in I0.
  assert (I2 : Inv (step_s2 s w) []).
  { unfold step_s2. destruct (use_backups c) eqn:Eub; [|exact I0].
    apply fold_on_exam_inv; auto. }
  assert (N2 : batch c = None -> batches (step_s2 s w) = []).
  { intros E. unfold step_s2. destruct (use_backups c).
    - rewrite (proj2 (frame_fold_on_exam _ _ _)). unfold step_s1.
      rewrite (proj2 (frame_fold_on_finished _ _)). unfold s_wake; prj. auto.
    - unfold step_s1. rewrite (proj2 (frame_fold_on_finished _ _)). unfold s_wake; prj. auto. }
  pose proof (refill_inv _ I2) as I3.
  pose proof (refill_pending _ I2 N2) as P3'.
  destruct (finish_inv _ I3 P3') as [I4 P4'].
  split; [exact I4|]. split; [exact P4'|exact Hn'].
Qed.

(* ------------------------------------------------------------------ *)
(* init                                                                 *)
(* ------------------------------------------------------------------ *)

Definition s_empty (bs : list (list input)) : st :=
  {| next := 0; tasks := []; pending := []; backups := []; starts := []; ends := [];
     superseded := []; cancelled := []; completed := []; batches := bs; yielded := [];
     submitted := []; stat := Running |}.

Lemma safe_empty : forall bs, Safe (s_empty bs).
Proof.
  intros bs. constructor; unfold s_empty; prj; cbn; try (intros; tauto); try constructor;
    try discriminate.
Qed.

Lemma struct_empty : forall bs, (forall l, In l bs -> l <> []) -> concat bs = ins ->
  Struct (s_empty bs) [].
Proof.
  intros bs Hne Hc.
  constructor; unfold s_empty; prj; cbn [lookup In map].
  - constructor.
  - intros t ok [].
  - intros t [].
  - intros f [].
  - intros f Hf. lia.
  - intros f [].
  - intros f [].
  - intros; discriminate.
  - intros f Hf Hp. exact Hp.
  - intros f [].
  - intros f [].
  - reflexivity.
  - intros; discriminate.
  - intros; discriminate.
  - intros; discriminate.
  - intros; discriminate.
  - intros; discriminate.
  - intros t [[]|[]].
  - intros t i [[]|[]].
  - intros t b i [].
  - intros t i [].
  - exact Hne.
  - rewrite Hc. exact Hnd.
  - rewrite Hc. intros i Hi. split; auto.
  - rewrite Hc. auto.
Qed.

Definition s_pre (bs : list (list input)) : st :=
  let first := match bs with [] => [] | b :: _ => b end in
  let new := mk_futures 0 first in
  {| next := length first; tasks := new; pending := map fst new; backups := [];
     starts := map fst new; ends := []; superseded := []; cancelled := []; completed := [];
     batches := tl bs; yielded := [];
     submitted := map (fun fi => (fst fi, (snd fi, false))) (rev new); stat := Running |}.

Lemma pre_inv : forall bs, (forall l, In l bs -> l <> []) -> concat bs = ins ->
  Inv (s_pre bs) [] /\ (pending (s_pre bs) = [] -> batches (s_pre bs) = []).
Proof.
  intros bs Hne Hc. destruct bs as [|first rest].
  - split; [|reflexivity]. split; [apply (safe_empty [])|intros _; apply (struct_empty []); auto].
  - assert (E : s_pre (first :: rest) = s_refill (s_empty (first :: rest)) first rest).
    { unfold s_pre, s_refill, s_empty, subnew; prj. cbn [tl]. rewrite !app_nil_r. reflexivity. }
    rewrite E. split.
    + split.
      * apply safe_refill; auto using safe_empty, struct_empty.
      * intros _. apply struct_refill; auto using safe_empty, struct_empty.
    + unfold s_refill, s_empty; prj. rewrite app_nil_r, mk_futures_fst. intros Hp.
      assert (first <> []) by (apply Hne; left; reflexivity).
      destruct first; [congruence|discriminate].
Qed.

Lemma list_nil_dec : forall (l : list input), l = [] \/ l <> [].
Proof. intros l. destruct l; [left; reflexivity|right; discriminate]. Qed.

Lemma init_top : Top (init c ins).
Proof.
  assert (Hpre : exists bs, init c ins = finish (s_pre bs) /\ Inv (s_pre bs) [] /\
            (pending (s_pre bs) = [] -> batches (s_pre bs) = []) /\
            (batch c = None -> batches (s_pre bs) = [])).
  { unfold init. destruct (batch c) as [b|] eqn:Eb.
    - exists (batched ins b). split; [reflexivity|].
      assert (Hb1 : 1 <= b) by (destruct b; [exfalso; apply Hb; auto|lia]).
      destruct (pre_inv (batched ins b)) as [P1' P2'].
      + intros l Hl. eapply batched_fuel_ne; eauto.
      + apply batched_fuel_concat; auto.
      + split; [exact P1'|]. split; [exact P2'|discriminate].
    - assert (Hi : ins = [] \/ ins <> []) by (apply list_nil_dec).
      destruct Hi as [Hi|Hi].
      + exists []. split; [rewrite Hi; reflexivity|]. destruct (pre_inv []) as [P1' P2']; auto.
      + exists [ins]. split; [reflexivity|]. destruct (pre_inv [ins]) as [P1' P2'].
        * intros l [Hl|[]]. subst l. exact Hi.
        * cbn. rewrite app_nil_r. reflexivity.
        * split; [exact P1'|]. split; [exact P2'|reflexivity]. }
  destruct Hpre as [bs [E [I1 [I2 I3]]]]. rewrite E.
  destruct (finish_inv _ I1 (fun _ => I2)) as [I4 I5].
  split; [exact I4|]. split; [exact I5|].
  intros En. rewrite (proj2 (frame_finish _)). auto.
Qed.

Lemma run_top : forall script, Top (run c ins script).
Proof.
  intros script. unfold run. generalize init_top. generalize (init c ins).
  induction script as [|w script IH]; cbn [fold_left]; intros s HT; [exact HT|].
  apply IH. apply step_top. exact HT.
Qed.

End Inv.

(* ------------------------------------------------------------------ *)
(* the theorems                                                         *)
(* ------------------------------------------------------------------ *)

Lemma run_safe : forall c ins script, repaired c -> batch_ok c -> NoDup ins ->
  Safe ins (run c ins script).
Proof. intros c ins script H1 H2 H3. destruct (run_top c ins H1 H2 H3 script) as [[HS _] _]. exact HS. Qed.

Theorem no_double_delivery : forall c ins script, repaired c -> batch_ok c -> NoDup ins ->
  NoDup (map snd (yielded (run c ins script))).
Proof. intros. eapply Y_nodup. eapply run_safe; eauto. Qed.

Theorem delivered_succeeded : forall c ins script, repaired c -> batch_ok c -> NoDup ins ->
  forall t i, In (t, i) (yielded (run c ins script)) ->
    lookup t (completed (run c ins script)) = Some true /\
    lookup t (tasks (run c ins script)) = Some i /\ In i ins.
Proof.
  intros c ins script H1 H2 H3 t i Hy. pose proof (run_safe c ins script H1 H2 H3) as HS.
  destruct (Y_ok _ _ HS _ _ Hy) as [Hy1 Hy2]. split; [exact Hy1|]. split; [exact Hy2|].
  destruct (S_task' _ _ HS _ _ Hy2) as [b Hb]. eapply S_ins; eauto.
Qed.

Definition subp (i : input) (b : bool) (x : fid * (input * bool)) : bool :=
  Nat.eqb (fst (snd x)) i && Bool.eqb (snd (snd x)) b.

Lemma subp_true : forall i b x, subp i b x = true <-> snd x = (i, b).
Proof.
  intros i b [f [i' b']]. unfold subp. cbn. rewrite Bool.andb_true_iff, Nat.eqb_eq, Bool.eqb_true_iff.
  split; [intros [? ?]; subst; reflexivity|intros E; inversion E; auto].
Qed.

Lemma filter_none : forall A (p : A -> bool) l, (forall x, In x l -> p x = false) -> filter p l = [].
Proof.
  induction l as [|a l IH]; cbn; intros Hf; [reflexivity|].
  rewrite (Hf a) by auto. apply IH. intros x Hx. apply Hf. auto.
Qed.

Lemma count_le1 : forall i b (l : list (fid * (input * bool))), NoDup (map snd l) ->
  length (filter (subp i b) l) <= 1.
Proof.
  induction l as [|x l IH]; cbn; intros Hn; [lia|].
  inversion Hn as [|? ? Hx Hn']; subst. destruct (subp i b x) eqn:E; [|auto].
  apply subp_true in E. rewrite filter_none; [cbn; lia|].
  intros y Hy. destruct (subp i b y) eqn:Ey; [|reflexivity].
  apply subp_true in Ey. exfalso. apply Hx. rewrite E, <- Ey. apply in_map. exact Hy.
Qed.

Lemma count_ge1 : forall A (p : A -> bool) l x, In x l -> p x = true -> 1 <= length (filter p l).
Proof.
  intros A p l x Hin Hp. assert (Hf : In x (filter p l)) by (apply filter_In; auto).
  destruct (filter p l); [destruct Hf|cbn; lia].
Qed.

Theorem submissions_bounded : forall c ins script, repaired c -> batch_ok c -> NoDup ins ->
  forall i, nsub (run c ins script) i false <= 1 /\
            nsub (run c ins script) i true <= nsub (run c ins script) i false.
Proof.
  intros c ins script H1 H2 H3 i. pose proof (run_safe c ins script H1 H2 H3) as HS.
  set (s := run c ins script) in *.
  change (length (filter (subp i false) (submitted s)) <= 1 /\
          length (filter (subp i true) (submitted s)) <= length (filter (subp i false) (submitted s))).
  pose proof (count_le1 i false _ (S_snd _ _ HS)) as L1.
  pose proof (count_le1 i true _ (S_snd _ _ HS)) as L2.
  split; [exact L1|].
  destruct (filter (subp i true) (submitted s)) as [|x l] eqn:E; [cbn; lia|].
  assert (Hx : In x (filter (subp i true) (submitted s))) by (rewrite E; left; reflexivity).
  apply filter_In in Hx. destruct Hx as [Hx1 Hx2]. apply subp_true in Hx2.
  destruct x as [f [i' b']]. cbn in Hx2. inversion Hx2; subst.
  destruct (S_bk _ _ HS _ _ Hx1) as [t Ht].
  assert (1 <= length (filter (subp i false) (submitted s))).
  { eapply count_ge1; eauto. apply subp_true. reflexivity. }
  cbn [length] in *. lia.
Qed.

Theorem submissions_real_inputs : forall c ins script, repaired c -> batch_ok c -> NoDup ins ->
  forall f i b, In (f, (i, b)) (submitted (run c ins script)) -> In i ins.
Proof. intros c ins script H1 H2 H3 f i b Hin. eapply S_ins; eauto. eapply run_safe; eauto. Qed.

Theorem never_crashes : forall c ins script, repaired c -> batch_ok c -> NoDup ins ->
  stat (run c ins script) <> Crashed.
Proof. intros. eapply St_crash. eapply run_safe; eauto. Qed.

Theorem raise_is_genuine : forall c ins script, repaired c -> batch_ok c -> NoDup ins ->
  forall t, stat (run c ins script) = Raised t ->
  exists i, lookup t (tasks (run c ins script)) = Some i /\
    lookup t (completed (run c ins script)) = Some false /\
    forall f b, In (f, (i, b)) (submitted (run c ins script)) ->
      lookup f (completed (run c ins script)) = Some false.
Proof.
  intros c ins script H1 H2 H3 t Ht. pose proof (run_safe c ins script H1 H2 H3) as HS.
  exact (St_raise _ _ HS t Ht).
Qed.

Theorem done_exactly_once : forall c ins script, repaired c -> batch_ok c -> NoDup ins ->
  stat (run c ins script) = Done -> Permutation (map snd (yielded (run c ins script))) ins.
Proof.
  intros c ins script H1 H2 H3 Hd. pose proof (run_safe c ins script H1 H2 H3) as HS.
  apply NoDup_Permutation; [apply (Y_nodup _ _ HS)|exact H3|].
  intros i. split.
  - intros Hi. apply in_map_iff in Hi. destruct Hi as [[t i'] [E Hy]]. cbn in E. subst i'.
    eapply delivered_succeeded; eauto.
  - apply (St_done _ _ HS Hd).
Qed.

Theorem futures_bounded : forall c ins script, repaired c -> batch_ok c -> NoDup ins ->
  next (run c ins script) <= 2 * length ins.
Proof.
  intros c ins script H1 H2 H3. pose proof (run_safe c ins script H1 H2 H3) as HS.
  set (s := run c ins script) in *.
  assert (E : next s = length (map snd (submitted s))).
  { rewrite map_length, <- (map_length fst), (S_fst _ _ HS), rev_length, seq_length. reflexivity. }
  rewrite E.
  assert (L : length (map snd (submitted s)) <= length (list_prod ins [false; true])).
  { apply NoDup_incl_length; [apply (S_snd _ _ HS)|].
    intros [i b] Hin. apply in_map_iff in Hin. destruct Hin as [[f [i' b']] [E' Hin]].
    cbn in E'. inversion E'; subst. apply in_prod; [eapply S_ins; eauto|].
    destruct b; cbn; auto. }
  rewrite prod_length in L. cbn [length] in L. lia.
Qed.

Theorem completed_bounded : forall c ins script, repaired c -> batch_ok c -> NoDup ins ->
  NoDup (map fst (completed (run c ins script))) /\
  length (completed (run c ins script)) <= next (run c ins script).
Proof.
  intros c ins script H1 H2 H3. pose proof (run_safe c ins script H1 H2 H3) as HS.
  set (s := run c ins script) in *. split; [apply (C_nodup _ _ HS)|].
  rewrite <- (map_length fst), <- (seq_length (next s) 0).
  apply NoDup_incl_length; [apply (C_nodup _ _ HS)|].
  intros f Hf. apply in_seq. apply (C_lt _ _ HS) in Hf. lia.
Qed.

Theorem running_has_pending : forall c ins script, repaired c -> batch_ok c -> NoDup ins ->
  stat (run c ins script) = Running -> pending (run c ins script) <> [].
Proof. intros c ins script H1 H2 H3. destruct (run_top c ins H1 H2 H3 script) as [_ [Hp _]]. exact Hp. Qed.

Theorem wake_progress : forall c ins script, repaired c -> batch_ok c -> NoDup ins ->
  forall w, stat (run c ins script) = Running ->
    valid_fin (pending (run c ins script)) [] (fin w) <> [] ->
    length (completed (run c ins script)) < length (completed (step c (run c ins script) w)).
Proof.
  intros c ins script _ _ _ w Hrun Hv.
  rewrite (proj1 (frame_step c _ w Hrun)), app_length.
  destruct (valid_fin (pending (run c ins script)) [] (fin w)); [congruence|cbn; lia].
Qed.

Theorem terminal_absorbing : forall c ins script, repaired c -> batch_ok c -> NoDup ins ->
  forall w, stat (run c ins script) <> Running -> step c (run c ins script) w = run c ins script.
Proof. intros c ins script _ _ _ w Hs. apply step_frozen. exact Hs. Qed.
