From CubedV Require Import Model.Util Model.AsyncMap.
From Coq Require Import Permutation.

Definition repaired (c : cfg) : Prop := fix_starts c = true /\ fix_super c = true.
Definition batch_ok (c : cfg) : Prop := batch c <> Some 0.

(* number of submissions of input i that are (b = true) backups / (b = false) originals *)
Definition nsub (s : st) (i : input) (b : bool) : nat :=
  length (filter (fun x => Nat.eqb (fst (snd x)) i && Bool.eqb (snd (snd x)) b) (submitted s)).

(* ------------------------------------------------------------------ *)
(* basic list helpers                                                   *)
(* ------------------------------------------------------------------ *)

Lemma mem_nat_In : forall x l, mem_nat x l = true <-> In x l.
Proof.
  induction l as [|y l IH]; cbn.
  - split; [discriminate | tauto].
  - rewrite Bool.orb_true_iff, IH, Nat.eqb_eq. split; intros [H|H]; auto.
Qed.

Lemma mem_nat_nIn : forall x l, mem_nat x l = false <-> ~ In x l.
Proof.
  intros x l. rewrite <- mem_nat_In. destruct (mem_nat x l); split; intros H; try congruence;
    try (exfalso; apply H; reflexivity).
Qed.

Lemma In_remove_nat : forall x y l, In y (remove_nat x l) <-> In y l /\ y <> x.
Proof.
  induction l as [|z l IH]; cbn.
  - tauto.
  - destruct (Nat.eqb x z) eqn:E.
    + apply Nat.eqb_eq in E. subst z. rewrite IH. split.
      * intros [H1 H2]; auto.
      * intros [[H|H] H2]; [congruence|auto].
    + apply Nat.eqb_neq in E. cbn. rewrite IH. split.
      * intros [H|[H1 H2]]; [subst; split; auto|auto].
      * intros [[H|H] H2]; auto.
Qed.

Lemma lookup_remove_key : forall B k x (l : list (nat * B)),
  lookup x (remove_key k l) = if Nat.eqb x k then None else lookup x l.
Proof.
  induction l as [|[k' v] l IH]; cbn.
  - destruct (Nat.eqb x k); reflexivity.
  - destruct (Nat.eqb k k') eqn:E.
    + apply Nat.eqb_eq in E. subst k'. rewrite IH.
      destruct (Nat.eqb x k); reflexivity.
    + cbn. rewrite IH. destruct (Nat.eqb x k) eqn:E2; [|reflexivity].
      apply Nat.eqb_eq in E2. subst x. rewrite E. reflexivity.
Qed.

Lemma lookup_In : forall B k (v : B) l, lookup k l = Some v -> In (k, v) l.
Proof.
  induction l as [|[k' v'] l IH]; cbn; [discriminate|].
  destruct (Nat.eqb k k') eqn:E.
  - apply Nat.eqb_eq in E. intros H; inversion H; subst; auto.
  - auto.
Qed.

Lemma lookup_None : forall B k (l : list (nat * B)), lookup k l = None <-> ~ In k (map fst l).
Proof.
  induction l as [|[k' v'] l IH]; cbn.
  - tauto.
  - destruct (Nat.eqb k k') eqn:E.
    + apply Nat.eqb_eq in E. split; [discriminate|]. intros H; exfalso; auto.
    + apply Nat.eqb_neq in E. rewrite IH. split; [intros H [H1|H1]; auto | auto].
Qed.

Lemma lookup_Some_In_fst : forall B k (v : B) l, lookup k l = Some v -> In k (map fst l).
Proof.
  intros. apply lookup_In in H. apply in_map_iff. exists (k, v). auto.
Qed.

Lemma In_lookup : forall B k (v : B) l, NoDup (map fst l) -> In (k, v) l -> lookup k l = Some v.
Proof.
  induction l as [|[k' v'] l IH]; cbn; [tauto|].
  intros Hnd [H|H].
  - inversion H; subst. rewrite Nat.eqb_refl. reflexivity.
  - inversion Hnd; subst. destruct (Nat.eqb k k') eqn:E.
    + apply Nat.eqb_eq in E. subst k'. exfalso. apply H2. apply in_map_iff. exists (k, v). auto.
    + auto.
Qed.

Lemma lookup_app : forall B k (l1 l2 : list (nat * B)),
  lookup k (l1 ++ l2) = match lookup k l1 with Some v => Some v | None => lookup k l2 end.
Proof.
  induction l1 as [|[k' v'] l1 IH]; cbn; intros; [reflexivity|].
  destruct (Nat.eqb k k'); auto.
Qed.

Lemma nodup_snd_inj : forall A B (l : list (A * B)) a a' x,
  NoDup (map snd l) -> In (a, x) l -> In (a', x) l -> a = a'.
Proof.
  induction l as [|[a0 x0] l IH]; cbn; [tauto|].
  intros a a' x Hnd H1 H2. inversion Hnd; subst.
  destruct H1 as [H1|H1], H2 as [H2|H2].
  - congruence.
  - inversion H1; subst. exfalso. apply H3. apply in_map_iff. exists (a', x). auto.
  - inversion H2; subst. exfalso. apply H3. apply in_map_iff. exists (a, x). auto.
  - eauto.
Qed.

Lemma nodup_fst_inj : forall A B (l : list (A * B)) a x x',
  NoDup (map fst l) -> In (a, x) l -> In (a, x') l -> x = x'.
Proof.
  induction l as [|[a0 x0] l IH]; cbn; [tauto|].
  intros a x x' Hnd H1 H2. inversion Hnd; subst.
  destruct H1 as [H1|H1], H2 as [H2|H2].
  - congruence.
  - inversion H1; subst. exfalso. apply H3. apply in_map_iff. exists (a, x'). auto.
  - inversion H2; subst. exfalso. apply H3. apply in_map_iff. exists (a, x). auto.
  - eauto.
Qed.

(* ------------------------------------------------------------------ *)
(* mk_futures, valid_fin, batched                                       *)
(* ------------------------------------------------------------------ *)

Lemma mk_futures_fst : forall l n, map fst (mk_futures n l) = seq n (length l).
Proof. induction l as [|i l IH]; cbn; intros; [reflexivity|]. rewrite IH. reflexivity. Qed.

Lemma mk_futures_snd : forall l n, map snd (mk_futures n l) = l.
Proof. induction l as [|i l IH]; cbn; intros; [reflexivity|]. rewrite IH. reflexivity. Qed.

Lemma mk_futures_length : forall l n, length (mk_futures n l) = length l.
Proof. intros. rewrite <- (map_length fst), mk_futures_fst, seq_length. reflexivity. Qed.

Lemma mk_futures_In : forall l n f i, In (f, i) (mk_futures n l) -> n <= f < n + length l /\ In i l.
Proof.
  intros l n f i H. split.
  - assert (H1 : In f (map fst (mk_futures n l))) by (apply in_map_iff; exists (f, i); auto).
    rewrite mk_futures_fst in H1. apply in_seq in H1. lia.
  - assert (H1 : In i (map snd (mk_futures n l))) by (apply in_map_iff; exists (f, i); auto).
    rewrite mk_futures_snd in H1. exact H1.
Qed.

Lemma mk_futures_nodup : forall l n, NoDup (map fst (mk_futures n l)).
Proof. intros. rewrite mk_futures_fst. apply seq_NoDup. Qed.

Lemma mk_futures_lookup_None : forall l n f, f < n \/ n + length l <= f -> lookup f (mk_futures n l) = None.
Proof.
  intros. apply lookup_None. rewrite mk_futures_fst. rewrite in_seq. lia.
Qed.

Lemma mk_futures_In_snd : forall l n i, In i l -> exists f, In (f, i) (mk_futures n l).
Proof.
  intros l n i H. rewrite <- (mk_futures_snd l n) in H. apply in_map_iff in H.
  destruct H as [[f i'] [H1 H2]]. cbn in H1. subst. eauto.
Qed.

Lemma valid_fin_In : forall p l seen t ok,
  In (t, ok) (valid_fin p seen l) -> In t p /\ ~ In t seen.
Proof.
  induction l as [|[t0 ok0] l IH]; cbn; intros seen t ok H; [tauto|].
  destruct (mem_nat t0 p && negb (mem_nat t0 seen)) eqn:E.
  - apply Bool.andb_true_iff in E. destruct E as [E1 E2].
    apply mem_nat_In in E1. apply Bool.negb_true_iff in E2. apply mem_nat_nIn in E2.
    destruct H as [H|H].
    + inversion H; subst. auto.
    + apply IH in H. destruct H as [H1 H2]. split; auto. intros H3. apply H2. right. exact H3.
  - eauto.
Qed.

Lemma valid_fin_nodup : forall p l seen, NoDup (map fst (valid_fin p seen l)).
Proof.
  induction l as [|[t0 ok0] l IH]; cbn; intros seen; [constructor|].
  destruct (mem_nat t0 p && negb (mem_nat t0 seen)) eqn:E; [|auto].
  cbn. constructor; [|auto].
  intros H. apply in_map_iff in H. destruct H as [[t ok] [H1 H2]]. cbn in H1. subst t.
  apply valid_fin_In in H2. destruct H2 as [_ H2]. apply H2. left. reflexivity.
Qed.

Lemma fold_remove_In : forall (l : list (fid * bool)) p f,
  In f (fold_left (fun p tb => remove_nat (fst tb) p) l p) <-> In f p /\ ~ In f (map fst l).
Proof.
  induction l as [|[t ok] l IH]; cbn; intros p f.
  - tauto.
  - rewrite IH, In_remove_nat. split.
    + intros [[H1 H2] H3]. split; auto. intros [H|H]; auto.
    + intros [H1 H2]. split; [split|]; auto.
Qed.

Lemma batched_fuel_ne : forall fuel l n, 1 <= n -> forall x, In x (batched_fuel fuel l n) -> x <> [].
Proof.
  induction fuel as [|fuel IH]; cbn; intros l n Hn x H; [tauto|].
  destruct l as [|a l]; [tauto|].
  destruct H as [H|H].
  - subst x. destruct n; [lia|]. cbn. discriminate.
  - eapply IH; eauto.
Qed.

Lemma batched_fuel_concat : forall fuel l n, 1 <= n -> length l <= fuel -> concat (batched_fuel fuel l n) = l.
Proof.
  induction fuel as [|fuel IH]; intros l n Hn Hl.
  - destruct l; cbn in *; [reflexivity|lia].
  - destruct l as [|a l]; [reflexivity|].
    change (firstn n (a :: l) ++ concat (batched_fuel fuel (skipn n (a :: l)) n) = a :: l).
    rewrite IH; auto.
    + apply firstn_skipn.
    + rewrite skipn_length. cbn [length] in *. lia.
Qed.

(* ------------------------------------------------------------------ *)
(* retry                                                                *)
(* ------------------------------------------------------------------ *)

Lemma retry_loop_le : forall b o m, fst (retry_loop b o m) <= m + b.
Proof.
  induction b as [|b IH]; cbn; intros o m; [lia|].
  destruct o as [|[|] o]; cbn; try lia.
  specialize (IH o (S m)). lia.
Qed.

Theorem retry_attempts_le : forall r o, fst (retry r o) <= S r.
Proof. intros. unfold retry. pose proof (retry_loop_le (S r) o 0). lia. Qed.

Lemma retry_loop_snd : forall b o m, b <= length o ->
  (snd (retry_loop b o m) = true <-> exists k, k < b /\ nth k o false = true).
Proof.
  induction b as [|b IH]; cbn; intros o m Hl.
  - split; [discriminate|]. intros [k [H _]]. lia.
  - destruct o as [|[|] o]; cbn in *; [lia| |].
    + split; auto. intros _. exists 0. split; [lia|reflexivity].
    + rewrite IH by lia. split.
      * intros [k [H1 H2]]. exists (S k). split; [lia|exact H2].
      * intros [k [H1 H2]]. destruct k as [|k]; [discriminate|]. exists k. split; [lia|exact H2].
Qed.

Theorem retry_succeeds_iff : forall r o, r < length o ->
  (snd (retry r o) = true <-> exists k, k <= r /\ nth k o false = true).
Proof.
  intros r o H. unfold retry. rewrite retry_loop_snd by lia.
  split; intros [k [H1 H2]]; exists k; split; auto; lia.
Qed.

Lemma retry_loop_first : forall b o m k, k < b -> nth k o false = true ->
  (forall j, j < k -> nth j o false = false) -> retry_loop b o m = (S (m + k), true).
Proof.
  induction b as [|b IH]; intros o m k Hk Hn Hj; [lia|].
  destruct o as [|x o]; [destruct k; discriminate|].
  destruct k as [|k].
  - cbn in Hn. subst x. cbn. f_equal. lia.
  - assert (Hx : x = false) by (apply (Hj 0); lia). subst x. cbn.
    rewrite (IH o (S m) k); [f_equal; lia|lia|exact Hn|].
    intros j Hlt. apply (Hj (S j)). lia.
Qed.

Theorem retry_first_success : forall r o k, r < length o -> nth k o false = true ->
  (forall j, j < k -> nth j o false = false) -> k <= r -> retry r o = (S k, true).
Proof.
  intros r o k _ Hn Hj Hk. unfold retry. rewrite (retry_loop_first (S r) o 0 k); auto. lia.
Qed.

(* ------------------------------------------------------------------ *)
(* the invariant                                                        *)
(* ------------------------------------------------------------------ *)

Ltac prj := cbn [next tasks pending backups starts ends superseded cancelled completed
                 batches yielded submitted stat set_stat] in *.

Definition live (s : st) (todo : list (fid * bool)) (f : fid) : Prop :=
  In f (pending s) \/ In f (map fst todo).

Definition genuine (s : st) (t : fid) : Prop :=
  exists i, lookup t (tasks s) = Some i /\ lookup t (completed s) = Some false /\
    forall f b, In (f, (i, b)) (submitted s) -> lookup f (completed s) = Some false.

Section Inv.
Variable c : cfg.
Variable ins : list input.
Hypothesis Hrep : repaired c.
Hypothesis Hb : batch_ok c.
Hypothesis Hnd : NoDup ins.

Record Safe (s : st) : Prop := {
  S_fst : map fst (submitted s) = rev (seq 0 (next s));
  S_snd : NoDup (map snd (submitted s));
  S_task : forall f i b, In (f, (i, b)) (submitted s) -> lookup f (tasks s) = Some i;
  S_task' : forall f i, lookup f (tasks s) = Some i -> exists b, In (f, (i, b)) (submitted s);
  S_ins : forall f i b, In (f, (i, b)) (submitted s) -> In i ins;
  S_bk : forall f i, In (f, (i, true)) (submitted s) -> exists t, In (t, (i, false)) (submitted s);
  C_nodup : NoDup (map fst (completed s));
  C_lt : forall f, In f (map fst (completed s)) -> f < next s;
  Y_nodup : NoDup (map snd (yielded s));
  Y_ok : forall t i, In (t, i) (yielded s) ->
           lookup t (completed s) = Some true /\ lookup t (tasks s) = Some i;
  St_crash : stat s <> Crashed;
  St_raise : forall t, stat s = Raised t -> genuine s t;
  St_done : stat s = Done -> forall i, In i ins -> In i (map snd (yielded s));
}.

Record Struct (s : st) (todo : list (fid * bool)) : Prop := {
  T_nodup : NoDup (map fst todo);
  T_comp : forall t ok, In (t, ok) todo -> lookup t (completed s) = Some ok;
  T_pend : forall t, In t (map fst todo) -> ~ In t (pending s);
  R_pend : forall f, In f (pending s) -> f < next s;
  R_starts : forall f, f < next s -> In f (starts s);
  R_ends : forall f, In f (ends s) -> f < next s;
  R_super : forall f, In f (superseded s) -> f < next s;
  R_bk : forall x y, lookup x (backups s) = Some y -> x < next s /\ y < next s;
  R_comp : forall f, lookup f (completed s) <> None -> ~ In f (pending s);
  Sup_pend : forall f, In f (superseded s) -> ~ In f (pending s);
  Can_sup : forall f, In f (cancelled s) -> In f (superseded s);
  B_off : use_backups c = false -> backups s = [];
  B_sym : forall x y, lookup x (backups s) = Some y -> lookup y (backups s) = Some x;
  B_irr : forall x y, lookup x (backups s) = Some y -> x <> y;
  B_twin : forall x y, lookup x (backups s) = Some y -> exists i,
     (In (x, (i, false)) (submitted s) /\ In (y, (i, true)) (submitted s)) \/
     (In (y, (i, false)) (submitted s) /\ In (x, (i, true)) (submitted s));
  B_nsup : forall x y, lookup x (backups s) = Some y -> ~ In y (superseded s);
  B_live : forall x y, lookup x (backups s) = Some y ->
     live s todo y \/ lookup y (completed s) = Some false;
  P1 : forall t, live s todo t -> ~ In t (superseded s) -> lookup t (backups s) = None ->
     exists i, In (t, (i, false)) (submitted s) /\ forall f, ~ In (f, (i, true)) (submitted s);
  P3 : forall t i, live s todo t -> ~ In t (superseded s) -> lookup t (tasks s) = Some i ->
     ~ In i (map snd (yielded s));
  P4 : forall t b i, In (t, (i, false)) (submitted s) -> In (b, (i, true)) (submitted s) ->
     lookup t (backups s) = Some b \/
     ((~ live s todo t \/ In t (superseded s)) /\ (~ live s todo b \/ In b (superseded s)));
  P5 : forall t i, In (t, (i, false)) (submitted s) ->
     In i (map snd (yielded s)) \/ (live s todo t /\ ~ In t (superseded s)) \/
     (exists b, lookup t (backups s) = Some b /\ live s todo b);
  Bt_ne : forall l, In l (batches s) -> l <> [];
  Bt_nodup : NoDup (concat (batches s));
  Bt_fresh : forall i, In i (concat (batches s)) ->
     In i ins /\ forall f b, ~ In (f, (i, b)) (submitted s);
  Bt_cover : forall i, In i ins ->
     In i (concat (batches s)) \/ exists t, In (t, (i, false)) (submitted s);
  Bt_none : batch c = None -> batches s = [];
}.

Definition Inv (s : st) (todo : list (fid * bool)) : Prop :=
  Safe s /\ (stat s = Running -> Struct s todo).

(* consequences of Safe *)
Lemma sub_lt : forall s f x, Safe s -> In (f, x) (submitted s) -> f < next s.
Proof.
  intros s f x HS H.
  assert (H1 : In f (map fst (submitted s))) by (apply in_map_iff; exists (f, x); auto).
  rewrite (S_fst _ HS) in H1. apply in_rev in H1. apply in_seq in H1. lia.
Qed.

Lemma sub_fst_nodup : forall s, Safe s -> NoDup (map fst (submitted s)).
Proof.
  intros s HS. rewrite (S_fst _ HS). apply NoDup_rev. apply seq_NoDup.
Qed.

Lemma task_lt : forall s f i, Safe s -> lookup f (tasks s) = Some i -> f < next s.
Proof.
  intros s f i HS H. apply (S_task' _ HS) in H. destruct H as [b H]. eapply sub_lt; eauto.
Qed.

Lemma lt_task : forall s f, Safe s -> f < next s -> exists i, lookup f (tasks s) = Some i.
Proof.
  intros s f HS H.
  assert (H1 : In f (map fst (submitted s))).
  { rewrite (S_fst _ HS). apply -> in_rev. apply in_seq. lia. }
  apply in_map_iff in H1. destruct H1 as [[f' [i b]] [H1 H2]]. cbn in H1. subst f'.
  exists i. eapply S_task; eauto.
Qed.

(* two submissions of the same input with the same role are the same future *)
Lemma sub_same : forall s f f' i b, Safe s ->
  In (f, (i, b)) (submitted s) -> In (f', (i, b)) (submitted s) -> f = f'.
Proof. intros s f f' i b HS H1 H2. eapply nodup_snd_inj; eauto using S_snd. Qed.

(* a future is submitted in one role only *)
Lemma sub_role : forall s f i i' b b', Safe s ->
  In (f, (i, b)) (submitted s) -> In (f, (i', b')) (submitted s) -> i = i' /\ b = b'.
Proof.
  intros s f i i' b b' HS H1 H2.
  assert (H : (i, b) = (i', b')) by (eapply nodup_fst_inj; eauto using sub_fst_nodup).
  inversion H; auto.
Qed.

Lemma comp_lookup_lt : forall s f, Safe s -> lookup f (completed s) <> None -> f < next s.
Proof.
  intros s f HS H. apply (C_lt _ HS). destruct (lookup f (completed s)) eqn:E; [|congruence].
  eapply lookup_Some_In_fst; eauto.
Qed.
