From CubedV Require Import Model.Util Model.Dag Model.DagObs.
Lemma placeholder_c02 : sort_nat [3;1;2] = [1;2;3]. Proof. reflexivity. Qed.
