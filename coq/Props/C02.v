From CubedV Require Import Model.Util Model.Keys Model.Fusion Model.Memory Model.Dag.
From CubedV Require Import Proofs.FusionProofs Proofs.DagProofs.

(* T0: a requested array is never among the arrays a fusion step removes *)
Theorem C02_requested_not_removed : forall (B : Type) (c : optcfg) (d : dag B) (o : opnode B) (a : name),
  In a (requested c) -> ~ In a (removed_by B c d o).
Proof. exact requested_not_removed. Qed.
Print Assumptions C02_requested_not_removed.

(* T1: one fusion step leaves the value of every surviving array unchanged *)
Theorem C02_fuse_predecessors_preserves : forall (B : Type) (c : optcfg) (d : dag B) (o : opnode B)
  (e0 : env B) (k : key),
  wf_ops B (dops B d) -> In o (dops B d) ->
  (forall p, prim B o = Some p -> op_unfused B p) ->
  ~ In (fst k) (removed_by B c d o) ->
  eval B (fuse_predecessors B c d o) e0 k = eval B d e0 k.
Proof. exact fuse_predecessors_preserves. Qed.
Print Assumptions C02_fuse_predecessors_preserves.

(* T2: well-formedness is preserved when the visited op is still unfused (this side
   condition is needed: see C02_fuse_predecessors_wf_needs_unfused), and ops other
   than o are untouched or removed *)
Theorem C02_fuse_predecessors_wf : forall (B : Type) (c : optcfg) (d : dag B) (o : opnode B),
  wf_ops B (dops B d) -> In o (dops B d) ->
  (forall p, prim B o = Some p -> op_unfused B p) ->
  wf_ops B (dops B (fuse_predecessors B c d o)).
Proof. exact fuse_predecessors_wf. Qed.
Print Assumptions C02_fuse_predecessors_wf.

Theorem C02_fuse_predecessors_wf_needs_unfused :
  exists (c : optcfg) (d : dag unit) (o : opnode unit),
    wf_ops unit (dops unit d) /\ In o (dops unit d) /\
    ~ wf_ops unit (dops unit (fuse_predecessors unit c d o)).
Proof.
  exists WfCounterexample.ccfg, WfCounterexample.cdag, WfCounterexample.cop2.
  exact WfCounterexample.fuse_predecessors_wf_needs_unfused.
Qed.
Print Assumptions C02_fuse_predecessors_wf_needs_unfused.

Theorem C02_fuse_predecessors_others : forall (B : Type) (c : optcfg) (d : dag B) (o x : opnode B),
  In x (dops B (fuse_predecessors B c d o)) -> oid B x <> oid B o -> In x (dops B d).
Proof. exact fuse_predecessors_others. Qed.
Print Assumptions C02_fuse_predecessors_others.

(* T3: the property - the optimizer never changes the value of a requested array *)
Theorem C02_optimize_preserves : forall (B : Type) (c : optcfg) (order : list nat) (d : dag B)
  (e0 : env B) (a : name) (cs : list nat),
  wf_ops B (dops B d) -> all_unfused B (dops B d) -> NoDup order ->
  In a (requested c) ->
  eval B (optimize B c order d) e0 (a, cs) = eval B d e0 (a, cs).
Proof. exact optimize_preserves. Qed.
Print Assumptions C02_optimize_preserves.

(* T4: every requested array is still produced by an op of the same kind *)
Theorem C02_requested_still_materialized : forall (B : Type) (c : optcfg) (order : list nat) (d : dag B)
  (a : name) (o : opnode B),
  wf_ops B (dops B d) -> In a (requested c) -> In o (dops B d) -> In a (outs B o) ->
  exists o', In o' (dops B (optimize B c order d)) /\ oid B o' = oid B o /\ In a (outs B o')
             /\ is_prim B o' = is_prim B o.
Proof. exact requested_still_materialized. Qed.
Print Assumptions C02_requested_still_materialized.

(* non-vacuity: a 3-op chain  (input) -> 1 -> op 2 -> 2 -> op 3 -> 3  satisfies every
   premise of T3, and the optimizer really fuses op 2 into op 3 *)
Definition ex_p2 : primop nat :=
  {| bw := true; fpred := true; fsucc := true; ntasks := 1; proj := 0; allowed := 0; reserved := 0;
     nib := [1]; chunkmem := 0; srcs := [1];
     kf := fun k => (fst k, [KLeaf (1, snd k)]);
     fn := fun args => match args with [VLeaf b] => S b | _ => 0 end |}.
Definition ex_p3 : primop nat :=
  {| bw := true; fpred := true; fsucc := true; ntasks := 1; proj := 0; allowed := 0; reserved := 0;
     nib := [1]; chunkmem := 0; srcs := [2];
     kf := fun k => (fst k, [KLeaf (2, snd k)]);
     fn := fun args => match args with [VLeaf b] => 2 * b | _ => 0 end |}.
Definition ex_o1 : opnode nat := {| oid := 1; ins := []; outs := [1]; prim := None |}.
Definition ex_o2 : opnode nat := {| oid := 2; ins := [1]; outs := [2]; prim := Some ex_p2 |}.
Definition ex_o3 : opnode nat := {| oid := 3; ins := [2]; outs := [3]; prim := Some ex_p3 |}.
Definition ex_dag : dag nat := {| dops := [ex_o1; ex_o2; ex_o3]; virtuals := [] |}.
Definition ex_cfg : optcfg :=
  {| requested := [3]; max_src := 4; max_nib := None; always_fuse := []; never_fuse := [] |}.

Example C02_nonvacuous :
  wf_ops nat (dops nat ex_dag) /\ all_unfused nat (dops nat ex_dag) /\ NoDup [1; 2; 3] /\
  In 3 (requested ex_cfg) /\
  map (oid nat) (dops nat (optimize nat ex_cfg [1; 2; 3] ex_dag)) = [1; 3] /\
  length (dops nat (optimize nat ex_cfg [1; 2; 3] ex_dag)) = 2 /\
  eval nat (optimize nat ex_cfg [1; 2; 3] ex_dag) (fun _ => 5) (3, [0]) = 12 /\
  eval nat ex_dag (fun _ => 5) (3, [0]) = 12.
Proof.
  split; [|split; [|split; [|split; [|split; [|split; [|split]]]]]].
  - split; [|split; [|split]].
    + cbn. repeat constructor; cbn; intuition discriminate.
    + cbn. repeat constructor; cbn; intuition discriminate.
    + apply topo_iff. cbn. intuition congruence.
    + intros x q Hx Hq. cbn in Hx. destruct Hx as [<-|[<-|[<-|[]]]]; cbn in Hq; try discriminate;
        injection Hq as <-; (split; [|split]); cbn; auto.
      * intros a H; exact H.
      * intros k t l [<-|[]]. cbn. intros [<-|[]]. cbn. auto.
      * intros a H; exact H.
      * intros k t l [<-|[]]. cbn. intros [<-|[]]. cbn. auto.
  - intros x q Hx Hq. cbn in Hx. destruct Hx as [<-|[<-|[<-|[]]]]; cbn in Hq; try discriminate;
      injection Hq as <-; intros k; reflexivity.
  - repeat constructor; cbn; intuition discriminate.
  - left. reflexivity.
  - vm_compute. reflexivity.
  - vm_compute. reflexivity.
  - vm_compute. reflexivity.
  - vm_compute. reflexivity.
Qed.
Print Assumptions C02_nonvacuous.
