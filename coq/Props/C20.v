(* C20: serialized arrays compute the same and are never confused with other arrays. *)
From CubedV Require Import Model.Util Model.Naming Proofs.NamingProofs.

Theorem C20_merge_faithful : forall (V : Type) (inp : nat -> V) (opf : nat -> list V -> V) fuel p1 p2 a v,
  compatible p1 p2 = true -> NoDup (names p1) ->
  den_fuel V inp opf fuel p1 a = Some v -> den_fuel V inp opf fuel (merge p1 p2) a = Some v.
Proof. exact merge_faithful. Qed.
Print Assumptions C20_merge_faithful.

Theorem C20_merge_faithful_r : forall (V : Type) (inp : nat -> V) (opf : nat -> list V -> V) fuel p1 p2 a v,
  compatible p2 p1 = true -> NoDup (names p2) ->
  den_fuel V inp opf fuel p2 a = Some v -> den_fuel V inp opf fuel (merge p1 p2) a = Some v.
Proof. exact merge_faithful_r. Qed.
Print Assumptions C20_merge_faithful_r.

Theorem C20_registry_bound : forall (p : proc),
  (forall k n, In (k, n) (registry p) -> k <= counter p) ->
  forall n, let (p', k) := fresh p n in
    k = S (counter p) /\ lookup k (registry p) = None /\ (forall k' n', In (k', n') (registry p') -> k' <= counter p').
Proof. exact registry_bound. Qed.
Print Assumptions C20_registry_bound.

(* D12 (known finding): names from two processes collide *)
Example C20_cross_process_collision_refuted :
  let inp (d : nat) := d in
  let opf (f : nat) (l : list nat) := f + sumn l in
  let remote : plan := [(2, NOp 100 [1]); (1, NInp 10)] in
  let local : plan := [(2, NOp 200 [1]); (1, NInp 33)] in
  compatible remote local = false /\
  den_fuel nat inp opf 5 remote 2 = Some 110 /\
  den_fuel nat inp opf 5 (merge remote local) 2 = Some 233.
Proof. exact cross_process_collision_refuted. Qed.
