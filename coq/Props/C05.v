(* C05: every stored chunk has exactly one writer task, written whole; outputs covered. *)

From CubedV Require Import Model.Util Model.Geometry Model.StoreRegion Model.Rechunk Proofs.GeometryProofs Proofs.StoreProofs Proofs.RechunkProofs.
From Coq Require Import Sorted ZArith.


Theorem C05_touched_spec : forall n c t b j, 0 < t -> 0 < c -> b * c < n ->
  (In j (touched n c t b) <->
   (j * t < n /\ overlaps (blk_lo t j, blk_hi n t j) (blk_lo c b, blk_hi n c b))).
Proof. exact (touched_spec). Qed.
Print Assumptions C05_touched_spec.

Theorem C05_one_writer_axis : forall n c t j, 0 < t -> 0 < c -> (c mod t = 0 \/ n <= c) -> j * t < n ->
  exists b, b * c < n /\ writes_whole n c t b j = true /\
    forall b', b' * c < n -> overlaps (blk_lo t j, blk_hi n t j) (blk_lo c b', blk_hi n c b') -> b' = b.
Proof. exact (one_writer_axis). Qed.
Print Assumptions C05_one_writer_axis.

Theorem C05_touched_whole : forall n c t b, 0 < t -> 0 < c -> b * c < n -> (c mod t = 0 \/ n <= c) ->
  forallb (writes_whole n c t b) (touched n c t b) = true.
Proof. exact (touched_whole). Qed.
Print Assumptions C05_touched_whole.

Theorem C05_misaligned_shares_chunk :
  exists n c t b b' j, b <> b' /\ In j (touched n c t b) /\ In j (touched n c t b').
Proof. exact (misaligned_shares_chunk). Qed.
Print Assumptions C05_misaligned_shares_chunk.

Theorem C05_store_task_chunks_aligned : forall scs tcs nbs i,
  length scs = length tcs -> length nbs = length tcs -> i < length tcs ->
  0 < nth i tcs 0 ->
  (nth i (store_task_chunks scs tcs nbs) 0) mod (nth i tcs 0) = 0 \/ nth i nbs 0 <= 1.
Proof. exact (store_task_chunks_aligned). Qed.
Print Assumptions C05_store_task_chunks_aligned.

Theorem C05_blocks_nodup : forall nb, NoDup (blocks nb).
Proof. exact (blocks_nodup). Qed.
Print Assumptions C05_blocks_nodup.

Theorem C05_blocks_complete : forall nb b, In b (blocks nb) <-> Forall2 lt b nb.
Proof. exact (blocks_complete). Qed.
Print Assumptions C05_blocks_complete.

Theorem C05_regions_partition : forall chunks x, Forall2 (fun c xi => xi < sumn c) chunks x ->
  exists b, In b (blocks (map (@length nat) chunks)) /\ in_region (get_item chunks b) x = true
  /\ forall b', In b' (blocks (map (@length nat) chunks)) -> in_region (get_item chunks b') x = true -> b' = b.
Proof. exact (regions_partition). Qed.
Print Assumptions C05_regions_partition.

Example C05_aligned_tasks_write_whole_chunks : forallb (writes_whole 10 4 2 1) (touched 10 4 2 1) = true.
Proof. reflexivity. Qed.
Example C05_misaligned_tasks_share_a_chunk : touched 10 3 2 0 = [0; 1] /\ touched 10 3 2 1 = [1; 2].
Proof. split; reflexivity. Qed.

(* irregular and regular rechunk copies (sizes in Z, from Model.Rechunk) *)
Local Open Scope Z_scope.

Theorem C05_split_refines : forall n sc tc l1 x y l2, 0 < n -> 0 < sc -> 0 < tc ->
  boundaries n sc tc = l1 ++ x :: y :: l2 ->
  x < y /\ x / sc = (y - 1) / sc /\ x / tc = (y - 1) / tc.
Proof. exact split_refines. Qed.
Print Assumptions C05_split_refines.

Theorem C05_fix_copy_spec : forall shape cc tc, allpos shape -> allpos cc -> allpos tc ->
  length cc = length shape -> length tc = length shape ->
  let r := fix_copy_chunks shape cc tc in
  length r = length shape /\ allpos r /\ le_all r cc /\
  forall i, (i < length shape)%nat ->
    nth i r 0 <= nth i tc 0 \/ nth i r 0 = nth i shape 0 \/ (nth i r 0) mod (nth i tc 0) = 0.
Proof. exact fix_copy_spec. Qed.
Print Assumptions C05_fix_copy_spec.

