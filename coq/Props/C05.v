From CubedV Require Import Model.Util Model.Geometry Model.StoreRegion.
Lemma placeholder_c05 : touched 10 4 2 1 = [2; 3]. Proof. reflexivity. Qed.
