From CubedV Require Import Model.Util Model.Keys Model.Exec Model.ExecObs.
Lemma placeholder_c09 : resume_skips [(1,[0])] [(false, [(1,[0])]); (false, [(2,[0])])] = [true; false]. Proof. reflexivity. Qed.
