(* C09: resume after a crash gives the same result and never trusts an incomplete array. *)

From CubedV Require Import Model.Util Model.Keys Model.Exec Model.ExecObs Model.Resume Proofs.ExecProofs Proofs.ResumeProofs.
From Coq Require Import Permutation.


Theorem C09_resume_correct : forall (V : Type) (always : op V -> bool) (p : list (op V)) (s0 sc : store V),
  plan_ok V p -> crash_state V p s0 sc ->
  seq V (resume_plan V always sc p) (run_plan V s0 p).
Proof. exact (resume_correct). Qed.
Print Assumptions C09_resume_correct.

Theorem C09_skip_only_complete : forall (V : Type) (s : store V) (o : op V), complete V s o = true ->
  forall k, mem_key k (op_writes V o) = true -> exists v, s k = Some v.
Proof. exact (skip_only_complete). Qed.
Print Assumptions C09_skip_only_complete.

Theorem C09_never_wipes : forall (V : Type) (always : op V -> bool) (p : list (op V)) (sc : store V) k v,
  sc k = Some v -> exists v', resume_plan V always sc p k = Some v'.
Proof. exact (never_wipes). Qed.
Print Assumptions C09_never_wipes.

Theorem C09_final_if_present : forall (V : Type) (done rest : list (op V)) (o : op V) (s0 : store V)
    (ws : list (task V * key)),
  plan_ok V (done ++ o :: rest) ->
  (forall o' k, In o' (o :: rest) -> mem_key k (op_writes V o') = true -> s0 k = None) ->
  (forall tw, In tw ws -> In (fst tw) o /\ mem_key (snd tw) (t_writes V (fst tw)) = true) ->
  let s1 := run_plan V s0 done in
  crash_state V (done ++ o :: rest) s0
    (fold_left (fun s tw => write_one V s1 (fst tw) (snd tw) s) ws s1).
Proof. exact (final_if_present). Qed.
Print Assumptions C09_final_if_present.

Theorem C09_final_if_present_gen : forall (V : Type) (done rest : list (op V)) (o : op V) (s0 : store V)
    (ws : list (task V * key)),
  plan_ok V (done ++ o :: rest) ->
  (forall o' k v, In o' (o :: rest) -> mem_key k (op_writes V o') = true -> s0 k = Some v ->
     run_plan V s0 (done ++ o :: rest) k = Some v) ->
  (forall tw, In tw ws -> In (fst tw) o /\ mem_key (snd tw) (t_writes V (fst tw)) = true) ->
  let s1 := run_plan V s0 done in
  crash_state V (done ++ o :: rest) s0
    (fold_left (fun s tw => write_one V s1 (fst tw) (snd tw) s) ws s1).
Proof. exact (final_if_present_gen). Qed.
Print Assumptions C09_final_if_present_gen.

Theorem C09_final_if_present_unrestricted_false :
  ~ (forall (done rest : list (op nat)) (o : op nat) (s0 : store nat) (ws : list (task nat * key)),
      plan_ok nat (done ++ o :: rest) ->
      (forall tw, In tw ws -> In (fst tw) o /\ mem_key (snd tw) (t_writes nat (fst tw)) = true) ->
      let s1 := run_plan nat s0 done in
      crash_state nat (done ++ o :: rest) s0
        (fold_left (fun s tw => write_one nat s1 (fst tw) (snd tw) s) ws s1)).
Proof. exact (final_if_present_unrestricted_false). Qed.
Print Assumptions C09_final_if_present_unrestricted_false.

Example C09_resume_decision : resume_skips [(1,[0])] [(false, [(1,[0])]); (false, [(2,[0])]); (true, [(1,[0])])] = [true; false; false].
Proof. reflexivity. Qed.

(* -- Resume.v: already_computed in the shape the source is translated into on every run ---------------------------- *)
Theorem C09_skipped_only_if_complete : forall outs,
  already_computedZ true outs = Some true ->
  (exists t, In t outs /\ t <> NoTarget) /\
  forall t, In t outs -> t = NoTarget \/ exists nd n, t = Arr nd n n /\ nd <> 0%Z.
Proof. exact (skipped_only_if_complete). Qed.
Print Assumptions C09_skipped_only_if_complete.

Theorem C09_complete_is_skipped : forall outs,
  (exists t, In t outs /\ t <> NoTarget) ->
  (forall t, In t outs -> t = NoTarget \/ exists nd n, t = Arr nd n n /\ nd <> 0%Z) ->
  already_computedZ true outs = Some true.
Proof. exact (complete_is_skipped). Qed.
Print Assumptions C09_complete_is_skipped.

Theorem C09_create_arrays_never_skipped : forall outs, (forall t, In t outs -> t = NoTarget) -> already_computedZ true outs = Some false.
Proof. exact (create_arrays_never_skipped). Qed.
Print Assumptions C09_create_arrays_never_skipped.

Theorem C09_incomplete_output_not_skipped : forall outs t,
  In t outs -> (t = Missing \/ exists nd nci n, t = Arr nd nci n /\ (nd = 0%Z \/ nci <> n)) ->
  already_computedZ true outs <> Some true.
Proof. exact (incomplete_output_not_skipped). Qed.
Print Assumptions C09_incomplete_output_not_skipped.

Example C09_already_computed_example :
  already_computedZ true [NoTarget; Arr 1 4 4; Arr 2 6 6] = Some true /\
  already_computedZ true [Arr 1 2 4] = Some false /\ already_computedZ true [Arr 0 1 1] = Some false /\
  already_computedZ true [Arr 1 4 4; Missing] = Some false /\ already_computedZ true [NoTarget] = Some false /\
  already_computedZ true [NoProp] = None.
Proof. vm_compute. repeat split. Qed.
