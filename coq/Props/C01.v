(* C01: computed values equal NumPy's - the addressing laws the block-level computation rests on. *)

From CubedV Require Import Model.Util Model.Keys Model.Geometry Model.OpsKF Model.ShapeSem Proofs.GeometryProofs Proofs.OpsKFProofs Proofs.ShapeSemProofs.
From CubedV Require Import Model.Selection Proofs.SelectionProofs.
From CubedV Require Import Model.StridedIndex Proofs.StridedIndexProofs Model.IndexGuard Proofs.IndexGuardProofs.
From Coq Require Import Permutation.


Theorem C01_pr_groups_partition : forall k nb x, 0 < k -> x < nb ->
  exists bi, bi < pr_numblocks k nb /\ In x (pr_group k nb bi) /\
    forall bj, In x (pr_group k nb bj) -> bj = bi.
Proof. exact (pr_groups_partition). Qed.
Print Assumptions C01_pr_groups_partition.

Theorem C01_pr_groups_inside : forall k nb bi, 0 < k -> bi < pr_numblocks k nb ->
  pr_group k nb bi <> [] /\ (forall x, In x (pr_group k nb bi) -> x < nb) /\
  length (pr_group k nb bi) <= k.
Proof. exact (pr_groups_inside). Qed.
Print Assumptions C01_pr_groups_inside.

Theorem C01_tree_reduce_terminates : forall d k nb, 2 <= k -> 0 < nb -> nb <= k ^ d ->
  tree_rounds d k nb = 1.
Proof. exact (tree_reduce_terminates). Qed.
Print Assumptions C01_tree_reduce_terminates.

Theorem C01_scan_addressing : forall bi, (bi / 5) * 5 + bi mod 5 = bi /\ bi mod 5 < 5.
Proof. exact (scan_addressing). Qed.
Print Assumptions C01_scan_addressing.

Theorem C01_stack_unstack_coords : forall axis l v, axis <= length l ->
  remove_at axis (insert_at axis v l) = l /\ nth axis (insert_at axis v l) 0 = v.
Proof. exact (stack_unstack_coords). Qed.
Print Assumptions C01_stack_unstack_coords.

Theorem C01_unstack_stack_coords : forall axis l, axis < length l ->
  insert_at axis (nth axis l 0) (remove_at axis l) = l.
Proof. exact (unstack_stack_coords). Qed.
Print Assumptions C01_unstack_stack_coords.

Theorem C01_regions_partition : forall chunks x, Forall2 (fun c xi => xi < sumn c) chunks x ->
  exists b, In b (blocks (map (@length nat) chunks)) /\ in_region (get_item chunks b) x = true
  /\ forall b', In b' (blocks (map (@length nat) chunks)) -> in_region (get_item chunks b') x = true -> b' = b.
Proof. exact (regions_partition). Qed.
Print Assumptions C01_regions_partition.

Theorem C01_ravel_unravel : forall nb o, o < prodn nb ->
  ravel nb (unravel nb o) = o /\ Forall2 lt (unravel nb o) nb.
Proof. exact (ravel_unravel). Qed.
Print Assumptions C01_ravel_unravel.

Theorem C01_unravel_ravel : forall nb b, Forall2 lt b nb ->
  unravel nb (ravel nb b) = b /\ ravel nb b < prodn nb.
Proof. exact (unravel_ravel). Qed.
Print Assumptions C01_unravel_ravel.

Theorem C01_regular_sum : forall n c, 0 < c -> sumn (regular n c) = n.
Proof. exact (regular_sum). Qed.
Print Assumptions C01_regular_sum.

Example C01_groups : pr_group 3 8 2 = [6; 7] /\ tree_rounds 2 3 8 = 1.
Proof. split; reflexivity. Qed.

(* Selection: chunk projection of a contiguous slice and the concat key function *)

Theorem C01_sel_proj_chunks_spec :
  forall c s e ci, 0 < c ->
    (In ci (proj_chunks c s e) <-> (s < e /\ ci * c < e /\ s < (ci + 1) * c)).
Proof. exact (proj_chunks_spec). Qed.
Print Assumptions C01_sel_proj_chunks_spec.

Theorem C01_sel_proj_element :
  forall c s e x, 0 < c -> s <= x < e ->
    In (x / c) (proj_chunks c s e) /\
    fst (proj_chunk_sel c s e (x / c)) <= x - (x / c) * c < snd (proj_chunk_sel c s e (x / c)) /\
    fst (proj_out_sel c s e (x / c)) + (x - (x / c) * c - fst (proj_chunk_sel c s e (x / c))) = x - s.
Proof. exact (proj_element). Qed.
Print Assumptions C01_sel_proj_element.

Theorem C01_sel_proj_tiles :
  forall c s e, 0 < c -> s < e ->
    fst (proj_out_sel c s e (s / c)) = 0 /\
    snd (proj_out_sel c s e ((e - 1) / c)) = e - s /\
    (forall ci, s / c <= ci < (e - 1) / c ->
       snd (proj_out_sel c s e ci) = fst (proj_out_sel c s e (ci + 1))) /\
    (forall ci, In ci (proj_chunks c s e) ->
       fst (proj_out_sel c s e ci) < snd (proj_out_sel c s e ci) /\
       snd (proj_out_sel c s e ci) - fst (proj_out_sel c s e ci) =
       snd (proj_chunk_sel c s e ci) - fst (proj_chunk_sel c s e ci)).
Proof. exact (proj_tiles). Qed.
Print Assumptions C01_sel_proj_tiles.

Theorem C01_sel_bisect_pred_spec :
  forall offsets x, offsets_ok offsets -> x < last offsets 0 ->
    let i := bisect_pred offsets x in
    S i < length offsets /\ nth i offsets 0 <= x < nth (S i) offsets 0.
Proof. exact (bisect_pred_spec). Qed.
Print Assumptions C01_sel_bisect_pred_spec.

Theorem C01_sel_array_slices_cover :
  forall offsets start stop fuel, offsets_ok offsets -> start <= stop -> stop <= last offsets 0 ->
    length offsets <= fuel ->
    contiguous offsets (array_slices fuel offsets start stop) start = Some stop.
Proof. exact (array_slices_cover). Qed.
Print Assumptions C01_sel_array_slices_cover.

Example C01_sel_ex_proj_chunks : proj_chunks 4 3 10 = [0; 1; 2].
Proof. vm_compute; reflexivity. Qed.

(* inputs of lengths 5, 0, 4: the zero-length array 1 is skipped *)
Example C01_sel_ex_array_slices : array_slices 4 [0; 5; 5; 9] 3 8 = [(0, 3, 5); (2, 0, 3)].
Proof. vm_compute; reflexivity. Qed.

Example C01_sel_ex_bisect_equal_offsets : bisect_pred [0; 5; 5; 9] 5 = 2.
Proof. vm_compute; reflexivity. Qed.

(* arrays 7, 8, 9 of shapes (5,6), (0,6), (4,6), all chunked (2,3), concatenated on axis 0 into
   shape (9,6) with chunks (4,3): output block (1,1) is rows [4,8) = row 4 of array 7 (chunk 2)
   and rows [0,3) of array 9 (chunks 0 and 1) *)
Example C01_sel_ex_concat_kf :
  concat_kf [7; 8; 9] [[2; 3]; [2; 3]; [2; 3]] [0; 5; 5; 9] 0 [4; 3] [9; 6] [1; 1]
  = [(7, [2; 1]); (9, [0; 1]); (9, [1; 1])].
Proof. vm_compute; reflexivity. Qed.

(* StridedIndex: one axis indexed by a positive-step slice (chunk_len_for_indexer, _target_chunk_selection, _index_num_input_blocks) *)

Theorem C01_si_blocks_tile_selection : forall start step oc L, 0 < oc ->
  concat (map (block_positions start step oc L) (seq 0 (num_out_blocks oc L))) = map (sel_pos start step) (seq 0 L).
Proof. exact (blocks_tile_selection). Qed.
Print Assumptions C01_si_blocks_tile_selection.

Theorem C01_si_block_positions_is_slice : forall start step oc L j, 0 < step -> 0 < oc -> j < num_out_blocks oc L ->
  let (lo, hi) := block_sel start step oc L j in
  block_positions start step oc L j = map (fun i => lo + i * step) (seq 0 ((hi - lo + step - 1) / step)).
Proof. exact (block_positions_is_slice). Qed.
Print Assumptions C01_si_block_positions_is_slice.

Theorem C01_si_touched_at_most_two : forall c start step L j, 0 < c -> 0 < step -> j < num_out_blocks (out_chunk_len c step) L ->
  length (touched_chunks c (block_positions start step (out_chunk_len c step) L j)) <= 2.
Proof. exact (touched_at_most_two). Qed.
Print Assumptions C01_si_touched_at_most_two.

Theorem C01_si_touched_le_declared : forall n c start step L j, 0 < c -> 0 < step -> 0 < L -> start + (L - 1) * step < n ->
  j < num_out_blocks (out_chunk_len c step) L ->
  length (touched_chunks c (block_positions start step (out_chunk_len c step) L j))
  <= slice_nib c ((n + c - 1) / c) start step L.
Proof. exact (touched_le_declared). Qed.
Print Assumptions C01_si_touched_le_declared.

(* x[1:12:3] over chunks of 4: output chunk length 1, four output blocks reading positions 1, 4, 7, 10 (chunks 0, 1, 1, 2) *)
Example C01_si_ex : (map (block_positions 1 3 1 4) [0; 1; 2; 3], map (fun j => touched_chunks 4 (block_positions 1 3 1 4 j)) [0; 1; 2; 3], slice_nib 4 4 1 3 4)
  = ([[1]; [4]; [7]; [10]], [[0]; [1]; [1]; [2]], 2).
Proof. vm_compute; reflexivity. Qed.

(* -- IndexGuard.v: the per-axis arithmetic of basic indexing in the shape the source is translated into on every run -- *)
Theorem C01_chunk_len_view : forall start stop (c step : nat),
  chunk_lenZ (IxSlice start stop (Z.of_nat step)) (Z.of_nat c) = Z.of_nat (out_chunk_len c step).
Proof. exact (chunk_lenZ_view). Qed.
Print Assumptions C01_chunk_len_view.

Theorem C01_merged_multiple : forall start stop c step, (0 < c)%Z -> (0 < step)%Z ->
  exists k, (0 < k)%Z /\ merged_chunk_lenZ (IxSlice start stop step) c = (k * chunk_lenZ (IxSlice start stop step) c)%Z.
Proof. exact (merged_multiple). Qed.
Print Assumptions C01_merged_multiple.

Theorem C01_merged_le_chunk : forall start stop c step, (0 < c)%Z -> (0 < step)%Z -> (merged_chunk_lenZ (IxSlice start stop step) c <= c)%Z.
Proof. exact (merged_le_chunk). Qed.
Print Assumptions C01_merged_le_chunk.

Theorem C01_index_axis_factor_view : forall c nb start step L : nat, 0 < L ->
  index_axis_factorZ (IxSlice (Z.of_nat start) (Z.of_nat (canonical_stop start step L)) (Z.of_nat step))
                     (Z.of_nat c) (Z.of_nat (out_chunk_len c step)) (Z.of_nat nb)
  = Some (Z.of_nat (slice_nib c nb start step L)).
Proof. exact (index_axis_factorZ_view). Qed.
Print Assumptions C01_index_axis_factor_view.

Theorem C01_source_factor_covers_touched : forall n c start step L j,
  0 < c -> 0 < step -> 0 < L -> start + (L - 1) * step < n ->
  j < num_out_blocks (out_chunk_len c step) L ->
  exists f, index_axis_factorZ (IxSlice (Z.of_nat start) (Z.of_nat (canonical_stop start step L)) (Z.of_nat step))
                               (Z.of_nat c) (Z.of_nat (out_chunk_len c step)) (Z.of_nat ((n + c - 1) / c)) = Some f /\
            (Z.of_nat (length (touched_chunks c (block_positions start step (out_chunk_len c step) L j))) <= f)%Z.
Proof. exact (source_factor_covers_touched). Qed.
Print Assumptions C01_source_factor_covers_touched.

Example C01_index_guard_ex :
  (chunk_lenZ (IxSlice 1 12 3) 4, merged_chunk_lenZ (IxSlice 1 12 3) 4, merged_chunk_lenZ (IxSlice 0 20 2) 5,
   index_axis_factorZ (IxSlice 1 11 3) 4 1 4, index_axis_factorZ IxInt 4 1 4, index_axis_factorZ IxArr 4 4 3, index_axis_factorZ IxOther 4 4 3,
   index_num_input_blocksZ [(IxSlice 1 11 3, 4, 1, 4); (IxArr, 4, 4, 3); (IxInt, 2, 1, 5)])%Z
  = (1, 3, 4, Some 2, Some 1, Some 3, None, Some 6)%Z.
Proof. vm_compute. reflexivity. Qed.
