(* C01: computed values equal NumPy's - the addressing laws the block-level computation rests on. *)

From CubedV Require Import Model.Util Model.Keys Model.Geometry Model.OpsKF Model.ShapeSem Proofs.GeometryProofs Proofs.OpsKFProofs Proofs.ShapeSemProofs.
From Coq Require Import Permutation.


Theorem C01_pr_groups_partition : forall k nb x, 0 < k -> x < nb ->
  exists bi, bi < pr_numblocks k nb /\ In x (pr_group k nb bi) /\
    forall bj, In x (pr_group k nb bj) -> bj = bi.
Proof. exact (pr_groups_partition). Qed.
Print Assumptions C01_pr_groups_partition.

Theorem C01_pr_groups_inside : forall k nb bi, 0 < k -> bi < pr_numblocks k nb ->
  pr_group k nb bi <> [] /\ (forall x, In x (pr_group k nb bi) -> x < nb) /\
  length (pr_group k nb bi) <= k.
Proof. exact (pr_groups_inside). Qed.
Print Assumptions C01_pr_groups_inside.

Theorem C01_tree_reduce_terminates : forall d k nb, 2 <= k -> 0 < nb -> nb <= k ^ d ->
  tree_rounds d k nb = 1.
Proof. exact (tree_reduce_terminates). Qed.
Print Assumptions C01_tree_reduce_terminates.

Theorem C01_scan_addressing : forall bi, (bi / 5) * 5 + bi mod 5 = bi /\ bi mod 5 < 5.
Proof. exact (scan_addressing). Qed.
Print Assumptions C01_scan_addressing.

Theorem C01_stack_unstack_coords : forall axis l v, axis <= length l ->
  remove_at axis (insert_at axis v l) = l /\ nth axis (insert_at axis v l) 0 = v.
Proof. exact (stack_unstack_coords). Qed.
Print Assumptions C01_stack_unstack_coords.

Theorem C01_unstack_stack_coords : forall axis l, axis < length l ->
  insert_at axis (nth axis l 0) (remove_at axis l) = l.
Proof. exact (unstack_stack_coords). Qed.
Print Assumptions C01_unstack_stack_coords.

Theorem C01_regions_partition : forall chunks x, Forall2 (fun c xi => xi < sumn c) chunks x ->
  exists b, In b (blocks (map (@length nat) chunks)) /\ in_region (get_item chunks b) x = true
  /\ forall b', In b' (blocks (map (@length nat) chunks)) -> in_region (get_item chunks b') x = true -> b' = b.
Proof. exact (regions_partition). Qed.
Print Assumptions C01_regions_partition.

Theorem C01_ravel_unravel : forall nb o, o < prodn nb ->
  ravel nb (unravel nb o) = o /\ Forall2 lt (unravel nb o) nb.
Proof. exact (ravel_unravel). Qed.
Print Assumptions C01_ravel_unravel.

Theorem C01_unravel_ravel : forall nb b, Forall2 lt b nb ->
  unravel nb (ravel nb b) = b /\ ravel nb b < prodn nb.
Proof. exact (unravel_ravel). Qed.
Print Assumptions C01_unravel_ravel.

Theorem C01_regular_sum : forall n c, 0 < c -> sumn (regular n c) = n.
Proof. exact (regular_sum). Qed.
Print Assumptions C01_regular_sum.

Example C01_groups : pr_group 3 8 2 = [6; 7] /\ tree_rounds 2 3 8 = 1.
Proof. split; reflexivity. Qed.
