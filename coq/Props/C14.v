From CubedV Require Import Model.Util Model.Rechunk Proofs.RechunkProofs.
From Coq Require Import Sorted.
Local Open Scope Z_scope.

(* C14: the rechunk planner (consolidate_chunks, _fix_copy_chunks, the multistage search,
   _rechunk_plan's copy sequence) and split_chunksizes. *)

Theorem C14_split_sum : forall n sc tc, 0 < n -> 0 < sc -> 0 < tc ->
  sumz (split_chunksizes n sc tc) = n /\ allpos (split_chunksizes n sc tc).
Proof. exact split_sum. Qed.
Print Assumptions C14_split_sum.

Theorem C14_boundaries_spec : forall n sc tc b, 0 < n -> 0 < sc -> 0 < tc ->
  (In b (boundaries n sc tc) <-> (b = n \/ (0 <= b < n /\ (b mod sc = 0 \/ b mod tc = 0)))).
Proof. exact boundaries_spec. Qed.
Print Assumptions C14_boundaries_spec.

Theorem C14_boundaries_sorted : forall n sc tc, 0 < n -> 0 < sc -> 0 < tc ->
  StronglySorted Z.lt (boundaries n sc tc).
Proof. exact boundaries_sorted. Qed.
Print Assumptions C14_boundaries_sorted.

Theorem C14_split_refines : forall n sc tc l1 x y l2, 0 < n -> 0 < sc -> 0 < tc ->
  boundaries n sc tc = l1 ++ x :: y :: l2 ->
  x < y /\ x / sc = (y - 1) / sc /\ x / tc = (y - 1) / tc.
Proof. exact split_refines. Qed.
Print Assumptions C14_split_refines.

Theorem C14_consolidate_bounded : forall shape chunks itemsize max_mem lims c,
  allpos shape -> allpos chunks -> 0 < itemsize -> le_all chunks shape ->
  (match lims with Some l => length l = length shape | None => True end) ->
  consolidate_chunks shape chunks itemsize max_mem lims = POk c ->
  mem_of itemsize c <= max_mem /\ le_all chunks c /\ le_all c shape.
Proof. exact consolidate_bounded. Qed.
Print Assumptions C14_consolidate_bounded.

Theorem C14_consolidate_rejects_only_explicitly : forall shape chunks itemsize max_mem lims e,
  consolidate_chunks shape chunks itemsize max_mem lims = PErr e -> e = E_VALUE.
Proof. exact consolidate_rejects_only_explicitly. Qed.
Print Assumptions C14_consolidate_rejects_only_explicitly.

Theorem C14_fix_copy_spec : forall shape cc tc, allpos shape -> allpos cc -> allpos tc ->
  length cc = length shape -> length tc = length shape ->
  let r := fix_copy_chunks shape cc tc in
  length r = length shape /\ allpos r /\ le_all r cc /\
  forall i, (i < length shape)%nat ->
    nth i r 0 <= nth i tc 0 \/ nth i r 0 = nth i shape 0 \/ (nth i r 0) mod (nth i tc 0) = 0.
Proof. exact fix_copy_spec. Qed.
Print Assumptions C14_fix_copy_spec.

Theorem C14_shared_le : forall r w, length r = length w ->
  le_all (shared_chunks r w) r /\ le_all (shared_chunks r w) w.
Proof. exact shared_le. Qed.
Print Assumptions C14_shared_le.

Theorem C14_mem_monotone : forall itemsize a b, 0 < itemsize -> allpos a -> le_all a b ->
  mem_of itemsize a <= mem_of itemsize b.
Proof. exact mem_monotone. Qed.
Print Assumptions C14_mem_monotone.

Theorem C14_search_shape : forall regular shape itemsize min_mem read write prev table budget plan,
  (match prev with Some (_, p) => p <> [] /\ snd (last p (read, read, read)) = write
                                  /\ (forall l1 a b l2, p = l1 ++ a :: b :: l2 -> snd a = fst (fst b))
                 | None => True end) ->
  search regular shape itemsize min_mem read write prev table budget = POk plan ->
  plan <> [] /\ snd (last plan (read, read, read)) = write /\
  (forall l1 a b l2, plan = l1 ++ a :: b :: l2 -> snd a = fst (fst b)).
Proof. exact search_shape. Qed.
Print Assumptions C14_search_shape.

Theorem C14_planner_total : forall regular shape source target itemsize min_mem max_mem table,
  match multistage_plan regular shape source target itemsize min_mem max_mem table with
  | POk p => p <> []
  | PErr e => e = E_VALUE \/ e = E_ASSERT \/ e = E_TABLE
  end.
Proof. exact planner_total. Qed.
Print Assumptions C14_planner_total.

Theorem C14_planner_rejects_oversized :
  forall regular shape source target itemsize min_mem max_mem table,
  (max_mem < mem_of itemsize source \/ max_mem < mem_of itemsize target \/ max_mem < min_mem) ->
  length source = length shape -> length target = length shape ->
  multistage_plan regular shape source target itemsize min_mem max_mem table = PErr E_VALUE.
Proof. exact planner_rejects_oversized. Qed.
Print Assumptions C14_planner_rejects_oversized.

Theorem C14_plan_memory : forall regular shape source target itemsize min_mem max_mem table plan,
  allpos shape -> allpos source -> allpos target -> 0 < itemsize ->
  le_all source shape -> le_all target shape ->
  Forall (Forall (fun c => allpos c /\ length c = length shape /\ mem_of itemsize c <= max_mem)) table ->
  multistage_plan regular shape source target itemsize min_mem max_mem table = POk plan ->
  forall s, In s plan ->
    mem_of itemsize (fst (fst s)) <= max_mem /\ mem_of itemsize (snd (fst s)) <= max_mem
    /\ mem_of itemsize (snd s) <= max_mem.
Proof. exact plan_memory. Qed.
Print Assumptions C14_plan_memory.

Theorem C14_copies_end_at_target : forall target plan, plan <> [] ->
  copies_of target plan <> [] /\ snd (last (copies_of target plan) (target, [])) = target.
Proof. exact copies_end_at_target. Qed.
Print Assumptions C14_copies_end_at_target.

(* ---- non-vacuity ------------------------------------------------------------------- *)
Example C14_ex_split : split_chunksizes 20 5 7 = [5; 2; 3; 4; 1; 5].
Proof. vm_compute; reflexivity. Qed.

Example C14_ex_boundaries : boundaries 20 5 7 = [0; 5; 7; 10; 14; 15; 20].
Proof. vm_compute; reflexivity. Qed.

(* the single-stage candidate has too small an intermediate (8 bytes < min_mem), the
   two-stage candidate from the second table entry is accepted *)
Example C14_ex_two_stage :
  multistage_plan false [100; 100] [100; 1] [1; 100] 8 50 1000 [ []; [[10; 10]] ]
  = POk [([100; 1], [10; 1], [10; 10]); ([10; 10], [1; 10], [1; 100])].
Proof. vm_compute; reflexivity. Qed.

(* same geometry, no candidate reaches min_mem; the third candidate costs more IO so the
   previous (two-stage) plan is returned *)
Example C14_ex_prev_returned :
  multistage_plan false [100; 100] [100; 1] [1; 100] 8 250 1000
    [ []; [[10; 10]]; [[50; 2]; [2; 50]] ]
  = POk [([100; 1], [10; 1], [10; 10]); ([10; 10], [1; 10], [1; 100])].
Proof. vm_compute; reflexivity. Qed.

(* source chunk (800 bytes) does not fit in max_mem = 500 *)
Example C14_ex_rejected :
  multistage_plan false [100; 100] [100; 1] [1; 100] 8 100 500 [ []; [[10; 10]] ]
  = PErr E_VALUE.
Proof. vm_compute; reflexivity. Qed.

Example C14_ex_copies :
  copies_of [1; 100] [([100; 1], [10; 1], [10; 10]); ([10; 10], [1; 10], [1; 100])]
  = [([100; 1], [10; 1]); ([10; 10], [1; 10]); ([1; 100], [1; 100])].
Proof. vm_compute; reflexivity. Qed.

Example C14_ex_consolidate :
  consolidate_chunks [100; 100] [1; 100] 8 4000 None = POk [5; 100].
Proof. vm_compute; reflexivity. Qed.
