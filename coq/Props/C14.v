From CubedV Require Import Model.Util Model.Rechunk.
Lemma placeholder_c14 : split_chunksizes 20 5 7 = [5; 2; 3; 4; 1; 5]%Z. Proof. reflexivity. Qed.
