From CubedV Require Import Model.Util Model.AsyncMap Proofs.AsyncMapProofs.

(* C08: async_map_unordered (repaired configuration) and the tenacity retry wrapper. *)

Theorem C08_no_double_delivery : forall c ins script, repaired c -> batch_ok c -> NoDup ins ->
  NoDup (map snd (yielded (run c ins script))).
Proof. exact no_double_delivery. Qed.
Print Assumptions C08_no_double_delivery.

Theorem C08_delivered_succeeded : forall c ins script, repaired c -> batch_ok c -> NoDup ins ->
  forall t i, In (t, i) (yielded (run c ins script)) ->
    lookup t (completed (run c ins script)) = Some true /\
    lookup t (tasks (run c ins script)) = Some i /\ In i ins.
Proof. exact delivered_succeeded. Qed.
Print Assumptions C08_delivered_succeeded.

Theorem C08_submissions_bounded : forall c ins script, repaired c -> batch_ok c -> NoDup ins ->
  forall i, nsub (run c ins script) i false <= 1 /\
            nsub (run c ins script) i true <= nsub (run c ins script) i false.
Proof. exact submissions_bounded. Qed.
Print Assumptions C08_submissions_bounded.

Theorem C08_submissions_real_inputs : forall c ins script, repaired c -> batch_ok c -> NoDup ins ->
  forall f i b, In (f, (i, b)) (submitted (run c ins script)) -> In i ins.
Proof. exact submissions_real_inputs. Qed.
Print Assumptions C08_submissions_real_inputs.

Theorem C08_never_crashes : forall c ins script, repaired c -> batch_ok c -> NoDup ins ->
  stat (run c ins script) <> Crashed.
Proof. exact never_crashes. Qed.
Print Assumptions C08_never_crashes.

Theorem C08_raise_is_genuine : forall c ins script, repaired c -> batch_ok c -> NoDup ins ->
  forall t, stat (run c ins script) = Raised t ->
  exists i, lookup t (tasks (run c ins script)) = Some i /\
    lookup t (completed (run c ins script)) = Some false /\
    forall f b, In (f, (i, b)) (submitted (run c ins script)) ->
      lookup f (completed (run c ins script)) = Some false.
Proof. exact raise_is_genuine. Qed.
Print Assumptions C08_raise_is_genuine.

Theorem C08_done_exactly_once : forall c ins script, repaired c -> batch_ok c -> NoDup ins ->
  stat (run c ins script) = Done -> Permutation (map snd (yielded (run c ins script))) ins.
Proof. exact done_exactly_once. Qed.
Print Assumptions C08_done_exactly_once.

Theorem C08_futures_bounded : forall c ins script, repaired c -> batch_ok c -> NoDup ins ->
  next (run c ins script) <= 2 * length ins.
Proof. exact futures_bounded. Qed.
Print Assumptions C08_futures_bounded.

Theorem C08_completed_bounded : forall c ins script, repaired c -> batch_ok c -> NoDup ins ->
  NoDup (map fst (completed (run c ins script))) /\
  length (completed (run c ins script)) <= next (run c ins script).
Proof. exact completed_bounded. Qed.
Print Assumptions C08_completed_bounded.

Theorem C08_running_has_pending : forall c ins script, repaired c -> batch_ok c -> NoDup ins ->
  stat (run c ins script) = Running -> pending (run c ins script) <> [].
Proof. exact running_has_pending. Qed.
Print Assumptions C08_running_has_pending.

Theorem C08_wake_progress : forall c ins script, repaired c -> batch_ok c -> NoDup ins ->
  forall w, stat (run c ins script) = Running ->
    valid_fin (pending (run c ins script)) [] (fin w) <> [] ->
    length (completed (run c ins script)) < length (completed (step c (run c ins script) w)).
Proof. exact wake_progress. Qed.
Print Assumptions C08_wake_progress.

Theorem C08_terminal_absorbing : forall c ins script, repaired c -> batch_ok c -> NoDup ins ->
  forall w, stat (run c ins script) <> Running -> step c (run c ins script) w = run c ins script.
Proof. exact terminal_absorbing. Qed.
Print Assumptions C08_terminal_absorbing.

Theorem C08_retry_attempts_le : forall r o, fst (retry r o) <= S r.
Proof. exact retry_attempts_le. Qed.
Print Assumptions C08_retry_attempts_le.

Theorem C08_retry_succeeds_iff : forall r o, r < length o ->
  (snd (retry r o) = true <-> exists k, k <= r /\ nth k o false = true).
Proof. exact retry_succeeds_iff. Qed.
Print Assumptions C08_retry_succeeds_iff.

Theorem C08_retry_first_success : forall r o k, r < length o -> nth k o false = true ->
  (forall j, j < k -> nth j o false = false) -> k <= r -> retry r o = (S k, true).
Proof. exact retry_first_success. Qed.
Print Assumptions C08_retry_first_success.

(* ---- non-vacuity: the hypotheses are satisfiable and the runs are not trivial ---- *)

Example C08_cfg_ok : repaired (fixed_cfg true (Some 2) true) /\ batch_ok (fixed_cfg true (Some 2) true).
Proof. split; [split; reflexivity|discriminate]. Qed.

(* backup of 0 launched; original 0 and backup 2 finish in the same wake-up; refill;
   backup of 1 launched; 1 fails (waits for its twin), twin 4 succeeds; 3 succeeds. *)
Definition C08_script_done : list wake :=
  [W [] [(0, true)]; W [(0, true); (2, true)] []; W [] [(1, true)];
   W [(1, false)] []; W [(4, true)] []; W [(3, true)] []].

Example C08_run_done :
  let s := run (fixed_cfg true (Some 2) true) [0; 1; 2] C08_script_done in
  stat s = Done /\ yielded s = [(3, 2); (4, 1); (0, 0)] /\ next s = 5 /\
  submitted s = [(4, (1, true)); (3, (2, false)); (2, (0, true)); (1, (1, false)); (0, (0, false))].
Proof. vm_compute. repeat split; reflexivity. Qed.

(* same, but the backup of 1 fails as well: the exception is genuine *)
Definition C08_script_raise : list wake :=
  [W [] [(0, true)]; W [(0, true); (2, true)] []; W [] [(1, true)];
   W [(1, false)] []; W [(4, false)] []].

Example C08_run_raised :
  let s := run (fixed_cfg true (Some 2) true) [0; 1; 2] C08_script_raise in
  stat s = Raised 4 /\ yielded s = [(0, 0)] /\
  lookup 1 (completed s) = Some false /\ lookup 4 (completed s) = Some false.
Proof. vm_compute. repeat split; reflexivity. Qed.

(* ---- the defects of the unrepaired (pinned) configuration ---- *)

(* original 0 and its backup 1 complete in one wake-up: input 0 is delivered twice *)
Example pinned_double_delivery :
  let s := run (pinned_cfg true None true) [0] [W [] [(0, true)]; W [(0, true); (1, true)] []] in
  stat s = Done /\ map snd (yielded s) = [0; 0].
Proof. vm_compute. split; reflexivity. Qed.

(* backup 1 succeeds and is visited first, the failed original 0 second: spurious raise *)
Example pinned_spurious_raise :
  let s := run (pinned_cfg true None true) [0] [W [] [(0, true)]; W [(1, true); (0, false)] []] in
  stat s = Raised 0 /\ yielded s = [(1, 0)] /\ lookup 1 (completed s) = Some true.
Proof. vm_compute. repeat split; reflexivity. Qed.

(* batch_size 12, 24 inputs, real policy: start_times is replaced by the refill, six first-batch
   tasks have ended, so end_times has keys missing from start_times: KeyError *)
Example pinned_keyerror :
  let s := run (pinned_cfg true (Some 12) false) (seq 0 24)
             [W [(0, true)] []; W [(1, true)] []; W [(2, true)] []; W [(3, true)] [];
              W [(4, true)] []; W [(5, true)] [(6, false)]] in
  stat s = Crashed.
Proof. vm_compute. reflexivity. Qed.

(* the same script under the repaired configuration keeps running *)
Example fixed_no_keyerror :
  let s := run (fixed_cfg true (Some 12) false) (seq 0 24)
             [W [(0, true)] []; W [(1, true)] []; W [(2, true)] []; W [(3, true)] [];
              W [(4, true)] []; W [(5, true)] [(6, false)]] in
  stat s = Running.
Proof. vm_compute. reflexivity. Qed.
