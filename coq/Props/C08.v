From CubedV Require Import Model.Util Model.AsyncMap.
Lemma placeholder : retry 0 [true] = (1, true). Proof. reflexivity. Qed.
