From CubedV Require Import Model.Util Model.Keys Model.OpsKF Proofs.OpsKFProofs.
From Coq Require Import Permutation.

Theorem K_pr_groups_partition : forall k nb x, 0 < k -> x < nb ->
  exists bi, bi < pr_numblocks k nb /\ In x (pr_group k nb bi) /\
    forall bj, In x (pr_group k nb bj) -> bj = bi.
Proof. exact (pr_groups_partition). Qed.
Print Assumptions K_pr_groups_partition.

Theorem K_pr_groups_inside : forall k nb bi, 0 < k -> bi < pr_numblocks k nb ->
  pr_group k nb bi <> [] /\ (forall x, In x (pr_group k nb bi) -> x < nb) /\
  length (pr_group k nb bi) <= k.
Proof. exact (pr_groups_inside). Qed.
Print Assumptions K_pr_groups_inside.

Theorem K_tree_reduce_terminates : forall d k nb, 2 <= k -> 0 < nb -> nb <= k ^ d ->
  tree_rounds d k nb = 1.
Proof. exact (tree_reduce_terminates). Qed.
Print Assumptions K_tree_reduce_terminates.

Theorem K_pr_keep_all_truthful : forall k nb, 0 < k -> 0 < nb ->
  ((forall bi, bi < pr_numblocks k nb -> pr_actual_keep_all k nb bi = pr_declared (Nat.min k nb))
   <-> (nb <= k \/ nb mod k = 0)).
Proof. exact (pr_keep_all_truthful). Qed.
Print Assumptions K_pr_keep_all_truthful.

Theorem K_scan_accepts_spec : forall nb, 0 < nb ->
  (scan_accepts nb = true <-> exists e m, 1 <= m /\ m <= 5 /\ nb = m * 5 ^ e).
Proof. exact (scan_accepts_spec). Qed.
Print Assumptions K_scan_accepts_spec.

Theorem K_scan_refuted :
  scan_accepts 6 = false /\ scan_accepts 7 = false /\ scan_accepts 26 = false /\ scan_accepts 30 = false.
Proof. exact (scan_refuted). Qed.
Print Assumptions K_scan_refuted.

Theorem K_scan_addressing : forall bi, (bi / 5) * 5 + bi mod 5 = bi /\ bi mod 5 < 5.
Proof. exact (scan_addressing). Qed.
Print Assumptions K_scan_addressing.

Theorem K_stack_unstack_coords : forall axis l v, axis <= length l ->
  remove_at axis (insert_at axis v l) = l /\ nth axis (insert_at axis v l) 0 = v.
Proof. exact (stack_unstack_coords). Qed.
Print Assumptions K_stack_unstack_coords.

Theorem K_unstack_stack_coords : forall axis l, axis < length l ->
  insert_at axis (nth axis l 0) (remove_at axis l) = l.
Proof. exact (unstack_stack_coords). Qed.
Print Assumptions K_unstack_stack_coords.

Theorem K_is_permutation_spec : forall axes,
  is_permutation axes = true <-> Permutation axes (seq 0 (length axes)).
Proof. exact (is_permutation_spec). Qed.
Print Assumptions K_is_permutation_spec.

Example ex_pr_group : pr_group 3 8 2 = [6; 7].
Proof. vm_compute; reflexivity. Qed.
Example ex_tree_rounds : tree_rounds 2 3 8 = 1.
Proof. vm_compute; reflexivity. Qed.
Example ex_scan_accepts_25 : scan_accepts 25 = true.
Proof. vm_compute; reflexivity. Qed.
Example ex_is_permutation_ok : is_permutation [2; 0; 1] = true.
Proof. vm_compute; reflexivity. Qed.
Example ex_is_permutation_dup : is_permutation [0; 0] = false.
Proof. vm_compute; reflexivity. Qed.
