From CubedV Require Import Model.Util Model.Keys Model.Fusion Proofs.FusionProofs.
From CubedV Require Import Model.BlockwiseKF Proofs.BlockwiseKFProofs.
Theorem C15_fusion_sound : forall (B : Type) (preds : name -> option (keyfun * bfun B))
  (kf : keyfun) (f : bfun B) (read : key -> B) (k : key),
  preds_wf B preds ->
  forallb unfused_arg (snd (kf k)) = true ->
  run_op B (fused_kf kf (kd B preds)) (fused_fun B f (fd B preds)) read k
    = run_op B kf f (read_through B preds read) k
  /\ fst (fused_kf kf (kd B preds) k) = fst (kf k).
Proof. exact fusion_sound. Qed.
Print Assumptions C15_fusion_sound.

(* the fused key function again names the array it was asked for *)
Theorem C15_fused_kf_names : forall (B : Type) (preds : name -> option (keyfun * bfun B))
  (kf : keyfun) (p : name),
  (forall k : key, fst k = p -> fst (kf k) = p) ->
  forall k : key, fst k = p -> fst (fused_kf kf (kd B preds) k) = p.
Proof. exact fused_kf_names. Qed.
Print Assumptions C15_fused_kf_names.

(* legacy (single-predecessor) fusion: sound when the successor reads one plain chunk *)
Theorem C15_legacy_fuse_sound : forall (B : Type) (kf1 kf2 : keyfun) (f1 f2 : bfun B)
  (read : key -> B) (k k1 : key) (p : name),
  snd (kf2 k) = [KLeaf k1] -> fst k1 = p ->
  exists fa : fargs, legacy_fused_kf kf1 kf2 k = Some fa /\
    legacy_fused_fun B f1 f2 (map (map_nested read) (snd fa))
    = run_op B kf2 f2 (fun k' : key => if Nat.eqb (fst k') p then run_op B kf1 f1 read k' else read k') k.
Proof. exact legacy_fuse_sound. Qed.
Print Assumptions C15_legacy_fuse_sound.

(* D11: undefined when the successor reads a list or an iterator *)
Theorem C15_legacy_fuse_refuted : forall kf1 : keyfun,
  exists (kf2 : keyfun) (k : key), legacy_fused_kf kf1 kf2 k = None.
Proof. exact legacy_fuse_refuted. Qed.
Print Assumptions C15_legacy_fuse_refuted.

(* ---- blockwise key function ---------------------------------------------- *)

(* whenever the (repaired) constructor accepts the expression, the key function returns,
   per argument position, exactly the key the index expression designates *)
Theorem C15_blockwise_kf_spec : forall out args nbs new_axes f ocoords,
  wf_args nbs args = true ->
  (forall i, In i (dummy_indices out args) -> lookup i new_axes = None) ->
  make_kf out args nbs new_axes true = Ok f ->
  length ocoords = length out ->
  f ocoords = Ok (ref_kf out args nbs ocoords).
Proof. exact blockwise_kf_spec. Qed.
Print Assumptions C15_blockwise_kf_spec.

(* the pinned variant agrees whenever the first argument carries a contracted index or none does *)
Theorem C15_blockwise_kf_spec_pinned : forall out args nbs new_axes f ocoords,
  wf_args nbs args = true ->
  (forall i, In i (dummy_indices out args) -> lookup i new_axes = None) ->
  make_kf out args nbs new_axes false = Ok f ->
  length ocoords = length out ->
  (match args with a :: _ => concat_axes out args a <> [] | [] => True end
   \/ forall a, In a args -> concat_axes out args a = []) ->
  f ocoords = Ok (ref_kf out args nbs ocoords).
Proof. exact blockwise_kf_spec_pinned. Qed.
Print Assumptions C15_blockwise_kf_spec_pinned.

(* D15 witness for the pinned variant: map_blocks(f, a_1d, b_2d, drop_axis=0) *)
Theorem C15_flatten_refuted :
  exists f, make_kf [1] [(0, [1]); (1, [0; 1])] [(0, [2]); (1, [1; 2])] [] false = Ok f
            /\ f [0] = Err E_MALFORMED.
Proof. exact flatten_refuted. Qed.
Print Assumptions C15_flatten_refuted.

(* the key function reports one key per argument and names the right arrays *)
Theorem C15_ref_kf_names : forall out args nbs ocoords,
  map fst (ref_kf out args nbs ocoords) = map fst args.
Proof. exact ref_kf_names. Qed.
Print Assumptions C15_ref_kf_names.

(* ---- non-vacuity ----------------------------------------------------------- *)

(* accepted, with a contracted index (1) carried with a single block by both arguments *)
Example C15_kf_accepts_contracted :
  wf_args [(0, [3; 1]); (1, [1])] [(0, [0; 1]); (1, [1])] = true /\
  match make_kf [0] [(0, [0; 1]); (1, [1])] [(0, [3; 1]); (1, [1])] [] true with
  | Ok f => f [2]
  | Err e => Err e
  end = Ok [(0, [2; 0]); (1, [0])].
Proof. vm_compute; split; reflexivity. Qed.

(* accepted, with a contracted index (1) and a broadcast argument (array 2 has a single
   block along output index 0 while array 0 has three) *)
Example C15_kf_accepts_broadcast :
  wf_args [(0, [3; 1]); (1, [1; 4]); (2, [1; 4])] [(0, [0; 1]); (1, [1; 2]); (2, [0; 2])] = true /\
  match make_kf [0; 2] [(0, [0; 1]); (1, [1; 2]); (2, [0; 2])]
                [(0, [3; 1]); (1, [1; 4]); (2, [1; 4])] [] true with
  | Ok f => f [2; 3]
  | Err e => Err e
  end = Ok [(0, [2; 0]); (1, [0; 3]); (2, [0; 3])].
Proof. vm_compute; split; reflexivity. Qed.

(* rejected at build time: several blocks along a contracted axis *)
Example C15_kf_rejects_dropped :
  wf_args [(0, [3; 2]); (1, [2])] [(0, [0; 1]); (1, [1])] = true /\
  make_kf [0] [(0, [0; 1]); (1, [1])] [(0, [3; 2]); (1, [2])] [] true = Err E_DROPPED.
Proof. vm_compute; split; reflexivity. Qed.
