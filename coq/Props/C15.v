From CubedV Require Import Model.Util Model.Keys Model.Fusion Proofs.FusionProofs.
Theorem C15_fusion_sound : forall (B : Type) (preds : name -> option (keyfun * bfun B))
  (kf : keyfun) (f : bfun B) (read : key -> B) (k : key),
  preds_wf B preds ->
  forallb unfused_arg (snd (kf k)) = true ->
  run_op B (fused_kf kf (kd B preds)) (fused_fun B f (fd B preds)) read k
    = run_op B kf f (read_through B preds read) k
  /\ fst (fused_kf kf (kd B preds) k) = fst (kf k).
Proof. exact fusion_sound. Qed.
Print Assumptions C15_fusion_sound.
