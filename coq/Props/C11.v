(* C11: store/to_zarr fill every target completely, and only inside the requested region. *)

From CubedV Require Import Model.Util Model.Geometry Model.StoreRegion Model.StoreGuard Proofs.StoreProofs Proofs.StoreGuardProofs.


Theorem C11_region_task_exact : forall a b, accepted_axis a -> In b (out_blocks_axis a) ->
  rstart a <= fst (task_target a b) /\ snd (task_target a b) <= rstop a /\
  fst (task_target a b) < snd (task_target a b) /\
  fst (task_target a b) = rstart a + fst (task_source a b) /\
  snd (task_target a b) = rstart a + snd (task_source a b) /\
  b - block_offset a < nblocks (sn a) (sc a).
Proof. exact (region_task_exact). Qed.
Print Assumptions C11_region_task_exact.

Theorem C11_region_covered_once : forall a x, accepted_axis a -> rstart a <= x < rstop a ->
  exists b, In b (out_blocks_axis a) /\ fst (task_target a b) <= x < snd (task_target a b) /\
    forall b', In b' (out_blocks_axis a) -> fst (task_target a b') <= x < snd (task_target a b') -> b' = b.
Proof. exact (region_covered_once). Qed.
Print Assumptions C11_region_covered_once.

Theorem C11_region_block_count : forall a, accepted_axis a ->
  length (out_blocks_axis a) = nblocks (sn a) (sc a) /\ NoDup (out_blocks_axis a).
Proof. exact (region_block_count). Qed.
Print Assumptions C11_region_block_count.

Theorem C11_region_num_tasks_exact : forall axes, Forall accepted_axis axes ->
  length (out_blocks axes) = region_num_tasks axes.
Proof. exact (region_num_tasks_exact). Qed.
Print Assumptions C11_region_num_tasks_exact.

Theorem C11_region_rejects_unsafe : forall axes a, In a axes ->
  (rstart a mod tc a <> 0 \/ (rstop a mod tc a <> 0 /\ rstop a <> tn a) \/ sn a <> rstop a - rstart a
   \/ (sc a <> tc a /\ (1 < nblocks (sn a) (sc a) \/ tc a < sn a))) ->
  region_accepts axes = RejectValue.
Proof. exact (region_rejects_unsafe). Qed.
Print Assumptions C11_region_rejects_unsafe.

Theorem C11_store_task_chunks_aligned : forall scs tcs nbs i,
  length scs = length tcs -> length nbs = length tcs -> i < length tcs ->
  0 < nth i tcs 0 ->
  (nth i (store_task_chunks scs tcs nbs) 0) mod (nth i tcs 0) = 0 \/ nth i nbs 0 <= 1.
Proof. exact (store_task_chunks_aligned). Qed.
Print Assumptions C11_store_task_chunks_aligned.

Example C11_accepts : region_accepts [RA 8 4 4 8 4 4; RA 8 4 0 4 4 4] = Accept /\ out_blocks [RA 8 4 4 8 4 4; RA 8 4 0 4 4 4] = [[1;0]].
Proof. split; reflexivity. Qed.
Example C11_rejects_misaligned : region_accepts [RA 8 4 2 6 4 4] = RejectValue.
Proof. reflexivity. Qed.
Example C11_rejects_chunk_mismatch : region_accepts [RA 8 4 4 8 4 2] = RejectValue.
Proof. reflexivity. Qed.

(* -- StoreGuard.v: the two region refusals in the shape the source is translated into on every run ----------------- *)
Theorem C11_misaligned_view : forall a : raxis,
  misalignedZ (Z.of_nat (rstart a)) (Z.of_nat (rstop a)) (Z.of_nat (tc a)) (Z.of_nat (tn a)) = negb (aligned a).
Proof. exact (misalignedZ_view). Qed.
Print Assumptions C11_misaligned_view.

Theorem C11_chunks_mismatch_view : forall a : raxis,
  chunks_mismatchZ (Z.of_nat (sn a)) (Z.of_nat (sc a)) (Z.of_nat (tc a)) (Z.of_nat (nblocks (sn a) (sc a))) = negb (chunks_ok a).
Proof. exact (chunks_mismatchZ_view). Qed.
Print Assumptions C11_chunks_mismatch_view.

Theorem C11_region_accepts_source_tests : forall axes,
  region_accepts axes = Accept ->
  forall a, In a axes ->
    misalignedZ (Z.of_nat (rstart a)) (Z.of_nat (rstop a)) (Z.of_nat (tc a)) (Z.of_nat (tn a)) = false /\
    chunks_mismatchZ (Z.of_nat (sn a)) (Z.of_nat (sc a)) (Z.of_nat (tc a)) (Z.of_nat (nblocks (sn a) (sc a))) = false.
Proof. exact (region_accepts_source_tests). Qed.
Print Assumptions C11_region_accepts_source_tests.

Example C11_guards_example :
  misalignedZ 2 4 2 8 = false /\ misalignedZ 1 4 2 8 = true /\ misalignedZ 2 7 2 7 = false /\ misalignedZ 2 7 2 8 = true /\
  chunks_mismatchZ 2 1 2 2 = true /\ chunks_mismatchZ 1 1 2 1 = false /\ chunks_mismatchZ 3 3 2 1 = true /\ chunks_mismatchZ 4 2 2 2 = false.
Proof. vm_compute. repeat split. Qed.
