From CubedV Require Import Model.Util Model.Geometry Model.StoreRegion.
Lemma placeholder_c11 : out_blocks [RA 8 4 4 8 4 4; RA 8 4 0 4 4 4] = [[1;0]]. Proof. reflexivity. Qed.
