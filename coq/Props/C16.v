(* C16: building, planning and visualizing are lazy and free of side effects. *)

From CubedV Require Import Model.Util Model.Api Proofs.ApiProofs.


Theorem C16_lazy_call_no_effect :
  forall (V : Type) (inp : nat -> V) (opf : nat -> list V -> V) (ident : nat)
         (s : state V) (c : call) (k : nat),
    is_lazy c = true -> store V (step V inp opf ident s c) k = store V s k.
Proof. exact (lazy_call_no_effect). Qed.
Print Assumptions C16_lazy_call_no_effect.

Theorem C16_lazy_history_no_effect :
  forall (V : Type) (inp : nat -> V) (opf : nat -> list V -> V) (ident : nat)
         (s : state V) (h : list call) (k : nat),
    forallb is_lazy h = true -> store V (run V inp opf ident s h) k = store V s k.
Proof. exact (lazy_history_no_effect). Qed.
Print Assumptions C16_lazy_history_no_effect.

Example C16_lazy_calls : forallb is_lazy [Derive 1 [0]; StoreLazy 1 5; PlanOf [1]; ConfigChange] = true /\ is_lazy (Compute [1] []) = false /\ is_lazy (StoreEager 1 5 []) = false.
Proof. repeat split. Qed.
