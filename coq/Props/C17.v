From CubedV Require Import Model.Util.
Lemma placeholder_c17 : sumn [1;2] = 3. Proof. reflexivity. Qed.
