(* C17: unsupported requests are refused up front; accepted plans do not fail mid-run. *)

From CubedV Require Import Model.Util Model.Keys Model.Geometry Model.OpsKF Model.ShapeSem Proofs.GeometryProofs Proofs.OpsKFProofs Proofs.ShapeSemProofs.
From Coq Require Import Permutation.


Theorem C17_scan_accepts_spec : forall nb, 0 < nb ->
  (scan_accepts nb = true <-> exists e m, 1 <= m /\ m <= 5 /\ nb = m * 5 ^ e).
Proof. exact (scan_accepts_spec). Qed.
Print Assumptions C17_scan_accepts_spec.

Theorem C17_scan_refuted :
  scan_accepts 6 = false /\ scan_accepts 7 = false /\ scan_accepts 26 = false /\ scan_accepts 30 = false.
Proof. exact (scan_refuted). Qed.
Print Assumptions C17_scan_refuted.

Theorem C17_pr_keep_all_truthful : forall k nb, 0 < k -> 0 < nb ->
  ((forall bi, bi < pr_numblocks k nb -> pr_actual_keep_all k nb bi = pr_declared (Nat.min k nb))
   <-> (nb <= k \/ nb mod k = 0)).
Proof. exact (pr_keep_all_truthful). Qed.
Print Assumptions C17_pr_keep_all_truthful.

Theorem C17_is_permutation_spec : forall axes,
  is_permutation axes = true <-> Permutation axes (seq 0 (length axes)).
Proof. exact (is_permutation_spec). Qed.
Print Assumptions C17_is_permutation_spec.

Example C17_acceptance_examples : scan_accepts 25 = true /\ scan_accepts 30 = false /\ is_permutation [0;0] = false /\ tsqr_accepts [4;4;1] 4 = false /\ stack_accepts [[4;3];[2;3]] = false.
Proof. repeat split; reflexivity. Qed.
