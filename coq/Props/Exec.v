From CubedV Require Import Model.Util Model.Keys Model.Exec Proofs.ExecProofs.

(* C06 / C09 over Model.Exec: schedule irrelevance, harmless late re-execution, resume. *)

Theorem X_op_schedule_irrelevant : forall (V : Type) (o : op V) (sched : list (task V)) (s : store V),
  op_ok V o -> (forall t, In t sched -> In t o) -> (forall t, In t o -> In t sched) ->
  seq V (run_sched V s sched) (op_result V s o).
Proof. exact (op_schedule_irrelevant). Qed.
Print Assumptions X_op_schedule_irrelevant.

Theorem X_run_task_idempotent : forall (V : Type) (t : task V) (s : store V),
  task_local V t -> disjoint (t_reads V t) (t_writes V t) ->
  seq V (run_task V (run_task V s t) t) (run_task V s t).
Proof. exact (run_task_idempotent). Qed.
Print Assumptions X_run_task_idempotent.

Theorem X_late_reexecution_harmless : forall (V : Type) (p : list (op V)) (s : store V) (o : op V) (t : task V),
  plan_ok V p -> In o p -> In t o ->
  seq V (run_task V (run_plan V s p) t) (run_plan V s p).
Proof. exact (late_reexecution_harmless). Qed.
Print Assumptions X_late_reexecution_harmless.

Theorem X_late_reexecution_midway : forall (V : Type) (p1 p2 : list (op V)) (s : store V) (o : op V) (t : task V),
  plan_ok V (p1 ++ p2) -> In o p1 -> In t o ->
  seq V (run_plan V (run_task V (run_plan V s p1) t) p2) (run_plan V s (p1 ++ p2)).
Proof. exact (late_reexecution_midway). Qed.
Print Assumptions X_late_reexecution_midway.

Theorem X_resume_correct : forall (V : Type) (always : op V -> bool) (p : list (op V)) (s0 sc : store V),
  plan_ok V p -> crash_state V p s0 sc ->
  seq V (resume_plan V always sc p) (run_plan V s0 p).
Proof. exact (resume_correct). Qed.
Print Assumptions X_resume_correct.

Theorem X_skip_only_complete : forall (V : Type) (s : store V) (o : op V), complete V s o = true ->
  forall k, mem_key k (op_writes V o) = true -> exists v, s k = Some v.
Proof. exact (skip_only_complete). Qed.
Print Assumptions X_skip_only_complete.

Theorem X_never_wipes : forall (V : Type) (always : op V -> bool) (p : list (op V)) (sc : store V) k v,
  sc k = Some v -> exists v', resume_plan V always sc p k = Some v'.
Proof. exact (never_wipes). Qed.
Print Assumptions X_never_wipes.

(* CHANGED with respect to Specs/Exec_target.v: the second premise (the initial store holds no
   chunk of an array that the running op or a later op produces) is added; without it the
   statement is false, see X_final_if_present_unrestricted_false below. *)
Theorem X_final_if_present : forall (V : Type) (done rest : list (op V)) (o : op V) (s0 : store V)
    (ws : list (task V * key)),
  plan_ok V (done ++ o :: rest) ->
  (forall o' k, In o' (o :: rest) -> mem_key k (op_writes V o') = true -> s0 k = None) ->
  (forall tw, In tw ws -> In (fst tw) o /\ mem_key (snd tw) (t_writes V (fst tw)) = true) ->
  let s1 := run_plan V s0 done in
  crash_state V (done ++ o :: rest) s0
    (fold_left (fun s tw => write_one V s1 (fst tw) (snd tw) s) ws s1).
Proof. exact (final_if_present). Qed.
Print Assumptions X_final_if_present.

(* the weakest side condition: every chunk of a not yet finished array that the initial store
   holds is already final (necessary as well: take ws = []) *)
Theorem X_final_if_present_gen : forall (V : Type) (done rest : list (op V)) (o : op V) (s0 : store V)
    (ws : list (task V * key)),
  plan_ok V (done ++ o :: rest) ->
  (forall o' k v, In o' (o :: rest) -> mem_key k (op_writes V o') = true -> s0 k = Some v ->
     run_plan V s0 (done ++ o :: rest) k = Some v) ->
  (forall tw, In tw ws -> In (fst tw) o /\ mem_key (snd tw) (t_writes V (fst tw)) = true) ->
  let s1 := run_plan V s0 done in
  crash_state V (done ++ o :: rest) s0
    (fold_left (fun s tw => write_one V s1 (fst tw) (snd tw) s) ws s1).
Proof. exact (final_if_present_gen). Qed.
Print Assumptions X_final_if_present_gen.

(* the statement exactly as written in Specs/Exec_target.v does not hold *)
Theorem X_final_if_present_unrestricted_false :
  ~ (forall (done rest : list (op nat)) (o : op nat) (s0 : store nat) (ws : list (task nat * key)),
      plan_ok nat (done ++ o :: rest) ->
      (forall tw, In tw ws -> In (fst tw) o /\ mem_key (snd tw) (t_writes nat (fst tw)) = true) ->
      let s1 := run_plan nat s0 done in
      crash_state nat (done ++ o :: rest) s0
        (fold_left (fun s tw => write_one nat s1 (fst tw) (snd tw) s) ws s1)).
Proof. exact (final_if_present_unrestricted_false). Qed.
Print Assumptions X_final_if_present_unrestricted_false.

(* the counterexample, evaluated: the chunk is present in the "crash store" with 5, final value 7 *)
Eval vm_compute in (cx_s0 cx_key, run_plan nat cx_s0 [cx_op] cx_key).

(* ---- non-vacuity: a concrete two-op plan -------------------------------------------------- *)
Definition k_in : key := (0, [0]).
Definition k_a : key := (1, [0]).
Definition k_b : key := (1, [1]).
Definition k_out : key := (2, [0]).
Definition getn (s : store nat) (k : key) : nat := match s k with Some v => v | None => 0 end.

Definition task_a : task nat :=
  {| t_reads := [k_in]; t_writes := [k_a]; t_val := fun s _ => getn s k_in + 1 |}.
Definition task_b : task nat :=
  {| t_reads := [k_in]; t_writes := [k_b]; t_val := fun s _ => getn s k_in * 2 |}.
Definition task_c : task nat :=
  {| t_reads := [k_a; k_b]; t_writes := [k_out]; t_val := fun s _ => getn s k_a + getn s k_b |}.
Definition op1 : op nat := [task_a; task_b].
Definition op2 : op nat := [task_c].
Definition ex_plan : list (op nat) := [op1; op2].
Definition ex_s0 : store nat := fun k => if key_eqb k k_in then Some 5 else None.
(* crash during op1: only chunk (1,[0]) has been written *)
Definition ex_crash : store nat :=
  fold_left (fun s tw => write_one nat (run_plan nat ex_s0 []) (fst tw) (snd tw) s)
            [(task_a, k_a)] (run_plan nat ex_s0 []).

Lemma task_a_local : task_local nat task_a.
Proof. intros s1 s2 H w. simpl. unfold getn. rewrite (H k_in eq_refl). reflexivity. Qed.
Lemma task_b_local : task_local nat task_b.
Proof. intros s1 s2 H w. simpl. unfold getn. rewrite (H k_in eq_refl). reflexivity. Qed.
Lemma task_c_local : task_local nat task_c.
Proof. intros s1 s2 H w. simpl. unfold getn. rewrite (H k_a eq_refl), (H k_b eq_refl). reflexivity. Qed.

Lemma op1_ok : op_ok nat op1.
Proof.
  split; [|split].
  - intros t [Ht|[Ht|[]]]; subst t; [apply task_a_local | apply task_b_local].
  - intros t t' [Ht|[Ht|[]]] [Ht'|[Ht'|[]]]; subst t t'; apply disjointb_sound; reflexivity.
  - apply ww_ok_sound. simpl. split; [|split; [intros t' [] | exact I]].
    intros t' [Ht'|[]]. subst t'. apply disjointb_sound. reflexivity.
Qed.

Lemma op2_ok : op_ok nat op2.
Proof.
  split; [|split].
  - intros t [Ht|[]]; subst t. apply task_c_local.
  - intros t t' [Ht|[]] [Ht'|[]]; subst t t'. apply disjointb_sound. reflexivity.
  - apply ww_ok_sound. simpl. split; [intros t' [] | exact I].
Qed.

Example ex_plan_ok : plan_ok nat ex_plan.
Proof.
  simpl. split; [apply op1_ok | split].
  - intros o' [Ho'|[]]. subst o'. split; apply disjointb_sound; reflexivity.
  - split; [apply op2_ok | split; [intros o' [] | exact I]].
Qed.

(* the initial store holds none of the chunks the plan produces *)
Lemma ex_s0_fresh : forall o' k, In o' (op1 :: [op2]) -> mem_key k (op_writes nat o') = true -> ex_s0 k = None.
Proof.
  intros o' k [Ho'|[Ho'|[]]] Hk; subst o'; apply mem_key_In in Hk; simpl in Hk;
    repeat (destruct Hk as [Hk|Hk]; [subst k; reflexivity|]); contradiction.
Qed.

(* the interrupted store is a crash state (instance of final_if_present), ... *)
Example ex_crash_state : crash_state nat ex_plan ex_s0 ex_crash.
Proof.
  apply (final_if_present nat [] [op2] op1 ex_s0 [(task_a, k_a)] ex_plan_ok ex_s0_fresh).
  intros tw [Htw|[]]. subst tw. simpl. split; [left; reflexivity | reflexivity].
Qed.

(* ... so resume ends in the store of the uninterrupted run (instance of resume_correct) *)
Example ex_resume : seq nat (resume_plan nat (fun _ => false) ex_crash ex_plan) (run_plan nat ex_s0 ex_plan).
Proof. exact (resume_correct nat (fun _ => false) ex_plan ex_s0 ex_crash ex_plan_ok ex_crash_state). Qed.
Print Assumptions ex_resume.

(* evaluated: the crash store has (1,[0]) but neither (1,[1]) nor (2,[0]); op1 is not complete, so
   it is re-run; the resumed run and the uninterrupted run agree on every chunk *)
Eval vm_compute in (map ex_crash [k_in; k_a; k_b; k_out]).
Eval vm_compute in (complete nat ex_crash op1, complete nat ex_crash op2).
Eval vm_compute in (resume_plan nat (fun _ => false) ex_crash ex_plan k_out,
                    run_plan nat ex_s0 ex_plan k_out).
Eval vm_compute in (map (resume_plan nat (fun _ => false) ex_crash ex_plan) [k_in; k_a; k_b; k_out],
                    map (run_plan nat ex_s0 ex_plan) [k_in; k_a; k_b; k_out]).

Example ex_resume_out :
  resume_plan nat (fun _ => false) ex_crash ex_plan k_out = Some 16 /\
  run_plan nat ex_s0 ex_plan k_out = Some 16.
Proof. split; vm_compute; reflexivity. Qed.

(* a crash after op1 finished (both chunks present): op1 is skipped, op2 runs, same result *)
Definition ex_crash2 : store nat := run_plan nat ex_s0 [op1].
Eval vm_compute in (complete nat ex_crash2 op1,
                    resume_plan nat (fun _ => false) ex_crash2 ex_plan k_out).

(* late duplicate of task_a after the whole plan: nothing changes (instance of C06) *)
Example ex_late : seq nat (run_task nat (run_plan nat ex_s0 ex_plan) task_a) (run_plan nat ex_s0 ex_plan).
Proof.
  apply (late_reexecution_harmless nat ex_plan ex_s0 op1 task_a ex_plan_ok);
    left; reflexivity.
Qed.
