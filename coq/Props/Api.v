(* Api: the history machine of the public API (C10 value fixed when built / compute gives the
   denotation / inputs untouched / targets hold denotations, C16 lazy calls have no effects,
   C11 eager store at the history level). *)

From CubedV Require Import Model.Util Model.Api Proofs.ApiProofs.


Theorem A_lazy_call_no_effect :
  forall (V : Type) (inp : nat -> V) (opf : nat -> list V -> V) (ident : nat)
         (s : state V) (c : call) (k : nat),
    is_lazy c = true -> store V (step V inp opf ident s c) k = store V s k.
Proof. exact (lazy_call_no_effect). Qed.
Print Assumptions A_lazy_call_no_effect.

Theorem A_lazy_history_no_effect :
  forall (V : Type) (inp : nat -> V) (opf : nat -> list V -> V) (ident : nat)
         (s : state V) (h : list call) (k : nat),
    forallb is_lazy h = true -> store V (run V inp opf ident s h) k = store V s k.
Proof. exact (lazy_history_no_effect). Qed.
Print Assumptions A_lazy_history_no_effect.

Theorem A_invariants_preserved :
  forall (V : Type) (inp : nat -> V) (opf : nat -> list V -> V) (ident : nat)
         (s : state V) (c : call),
    wf V s -> locs_ok V s -> valid V s c ->
    wf V (step V inp opf ident s c) /\ locs_ok V (step V inp opf ident s c).
Proof. exact (invariants_preserved). Qed.
Print Assumptions A_invariants_preserved.

Theorem A_value_fixed_when_built :
  forall (V : Type) (inp : nat -> V) (opf : nat -> list V -> V) (ident : nat)
         (s : state V) (h : list call) (id : nat),
    wf V s -> locs_ok V s -> valid_history V inp opf ident s h ->
    id < length (cells V s) ->
    den V inp opf (run V inp opf ident s h) id = den V inp opf s id.
Proof. exact (value_fixed_when_built). Qed.
Print Assumptions A_value_fixed_when_built.

Theorem A_compute_gives_denotation :
  forall (V : Type) (inp : nat -> V) (opf : nat -> list V -> V) (ident : nat)
         (s : state V) (ids written : list nat) (id l : nat),
    wf V s -> locs_ok V s -> valid V s (Compute ids written) ->
    In id ids -> is_op V s id = true -> loc_of V s id = Some l ->
    store V (step V inp opf ident s (Compute ids written)) l = den V inp opf s id.
Proof. exact (compute_gives_denotation). Qed.
Print Assumptions A_compute_gives_denotation.

Theorem A_inputs_untouched :
  forall (V : Type) (inp : nat -> V) (opf : nat -> list V -> V) (ident : nat)
         (s : state V) (h : list call) (id l : nat),
    wf V s -> locs_ok V s -> valid_history V inp opf ident s h ->
    is_op V s id = false -> loc_of V s id = Some l ->
    store V (run V inp opf ident s h) l = store V s l.
Proof. exact (inputs_untouched). Qed.
Print Assumptions A_inputs_untouched.

(* CHANGED w.r.t. Specs/Api_target.v: the fourth premise (locations not yet handed out are
   empty) is added; A_targets_need_fresh_empty below shows the statement is false without it. *)
Theorem A_targets_hold_denotations :
  forall (V : Type) (inp : nat -> V) (opf : nat -> list V -> V) (ident : nat)
         (s : state V) (h : list call),
    wf V s -> locs_ok V s -> store_ok V inp opf s ->
    (forall l : nat, next_loc V s <= l -> store V s l = None) ->
    valid_history V inp opf ident s h ->
    store_ok V inp opf (run V inp opf ident s h).
Proof. exact (targets_hold_denotations). Qed.
Print Assumptions A_targets_hold_denotations.

(* the same, with the added condition shown to be an invariant too *)
Theorem A_targets_hold_denotations_strong :
  forall (V : Type) (inp : nat -> V) (opf : nat -> list V -> V) (ident : nat)
         (s : state V) (h : list call),
    wf V s -> locs_ok V s -> store_ok V inp opf s -> fresh_empty V s ->
    valid_history V inp opf ident s h ->
    store_ok V inp opf (run V inp opf ident s h) /\ fresh_empty V (run V inp opf ident s h).
Proof. exact (targets_hold_denotations_strong). Qed.
Print Assumptions A_targets_hold_denotations_strong.

Theorem A_eager_store_fills_target :
  forall (V : Type) (inp : nat -> V) (opf : nat -> list V -> V) (ident : nat)
         (s : state V) (id t : nat) (written : list nat),
    wf V s -> locs_ok V s -> valid V s (StoreEager id t written) ->
    store V (step V inp opf ident s (StoreEager id t written)) t = den V inp opf s id \/
    (exists v : V, den V inp opf s id = Some v /\
       store V (step V inp opf ident s (StoreEager id t written)) t = Some (opf ident [v])).
Proof. exact (eager_store_fills_target). Qed.
Print Assumptions A_eager_store_fills_target.

(* ------------------------------------------------------------------ *)
(* concrete instances over V := nat                                    *)
(* ------------------------------------------------------------------ *)

Definition ex_inp (i : nat) : nat := i + 1.
Definition ex_opf (f : nat) (args : list nat) : nat := f + list_sum args.
Definition ex_ident : nat := 0.

(* The target statement of targets_hold_denotations WITHOUT the added premise is false:
   an empty pool whose store has stale content at the not-yet-handed-out location 0;
   one Derive puts a new array there, and location 0 then holds neither nothing nor its value. *)
Definition bad_s : state nat :=
  {| cells := []; store := fun _ => Some 5; next_loc := 0 |}.
Definition bad_h : list call := [Derive 0 []].

Eval vm_compute in
  (store nat (run nat ex_inp ex_opf ex_ident bad_s bad_h) 0,
   den nat ex_inp ex_opf (run nat ex_inp ex_opf ex_ident bad_s bad_h) 0,
   is_op nat (run nat ex_inp ex_opf ex_ident bad_s bad_h) 0,
   loc_of nat (run nat ex_inp ex_opf ex_ident bad_s bad_h) 0).
   (* = (Some 5, Some 0, true, Some 0) *)

Theorem A_targets_need_fresh_empty :
  wf nat bad_s /\ locs_ok nat bad_s /\ store_ok nat ex_inp ex_opf bad_s /\
  valid_history nat ex_inp ex_opf ex_ident bad_s bad_h /\
  ~ store_ok nat ex_inp ex_opf (run nat ex_inp ex_opf ex_ident bad_s bad_h).
Proof.
  repeat split.
  - intros [|id] c H; discriminate.
  - intros [|i] j ci cj H; discriminate.
  - intros [|i] c H; discriminate.
  - intros [|id] l H; discriminate.
  - intros a [].
  - intros H. destruct (H 0 0 eq_refl eq_refl) as [E|E]; vm_compute in E; discriminate.
Qed.
Print Assumptions A_targets_need_fresh_empty.

(* Non-vacuity: one input array at location 0; derive two arrays, lazily store array 1 at
   location 10 (re-targets it), compute array 2 with a plan that also materialises array 1. *)
Definition ex_s : state nat :=
  {| cells := [ {| cexpr := Inp 0; cloc := 0; retargeted := false |} ];
     store := fun k => if Nat.eqb k 0 then Some (ex_inp 0) else None;
     next_loc := 1 |}.
Definition ex_h : list call := [Derive 7 [0]; Derive 3 [1]; StoreLazy 1 10; Compute [2] [1]].
Definition ex_final : state nat := run nat ex_inp ex_opf ex_ident ex_s ex_h.

Example ex_reads :
  (* array 2 reads its denotation at its location *)
  loc_of nat ex_final 2 = Some 2 /\
  store nat ex_final 2 = den nat ex_inp ex_opf ex_final 2 /\
  store nat ex_final 2 = Some 11 /\
  (* location 10 (the re-targeted array 1) holds array 1's denotation; its old location is empty *)
  loc_of nat ex_final 1 = Some 10 /\
  store nat ex_final 10 = den nat ex_inp ex_opf ex_final 1 /\
  store nat ex_final 10 = Some 8 /\
  store nat ex_final 1 = None /\
  (* the input is still there, and denotations did not move *)
  store nat ex_final 0 = Some 1 /\
  den nat ex_inp ex_opf ex_final 1 = Some 8 /\
  den nat ex_inp ex_opf ex_final 2 = Some 11.
Proof. vm_compute. repeat split. Qed.

Example ex_wf : wf nat ex_s.
Proof.
  intros [|[|id]] c H; simpl in H; try discriminate.
  injection H as H. subst c. exact I.
Qed.

Example ex_locs_ok : locs_ok nat ex_s.
Proof.
  split.
  - intros [|[|i]] [|[|j]] ci cj Hi Hj _; simpl in Hi, Hj; try discriminate; reflexivity.
  - intros [|[|i]] c H; simpl in H; try discriminate.
    injection H as H. subst c. simpl. lia.
Qed.

Example ex_store_ok : store_ok nat ex_inp ex_opf ex_s /\ fresh_empty nat ex_s.
Proof.
  split.
  - intros [|[|id]] l H; discriminate.
  - intros [|l] Hl; [simpl in Hl; lia | reflexivity].
Qed.

Example ex_valid : valid_history nat ex_inp ex_opf ex_ident ex_s ex_h.
Proof.
  unfold ex_h. simpl. repeat split; try lia; intros a Ha; simpl in Ha; lia.
Qed.

(* the general theorems apply to the instance (their premises are satisfiable) *)
Example ex_theorems_apply :
  store_ok nat ex_inp ex_opf ex_final /\
  store nat ex_final 0 = store nat ex_s 0 /\
  den nat ex_inp ex_opf ex_final 0 = den nat ex_inp ex_opf ex_s 0.
Proof.
  split; [|split].
  - exact (A_targets_hold_denotations nat ex_inp ex_opf ex_ident ex_s ex_h ex_wf ex_locs_ok
             (proj1 ex_store_ok) (proj2 ex_store_ok) ex_valid).
  - exact (A_inputs_untouched nat ex_inp ex_opf ex_ident ex_s ex_h 0 0 ex_wf ex_locs_ok ex_valid
             eq_refl eq_refl).
  - apply (A_value_fixed_when_built nat ex_inp ex_opf ex_ident ex_s ex_h 0 ex_wf ex_locs_ok ex_valid).
    simpl. lia.
Qed.
Print Assumptions ex_theorems_apply.
