(* C18: resource specs cannot be mixed silently; memory settings mean what they say. *)
From CubedV Require Import Model.Util Model.SpecCfg Proofs.SpecCfgProofs.
Local Open Scope Z_scope.

Theorem C18_convert_exact : forall negative m e u z,
  0 <= m -> convert_literal negative m e u = Bytes z ->
  0 <= z /\ (negative = true -> m = 0) /\
  (0 <= e + 3 * u -> z = m * 10 ^ (e + 3 * u)) /\
  (e + 3 * u < 0 -> z * 10 ^ (- (e + 3 * u)) = m).
Proof. exact convert_exact. Qed.
Print Assumptions C18_convert_exact.

Theorem C18_convert_complete : forall negative m e u,
  0 <= m -> (negative = true -> m = 0) ->
  (0 <= e + 3 * u \/ m mod 10 ^ (- (e + 3 * u)) = 0) ->
  exists z, convert_literal negative m e u = Bytes z.
Proof. exact convert_complete. Qed.
Print Assumptions C18_convert_complete.

Theorem C18_spec_eqb_eq : forall a b, spec_eqb a b = true <-> a = b.
Proof. exact spec_eqb_eq. Qed.
Print Assumptions C18_spec_eqb_eq.

Theorem C18_mixed_specs_rejected : forall specs a b,
  In a specs -> In b specs -> a <> b -> check_array_specs specs = None.
Proof. exact mixed_specs_rejected. Qed.
Print Assumptions C18_mixed_specs_rejected.

Theorem C18_check_array_specs_spec : forall specs,
  match check_array_specs specs with
  | Some (Some s) => forall x, In x specs -> x = s
  | Some None => specs = []
  | None => exists x y, In x specs /\ In y specs /\ x <> y
  end.
Proof. exact check_array_specs_spec. Qed.
Print Assumptions C18_check_array_specs_spec.

Example C18_keeps_every_digit : convert_literal false 9007199254740993 0 0 = Bytes 9007199254740993.
Proof. reflexivity. Qed.
Example C18_rejects_fraction_of_a_byte : convert_literal false 100000000000000001 (-14) 0 = Rejected.
Proof. reflexivity. Qed.
