(* C10: a lazy array's value is fixed when built; inputs and earlier outputs stay intact. *)

From CubedV Require Import Model.Util Model.Api Proofs.ApiProofs.


Theorem C10_value_fixed_when_built :
  forall (V : Type) (inp : nat -> V) (opf : nat -> list V -> V) (ident : nat)
         (s : state V) (h : list call) (id : nat),
    wf V s -> locs_ok V s -> valid_history V inp opf ident s h ->
    id < length (cells V s) ->
    den V inp opf (run V inp opf ident s h) id = den V inp opf s id.
Proof. exact (value_fixed_when_built). Qed.
Print Assumptions C10_value_fixed_when_built.

Theorem C10_compute_gives_denotation :
  forall (V : Type) (inp : nat -> V) (opf : nat -> list V -> V) (ident : nat)
         (s : state V) (ids written : list nat) (id l : nat),
    wf V s -> locs_ok V s -> valid V s (Compute ids written) ->
    In id ids -> is_op V s id = true -> loc_of V s id = Some l ->
    store V (step V inp opf ident s (Compute ids written)) l = den V inp opf s id.
Proof. exact (compute_gives_denotation). Qed.
Print Assumptions C10_compute_gives_denotation.

Theorem C10_inputs_untouched :
  forall (V : Type) (inp : nat -> V) (opf : nat -> list V -> V) (ident : nat)
         (s : state V) (h : list call) (id l : nat),
    wf V s -> locs_ok V s -> valid_history V inp opf ident s h ->
    is_op V s id = false -> loc_of V s id = Some l ->
    store V (run V inp opf ident s h) l = store V s l.
Proof. exact (inputs_untouched). Qed.
Print Assumptions C10_inputs_untouched.

Theorem C10_targets_hold_denotations :
  forall (V : Type) (inp : nat -> V) (opf : nat -> list V -> V) (ident : nat)
         (s : state V) (h : list call),
    wf V s -> locs_ok V s -> store_ok V inp opf s ->
    (forall l : nat, next_loc V s <= l -> store V s l = None) ->
    valid_history V inp opf ident s h ->
    store_ok V inp opf (run V inp opf ident s h).
Proof. exact (targets_hold_denotations). Qed.
Print Assumptions C10_targets_hold_denotations.

Theorem C10_targets_hold_denotations_strong :
  forall (V : Type) (inp : nat -> V) (opf : nat -> list V -> V) (ident : nat)
         (s : state V) (h : list call),
    wf V s -> locs_ok V s -> store_ok V inp opf s -> fresh_empty V s ->
    valid_history V inp opf ident s h ->
    store_ok V inp opf (run V inp opf ident s h) /\ fresh_empty V (run V inp opf ident s h).
Proof. exact (targets_hold_denotations_strong). Qed.
Print Assumptions C10_targets_hold_denotations_strong.

Theorem C10_invariants_preserved :
  forall (V : Type) (inp : nat -> V) (opf : nat -> list V -> V) (ident : nat)
         (s : state V) (c : call),
    wf V s -> locs_ok V s -> valid V s c ->
    wf V (step V inp opf ident s c) /\ locs_ok V (step V inp opf ident s c).
Proof. exact (invariants_preserved). Qed.
Print Assumptions C10_invariants_preserved.

Theorem C10_eager_store_fills_target :
  forall (V : Type) (inp : nat -> V) (opf : nat -> list V -> V) (ident : nat)
         (s : state V) (id t : nat) (written : list nat),
    wf V s -> locs_ok V s -> valid V s (StoreEager id t written) ->
    store V (step V inp opf ident s (StoreEager id t written)) t = den V inp opf s id \/
    (exists v : V, den V inp opf s id = Some v /\
       store V (step V inp opf ident s (StoreEager id t written)) t = Some (opf ident [v])).
Proof. exact (eager_store_fills_target). Qed.
Print Assumptions C10_eager_store_fills_target.

Example C10_store_retargets_shared_cell :
  let s0 : state nat := {| cells := [ {| cexpr := Inp 0; cloc := 0; retargeted := false |} ]; store := fun k => if Nat.eqb k 0 then Some 1 else None; next_loc := 1 |} in
  let inp i := i + 1 in let opf f (a : list nat) := f + sumn a in
  let s := run nat inp opf 99 s0 [Derive 7 [0]; Derive 3 [1]; StoreLazy 1 10; Compute [2] [1]] in
  store nat s 10 = den nat inp opf s 1 /\ loc_of nat s 2 = Some 2 /\ store nat s 2 = den nat inp opf s 2.
Proof. vm_compute. repeat split. Qed.
