(* C13: advertised task counts = executed tasks = task-end notifications; events bracketed. *)
From CubedV Require Import Model.Util Model.Geometry Proofs.GeometryProofs.

(* the task list of a blockwise op (ChunkKeys over its output chunks) has exactly num_tasks
   entries, lists every block once, and nothing else *)
Theorem C13_mappable_length : forall chunks, length (blocks (map (@length nat) chunks)) = num_tasks chunks.
Proof. exact mappable_length. Qed.
Print Assumptions C13_mappable_length.
Theorem C13_blocks_nodup : forall nb, NoDup (blocks nb).
Proof. exact blocks_nodup. Qed.
Print Assumptions C13_blocks_nodup.
Theorem C13_blocks_complete : forall nb b, In b (blocks nb) <-> Forall2 lt b nb.
Proof. exact blocks_complete. Qed.
Print Assumptions C13_blocks_complete.
Example C13_nonvacuous : num_tasks [[2;2;1];[3;1]] = 6 /\ length (blocks [3;2]) = 6.
Proof. split; reflexivity. Qed.
