From CubedV Require Import Model.Util Model.Geometry Model.Events.
Lemma placeholder_c13 : blocks [2;1] = [[0;0];[1;0]]. Proof. reflexivity. Qed.
