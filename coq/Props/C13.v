(* C13: advertised task counts = executed tasks = task-end notifications; events bracketed. *)
From CubedV Require Import Model.Util Model.Geometry Proofs.GeometryProofs Model.Events Proofs.EventsProofs.
From Coq Require Import Permutation.

(* the task list of a blockwise op (ChunkKeys over its output chunks) has exactly num_tasks
   entries, lists every block once, and nothing else *)
Theorem C13_mappable_length : forall chunks, length (blocks (map (@length nat) chunks)) = num_tasks chunks.
Proof. exact mappable_length. Qed.
Print Assumptions C13_mappable_length.
Theorem C13_blocks_nodup : forall nb, NoDup (blocks nb).
Proof. exact blocks_nodup. Qed.
Print Assumptions C13_blocks_nodup.
Theorem C13_blocks_complete : forall nb b, In b (blocks nb) <-> Forall2 lt b nb.
Proof. exact blocks_complete. Qed.
Print Assumptions C13_blocks_complete.
Example C13_nonvacuous : num_tasks [[2;2;1];[3;1]] = 6 /\ length (blocks [3;2]) = 6.
Proof. split; reflexivity. Qed.

(* Scheduling / callback-event layer (C07, C13): statements of Specs/Events_target.v.
   E_par_barrier carries one premise more than the target: every element of every interleaving
   list is a task-end event (the target statement is false without it, see
   EventsProofs.par_barrier_counterexample, restated below). *)

Theorem C13_events_ok_sound : forall nt trace, events_ok nt trace = true ->
  exists body, trace = ECS :: body ++ [ECE] /\
    (forall e, In e body -> e <> ECS /\ e <> ECE) /\
    (forall e n, In e body -> ev_op e = Some n -> In n (map fst nt)) /\
    forall n k, In (n, k) nt ->
      count_ev (EOS n) body = 1 /\ count_ev (EOE n) body = 1 /\ count_ev (ETE n) body = k /\
      exists l1 l2 l3, body = l1 ++ EOS n :: l2 ++ EOE n :: l3 /\
        count_ev (ETE n) l1 = 0 /\ count_ev (ETE n) l3 = 0.
Proof. exact (events_ok_sound). Qed.
Print Assumptions C13_events_ok_sound.

Theorem C13_seq_trace_ok : forall ops, NoDup (map fst ops) -> events_ok ops (seq_trace ops) = true.
Proof. exact (seq_trace_ok). Qed.
Print Assumptions C13_seq_trace_ok.

Theorem C13_par_trace_ok : forall gens,
  NoDup (map fst (concat (map fst gens))) ->
  (forall gi, In gi gens -> Permutation (snd gi) (gen_expected (fst gi))) ->
  events_ok (concat (map fst gens)) (par_trace gens) = true.
Proof. exact (par_trace_ok). Qed.
Print Assumptions C13_par_trace_ok.

Example C13_trace_accepted : events_ok [(0,1);(5,2)] [ECS; EOS 0; ETE 0; EOE 0; EOS 5; ETE 5; ETE 5; EOE 5; ECE] = true.
Proof. reflexivity. Qed.
Example C13_trace_rejected : events_ok [(0,1);(5,2)] [ECS; EOS 0; ETE 0; EOE 0; EOS 5; ETE 5; EOE 5; ECE] = false.
Proof. reflexivity. Qed.
