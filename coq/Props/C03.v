From CubedV Require Import Model.Util Model.Keys Model.Fusion Model.Memory Model.Dag Model.AllocTrace.
From CubedV Require Import Proofs.MemoryProofs Proofs.AllocProofs Proofs.FusedTreeProofs.
From CubedV Require Import Model.PartialReduce Proofs.PartialReduceProofs.
Local Open Scope Z_scope.

(* T0: for a task whose every argument is one block or a stream of blocks, the modelled peak
   never exceeds what the formula charges (beyond the reserved memory) *)
Theorem C03_unfused_peak_bounded : forall rc wc args extra out,
  0 <= rc -> 0 <= wc -> 0 <= extra -> 0 <= out ->
  Forall arg_ok args -> Forall single_or_stream args ->
  task_peak rc wc args extra out <= formula rc wc args extra out.
Proof. exact (unfused_peak_bounded). Qed.
Print Assumptions C03_unfused_peak_bounded.

(* T1: an argument that holds k > 1 blocks of one array at once is under-projected (the
   formula counts the array once) - e.g. unstack over several blocks (D14) *)
Theorem C03_multi_block_list_refuted :
  exists rc wc args extra out, 0 <= rc /\ 0 <= wc /\ Forall arg_ok args /\
  task_peak rc wc args extra out > formula rc wc args extra out.
Proof. exact (multi_block_list_refuted). Qed.
Print Assumptions C03_multi_block_list_refuted.

(* T2: how much a list argument really needs *)
Theorem C03_list_peak_exact : forall rc wc b k out,
  0 <= rc -> 0 <= wc -> 0 <= b -> 0 <= out -> (0 < k)%nat ->
  task_peak rc wc [AList b k] 0 out
  = Z.max (b * Z.of_nat (k - 1) + (b * rc + b)) (b * Z.of_nat k + out + out * wc).
Proof. exact (list_peak_exact). Qed.
Print Assumptions C03_list_peak_exact.

(* T3: if each fused predecessor's own peak is bounded by its projected memory (minus reserved)
   and leaves its chunk memory (<= its projection) behind, and the op charges one block per
   predecessor output, then the fused task's peak is bounded by the fused projection
   max(op, peak_projected preds); triples are (modelled peak, projected, chunkmem) *)
Theorem C03_fused_peak_bounded : forall wc rc (preds : list (Z * Z * Z)) extra out,
  0 <= rc -> 0 <= wc -> 0 <= extra -> 0 <= out ->
  (forall t, In t preds -> fst (fst t) <= snd (fst t) /\ 0 <= snd t /\ snd t <= snd (fst t)) ->
  fused_task_peak wc (map (fun t => (fst (fst t), snd t)) preds) extra out
  <= fused_projected (calc_projected 0 (map (fun t : Z * Z * Z => snd t) preds) extra out rc wc)
                     (map (fun t => (snd (fst t), snd t)) preds).
Proof. exact (fused_peak_bounded). Qed.
Print Assumptions C03_fused_peak_bounded.

(* T4: the plan's projected memory is the data bound plus the reserved memory *)
Theorem C03_projected_includes_reserved : forall reserved inputs extra out rc wc,
  calc_projected reserved inputs extra out rc wc = reserved + calc_projected 0 inputs extra out rc wc.
Proof. exact (projected_includes_reserved). Qed.
Print Assumptions C03_projected_includes_reserved.

(* a concrete task: two single-block arguments, peak 340 <= formula 490 *)
Example C03_example_task_peak : task_peak 1 1 [ABlock 100; ABlock 50] 30 80 = 340.
Proof. vm_compute; reflexivity. Qed.
Example C03_example_formula : formula 1 1 [ABlock 100; ABlock 50] 30 80 = 490.
Proof. vm_compute; reflexivity. Qed.
(* the refuting task of T1: a list of 3 blocks, peak 400 > formula 220 *)
Example C03_example_list_peak : task_peak 1 1 [AList 100 3] 0 10 = 400.
Proof. vm_compute; reflexivity. Qed.
Example C03_example_list_formula : formula 1 1 [AList 100 3] 0 10 = 220.
Proof. vm_compute; reflexivity. Qed.

(* D23 (known finding): with a compressor the write phase holds one more copy of the output
   chunk than the wc the formula is given: the bound fails, by at most one output chunk, and
   not at all when the read copies of the inputs cover one output chunk *)
Theorem C03_compressed_write_refuted :
  exists rc wc args extra out, 0 <= rc /\ 0 <= wc /\ 0 <= extra /\ 0 <= out /\
    Forall arg_ok args /\ Forall single_or_stream args /\
    task_peak rc (wc + 1) args extra out > formula rc wc args extra out.
Proof. exact (compressed_write_refuted). Qed.
Print Assumptions C03_compressed_write_refuted.

Theorem C03_compressed_write_overrun_bounded : forall rc wc args extra out,
  0 <= rc -> 0 <= wc -> 0 <= extra -> 0 <= out ->
  Forall arg_ok args -> Forall single_or_stream args ->
  task_peak rc (wc + 1) args extra out <= formula rc wc args extra out + out.
Proof. exact (compressed_write_overrun_bounded). Qed.
Print Assumptions C03_compressed_write_overrun_bounded.

Theorem C03_compressed_write_within_when_inputs_cover : forall rc wc args extra out,
  0 <= rc -> 0 <= wc -> 0 <= extra -> 0 <= out ->
  Forall arg_ok args -> Forall single_or_stream args ->
  out <= sumz (map asize args) * rc ->
  task_peak rc (wc + 1) args extra out <= formula rc wc args extra out.
Proof. exact (compressed_write_within_when_inputs_cover). Qed.
Print Assumptions C03_compressed_write_within_when_inputs_cover.

(* D25 (known finding): a fused task as the implementation runs it - all input blocks read first and
   held, the nested fused function evaluated with its intermediates alive (Model.AllocTrace.ftree;
   tied to measured peaks and to cubed's fused projections by the correspondence
   fused_fold_peak_and_projection).  The earlier theorem C03_fused_peak_bounded is about the
   modeller's own view (each predecessor runs to completion and frees its inputs), which the
   implementation does not follow. *)
Theorem C03_nested_fused_refuted : tree_task_peak 1 1 (right_fold 1 3) > tree_projected 1 1 (right_fold 1 3).
Proof. exact (nested_fused_refuted). Qed.
Print Assumptions C03_nested_fused_refuted.

Theorem C03_right_fold_peak : forall x n, 0 < x -> (1 <= n)%nat ->
  tree_task_peak 1 1 (right_fold x n) = (2 * Z.of_nat n + 3) * x.
Proof. exact (right_fold_peak). Qed.
Print Assumptions C03_right_fold_peak.

Theorem C03_right_fold_projected : forall x n, 0 < x -> (1 <= n)%nat ->
  tree_projected 1 1 (right_fold x n) = (Z.of_nat n + 5) * x.
Proof. exact (right_fold_projected). Qed.
Print Assumptions C03_right_fold_projected.

Theorem C03_left_fold_peak : forall x n, 0 < x -> (1 <= n)%nat ->
  tree_task_peak 1 1 (left_fold x n) = (Z.of_nat n + 4) * x.
Proof. exact (left_fold_peak). Qed.
Print Assumptions C03_left_fold_peak.

Theorem C03_left_fold_projected : forall x n, 0 < x -> (1 <= n)%nat ->
  tree_projected 1 1 (left_fold x n) = 6 * x.
Proof. exact (left_fold_projected). Qed.
Print Assumptions C03_left_fold_projected.

(* the under-projection is not bounded: it grows by one chunk per additional term *)
Theorem C03_fold_overrun_grows : forall x n, 0 < x -> (3 <= n)%nat ->
  tree_task_peak 1 1 (right_fold x n) - tree_projected 1 1 (right_fold x n) = (Z.of_nat n - 2) * x /\
  tree_task_peak 1 1 (left_fold x n) - tree_projected 1 1 (left_fold x n) = (Z.of_nat n - 2) * x.
Proof. exact (fold_overrun_grows). Qed.
Print Assumptions C03_fold_overrun_grows.

(* a projection that is safe for every fused function whose root is an operation: all input blocks
   with their read copies, every intermediate, the write copies of the result (as first stated, for
   every tree, it is false of a bare input block when rc = 0: safe_projection_bounds_refuted) *)
Theorem C03_safe_projection_bounds : forall rc wc e o cs, 0 <= rc -> 0 <= wc -> tree_ok (FOp e o cs) ->
  tree_task_peak rc wc (FOp e o cs)
  <= sumz (map (fun b => b * (rc + 1)) (leaves (FOp e o cs))) + total_alloc (FOp e o cs) + fsize (FOp e o cs) * wc.
Proof. exact (safe_projection_bounds_partial). Qed.
Print Assumptions C03_safe_projection_bounds.

Example C03_ex_right_fold_4_terms : (tree_task_peak 1 1 (right_fold 1 3), tree_projected 1 1 (right_fold 1 3)) = (9, 8).
Proof. vm_compute; reflexivity. Qed.
Example C03_ex_left_fold_4_terms : (tree_task_peak 1 1 (left_fold 1 3), tree_projected 1 1 (left_fold 1 3)) = (7, 6).
Proof. vm_compute; reflexivity. Qed.

(* D22 (repaired): one task of partial_reduce as _partial_reduce runs it (Model.PartialReduce, tied to
   the real function's measured peak and to the real projected_mem by two correspondences) *)
Theorem C03_pr_task_peak_bounded : forall rc wc x R wi k, 0 <= rc -> 1 <= wc -> 0 <= x -> 0 <= R ->
  pr_task_peak rc wc x R R wi k <= pr_projected 0 rc wc x R wi.
Proof. exact (pr_task_peak_bounded). Qed.
Print Assumptions C03_pr_task_peak_bounded.

Theorem C03_pr_old_refuted : pr_task_peak 1 1 1 8 8 true 2 > pr_projected_old 0 1 1 1 8.
Proof. exact (pr_old_refuted). Qed.
Print Assumptions C03_pr_old_refuted.

(* before the repair the projection held exactly when a reduced chunk was at most three input chunks *)
Theorem C03_pr_old_bound_iff : forall x R k, 0 <= x -> 0 <= R -> (2 <= k)%nat ->
  (pr_task_peak 1 1 x R R true k <= pr_projected_old 0 1 1 x R <-> R <= 3 * x).
Proof. exact (pr_old_bound_iff). Qed.
Print Assumptions C03_pr_old_bound_iff.

Theorem C03_pr_peak_closed : forall rc wc x R k, 0 <= rc -> 0 <= wc -> 0 <= x -> 0 <= R -> (3 <= k)%nat ->
  pr_task_peak rc wc x R R true k
  = Z.max (3 * R + x * rc + x) (Z.max (5 * R) (R + R * wc)).
Proof. exact (pr_peak_closed). Qed.
Print Assumptions C03_pr_peak_closed.

Theorem C03_pr_projected_reserved : forall res rc wc x R wi, pr_projected res rc wc x R wi = res + pr_projected 0 rc wc x R wi.
Proof. exact (pr_projected_reserved). Qed.
Print Assumptions C03_pr_projected_reserved.

(* uint8 -> uint64 over one-row chunks (R = 8 x): 5 R = 40 allocated; projected 35 before, 51 after the repair *)
Example C03_ex_partial_reduce_thin : (pr_task_peak 0 1 1 8 8 true 4, pr_projected_old 0 1 1 1 8, pr_projected 0 1 1 1 8 true) = (40, 35, 51).
Proof. vm_compute; reflexivity. Qed.
