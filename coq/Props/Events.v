From CubedV Require Import Model.Util Model.Events Proofs.EventsProofs.
From Coq Require Import Permutation.

(* Scheduling / callback-event layer (C07, C13): statements of Specs/Events_target.v.
   E_par_barrier carries one premise more than the target: every element of every interleaving
   list is a task-end event (the target statement is false without it, see
   EventsProofs.par_barrier_counterexample, restated below). *)

Theorem E_events_ok_sound : forall nt trace, events_ok nt trace = true ->
  exists body, trace = ECS :: body ++ [ECE] /\
    (forall e, In e body -> e <> ECS /\ e <> ECE) /\
    (forall e n, In e body -> ev_op e = Some n -> In n (map fst nt)) /\
    forall n k, In (n, k) nt ->
      count_ev (EOS n) body = 1 /\ count_ev (EOE n) body = 1 /\ count_ev (ETE n) body = k /\
      exists l1 l2 l3, body = l1 ++ EOS n :: l2 ++ EOE n :: l3 /\
        count_ev (ETE n) l1 = 0 /\ count_ev (ETE n) l3 = 0.
Proof. exact (events_ok_sound). Qed.
Print Assumptions E_events_ok_sound.

Theorem E_seq_trace_ok : forall ops, NoDup (map fst ops) -> events_ok ops (seq_trace ops) = true.
Proof. exact (seq_trace_ok). Qed.
Print Assumptions E_seq_trace_ok.

Theorem E_par_trace_ok : forall gens,
  NoDup (map fst (concat (map fst gens))) ->
  (forall gi, In gi gens -> Permutation (snd gi) (gen_expected (fst gi))) ->
  events_ok (concat (map fst gens)) (par_trace gens) = true.
Proof. exact (par_trace_ok). Qed.
Print Assumptions E_par_trace_ok.

Theorem E_is_topo_order_sound : forall nodes edges order, is_topo_order nodes edges order = true ->
  NoDup order /\ (forall n, In n nodes <-> In n order) /\
  forall u v, In (u, v) edges -> exists i j, index_of u order = Some i /\ index_of v order = Some j /\ i < j.
Proof. exact (is_topo_order_sound). Qed.
Print Assumptions E_is_topo_order_sound.

Theorem E_is_generations_sound : forall nodes edges gens, is_generations nodes edges gens = true ->
  (forall n, In n nodes <-> exists g, In g gens /\ In n g) /\
  forall u v, In (u, v) edges -> exists i j, gen_index u gens = Some i /\ gen_index v gens = Some j /\ i < j.
Proof. exact (is_generations_sound). Qed.
Print Assumptions E_is_generations_sound.

Theorem E_op_deps_spec : forall is_op edges p b, In (p, b) (op_deps is_op edges) <->
  (is_op p = true /\ is_op b = true /\ exists a, In (p, a) edges /\ In (a, b) edges).
Proof. exact (op_deps_spec). Qed.
Print Assumptions E_op_deps_spec.

Theorem E_seq_barrier : forall nodes edges order is_op skip (ntasks : nat -> nat),
  is_topo_order nodes edges order = true ->
  barrier_ok (op_deps is_op edges)
    (seq_trace (map (fun n => (n, ntasks n)) (visit_nodes skip order))) = true.
Proof. exact (seq_barrier). Qed.
Print Assumptions E_seq_barrier.

Theorem E_par_barrier : forall nodes edges gens is_op skip (ntasks : nat -> nat) (inter : list (list ev)),
  is_generations nodes edges gens = true ->
  length inter = length (visit_generations skip gens) ->
  (forall l e, In l inter -> In e l -> exists n, e = ETE n) ->
  barrier_ok (op_deps is_op edges)
    (par_trace (combine (map (map (fun n => (n, ntasks n))) (visit_generations skip gens)) inter)) = true.
Proof. exact (par_barrier). Qed.
Print Assumptions E_par_barrier.

Theorem E_barrier_ok_sound : forall deps trace p b i j,
  barrier_ok deps trace = true -> In (p, b) deps ->
  forall nt, events_ok nt trace = true -> In p (map fst nt) -> In b (map fst nt) ->
  nth_error trace i = Some (ETE p) -> nth_error trace j = Some (ETE b) -> i < j.
Proof. exact (barrier_ok_sound). Qed.
Print Assumptions E_barrier_ok_sound.

(* ---- non-vacuity -------------------------------------------------------------- *)
(* an accepted sequential trace: op 0 with one task, then op 5 with two tasks *)
Example E_seq_accepted :
  seq_trace [(0, 1); (5, 2)] = [ECS; EOS 0; ETE 0; EOE 0; EOS 5; ETE 5; ETE 5; EOE 5; ECE] /\
  events_ok [(0, 1); (5, 2)] (seq_trace [(0, 1); (5, 2)]) = true.
Proof. vm_compute; split; reflexivity. Qed.

(* an accepted generation-parallel trace whose first generation interleaves the task ends of
   ops 0 and 5 (5,0,5 instead of the stream order 0,5,5), followed by a second generation *)
Example E_par_accepted :
  par_trace [([(0, 1); (5, 2)], [ETE 5; ETE 0; ETE 5]); ([(7, 1)], [ETE 7])]
    = [ECS; EOS 0; EOS 5; ETE 5; ETE 0; ETE 5; EOE 0; EOE 5; EOS 7; ETE 7; EOE 7; ECE] /\
  events_ok [(0, 1); (5, 2); (7, 1)]
    (par_trace [([(0, 1); (5, 2)], [ETE 5; ETE 0; ETE 5]); ([(7, 1)], [ETE 7])]) = true.
Proof. vm_compute; split; reflexivity. Qed.

(* rejected: a task end of op 0 before its operation start *)
Example E_task_end_before_start_rejected :
  events_ok [(0, 1)] [ECS; ETE 0; EOS 0; EOE 0; ECE] = false.
Proof. vm_compute; reflexivity. Qed.

(* rejected: wrong number of task ends, and an op that never ran *)
Example E_wrong_task_count_rejected :
  events_ok [(0, 2)] [ECS; EOS 0; ETE 0; EOE 0; ECE] = false.
Proof. vm_compute; reflexivity. Qed.

Example E_missing_op_rejected :
  events_ok [(0, 1); (5, 2)] [ECS; EOS 0; ETE 0; EOE 0; ECE] = false.
Proof. vm_compute; reflexivity. Qed.

(* the barrier checker accepts the sequential trace of a chain op 0 -> array 1 -> op 2 and
   rejects a trace where the consumer starts before the producer has ended *)
Example E_barrier_accepts :
  barrier_ok (op_deps (fun n => negb (Nat.eqb n 1)) [(0, 1); (1, 2)])
    (seq_trace [(0, 1); (2, 1)]) = true.
Proof. vm_compute; reflexivity. Qed.

Example E_barrier_rejects :
  barrier_ok (op_deps (fun n => negb (Nat.eqb n 1)) [(0, 1); (1, 2)])
    [ECS; EOS 0; EOS 2; ETE 0; EOE 0; ETE 2; EOE 2; ECE] = false.
Proof. vm_compute; reflexivity. Qed.

(* the target form of par_barrier (arbitrary interleaving lists) is false: a stray EOS 2 inside
   the first interleaving is found by ev_index before EOE 0 *)
Example E_par_barrier_needs_task_end_interleavings :
  let nodes := [0; 1; 2] in
  let edges := [(0, 1); (1, 2)] in
  let gens := [[0]; [1]; [2]] in
  let is_op := fun n => negb (Nat.eqb n 1) in
  let skip := fun n => Nat.eqb n 1 in
  let inter := [[EOS 2]; []] in
  is_generations nodes edges gens = true /\
  length inter = length (visit_generations skip gens) /\
  barrier_ok (op_deps is_op edges)
    (par_trace (combine (map (map (fun n => (n, 0))) (visit_generations skip gens)) inter)) = false.
Proof. exact par_barrier_counterexample. Qed.
