(* C06: tasks are idempotent and independent of order, repetition and placement. *)

From CubedV Require Import Model.Util Model.Keys Model.Exec Model.ExecObs Proofs.ExecProofs.
From CubedV Require Import Model.Geometry Proofs.GeometryProofs.
From Coq Require Import Permutation.


Theorem C06_op_schedule_irrelevant : forall (V : Type) (o : op V) (sched : list (task V)) (s : store V),
  op_ok V o -> (forall t, In t sched -> In t o) -> (forall t, In t o -> In t sched) ->
  seq V (run_sched V s sched) (op_result V s o).
Proof. exact (op_schedule_irrelevant). Qed.
Print Assumptions C06_op_schedule_irrelevant.

Theorem C06_run_task_idempotent : forall (V : Type) (t : task V) (s : store V),
  task_local V t -> disjoint (t_reads V t) (t_writes V t) ->
  seq V (run_task V (run_task V s t) t) (run_task V s t).
Proof. exact (run_task_idempotent). Qed.
Print Assumptions C06_run_task_idempotent.

Theorem C06_late_reexecution_harmless : forall (V : Type) (p : list (op V)) (s : store V) (o : op V) (t : task V),
  plan_ok V p -> In o p -> In t o ->
  seq V (run_task V (run_plan V s p) t) (run_plan V s p).
Proof. exact (late_reexecution_harmless). Qed.
Print Assumptions C06_late_reexecution_harmless.

Theorem C06_late_reexecution_midway : forall (V : Type) (p1 p2 : list (op V)) (s : store V) (o : op V) (t : task V),
  plan_ok V (p1 ++ p2) -> In o p1 -> In t o ->
  seq V (run_plan V (run_task V (run_plan V s p1) t) p2) (run_plan V s (p1 ++ p2)).
Proof. exact (late_reexecution_midway). Qed.
Print Assumptions C06_late_reexecution_midway.

Example C06_side_conditions_checkable : oplan_ok [[([(0,[0])], [(1,[0])]); ([(0,[0])], [(1,[1])])]; [([(1,[0]); (1,[1])], [(2,[0])])]] = true.
Proof. reflexivity. Qed.
Example C06_side_conditions_reject_shared_chunk : oplan_ok [[([(0,[0])], [(1,[0])]); ([(0,[0])], [(1,[0])])]] = false.
Proof. reflexivity. Qed.

(* random arrays: the Philox key of a block is root_seed + block_id_to_offset(block_id, numblocks) (= ravel, tied to the real
   _random by the correspondence random_stream_ids): distinct blocks of the grid draw from distinct streams *)
Theorem C06_distinct_blocks_distinct_streams : forall root nb b b', Forall2 lt b nb -> Forall2 lt b' nb ->
  b <> b' -> root + ravel nb b <> root + ravel nb b'.
Proof. exact (distinct_blocks_distinct_streams). Qed.
Print Assumptions C06_distinct_blocks_distinct_streams.

Example C06_stream_ids_2x2x2 : map (ravel [2; 2; 2]) (blocks [2; 2; 2]) = [0; 1; 2; 3; 4; 5; 6; 7].
Proof. vm_compute; reflexivity. Qed.
