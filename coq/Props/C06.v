From CubedV Require Import Model.Util Model.Keys Model.Exec Model.ExecObs.
Lemma placeholder_c06 : oplan_ok [[([(0,[0])], [(1,[0])])]; [([(1,[0])], [(2,[0])])]] = true. Proof. reflexivity. Qed.
