(* C12: declared shape/dtype/chunks are truthful; written blocks match their chunk shape. *)
From CubedV Require Import Model.Util Model.Keys Model.Geometry Model.OpsKF Model.ShapeSem Proofs.GeometryProofs Proofs.OpsKFProofs Proofs.ShapeSemProofs.
From Coq Require Import Permutation.

Theorem C12_upcast_never_narrows : forall d, itemsize d <= itemsize (upcast d).
Proof. exact upcast_never_narrows. Qed.
Print Assumptions C12_upcast_never_narrows.
Theorem C12_upcast_kind : forall d, kind_of (upcast d) = match kind_of d with KBool => KSigned | k => k end.
Proof. exact upcast_kind. Qed.
Print Assumptions C12_upcast_kind.
Theorem C12_all_dt_complete : forall d, In d all_dt.
Proof. exact all_dt_complete. Qed.
Print Assumptions C12_all_dt_complete.
Theorem C12_reduced_chunks_sum : forall k nb, sumn (reduced_chunks k nb) = pr_numblocks k nb.
Proof. exact reduced_chunks_sum. Qed.
Print Assumptions C12_reduced_chunks_sum.

Theorem C12_pr_keep_all_truthful : forall k nb, 0 < k -> 0 < nb ->
  ((forall bi, bi < pr_numblocks k nb -> pr_actual_keep_all k nb bi = pr_declared (Nat.min k nb))
   <-> (nb <= k \/ nb mod k = 0)).
Proof. exact (pr_keep_all_truthful). Qed.
Print Assumptions C12_pr_keep_all_truthful.

Theorem C12_pr_groups_inside : forall k nb bi, 0 < k -> bi < pr_numblocks k nb ->
  pr_group k nb bi <> [] /\ (forall x, In x (pr_group k nb bi) -> x < nb) /\
  length (pr_group k nb bi) <= k.
Proof. exact (pr_groups_inside). Qed.
Print Assumptions C12_pr_groups_inside.
