(* C12: declared shape/dtype/chunks are truthful; written blocks match their chunk shape. *)
From CubedV Require Import Model.Util Model.Keys Model.Geometry Model.OpsKF Model.ShapeSem Proofs.GeometryProofs Proofs.OpsKFProofs Proofs.ShapeSemProofs.
From Coq Require Import Permutation.
From CubedV Require Import Model.Regular Proofs.RegularProofs.
From CubedV Require Import Model.GroupBy Proofs.GroupByProofs.

Theorem C12_upcast_never_narrows : forall d, itemsize d <= itemsize (upcast d).
Proof. exact upcast_never_narrows. Qed.
Print Assumptions C12_upcast_never_narrows.
Theorem C12_upcast_kind : forall d, kind_of (upcast d) = match kind_of d with KBool => KSigned | k => k end.
Proof. exact upcast_kind. Qed.
Print Assumptions C12_upcast_kind.
Theorem C12_all_dt_complete : forall d, In d all_dt.
Proof. exact all_dt_complete. Qed.
Print Assumptions C12_all_dt_complete.
Theorem C12_reduced_chunks_sum : forall k nb, sumn (reduced_chunks k nb) = pr_numblocks k nb.
Proof. exact reduced_chunks_sum. Qed.
Print Assumptions C12_reduced_chunks_sum.

Theorem C12_pr_keep_all_truthful : forall k nb, 0 < k -> 0 < nb ->
  ((forall bi, bi < pr_numblocks k nb -> pr_actual_keep_all k nb bi = pr_declared (Nat.min k nb))
   <-> (nb <= k \/ nb mod k = 0)).
Proof. exact (pr_keep_all_truthful). Qed.
Print Assumptions C12_pr_keep_all_truthful.

Theorem C12_pr_groups_inside : forall k nb bi, 0 < k -> bi < pr_numblocks k nb ->
  pr_group k nb bi <> [] /\ (forall x, In x (pr_group k nb bi) -> x < nb) /\
  length (pr_group k nb bi) <= k.
Proof. exact (pr_groups_inside). Qed.
Print Assumptions C12_pr_groups_inside.

(* Regular: the gate between declared chunks and the stored regular grid (_check_regular_chunks, to_chunksize) *)

Theorem C12_reg_check_regular1_spec : forall c, c <> [] ->
  (check_regular1 c = true <-> exists a k r, c = repeat a k ++ [r] /\ (k = 0 \/ r <= a)).
Proof. exact (check_regular1_spec). Qed.
Print Assumptions C12_reg_check_regular1_spec.

Theorem C12_reg_to_chunksize_truthful1 : forall c, wf_axis c -> check_regular1 c = true ->
  stored_chunks (sumn c) (Nat.max (hd 0 c) 1) = c.
Proof. exact (to_chunksize_truthful1). Qed.
Print Assumptions C12_reg_to_chunksize_truthful1.

Theorem C12_reg_to_chunksize_truthful : forall cs sz, Forall wf_axis cs -> to_chunksize cs = Some sz ->
  length sz = length cs /\
  forall i, i < length cs -> stored_chunks (sumn (nth i cs [])) (nth i sz 0) = nth i cs [].
Proof. exact (to_chunksize_truthful). Qed.
Print Assumptions C12_reg_to_chunksize_truthful.

Theorem C12_reg_regular_passes : forall n c, 0 < c -> check_regular1 (regular n c) = true.
Proof. exact (regular_passes). Qed.
Print Assumptions C12_reg_regular_passes.

Theorem C12_reg_larger_last_refused : forall a k r, 0 < k -> a < r ->
  check_regular1 (repeat a k ++ [r]) = false.
Proof. exact (larger_last_refused). Qed.
Print Assumptions C12_reg_larger_last_refused.

Theorem C12_reg_unequal_middle_refused : forall l1 x y l2 z, x <> y ->
  check_regular1 (l1 ++ x :: y :: l2 ++ [z]) = false.
Proof. exact (unequal_middle_refused). Qed.
Print Assumptions C12_reg_unequal_middle_refused.

Theorem C12_reg_refusal_iff : forall cs,
  to_chunksize cs = None <-> exists c, In c cs /\ check_regular1 c = false.
Proof. exact (refusal_iff). Qed.
Print Assumptions C12_reg_refusal_iff.

(* non-vacuity: the model accepts, refuses and stores what the statements talk about *)
Example C12_reg_ex_accept : to_chunksize [[3;3;1];[4]] = Some [3;4].
Proof. vm_compute; reflexivity. Qed.

Example C12_reg_ex_refuse_larger_last : to_chunksize [[2;6]] = None.
Proof. vm_compute; reflexivity. Qed.

Example C12_reg_ex_refuse_unequal_middle : check_regular1 [3;1;3;3] = false.
Proof. vm_compute; reflexivity. Qed.

Example C12_reg_ex_stored : stored_chunks 7 3 = [3;3;1].
Proof. vm_compute; reflexivity. Qed.

Example C12_reg_ex_zero_length : to_chunksize [[0]] = Some [1].
Proof. vm_compute; reflexivity. Qed.

(* GroupBy: the chunking of the grouped axis of groupby_blockwise (_get_chunks_for_groups) - every task reads exactly the
   labels of the groups of its output chunk and is told that chunk's number of groups *)

Theorem C12_gb_newchunks_sum : forall nc labels G, 0 < nc -> 0 < G -> labels_ok labels G ->
  sumn (newchunks nc labels G) = length labels.
Proof. exact (newchunks_sum). Qed.
Print Assumptions C12_gb_newchunks_sum.

Theorem C12_gb_newchunks_length : forall nc labels G, 0 < nc -> 0 < G ->
  length (newchunks nc labels G) = num_out_chunks (groups_per_chunk nc G) G.
Proof. exact (newchunks_length). Qed.
Print Assumptions C12_gb_newchunks_length.

Theorem C12_gb_read_labels_in_range : forall nc labels G j l, 0 < nc -> 0 < G -> labels_ok labels G ->
  j < num_out_chunks (groups_per_chunk nc G) G -> In l (read_labels nc labels G j) ->
  start_group nc G j <= l < start_group nc G j + groups_in_chunk nc G j.
Proof. exact (read_labels_in_range). Qed.
Print Assumptions C12_gb_read_labels_in_range.

Theorem C12_gb_read_labels_partition : forall nc labels G, 0 < nc -> 0 < G -> labels_ok labels G ->
  concat (map (read_labels nc labels G) (seq 0 (num_out_chunks (groups_per_chunk nc G) G))) = labels.
Proof. exact (read_labels_partition). Qed.
Print Assumptions C12_gb_read_labels_partition.

Theorem C12_gb_groups_in_chunk_spec : forall nc G, 0 < nc -> 0 < G ->
  sumn (map (groups_in_chunk nc G) (seq 0 (num_out_chunks (groups_per_chunk nc G) G))) = G /\
  forall j, j < num_out_chunks (groups_per_chunk nc G) G -> 0 < groups_in_chunk nc G j <= groups_per_chunk nc G.
Proof. exact (groups_in_chunk_spec). Qed.
Print Assumptions C12_gb_groups_in_chunk_spec.

Theorem C12_gb_short_last_group_chunk : exists nc G j, 0 < nc /\ 0 < G /\ j < num_out_chunks (groups_per_chunk nc G) G /\
  groups_in_chunk nc G j < groups_per_chunk nc G.
Proof. exact (short_last_group_chunk). Qed.
Print Assumptions C12_gb_short_last_group_chunk.

Example C12_gb_ex : (newchunks 2 [0;0;0;1;1;2;2;3;4;4] 5, map (groups_in_chunk 2 5) [0;1;2], map (read_labels 2 [0;0;0;1;1;2;2;3;4;4] 5) [0;1;2])
  = ([5; 3; 2], [2; 2; 1], [[0; 0; 0; 1; 1]; [2; 2; 3]; [4; 4]]).
Proof. vm_compute; reflexivity. Qed.
