From CubedV Require Import Model.Util Model.Geometry Proofs.GeometryProofs.

(* -- G5: regular chunks ---------------------------------------------------- *)
Theorem G_regular_sum : forall n c, 0 < c -> sumn (regular n c) = n.
Proof. exact (regular_sum). Qed.
Print Assumptions G_regular_sum.

Theorem G_regular_entries : forall n c x, 0 < c -> 0 < n -> In x (regular n c) -> 0 < x /\ x <= c.
Proof. exact (regular_entries). Qed.
Print Assumptions G_regular_entries.

Theorem G_numblocks1_ceil : forall n c, 0 < c -> 0 < n -> numblocks1 n c = (n + c - 1) / c.
Proof. exact (numblocks1_ceil). Qed.
Print Assumptions G_numblocks1_ceil.

(* -- G4: block enumeration ------------------------------------------------- *)
Theorem G_blocks_length : forall nb, length (blocks nb) = prodn nb.
Proof. exact (blocks_length). Qed.
Print Assumptions G_blocks_length.

Theorem G_blocks_complete : forall nb b, In b (blocks nb) <-> Forall2 lt b nb.
Proof. exact (blocks_complete). Qed.
Print Assumptions G_blocks_complete.

Theorem G_blocks_nodup : forall nb, NoDup (blocks nb).
Proof. exact (blocks_nodup). Qed.
Print Assumptions G_blocks_nodup.

Theorem G_blocks_nth_unravel : forall nb k, k < prodn nb -> nth k (blocks nb) [] = unravel nb k.
Proof. exact (blocks_nth_unravel). Qed.
Print Assumptions G_blocks_nth_unravel.

Theorem G_blocks_from_spec : forall nb start,
  blocks_from nb start = map (unravel nb) (seq start (prodn nb - start)).
Proof. exact (blocks_from_spec). Qed.
Print Assumptions G_blocks_from_spec.

Theorem G_mappable_length : forall chunks, length (blocks (map (@length nat) chunks)) = num_tasks chunks.
Proof. exact (mappable_length). Qed.
Print Assumptions G_mappable_length.

(* -- G3: ravel / unravel --------------------------------------------------- *)
Theorem G_ravel_unravel : forall nb o, o < prodn nb ->
  ravel nb (unravel nb o) = o /\ Forall2 lt (unravel nb o) nb.
Proof. exact (ravel_unravel). Qed.
Print Assumptions G_ravel_unravel.

Theorem G_unravel_ravel : forall nb b, Forall2 lt b nb ->
  unravel nb (ravel nb b) = b /\ ravel nb b < prodn nb.
Proof. exact (unravel_ravel). Qed.
Print Assumptions G_unravel_ravel.

Theorem G_ravel_injective : forall nb b b', Forall2 lt b nb -> Forall2 lt b' nb ->
  ravel nb b = ravel nb b' -> b = b'.
Proof. exact (ravel_injective). Qed.
Print Assumptions G_ravel_injective.

(* -- G1: regions of one axis ----------------------------------------------- *)
Theorem G_regions_partition_axis : forall cs x, x < sumn cs ->
  exists i, i < length cs /\ fst (region1 cs i) <= x < snd (region1 cs i)
  /\ forall j, j < length cs -> fst (region1 cs j) <= x < snd (region1 cs j) -> j = i.
Proof. exact (regions_partition_axis). Qed.
Print Assumptions G_regions_partition_axis.

Theorem G_region1_extent : forall cs i, i < length cs ->
  snd (region1 cs i) = fst (region1 cs i) + nth i cs 0
  /\ snd (region1 cs i) <= sumn cs.
Proof. exact (region1_extent). Qed.
Print Assumptions G_region1_extent.

(* -- G2: N-d regions ------------------------------------------------------- *)
Theorem G_regions_partition : forall chunks x, Forall2 (fun c xi => xi < sumn c) chunks x ->
  exists b, In b (blocks (map (@length nat) chunks)) /\ in_region (get_item chunks b) x = true
  /\ forall b', In b' (blocks (map (@length nat) chunks)) -> in_region (get_item chunks b') x = true -> b' = b.
Proof. exact (regions_partition). Qed.
Print Assumptions G_regions_partition.

(* -- concrete instances (non-vacuity) -------------------------------------- *)
Example G_blocks_2_3 :
  blocks [2;3] = [[0;0];[0;1];[0;2];[1;0];[1;1];[1;2]].
Proof. vm_compute; reflexivity. Qed.

Example G_blocks_2_3_ravel :
  (length (blocks [2;3]), map (ravel [2;3]) (blocks [2;3])) = (6, [0;1;2;3;4;5]).
Proof. vm_compute; reflexivity. Qed.

Example G_get_item_ex :
  get_item [[2;2;1];[3]] [2;0] = [(4,5);(0,3)].
Proof. vm_compute; reflexivity. Qed.

Example G_in_region_ex :
  (regular 5 2,
   in_region (get_item [[2;2;1];[3]] [2;0]) [4;2],
   in_region (get_item [[2;2;1];[3]] [1;0]) [4;2]) = ([2;2;1], true, false).
Proof. vm_compute; reflexivity. Qed.
