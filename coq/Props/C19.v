(* C19: acceptance and results do not depend on how resources are configured. *)
From CubedV Require Import Model.Util Model.Memory Model.SpecCfg Proofs.SpecCfgProofs Proofs.ConfigProofs.
Local Open Scope Z_scope.
Theorem C19_projected_minus_reserved_independent : forall reserved reserved' inputs operation output rc wc,
  calc_projected reserved inputs operation output rc wc - reserved
  = calc_projected reserved' inputs operation output rc wc - reserved'.
Proof. exact projected_minus_reserved_independent. Qed.
Print Assumptions C19_projected_minus_reserved_independent.
Theorem C19_accepted_monotone : forall (ops : list (Z * Z)) (extra : Z),
  0 <= extra -> plan_accepted ops = true -> plan_accepted (map (fun pa => (fst pa, snd pa + extra)) ops) = true.
Proof. exact accepted_monotone. Qed.
Print Assumptions C19_accepted_monotone.
Theorem C19_helpers_inherit_accepted : forall (s : spec) (helpers : list spec),
  (forall h, In h helpers -> h = s) -> check_array_specs (s :: helpers) = Some (Some s).
Proof. exact helpers_inherit_accepted. Qed.
Print Assumptions C19_helpers_inherit_accepted.
Theorem C19_foreign_helper_rejected : forall (s d : spec) (rest : list spec),
  s <> d -> check_array_specs (s :: d :: rest) = None.
Proof. exact foreign_helper_rejected. Qed.
Print Assumptions C19_foreign_helper_rejected.
Example C19_default_helper_breaks_explicit_spec :
  check_array_specs [S7 1 0 100 0 0 0 0; S7 0 0 200 0 0 0 0] = None.
Proof. reflexivity. Qed.
