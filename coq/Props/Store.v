(* Store: write sets of store tasks into a chunked array (C05) and region stores (C11). *)

From CubedV Require Import Model.Util Model.Geometry Model.StoreRegion Proofs.StoreProofs.


Theorem S_touched_spec : forall n c t b j, 0 < t -> 0 < c -> b * c < n ->
  (In j (touched n c t b) <->
   (j * t < n /\ overlaps (blk_lo t j, blk_hi n t j) (blk_lo c b, blk_hi n c b))).
Proof. exact (touched_spec). Qed.
Print Assumptions S_touched_spec.

Theorem S_one_writer_axis : forall n c t j, 0 < t -> 0 < c -> (c mod t = 0 \/ n <= c) -> j * t < n ->
  exists b, b * c < n /\ writes_whole n c t b j = true /\
    forall b', b' * c < n -> overlaps (blk_lo t j, blk_hi n t j) (blk_lo c b', blk_hi n c b') -> b' = b.
Proof. exact (one_writer_axis). Qed.
Print Assumptions S_one_writer_axis.

Theorem S_touched_whole : forall n c t b, 0 < t -> 0 < c -> b * c < n -> (c mod t = 0 \/ n <= c) ->
  forallb (writes_whole n c t b) (touched n c t b) = true.
Proof. exact (touched_whole). Qed.
Print Assumptions S_touched_whole.

Theorem S_misaligned_shares_chunk :
  exists n c t b b' j, b <> b' /\ In j (touched n c t b) /\ In j (touched n c t b').
Proof. exact (misaligned_shares_chunk). Qed.
Print Assumptions S_misaligned_shares_chunk.

Theorem S_store_task_chunks_aligned : forall scs tcs nbs i,
  length scs = length tcs -> length nbs = length tcs -> i < length tcs ->
  0 < nth i tcs 0 ->
  (nth i (store_task_chunks scs tcs nbs) 0) mod (nth i tcs 0) = 0 \/ nth i nbs 0 <= 1.
Proof. exact (store_task_chunks_aligned). Qed.
Print Assumptions S_store_task_chunks_aligned.

Theorem S_region_task_exact : forall a b, accepted_axis a -> In b (out_blocks_axis a) ->
  rstart a <= fst (task_target a b) /\ snd (task_target a b) <= rstop a /\
  fst (task_target a b) < snd (task_target a b) /\
  fst (task_target a b) = rstart a + fst (task_source a b) /\
  snd (task_target a b) = rstart a + snd (task_source a b) /\
  b - block_offset a < nblocks (sn a) (sc a).
Proof. exact (region_task_exact). Qed.
Print Assumptions S_region_task_exact.

Theorem S_region_covered_once : forall a x, accepted_axis a -> rstart a <= x < rstop a ->
  exists b, In b (out_blocks_axis a) /\ fst (task_target a b) <= x < snd (task_target a b) /\
    forall b', In b' (out_blocks_axis a) -> fst (task_target a b') <= x < snd (task_target a b') -> b' = b.
Proof. exact (region_covered_once). Qed.
Print Assumptions S_region_covered_once.

Theorem S_region_block_count : forall a, accepted_axis a ->
  length (out_blocks_axis a) = nblocks (sn a) (sc a) /\ NoDup (out_blocks_axis a).
Proof. exact (region_block_count). Qed.
Print Assumptions S_region_block_count.

Theorem S_region_num_tasks_exact : forall axes, Forall accepted_axis axes ->
  length (out_blocks axes) = region_num_tasks axes.
Proof. exact (region_num_tasks_exact). Qed.
Print Assumptions S_region_num_tasks_exact.

Theorem S_region_rejects_unsafe : forall axes a, In a axes ->
  (rstart a mod tc a <> 0 \/ (rstop a mod tc a <> 0 /\ rstop a <> tn a) \/ sn a <> rstop a - rstart a
   \/ (sc a <> tc a /\ (1 < nblocks (sn a) (sc a) \/ tc a < sn a))) ->
  region_accepts axes = RejectValue.
Proof. exact (region_rejects_unsafe). Qed.
Print Assumptions S_region_rejects_unsafe.

Example S_ex_touched : touched 10 4 2 1 = [2; 3].
Proof. vm_compute; reflexivity. Qed.

Example S_ex_out_blocks : out_blocks [RA 8 4 4 8 4 4; RA 8 4 0 4 4 4] = [[1; 0]].
Proof. vm_compute; reflexivity. Qed.

Example S_ex_region_rejected : region_accepts [RA 8 4 2 6 4 4] = RejectValue.
Proof. vm_compute; reflexivity. Qed.
