From CubedV Require Import Model.Util Model.Keys Model.Fusion Model.Memory Model.Dag Model.FuseGuard Model.Admission Proofs.MemoryProofs Proofs.FuseGuardProofs Proofs.AdmissionProofs.
Local Open Scope Z_scope.

(* -- Memory.v -------------------------------------------------------------- *)
Theorem C04_calc_projected_closed : forall reserved inputs operation output rc wc,
  calc_projected reserved inputs operation output rc wc
  = reserved + sumz (map (fun i => i * (rc + 1)) inputs) + operation + output * (wc + 1).
Proof. exact (calc_projected_closed). Qed.
Print Assumptions C04_calc_projected_closed.

Theorem C04_calc_projected_monotone : forall r i1 i2 op out rc wc x, 0 <= rc -> 0 <= x ->
  calc_projected r (i1 ++ x :: i2) op out rc wc >= calc_projected r (i1 ++ i2) op out rc wc.
Proof. exact (calc_projected_monotone). Qed.
Print Assumptions C04_calc_projected_monotone.

Theorem C04_peak_bounds_prefix : forall ps, (forall p, In p ps -> 0 <= snd p) ->
  forall l1 p l2, ps = l1 ++ p :: l2 -> peak_projected ps >= sumz (map snd l1) + fst p.
Proof. exact (peak_bounds_prefix). Qed.
Print Assumptions C04_peak_bounds_prefix.

Theorem C04_peak_bounds_each : forall ps, (forall p, In p ps -> 0 <= snd p) ->
  forall p, In p ps -> peak_projected ps >= fst p.
Proof. exact (peak_bounds_each). Qed.
Print Assumptions C04_peak_bounds_each.

Theorem C04_peak_upper : forall ps, (forall p, In p ps -> 0 <= snd p /\ snd p <= fst p) ->
  peak_projected ps <= sumz (map snd ps) + maxz (map fst ps).
Proof. exact (peak_upper). Qed.
Print Assumptions C04_peak_upper.

Theorem C04_peak_nonneg : forall ps, 0 <= peak_projected ps.
Proof. exact (peak_nonneg). Qed.
Print Assumptions C04_peak_nonneg.

Theorem C04_fused_not_under_reported : forall opp ps, (forall p, In p ps -> 0 <= snd p) ->
  fused_projected opp ps >= opp /\ forall p, In p ps -> fused_projected opp ps >= fst p.
Proof. exact (fused_not_under_reported). Qed.
Print Assumptions C04_fused_not_under_reported.

Theorem C04_legacy_fused_not_under_reported : forall p1 p2,
  legacy_fused_projected p1 p2 >= p1 /\ legacy_fused_projected p1 p2 >= p2.
Proof. exact (legacy_fused_not_under_reported). Qed.
Print Assumptions C04_legacy_fused_not_under_reported.

Theorem C04_accepted_iff_all_fit : forall ops,
  plan_accepted ops = true <-> (forall pa, In pa ops -> fst pa <= snd pa).
Proof. exact (accepted_iff_all_fit). Qed.
Print Assumptions C04_accepted_iff_all_fit.

Theorem C04_refused_iff_some_exceeds : forall ops,
  plan_accepted ops = false <-> exists pa, In pa ops /\ fst pa > snd pa.
Proof. exact (refused_iff_some_exceeds). Qed.
Print Assumptions C04_refused_iff_some_exceeds.

Theorem C04_equality_is_accepted : forall ops pa, In pa ops -> fst pa = snd pa -> exceeds pa = false.
Proof. exact (equality_is_accepted). Qed.
Print Assumptions C04_equality_is_accepted.

Theorem C04_max_projected_is_max : forall ops, (forall pa, In pa ops -> 0 <= fst pa) ->
  (forall pa, In pa ops -> fst pa <= max_projected ops) /\
  (ops <> [] -> exists pa, In pa ops /\ fst pa = max_projected ops).
Proof. exact (max_projected_is_max). Qed.
Print Assumptions C04_max_projected_is_max.

(* -- Dag.v: the default optimizer keeps every op within its budget ------------ *)
Theorem C04_can_fuse_multiple_guard : forall (B : Type) (p : primop B) pps mn,
  can_fuse_multiple B p pps mn = true ->
  peak_projected (map (fun pp => (proj B pp, chunkmem B pp)) (somes pps)) <= allowed B p.
Proof. exact (can_fuse_multiple_guard). Qed.
Print Assumptions C04_can_fuse_multiple_guard.

(* The target form (no condition on o) is false: o need not be a node of d.  Proved here:
   the refutation of the target form, the corrected step (o itself within its budget), and
   its instance for a node of d. *)
Theorem C04_fuse_step_fits_as_stated_refuted :
  ~ (forall (B : Type) (c : optcfg) (d : dag B) (o : opnode B),
       always_fuse c = [] -> fits B d -> fits B (fuse_predecessors B c d o)).
Proof. exact (fuse_step_fits_as_stated_refuted). Qed.
Print Assumptions C04_fuse_step_fits_as_stated_refuted.

Theorem C04_fuse_step_fits : forall (B : Type) c (d : dag B) o, always_fuse c = [] -> fits B d ->
  (forall p, prim B o = Some p -> proj B p <= allowed B p) ->
  fits B (fuse_predecessors B c d o).
Proof. exact (fuse_step_fits). Qed.
Print Assumptions C04_fuse_step_fits.

Theorem C04_fuse_step_fits_member : forall (B : Type) c (d : dag B) o, always_fuse c = [] -> fits B d ->
  In o (dops B d) -> fits B (fuse_predecessors B c d o).
Proof. exact (fuse_step_fits_member). Qed.
Print Assumptions C04_fuse_step_fits_member.

Theorem C04_default_optimizer_fits : forall (B : Type) c order (d : dag B),
  always_fuse c = [] -> fits B d -> fits B (optimize B c order d).
Proof. exact (default_optimizer_fits). Qed.
Print Assumptions C04_default_optimizer_fits.

Theorem C04_fused_op_not_under_reported : forall (B : Type) c (d : dag B) o p o' p',
  NoDup (map (oid B) (dops B d)) -> In o (dops B d) -> prim B o = Some p ->
  (forall x q, In x (dops B d) -> prim B x = Some q -> 0 <= chunkmem B q) ->
  In o' (dops B (fuse_predecessors B c d o)) -> oid B o' = oid B o -> prim B o' = Some p' ->
  proj B p' >= proj B p /\
  (can_fuse_predecessors B c d o = true ->
     forall pp, In pp (somes (pred_prims B d p)) -> proj B p' >= proj B pp).
Proof. exact (fused_op_not_under_reported). Qed.
Print Assumptions C04_fused_op_not_under_reported.

Theorem C04_optimizer_keeps_budget_fields : forall (B : Type) c order (d : dag B) o',
  In o' (dops B (optimize B c order d)) ->
  exists o, In o (dops B d) /\ oid B o = oid B o' /\
    match prim B o, prim B o' with
    | Some p, Some p' => allowed B p' = allowed B p /\ reserved B p' = reserved B p /\ ntasks B p' = ntasks B p
    | None, None => True
    | _, _ => False
    end.
Proof. exact (optimizer_keeps_budget_fields). Qed.
Print Assumptions C04_optimizer_keeps_budget_fields.

(* -- non-vacuity ------------------------------------------------------------- *)
(* (i) admission: below and exactly at the boundary accepted, one byte over refused *)
Example C04_ex_accepted_at_boundary : plan_accepted [(100, 100); (50, 100)] = true.
Proof. vm_compute; reflexivity. Qed.
Example C04_ex_refused_over_boundary : plan_accepted [(101, 100)] = false.
Proof. vm_compute; reflexivity. Qed.
Example C04_ex_refused_mixed : plan_accepted [(100, 100); (101, 100); (50, 100)] = false.
Proof. vm_compute; reflexivity. Qed.
Example C04_ex_ops_exceeding : ops_exceeding [(100, 100); (101, 100); (50, 100)] = [(101, 100)].
Proof. vm_compute; reflexivity. Qed.
Example C04_ex_max_projected : max_projected [(100, 100); (101, 100); (50, 100)] = 101.
Proof. vm_compute; reflexivity. Qed.

(* (ii) the memory modeller *)
Example C04_ex_peak_first : peak_projected [(1000, 100); (800, 50)] = 1000.
Proof. vm_compute; reflexivity. Qed.
(* the second predecessor runs on top of the 100 bytes the first left behind *)
Example C04_ex_peak_second : peak_projected [(1000, 100); (950, 50)] = 1050.
Proof. vm_compute; reflexivity. Qed.
Example C04_ex_peak_empty : peak_projected [] = 0.
Proof. vm_compute; reflexivity. Qed.
Example C04_ex_calc_projected : calc_projected 10 [100; 200] 300 50 1 1 = 1010.
Proof. vm_compute; reflexivity. Qed.

(* (iii) projected memory of a fused op *)
Example C04_ex_fused_op_dominates : fused_projected 2000 [(1000, 100); (800, 50)] = 2000.
Proof. vm_compute; reflexivity. Qed.
Example C04_ex_fused_preds_dominate : fused_projected 500 [(1000, 100); (950, 50)] = 1050.
Proof. vm_compute; reflexivity. Qed.
Example C04_ex_legacy_fused : legacy_fused_projected 300 700 = 700.
Proof. vm_compute; reflexivity. Qed.

(* -- FuseGuard.v: the fusion guards in the shape the source is translated into on every run ------------------------- *)
Theorem C04_source_guard_view : forall B (p : primop B) pps m,
  can_fuse_multipleZ (zview p) (map (option_map zview) pps) (option_map Z.of_nat m) = can_fuse_multiple B p pps m.
Proof. exact (can_fuse_multipleZ_view). Qed.
Print Assumptions C04_source_guard_view.

Theorem C04_source_fused_fields_view : forall B (p : primop B) pps,
  fuse_multiple_fieldsZ (zview p) (map (option_map zview) pps)
  = (proj B (fuse_multiple B p pps), allowed B (fuse_multiple B p pps), reserved B (fuse_multiple B p pps),
     Z.of_nat (ntasks B (fuse_multiple B p pps))).
Proof. exact (fuse_multiple_fieldsZ_view). Qed.
Print Assumptions C04_source_fused_fields_view.

Theorem C04_guardZ : forall p pps m,
  can_fuse_multipleZ p pps m = true ->
  peak_projected (map (fun pp => (v_proj pp, v_chunkmem pp)) (somesZ pps)) <= v_allowed p.
Proof. exact (can_fuse_multipleZ_guard). Qed.
Print Assumptions C04_guardZ.

Theorem C04_fused_fields_fit : forall p pps m,
  can_fuse_multipleZ p pps m = true -> v_proj p <= v_allowed p ->
  let '(pr, al, _, _) := fuse_multiple_fieldsZ p pps in pr <= al.
Proof. exact (fused_fieldsZ_fit). Qed.
Print Assumptions C04_fused_fields_fit.

Theorem C04_fused_fields_not_under : forall p pps,
  let '(pr, _, _, _) := fuse_multiple_fieldsZ p pps in
  v_proj p <= pr /\ peak_projected (map (fun pp => (v_proj pp, v_chunkmem pp)) (somesZ pps)) <= pr.
Proof. exact (fused_fieldsZ_not_under). Qed.
Print Assumptions C04_fused_fields_not_under.

Theorem C04_only_candidates_fused : forall p pps m,
  can_fuse_multipleZ p pps m = true ->
  is_fuse_candidateZ p = true /\ forall pp, In (Some pp) pps -> is_fuse_candidateZ pp = true.
Proof. exact (can_fuse_multipleZ_candidates). Qed.
Print Assumptions C04_only_candidates_fused.

(* non-vacuity: an operation of 3 tasks reading 2 blocks per task from a fused predecessor that reads 2 *)
Example C04_guardZ_example :
  let pre := {| v_bw := true; v_fpred := true; v_fsucc := true; v_ntasks := 3; v_proj := 700; v_allowed := 1000; v_reserved := 100;
                v_nib := [2]; v_chunkmem := 200 |} in
  let op := {| v_bw := true; v_fpred := true; v_fsucc := true; v_ntasks := 3; v_proj := 900; v_allowed := 1000; v_reserved := 100;
               v_nib := [2; 1]; v_chunkmem := 200 |} in
  can_fuse_multipleZ op [Some pre; None] None = true /\ can_fuse_multipleZ op [Some pre; None] (Some 3) = false /\
  can_fuse_multipleZ op [Some pre; None] (Some 4) = true /\
  fuse_multiple_fieldsZ op [Some pre; None] = (900, 1000, 100, 3) /\
  can_fuse_multipleZ {| v_bw := true; v_fpred := true; v_fsucc := true; v_ntasks := 3; v_proj := 900; v_allowed := 699; v_reserved := 100;
               v_nib := [2; 1]; v_chunkmem := 200 |} [Some pre; None] None = false.
Proof. vm_compute. repeat split. Qed.

(* -- Admission.v: Plan._find_ops_exceeding_memory / FinalizedPlan.validate in the shape the source is translated into -- *)
Theorem C04_plan_refused_iff : forall nodes,
  plan_refusedZ nodes = true <-> exists n op, In (n, Some op) nodes /\ v_proj op > v_allowed op.
Proof. exact (plan_refused_iff). Qed.
Print Assumptions C04_plan_refused_iff.

Theorem C04_plan_accepted_iff : forall nodes,
  plan_refusedZ nodes = false <-> forall n op, In (n, Some op) nodes -> v_proj op <= v_allowed op.
Proof. exact (plan_accepted_iff). Qed.
Print Assumptions C04_plan_accepted_iff.

Theorem C04_equality_acceptedZ : forall n op, v_proj op = v_allowed op -> plan_refusedZ [(n, Some op)] = false.
Proof. exact (equality_acceptedZ). Qed.
Print Assumptions C04_equality_acceptedZ.

Theorem C04_reported_is_worst : forall nodes n op rest,
  find_exceedingZ nodes = (n, op) :: rest ->
  In (n, Some op) nodes /\ v_proj op > v_allowed op /\
  forall n' op', In (n', Some op') nodes -> v_proj op' > v_allowed op' -> v_proj op' <= v_proj op.
Proof. exact (reported_is_worst). Qed.
Print Assumptions C04_reported_is_worst.

Theorem C04_plan_refused_pairs : forall nodes,
  plan_refusedZ nodes = negb (plan_accepted (flat_map (fun t : nat * option pview =>
     match snd t with Some op => [(v_proj op, v_allowed op)] | None => [] end) nodes)).
Proof. exact (plan_refused_pairs). Qed.
Print Assumptions C04_plan_refused_pairs.

Example C04_admission_example :
  let mk := fun pr al => Build_pview true true true 1 pr al 0 [1] 10 in
  plan_refusedZ [(1%nat, None); (2%nat, Some (mk 100 100)); (3%nat, Some (mk 99 100))] = false /\
  map fst (find_exceedingZ [(1%nat, None); (2%nat, Some (mk 101 100)); (3%nat, Some (mk 150 100)); (4%nat, Some (mk 100 100))]) = [3%nat; 2%nat].
Proof. vm_compute. split; reflexivity. Qed.
