From CubedV Require Import Model.Util Model.Events.
Lemma placeholder_c07 : barrier_ok [(1,2)] [ECS; EOS 1; EOE 1; EOS 2; EOE 2; ECE] = true. Proof. reflexivity. Qed.
