(* C07: no task reads data its producers have not finished writing. *)
From CubedV Require Import Model.Util Model.Events Proofs.EventsProofs.
From Coq Require Import Permutation.

Theorem C07_op_deps_spec : forall is_op edges p b, In (p, b) (op_deps is_op edges) <->
  (is_op p = true /\ is_op b = true /\ exists a, In (p, a) edges /\ In (a, b) edges).
Proof. exact (op_deps_spec). Qed.
Print Assumptions C07_op_deps_spec.

Theorem C07_is_topo_order_sound : forall nodes edges order, is_topo_order nodes edges order = true ->
  NoDup order /\ (forall n, In n nodes <-> In n order) /\
  forall u v, In (u, v) edges -> exists i j, index_of u order = Some i /\ index_of v order = Some j /\ i < j.
Proof. exact (is_topo_order_sound). Qed.
Print Assumptions C07_is_topo_order_sound.

Theorem C07_is_generations_sound : forall nodes edges gens, is_generations nodes edges gens = true ->
  (forall n, In n nodes <-> exists g, In g gens /\ In n g) /\
  forall u v, In (u, v) edges -> exists i j, gen_index u gens = Some i /\ gen_index v gens = Some j /\ i < j.
Proof. exact (is_generations_sound). Qed.
Print Assumptions C07_is_generations_sound.

Theorem C07_seq_barrier : forall nodes edges order is_op skip (ntasks : nat -> nat),
  is_topo_order nodes edges order = true ->
  barrier_ok (op_deps is_op edges)
    (seq_trace (map (fun n => (n, ntasks n)) (visit_nodes skip order))) = true.
Proof. exact (seq_barrier). Qed.
Print Assumptions C07_seq_barrier.

Theorem C07_par_barrier : forall nodes edges gens is_op skip (ntasks : nat -> nat) (inter : list (list ev)),
  is_generations nodes edges gens = true ->
  length inter = length (visit_generations skip gens) ->
  (forall l e, In l inter -> In e l -> exists n, e = ETE n) ->
  barrier_ok (op_deps is_op edges)
    (par_trace (combine (map (map (fun n => (n, ntasks n))) (visit_generations skip gens)) inter)) = true.
Proof. exact (par_barrier). Qed.
Print Assumptions C07_par_barrier.

Theorem C07_barrier_ok_sound : forall deps trace p b i j,
  barrier_ok deps trace = true -> In (p, b) deps ->
  forall nt, events_ok nt trace = true -> In p (map fst nt) -> In b (map fst nt) ->
  nth_error trace i = Some (ETE p) -> nth_error trace j = Some (ETE b) -> i < j.
Proof. exact (barrier_ok_sound). Qed.
Print Assumptions C07_barrier_ok_sound.

Example C07_barrier_accepts : barrier_ok [(1,2)] [ECS; EOS 1; ETE 1; EOE 1; EOS 2; ETE 2; EOE 2; ECE] = true.
Proof. reflexivity. Qed.
Example C07_barrier_rejects : barrier_ok [(1,2)] [ECS; EOS 1; EOS 2; ETE 2; EOE 1; EOE 2; ECE] = false.
Proof. reflexivity. Qed.
