"""Abstraction of a real cubed Plan DAG (networkx MultiDiGraph) into a Model.Dag term."""
from __future__ import annotations

import networkx as nx

from harness.framework import cZ, cbool, cnatlist


def nid(name):
    """'op-017' -> 17, 'array-005' -> 5 (names are interned by their counter)."""
    return int(name.rsplit("-", 1)[1])


def is_op(dag, n):
    return dag.nodes[n].get("type") == "op"


def abstract(dag):
    """Returns (ops: list of dicts in nx topological order, virtuals: list of array ids)."""
    from cubed.primitive.blockwise import BlockwiseSpec, apply_blockwise
    from cubed.storage.virtual import VirtualArray
    from cubed.utils import chunk_memory

    ops = []
    virtuals = []
    for n in nx.topological_sort(dag):
        d = dag.nodes[n]
        if d.get("type") == "array":
            if isinstance(d.get("target"), VirtualArray):
                virtuals.append(nid(n))
            continue
        if d.get("type") != "op" or n == "create-arrays":
            continue
        ins = [nid(a) for a, _ in dag.in_edges(n) if a != "arrays"]
        outs = [nid(a) for _, a in dag.out_edges(n)]
        prim = None
        if "primitive_op" in d:
            p = d["primitive_op"]
            cfg = p.pipeline.config
            try:
                cm = int(chunk_memory(p.target_array))
            except Exception:
                cm = 0
            prim = dict(
                bw=p.pipeline.function == apply_blockwise,
                fp=bool(p.fusable_with_predecessors), fs=bool(p.fusable_with_successors),
                nt=int(p.num_tasks), proj=int(p.projected_mem), allowed=int(p.allowed_mem), reserved=int(p.reserved_mem),
                # block counts are only ever compared with small limits (max_total_num_input_blocks <= 10 here): capped (Model.DagObs.NIB_CAP,
                # the comparison is made up to the same cap) so that nat literals and their products stay small; a count above the
                # cap behaves like the cap for every limit in use
                nib=[min(int(x), 200) for x in cfg.num_input_blocks] if isinstance(cfg, BlockwiseSpec) else [],
                cm=cm, srcs=[nid(a) for a in p.source_array_names])
        ops.append(dict(id=nid(n), ins=ins, outs=outs, prim=prim))
    return ops, virtuals


def op_order(dag):
    return [nid(n) for n in nx.topological_sort(dag) if not n.startswith("array-") and n != "create-arrays" and n != "arrays"]


def dag_term(ops, virtuals):
    def pt(p):
        if p is None:
            return "None"
        return (f"(Some (P {cbool(p['bw'])} {cbool(p['fp'])} {cbool(p['fs'])} {p['nt']} {cZ(p['proj'])} {cZ(p['allowed'])} "
                f"{cZ(p['reserved'])} {cnatlist(p['nib'])} {cZ(p['cm'])} {cnatlist(p['srcs'])}))")
    body = "; ".join(f"O {o['id']} {cnatlist(o['ins'])} {cnatlist(o['outs'])} {pt(o['prim'])}" for o in ops)
    return f"(D [{body}] {cnatlist(virtuals)})"
