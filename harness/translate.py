"""A small fail-closed translator from Python source (ast) to Gallina for the pure integer kernels of cubed.
On every run the listed functions are re-translated from /repo's current source into build/gen/Gen.v and the
equivalence lemmas `gen_<f> = <model function>` (GENEQUIV below) are re-checked by coqc: a change of one of these
kernels that alters its meaning breaks a proof obligation (or, if the new source leaves the subset, the
translation fails), independently of the generated-input correspondences.

Subset: a function whose body is a docstring, simple assignments, augmented assignments (+=), `for x in xs:` loops
whose body only (aug-)assigns ONE accumulator, `a, b = divmod(x, y)`, an if/else assigning the same single name
in both branches, and a final `return`.  Expressions: names, ints, attribute access on a declared record
parameter, + - * // %, comparisons, and/or/not, conditional expressions, min/max/lcm/ceil(a / b),
tuple(<generator over zip(...)>).  Anything else raises TranslationError.  Python ints are Z; `//` and `%` are
Z.div / Z.modulo (both floor for positive divisors, as Python's); `ceil(a / b)` on positive ints is cdiv."""
from __future__ import annotations

import ast
import os
import subprocess
from pathlib import Path

VERIF = Path("/verif")


class TranslationError(Exception):
    pass


# function -> (source file, parameter types, result type)
KERNELS = {
    "calculate_projected_mem": ("cubed/primitive/memory.py",
                                [("reserved_mem", "Z"), ("inputs", "list Z"), ("operation", "Z"), ("output", "Z"),
                                 ("buffer_copies", {"read": "Z", "write": "Z"})], "Z"),
    "_fix_copy_chunks": ("cubed/core/rechunk.py", [("shape", "list Z"), ("copy_chunks", "list Z"), ("target_chunks", "list Z")], "list Z"),
    "_calculate_shared_chunks": ("cubed/vendor/rechunker/algorithm.py", [("read_chunks", "list Z"), ("write_chunks", "list Z")], "list Z"),
    "_count_intermediate_chunks": ("cubed/vendor/rechunker/algorithm.py", [("source_chunk", "Z"), ("target_chunk", "Z"), ("size", "Z")], "Z"),
    "calculate_single_stage_io_ops": ("cubed/vendor/rechunker/algorithm.py", [("shape", "list Z"), ("in_chunks", "list Z"), ("out_chunks", "list Z")], "Z"),
    # peak_projected_mem: primitive ops are records (projected_mem, chunk memory of the target); None entries are skipped
    "peak_projected_mem": ("cubed/primitive/blockwise.py", [("primitive_ops", "list (option (Z * Z))")], "Z"),
    # natural-number kernels (lengths and chunk sizes): no subtraction occurs in them
    "_check_regular_chunks": ("cubed/vendor/dask/array/core.py", [("chunkset", "list (list nat)")], "bool"),
    "to_chunksize": ("cubed/utils.py", [("chunkset", "list (list nat)")], "option (list nat)"),
    # methods of MemoryModeller: state (current_mem, peak_mem) -> state
    "MemoryModeller.allocate": ("cubed/primitive/memory.py", [("self", {"current_mem": "Z", "peak_mem": "Z"}), ("num_bytes", "Z")], "Z * Z"),
    "MemoryModeller.free": ("cubed/primitive/memory.py", [("self", {"current_mem": "Z", "peak_mem": "Z"}), ("num_bytes", "Z")], "Z * Z"),
}
NAT_KERNELS = {"_check_regular_chunks", "to_chunksize"}

GEN_HEADER = r"""
From CubedV Require Import Model.Util Model.Memory Model.Rechunk Model.Regular Model.Dag Model.FuseGuard Model.Admission Model.Resume Model.Events Model.SpecCfg Model.Geometry Model.StoreRegion Model.StoreGuard Model.StridedIndex Model.IndexGuard Proofs.StoreGuardProofs Proofs.StridedIndexProofs Proofs.IndexGuardProofs Proofs.GeometryProofs Proofs.SpecCfgProofs Proofs.MemoryProofs Proofs.FuseGuardProofs Proofs.AdmissionProofs Proofs.ResumeProofs Proofs.EventsProofs.
From Gen Require Import Gen.
Local Open Scope Z_scope.

Lemma map2_map3_ext_ {A B C D} (f g : A -> B -> C -> D) a b c : (forall x y z, f x y z = g x y z) -> map3 f a b c = map3 g a b c.
Proof. intros H. revert b c. induction a as [|x a IH]; intros [|y b] [|z c]; cbn; try reflexivity. now rewrite H, IH. Qed.
"""

# kernel -> the equivalence with the hand-written model that Coq must accept
EQUIV = {
    "calculate_projected_mem": r"""
Theorem gen_calculate_projected_mem_equiv : forall reserved inputs operation output rc wc,
  gen_calculate_projected_mem reserved inputs operation output rc wc = calc_projected reserved inputs operation output rc wc.
Proof. intros. reflexivity. Qed.
""",
    "_fix_copy_chunks": r"""
Theorem gen__fix_copy_chunks_equiv : forall shape cc tc, gen__fix_copy_chunks shape cc tc = fix_copy_chunks shape cc tc.
Proof. intros. reflexivity. Qed.
""",
    "_calculate_shared_chunks": r"""
Theorem gen__calculate_shared_chunks_equiv : forall r w, gen__calculate_shared_chunks r w = shared_chunks r w.
Proof. intros. reflexivity. Qed.
""",
    "_count_intermediate_chunks": r"""
Theorem gen__count_intermediate_chunks_equiv : forall sc tc size,
  gen__count_intermediate_chunks sc tc size = count_intermediate sc tc size.
Proof.
  intros. unfold gen__count_intermediate_chunks, count_intermediate.
  destruct (size mod Z.lcm sc tc =? 0); reflexivity.
Qed.
""",
    "_check_regular_chunks": r"""
Theorem gen__check_regular_chunks_equiv : forall cs, gen__check_regular_chunks cs = Regular.check_regular cs.
Proof. intros. reflexivity. Qed.
""",
    "to_chunksize": r"""
Theorem gen_to_chunksize_equiv : forall cs, gen_to_chunksize cs = Regular.to_chunksize cs.
Proof. intros. reflexivity. Qed.
""",
    "calculate_single_stage_io_ops": r"""
Lemma map3_rotate {A B C D} (f : A -> B -> C -> D) : forall a b c,
  map3 (fun x y z => f x y z) a b c = map3 (fun z x y => f x y z) c a b.
Proof. induction a as [|x a IH]; intros [|y b] [|z c]; cbn; try reflexivity. now rewrite IH. Qed.

Theorem gen_calculate_single_stage_io_ops_equiv : forall shape inc outc,
  gen_calculate_single_stage_io_ops shape inc outc = io_ops shape inc outc.
Proof.
  intros. unfold gen_calculate_single_stage_io_ops, io_ops. f_equal.
  rewrite (map3_rotate (fun a_ b_ c_ => gen__count_intermediate_chunks a_ b_ c_) inc outc shape).
  apply map2_map3_ext_. intros. apply gen__count_intermediate_chunks_equiv.
Qed.
""",
    "peak_projected_mem": r"""
Definition mm_pair (m : mm) : Z * Z := (cur m, peak m).
Lemma gen_peak_fold : forall (ps : list (option (Z * Z))) m,
  fold_left (fun memory_modeller p_opt => match p_opt with None => memory_modeller | Some (p_projected_mem, p_chunkmem) =>
      let memory_modeller := gen_MemoryModeller_allocate (fst memory_modeller) (snd memory_modeller) p_projected_mem in
      let chunkmem := p_chunkmem in
      let memory_modeller := gen_MemoryModeller_free (fst memory_modeller) (snd memory_modeller) (p_projected_mem - chunkmem) in memory_modeller end) ps (mm_pair m)
  = mm_pair (fold_left peak_step (flat_map (fun o => match o with None => [] | Some p => [p] end) ps) m).
Proof.
  induction ps as [|[[pm cm]|] ps IH]; intros m; cbn [fold_left flat_map app].
  - reflexivity.
  - rewrite <- IH. f_equal.
  - apply IH.
Qed.

Theorem gen_peak_projected_mem_equiv : forall ps,
  gen_peak_projected_mem ps = peak_projected (flat_map (fun o => match o with None => [] | Some p => [p] end) ps).
Proof.
  intros. unfold gen_peak_projected_mem, peak_projected.
  change ((0), (0)) with (mm_pair mm0).
  etransitivity; [|exact (f_equal snd (gen_peak_fold ps mm0))]. reflexivity.
Qed.
""",
    "MemoryModeller.allocate": r"""
Theorem gen_MemoryModeller_allocate_equiv : forall c p n,
  gen_MemoryModeller_allocate c p n = (cur (allocate {| cur := c; peak := p |} n), peak (allocate {| cur := c; peak := p |} n)).
Proof. intros. reflexivity. Qed.
""",
    "MemoryModeller.free": r"""
Theorem gen_MemoryModeller_free_equiv : forall c p n,
  gen_MemoryModeller_free c p n = (cur (free {| cur := c; peak := p |} n), peak (free {| cur := c; peak := p |} n)).
Proof. intros. reflexivity. Qed.
""",
}
DEPS = {"to_chunksize": ["_check_regular_chunks"], "calculate_single_stage_io_ops": ["_count_intermediate_chunks"],
        "peak_projected_mem": ["MemoryModeller.allocate", "MemoryModeller.free"]}


# ---- "object" kernels: functions over PrimitiveOperation objects, rendered over Model.FuseGuard.pview ------------------
# attribute chains of a primitive operation -> field of the view record
PVIEW_FIELDS = {"fusable_with_predecessors": ("v_fpred", "bool"), "fusable_with_successors": ("v_fsucc", "bool"),
                "num_tasks": ("v_ntasks", "Z"), "projected_mem": ("v_proj", "Z"), "allowed_mem": ("v_allowed", "Z"),
                "reserved_mem": ("v_reserved", "Z"), "pipeline.config.num_input_blocks": ("v_nib", "list Z")}
# function -> (file, positional params, keyword-only params, result); a param of type None may only be used for logging
OBJ_KERNELS = {
    "is_fuse_candidate": ("cubed/primitive/blockwise.py", [("primitive_op", "pview")], [], "bool"),
    "can_fuse_primitive_ops": ("cubed/primitive/blockwise.py", [("primitive_op1", "pview"), ("primitive_op2", "pview")], [], "bool"),
    "can_fuse_multiple_primitive_ops": ("cubed/primitive/blockwise.py",
                                        [("name", None), ("primitive_op", "pview"), ("predecessor_primitive_ops", "list (option pview)")],
                                        [("max_total_num_input_blocks", "option Z")], "bool"),
    # slice: the budget fields fuse_multiple passes to PrimitiveOperation(...)
    "fuse_multiple.fields": ("cubed/primitive/blockwise.py", [("primitive_op", "pview")], [], "Z * Z * Z * Z"),
}
FUSE_FIELDS = ["projected_mem", "allowed_mem", "reserved_mem", "num_tasks"]
# the admission test (cubed/core/plan.py): strictly shaped functions, see translate_admission
ADMISSION_KERNELS = ["Plan._find_ops_exceeding_memory", "FinalizedPlan.validate", "admission.wiring", "already_computed", "resume.wiring",
                     "skip_node", "visit_nodes", "visit_node_generations",
                     "Spec.__eq__", "check_array_specs",
                     "_cumsum", "get_item", "ChunkKeys.__iter__", "general_blockwise.num_tasks",
                     "_store_array.region_guards", "general_blockwise.projected_mem",
                     "index.chunk_len_for_indexer", "index.merged_chunk_len_for_indexer", "_index_num_input_blocks"]

EQUIV.update({
    "is_fuse_candidate": r"""
Theorem gen_is_fuse_candidate_equiv : forall p, gen_is_fuse_candidate p = is_fuse_candidateZ p.
Proof. intros. reflexivity. Qed.
""",
    "can_fuse_primitive_ops": r"""
Theorem gen_can_fuse_primitive_ops_equiv : forall p1 p2, gen_can_fuse_primitive_ops p1 p2 = can_fuse_primitive_opsZ p1 p2.
Proof. intros. reflexivity. Qed.
""",
    "can_fuse_multiple_primitive_ops": r"""
Theorem gen_can_fuse_multiple_primitive_ops_equiv : forall p pps m,
  gen_can_fuse_multiple_primitive_ops p pps m = can_fuse_multipleZ p pps m.
Proof.
  intros. unfold gen_can_fuse_multiple_primitive_ops, can_fuse_multipleZ.
  rewrite gen_peak_projected_mem_equiv, pairs_somes. reflexivity.
Qed.
(* hence: what the source accepts for fusion is what Model.Dag.can_fuse_multiple accepts, for every operation *)
Corollary source_guard_is_dag_guard : forall B (p : primop B) pps m,
  gen_can_fuse_multiple_primitive_ops (zview p) (map (option_map zview) pps) (option_map Z.of_nat m) = can_fuse_multiple B p pps m.
Proof. intros. rewrite gen_can_fuse_multiple_primitive_ops_equiv. apply can_fuse_multipleZ_view. Qed.
""",
    "fuse_multiple.fields": r"""
Theorem gen_fuse_multiple_fields_equiv : forall p pps, gen_fuse_multiple_fields p pps = fuse_multiple_fieldsZ p pps.
Proof.
  intros. unfold gen_fuse_multiple_fields, fuse_multiple_fieldsZ.
  rewrite gen_peak_projected_mem_equiv, pairs_keep_somes. reflexivity.
Qed.
Corollary source_fused_fields_are_dag_fields : forall B (p : primop B) pps,
  gen_fuse_multiple_fields (zview p) (map (option_map zview) pps)
  = (proj B (fuse_multiple B p pps), allowed B (fuse_multiple B p pps), reserved B (fuse_multiple B p pps),
     Z.of_nat (ntasks B (fuse_multiple B p pps))).
Proof. intros. rewrite gen_fuse_multiple_fields_equiv. apply fuse_multiple_fieldsZ_view. Qed.
""",
})
EQUIV.update({
    "Plan._find_ops_exceeding_memory": r"""
Lemma gen_find_fold : forall nodes acc,
  fold_left (fun ops_exceeding t_ => match snd t_ with None => ops_exceeding | Some op =>
               if gen_exceeds_test op then ops_exceeding ++ [(fst t_, op)] else ops_exceeding end) nodes acc
  = acc ++ flat_map (fun t : nat * option pview => match snd t with Some op => if exceedsZ op then [(fst t, op)] else [] | None => [] end) nodes.
Proof.
  induction nodes as [|[n [op|]] nodes IH]; intros acc; cbn [fold_left flat_map fst snd].
  - now rewrite app_nil_r.
  - rewrite IH. change (gen_exceeds_test op) with (exceedsZ op). destruct (exceedsZ op); cbn [app]; [now rewrite <- app_assoc|reflexivity].
  - rewrite IH. reflexivity.
Qed.
Theorem gen__find_ops_exceeding_memory_equiv : forall nodes, gen__find_ops_exceeding_memory nodes = find_exceedingZ nodes.
Proof. intros. unfold gen__find_ops_exceeding_memory, find_exceedingZ. rewrite gen_find_fold. reflexivity. Qed.
""",
    "FinalizedPlan.validate": r"""
Theorem gen_validate_raises_equiv : forall A (ops : list A), gen_validate_raises ops = validate_raises ops.
Proof. intros. reflexivity. Qed.
(* the source's admission test refuses a plan exactly when some operation projects more than it is allowed *)
Corollary source_admission_spec : forall nodes,
  gen_validate_raises (gen__find_ops_exceeding_memory nodes) = true <-> exists n op, In (n, Some op) nodes /\ v_proj op > v_allowed op.
Proof. intros. rewrite gen_validate_raises_equiv, gen__find_ops_exceeding_memory_equiv. apply plan_refused_iff. Qed.
""",
    "admission.wiring": "",
    "already_computed": r"""
Theorem gen_already_computed_equiv : forall hp outs, gen_already_computed hp outs = already_computedZ hp outs.
Proof. intros. reflexivity. Qed.
(* the source skips an operation on resume only if every stored output is present, not 0-d, and fully initialised *)
Corollary source_skips_only_complete : forall outs,
  gen_already_computed true outs = Some true ->
  (exists t, In t outs /\ t <> NoTarget) /\
  forall t, In t outs -> t = NoTarget \/ exists nd n, t = Arr nd n n /\ nd <> 0.
Proof. intros outs. rewrite gen_already_computed_equiv. apply skipped_only_if_complete. Qed.
""",
    "resume.wiring": "",
    "Spec.__eq__": r"""
Theorem gen_Spec_eq_equiv : forall a b, gen_Spec_eq a b = spec_eqb a b.
Proof. intros. reflexivity. Qed.
Corollary source_spec_eq_iff : forall a b, gen_Spec_eq a b = true <-> a = b.
Proof. intros. rewrite gen_Spec_eq_equiv. apply spec_eqb_eq. Qed.
""",
    "check_array_specs": r"""
Theorem gen_check_array_specs_equiv : forall specs, gen_check_array_specs specs = SpecCfg.check_array_specs specs.
Proof.
  intros [|s0 specs]; [reflexivity|]. unfold gen_check_array_specs, SpecCfg.check_array_specs.
  change (fun s => gen_Spec_eq s0 s) with (spec_eqb s0). destruct (forallb (spec_eqb s0) (s0 :: specs)); reflexivity.
Qed.
(* the source accepts a list of specs iff they are all equal, and then returns that spec *)
Corollary source_mixed_specs_rejected : forall specs,
  match gen_check_array_specs specs with
  | Some (Some s) => forall x, In x specs -> x = s
  | Some None => specs = []
  | None => exists x y, In x specs /\ In y specs /\ x <> y
  end.
Proof. intros specs. rewrite gen_check_array_specs_equiv. apply check_array_specs_spec. Qed.
""",
    "_cumsum": r"""
Lemma gen_cumsum_from : forall seq acc, Geometry.starts_from acc seq = acc :: map (fun s => acc + s)%nat (gen__cumsum_tail seq).
Proof.
  induction seq as [|c seq IH]; intros acc; cbn [Geometry.starts_from gen__cumsum_tail map]; [reflexivity|].
  f_equal. rewrite IH. f_equal. rewrite map_map. apply map_ext. intros. lia.
Qed.
Theorem gen__cumsum_equiv : forall seq, gen__cumsum seq true = Geometry.starts seq.
Proof.
  intros. unfold gen__cumsum, Geometry.starts. rewrite gen_cumsum_from. f_equal.
  rewrite <- (map_id (gen__cumsum_tail seq)) at 1. apply map_ext. intros. lia.
Qed.
""",
    "get_item": r"""
Theorem gen_get_item_equiv : forall chunks idx, gen_get_item chunks idx = Geometry.get_item chunks idx.
Proof.
  intros chunks. unfold gen_get_item, Geometry.get_item. cbv zeta.
  induction chunks as [|c chunks IH]; intros [|i idx]; cbn [map combine map2]; try reflexivity.
  rewrite IH. unfold Geometry.region1. cbn [fst snd]. rewrite gen__cumsum_equiv, Nat.add_1_r. reflexivity.
Qed.
(* every element of an array lies in the region the source's get_item gives to exactly one block *)
Corollary source_regions_partition : forall chunks x,
  Forall2 (fun c xi => xi < sumn c)%nat chunks x ->
  exists b, In b (Geometry.blocks (map (@length nat) chunks))
    /\ Geometry.in_region (gen_get_item chunks b) x = true
    /\ forall b', In b' (Geometry.blocks (map (@length nat) chunks)) ->
         Geometry.in_region (gen_get_item chunks b') x = true -> b' = b.
Proof. intros chunks x H. setoid_rewrite gen_get_item_equiv. now apply regions_partition. Qed.
""",
    "ChunkKeys.__iter__": r"""
Theorem gen_ChunkKeys_iter_equiv : forall chunks, gen_ChunkKeys_iter chunks = Geometry.blocks (map (@length nat) chunks).
Proof. intros. reflexivity. Qed.
""",
    "general_blockwise.num_tasks": r"""
Theorem gen_general_blockwise_num_tasks_equiv : forall chunks, gen_general_blockwise_num_tasks chunks = Geometry.num_tasks chunks.
Proof. intros. reflexivity. Qed.
(* the number of tasks the source declares for an ordinary blockwise operation is the length of the task list it iterates over,
   which lists every block exactly once *)
Corollary source_num_tasks_is_mappable_length : forall chunks,
  length (gen_ChunkKeys_iter chunks) = gen_general_blockwise_num_tasks chunks /\ NoDup (gen_ChunkKeys_iter chunks).
Proof.
  intros. rewrite gen_ChunkKeys_iter_equiv, gen_general_blockwise_num_tasks_equiv. split; [apply mappable_length|apply blocks_nodup].
Qed.
""",
    "_store_array.region_guards": r"""
Theorem gen_region_misaligned_equiv : forall start stop cs shape_i, gen_region_misaligned start stop cs shape_i = misalignedZ start stop cs shape_i.
Proof. intros. reflexivity. Qed.
Theorem gen_region_chunks_mismatch_equiv : forall n sc tc nb, gen_region_chunks_mismatch n sc tc nb = chunks_mismatchZ n sc tc nb.
Proof. intros. reflexivity. Qed.
(* the two refusals of the source are exactly the negations of Model.StoreRegion.aligned / chunks_ok *)
Corollary source_region_guards_are_model_guards : forall a : raxis,
  gen_region_misaligned (Z.of_nat (rstart a)) (Z.of_nat (rstop a)) (Z.of_nat (StoreRegion.tc a)) (Z.of_nat (tn a)) = negb (aligned a) /\
  gen_region_chunks_mismatch (Z.of_nat (sn a)) (Z.of_nat (StoreRegion.sc a)) (Z.of_nat (StoreRegion.tc a)) (Z.of_nat (nblocks (sn a) (StoreRegion.sc a))) = negb (chunks_ok a).
Proof. intros. rewrite gen_region_misaligned_equiv, gen_region_chunks_mismatch_equiv. split; [apply misalignedZ_view|apply chunks_mismatchZ_view]. Qed.
""",
    "general_blockwise.projected_mem": r"""
Theorem gen_general_blockwise_projected_mem_equiv : forall reserved extra rc wc ins outs,
  gen_general_blockwise_projected_mem reserved extra rc wc ins outs = blockwise_projected reserved extra rc wc ins outs.
Proof. intros. unfold gen_general_blockwise_projected_mem, blockwise_projected. rewrite gen_calculate_projected_mem_equiv. reflexivity. Qed.
(* what the source charges an ordinary operation: reserved + every input chunk with its read copies + the declared extra + the largest
   chunk it WRITES (array_memory(dtype, write chunk size)) with its write copies *)
Corollary source_blockwise_projected_closed : forall reserved extra rc wc ins outs,
  gen_general_blockwise_projected_mem reserved extra rc wc ins outs
  = reserved + sumz (map (fun i => i * (rc + 1)) ins) + extra + fold_left Z.max outs 0 * (wc + 1).
Proof. intros. rewrite gen_general_blockwise_projected_mem_equiv. unfold blockwise_projected. apply calc_projected_closed. Qed.
""",
    "index.chunk_len_for_indexer": r"""
Theorem gen_chunk_len_for_indexer_equiv : forall ia c, gen_chunk_len_for_indexer ia c = chunk_lenZ ia c.
Proof. intros [| | |] c; reflexivity. Qed.
""",
    "index.merged_chunk_len_for_indexer": r"""
Theorem gen_merged_chunk_len_for_indexer_equiv : forall ia c, gen_merged_chunk_len_for_indexer ia c = merged_chunk_lenZ ia c.
Proof. intros [| | |] c; reflexivity. Qed.
(* the chunk length index() merges to is a positive multiple of the chunk length it selected with: merge_chunks' requirement *)
Corollary source_merged_multiple : forall start stop c step, 0 < c -> 0 < step ->
  exists k, 0 < k /\ gen_merged_chunk_len_for_indexer (IxSlice start stop step) c = k * gen_chunk_len_for_indexer (IxSlice start stop step) c.
Proof. intros. rewrite gen_merged_chunk_len_for_indexer_equiv, gen_chunk_len_for_indexer_equiv. now apply merged_multiple. Qed.
""",
    "_index_num_input_blocks": r"""
Theorem gen_index_axis_factor_equiv : forall ia c oc nb, gen_index_axis_factor ia c oc nb = index_axis_factorZ ia c oc nb.
Proof. intros [| | |] c oc nb; reflexivity. Qed.
Theorem gen__index_num_input_blocks_equiv : forall axes, gen__index_num_input_blocks axes = index_num_input_blocksZ axes.
Proof. intros. reflexivity. Qed.
(* the factor the source charges an axis indexed by a strided slice covers the input blocks any output block reads *)
Corollary source_index_factor_covers : forall n c start step L j,
  (0 < c)%nat -> (0 < step)%nat -> (0 < L)%nat -> (start + (L - 1) * step < n)%nat ->
  (j < num_out_blocks (out_chunk_len c step) L)%nat ->
  exists f, gen_index_axis_factor (IxSlice (Z.of_nat start) (Z.of_nat (canonical_stop start step L)) (Z.of_nat step))
                                  (Z.of_nat c) (Z.of_nat (out_chunk_len c step)) (Z.of_nat ((n + c - 1) / c)) = Some f /\
            Z.of_nat (length (touched_chunks c (block_positions start step (out_chunk_len c step) L j))) <= f.
Proof. intros. rewrite gen_index_axis_factor_equiv. now apply source_factor_covers_touched. Qed.
""",
    "skip_node": r"""
Theorem gen_skip_node_spec : forall hp c, gen_skip_node hp c = negb hp || c.
Proof. intros [|] [|]; reflexivity. Qed.
""",
    "visit_nodes": r"""
Theorem gen_visit_nodes_equiv : forall skip order, gen_visit_nodes skip order = Events.visit_nodes skip order.
Proof. intros. reflexivity. Qed.
(* the barrier theorem, about the source's own traversal: whatever topological order networkx hands back *)
Corollary source_seq_barrier : forall nodes edges order is_op skip (ntasks : nat -> nat),
  is_topo_order nodes edges order = true ->
  barrier_ok (op_deps is_op edges) (seq_trace (map (fun n => (n, ntasks n)) (gen_visit_nodes skip order))) = true.
Proof. intros. rewrite gen_visit_nodes_equiv. now apply seq_barrier with (nodes := nodes). Qed.
""",
    "visit_node_generations": r"""
Theorem gen_visit_node_generations_equiv : forall skip gens, gen_visit_node_generations skip gens = Events.visit_generations skip gens.
Proof. intros. reflexivity. Qed.
Corollary source_par_barrier : forall nodes edges gens is_op skip (ntasks : nat -> nat) (inter : list (list ev)),
  is_generations nodes edges gens = true ->
  length inter = length (gen_visit_node_generations skip gens) ->
  (forall l e, In l inter -> In e l -> exists n, e = ETE n) ->
  barrier_ok (op_deps is_op edges)
    (par_trace (combine (map (map (fun n => (n, ntasks n))) (gen_visit_node_generations skip gens)) inter)) = true.
Proof. intros until inter. rewrite gen_visit_node_generations_equiv. apply par_barrier. Qed.
""",
})
DEPS.update({"general_blockwise.projected_mem": ["calculate_projected_mem"], "check_array_specs": ["Spec.__eq__"], "get_item": ["_cumsum"], "general_blockwise.num_tasks": ["ChunkKeys.__iter__"]})
DEPS.update({"FinalizedPlan.validate": ["Plan._find_ops_exceeding_memory"], "admission.wiring": [], "resume.wiring": []})
DEPS.update({"can_fuse_primitive_ops": ["is_fuse_candidate"],
             "can_fuse_multiple_primitive_ops": ["MemoryModeller.allocate", "MemoryModeller.free", "peak_projected_mem", "is_fuse_candidate"],
             "fuse_multiple.fields": ["MemoryModeller.allocate", "MemoryModeller.free", "peak_projected_mem"]})


def _chain(e):
    """a.b.c -> ('a', 'b.c') for an attribute chain rooted at a name"""
    parts = []
    while isinstance(e, ast.Attribute):
        parts.append(e.attr)
        e = e.value
    if isinstance(e, ast.Name) and parts:
        return e.id, ".".join(reversed(parts))
    return None


def _is_none_test(t, positive=True):
    """`x is None` (positive) / `x is not None` -> x"""
    if (isinstance(t, ast.Compare) and len(t.ops) == 1 and isinstance(t.left, ast.Name) and isinstance(t.comparators[0], ast.Constant)
            and t.comparators[0].value is None and isinstance(t.ops[0], ast.Is if positive else ast.IsNot)):
        return t.left.id
    return None


def _is_logging(s):
    return (isinstance(s, ast.Expr) and isinstance(s.value, ast.Call) and isinstance(s.value.func, ast.Attribute)
            and isinstance(s.value.func.value, ast.Name) and s.value.func.value.id == "logger"
            and s.value.func.attr in ("debug", "info", "warning"))


def _only_logging(body):
    return all(_is_logging(b) for b in body)


def _always_returns(body):
    if not body:
        return False
    last = body[-1]
    if isinstance(last, ast.Return):
        return True
    if isinstance(last, ast.If) and last.orelse:
        return _always_returns(last.body) and _always_returns(last.orelse)
    return False


class TrObj:
    """functions over primitive operations (records of type pview), optional ones (`x is None`) and lists of them"""

    def __init__(self, env):
        self.env = dict(env)

    def typ(self, e):
        if isinstance(e, ast.Name) and self.env.get(e.id):
            return self.env[e.id]
        c = _chain(e)
        if c and self.env.get(c[0]) == "pview" and c[1] in PVIEW_FIELDS:
            return PVIEW_FIELDS[c[1]][1]
        raise TranslationError(f"no type for {ast.dump(e)[:60]}")

    def expr(self, e):
        if isinstance(e, ast.Name):
            if not self.env.get(e.id):
                raise TranslationError(f"name {e.id} is not a translatable value here")
            return e.id
        if isinstance(e, ast.Constant) and isinstance(e.value, bool):
            return "true" if e.value else "false"
        if isinstance(e, ast.Constant) and isinstance(e.value, int):
            return f"({e.value})"
        c = _chain(e)
        if c:
            if self.env.get(c[0]) == "pview" and c[1] in PVIEW_FIELDS:
                return f"({PVIEW_FIELDS[c[1]][0]} {c[0]})"
            raise TranslationError(f"attribute {c[0]}.{c[1]}")
        if isinstance(e, ast.Compare) and len(e.ops) == 1:
            lc = _chain(e.left)
            r0 = e.comparators[0]
            if (lc and lc[1] == "pipeline.function" and self.env.get(lc[0]) == "pview" and isinstance(e.ops[0], ast.Eq)
                    and isinstance(r0, ast.Name) and r0.id == "apply_blockwise"):
                return f"(v_bw {lc[0]})"
            l, r = self.expr(e.left), self.expr(r0)
            op = e.ops[0]
            if isinstance(op, ast.LtE): return f"({l} <=? {r})"
            if isinstance(op, ast.Lt): return f"({l} <? {r})"
            if isinstance(op, ast.GtE): return f"({r} <=? {l})"
            if isinstance(op, ast.Gt): return f"({r} <? {l})"
            if isinstance(op, ast.Eq): return f"({l} =? {r})"
            if isinstance(op, ast.NotEq): return f"(negb ({l} =? {r}))"
            raise TranslationError(f"comparison {type(op).__name__}")
        if isinstance(e, ast.BoolOp):
            j = " || " if isinstance(e.op, ast.Or) else " && "
            return "(" + j.join(self.expr(v) for v in e.values) + ")"
        if isinstance(e, ast.UnaryOp) and isinstance(e.op, ast.Not):
            return f"(negb {self.expr(e.operand)})"
        if isinstance(e, ast.BinOp) and type(e.op) in (ast.Add, ast.Sub, ast.Mult):
            o = {ast.Add: "+", ast.Sub: "-", ast.Mult: "*"}[type(e.op)]
            return f"({self.expr(e.left)} {o} {self.expr(e.right)})"
        if isinstance(e, ast.Call) and isinstance(e.func, ast.Name) and not e.keywords:
            fn = e.func.id
            if fn in ("all", "any") and len(e.args) == 1 and isinstance(e.args[0], ast.GeneratorExp):
                return self.quant(fn, e.args[0])
            if fn == "max" and len(e.args) == 2:
                return f"(Z.max {self.expr(e.args[0])} {self.expr(e.args[1])})"
            if fn in OBJ_KERNELS and "." not in fn and OBJ_KERNELS[fn][3] == "bool" and not OBJ_KERNELS[fn][2]:
                if [self.typ(a) for a in e.args] != [t for _, t in OBJ_KERNELS[fn][1]]:
                    raise TranslationError(f"call of {fn}: argument types")
                return f"(gen_{fn} {' '.join(self.expr(a) for a in e.args)})"
            if fn == "peak_projected_mem" and len(e.args) == 1:
                return f"(gen_peak_projected_mem (pviews_to_pairs {self.oplist(e.args[0])}))"
            if fn == "chunk_memory" and len(e.args) == 1:
                c = _chain(e.args[0])
                if c and c[1] == "target_array" and self.env.get(c[0]) == "pview":
                    return f"(v_chunkmem {c[0]})"
        raise TranslationError(f"expression {ast.dump(e)[:80]}")

    def oplist(self, a):
        """an iterable of optional primitive operations: a name, or (p for p in xs if p is not None)"""
        if isinstance(a, ast.Name) and self.env.get(a.id) == "list (option pview)":
            return a.id
        if (isinstance(a, ast.GeneratorExp) and len(a.generators) == 1 and isinstance(a.generators[0].target, ast.Name)
                and isinstance(a.elt, ast.Name) and a.elt.id == a.generators[0].target.id and len(a.generators[0].ifs) == 1
                and _is_none_test(a.generators[0].ifs[0], positive=False) == a.elt.id
                and isinstance(a.generators[0].iter, ast.Name) and self.env.get(a.generators[0].iter.id) == "list (option pview)"):
            return f"(keep_somes {a.generators[0].iter.id})"
        raise TranslationError("argument of peak_projected_mem")

    def quant(self, fn, g):
        if len(g.generators) != 1 or not isinstance(g.generators[0].target, ast.Name):
            raise TranslationError("generator shape")
        gen = g.generators[0]
        x = gen.target.id
        ty = self.typ(gen.iter)
        q, unit = ("forallb", "true") if fn == "all" else ("existsb", "false")
        saved = self.env.get(x)
        try:
            if ty == "list Z" and not gen.ifs:
                self.env[x] = "Z"
                return f"({q} (fun {x} => {self.expr(g.elt)}) {self.expr(gen.iter)})"
            if ty == "list (option pview)":
                elt = g.elt
                if len(gen.ifs) == 1 and _is_none_test(gen.ifs[0], positive=False) == x:
                    pass                                    # all/any(E for p in xs if p is not None)
                elif (not gen.ifs and fn == "all" and isinstance(elt, ast.BoolOp) and isinstance(elt.op, ast.Or) and len(elt.values) == 2
                      and _is_none_test(elt.values[0]) == x):
                    elt = elt.values[1]                     # all(p is None or E for p in xs)
                elif (not gen.ifs and fn == "any" and isinstance(elt, ast.BoolOp) and isinstance(elt.op, ast.And) and len(elt.values) == 2
                      and _is_none_test(elt.values[0], positive=False) == x):
                    elt = elt.values[1]                     # any(p is not None and E for p in xs)
                else:
                    raise TranslationError("quantifier over optional operations")
                self.env[x] = "pview"
                return f"({q} (fun {x}_opt => match {x}_opt with None => {unit} | Some {x} => {self.expr(elt)} end) {self.expr(gen.iter)})"
            raise TranslationError(f"quantifier over {ty}")
        finally:
            self.env[x] = saved

    # ---- statements -----------------------------------------------------------------------------------------------
    def loop_body(self, body, acc, first=True):
        if not body:
            return acc
        s, rest = body[0], body[1:]
        if _is_logging(s):
            return self.loop_body(rest, acc, first)
        x = None
        if isinstance(s, ast.If) and not s.orelse and len(s.body) == 1 and isinstance(s.body[0], ast.Continue):
            x = _is_none_test(s.test)
        if x is not None and self.env.get(x) == "option pview":
            self.env[x] = "pview"
            try:
                return f"match {x}_opt with None => {acc} | Some {x} => {self.loop_body(rest, acc, False)} end"
            finally:
                self.env[x] = "option pview"
        if isinstance(s, ast.AugAssign) and isinstance(s.op, ast.Add) and isinstance(s.target, ast.Name) and s.target.id == acc:
            return f"let {acc} := ({acc} + {self.expr(s.value)}) in {self.loop_body(rest, acc, False)}"
        if isinstance(s, ast.For) and not s.orelse:
            return f"let {acc} := {self.loop(s, acc)} in {self.loop_body(rest, acc, False)}"
        raise TranslationError(f"loop body statement at line {getattr(s, 'lineno', '?')}")

    def loop(self, s, acc):
        """for x in xs / for a, b in zip(xs, ys[, strict=True]): single accumulator `acc`; value = the accumulator after the loop"""
        it = s.iter
        if isinstance(s.target, ast.Name):
            x = s.target.id
            ty = self.typ(it)
            if ty != "list Z":
                raise TranslationError("loop over " + ty)
            saved = self.env.get(x)
            self.env[x] = "Z"
            try:
                return f"fold_left (fun {acc} {x} => {self.loop_body(s.body, acc)}) {self.expr(it)} {acc}"
            finally:
                self.env[x] = saved
        if (isinstance(s.target, ast.Tuple) and len(s.target.elts) == 2 and all(isinstance(t, ast.Name) for t in s.target.elts)
                and isinstance(it, ast.Call) and isinstance(it.func, ast.Name) and it.func.id == "zip" and len(it.args) == 2
                and all(k.arg == "strict" for k in it.keywords)):
            a, b = (t.id for t in s.target.elts)
            ta, tb = self.typ(it.args[0]), self.typ(it.args[1])
            el = {"list Z": "Z", "list (option pview)": "option pview"}
            if ta not in el or tb not in el:
                raise TranslationError("zip element types")
            saved = (self.env.get(a), self.env.get(b))
            self.env[a], self.env[b] = el[ta], el[tb]
            na = a + "_opt" if el[ta].startswith("option") else a
            nb = b + "_opt" if el[tb].startswith("option") else b
            try:
                return (f"fold_left (fun {acc} t_ => let {na} := fst t_ in let {nb} := snd t_ in {self.loop_body(s.body, acc)}) "
                        f"(combine {self.expr(it.args[0])} {self.expr(it.args[1])}) {acc}")
            finally:
                self.env[a], self.env[b] = saved
        raise TranslationError("loop shape")

    def acc_of(self, s):
        accs = {n.target.id for n in ast.walk(s) if isinstance(n, ast.AugAssign) and isinstance(n.target, ast.Name)}
        if len(accs) != 1:
            raise TranslationError("loop must update exactly one accumulator")
        return accs.pop()

    def block(self, body):
        """the value returned by executing `body` (every path must end in return)"""
        if not body:
            raise TranslationError("a path falls off the end of the function")
        s, rest = body[0], body[1:]
        if isinstance(s, ast.Expr) and isinstance(s.value, ast.Constant) and isinstance(s.value.value, str):
            return self.block(rest)
        if _is_logging(s) or (isinstance(s, ast.If) and _only_logging(s.body) and _only_logging(s.orelse)):
            return self.block(rest)
        if isinstance(s, ast.Return):
            return self.expr(s.value)
        if isinstance(s, ast.Assign) and len(s.targets) == 1 and isinstance(s.targets[0], ast.Name):
            v = s.targets[0].id
            val = self.expr(s.value)
            ty = "bool" if isinstance(s.value, (ast.Compare, ast.BoolOp)) or (isinstance(s.value, ast.Call) and getattr(s.value.func, "id", "") in ("all", "any")) else None
            if ty is None:
                try:
                    ty = self.typ(s.value)
                except TranslationError:
                    ty = "Z"
            self.env[v] = ty
            return f"let {v} := {val} in\n  {self.block(rest)}"
        if isinstance(s, ast.For) and not s.orelse:
            acc = self.acc_of(s)
            if self.env.get(acc) != "Z":
                raise TranslationError("accumulator must be an initialised integer")
            return f"let {acc} := {self.loop(s, acc)} in\n  {self.block(rest)}"
        if isinstance(s, ast.If):
            then_b = s.body if _always_returns(s.body) else s.body + rest
            else_b = (s.orelse if _always_returns(s.orelse) else s.orelse + rest) if s.orelse else rest
            x = _is_none_test(s.test)
            if x is not None and (self.env.get(x) or "").startswith("option "):
                inner = self.env[x][len("option "):]
                a = self.block(then_b)
                self.env[x] = inner
                try:
                    b = self.block(else_b)
                finally:
                    self.env[x] = "option " + inner
                return f"match {x} with None => {a} | Some {x} => {b} end"
            return f"if {self.expr(s.test)} then {self.block(then_b)} else {self.block(else_b)}"
        raise TranslationError(f"statement {type(s).__name__} at line {getattr(s, 'lineno', '?')}")


def _method(tree, cls, meth):
    cnode = next((n for n in ast.walk(tree) if isinstance(n, ast.ClassDef) and n.name == cls), None)
    fn = next((n for n in (cnode.body if cnode else []) if isinstance(n, ast.FunctionDef) and n.name == meth), None)
    if fn is None:
        raise TranslationError(f"{cls}.{meth} not found")
    return fn


def _nodoc(body):
    return body[1:] if body and isinstance(body[0], ast.Expr) and isinstance(body[0].value, ast.Constant) and isinstance(body[0].value.value, str) else body


def translate_admission(name, repo):
    """cubed/core/plan.py.  Each function must have exactly the shape described here, else the translation fails (closed):
    _find_ops_exceeding_memory: acc = []; for n, d in dag.nodes(data=True): if "primitive_op" in d: op = d["primitive_op"];
        if <test over op>: acc.append((n, op)); acc.sort(key=lambda x: x[1].projected_mem, reverse=True); return acc
    validate: if self._ops_exceeding_memory: ...; raise ...   (nothing else)
    wiring (no definition, structural obligations): _finalize computes X = self._find_ops_exceeding_memory(dag) on the dag it
        hands to FinalizedPlan together with X; FinalizedPlan.__init__ stores `ops_exceeding_memory or []` in
        self._ops_exceeding_memory and no other method assigns it; the first statement of FinalizedPlan.execute is self.validate()"""
    in_plan = name in ("Plan._find_ops_exceeding_memory", "FinalizedPlan.validate", "admission.wiring", "already_computed", "resume.wiring")
    tree = ast.parse((Path(repo) / "cubed/core/plan.py").read_text()) if in_plan else None
    U = ast.unparse
    if name == "Plan._find_ops_exceeding_memory":
        fn = _method(tree, "Plan", "_find_ops_exceeding_memory")
        b = _nodoc(fn.body)
        if [a.arg for a in fn.args.args] != ["self", "dag"] or len(b) != 4:
            raise TranslationError("_find_ops_exceeding_memory: signature / number of statements")
        init, loop, sort, ret = b
        if not (isinstance(init, ast.Assign) and len(init.targets) == 1 and isinstance(init.targets[0], ast.Name) and U(init.value) == "[]"):
            raise TranslationError("_find_ops_exceeding_memory: accumulator initialisation")
        acc = init.targets[0].id
        if not (isinstance(loop, ast.For) and not loop.orelse and U(loop.target) in ("(n, d)", "n, d") and U(loop.iter) == "dag.nodes(data=True)" and len(loop.body) == 1):
            raise TranslationError("_find_ops_exceeding_memory: loop header")
        g = loop.body[0]
        if not (isinstance(g, ast.If) and not g.orelse and U(g.test) == "'primitive_op' in d" and len(g.body) == 2):
            raise TranslationError("_find_ops_exceeding_memory: node guard")
        a, t = g.body
        if not (isinstance(a, ast.Assign) and U(a) == "op = d['primitive_op']"):
            raise TranslationError("_find_ops_exceeding_memory: op binding")
        if not (isinstance(t, ast.If) and not t.orelse and len(t.body) == 1 and U(t.body[0]) == f"{acc}.append((n, op))"):
            raise TranslationError("_find_ops_exceeding_memory: append")
        test = TrObj({"op": "pview"}).expr(t.test)
        if U(sort) != f"{acc}.sort(key=lambda x: x[1].projected_mem, reverse=True)" or U(ret) != f"return {acc}":
            raise TranslationError("_find_ops_exceeding_memory: sort / return")
        return (f"Definition gen_exceeds_test (op : pview) : bool := ({test})%Z.\n"
                "Definition gen__find_ops_exceeding_memory (nodes : list (nat * option pview)) : list (nat * pview) :=\n"
                "  sort_by_proj_desc (fold_left (fun ops_exceeding t_ => match snd t_ with None => ops_exceeding | Some op =>\n"
                "      if gen_exceeds_test op then ops_exceeding ++ [(fst t_, op)] else ops_exceeding end) nodes []).\n")
    if name == "FinalizedPlan.validate":
        fn = _method(tree, "FinalizedPlan", "validate")
        b = _nodoc(fn.body)
        if not (len(b) == 1 and isinstance(b[0], ast.If) and not b[0].orelse and U(b[0].test) == "self._ops_exceeding_memory"
                and isinstance(b[0].body[-1], ast.Raise) and not any(isinstance(n, (ast.Return, ast.Try, ast.If)) for s_ in b[0].body for n in ast.walk(s_))):
            raise TranslationError("validate: must be `if self._ops_exceeding_memory: ...; raise ...`")
        return "Definition gen_validate_raises {A} (ops : list A) : bool := match ops with [] => false | _ => true end.\n"
    if name == "admission.wiring":
        fin = _method(tree, "Plan", "_finalize")
        asg = [s_ for s_ in fin.body if isinstance(s_, ast.Assign) and isinstance(s_.value, ast.Call) and U(s_.value.func) == "self._find_ops_exceeding_memory"]
        rets = [n for n in ast.walk(fin) if isinstance(n, ast.Return)]
        if len(asg) != 1 or len(rets) != 1 or fin.body[-1] is not rets[0] or fin.body[-2] is not asg[0]:
            raise TranslationError("_finalize: the admission list must be computed right before the single return")
        x, dagname = U(asg[0].targets[0]), U(asg[0].value.args[0])
        r = rets[0].value
        if not (isinstance(r, ast.Call) and U(r.func) == "FinalizedPlan" and len(r.args) == 4 and U(r.args[3]) == x and U(r.args[0]) in (dagname, f"nx.freeze({dagname})")):
            raise TranslationError("_finalize: FinalizedPlan(dag, ..., ops_exceeding_memory) wiring")
        init = _method(tree, "FinalizedPlan", "__init__")
        if [a.arg for a in init.args.args][:5] != ["self", "dag", "array_names", "optimized", "ops_exceeding_memory"]:
            raise TranslationError("FinalizedPlan.__init__ signature")
        cnode = next(n for n in ast.walk(tree) if isinstance(n, ast.ClassDef) and n.name == "FinalizedPlan")
        stores = [n for n in ast.walk(cnode) if isinstance(n, ast.Attribute) and n.attr == "_ops_exceeding_memory" and isinstance(n.ctx, (ast.Store, ast.Del))]
        ok = [s_ for s_ in init.body if U(s_) == "self._ops_exceeding_memory = ops_exceeding_memory or []"]
        if len(stores) != 1 or len(ok) != 1:
            raise TranslationError("FinalizedPlan: _ops_exceeding_memory must be assigned once, in __init__, from the argument")
        ex = _nodoc(_method(tree, "FinalizedPlan", "execute").body)
        if not ex or U(ex[0]) != "self.validate()":
            raise TranslationError("FinalizedPlan.execute must call self.validate() first")
        return "(* admission.wiring: structural obligations on _finalize / FinalizedPlan.__init__ / execute hold *)\n"
    if name == "_store_array.region_guards":
        otree = ast.parse((Path(repo) / "cubed/core/ops.py").read_text())
        fn = next((n for n in otree.body if isinstance(n, ast.FunctionDef) and n.name == "_store_array"), None)
        if fn is None:
            raise TranslationError("_store_array not found")

        def raising(msg):
            hits = [n for n in ast.walk(fn) if isinstance(n, ast.If) and not n.orelse and len(n.body) == 1 and isinstance(n.body[0], ast.Raise)
                    and n.body[0].exc is not None and U(n.body[0].exc).startswith("ValueError(") and msg in U(n.body[0].exc)]
            if len(hits) != 1:
                raise TranslationError(f"_store_array: expected exactly one refusal with message containing {msg!r}")
            return hits[0]

        al = raising("does not align with target chunks")
        loops = [n for n in ast.walk(fn) if isinstance(n, ast.For) and al in n.body]
        if len(loops) != 1 or U(loops[0].target) != "(i, (sl, cs))" or U(loops[0].iter) != "enumerate(zip(region, chunks))" or len(loops[0].body) != 1:
            raise TranslationError("_store_array: the alignment refusal must be the body of `for i, (sl, cs) in enumerate(zip(region, chunks))`")
        # region slices are resolved (None start = 0, None stop = axis length): for those values the `is not None` guards change nothing
        # (0 % cs == 0; shape % cs != 0 and shape != shape is false), so `x is not None` is rendered as true
        class TrReg(Tr):
            def expr(self, e):
                if isinstance(e, ast.Compare) and len(e.ops) == 1 and isinstance(e.ops[0], ast.IsNot) and isinstance(e.comparators[0], ast.Constant) and e.comparators[0].value is None \
                        and U(e.left) in ("sl.start", "sl.stop"):
                    return "true"
                if isinstance(e, ast.Subscript) and U(e) == "shape[i]":
                    return "shape_i"
                return super().expr(e)
        t1 = TrReg([("sl", {"start": "Z", "stop": "Z"})]).expr(al.test)
        ch = raising("do not match target chunks")
        t = ch.test
        if not (isinstance(t, ast.Call) and U(t.func) == "any" and len(t.args) == 1 and isinstance(t.args[0], ast.GeneratorExp) and len(t.args[0].generators) == 1
                and not t.args[0].generators[0].ifs and U(t.args[0].generators[0].target) == "(n, sc, tc, nb)"
                and U(t.args[0].generators[0].iter) == "zip(source.shape, source.chunksize, chunks, source.numblocks)"):
            raise TranslationError("_store_array: the chunk refusal must be any(<test> for n, sc, tc, nb in zip(source.shape, source.chunksize, chunks, source.numblocks))")
        t2 = Tr([]).expr(t.args[0].elt)
        # both refusals precede the construction of the copy operation
        order = [n.lineno for n in (al, ch)] + [n.lineno for n in ast.walk(fn) if isinstance(n, ast.Call) and U(n.func) in ("general_blockwise", "_general_blockwise") and n.lineno > al.lineno]
        if not order[2:] or min(order[2:]) < max(order[:2]):
            raise TranslationError("_store_array: the refusals must precede the construction of the region copy operation")
        return (f"Definition gen_region_misaligned (sl_start sl_stop cs shape_i : Z) : bool := ({t1})%Z.\n"
                f"Definition gen_region_chunks_mismatch (n sc tc nb : Z) : bool := ({t2})%Z.\n")
    if name in ("_cumsum", "get_item"):
        utree = ast.parse((Path(repo) / "cubed/utils.py").read_text())
        fn = next((n for n in utree.body if isinstance(n, ast.FunctionDef) and n.name == name), None)
        if fn is None:
            raise TranslationError(f"{name} not found in cubed/utils.py")
        b = _nodoc(fn.body)
        if name == "_cumsum":
            if not (len(b) == 1 and isinstance(b[0], ast.If) and U(b[0].test) == "initial_zero" and [U(x) for x in b[0].body] == ["return tuple(accumulate(seq, add, initial=0))"]
                    and [U(x) for x in b[0].orelse] == ["return tuple(accumulate(seq, add))"] and [a.arg for a in fn.args.args] == ["seq", "initial_zero"]):
                raise TranslationError("_cumsum: shape")
            # itertools.accumulate(seq, add): running sums; with initial=0 the sums are preceded by 0
            return ("Fixpoint gen__cumsum_tail (seq : list nat) : list nat :=\n  (match seq with [] => [] | c :: r => c :: map (fun s => c + s) (gen__cumsum_tail r) end)%nat.\n"
                    "Definition gen__cumsum (seq : list nat) (initial_zero : bool) : list nat :=\n  (if initial_zero then 0 :: gen__cumsum_tail seq else gen__cumsum_tail seq)%nat.\n")
        if not ([a.arg for a in fn.args.args] == ["chunks", "idx"] and [U(x) for x in b] == [
                "starts = tuple((_cumsum(c, initial_zero=True) for c in chunks))",
                "loc = tuple(((start[i], start[i + 1]) for i, start in zip(idx, starts)))",
                "return tuple((slice(*s, None) for s in loc))"]):
            raise TranslationError("get_item: shape")
        return ("Definition gen_get_item (chunks : list (list nat)) (idx : list nat) : list (nat * nat) :=\n"
                "  let starts := map (fun c => gen__cumsum c true) chunks in\n"
                "  let loc := map2 (fun i start => (nth i start 0, nth (i + 1) start 0))%nat idx starts in\n  loc.\n")
    if name in ("index.chunk_len_for_indexer", "index.merged_chunk_len_for_indexer", "_index_num_input_blocks"):
        itree = ast.parse((Path(repo) / "cubed/core/indexing.py").read_text())

        class TrIx(Tr):
            """expressions over an index entry `ia` already known to be a slice (fields ia.start / ia.stop / ia.step are Z)"""
            def expr(self, e):
                if (isinstance(e, ast.Compare) and len(e.ops) == 1 and isinstance(e.ops[0], ast.IsNot) and isinstance(e.comparators[0], ast.Constant)
                        and e.comparators[0].value is None and U(e.left) == "ia.step"):
                    return "true"          # ndindex's expanded slices always carry a step
                if isinstance(e, ast.Call) and isinstance(e.func, ast.Name) and e.func.id == "isinstance" and len(e.args) == 2 and U(e.args[0]) == "ia":
                    k = {"ndindex.Integer": "is_ixint", "ndindex.IntegerArray": "is_ixarr"}.get(U(e.args[1]))
                    if k:
                        return f"({k} ia)"
                return super().expr(e)

        def is_slice_test(t, neg=False):
            if neg:
                return isinstance(t, ast.UnaryOp) and isinstance(t.op, ast.Not) and U(t.operand) == "isinstance(ia, ndindex.Slice)"
            return U(t) == "isinstance(ia, ndindex.Slice)"

        tr = TrIx([("ia", {"start": "Z", "stop": "Z", "step": "Z"})])
        if name.startswith("index."):
            outer = next((n for n in itree.body if isinstance(n, ast.FunctionDef) and n.name == "index"), None)
            inner = name.split(".")[1]
            fn = next((n for n in (outer.body if outer else []) if isinstance(n, ast.FunctionDef) and n.name == inner), None)
            if fn is None or [a.arg for a in fn.args.args] != ["ia", "c"]:
                raise TranslationError(f"{name}: not found / signature")
            b = _nodoc(fn.body)
            if not (b and isinstance(b[0], ast.If) and not b[0].orelse and is_slice_test(b[0].test, neg=True) and [U(x) for x in b[0].body] == ["return c"]):
                raise TranslationError(f"{name}: must start with `if not isinstance(ia, ndindex.Slice): return c`")

            def chain(rest):
                if not rest:
                    raise TranslationError(f"{name}: falls off the end")
                s0 = rest[0]
                if isinstance(s0, ast.Return):
                    return tr.expr(s0.value)
                if isinstance(s0, ast.If) and not s0.orelse and len(s0.body) == 1 and isinstance(s0.body[0], ast.Return):
                    return f"if {tr.expr(s0.test)} then {tr.expr(s0.body[0].value)} else {chain(rest[1:])}"
                raise TranslationError(f"{name}: statement at line {s0.lineno}")
            body = chain(b[1:])
            return (f"Definition gen_{inner} (ia : ixZ) (c : Z) : Z :=\n"
                    f"  match ia with IxSlice ia_start ia_stop ia_step => ({body})%Z | _ => c end.\n")
        fn = next((n for n in itree.body if isinstance(n, ast.FunctionDef) and n.name == "_index_num_input_blocks"), None)
        if fn is None or [a.arg for a in fn.args.args] != ["idx", "in_chunksizes", "out_chunksizes", "numblocks"]:
            raise TranslationError("_index_num_input_blocks: not found / signature")
        b = _nodoc(fn.body)
        if not (len(b) == 3 and U(b[0]) == "num = 1" and isinstance(b[1], ast.For) and not b[1].orelse and U(b[1].target) == "(ia, c, oc, nb)"
                and U(b[1].iter) == "zip(idx.args, in_chunksizes, out_chunksizes, numblocks)" and U(b[2]) == "return num" and len(b[1].body) == 1):
            raise TranslationError("_index_num_input_blocks: shape")

        def mult(stmts, in_slice):
            """the factor the statements multiply `num` by (Some k), or None when they raise"""
            if not stmts:
                return "Some (1)"
            if len(stmts) != 1:
                raise TranslationError("_index_num_input_blocks: one statement per branch expected")
            s0 = stmts[0]
            if isinstance(s0, ast.Pass):
                return "Some (1)"
            if isinstance(s0, ast.AugAssign) and isinstance(s0.op, ast.Mult) and U(s0.target) == "num":
                return f"Some {tr.expr(s0.value)}"
            if isinstance(s0, ast.Raise):
                return "None"
            if isinstance(s0, ast.If):
                if is_slice_test(s0.test):
                    if in_slice:
                        raise TranslationError("nested slice test")
                    return (f"match ia with IxSlice ia_start ia_stop ia_step => {mult(s0.body, True)} | _ => {mult(s0.orelse, False)} end")
                if not in_slice and any(isinstance(n, ast.Attribute) and U(n.value) == "ia" for n in ast.walk(s0.test)):
                    raise TranslationError("field of ia used outside the slice branch")
                return f"if {tr.expr(s0.test)} then {mult(s0.body, in_slice)} else {mult(s0.orelse, in_slice)}"
            raise TranslationError(f"_index_num_input_blocks: statement at line {s0.lineno}")
        body = mult(b[1].body, False)
        return (f"Definition gen_index_axis_factor (ia : ixZ) (c oc nb : Z) : option Z :=\n  ({body})%Z.\n"
                "Definition gen__index_num_input_blocks (axes : list (ixZ * Z * Z * Z)) : option Z :=\n"
                "  fold_left (fun num (t : ixZ * Z * Z * Z) =>\n"
                "     match num, gen_index_axis_factor (fst (fst (fst t))) (snd (fst (fst t))) (snd (fst t)) (snd t) with\n"
                "     | Some a, Some m => Some (a * m)%Z | _, _ => None end) axes (Some 1%Z).\n")
    if name == "general_blockwise.projected_mem":
        btree = ast.parse((Path(repo) / "cubed/primitive/blockwise.py").read_text())
        fn = next((n for n in btree.body if isinstance(n, ast.FunctionDef) and n.name == "general_blockwise"), None)
        if fn is None:
            raise TranslationError("general_blockwise not found")
        allst = [U(n) for n in ast.walk(fn) if isinstance(n, ast.stmt)]
        need = ["output_chunk_memory = 0", "chunksize = to_chunksize(chunks_normal)",
                "output_chunk_memory = max(output_chunk_memory, array_memory(dtypes[i], chunksize))",
                "buffer_copies = buffer_copies or BufferCopies(read=1, write=1)",
                "projected_mem = calculate_projected_mem(reserved_mem=reserved_mem, inputs=[array_memory(array.dtype, largest_chunk(array.chunks)) for array in arrays], "
                "operation=extra_projected_mem, output=output_chunk_memory, buffer_copies=buffer_copies)"]
        for st in need:
            if allst.count(st) != 1:
                raise TranslationError(f"general_blockwise: expected exactly one statement `{st[:70]}`")
        for v in ("output_chunk_memory", "projected_mem", "chunksize"):
            n_st = sum(1 for n in ast.walk(fn) if isinstance(n, ast.Name) and isinstance(n.ctx, ast.Store) and n.id == v)
            if n_st != (2 if v == "output_chunk_memory" else 1):
                raise TranslationError(f"general_blockwise: {v} is assigned elsewhere too")
        ret = fn.body[-1]
        kws = {k.arg: U(k.value) for k in ret.value.keywords} if isinstance(ret, ast.Return) and isinstance(ret.value, ast.Call) and U(ret.value.func) == "PrimitiveOperation" else {}
        if kws.get("projected_mem") != "projected_mem" or kws.get("write_chunks") != "chunksize" or kws.get("allowed_mem") != "allowed_mem" or kws.get("reserved_mem") != "reserved_mem":
            raise TranslationError("general_blockwise: PrimitiveOperation(projected_mem=projected_mem, allowed_mem=allowed_mem, reserved_mem=reserved_mem, write_chunks=chunksize)")
        # ins = array_memory(dtype, largest chunk) of every input; outs = array_memory(dtype_i, write chunk size) of every output
        return ("Definition gen_general_blockwise_projected_mem (reserved_mem extra_projected_mem rc wc : Z) (ins outs : list Z) : Z :=\n"
                "  (let output_chunk_memory := (0) in\n   let output_chunk_memory := fold_left (fun output_chunk_memory o => Z.max output_chunk_memory o) outs output_chunk_memory in\n"
                "   gen_calculate_projected_mem reserved_mem ins extra_projected_mem output_chunk_memory rc wc)%Z.\n")
    if name in ("ChunkKeys.__iter__", "general_blockwise.num_tasks"):
        btree = ast.parse((Path(repo) / "cubed/primitive/blockwise.py").read_text())
        if name == "ChunkKeys.__iter__":
            fn = _method(btree, "ChunkKeys", "__iter__")
            ini = _method(btree, "ChunkKeys", "__init__")
            if ([U(x) for x in _nodoc(fn.body)] != ["return map(list, itertools.product(*[range(len(c)) for c in self.chunks_normal]))"]
                    or [U(x) for x in _nodoc(ini.body)] != ["self.chunks_normal = chunks_normal"]):
                raise TranslationError("ChunkKeys: shape")
            return "Definition gen_ChunkKeys_iter (chunks_normal : list (list nat)) : list (list nat) :=\n  Geometry.blocks (map (fun c => length c) chunks_normal).\n"
        fn = next((n for n in btree.body if isinstance(n, ast.FunctionDef) and n.name == "general_blockwise"), None)
        if fn is None:
            raise TranslationError("general_blockwise not found")
        src = [U(x) for x in fn.body]
        if ("mappable = output_blocks if output_blocks is not None else ChunkKeys(chunks_normal)" not in src
                or "if num_tasks is None:\n    num_tasks = math.prod((len(c) for c in chunks_normal))" not in src):
            raise TranslationError("general_blockwise: mappable / num_tasks statements")
        i_m = src.index("mappable = output_blocks if output_blocks is not None else ChunkKeys(chunks_normal)")
        i_n = src.index("if num_tasks is None:\n    num_tasks = math.prod((len(c) for c in chunks_normal))")
        stores = [n for s_ in fn.body[min(i_m, i_n):] for n in ast.walk(s_) if isinstance(n, ast.Name) and isinstance(n.ctx, ast.Store) and n.id in ("num_tasks", "mappable", "chunks_normal")]
        ret = fn.body[-1]
        kws = {k.arg: U(k.value) for k in ret.value.keywords} if isinstance(ret, ast.Return) and isinstance(ret.value, ast.Call) else {}
        pipe = [x for x in src if x.startswith("pipeline = CubedPipeline(")]
        if len(stores) != 2 or kws.get("num_tasks") != "num_tasks" or kws.get("pipeline") != "pipeline" or len(pipe) != 1 or "mappable" not in pipe[0]:
            raise TranslationError("general_blockwise: num_tasks / mappable must reach PrimitiveOperation and CubedPipeline unchanged")
        return "Definition gen_general_blockwise_num_tasks (chunks_normal : list (list nat)) : nat :=\n  prodn (map (fun c => length c) chunks_normal).\n"
    if name == "Spec.__eq__":
        stree = ast.parse((Path(repo) / "cubed/spec.py").read_text())
        fn = _method(stree, "Spec", "__eq__")
        b = _nodoc(fn.body)
        if not ([a.arg for a in fn.args.args] == ["self", "other"] and len(b) == 1 and isinstance(b[0], ast.If) and U(b[0].test) == "isinstance(other, Spec)"
                and len(b[0].body) == 1 and isinstance(b[0].body[0], ast.Return) and [U(x) for x in b[0].orelse] == ["return False"]):
            raise TranslationError("Spec.__eq__: shape")
        e = b[0].body[0].value
        conj = e.values if isinstance(e, ast.BoolOp) and isinstance(e.op, ast.And) else [e]
        FT = {"work_dir": "Nat.eqb", "intermediate_store": "Nat.eqb", "allowed_mem": "Z.eqb", "reserved_mem": "Z.eqb", "executor": "Nat.eqb",
              "storage_options": "Nat.eqb", "zarr_compressor": "Nat.eqb"}
        out = []
        for c in conj:
            if not (isinstance(c, ast.Compare) and len(c.ops) == 1 and isinstance(c.ops[0], ast.Eq)):
                raise TranslationError("Spec.__eq__: conjunct is not an equality")
            l, r = _chain(c.left), _chain(c.comparators[0])
            if not (l and r and l[0] == "self" and r[0] == "other" and l[1] == r[1] and l[1] in FT):
                raise TranslationError(f"Spec.__eq__: conjunct {U(c)}")
            out.append(f"{FT[l[1]]} (SpecCfg.{l[1]} self) (SpecCfg.{l[1]} other)")
        return "Definition gen_Spec_eq (self other : SpecCfg.spec) : bool :=\n  " + " && ".join(out) + ".\n"
    if name == "check_array_specs":
        atree = ast.parse((Path(repo) / "cubed/core/array.py").read_text())
        fn = next((n for n in atree.body if isinstance(n, ast.FunctionDef) and n.name == "check_array_specs"), None)
        if fn is None:
            raise TranslationError("check_array_specs not found")
        b = _nodoc(fn.body)
        if not ([a.arg for a in fn.args.args] == ["arrays"] and len(b) == 3 and U(b[0]) == "specs = [a.spec for a in arrays if hasattr(a, 'spec')]"
                and isinstance(b[1], ast.If) and not b[1].orelse and U(b[1].test) == "not all((s == specs[0] for s in specs))"
                and len(b[1].body) == 1 and isinstance(b[1].body[0], ast.Raise) and U(b[1].body[0].exc.func) == "ValueError"
                and U(b[2]) == "return arrays[0].spec"):
            raise TranslationError("check_array_specs: shape")
        # s == specs[0] is Spec.__eq__(s, specs[0]); Spec.__eq__ compares field by field, so the argument order is immaterial (gen_Spec_eq_equiv)
        return ("Definition gen_check_array_specs (specs : list SpecCfg.spec) : option (option SpecCfg.spec) :=\n"
                "  match specs with [] => Some None | s0 :: _ => if negb (forallb (fun s => gen_Spec_eq s0 s) specs) then None else Some (Some s0) end.\n")
    if name in ("skip_node", "visit_nodes", "visit_node_generations"):
        ptree = ast.parse((Path(repo) / "cubed/runtime/pipeline.py").read_text())
        fn = next((n for n in ptree.body if isinstance(n, ast.FunctionDef) and n.name == name), None)
        if fn is None:
            raise TranslationError(f"{name} not found in cubed/runtime/pipeline.py")
        b = _nodoc(fn.body)
        NODES = "nodes = {n: d for n, d in dag.nodes(data=True)}"
        if name == "skip_node":
            # pipeline = nodes[name].get('pipeline', None); if pipeline is None: return True; return nodes[name].get('computed', False)
            if ([a.arg for a in fn.args.args] != ["name", "dag", "nodes"] or len(b) != 3 or U(b[0]) != "pipeline = nodes[name].get('pipeline', None)"
                    or not (isinstance(b[1], ast.If) and not b[1].orelse and len(b[1].body) == 1 and isinstance(b[1].body[0], ast.Return))
                    or U(b[2]) != "return nodes[name].get('computed', False)"):
                raise TranslationError("skip_node: shape")
            tr = TrObj({"pipeline": "option unit"})
            x = _is_none_test(b[1].test)
            if x != "pipeline":
                raise TranslationError("skip_node: test")
            then = TrObj({}).expr(b[1].body[0].value)
            return (f"Definition gen_skip_node (has_pipeline computed : bool) : bool :=\n  if negb has_pipeline then {then} else computed.\n")
        if name == "visit_nodes":
            # for name in list(nx.topological_sort(dag)): if skip_node(name, dag, nodes): continue; yield name, nodes[name]
            if (len(b) != 2 or U(b[0]) != NODES or not isinstance(b[1], ast.For) or b[1].orelse or U(b[1].target) != "name"
                    or U(b[1].iter) not in ("list(nx.topological_sort(dag))", "nx.topological_sort(dag)") or len(b[1].body) != 2
                    or U(b[1].body[0]) != "if skip_node(name, dag, nodes):\n    continue" or U(b[1].body[1]) not in ("yield (name, nodes[name])", "yield name, nodes[name]")):
                raise TranslationError("visit_nodes: shape")
            return "Definition gen_visit_nodes (skip : nat -> bool) (order : list nat) : list nat :=\n  filter (fun name => negb (skip name)) order.\n"
        # for names in nx.topological_generations(dag): gen = [(name, nodes[name]) for name in names if not skip_node(...)]; if len(gen) > 0: yield gen
        if (len(b) != 2 or U(b[0]) != NODES or not isinstance(b[1], ast.For) or b[1].orelse or U(b[1].target) != "names"
                or U(b[1].iter) != "nx.topological_generations(dag)" or len(b[1].body) != 2
                or U(b[1].body[0]) != "gen = [(name, nodes[name]) for name in names if not skip_node(name, dag, nodes)]"
                or U(b[1].body[1]) != "if len(gen) > 0:\n    yield gen"):
            raise TranslationError("visit_node_generations: shape")
        return ("Definition gen_visit_node_generations (skip : nat -> bool) (gens : list (list nat)) : list (list nat) :=\n"
                "  filter (fun gen => match gen with [] => false | _ => true end) (map (fun names => filter (fun name => negb (skip name)) names) gens).\n")
    if name == "already_computed":
        fn = next((n for n in tree.body if isinstance(n, ast.FunctionDef) and n.name == "already_computed"), None)
        if fn is None or [a.arg for a in fn.args.args] != ["name", "dag", "nodes"]:
            raise TranslationError("already_computed: not found / signature")
        b = _nodoc(fn.body)
        want = ["pipeline = nodes[name].get('pipeline', None)", "if pipeline is None:\n    return True",
                "if all([nodes[output].get('target', None) is None for output in dag.successors(name)]):\n    return False"]
        if len(b) != 5 or [U(x) for x in b[:3]] != want or U(b[4]) != "return True":
            raise TranslationError("already_computed: prologue / epilogue")
        loop = b[3]
        if not (isinstance(loop, ast.For) and not loop.orelse and U(loop.target) == "output" and U(loop.iter) == "dag.successors(name)" and len(loop.body) == 2
                and U(loop.body[0]) == "target = nodes[output].get('target', None)"):
            raise TranslationError("already_computed: loop header")
        g = loop.body[1]
        if not (isinstance(g, ast.If) and not g.orelse and U(g.test) == "target is not None" and len(g.body) == 1 and isinstance(g.body[0], ast.Try)):
            raise TranslationError("already_computed: target guard")
        t = g.body[0]
        if not (len(t.body) == 3 and not t.orelse and not t.finalbody and len(t.handlers) == 1
                and U(t.handlers[0].type) == "(ArrayNotFoundError, GroupNotFoundError)" and [U(x) for x in t.handlers[0].body] == ["return False"]
                and U(t.body[0]) == "target = open_if_lazy_zarr_array(target)"
                and isinstance(t.body[1], ast.If) and U(t.body[1].test) == "not hasattr(target, 'nchunks_initialized')" and not t.body[1].orelse
                and len(t.body[1].body) == 1 and isinstance(t.body[1].body[0], ast.Raise) and U(t.body[1].body[0].exc.func) == "NotImplementedError"
                and isinstance(t.body[2], ast.If) and not t.body[2].orelse and [U(x) for x in t.body[2].body] == ["return False"]):
            raise TranslationError("already_computed: try block")
        tr = Tr([("target", {"ndim": "Z", "nchunks_initialized": "Z", "nchunks": "Z"})])
        test = tr.expr(t.body[2].test)
        return (f"Definition gen_incomplete_test (target_ndim target_nchunks_initialized target_nchunks : Z) : bool := ({test})%Z.\n"
                "Definition gen_already_computed (has_pipeline : bool) (outs : list tgt) : option bool :=\n"
                "  already_computed_with gen_incomplete_test has_pipeline outs.\n")
    if name == "resume.wiring":
        # FinalizedPlan.execute marks nodes computed only through already_computed, only when resume is requested
        ex = _method(tree, "FinalizedPlan", "execute")
        marks = [n for n in ast.walk(tree) if isinstance(n, ast.Assign) and any("'computed'" in U(t_) or '"computed"' in U(t_) for t_ in n.targets)]
        inex = [n for n in ast.walk(ex) if n in marks]
        if len(marks) != 1 or len(inex) != 1 or U(marks[0].value) != "already_computed(name, dag, nodes)":
            raise TranslationError("the 'computed' mark must be set in one place, FinalizedPlan.execute, from already_computed(name, dag, nodes)")
        guard = [n for n in ast.walk(ex) if isinstance(n, ast.If) and marks[0] in list(ast.walk(n))]
        if not guard or U(guard[0].test) != "resume":
            raise TranslationError("the 'computed' marks must be guarded by `if resume:`")
        return "(* resume.wiring: 'computed' is set only by FinalizedPlan.execute under `if resume:` from already_computed *)\n"
    raise TranslationError(name)


def translate_obj(name, repo):
    if name in ADMISSION_KERNELS:
        return translate_admission(name, repo)
    path, params, kwonly, result = OBJ_KERNELS[name]
    tree = ast.parse((Path(repo) / path).read_text())
    fname = name.split(".")[0]
    fn = next((n for n in tree.body if isinstance(n, ast.FunctionDef) and n.name == fname), None)
    if fn is None:
        raise TranslationError(f"{fname} not found in {path}")
    if name == "fuse_multiple.fields":
        if [a.arg for a in fn.args.args] != ["primitive_op"] or fn.args.vararg is None or fn.args.vararg.arg != "predecessor_primitive_ops" or fn.args.kwonlyargs:
            raise TranslationError("fuse_multiple: signature changed")
        tr = TrObj({"primitive_op": "pview", "predecessor_primitive_ops": "list (option pview)"})
        rets = [n for n in ast.walk(fn) if isinstance(n, ast.Return)]
        if len(rets) != 1 or not (isinstance(rets[0].value, ast.Call) and isinstance(rets[0].value.func, ast.Name) and rets[0].value.func.id == "PrimitiveOperation"):
            raise TranslationError("fuse_multiple must end in a single return PrimitiveOperation(...)")
        kws = {k.arg: k.value for k in rets[0].value.keywords}
        out = []
        for f in FUSE_FIELDS:
            if f not in kws:
                raise TranslationError(f"fuse_multiple: PrimitiveOperation(...) without {f}=")
            v = kws[f]
            if isinstance(v, ast.Name) and v.id not in tr.env:
                stores = [n for n in ast.walk(fn) if isinstance(n, (ast.Assign, ast.AugAssign, ast.AnnAssign, ast.For, ast.NamedExpr, ast.With))
                          and any(isinstance(t, ast.Name) and t.id == v.id and isinstance(t.ctx, ast.Store) for t in ast.walk(n))]
                top = [n for n in fn.body if isinstance(n, ast.Assign) and len(n.targets) == 1 and isinstance(n.targets[0], ast.Name) and n.targets[0].id == v.id]
                if len(stores) != 1 or len(top) != 1:
                    raise TranslationError(f"fuse_multiple: {v.id} must be assigned exactly once, at the top level")
                v = top[0].value
            out.append(tr.expr(v))
        return ("Definition gen_fuse_multiple_fields (primitive_op : pview) (predecessor_primitive_ops : list (option pview)) : Z * Z * Z * Z :=\n"
                f"  ({', '.join(out)})%Z.\n")
    argnames = [a.arg for a in fn.args.args]
    kwnames = [a.arg for a in fn.args.kwonlyargs]
    if argnames != [p for p, _ in params] or kwnames != [p for p, _ in kwonly] or fn.args.vararg or fn.args.kwarg:
        raise TranslationError(f"{name}: parameters {argnames} / {kwnames} differ from the declared ones")
    allp = [(p, t) for p, t in params + kwonly if t]
    body = TrObj(allp).block(fn.body)
    binders = " ".join(f"({p} : {t})" for p, t in allp)
    return f"Definition gen_{name} {binders} : {result} :=\n  ({body})%Z.\n"


class Tr:
    def __init__(self, params, nat=False):
        self.records = {n: t for n, t in params if isinstance(t, dict)}
        self.nat = nat
        self.M = "Nat" if nat else "Z"

    def expr(self, e):
        if isinstance(e, ast.Name):
            return e.id
        if isinstance(e, ast.Constant) and isinstance(e.value, int) and not isinstance(e.value, bool):
            return f"({e.value})"
        if isinstance(e, ast.Attribute) and isinstance(e.value, ast.Name) and getattr(self, "obj", None) == e.value.id and e.attr == "projected_mem":
            return f"{e.value.id}_projected_mem"
        if (isinstance(e, ast.Call) and isinstance(e.func, ast.Name) and e.func.id == "chunk_memory" and len(e.args) == 1
                and isinstance(e.args[0], ast.Attribute) and isinstance(e.args[0].value, ast.Name) and getattr(self, "obj", None) == e.args[0].value.id
                and e.args[0].attr == "target_array"):
            return f"{e.args[0].value.id}_chunkmem"
        if isinstance(e, ast.Attribute) and isinstance(e.value, ast.Name) and getattr(self, "modeller", None) == e.value.id and e.attr == "peak_mem":
            return f"(snd {e.value.id})"
        if isinstance(e, ast.Attribute) and isinstance(e.value, ast.Name) and e.value.id in self.records and e.attr in self.records[e.value.id]:
            return f"{e.value.id}_{e.attr}"
        if isinstance(e, ast.Subscript) and isinstance(e.value, ast.Name):
            # c[0], c[-1], c[:-1] on a list of numbers
            sl = e.slice
            if isinstance(sl, ast.Constant) and sl.value == 0:
                return f"(hd 0 {e.value.id})"
            if isinstance(sl, ast.UnaryOp) and isinstance(sl.op, ast.USub) and isinstance(sl.operand, ast.Constant) and sl.operand.value == 1:
                return f"(last {e.value.id} 0)"
            if (isinstance(sl, ast.Slice) and sl.lower is None and sl.step is None and isinstance(sl.upper, ast.UnaryOp)
                    and isinstance(sl.upper.op, ast.USub) and isinstance(sl.upper.operand, ast.Constant) and sl.upper.operand.value == 1):
                return f"(removelast {e.value.id})"
            raise TranslationError("subscript")
        if isinstance(e, ast.BinOp):
            ops = {ast.Add: "+", ast.Sub: "-", ast.Mult: "*", ast.FloorDiv: "/", ast.Mod: "mod"}
            if self.nat and isinstance(e.op, ast.Sub):
                raise TranslationError("subtraction in a natural-number kernel")
            if type(e.op) not in ops:
                raise TranslationError(f"operator {type(e.op).__name__}")
            return f"({self.expr(e.left)} {ops[type(e.op)]} {self.expr(e.right)})"
        if isinstance(e, ast.Compare) and len(e.ops) == 1:
            l, r = self.expr(e.left), self.expr(e.comparators[0])
            op = e.ops[0]
            if isinstance(op, ast.LtE): return f"({l} <=? {r})"
            if isinstance(op, ast.Lt): return f"({l} <? {r})"
            if isinstance(op, ast.GtE): return f"({r} <=? {l})"
            if isinstance(op, ast.Gt): return f"({r} <? {l})"
            if isinstance(op, ast.Eq): return f"({l} =? {r})"
            if isinstance(op, ast.NotEq): return f"(negb ({l} =? {r}))"
            raise TranslationError(f"comparison {type(op).__name__}")
        if isinstance(e, ast.BoolOp):
            j = " || " if isinstance(e.op, ast.Or) else " && "
            return "(" + j.join(self.expr(v) for v in e.values) + ")"
        if isinstance(e, ast.UnaryOp) and isinstance(e.op, ast.Not):
            return f"(negb {self.expr(e.operand)})"
        if isinstance(e, ast.IfExp):
            return f"(if {self.expr(e.test)} then {self.expr(e.body)} else {self.expr(e.orelse)})"
        if isinstance(e, ast.Call) and isinstance(e.func, ast.Name):
            fn = e.func.id
            if fn in ("min", "max") and len(e.args) == 2 and not e.keywords:
                return f"({self.M}.{fn} {self.expr(e.args[0])} {self.expr(e.args[1])})"
            if fn == "len" and len(e.args) == 1 and self.nat:
                a = e.args[0]
                if isinstance(a, ast.Call) and isinstance(a.func, ast.Name) and a.func.id == "set" and len(a.args) == 1:
                    return f"(distinct_count {self.expr(a.args[0])})"
                return f"(length {self.expr(a)})"
            if (fn == "prod" and len(e.args) == 1 and isinstance(e.args[0], ast.Call) and isinstance(e.args[0].func, ast.Name)
                    and e.args[0].func.id == "map" and len(e.args[0].args) == 4 and isinstance(e.args[0].args[0], ast.Name)
                    and e.args[0].args[0].id in KERNELS):
                m = e.args[0]
                xs = [self.expr(a) for a in m.args[1:]]
                return f"(prodz (map3 (fun a_ b_ c_ => gen_{m.args[0].id} a_ b_ c_) {' '.join(xs)}))"
            if fn in KERNELS and not e.keywords:
                return f"(gen_{fn} {' '.join(self.expr(a) for a in e.args)})"
            if fn == "lcm" and len(e.args) == 2:
                return f"(Z.lcm {self.expr(e.args[0])} {self.expr(e.args[1])})"
            if fn == "ceil" and len(e.args) == 1 and isinstance(e.args[0], ast.BinOp) and isinstance(e.args[0].op, ast.Div):
                return f"(cdiv {self.expr(e.args[0].left)} {self.expr(e.args[0].right)})"
            if fn == "tuple" and len(e.args) == 1 and isinstance(e.args[0], ast.GeneratorExp):
                return self.genexp(e.args[0])
        raise TranslationError(f"expression {ast.dump(e)[:80]}")

    def genexp(self, g):
        if len(g.generators) != 1 or g.generators[0].ifs:
            raise TranslationError("generator shape")
        gen = g.generators[0]
        it = gen.iter
        if isinstance(it, ast.Name) and isinstance(gen.target, ast.Name):
            return f"(map (fun {gen.target.id} => {self.expr(g.elt)}) {it.id})"
        if not (isinstance(it, ast.Call) and isinstance(it.func, ast.Name) and it.func.id == "zip" and isinstance(gen.target, ast.Tuple)):
            raise TranslationError("generator must iterate over zip(...) with a tuple target")
        names = [t.id for t in gen.target.elts]
        srcs = [self.expr(a) for a in it.args]
        if len(names) != len(srcs) or len(names) not in (2, 3):
            raise TranslationError("zip arity")
        body = self.expr(g.elt)
        return f"(map{len(names)} (fun {' '.join(names)} => {body}) {' '.join(srcs)})"

    def modeller_stmts(self, body):
        """statements inside the loop over primitive ops: local assignments and modeller.allocate / .free calls"""
        if not body:
            return self.modeller
        s, rest = body[0], body[1:]
        m = self.modeller
        if isinstance(s, ast.Assign) and len(s.targets) == 1 and isinstance(s.targets[0], ast.Name):
            return f"let {s.targets[0].id} := {self.expr(s.value)} in {self.modeller_stmts(rest)}"
        if (isinstance(s, ast.Expr) and isinstance(s.value, ast.Call) and isinstance(s.value.func, ast.Attribute)
                and isinstance(s.value.func.value, ast.Name) and s.value.func.value.id == m and s.value.func.attr in ("allocate", "free")
                and len(s.value.args) == 1 and not s.value.keywords):
            meth = f"gen_MemoryModeller_{s.value.func.attr}"
            return f"let {m} := {meth} (fst {m}) (snd {m}) {self.expr(s.value.args[0])} in {self.modeller_stmts(rest)}"
        raise TranslationError(f"statement in the modeller loop at line {getattr(s, 'lineno', '?')}")

    def cond(self, test):
        # truthiness of an int name: `if remainder:`
        if isinstance(test, ast.Name):
            return f"(negb ({test.id} =? 0))"
        return self.expr(test)

    def stmts(self, body, result):
        if not body:
            raise TranslationError("function does not end with return")
        s, rest = body[0], body[1:]
        if isinstance(s, ast.Expr) and isinstance(s.value, ast.Constant) and isinstance(s.value.value, str):
            return self.stmts(rest, result)
        if isinstance(s, ast.Return):
            if rest:
                raise TranslationError("code after return")
            if result.startswith("option"):
                return f"Some {self.expr(s.value)}"
            return self.expr(s.value)
        # `if <test>: raise ...` in a function whose result is an option: refusal
        if (isinstance(s, ast.If) and not s.orelse and len(s.body) == 1 and isinstance(s.body[0], ast.Raise) and result.startswith("option")):
            return f"if {self.cond(s.test)} then None else\n  {self.stmts(rest, result)}"
        # `for x in xs: (if t: continue | if t: return False)* ; return True`  ==  forallb
        if (isinstance(s, ast.For) and isinstance(s.target, ast.Name) and not s.orelse and result == "bool" and len(rest) == 1
                and isinstance(rest[0], ast.Return) and isinstance(rest[0].value, ast.Constant) and rest[0].value.value is True
                and all(isinstance(b, ast.If) and not b.orelse and len(b.body) == 1 for b in s.body)):
            inner = "true"
            for b in reversed(s.body):
                act = b.body[0]
                if isinstance(act, ast.Continue):
                    inner = f"if {self.cond(b.test)} then true else {inner}"
                elif isinstance(act, ast.Return) and isinstance(act.value, ast.Constant) and act.value.value is False:
                    inner = f"if {self.cond(b.test)} then false else {inner}"
                else:
                    raise TranslationError("loop body of a forall-loop")
            return f"forallb (fun {s.target.id} => {inner}) {self.expr(s.iter)}"
        # memory_modeller = MemoryModeller(): the modeller state (current_mem, peak_mem) starts at (0, 0)
        if (isinstance(s, ast.Assign) and len(s.targets) == 1 and isinstance(s.targets[0], ast.Name) and isinstance(s.value, ast.Call)
                and isinstance(s.value.func, ast.Name) and s.value.func.id == "MemoryModeller" and not s.value.args and not s.value.keywords):
            self.modeller = s.targets[0].id
            return f"let {self.modeller} := ((0), (0)) in\n  {self.stmts(rest, result)}"
        # for p in ops: [if p is None: continue]; statements over p's fields and the modeller
        if (isinstance(s, ast.For) and isinstance(s.target, ast.Name) and not s.orelse and getattr(self, "modeller", None)
                and s.body and isinstance(s.body[0], ast.If) and isinstance(s.body[0].test, ast.Compare)
                and isinstance(s.body[0].test.left, ast.Name) and s.body[0].test.left.id == s.target.id
                and isinstance(s.body[0].test.ops[0], ast.Is) and isinstance(s.body[0].test.comparators[0], ast.Constant)
                and s.body[0].test.comparators[0].value is None and len(s.body[0].body) == 1 and isinstance(s.body[0].body[0], ast.Continue)
                and not s.body[0].orelse):
            p_ = s.target.id
            self.obj = p_
            inner = self.modeller_stmts(s.body[1:])
            self.obj = None
            m = self.modeller
            return (f"let {m} := fold_left (fun {m} {p_}_opt => match {p_}_opt with None => {m} | Some ({p_}_projected_mem, {p_}_chunkmem) =>\n"
                    f"      {inner} end) {self.expr(s.iter)} {m} in\n  {self.stmts(rest, result)}")
        # method: self.f = e / self.f op= e on declared record fields; falling off the end returns the state
        if isinstance(s, (ast.Assign, ast.AugAssign)) and "self" in self.records:
            t = s.targets[0] if isinstance(s, ast.Assign) and len(s.targets) == 1 else getattr(s, "target", None)
            if isinstance(t, ast.Attribute) and isinstance(t.value, ast.Name) and t.value.id == "self" and t.attr in self.records["self"]:
                v = f"self_{t.attr}"
                if isinstance(s, ast.Assign):
                    val = self.expr(s.value)
                elif isinstance(s.op, (ast.Add, ast.Sub)):
                    val = f"({v} {'+' if isinstance(s.op, ast.Add) else '-'} {self.expr(s.value)})"
                else:
                    raise TranslationError("augmented assignment operator")
                tail = self.stmts(rest, result) if rest else "(" + ", ".join(f"self_{k}" for k in self.records["self"]) + ")"
                return f"let {v} := {val} in\n  {tail}"
        if isinstance(s, ast.Assign) and len(s.targets) == 1:
            t = s.targets[0]
            if isinstance(t, ast.Name):
                return f"let {t.id} := {self.expr(s.value)} in\n  {self.stmts(rest, result)}"
            if (isinstance(t, ast.Tuple) and len(t.elts) == 2 and isinstance(s.value, ast.Call) and isinstance(s.value.func, ast.Name)
                    and s.value.func.id == "divmod" and len(s.value.args) == 2):
                a, b = self.expr(s.value.args[0]), self.expr(s.value.args[1])
                q, r = t.elts[0].id, t.elts[1].id
                return f"let {q} := ({a} / {b}) in\n  let {r} := ({a} mod {b}) in\n  {self.stmts(rest, result)}"
        if isinstance(s, ast.AugAssign) and isinstance(s.op, ast.Add) and isinstance(s.target, ast.Name):
            v = s.target.id
            return f"let {v} := ({v} + {self.expr(s.value)}) in\n  {self.stmts(rest, result)}"
        if isinstance(s, ast.For) and isinstance(s.target, ast.Name) and not s.orelse:
            acc = None
            steps = []
            for b in s.body:
                if isinstance(b, ast.AugAssign) and isinstance(b.op, ast.Add) and isinstance(b.target, ast.Name):
                    name, val = b.target.id, f"({b.target.id} + {self.expr(b.value)})"
                elif isinstance(b, ast.Assign) and len(b.targets) == 1 and isinstance(b.targets[0], ast.Name):
                    name, val = b.targets[0].id, self.expr(b.value)
                else:
                    raise TranslationError("loop body")
                if acc not in (None, name):
                    raise TranslationError("loop with two accumulators")
                acc = name
                steps.append(val)
            inner = " ".join(f"let {acc} := {v} in" for v in steps) + f" {acc}"
            return (f"let {acc} := fold_left (fun {acc} {s.target.id} => {inner}) {self.expr(s.iter)} {acc} in\n  "
                    f"{self.stmts(rest, result)}")
        if isinstance(s, ast.If) and len(s.body) == 1 and len(s.orelse) == 1:
            a, b = s.body[0], s.orelse[0]
            if (isinstance(a, ast.Assign) and isinstance(b, ast.Assign) and len(a.targets) == 1 and len(b.targets) == 1
                    and isinstance(a.targets[0], ast.Name) and isinstance(b.targets[0], ast.Name) and a.targets[0].id == b.targets[0].id):
                v = a.targets[0].id
                return f"let {v} := (if {self.cond(s.test)} then {self.expr(a.value)} else {self.expr(b.value)}) in\n  {self.stmts(rest, result)}"
        raise TranslationError(f"statement {type(s).__name__} at line {getattr(s, 'lineno', '?')}")


def translate(name, repo=None):
    repo = repo or os.environ.get("VERIF_REPO", "/repo")
    path, params, result = KERNELS[name]
    tree = ast.parse((Path(repo) / path).read_text())
    if "." in name:
        cls, meth = name.split(".")
        cnode = next((n for n in ast.walk(tree) if isinstance(n, ast.ClassDef) and n.name == cls), None)
        fn = next((n for n in (cnode.body if cnode else []) if isinstance(n, ast.FunctionDef) and n.name == meth), None)
    else:
        fn = next((n for n in tree.body if isinstance(n, ast.FunctionDef) and n.name == name), None)
    if fn is None:
        raise TranslationError(f"{name} not found in {path}")
    argnames = [a.arg for a in fn.args.args]
    if argnames != [p for p, _ in params] or fn.args.vararg or fn.args.kwarg or fn.args.kwonlyargs:
        raise TranslationError(f"{name}: parameters {argnames} differ from the declared {[p for p, _ in params]}")
    binders = []
    for p, t in params:
        if isinstance(t, dict):
            binders += [f"({p}_{k} : {v})" for k, v in t.items()]
        else:
            binders.append(f"({p} : {t})")
    body = Tr(params, nat=name in NAT_KERNELS).stmts(fn.body, result)
    scope = "%nat" if name in NAT_KERNELS else "%Z"
    return f"Definition gen_{name.replace('.', '_')} {' '.join(binders)} : {result} :=\n  ({body}){scope}.\n"


def check(names=None, repo=None, tag="all"):
    """Translate the named kernels (+ the kernels they call) from `repo`, compile, check their equivalences.
    Returns (ok, message, generated text)."""
    names = list(names or list(KERNELS) + list(OBJ_KERNELS) + ADMISSION_KERNELS)
    order = []
    for n in names:
        for d in DEPS.get(n, []) + [n]:
            if d not in order:
                order.append(d)
    repo = repo or os.environ.get("VERIF_REPO", "/repo")
    gen = VERIF / "build" / "gen" / (tag + ("" if repo == "/repo" else "_" + "".join(ch if ch.isalnum() else "_" for ch in repo)))
    gen.mkdir(parents=True, exist_ok=True)
    try:
        defs = [translate_obj(n, repo) if (n in OBJ_KERNELS or n in ADMISSION_KERNELS) else translate(n, repo) for n in order]
    except TranslationError as e:
        return False, f"translation failed (source left the translatable subset or changed signature): {e}", ""
    except Exception as e:
        return False, f"translation failed: {type(e).__name__}: {e}", ""
    text = ("(* GENERATED on every run from /repo by harness/translate.py - do not edit *)\n"
            "From CubedV Require Import Model.Util Model.Memory Model.Rechunk Model.Regular Model.Dag Model.FuseGuard Model.Admission Model.Resume Model.SpecCfg Model.Geometry Model.StoreGuard Model.IndexGuard.\nLocal Open Scope Z_scope.\n\n" + "\n".join(defs))
    (gen / "Gen.v").write_text(text)
    import re as _re
    equiv = "".join(EQUIV[n] for n in order)
    thms = _re.findall(r"^(?:Theorem|Corollary) (\w+)", equiv, _re.M)
    (gen / "GenEquiv.v").write_text(GEN_HEADER + equiv + "\n" + "".join(f"Print Assumptions {t}.\n" for t in thms))
    for f in ("Gen.v", "GenEquiv.v"):
        p = subprocess.run(["timeout", "300", "coqc", "-Q", str(VERIF / "coq"), "CubedV", "-Q", str(gen), "Gen", f], cwd=gen,
                           stdout=subprocess.PIPE, stderr=subprocess.STDOUT, text=True)
        if p.returncode != 0:
            return False, f"{f} does not check: the code of a translated kernel no longer equals its model\n{p.stdout[-1200:]}", text
    closed = p.stdout.count("Closed under the global context")
    if closed != len(thms):
        return False, f"GenEquiv.v: {len(thms) - closed} of {len(thms)} equivalence theorems depend on axioms\n{p.stdout[-1200:]}", text
    return True, (f"{len(order)} kernels translated from /repo and proved equal to their models: {', '.join(order)} "
                  f"({len(thms)} equivalence theorems / source-level corollaries, all closed under the global context)"), text


if __name__ == "__main__":
    ok, msg, text = check()
    print(text)
    print(ok, msg)
