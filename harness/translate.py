"""A small fail-closed translator from Python source (ast) to Gallina for the pure integer kernels of cubed.
On every run the listed functions are re-translated from /repo's current source into build/gen/Gen.v and the
equivalence lemmas `gen_<f> = <model function>` (GENEQUIV below) are re-checked by coqc: a change of one of these
kernels that alters its meaning breaks a proof obligation (or, if the new source leaves the subset, the
translation fails), independently of the generated-input correspondences.

Subset: a function whose body is a docstring, simple assignments, augmented assignments (+=), `for x in xs:` loops
whose body only (aug-)assigns ONE accumulator, `a, b = divmod(x, y)`, an if/else assigning the same single name
in both branches, and a final `return`.  Expressions: names, ints, attribute access on a declared record
parameter, + - * // %, comparisons, and/or/not, conditional expressions, min/max/lcm/ceil(a / b),
tuple(<generator over zip(...)>).  Anything else raises TranslationError.  Python ints are Z; `//` and `%` are
Z.div / Z.modulo (both floor for positive divisors, as Python's); `ceil(a / b)` on positive ints is cdiv."""
from __future__ import annotations

import ast
import os
import subprocess
from pathlib import Path

VERIF = Path("/verif")


class TranslationError(Exception):
    pass


# function -> (source file, parameter types, result type)
KERNELS = {
    "calculate_projected_mem": ("cubed/primitive/memory.py",
                                [("reserved_mem", "Z"), ("inputs", "list Z"), ("operation", "Z"), ("output", "Z"),
                                 ("buffer_copies", {"read": "Z", "write": "Z"})], "Z"),
    "_fix_copy_chunks": ("cubed/core/rechunk.py", [("shape", "list Z"), ("copy_chunks", "list Z"), ("target_chunks", "list Z")], "list Z"),
    "_calculate_shared_chunks": ("cubed/vendor/rechunker/algorithm.py", [("read_chunks", "list Z"), ("write_chunks", "list Z")], "list Z"),
    "_count_intermediate_chunks": ("cubed/vendor/rechunker/algorithm.py", [("source_chunk", "Z"), ("target_chunk", "Z"), ("size", "Z")], "Z"),
    "calculate_single_stage_io_ops": ("cubed/vendor/rechunker/algorithm.py", [("shape", "list Z"), ("in_chunks", "list Z"), ("out_chunks", "list Z")], "Z"),
    # peak_projected_mem: primitive ops are records (projected_mem, chunk memory of the target); None entries are skipped
    "peak_projected_mem": ("cubed/primitive/blockwise.py", [("primitive_ops", "list (option (Z * Z))")], "Z"),
    # natural-number kernels (lengths and chunk sizes): no subtraction occurs in them
    "_check_regular_chunks": ("cubed/vendor/dask/array/core.py", [("chunkset", "list (list nat)")], "bool"),
    "to_chunksize": ("cubed/utils.py", [("chunkset", "list (list nat)")], "option (list nat)"),
    # methods of MemoryModeller: state (current_mem, peak_mem) -> state
    "MemoryModeller.allocate": ("cubed/primitive/memory.py", [("self", {"current_mem": "Z", "peak_mem": "Z"}), ("num_bytes", "Z")], "Z * Z"),
    "MemoryModeller.free": ("cubed/primitive/memory.py", [("self", {"current_mem": "Z", "peak_mem": "Z"}), ("num_bytes", "Z")], "Z * Z"),
}
NAT_KERNELS = {"_check_regular_chunks", "to_chunksize"}

GEN_HEADER = r"""
From CubedV Require Import Model.Util Model.Memory Model.Rechunk Model.Regular.
From Gen Require Import Gen.
Local Open Scope Z_scope.

Lemma map2_map3_ext_ {A B C D} (f g : A -> B -> C -> D) a b c : (forall x y z, f x y z = g x y z) -> map3 f a b c = map3 g a b c.
Proof. intros H. revert b c. induction a as [|x a IH]; intros [|y b] [|z c]; cbn; try reflexivity. now rewrite H, IH. Qed.
"""

# kernel -> the equivalence with the hand-written model that Coq must accept
EQUIV = {
    "calculate_projected_mem": r"""
Theorem gen_calculate_projected_mem_equiv : forall reserved inputs operation output rc wc,
  gen_calculate_projected_mem reserved inputs operation output rc wc = calc_projected reserved inputs operation output rc wc.
Proof. intros. reflexivity. Qed.
""",
    "_fix_copy_chunks": r"""
Theorem gen__fix_copy_chunks_equiv : forall shape cc tc, gen__fix_copy_chunks shape cc tc = fix_copy_chunks shape cc tc.
Proof. intros. reflexivity. Qed.
""",
    "_calculate_shared_chunks": r"""
Theorem gen__calculate_shared_chunks_equiv : forall r w, gen__calculate_shared_chunks r w = shared_chunks r w.
Proof. intros. reflexivity. Qed.
""",
    "_count_intermediate_chunks": r"""
Theorem gen__count_intermediate_chunks_equiv : forall sc tc size,
  gen__count_intermediate_chunks sc tc size = count_intermediate sc tc size.
Proof.
  intros. unfold gen__count_intermediate_chunks, count_intermediate.
  destruct (size mod Z.lcm sc tc =? 0); reflexivity.
Qed.
""",
    "_check_regular_chunks": r"""
Theorem gen__check_regular_chunks_equiv : forall cs, gen__check_regular_chunks cs = Regular.check_regular cs.
Proof. intros. reflexivity. Qed.
""",
    "to_chunksize": r"""
Theorem gen_to_chunksize_equiv : forall cs, gen_to_chunksize cs = Regular.to_chunksize cs.
Proof. intros. reflexivity. Qed.
""",
    "calculate_single_stage_io_ops": r"""
Lemma map3_rotate {A B C D} (f : A -> B -> C -> D) : forall a b c,
  map3 (fun x y z => f x y z) a b c = map3 (fun z x y => f x y z) c a b.
Proof. induction a as [|x a IH]; intros [|y b] [|z c]; cbn; try reflexivity. now rewrite IH. Qed.

Theorem gen_calculate_single_stage_io_ops_equiv : forall shape inc outc,
  gen_calculate_single_stage_io_ops shape inc outc = io_ops shape inc outc.
Proof.
  intros. unfold gen_calculate_single_stage_io_ops, io_ops. f_equal.
  rewrite (map3_rotate (fun a_ b_ c_ => gen__count_intermediate_chunks a_ b_ c_) inc outc shape).
  apply map2_map3_ext_. intros. apply gen__count_intermediate_chunks_equiv.
Qed.
""",
    "peak_projected_mem": r"""
Definition mm_pair (m : mm) : Z * Z := (cur m, peak m).
Lemma gen_peak_fold : forall (ps : list (option (Z * Z))) m,
  fold_left (fun memory_modeller p_opt => match p_opt with None => memory_modeller | Some (p_projected_mem, p_chunkmem) =>
      let memory_modeller := gen_MemoryModeller_allocate (fst memory_modeller) (snd memory_modeller) p_projected_mem in
      let chunkmem := p_chunkmem in
      let memory_modeller := gen_MemoryModeller_free (fst memory_modeller) (snd memory_modeller) (p_projected_mem - chunkmem) in memory_modeller end) ps (mm_pair m)
  = mm_pair (fold_left peak_step (flat_map (fun o => match o with None => [] | Some p => [p] end) ps) m).
Proof.
  induction ps as [|[[pm cm]|] ps IH]; intros m; cbn [fold_left flat_map app].
  - reflexivity.
  - rewrite <- IH. f_equal.
  - apply IH.
Qed.

Theorem gen_peak_projected_mem_equiv : forall ps,
  gen_peak_projected_mem ps = peak_projected (flat_map (fun o => match o with None => [] | Some p => [p] end) ps).
Proof.
  intros. unfold gen_peak_projected_mem, peak_projected.
  change ((0), (0)) with (mm_pair mm0).
  etransitivity; [|exact (f_equal snd (gen_peak_fold ps mm0))]. reflexivity.
Qed.
""",
    "MemoryModeller.allocate": r"""
Theorem gen_MemoryModeller_allocate_equiv : forall c p n,
  gen_MemoryModeller_allocate c p n = (cur (allocate {| cur := c; peak := p |} n), peak (allocate {| cur := c; peak := p |} n)).
Proof. intros. reflexivity. Qed.
""",
    "MemoryModeller.free": r"""
Theorem gen_MemoryModeller_free_equiv : forall c p n,
  gen_MemoryModeller_free c p n = (cur (free {| cur := c; peak := p |} n), peak (free {| cur := c; peak := p |} n)).
Proof. intros. reflexivity. Qed.
""",
}
DEPS = {"to_chunksize": ["_check_regular_chunks"], "calculate_single_stage_io_ops": ["_count_intermediate_chunks"],
        "peak_projected_mem": ["MemoryModeller.allocate", "MemoryModeller.free"]}



class Tr:
    def __init__(self, params, nat=False):
        self.records = {n: t for n, t in params if isinstance(t, dict)}
        self.nat = nat
        self.M = "Nat" if nat else "Z"

    def expr(self, e):
        if isinstance(e, ast.Name):
            return e.id
        if isinstance(e, ast.Constant) and isinstance(e.value, int) and not isinstance(e.value, bool):
            return f"({e.value})"
        if isinstance(e, ast.Attribute) and isinstance(e.value, ast.Name) and getattr(self, "obj", None) == e.value.id and e.attr == "projected_mem":
            return f"{e.value.id}_projected_mem"
        if (isinstance(e, ast.Call) and isinstance(e.func, ast.Name) and e.func.id == "chunk_memory" and len(e.args) == 1
                and isinstance(e.args[0], ast.Attribute) and isinstance(e.args[0].value, ast.Name) and getattr(self, "obj", None) == e.args[0].value.id
                and e.args[0].attr == "target_array"):
            return f"{e.args[0].value.id}_chunkmem"
        if isinstance(e, ast.Attribute) and isinstance(e.value, ast.Name) and getattr(self, "modeller", None) == e.value.id and e.attr == "peak_mem":
            return f"(snd {e.value.id})"
        if isinstance(e, ast.Attribute) and isinstance(e.value, ast.Name) and e.value.id in self.records and e.attr in self.records[e.value.id]:
            return f"{e.value.id}_{e.attr}"
        if isinstance(e, ast.Subscript) and isinstance(e.value, ast.Name):
            # c[0], c[-1], c[:-1] on a list of numbers
            sl = e.slice
            if isinstance(sl, ast.Constant) and sl.value == 0:
                return f"(hd 0 {e.value.id})"
            if isinstance(sl, ast.UnaryOp) and isinstance(sl.op, ast.USub) and isinstance(sl.operand, ast.Constant) and sl.operand.value == 1:
                return f"(last {e.value.id} 0)"
            if (isinstance(sl, ast.Slice) and sl.lower is None and sl.step is None and isinstance(sl.upper, ast.UnaryOp)
                    and isinstance(sl.upper.op, ast.USub) and isinstance(sl.upper.operand, ast.Constant) and sl.upper.operand.value == 1):
                return f"(removelast {e.value.id})"
            raise TranslationError("subscript")
        if isinstance(e, ast.BinOp):
            ops = {ast.Add: "+", ast.Sub: "-", ast.Mult: "*", ast.FloorDiv: "/", ast.Mod: "mod"}
            if self.nat and isinstance(e.op, ast.Sub):
                raise TranslationError("subtraction in a natural-number kernel")
            if type(e.op) not in ops:
                raise TranslationError(f"operator {type(e.op).__name__}")
            return f"({self.expr(e.left)} {ops[type(e.op)]} {self.expr(e.right)})"
        if isinstance(e, ast.Compare) and len(e.ops) == 1:
            l, r = self.expr(e.left), self.expr(e.comparators[0])
            op = e.ops[0]
            if isinstance(op, ast.LtE): return f"({l} <=? {r})"
            if isinstance(op, ast.Lt): return f"({l} <? {r})"
            if isinstance(op, ast.GtE): return f"({r} <=? {l})"
            if isinstance(op, ast.Gt): return f"({r} <? {l})"
            if isinstance(op, ast.Eq): return f"({l} =? {r})"
            if isinstance(op, ast.NotEq): return f"(negb ({l} =? {r}))"
            raise TranslationError(f"comparison {type(op).__name__}")
        if isinstance(e, ast.BoolOp):
            j = " || " if isinstance(e.op, ast.Or) else " && "
            return "(" + j.join(self.expr(v) for v in e.values) + ")"
        if isinstance(e, ast.UnaryOp) and isinstance(e.op, ast.Not):
            return f"(negb {self.expr(e.operand)})"
        if isinstance(e, ast.IfExp):
            return f"(if {self.expr(e.test)} then {self.expr(e.body)} else {self.expr(e.orelse)})"
        if isinstance(e, ast.Call) and isinstance(e.func, ast.Name):
            fn = e.func.id
            if fn in ("min", "max") and len(e.args) == 2 and not e.keywords:
                return f"({self.M}.{fn} {self.expr(e.args[0])} {self.expr(e.args[1])})"
            if fn == "len" and len(e.args) == 1 and self.nat:
                a = e.args[0]
                if isinstance(a, ast.Call) and isinstance(a.func, ast.Name) and a.func.id == "set" and len(a.args) == 1:
                    return f"(distinct_count {self.expr(a.args[0])})"
                return f"(length {self.expr(a)})"
            if (fn == "prod" and len(e.args) == 1 and isinstance(e.args[0], ast.Call) and isinstance(e.args[0].func, ast.Name)
                    and e.args[0].func.id == "map" and len(e.args[0].args) == 4 and isinstance(e.args[0].args[0], ast.Name)
                    and e.args[0].args[0].id in KERNELS):
                m = e.args[0]
                xs = [self.expr(a) for a in m.args[1:]]
                return f"(prodz (map3 (fun a_ b_ c_ => gen_{m.args[0].id} a_ b_ c_) {' '.join(xs)}))"
            if fn in KERNELS and not e.keywords:
                return f"(gen_{fn} {' '.join(self.expr(a) for a in e.args)})"
            if fn == "lcm" and len(e.args) == 2:
                return f"(Z.lcm {self.expr(e.args[0])} {self.expr(e.args[1])})"
            if fn == "ceil" and len(e.args) == 1 and isinstance(e.args[0], ast.BinOp) and isinstance(e.args[0].op, ast.Div):
                return f"(cdiv {self.expr(e.args[0].left)} {self.expr(e.args[0].right)})"
            if fn == "tuple" and len(e.args) == 1 and isinstance(e.args[0], ast.GeneratorExp):
                return self.genexp(e.args[0])
        raise TranslationError(f"expression {ast.dump(e)[:80]}")

    def genexp(self, g):
        if len(g.generators) != 1 or g.generators[0].ifs:
            raise TranslationError("generator shape")
        gen = g.generators[0]
        it = gen.iter
        if isinstance(it, ast.Name) and isinstance(gen.target, ast.Name):
            return f"(map (fun {gen.target.id} => {self.expr(g.elt)}) {it.id})"
        if not (isinstance(it, ast.Call) and isinstance(it.func, ast.Name) and it.func.id == "zip" and isinstance(gen.target, ast.Tuple)):
            raise TranslationError("generator must iterate over zip(...) with a tuple target")
        names = [t.id for t in gen.target.elts]
        srcs = [self.expr(a) for a in it.args]
        if len(names) != len(srcs) or len(names) not in (2, 3):
            raise TranslationError("zip arity")
        body = self.expr(g.elt)
        return f"(map{len(names)} (fun {' '.join(names)} => {body}) {' '.join(srcs)})"

    def modeller_stmts(self, body):
        """statements inside the loop over primitive ops: local assignments and modeller.allocate / .free calls"""
        if not body:
            return self.modeller
        s, rest = body[0], body[1:]
        m = self.modeller
        if isinstance(s, ast.Assign) and len(s.targets) == 1 and isinstance(s.targets[0], ast.Name):
            return f"let {s.targets[0].id} := {self.expr(s.value)} in {self.modeller_stmts(rest)}"
        if (isinstance(s, ast.Expr) and isinstance(s.value, ast.Call) and isinstance(s.value.func, ast.Attribute)
                and isinstance(s.value.func.value, ast.Name) and s.value.func.value.id == m and s.value.func.attr in ("allocate", "free")
                and len(s.value.args) == 1 and not s.value.keywords):
            meth = f"gen_MemoryModeller_{s.value.func.attr}"
            return f"let {m} := {meth} (fst {m}) (snd {m}) {self.expr(s.value.args[0])} in {self.modeller_stmts(rest)}"
        raise TranslationError(f"statement in the modeller loop at line {getattr(s, 'lineno', '?')}")

    def cond(self, test):
        # truthiness of an int name: `if remainder:`
        if isinstance(test, ast.Name):
            return f"(negb ({test.id} =? 0))"
        return self.expr(test)

    def stmts(self, body, result):
        if not body:
            raise TranslationError("function does not end with return")
        s, rest = body[0], body[1:]
        if isinstance(s, ast.Expr) and isinstance(s.value, ast.Constant) and isinstance(s.value.value, str):
            return self.stmts(rest, result)
        if isinstance(s, ast.Return):
            if rest:
                raise TranslationError("code after return")
            if result.startswith("option"):
                return f"Some {self.expr(s.value)}"
            return self.expr(s.value)
        # `if <test>: raise ...` in a function whose result is an option: refusal
        if (isinstance(s, ast.If) and not s.orelse and len(s.body) == 1 and isinstance(s.body[0], ast.Raise) and result.startswith("option")):
            return f"if {self.cond(s.test)} then None else\n  {self.stmts(rest, result)}"
        # `for x in xs: (if t: continue | if t: return False)* ; return True`  ==  forallb
        if (isinstance(s, ast.For) and isinstance(s.target, ast.Name) and not s.orelse and result == "bool" and len(rest) == 1
                and isinstance(rest[0], ast.Return) and isinstance(rest[0].value, ast.Constant) and rest[0].value.value is True
                and all(isinstance(b, ast.If) and not b.orelse and len(b.body) == 1 for b in s.body)):
            inner = "true"
            for b in reversed(s.body):
                act = b.body[0]
                if isinstance(act, ast.Continue):
                    inner = f"if {self.cond(b.test)} then true else {inner}"
                elif isinstance(act, ast.Return) and isinstance(act.value, ast.Constant) and act.value.value is False:
                    inner = f"if {self.cond(b.test)} then false else {inner}"
                else:
                    raise TranslationError("loop body of a forall-loop")
            return f"forallb (fun {s.target.id} => {inner}) {self.expr(s.iter)}"
        # memory_modeller = MemoryModeller(): the modeller state (current_mem, peak_mem) starts at (0, 0)
        if (isinstance(s, ast.Assign) and len(s.targets) == 1 and isinstance(s.targets[0], ast.Name) and isinstance(s.value, ast.Call)
                and isinstance(s.value.func, ast.Name) and s.value.func.id == "MemoryModeller" and not s.value.args and not s.value.keywords):
            self.modeller = s.targets[0].id
            return f"let {self.modeller} := ((0), (0)) in\n  {self.stmts(rest, result)}"
        # for p in ops: [if p is None: continue]; statements over p's fields and the modeller
        if (isinstance(s, ast.For) and isinstance(s.target, ast.Name) and not s.orelse and getattr(self, "modeller", None)
                and s.body and isinstance(s.body[0], ast.If) and isinstance(s.body[0].test, ast.Compare)
                and isinstance(s.body[0].test.left, ast.Name) and s.body[0].test.left.id == s.target.id
                and isinstance(s.body[0].test.ops[0], ast.Is) and isinstance(s.body[0].test.comparators[0], ast.Constant)
                and s.body[0].test.comparators[0].value is None and len(s.body[0].body) == 1 and isinstance(s.body[0].body[0], ast.Continue)
                and not s.body[0].orelse):
            p_ = s.target.id
            self.obj = p_
            inner = self.modeller_stmts(s.body[1:])
            self.obj = None
            m = self.modeller
            return (f"let {m} := fold_left (fun {m} {p_}_opt => match {p_}_opt with None => {m} | Some ({p_}_projected_mem, {p_}_chunkmem) =>\n"
                    f"      {inner} end) {self.expr(s.iter)} {m} in\n  {self.stmts(rest, result)}")
        # method: self.f = e / self.f op= e on declared record fields; falling off the end returns the state
        if isinstance(s, (ast.Assign, ast.AugAssign)) and "self" in self.records:
            t = s.targets[0] if isinstance(s, ast.Assign) and len(s.targets) == 1 else getattr(s, "target", None)
            if isinstance(t, ast.Attribute) and isinstance(t.value, ast.Name) and t.value.id == "self" and t.attr in self.records["self"]:
                v = f"self_{t.attr}"
                if isinstance(s, ast.Assign):
                    val = self.expr(s.value)
                elif isinstance(s.op, (ast.Add, ast.Sub)):
                    val = f"({v} {'+' if isinstance(s.op, ast.Add) else '-'} {self.expr(s.value)})"
                else:
                    raise TranslationError("augmented assignment operator")
                tail = self.stmts(rest, result) if rest else "(" + ", ".join(f"self_{k}" for k in self.records["self"]) + ")"
                return f"let {v} := {val} in\n  {tail}"
        if isinstance(s, ast.Assign) and len(s.targets) == 1:
            t = s.targets[0]
            if isinstance(t, ast.Name):
                return f"let {t.id} := {self.expr(s.value)} in\n  {self.stmts(rest, result)}"
            if (isinstance(t, ast.Tuple) and len(t.elts) == 2 and isinstance(s.value, ast.Call) and isinstance(s.value.func, ast.Name)
                    and s.value.func.id == "divmod" and len(s.value.args) == 2):
                a, b = self.expr(s.value.args[0]), self.expr(s.value.args[1])
                q, r = t.elts[0].id, t.elts[1].id
                return f"let {q} := ({a} / {b}) in\n  let {r} := ({a} mod {b}) in\n  {self.stmts(rest, result)}"
        if isinstance(s, ast.AugAssign) and isinstance(s.op, ast.Add) and isinstance(s.target, ast.Name):
            v = s.target.id
            return f"let {v} := ({v} + {self.expr(s.value)}) in\n  {self.stmts(rest, result)}"
        if isinstance(s, ast.For) and isinstance(s.target, ast.Name) and not s.orelse:
            acc = None
            steps = []
            for b in s.body:
                if isinstance(b, ast.AugAssign) and isinstance(b.op, ast.Add) and isinstance(b.target, ast.Name):
                    name, val = b.target.id, f"({b.target.id} + {self.expr(b.value)})"
                elif isinstance(b, ast.Assign) and len(b.targets) == 1 and isinstance(b.targets[0], ast.Name):
                    name, val = b.targets[0].id, self.expr(b.value)
                else:
                    raise TranslationError("loop body")
                if acc not in (None, name):
                    raise TranslationError("loop with two accumulators")
                acc = name
                steps.append(val)
            inner = " ".join(f"let {acc} := {v} in" for v in steps) + f" {acc}"
            return (f"let {acc} := fold_left (fun {acc} {s.target.id} => {inner}) {self.expr(s.iter)} {acc} in\n  "
                    f"{self.stmts(rest, result)}")
        if isinstance(s, ast.If) and len(s.body) == 1 and len(s.orelse) == 1:
            a, b = s.body[0], s.orelse[0]
            if (isinstance(a, ast.Assign) and isinstance(b, ast.Assign) and len(a.targets) == 1 and len(b.targets) == 1
                    and isinstance(a.targets[0], ast.Name) and isinstance(b.targets[0], ast.Name) and a.targets[0].id == b.targets[0].id):
                v = a.targets[0].id
                return f"let {v} := (if {self.cond(s.test)} then {self.expr(a.value)} else {self.expr(b.value)}) in\n  {self.stmts(rest, result)}"
        raise TranslationError(f"statement {type(s).__name__} at line {getattr(s, 'lineno', '?')}")


def translate(name, repo=None):
    repo = repo or os.environ.get("VERIF_REPO", "/repo")
    path, params, result = KERNELS[name]
    tree = ast.parse((Path(repo) / path).read_text())
    if "." in name:
        cls, meth = name.split(".")
        cnode = next((n for n in ast.walk(tree) if isinstance(n, ast.ClassDef) and n.name == cls), None)
        fn = next((n for n in (cnode.body if cnode else []) if isinstance(n, ast.FunctionDef) and n.name == meth), None)
    else:
        fn = next((n for n in tree.body if isinstance(n, ast.FunctionDef) and n.name == name), None)
    if fn is None:
        raise TranslationError(f"{name} not found in {path}")
    argnames = [a.arg for a in fn.args.args]
    if argnames != [p for p, _ in params] or fn.args.vararg or fn.args.kwarg or fn.args.kwonlyargs:
        raise TranslationError(f"{name}: parameters {argnames} differ from the declared {[p for p, _ in params]}")
    binders = []
    for p, t in params:
        if isinstance(t, dict):
            binders += [f"({p}_{k} : {v})" for k, v in t.items()]
        else:
            binders.append(f"({p} : {t})")
    body = Tr(params, nat=name in NAT_KERNELS).stmts(fn.body, result)
    scope = "%nat" if name in NAT_KERNELS else "%Z"
    return f"Definition gen_{name.replace('.', '_')} {' '.join(binders)} : {result} :=\n  ({body}){scope}.\n"


def check(names=None, repo=None, tag="all"):
    """Translate the named kernels (+ the kernels they call) from `repo`, compile, check their equivalences.
    Returns (ok, message, generated text)."""
    names = list(names or KERNELS)
    order = []
    for n in names:
        for d in DEPS.get(n, []) + [n]:
            if d not in order:
                order.append(d)
    repo = repo or os.environ.get("VERIF_REPO", "/repo")
    gen = VERIF / "build" / "gen" / (tag + ("" if repo == "/repo" else "_" + "".join(ch if ch.isalnum() else "_" for ch in repo)))
    gen.mkdir(parents=True, exist_ok=True)
    try:
        defs = [translate(n, repo) for n in order]
    except TranslationError as e:
        return False, f"translation failed (source left the translatable subset or changed signature): {e}", ""
    except Exception as e:
        return False, f"translation failed: {type(e).__name__}: {e}", ""
    text = ("(* GENERATED on every run from /repo by harness/translate.py - do not edit *)\n"
            "From CubedV Require Import Model.Util Model.Memory Model.Rechunk Model.Regular.\nLocal Open Scope Z_scope.\n\n" + "\n".join(defs))
    (gen / "Gen.v").write_text(text)
    (gen / "GenEquiv.v").write_text(GEN_HEADER + "".join(EQUIV[n] for n in order))
    for f in ("Gen.v", "GenEquiv.v"):
        p = subprocess.run(["timeout", "300", "coqc", "-Q", str(VERIF / "coq"), "CubedV", "-Q", str(gen), "Gen", f], cwd=gen,
                           stdout=subprocess.PIPE, stderr=subprocess.STDOUT, text=True)
        if p.returncode != 0:
            return False, f"{f} does not check: the code of a translated kernel no longer equals its model\n{p.stdout[-1200:]}", text
    return True, f"{len(order)} kernels translated from /repo and proved equal to their models: {', '.join(order)}", text


if __name__ == "__main__":
    ok, msg, text = check()
    print(text)
    print(ok, msg)
